-- Root of the `Nv` library. Property modules are built by name (`lake build Nv.Props.C18`);
-- this root only pulls in the shared, hand-written foundations.
import Nv.Basic
import Nv.OracleIO
