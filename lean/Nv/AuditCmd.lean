import Lean
/-!
`#audit_module M` prints, for every theorem declared in module `M`, the axioms it depends on:
one line `AXIOMS <theorem> [<axiom>, …]`. `bin/check` parses these lines and accepts only
`propext`, `Classical.choice`, `Quot.sound`.
-/
open Lean Elab Command

elab "#audit_module " id:ident : command => do
  let env ← getEnv
  let modName := id.getId
  let some idx := env.getModuleIdx? modName | throwError "unknown module {modName}"
  let mut names : Array Name := #[]
  for (name, ci) in env.constants.map₁.toList do
    if env.getModuleIdxFor? name == some idx then
      if let .thmInfo _ := ci then
        let last := match name with | .str _ s => s | _ => ""
        unless name.isInternalDetail || last.startsWith "eq_" || last.startsWith "match_" || last == "sizeOf_spec" || last == "injEq" || last == "inj" do
          names := names.push name
  let sorted := names.qsort (fun a b => a.toString < b.toString)
  for name in sorted do
    let axs ← Lean.collectAxioms name
    let axs := axs.qsort (fun a b => a.toString < b.toString)
    logInfo m!"AXIOMS {name} {axs.toList}"
  logInfo m!"AUDITED {modName} {sorted.size}"
