import Nv.Model.C11
/-!
C11 — abstract byte buffer: what `bytes.Buffer` promises, without storage, offsets or capacity.

State = the unread contents and what the last operation left for `Unread*`:
nothing, the last byte of a successful read, or the bytes of the rune a successful `ReadRune` consumed.
Validated against the sandbox's `bytes.Buffer` (Go 1.23.5) by the correspondence (second half of every line).
-/
namespace Nv.C11.Spec
open Nv.C11

inductive Last
  | invalid
  | read (b : UInt8)        -- last byte handed out by Read / Next / ReadByte
  | rune (bs : Bytes)       -- encoding consumed by ReadRune (1…4 bytes)
deriving DecidableEq, Repr

structure SSt where
  data : Bytes
  last : Last
deriving DecidableEq, Repr

def SSt.empty : SSt := ⟨[], .invalid⟩
def SSt.ofBytes (b : Bytes) : SSt := ⟨b, .invalid⟩

def lastOfTaken (d : Bytes) : Last :=
  match d.getLast? with
  | some b => .read b
  | none => .invalid

/-- bytes a scripted reader hands over, independent of the space offered (chunks ≤ MinRead always fit) -/
def delivered (greedy : Bool) : List Nat → Nat → Bytes → Bytes
  | [], tail, data => if greedy then data else data.take tail
  | k :: sizes, tail, data => data.take k ++ delivered greedy sizes tail (data.drop k)

def step (s : SSt) : Op → SSt × Out
  | .write p => (⟨s.data ++ p, .invalid⟩, .nErr p.length .nil)
  | .writeString p => (⟨s.data ++ p, .invalid⟩, .nErr p.length .nil)
  | .writeByte b => (⟨s.data ++ [b], .invalid⟩, .err .nil)
  | .writeRune r => (⟨s.data ++ encodeRune r, .invalid⟩, .nErr (encodeRune r).length .nil)
  | .read k =>
    if s.data.length = 0 then (⟨[], .invalid⟩, if k = 0 then .readRes 0 [] .nil else .readRes 0 [] .eof)
    else
      let d := s.data.take k
      (⟨s.data.drop k, lastOfTaken d⟩, .readRes d.length d .nil)
  | .next n =>
    if n < 0 then (⟨s.data, .invalid⟩, .panic .sliceBounds)
    else
      let d := s.data.take n.toNat
      (⟨s.data.drop n.toNat, lastOfTaken d⟩, .data d)
  | .readByte =>
    match s.data with
    | [] => (⟨[], .invalid⟩, .byteRes 0 .eof)
    | b :: rest => (⟨rest, .read b⟩, .byteRes b .nil)
  | .readRune =>
    match s.data with
    | [] => (⟨[], .invalid⟩, .runeRes 0 0 .eof)
    | b :: rest =>
      if b.toNat < 0x80 then (⟨rest, .rune [b]⟩, .runeRes b.toNat 1 .nil)
      else
        let rn := decodeRune (b :: rest)
        (⟨(b :: rest).drop rn.2, .rune ((b :: rest).take rn.2)⟩, .runeRes rn.1 rn.2 .nil)
  | .unreadByte =>
    match s.last with
    | .invalid => (s, .err .unreadByte)
    | .read b => (⟨b :: s.data, .invalid⟩, .err .nil)
    | .rune bs => (⟨bs.drop (bs.length - 1) ++ s.data, .invalid⟩, .err .nil)
  | .unreadRune =>
    match s.last with
    | .rune bs => (⟨bs ++ s.data, .invalid⟩, .err .nil)
    | _ => (s, .err .unreadRune)
  | .truncate n =>
    if n = 0 then (⟨[], .invalid⟩, .ok)
    else if n < 0 ∨ n > (s.data.length : Int) then (⟨s.data, .invalid⟩, .panic .truncateRange)
    else (⟨s.data.take n.toNat, .invalid⟩, .ok)
  | .reset => (⟨[], .invalid⟩, .ok)
  | .grow n =>
    if n < 0 then (s, .panic .growNegative)
    else
      let s1 : SSt := if s.data.length = 0 then ⟨[], .invalid⟩ else s
      if n.toNat > allocLimit then (s1, .panic .tooLarge) else (s1, .ok)
  | .readFrom r =>
    let d := delivered r.greedy r.sizes r.tail r.data
    match r.term with
    | .eof => (⟨s.data ++ d, .invalid⟩, .nErr d.length .nil)
    | .err => (⟨s.data ++ d, .invalid⟩, .nErr d.length .readerErr)
    | .neg => (⟨s.data ++ delivered r.greedy r.sizes 0 r.data, .invalid⟩, .panic .negativeRead)
    | .over => (⟨s.data ++ delivered r.greedy r.sizes 0 r.data, .invalid⟩, .panic .sliceBounds)
  | .writeTo w =>
    if s.data.length = 0 then (⟨[], .invalid⟩, .wrote 0 none .nil)
    else match w with
      | .over => (⟨s.data, .invalid⟩, .panic .invalidWriteCount)
      | .all => (⟨[], .invalid⟩, .wrote s.data.length (some s.data) .nil)
      | .short k =>
        let m := min k s.data.length
        if m = s.data.length then (⟨[], .invalid⟩, .wrote m (some s.data) .nil)
        else (⟨s.data.drop m, .invalid⟩, .wrote m (some s.data) .shortWrite)
      | .err k =>
        let m := min k s.data.length
        (⟨s.data.drop m, .invalid⟩, .wrote m (some s.data) .writerErr)
  | .len => (s, .int s.data.length)
  | .bytes => (s, .data s.data)
  | .string => (s, .data s.data)
  -- tex.Buffer only; not part of the abstract buffer
  | .cap => (s, .ok)
  | .off => (s, .ok)
  | .rewrite _ _ => (s, .ok)

end Nv.C11.Spec
