import Nv.Model.C01
/-!
C01 — reference behaviour of one semaphore map, written without tokens: per key a reader/writer lock with a
FIFO queue. `inside` = callers in the critical section, `queue` = blocked callers, oldest first; a caller is
(id, wantsWrite).

* a writer is compatible with nobody; a reader is compatible with fewer than rwRatio readers and no writer;
* `arrive`: admitted at once iff nobody is queued and it is compatible, else appended to the queue;
* `leave` / `abandon` (context ended): the caller is removed, then the queue is admitted from the front for as
  long as its head is compatible (`handOff`);
* the container has an entry for the key iff somebody is inside.

`Nv.C01.sem_refines_rwlock` (Props) proves that the model of the code (`M c rw`, repaired guard, `rw ≥ 1`)
and this machine accept the same action sequences and stay related step by step.
-/
namespace Nv.C01

/-- caller of the abstract lock: id, wants to write -/
abbrev C := Tid × Bool

structure RW where
  inside : List C
  queue : List C
deriving DecidableEq, Repr

def RW.init : RW := ⟨[], []⟩

def compatible (rw : Nat) (inside : List C) (wr : Bool) : Bool :=
  if wr then inside.isEmpty else inside.all (fun c => !c.2) && decide (inside.length < rw)

/-- let the queue in from the front while its head is compatible with those inside -/
def handOff (rw : Nat) : List C → List C → RW
  | ins, [] => ⟨ins, []⟩
  | ins, c :: q => if compatible rw ins c.2 then handOff rw (ins ++ [c]) q else ⟨ins, c :: q⟩

def RW.arrive (rw : Nat) (r : RW) (t : Tid) (wr : Bool) : RW :=
  if r.queue = [] ∧ compatible rw r.inside wr = true then { r with inside := r.inside ++ [(t, wr)] }
  else { r with queue := r.queue ++ [(t, wr)] }

def RW.leave (rw : Nat) (r : RW) (t : Tid) : RW := handOff rw (r.inside.filter (·.1 ≠ t)) r.queue

def RW.abandon (rw : Nat) (r : RW) (t : Tid) : RW := handOff rw r.inside (r.queue.filter (·.1 ≠ t))

def RW.isInside (t : Tid) (r : RW) : Bool := r.inside.any (·.1 == t)
def RW.isQueued (t : Tid) (r : RW) : Bool := r.queue.any (·.1 == t)
def RW.present (r : RW) : Bool := !r.inside.isEmpty

def RW.step (rw : Nat) (r : RW) : Act → RW
  | .acquire t _ wr => r.arrive rw t wr
  | .release t _ => r.leave rw t
  | .cancel t _ => r.abandon rw t

def RW.enabled (r : RW) : Act → Bool
  | .acquire t _ _ => !(r.isInside t || r.isQueued t)
  | .release t _ => r.isInside t
  | .cancel t _ => r.isInside t || r.isQueued t

abbrev SState := Key → RW

def supd (s : SState) (k : Key) (v : RW) : SState := fun k' => if k' = k then v else s k'

def sstep (rw : Nat) (s : SState) (a : Act) : Option SState :=
  if (s a.key).enabled a then some (supd s a.key ((s a.key).step rw a)) else none

/-- the reference machine: independent reader/writer locks, one per key -/
def S (rw : Nat) : LTS SState Act := ⟨fun _ => RW.init, sstep rw⟩

end Nv.C01
