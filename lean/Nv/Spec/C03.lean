import Nv.Model.C03
/-!
C03 — the abstract specification: a strictly sorted list of items (one per key), the operations of a
sorted set on it, what a scan must hand to its callback, and how a stateful callback consumes a list.
-/
namespace Nv.C03

/-- strictly increasing keys: a sorted set with one item per key -/
def Sorted (l : List Item) : Prop := l.Pairwise (fun a b => a.key < b.key)

/-- store `x`, replacing the item with the same key if there is one -/
def specInsert : List Item → Item → List Item
  | [], x => [x]
  | y :: ys, x =>
    if x.key < y.key then x :: y :: ys
    else if x.key = y.key then x :: ys
    else y :: specInsert ys x

def specDelete (l : List Item) (k : Int) : List Item := l.filter (fun x => x.key != k)

def specFind (l : List Item) (k : Int) : Option Item := l.find? (fun x => x.key == k)

/-- items in scan order from the pivot `p` (inclusive or not); `none` = from the end -/
def specScan (l : List Item) : Dir → Option Int → Bool → List Item
  | .asc, none, _ => l
  | .desc, none, _ => l.reverse
  | .asc, some p, incl => l.filter (fun x => decide (p < x.key) || (incl && x.key == p))
  | .desc, some p, incl => (l.filter (fun x => decide (x.key < p) || (incl && x.key == p))).reverse

/-- the scan stops before the first item at or beyond `stop` -/
def beforeStop (d : Dir) (stop : Option Int) (x : Item) : Bool :=
  match stop, d with
  | none, _ => true
  | some t, .asc => decide (x.key < t)
  | some t, .desc => decide (t < x.key)

/-- a stateful callback consumes the list until it answers `false` -/
def runCb {σ} (cb : σ → Item → σ × Bool) : List Item → σ → σ
  | [], s => s
  | x :: xs, s => if (cb s x).2 then runCb cb xs (cb s x).1 else (cb s x).1

/-- the callback sees items up to and including the first one it rejects -/
def visited (cont : Item → Bool) : List Item → List Item
  | [] => []
  | x :: xs => if cont x then x :: visited cont xs else [x]

end Nv.C03
