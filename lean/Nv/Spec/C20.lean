import Nv.Model.C20
/-!
C20 — what a text *denotes* (the reference the decoders are compared with).
Short on purpose: a digit string has its Horner value (arbitrary precision), an optional sign,
and optionally one pair of surrounding quotes. Nothing here mentions the parsers.
-/
namespace Nv.C20

/-- every character is a decimal digit, and there is at least one -/
def DecDigits (s : Bytes) : Prop := s ≠ [] ∧ ∀ c ∈ s, 48 ≤ c ∧ c ≤ 57

/-- arbitrary-precision value of a decimal digit string -/
def decVal (s : Bytes) : Nat := s.foldl (fun n c => n * 10 + (c - 48)) 0

/-- optional sign + decimal digits -/
def denotesCore (s : Bytes) (v : Int) : Prop :=
  (DecDigits s ∧ v = (decVal s : Int)) ∨
  (∃ t, s = 43 :: t ∧ DecDigits t ∧ v = (decVal t : Int)) ∨
  (∃ t, s = 45 :: t ∧ DecDigits t ∧ v = -(decVal t : Int))

/-- a JSON token denotes `v`: a quoted or bare signed decimal; the empty quoted string may stand for 0 -/
def denotes (b : Bytes) (v : Int) : Prop :=
  (∃ s, b = 34 :: (s ++ [34]) ∧ (denotesCore s v ∨ (s = [] ∧ v = 0))) ∨ denotesCore b v

/-- element-wise relation between two lists of equal length -/
inductive ListRel {α β : Type} (R : α → β → Prop) : List α → List β → Prop
  | nil : ListRel R [] []
  | cons {a b as bs} : R a b → ListRel R as bs → ListRel R (a :: as) (b :: bs)

/-- a token denotes a byte list: quoted (or bare) `/`-separated signed decimals, each within 0…255;
    the empty text is the empty list -/
def denotesList (s : Bytes) (l : List Nat) : Prop :=
  (s = [] ∧ l = []) ∨
  (s ≠ [] ∧ ListRel (fun (p : Bytes) (x : Nat) => denotesCore p (x : Int) ∧ x ≤ 255) (splitSlash s) l)

def denotesBytes (b : Bytes) (l : List Nat) : Prop :=
  (∃ s, b = 34 :: (s ++ [34]) ∧ denotesList s l) ∨ denotesList b l

/-- what a driver value denotes as an int64 for the SQL scanners: an integer is itself, decimal text its
    value, NULL is 0; floats, booleans and times denote no integer -/
def sqlDenotes : SqlVal → Int → Prop
  | .i32 x, ts => ts = x
  | .i64 x, ts => ts = x
  | .int x, ts => ts = x
  | .u32 x, ts => ts = (x : Int)
  | .u64 x, ts => ts = (x : Int)
  | .uint x, ts => ts = (x : Int)
  | .bytes s, ts => denotesCore s ts
  | .str s, ts => denotesCore s ts
  | .null, ts => ts = 0
  | .f64 _, _ => False
  | .bool _, _ => False
  | .time _, _ => False

/-- digits of an arbitrary base (`0-9a-zA-Z` below the base) and their value -/
def BaseDigits (base : Nat) (s : Bytes) : Prop := ∀ c ∈ s, ∃ d, digitVal c = some d ∧ d < base

def baseVal (base : Nat) (n : Nat) (s : Bytes) : Nat := s.foldl (fun n c => n * base + (digitVal c).getD 0) n

end Nv.C20
