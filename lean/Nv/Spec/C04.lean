import Nv.Model.C04
/-!
C04 — the ideal LRU the property compares with.

State: the entries from most to least recently used, the capacity, the eviction count.
Nothing is stored about sizes: the size is *recomputed* as the sum of the entries' sizes
(`total`), and "making it fit" is: drop the least recently used entry while the recomputed total
exceeds the capacity. For `tiny` every item has size 1.
-/
namespace Nv.C04

structure Ideal where
  entries : List Entry
  capacity : Int
  evictions : Int
deriving DecidableEq, Repr

def Ideal.new (cap : Int) : Ideal := ⟨[], cap, 0⟩

/-- over the entries seen coldest first: drop the coldest while the total exceeds the capacity -/
def trimCold (cap : Int) : List Entry → List Entry × List Entry
  | [] => ([], [])
  | e :: rest =>
    if total (e :: rest) > cap then
      let r := trimCold cap rest
      (r.1, e :: r.2)
    else (e :: rest, [])

/-- evict least recently used entries until the cache fits; returns the evicted entries, coldest first -/
def Ideal.fit (s : Ideal) : Ideal × List Entry :=
  let r := trimCold s.capacity s.entries.reverse
  ({ s with entries := r.1.reverse, evictions := s.evictions + r.2.length }, r.2)

def Ideal.insert (kd : Kind) (s : Ideal) (k v : Nat) (sz : Int) : Ideal × List Entry :=
  Ideal.fit { s with entries := ⟨k, v, szOf kd sz⟩ :: removeKey k s.entries }

def Ideal.touch (s : Ideal) (e : Entry) : Ideal := { s with entries := e :: removeKey e.key s.entries }

def specStep (kd : Kind) (s : Ideal) : Op → Ideal × Out
  | .set k v sz => ((s.insert kd k v sz).1, .unit)
  | .setGetRemoved k v sz => let r := s.insert kd k v sz; (r.1, .removed (r.2.map (·.val)))
  | .setIfAbsent k v sz =>
    match find? k s.entries with
    | some e => (s.touch e, .unit)
    | none => ((s.insert kd k v sz).1, .unit)
  | .get k =>
    match find? k s.entries with
    | some e => (s.touch e, .val (some e.val))
    | none => (s, .val none)
  | .peek k => (s, .val ((find? k s.entries).map (·.val)))
  | .exist k => (s, .bool (find? k s.entries).isSome)
  | .delete k => ({ s with entries := removeKey k s.entries }, .bool (find? k s.entries).isSome)
  | .clear => ({ s with entries := [] }, .unit)
  | .setCapacity cap => ((Ideal.fit { s with capacity := cap }).1, .unit)
  | .keys => (s, .keys (s.entries.map (·.key)))
  | .items => (s, .items (s.entries.map (fun e => (e.key, e.val))))
  | .stats => (s, .stats s.entries.length (total s.entries) s.capacity s.evictions)
  -- a store whose value cannot be sized fails and leaves the cache as it was
  | .setF _ => (s, .panic)
  | .setGetRemovedF _ => (s, .panic)
  | .setIfAbsentF k =>
    match find? k s.entries with
    | some e => (s.touch e, .unit)
    | none => (s, .panic)

/-- the most-recent-first reading of "fits": keep entries from the hot end while they cumulatively fit -/
def takeFit : Int → List Entry → List Entry
  | _, [] => []
  | cap, e :: es => if e.size ≤ cap then e :: takeFit (cap - e.size) es else []

end Nv.C04
