import Nv.Model.C05
/-!
C05 — what the property text says, written over *histories* (events = call + result), without any cache state.

`histStep` keeps, per key, the value of the latest successful Set, forgotten when the key is removed,
cleared, consumed by a remove-after-get read, or observed absent. `HistOk` says: every successful Get
returns exactly that value (so never a value of a key that was never set, removed, cleared or consumed).
-/
namespace Nv.C05

abbrev Hist := Key → Option Val

def histStep (f : Hist) (op : Op) (out : Out) : Hist := fun k' =>
  match op, out with
  | .set k v _, .ok => if k' = k then some v else f k'
  | .remove k, _ => if k' = k then none else f k'
  | .clear, _ => none
  | .get k o, .value _ => if k' = k ∧ o.remove = true then none else f k'
  | .get k _, .notFound => if k' = k then none else f k'
  | _, _ => f k'

/-- every successful Get in the event list returns the value the history holds for its key -/
def HistOk : Hist → List (Op × Out) → Prop
  | _, [] => True
  | f, (op, out) :: rest =>
    (∀ k o v, op = .get k o → out = .value v → f k = some v) ∧ HistOk (histStep f op out) rest

/-- the key an operation addresses -/
def opKey : Op → Option Key
  | .set k _ _ => some k
  | .get k _ => some k
  | .remove k => some k
  | _ => none

def isValue : Out → Bool
  | .value _ => true
  | _ => false

/-- successful remove-after-get reads of `k` in an event list -/
def consumes (k : Key) : List (Op × Out) → Nat
  | [] => 0
  | (.get k' o, .value _) :: rest => (if k' = k ∧ o.remove = true then 1 else 0) + consumes k rest
  | _ :: rest => consumes k rest

def setsKey (k : Key) : Op → Bool
  | .set k' _ _ => decide (k' = k)
  | _ => false

/-- calls that start or restart the time-to-live of `k`: every Set of `k`, and a Get of `k` with update-ttl -/
def writesTtl (k : Key) : Op → Bool
  | .set k' _ _ => decide (k' = k)
  | .get k' o => decide (k' = k) && o.update.isSome
  | _ => false

/-- distinct keys: add one -/
def addKey (k : Key) (S : List Key) : List Key := if k ∈ S then S else k :: S

/-- the distinct keys addressed by a call sequence, added to `S` -/
def touchedBy (S : List Key) : List Op → List Key
  | [] => S
  | op :: ops => touchedBy (match opKey op with
      | some k => addKey k S
      | none => S) ops

/-! ### concurrent callers -/

/-- The schedules of concurrent callers WHEN EVERY CALL IS ATOMIC: some merge of the callers' call lists that keeps
    each caller's own order. `progs[i]` is what caller `i` still has to issue. -/
inductive Interleaving : List (List Op) → List Op → Prop
  | done {progs : List (List Op)} : (∀ p ∈ progs, p = []) → Interleaving progs []
  | step {progs : List (List Op)} {op : Op} {rest sched : List Op} (i : Nat) (hi : i < progs.length) :
      progs[i] = op :: rest → Interleaving (progs.set i rest) sched → Interleaving progs (op :: sched)

/-- ASSUMPTION, named (it is what makes `Interleaving` the right notion of a concurrent execution; it is not proved
    in Lean, it is tied to the source by regenerated facts):
    * in memory every public call is one critical section — fact `locksCoverAll` (`t.Lock(); defer t.Unlock()` first in
      Set/Get/Remove/Clear) together with the declaration surface (the embedded lock is `sync.RWMutex`);
    * on redis a consuming read without update-ttl is the single command GETDEL — fact `rdsCommands` — and the server
      executes each command atomically (redis' single-threaded command execution; assumed, modelled by `rGetDel`
      being one step). -/
structure AtomicCalls (f : Facts) : Prop where
  memCallsLocked : f.locksCoverAll = true
  rdsConsumeIsGetDel : f.rdsCommands = true

end Nv.C05
