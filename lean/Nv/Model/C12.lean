import Nv.Basic
/-!
C12 — sequential (non-blocking) models of the six queues:
`syncx/pipe/q.Q`, `syncx/pipe/async.Q`, `syncx/pipe/mux.Q` (one list, bound, closed flag),
`syncx/pipe/mq.MQ` (control list + request list, closed / cleared),
`queue/syncq.SyncQueue` (unbounded FIFO, adds dropped after close) and
`queue/priq.PriQueue` (bag of `(priority, seq, item)`, minimum of `Less` popped first).

A call that would block (Pop on an empty open queue) is the result `wouldBlock`; the blocking
behaviour itself is the subject of C13, whose transition system (`Nv/Model/C13.lean`) is built
from the critical-section functions defined here (`addReq`, `popNow`, `closeQ`, …).

`container/list`, `eapache/queue` and `container/heap` are modelled by their contracts
(`List Nat` front/back; minimum extraction under `Less`).
Which behaviour each implementation has (order of the closed/bound tests, whether the prior add
tests the bound, whether Pop tests `closed` after the wait loop, which list MQ pops first, how
PriQueue breaks ties) is a parameter `Cfg`, regenerated from the source (`Nv.Gen.C12.cfg`).
-/
namespace Nv.C12

/-- the list-based queues -/
inductive Kind | q | async | mux | mq | syncq
deriving DecidableEq, Repr

/-- behaviour-selecting shape of one list-queue implementation -/
structure Shape where
  /-- `Add`: the `closed` test precedes the bound test -/
  addClosedFirst : Bool
  /-- `AddPrior` also tests the bound (today: it does not) -/
  priorBounded : Bool
  /-- `Pop` returns `ErrClosed` after the wait loop when closed, even with items left -/
  popChecksClosed : Bool
  /-- (MQ) control list is popped before the request list -/
  ctrlFirst : Bool
  /-- the extractor recognised every method body of the type -/
  known : Bool
deriving DecidableEq, Repr

def Shape.expected : Shape := ⟨true, false, true, true, true⟩

/-- shape of `SyncQueue` -/
structure SyncShape where
  /-- `Push` adds only `if !q.closed` -/
  pushGuardsClosed : Bool
  /-- `TryPop` tests the buffer before `closed` (residue handed out after close) -/
  tryPopItemsFirst : Bool
  known : Bool
deriving DecidableEq, Repr

def SyncShape.expected : SyncShape := ⟨true, true, true⟩

/-- shape of `PriQueue` -/
structure PriShape where
  /-- `Less`: `pi > pj` (higher priority pops first) -/
  higherFirst : Bool
  /-- `Less` on equal priorities: `seq_i < seq_j` (earlier push pops first) -/
  olderFirstOnTie : Bool
  /-- `Push` refuses when `len(entries) >= capacity` -/
  fullAtCap : Bool
  known : Bool
deriving DecidableEq, Repr

def PriShape.expected : PriShape := ⟨true, true, true, true⟩

structure Cfg where
  q : Shape
  async : Shape
  mux : Shape
  mq : Shape
  syncq : SyncShape
  priq : PriShape
  /-- no method of the six queue types takes its mutex more than once: a critical section is never cut in two by an
      `Unlock(); Lock()` pair (read from the AST). Every function of this model is ONE critical section of the code;
      that it executes atomically is exactly this fact (plus `Facts.lockCovered` and the trusted `sync.Mutex`). -/
  sectionsAtomic : Bool
deriving DecidableEq, Repr

def Cfg.expected : Cfg := ⟨.expected, .expected, .expected, .expected, .expected, .expected, true⟩

/-- shape facts the model is written against but does not take as parameters -/
structure Facts where
  addPushesBack : Bool      -- all four `Add*`: `PushBack`
  priorPushesFront : Bool   -- all four `AddPrior*`: `PushFront`
  popTakesFront : Bool      -- all pops: `Front()` + `Remove`
  anywayNoClosedTest : Bool -- `PopAnyway`: no `closed` test after the wait loop
  closeIdempotent : Bool    -- `Close`: `if a.closed { return }` then `closed = true`
  mqTryCloseShape : Bool    -- `TryClose`: already closed → true; both lists empty → close
  mqTryClearShape : Bool    -- `TryClear`: cleared → true; closed ∧ both empty → cleared
  boundOnlyIfPositive : Bool-- bound tested only `if max > 0`; constructors store only positive sizes
  syncqFifo : Bool          -- SyncQueue: `buffer.Add` / `Peek` + `Remove`
  priqSeqIncrements : Bool  -- `curSeq++` before `heap.Push` with `seq: pq.curSeq`
  priqHeap : Bool           -- `heap.Push` / `heap.Pop` on `EntryList`, `Swap`/`Push`/`Pop` as in container/heap's example
  anywayShape : Bool        -- the five `*Anyway` adds: `for { err = Add(x); if err == ErrFull { Sleep } else { return err } }`
  accessorShape : Bool      -- IsClosed / IsCleared / Size return the field under the lock; WaitClose / WaitClear select on the channel
  closesStopChan : Bool     -- mux/mq `Close`, mq `TryClose` close `stopChan`; mq `TryClear` closes `clearChan`
  lockCovered : Bool        -- AST: every method touching a guarded field locks first and unlocks (deferred / before every return)
  methodSets : Bool         -- the queue types' method sets over ALL files of their packages are exactly the modelled ones
  fieldsPrivate : Bool      -- sibling files of the packages never select a queue's mutable / synchronisation field
deriving DecidableEq, Repr

def Facts.expected : Facts :=
  ⟨true, true, true, true, true, true, true, true, true, true, true, true, true, true, true, true, true⟩

/-- configurations for which the property theorems are proved -/
def Proved (c : Cfg) : Prop := c = Cfg.expected
instance : DecidablePred Proved := fun c => by unfold Proved; exact inferInstance

def Cfg.shape (c : Cfg) : Kind → Shape
  | .q => c.q | .async => c.async | .mux => c.mux | .mq => c.mq | .syncq => Shape.expected

/-- how an `*Anyway` add that found the queue full ended -/
inductive SpinEnd | ok | closed | forever
deriving DecidableEq, Repr

inductive Out
  | ok | closed | full | ctrlFull
  | spun (popped : List Nat) (fin : SpinEnd)  -- an `*Anyway` add retried while full; what was popped meanwhile; how it ended
  | val (x : Nat)
  | nil          -- SyncQueue.Pop on a closed empty queue / PriQueue.Pop on an empty queue
  | none         -- SyncQueue.TryPop: (nil, false)
  | wouldBlock   -- the call would park (never issued sequentially on the real code without release)
  | bool (b : Bool)
  | num (n : Nat)
  | badOp
deriving DecidableEq, Repr

/-- state of a list queue (pipe queues and SyncQueue use only `req`) -/
structure LQ where
  kind : Kind
  ctrl : List Nat
  req : List Nat
  ctrlCap : Nat      -- 0 = unbounded
  reqCap : Nat       -- 0 = unbounded
  closed : Bool
  cleared : Bool
deriving DecidableEq, Repr

def LQ.new (k : Kind) (ctrlCap reqCap : Int) : LQ :=
  ⟨k, [], [], ctrlCap.toNat, reqCap.toNat, false, false⟩

def LQ.size (s : LQ) : Nat := s.ctrl.length + s.req.length
def LQ.isEmpty (s : LQ) : Bool := s.ctrl.isEmpty && s.req.isEmpty

def fullAt (cap len : Nat) : Bool := decide (0 < cap) && decide (cap ≤ len)

/-! ### critical sections of the pipe queues and MQ -/

/-- `AddReq` / `Add` -/
def addReq (sh : Shape) (s : LQ) (x : Nat) : LQ × Out :=
  if sh.addClosedFirst then
    if s.closed then (s, .closed)
    else if fullAt s.reqCap s.req.length then (s, .full)
    else ({ s with req := s.req ++ [x] }, .ok)
  else
    if fullAt s.reqCap s.req.length then (s, .full)
    else if s.closed then (s, .closed)
    else ({ s with req := s.req ++ [x] }, .ok)

/-- `AddPriorReq` / `AddPrior` -/
def addPrior (sh : Shape) (s : LQ) (x : Nat) : LQ × Out :=
  if s.closed then (s, .closed)
  else if sh.priorBounded && fullAt s.reqCap s.req.length then (s, .full)
  else ({ s with req := x :: s.req }, .ok)

/-- `AddCtrl` (MQ) -/
def addCtrl (sh : Shape) (s : LQ) (x : Nat) : LQ × Out :=
  if sh.addClosedFirst then
    if s.closed then (s, .closed)
    else if fullAt s.ctrlCap s.ctrl.length then (s, .ctrlFull)
    else ({ s with ctrl := s.ctrl ++ [x] }, .ok)
  else
    if fullAt s.ctrlCap s.ctrl.length then (s, .ctrlFull)
    else if s.closed then (s, .closed)
    else ({ s with ctrl := s.ctrl ++ [x] }, .ok)

/-- `AddPriorCtrl` (MQ) -/
def addPriorCtrl (sh : Shape) (s : LQ) (x : Nat) : LQ × Out :=
  if s.closed then (s, .closed)
  else if sh.priorBounded && fullAt s.ctrlCap s.ctrl.length then (s, .ctrlFull)
  else ({ s with ctrl := x :: s.ctrl }, .ok)

/-- take the next item: control list first (or request list first when `ctrlFirst` is false) -/
def takeFront (sh : Shape) (s : LQ) : LQ × Out :=
  if sh.ctrlFirst then
    match s.ctrl with
    | x :: r => ({ s with ctrl := r }, .val x)
    | [] => match s.req with
      | x :: r => ({ s with req := r }, .val x)
      | [] => (s, .badOp)      -- `ErrSync`: unreachable, callers test non-emptiness first
  else
    match s.req with
    | x :: r => ({ s with req := r }, .val x)
    | [] => match s.ctrl with
      | x :: r => ({ s with ctrl := r }, .val x)
      | [] => (s, .badOp)

/-- one pass of `Pop` (`anyway = false`) / `PopAnyway` from the loop test on; `none` = the caller parks -/
def popNow (sh : Shape) (anyway : Bool) (s : LQ) : Option (LQ × Out) :=
  if s.isEmpty then
    if s.closed then some (s, .closed) else none
  else if !anyway && sh.popChecksClosed && s.closed then some (s, .closed)
  else some (takeFront sh s)

def closeQ (s : LQ) : LQ := { s with closed := true }

/-! ### the `*Anyway` adds: `for { err = Add(x); if err == ErrFull { Sleep } else { return err } }`

Sequentially such a call returns the add's result unless the queue is full; then it retries until somebody makes
room or closes the queue. The model resolves the retry loop the way the harness does: `resolvePop = false` — the queue
is closed (the retry then returns whatever the add says on a closed queue); `resolvePop = true` — items are taken with
`PopAnyway` until the add is no longer refused for capacity. -/

def isFullOut : Out → Bool
  | .full => true | .ctrlFull => true | _ => false

def spinEnd : Out → SpinEnd
  | .ok => .ok | .closed => .closed | _ => .forever

def drainFor (add : LQ → LQ × Out) (popA : LQ → Option (LQ × Out)) : Nat → LQ → List Nat → LQ × Out
  | 0, s, acc => (s, .spun acc.reverse .forever)
  | n + 1, s, acc =>
    match popA s with
    | some (s', .val v) =>
      let r := add s'
      if isFullOut r.2 then drainFor add popA n s' (v :: acc) else (r.1, .spun (v :: acc).reverse (spinEnd r.2))
    | _ => (s, .spun acc.reverse .forever)

def addAnyway (add : LQ → LQ × Out) (popA : LQ → Option (LQ × Out)) (resolvePop : Bool) (s : LQ) : LQ × Out :=
  let r := add s
  if !isFullOut r.2 then r
  else if resolvePop then drainFor add popA (s.size + 1) s []
  else
    let r2 := add (closeQ s)
    (r2.1, .spun [] (spinEnd r2.2))

/-- `TryClose` (MQ) -/
def tryClose (s : LQ) : LQ × Out :=
  if s.closed then (s, .bool true)
  else if s.isEmpty then ({ s with closed := true }, .bool true)
  else (s, .bool false)

/-- `TryClear` (MQ) -/
def tryClear (s : LQ) : LQ × Out :=
  if s.cleared then (s, .bool true)
  else if s.closed && s.isEmpty then ({ s with cleared := true }, .bool true)
  else (s, .bool false)

/-! ### SyncQueue -/

def syncPush (sh : SyncShape) (s : LQ) (x : Nat) : LQ :=
  if sh.pushGuardsClosed && s.closed then s else { s with req := s.req ++ [x] }

/-- one pass of `SyncQueue.Pop`; `none` = parks -/
def syncPopNow (s : LQ) : Option (LQ × Out) :=
  match s.req with
  | x :: r => some ({ s with req := r }, .val x)
  | [] => if s.closed then some (s, .nil) else none

def syncTryPop (sh : SyncShape) (s : LQ) : LQ × Out :=
  if sh.tryPopItemsFirst then
    match s.req with
    | x :: r => ({ s with req := r }, .val x)
    | [] => if s.closed then (s, .closed) else (s, .none)
  else
    if s.closed then (s, .closed) else
    match s.req with
    | x :: r => ({ s with req := r }, .val x)
    | [] => (s, .none)

/-! ### the sequential machine of the list queues -/

inductive Op
  | add (x : Nat) | prior (x : Nat) | addCtrl (x : Nat) | priorCtrl (x : Nat)
  | addAny (x : Nat) (resolvePop : Bool) | addCtrlAny (x : Nat) (resolvePop : Bool)
  | pop | popAnyway | tryPop
  | close | tryClose | tryClear
  | len | isClosed | isCleared | size | waitClose | waitClear
deriving DecidableEq, Repr

def orBlock (s : LQ) : Option (LQ × Out) → LQ × Out
  | some r => r
  | none => (s, .wouldBlock)

def stepPipe (sh : Shape) (k : Kind) (s : LQ) : Op → LQ × Out
  | .add x => addReq sh s x
  | .prior x => addPrior sh s x
  | .addAny x rp => addAnyway (fun t => addReq sh t x) (popNow sh true) rp s
  | .pop => orBlock s (popNow sh false s)
  | .popAnyway => orBlock s (popNow sh true s)
  | .close => (closeQ s, .ok)
  | .isClosed => if k == .async || k == .mux then (s, .bool s.closed) else (s, .badOp)
  | .size => if k == .async then (s, .num s.reqCap) else (s, .badOp)
  | .waitClose => if k == .mux then (s, if s.closed then .ok else .wouldBlock) else (s, .badOp)
  | _ => (s, .badOp)

def stepMQ (sh : Shape) (s : LQ) : Op → LQ × Out
  | .add x => addReq sh s x
  | .prior x => addPrior sh s x
  | .addCtrl x => addCtrl sh s x
  | .priorCtrl x => addPriorCtrl sh s x
  | .addAny x rp => addAnyway (fun t => addReq sh t x) (popNow sh true) rp s
  | .addCtrlAny x rp => addAnyway (fun t => addCtrl sh t x) (popNow sh true) rp s
  | .pop => orBlock s (popNow sh false s)
  | .popAnyway => orBlock s (popNow sh true s)
  | .close => (closeQ s, .ok)
  | .tryClose => tryClose s
  | .tryClear => tryClear s
  | .isClosed => (s, .bool s.closed)
  | .isCleared => (s, .bool s.cleared)
  | .waitClose => (s, if s.closed then .ok else .wouldBlock)
  | .waitClear => (s, if s.cleared then .ok else .wouldBlock)
  | _ => (s, .badOp)

def stepSync (sh : SyncShape) (s : LQ) : Op → LQ × Out
  | .add x => (syncPush sh s x, .ok)
  | .pop => orBlock s (syncPopNow s)
  | .tryPop => syncTryPop sh s
  | .close => (closeQ s, .ok)
  | .len => (s, .num s.req.length)
  | _ => (s, .badOp)

def step (c : Cfg) (s : LQ) (op : Op) : LQ × Out :=
  match s.kind with
  | .q => stepPipe c.q .q s op
  | .async => stepPipe c.async .async s op
  | .mux => stepPipe c.mux .mux s op
  | .mq => stepMQ c.mq s op
  | .syncq => stepSync c.syncq s op

/-! ### PriQueue -/

structure Entry where
  prio : Int
  seq : Nat
  item : Nat
deriving DecidableEq, Repr

/-- `EntryList.Less` -/
def less (sh : PriShape) (a b : Entry) : Bool :=
  if a.prio = b.prio then
    (if sh.olderFirstOnTie then decide (a.seq < b.seq) else decide (b.seq < a.seq))
  else
    (if sh.higherFirst then decide (a.prio > b.prio) else decide (a.prio < b.prio))

/-- contract of `heap.Pop`: an element no other element is `Less` than (scan keeping the best so far) -/
def best (sh : PriShape) : Entry → List Entry → Entry
  | b, [] => b
  | b, e :: r => best sh (if less sh e b then e else b) r

structure PQ where
  entries : List Entry
  cap : Int
  curSeq : Nat
deriving DecidableEq, Repr

def PQ.new (cap : Int) : PQ := ⟨[], cap, 0⟩

inductive POp | push (x : Nat) (p : Int) | pop | len
deriving DecidableEq, Repr

def pqFull (sh : PriShape) (s : PQ) : Bool :=
  if sh.fullAtCap then decide (s.cap ≤ (s.entries.length : Int)) else decide (s.cap < (s.entries.length : Int))

def pqPush (sh : PriShape) (s : PQ) (x : Nat) (p : Int) : PQ × Out :=
  if pqFull sh s then (s, .full)
  else ({ s with curSeq := s.curSeq + 1, entries := s.entries ++ [⟨p, s.curSeq + 1, x⟩] }, .ok)

def pqPop (sh : PriShape) (s : PQ) : PQ × Option Entry :=
  match s.entries with
  | [] => (s, none)
  | e :: r => let m := best sh e r; ({ s with entries := s.entries.erase m }, some m)

def pstep (sh : PriShape) (s : PQ) : POp → PQ × Out
  | .push x p => pqPush sh s x p
  | .pop => match pqPop sh s with
    | (s', some m) => (s', .val m.item)
    | (s', none) => (s', .nil)
  | .len => (s, .num s.entries.length)

end Nv.C12
