import Nv.Model.C08
/-!
C09 — model of `Bit1024.Marshal/Unmarshal`, `BigU32(s)` and `U32BitTip(s)` on top of the C08 bitmap model.

Two facts of the source select behaviour and are parameters (`Cfg`), regenerated into `Nv.Gen.C09.cfg`:
* `offset`      — how `BigU32.IterAsI64/RIterAsI64` compute the block base: `int64(b.Start*C1K)` (a `uint32`
                  multiplication, wraps for Start ≥ 2^22) or `int64(b.Start)*C1K`;
* `tipDispatch` — which iterator `U32BitTip.getNAsU32` calls per branch (`swapped`: reverse ⇒ `IterAsU32`).
Slice indexing is bounds-checked in the model (`none` / `.panic` = Go panic). `encoding/binary` is modelled.
-/
namespace Nv.C09
open Nv.C08

abbrev Byte := BitVec 8

inductive Offset
  | u32mul    -- `int64(b.Start*C1K)`
  | i64mul    -- `int64(b.Start)*C1K`
  | unknown
deriving DecidableEq, Repr

inductive Dispatch
  | swapped   -- `if reverse { IterAsU32 } else { RIterAsU32 }`
  | straight  -- `if reverse { RIterAsU32 } else { IterAsU32 }`
  | unknown
deriving DecidableEq, Repr

structure Cfg where
  base : Nv.C08.Cfg
  offset : Offset            -- BigU32.IterAsI64
  roffset : Offset           -- BigU32.RIterAsI64
  tipDispatch : Dispatch
  c1k : Nat                  -- `C1K`
  sparseBelow : Nat          -- `Marshal`: sparse encoding iff `n < 64`
  l128 : Nat                 -- `L128` (dense form length; `Unmarshal` thresholds)
deriving DecidableEq, Repr

def Proved (c : Cfg) : Prop :=
  Nv.C08.Proved c.base ∧ c.offset = .i64mul ∧ c.roffset = .i64mul ∧ c.tipDispatch = .straight ∧ c.c1k = 1024 ∧
  c.sparseBelow = 64 ∧ c.l128 = 128
instance : DecidablePred Proved := fun c => by unfold Proved; exact inferInstance

/-- every behaviour-selecting fact was recognised by the extractor. When this is false the oracle refuses to predict
    the affected operations (`unknown-cfg`) instead of defaulting to some behaviour. -/
def Cfg.offsetsKnown (c : Cfg) : Bool := c.offset != .unknown && c.roffset != .unknown
def Cfg.dispatchKnown (c : Cfg) : Bool := c.tipDispatch != .unknown

/-- shape facts the hand-written model relies on (regenerated, compared with `expected`) -/
structure Facts where
  marshal : Shape            -- Bit1024.Marshal body
  unmarshal : Shape          -- Bit1024.Unmarshal body
  bigCtor : List Shape       -- NewBigU32, NewBigU32FromData, NewBigU32FromI64, SetI64, Reverse
  bigGetN : List Shape       -- BigU32.getNAsI64 + 2 wrappers, BigU32s.getNAsI64 + 2 wrappers, BigU32s.Reverse,
                             -- BigU32.IterAsI64, RIterAsI64 (whole body: one call, arguments s, pos, <offset>, n)
  tipCtor : List Shape       -- NewU32BitTip, NewU32BitTipFromData, NewU32BitTipFromU32, SetU32, Reverse
  tipIter : List Shape       -- U32BitTip.IterAsU32, RIterAsU32, 2 wrappers; U32BitTips.GetNAsU32, RGetNAsU32, Reverse,
                             -- U32BitTip.getNAsU32 (whole body, either dispatch order)
deriving DecidableEq, Repr

def Facts.expected : Facts where
  marshal := .ok
  unmarshal := .ok
  bigCtor := List.replicate 5 .ok
  bigGetN := List.replicate 9 .ok
  tipCtor := List.replicate 5 .ok
  tipIter := List.replicate 8 .ok

/-! ## Marshal / Unmarshal -/

/-- `binary.LittleEndian.PutUint16` -/
def le16 (v : BitVec 16) : List Byte := [v.setWidth 8, (v >>> 8).setWidth 8]
/-- `binary.LittleEndian.PutUint64` -/
def le64 (v : BitVec 64) : List Byte :=
  [v.setWidth 8, (v >>> 8).setWidth 8, (v >>> 16).setWidth 8, (v >>> 24).setWidth 8,
   (v >>> 32).setWidth 8, (v >>> 40).setWidth 8, (v >>> 48).setWidth 8, (v >>> 56).setWidth 8]

/-- `binary.LittleEndian.Uint16(buf[off:])`; `none` = panic (fewer than 2 bytes) -/
def rd16 (buf : List Byte) (off : Nat) : Option (BitVec 16) :=
  match buf.drop off with
  | lo :: hi :: _ => some (hi ++ lo)
  | _ => none

/-- `binary.LittleEndian.Uint64(buf[off:])`; `none` = panic (fewer than 8 bytes) -/
def rd64 (buf : List Byte) (off : Nat) : Option (BitVec 64) :=
  match buf.drop off with
  | b0 :: b1 :: b2 :: b3 :: b4 :: b5 :: b6 :: b7 :: _ => some (b7 ++ b6 ++ b5 ++ b4 ++ b3 ++ b2 ++ b1 ++ b0)
  | _ => none

/-- `Bit1024.Marshal`; `none` = panic -/
def marshal (c : Cfg) (magic : Int) (b : Bit1024) : Option (List Byte) :=
  let n := len1024 b
  if n = 0 then some []
  else if n < c.sparseBelow then
    match (getN1024 (w := 16) c.base magic false b n) with
    | .slice s => if s.length = n then some (s.flatMap le16) else none   -- `s[i]`, i < n
    | _ => none
  else some (b.toList.flatMap le64)

inductive UErr
  | range (n : Nat)        -- "bit.1024.out.of.range"
  | length (n : Nat)       -- "bit.1024.invalid.length"
  | element (v : Int)      -- "bit.1024.invalid.element"
deriving DecidableEq, Repr

/-- result of `Unmarshal`: the receiver is mutated in place, also when an error is returned half-way -/
inductive URes
  | ok (b : Bit1024)
  | err (e : UErr) (b : Bit1024)
  | panic
deriving DecidableEq, Repr

/-- sparse decoding loop, `i` ranging over the given indices -/
def unmSparse (buf : List Byte) : List Nat → Bit1024 → URes
  | [], b => .ok b
  | i :: is, b =>
    match rd16 buf (i * 2) with
    | none => .panic
    | some v =>
      if v.toInt < 0 ∨ v.toInt > 1023 then .err (.element v.toInt) b
      else unmSparse buf is (setI16 b v)

/-- dense decoding loop: `b[i] = Bit64(Uint64(buf[i*8:]))` -/
def unmDense (buf : List Byte) : List Nat → Bit1024 → URes
  | [], b => .ok b
  | i :: is, b =>
    match rd64 buf (i * 8) with
    | none => .panic
    | some v => if h : i < 16 then unmDense buf is (b.set i v) else .panic

/-- `Bit1024.Unmarshal` -/
def unmarshal (b : Bit1024) (buf : List Byte) : URes :=
  let n := buf.length
  if n = 0 then .ok b
  else if n > 128 then .err (.range n) b
  else if n % 2 ≠ 0 then .err (.length n) b
  else if n < 128 then unmSparse buf (List.range (n / 2)) b
  else unmDense buf (List.range 16) b

/-- the set a byte string denotes (when it is well-formed): sparse = listed elements, dense = bits of 16 words -/
def denotes (buf : List Byte) (i : Nat) : Prop :=
  if buf.length < 128 then ∃ k, k < buf.length / 2 ∧ rd16 buf (k * 2) = some (BitVec.ofNat 16 i)
  else ∃ v, rd64 buf (i / 64 * 8) = some v ∧ v.getLsbD (i % 64) = true

/-! ## blocks: BigU32 and U32BitTip (`Start uint32` + 1024 bits) -/

structure Block where
  start : BitVec 32
  bits : Bit1024
deriving DecidableEq, Repr

def Block.reverse (b : Block) : Block := ⟨b.start, reverse1024 b.bits⟩

/-- arithmetic of `NewBigU32FromI64` / `SetI64`: (accepted, `uint32(i64 / C1K)`, `int16(i64 % C1K)`) -/
def selI64 (v : BitVec 64) : Bool × BitVec 32 × BitVec 16 :=
  if BitVec.slt v 0#64 || BitVec.sle 4398046510080#64 v then (false, 0#32, 0#16)
  else (true, BitVec.setWidth 32 (BitVec.sdiv v 1024#64), BitVec.setWidth 16 (BitVec.srem v 1024#64))

/-- arithmetic of `NewU32BitTipFromU32` / `SetU32`: (`u32 / C1K`, `int16(u32 % C1K)`) -/
def selU32 (u : BitVec 32) : BitVec 32 × BitVec 16 :=
  (BitVec.udiv u 1024#32, BitVec.setWidth 16 (BitVec.umod u 1024#32))

def newBigFromI64 (v : BitVec 64) : Option Block :=
  let r := selI64 v
  if r.1 then some ⟨r.2.1, setI16 empty1024 r.2.2⟩ else none

inductive SetRes | ok | unsupported | invalidStart
deriving DecidableEq, Repr

def bigSetI64 (b : Block) (v : BitVec 64) : Block × SetRes :=
  let r := selI64 v
  if !r.1 then (b, .unsupported)
  else if r.2.1 != b.start then (b, .invalidStart)
  else (⟨b.start, setI16 b.bits r.2.2⟩, .ok)

def newTipFromU32 (u : BitVec 32) : Block :=
  let r := selU32 u
  ⟨r.1, setI16 empty1024 r.2⟩

def tipSetU32 (b : Block) (u : BitVec 32) : Block × SetRes :=
  let r := selU32 u
  if r.1 != b.start then (b, .invalidStart) else (⟨b.start, setI16 b.bits r.2⟩, .ok)

/-- `MaxU32TipStart` -/
def maxTipStart : BitVec 32 := 4194303#32

inductive FromData
  | ok (b : Block)
  | badStart
  | err (e : UErr)
  | panic
deriving DecidableEq, Repr

def fromData (checkStart : Bool) (start : BitVec 32) (buf : List Byte) : FromData :=
  if checkStart && BitVec.ult maxTipStart start then .badStart
  else match unmarshal empty1024 buf with
    | .ok b => .ok ⟨start, b⟩
    | .err e _ => .err e
    | .panic => .panic

/-- block base added to every member by `BigU32.IterAsI64 / RIterAsI64`. `.unknown` has no behaviour: the oracle
    never evaluates it (`Cfg.offsetsKnown`), the value below is a placeholder outside every theorem. -/
def offsetOf (k : Offset) (start : BitVec 32) : BitVec 64 :=
  match k with
  | .i64mul => BitVec.setWidth 64 start * 1024#64
  | .u32mul => BitVec.setWidth 64 (start * 1024#32)
  | .unknown => 0#64

def bigOffset (c : Cfg) (rev : Bool) (start : BitVec 32) : BitVec 64 :=
  offsetOf (if rev then c.roffset else c.offset) start

/-- `BigU32.IterAsI64` / `RIterAsI64` -/
def bigIter (c : Cfg) (magic : Int) (rev : Bool) (b : Block) (s : List (BitVec 64)) (pos n : Int) :
    Option (List (BitVec 64) × Nat) :=
  iter1024 c.base magic rev b.bits s pos (bigOffset c rev b.start) n

/-- `BigU32.getNAsI64` -/
def bigGetN (c : Cfg) (magic : Int) (rev : Bool) (b : Block) (n : Int) : GetN (BitVec 64) :=
  getNOf n (fun s => bigIter c magic rev b s 0 n)

/-- `U32BitTip.IterAsU32` / `RIterAsU32` -/
def tipIter (c : Cfg) (magic : Int) (rev : Bool) (b : Block) (s : List (BitVec 32)) (pos n : Int) :
    Option (List (BitVec 32) × Nat) :=
  iter1024 c.base magic rev b.bits s pos (b.start * BitVec.ofNat 32 c.c1k) n

/-- direction actually taken by `U32BitTip.getNAsU32(n, reverse)`; `.unknown` is never evaluated by the oracle
    (`Cfg.dispatchKnown`) -/
def tipDir (c : Cfg) (rev : Bool) : Bool :=
  match c.tipDispatch with
  | .straight => rev
  | .swapped => !rev
  | .unknown => rev

/-- `U32BitTip.getNAsU32` -/
def tipGetN (c : Cfg) (magic : Int) (rev : Bool) (b : Block) (n : Int) : GetN (BitVec 32) :=
  getNOf n (fun s => tipIter c magic (tipDir c rev) b s 0 n)

/-- the block loop shared by the list forms: `if iterN >= n {break}; e = it(b[i], s, pos, left); iterN += e; pos += e` -/
def listChain {w : Nat} (it : Block → List (BitVec w) → Int → Int → Option (List (BitVec w) × Nat)) (n : Int) :
    List Block → List (BitVec w) → Nat → Option (List (BitVec w) × Nat)
  | [], s, iterN => some (s, iterN)
  | b :: rest, s, iterN =>
    if (iterN : Int) ≥ n then some (s, iterN)
    else match it b s iterN (n - iterN) with
      | none => none
      | some (s', e) => listChain it n rest s' (iterN + e)

/-- list forms return `nil` only for an empty list, otherwise `s[:iterN]` (possibly empty, non-nil) -/
def listGetN {w : Nat} (it : Block → List (BitVec w) → Int → Int → Option (List (BitVec w) × Nat)) (n : Int)
    (bs : List Block) : GetN (BitVec w) :=
  if bs.isEmpty then .nil
  else if n < 0 then .panic
  else match listChain it n bs (List.replicate n.toNat 0) 0 with
    | none => .panic
    | some (s, c) => .slice (s.take c)

/-- `BigU32s.getNAsI64`: blocks in index order for both directions -/
def bigsGetN (c : Cfg) (magic : Int) (rev : Bool) (bs : List Block) (n : Int) : GetN (BitVec 64) :=
  listGetN (fun b s pos left => bigIter c magic rev b s pos left) n bs

/-- `U32BitTips.GetNAsU32` (index order, forward) / `RGetNAsU32` (reverse order, reverse iterator) -/
def tipsGetN (c : Cfg) (magic : Int) (rev : Bool) (bs : List Block) (n : Int) : GetN (BitVec 32) :=
  listGetN (fun b s pos left => tipIter c magic rev b s pos left) n (if rev then bs.reverse else bs)

end Nv.C09
