import Nv.Basic
/-!
C17 — model of `remap` (shard routing) and of the sharded containers built on it.

`NewReMap` computes `y = MaxUint64 / n`, boundaries `nps[i] = y·(i+1)` (64-bit wrap-around),
then forces the last boundary to `MaxUint64`. `SearchIndex x` is `sort.Search` (modelled as the
binary search of the Go library) for the first boundary `>= x`, with a clamp to 0.
`SimpleIndex` converts integer keys to `uint64` (the conversion per type-switch arm is a parameter,
regenerated from the source) and takes `% n`; other keys go through their xxhash (an uninterpreted
deterministic function: the hash value is part of the key here).
-/
namespace Nv.C17

def M64 : Nat := 2 ^ 64 - 1

inductive Pred | ge | gt | unknown
deriving DecidableEq, Repr

structure Cfg where
  /-- `r.nps[r.numbs-1] = math.MaxUint64` after the loop -/
  lastForcedMax : Bool
  /-- predicate handed to `sort.Search`: `a[i] >= x` -/
  searchPred : Pred
deriving DecidableEq, Repr

def Proved (c : Cfg) : Prop := c.lastForcedMax = true ∧ c.searchPred = .ge
instance : DecidablePred Proved := fun c => by unfold Proved; exact inferInstance

/-- key types of the `SimpleIndex` / `ToBytes` type switches -/
inductive KType | u8 | i8 | i16 | u16 | i32 | u32 | i64 | u64 | int | uint | hit | str | bytes | bs | other
deriving DecidableEq, Repr

/-- the arms of `SimpleIndex`'s type switch in source order (everything else falls to `XHashIndex`) -/
def simpleArmsExpected : List KType := [.u8, .i8, .i16, .u16, .i32, .u32, .i64, .u64, .int, .uint, .hit]

/-- the arms of `ToBytes`'s type switch (a `HitGroup` implementer is not among them) -/
def toBytesArmsExpected : List KType := [.u8, .i8, .i16, .u16, .i32, .u32, .i64, .u64, .int, .uint, .str, .bytes, .bs]

structure Facts where
  /-- `NewReMap`: numbs = prime; x = MaxUint64; y = x / numbs; nps = make(numbs); for i in [0,numbs): nps[i] = <kernel> -/
  newReMapShape : Bool
  /-- `SearchIndex`: `var i = SearchUInt64s(r.nps, x)`, then the clamp kernel; `SearchUInt64s` = `sort.Search(len(a), pred)` -/
  searchShape : Bool
  /-- the integer/HitGroup arms of `SimpleIndex`, in order -/
  simpleArms : List KType
  /-- `SimpleIndex`: `default: return r.XHashIndex(i)`, and after the switch the tail kernel `return int(it % r.numbs)` -/
  simpleShape : Bool
  /-- `XHashIndex` = `r.SearchIndex(XXHash(i))`; `XXHash`: string → Sum64String, else Sum64(ToBytes(i)) -/
  xhashShape : Bool
  /-- `ToBytes`: whole body is one of the two known shapes (today's thirteen arms; the same plus a `HitGroup` arm that
      hashes the 8 little-endian bytes of `Hit()`), `default:` panics; which one is `Nv.Gen.C17.hitHashable` -/
  toBytesShape : Bool
  /-- the six containers (WideMap, both WideLRUCache, KeyLockerGrp, TKeyLockerGrp, WideSemMap):
      `numbs` shards allocated, `calKeyFn` = XHashIndex | SimpleIndex, every keyed method indexes `shards[calKeyFn(key)]` -/
  containersShape : Bool
  kernelsTranslated : Bool
deriving DecidableEq, Repr

def Facts.expected : Facts := ⟨true, true, simpleArmsExpected, true, true, true, true, true⟩

/-! ### boundaries and search -/

def yOf (n : Nat) : Nat := M64 / n

/-- `y * (uint64(i) + 1)` in 64-bit arithmetic -/
def npsRaw (n i : Nat) : Nat := (yOf n * (i + 1)) % 2 ^ 64

def nps (c : Cfg) (n i : Nat) : Nat :=
  if c.lastForcedMax && decide (i + 1 = n) then M64 else npsRaw n i

def holds : Pred → Nat → Nat → Bool
  | .gt, b, x => decide (b > x)
  | _, b, x => decide (b ≥ x)

/-- `sort.Search`: `i, j := 0, n; for i < j { h := (i+j)/2; if !f(h) { i = h+1 } else { j = h } }; return i` (fuel ≥ j − i) -/
def bsearch (p : Nat → Bool) : Nat → Nat → Nat → Nat
  | 0, i, _ => i
  | f + 1, i, j =>
    if i < j then
      let h := (i + j) / 2
      if p h then bsearch p f i h else bsearch p f (h + 1) j
    else i

/-- `SearchIndex` over any boundary function and clamp: `clamp (sort.Search n (fun i => pred (nps i) x))` -/
def searchWith (npsF : Nat → Nat) (pred : Pred) (clamp : Nat → Nat) (n x : Nat) : Nat :=
  clamp (bsearch (fun i => holds pred (npsF i) x) n 0 n)

def searchUInt64s (c : Cfg) (n x : Nat) : Nat :=
  bsearch (fun i => holds c.searchPred (nps c n i) x) n 0 n

/-- the clamp `if i < 0 || i >= int(r.numbs) { return 0 }; return i` (for `numbs < 2^63`) -/
def clampSpec (n i : Nat) : Nat := if i ≥ n then 0 else i

/-- `SearchIndex` -/
def searchIndex (c : Cfg) (n x : Nat) : Nat := searchWith (nps c n) c.searchPred (clampSpec n) n x

/-! ### keys -/

structure Key where
  ty : KType
  /-- integer types: the two's-complement bit pattern; `hit`: the value of `Hit()`; otherwise 0 -/
  bits : Nat
  /-- `str`/`bytes`/`bs`: the bytes in hex; otherwise empty -/
  text : String
  /-- `XXHash(key)` — xxhash is not modelled; the value travels with the key -/
  hash : Nat
deriving DecidableEq, Repr

inductive Out | idx (i : Nat) | panic
deriving DecidableEq, Repr

/-- `ToBytes` panics ("unsupported.type.for.slot") on a type outside its switch; `XXHash` takes strings directly.
`hit` = the source has a `HitGroup` arm in `ToBytes` (regenerated: `Nv.Gen.C17.hitHashable`; false today). -/
def Key.hashable (hit : Bool) (k : Key) : Bool := toBytesArmsExpected.contains k.ty || (hit && k.ty == .hit)

def xhashIndex (c : Cfg) (hit : Bool) (n : Nat) (k : Key) : Out :=
  if k.hashable hit then .idx (searchIndex c n k.hash) else .panic

/-- `SimpleIndex`, parametric in the per-arm conversion to `uint64` (`none` = the `default:` arm) -/
def simpleIndex (arm : KType → Nat → Option (BitVec 64)) (c : Cfg) (hit : Bool) (n : Nat) (k : Key) : Out :=
  match arm k.ty k.bits with
  | some it => .idx (it.toNat % n)
  | none => xhashIndex c hit n k

/-- the conversions as written today: `uint64(v)` — sign extension for signed types -/
def armSpec : KType → Nat → Option (BitVec 64)
  | .u8, b => some ((BitVec.ofNat 8 b).zeroExtend 64)
  | .i8, b => some ((BitVec.ofNat 8 b).signExtend 64)
  | .i16, b => some ((BitVec.ofNat 16 b).signExtend 64)
  | .u16, b => some ((BitVec.ofNat 16 b).zeroExtend 64)
  | .i32, b => some ((BitVec.ofNat 32 b).signExtend 64)
  | .u32, b => some ((BitVec.ofNat 32 b).zeroExtend 64)
  | .i64, b | .u64, b | .int, b | .uint, b | .hit, b => some (BitVec.ofNat 64 b)
  | _, _ => none

/-! ### sharded containers, generically

A keyed container: `step s k r` serves request `r` for key `k`. It is *per-key independent* when
there is a view `slot s k` such that the response and the new slot of `k` depend only on the old
slot of `k`, and no other key's slot changes. -/

structure Keyed (S K R A V : Type) where
  step : S → K → R → S × A
  slot : S → K → V
  local_ : V → R → V × A
  step_slot : ∀ s k r, slot (step s k r).1 k = (local_ (slot s k) r).1
  step_resp : ∀ s k r, (step s k r).2 = (local_ (slot s k) r).2
  step_other : ∀ s k k' r, k' ≠ k → slot (step s k r).1 k' = slot s k'

/-- the sharded container: shard `idx k` serves key `k` -/
def shardedStep {S K R A V} (C : Keyed S K R A V) (idx : K → Nat) (sh : Nat → S) (req : K × R) : (Nat → S) × A :=
  let r := C.step (sh (idx req.1)) req.1 req.2
  (fun i => if i = idx req.1 then r.1 else sh i, r.2)

def singleStep {S K R A V} (C : Keyed S K R A V) (s : S) (req : K × R) : S × A := C.step s req.1 req.2

/-! ### the map instance (`cache.Map`): an association list -/

abbrev MapSt := List (Key × Nat)

inductive MReq | set (v : Nat) | get | exist | delete
deriving DecidableEq, Repr

inductive MResp | unit | val (v : Option Nat) | bool (b : Bool)
deriving DecidableEq, Repr

def mlookup (k : Key) : MapSt → Option Nat
  | [] => none
  | (k', v) :: rest => if k' = k then some v else mlookup k rest

def merase (k : Key) : MapSt → MapSt
  | [] => []
  | (k', v) :: rest => if k' = k then merase k rest else (k', v) :: merase k rest

def mapStep (s : MapSt) (k : Key) : MReq → MapSt × MResp
  | .set v => ((k, v) :: merase k s, .unit)
  | .get => (s, .val (mlookup k s))
  | .exist => (s, .bool (mlookup k s).isSome)
  | .delete => (merase k s, .unit)

def mapLocal (v : Option Nat) : MReq → Option Nat × MResp
  | .set w => (some w, .unit)
  | .get => (v, .val v)
  | .exist => (v, .bool v.isSome)
  | .delete => (none, .unit)

/-! ### key lockers / semaphore maps seen from outside: who holds which key

The per-key semantics (reader/writer exclusion, hand-off) belong to C01/C02; what C17 needs is that a
*group* answers as ONE locker would, whichever API a caller uses (`Lock`, `RLock`, `Locks`, `RLocks`, the
semaphore map's `AcquireWrite/Read`). Scripts keep at most one blocked caller, so the successor is unique. -/

structure Hold where
  thread : Nat
  key : Key
  write : Bool
deriving DecidableEq, Repr

structure Waiter where
  thread : Nat
  keys : List Key
  write : Bool
deriving DecidableEq, Repr

structure LockSt where
  holds : List Hold
  waiter : Option Waiter
deriving DecidableEq, Repr

def LockSt.empty : LockSt := ⟨[], none⟩

/-- may `k` be taken (for writing / reading) given the current holders? -/
def free (holds : List Hold) (k : Key) (write : Bool) : Bool :=
  holds.all (fun h => h.key ≠ k || (!write && !h.write))

/-- current read holds of `k` -/
def readers (holds : List Hold) (k : Key) : Nat := holds.countP (fun h => h.key = k && !h.write)

/-- `free`, with at most `cap` simultaneous readers per key (`cap = 0`: no limit — the key lockers; a semaphore map
admits `rwRatio` readers, a writer takes all the tokens) -/
def freeC (cap : Nat) (holds : List Hold) (k : Key) (write : Bool) : Bool :=
  free holds k write && (write || cap == 0 || decide (readers holds k < cap))

def grant (holds : List Hold) (t : Nat) (keys : List Key) (write : Bool) : List Hold :=
  holds ++ keys.map (fun k => ⟨t, k, write⟩)

def distinct : List Key → Bool
  | [] => true
  | k :: ks => !ks.contains k && distinct ks

/-- acquire: `none` = not a legal script line (someone is already blocked, duplicate keys in a WRITE list — a READ list
may name a key twice and then takes it twice —, the thread already
holds one of the keys); otherwise the new state and whether the call returned (`true`) or is parked -/
def LockSt.acquire (cap : Nat) (s : LockSt) (t : Nat) (keys : List Key) (write : Bool) : Option (LockSt × Bool) :=
  if s.waiter.isSome || keys.isEmpty || (write && !distinct keys) || s.holds.any (fun h => h.thread = t && keys.contains h.key) then none
  else if keys.all (fun k => freeC cap s.holds k write) then some (⟨grant s.holds t keys write, none⟩, true)
  else some (⟨s.holds, some ⟨t, keys, write⟩⟩, false)

/-- acquire with a context that is ALREADY done (cancelled / deadline passed), as the semaphore maps take one: a free
key is still granted (`Weighted.acquire` looks at the tokens first), a held key fails at once WITHOUT queueing
(`false`, state unchanged). Same legality conditions as `acquire`. -/
def LockSt.acquireDone (cap : Nat) (s : LockSt) (t : Nat) (keys : List Key) (write : Bool) : Option (LockSt × Bool) :=
  if s.waiter.isSome || keys.isEmpty || (write && !distinct keys) || s.holds.any (fun h => h.thread = t && keys.contains h.key) then none
  else if keys.all (fun k => freeC cap s.holds k write) then some (⟨grant s.holds t keys write, none⟩, true)
  else some (s, false)

/-- one hold of thread `t` is given back per listed key (a key listed twice in a READ list was taken twice) -/
def dropHolds (holds : List Hold) (t : Nat) (keys : List Key) (write : Bool) : List Hold :=
  keys.foldl (fun hs k => hs.erase ⟨t, k, write⟩) holds

/-- release: `none` = not legal (the thread is the blocked one, or does not hold every key in that mode);
otherwise the new state and the thread whose blocked call now returns, if any -/
def LockSt.release (cap : Nat) (s : LockSt) (t : Nat) (keys : List Key) (write : Bool) : Option (LockSt × Option Nat) :=
  if keys.isEmpty || (write && !distinct keys) || (s.waiter.any (fun w => w.thread = t)) ||
      !keys.all (fun k => decide (keys.count k ≤ s.holds.count ⟨t, k, write⟩)) then none
  else
    let holds := dropHolds s.holds t keys write
    match s.waiter with
    | some w =>
      if w.keys.all (fun k => freeC cap holds k w.write) then some (⟨grant holds w.thread w.keys w.write, none⟩, some w.thread)
      else some (⟨holds, some w⟩, none)
    | none => some (⟨holds, none⟩, none)

/-! ### the same table spread over shards

A lock group keeps the holders of key `k` in shard `idx k`; a multi-key call visits its keys in ascending shard
order (`calculateSortedMultiKeys`: grouped by shard index, groups sorted, caller order inside a group). -/

def insertByShard (idx : Key → Nat) (k : Key) : List Key → List Key
  | [] => [k]
  | x :: xs => if idx k ≤ idx x then k :: x :: xs else x :: insertByShard idx k xs

/-- the order in which a multi-key call takes its keys -/
def shardOrder (idx : Key → Nat) : List Key → List Key
  | [] => []
  | k :: ks => insertByShard idx k (shardOrder idx ks)

structure ShLockSt where
  shards : Nat → List Hold
  waiter : Option Waiter

def ShLockSt.empty : ShLockSt := ⟨fun _ => [], none⟩

def shFree (cap : Nat) (idx : Key → Nat) (sh : Nat → List Hold) (k : Key) (write : Bool) : Bool := freeC cap (sh (idx k)) k write

def shGrant (idx : Key → Nat) (sh : Nat → List Hold) (t : Nat) (keys : List Key) (write : Bool) : Nat → List Hold :=
  fun i => sh i ++ ((shardOrder idx keys).filter (fun k => idx k = i)).map (fun k => ⟨t, k, write⟩)

def shDrop (sh : Nat → List Hold) (t : Nat) (keys : List Key) (write : Bool) : Nat → List Hold :=
  fun i => dropHolds (sh i) t keys write

def ShLockSt.acquire (cap : Nat) (idx : Key → Nat) (s : ShLockSt) (t : Nat) (keys : List Key) (write : Bool) : Option (ShLockSt × Bool) :=
  if s.waiter.isSome || keys.isEmpty || (write && !distinct keys) ||
      keys.any (fun k => (s.shards (idx k)).any (fun h => h.thread = t && h.key = k)) then none
  else if (shardOrder idx keys).all (fun k => shFree cap idx s.shards k write) then
    some (⟨shGrant idx s.shards t keys write, none⟩, true)
  else some (⟨s.shards, some ⟨t, keys, write⟩⟩, false)

def ShLockSt.acquireDone (cap : Nat) (idx : Key → Nat) (s : ShLockSt) (t : Nat) (keys : List Key) (write : Bool) : Option (ShLockSt × Bool) :=
  if s.waiter.isSome || keys.isEmpty || (write && !distinct keys) ||
      keys.any (fun k => (s.shards (idx k)).any (fun h => h.thread = t && h.key = k)) then none
  else if (shardOrder idx keys).all (fun k => shFree cap idx s.shards k write) then
    some (⟨shGrant idx s.shards t keys write, none⟩, true)
  else some (s, false)

def ShLockSt.release (cap : Nat) (idx : Key → Nat) (s : ShLockSt) (t : Nat) (keys : List Key) (write : Bool) : Option (ShLockSt × Option Nat) :=
  if keys.isEmpty || (write && !distinct keys) || (s.waiter.any (fun w => w.thread = t)) ||
      !keys.all (fun k => decide (keys.count k ≤ (s.shards (idx k)).count ⟨t, k, write⟩)) then none
  else
    let sh := shDrop s.shards t keys write
    match s.waiter with
    | some w =>
      if (shardOrder idx w.keys).all (fun k => shFree cap idx sh k w.write) then
        some (⟨shGrant idx sh w.thread w.keys w.write, none⟩, some w.thread)
      else some (⟨sh, some w⟩, none)
    | none => some (⟨sh, none⟩, none)

/-- lock requests and answers of a script line -/
inductive LReq
  | acq (t : Nat) (keys : List Key) (write : Bool)
  | rel (t : Nat) (keys : List Key) (write : Bool)
  /-- acquire with an already cancelled / expired context -/
  | acqDone (t : Nat) (keys : List Key) (write : Bool)

inductive LResp | illegal | granted | parked | released (woke : Option Nat) | refused
deriving DecidableEq, Repr

def lockStep (cap : Nat) (s : LockSt) : LReq → LockSt × LResp
  | .acq t keys w => match s.acquire cap t keys w with
    | none => (s, .illegal)
    | some (s', true) => (s', .granted)
    | some (s', false) => (s', .parked)
  | .rel t keys w => match s.release cap t keys w with
    | none => (s, .illegal)
    | some (s', woke) => (s', .released woke)
  | .acqDone t keys w => match s.acquireDone cap t keys w with
    | none => (s, .illegal)
    | some (s', true) => (s', .granted)
    | some (s', false) => (s', .refused)

def shLockStep (cap : Nat) (idx : Key → Nat) (s : ShLockSt) : LReq → ShLockSt × LResp
  | .acq t keys w => match s.acquire cap idx t keys w with
    | none => (s, .illegal)
    | some (s', true) => (s', .granted)
    | some (s', false) => (s', .parked)
  | .rel t keys w => match s.release cap idx t keys w with
    | none => (s, .illegal)
    | some (s', woke) => (s', .released woke)
  | .acqDone t keys w => match s.acquireDone cap idx t keys w with
    | none => (s, .illegal)
    | some (s', true) => (s', .granted)
    | some (s', false) => (s', .refused)

end Nv.C17
