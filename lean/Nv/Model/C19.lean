import Nv.Basic
/-!
C19 — model of `vcode` (`SendSMSCode` / `VerifySMSCode`, `checkSend`, `checkVerify`, `updateSend`,
`genCode`) and of `idgen/random.genNonceStr`.

The model mirrors the Go code *as it is*.  Three facts of the source select between behaviours and are
regenerated from it (`Nv.Gen.C19.cfg`): the `fmt.Sprintf` format of the cache key in `SendSMSCode`
and in `VerifySMSCode`, and the argument of `fn(…)` in `genNonceStr`.  Keys are computed as real
character strings, so that collisions of distinct (area, phone) pairs are mirrored exactly.

Time is exact arithmetic on a clock in MILLISECONDS: `State.now` is the reading, every operation carries the reading at
which it happens (`advance`: readings never decrease), `Params.ttl / minInterval / window` are the configured durations in
ms (any sign), entries store `setTime` and `counterTime`.  The three comparisons are made exactly as the source makes them,
their kinds (`<` or `<=`, `>` or `>=`) being regenerated from it (`Cfg.minIntervalCmp / windowCmp / ttlCmp`).  A new
entry has Go's zero `setTime`: `now.Sub(zero)` saturates at the largest duration, so a first send is never too frequent.
The cache is the LRU cache of `cache.LRUCache` with capacity `CacheSize` and entries of size 1: a list, most
recently used first; `Set` (accepted send) moves to the front and evicts from the back, `Get` (verify) moves to
the front, `Peek` (send) does not reorder.
Fresh hashes (`random.MD5UUID()`) are modelled by the sequence number of the accepted send;
codes of the real-sender mode (`random.SecGenNonceStr`) symbolically by the same number (`Code.sym k`), their
text being `genNonce … "0123456789" CodeLen (rnd k)` for an abstract random source `rnd` (`Code.text`).
-/
namespace Nv.C19

/-- strings are BYTE strings, as in Go (`len`, slicing and `%s` work on bytes): a list of `Char`s below 256, one per byte -/
abbrev Str := List Char

inductive KeyFmt
  | dashJoin   -- fmt.Sprintf("%s-%s", areaCode, phone)  (or areaCode + "-" + phone): not injective when '-' occurs in the area code
  | plain      -- fmt.Sprintf("%s%s", areaCode, phone)   (or areaCode + phone): not injective
  | lenPrefix  -- fmt.Sprintf("%d:%s%s", len(areaCode), areaCode, phone): injective for all strings
  | unknown
deriving DecidableEq, Repr

inductive NonceBound
  | lenMinus1   -- index = fn(bSize - 1)
  | len         -- index = fn(bSize)
  | unknown
deriving DecidableEq, Repr

/-- `checkSend`: refuse as too frequent iff `elapsed < MinInterval` (today) or `elapsed <= MinInterval` -/
inductive LtCmp
  | lt | le | unknown
deriving DecidableEq, Repr

/-- `checkSend` window refresh / `checkVerify` timeout: iff `elapsed > d` (today) or `elapsed >= d` -/
inductive GtCmp
  | gt | ge | unknown
deriving DecidableEq, Repr

structure Cfg where
  sendKeyFmt : KeyFmt
  verifyKeyFmt : KeyFmt
  nonceBound : NonceBound
  minIntervalCmp : LtCmp    -- now.Sub(c.setTime) < MinInterval
  windowCmp : GtCmp         -- now.Sub(c.counterTime) > CounterDuration
  ttlCmp : GtCmp            -- now.Sub(c.setTime) > TTL
deriving DecidableEq, Repr

def LtCmp.holds : LtCmp → Int → Int → Bool
  | .lt, a, b => decide (a < b)
  | .le, a, b => decide (a ≤ b)
  | .unknown, a, b => decide (a < b)

def GtCmp.holds : GtCmp → Int → Int → Bool
  | .gt, a, b => decide (a > b)
  | .ge, a, b => decide (a ≥ b)
  | .unknown, a, b => decide (a > b)

/-- shape facts of the source the model is written against (regenerated, compared with `expected`) -/
structure Facts where
  verifyCountsFirst : Bool   -- checkVerify: `c.updateVerify()` (= `verifyCount++`) first, then `verifyCount > MaxVerifyCount` ⇒ retry limit
  verifyOrder : Bool         -- … then code compare ⇒ not match, hash compare ⇒ hash not match, `now-setTime > TTL` ⇒ timeout, nil
  updateSendShape : Bool     -- updateSend: code, fresh MD5UUID hash, setTime = now, sendCount++, verifyCount = 0 (and nothing else)
  checkSendShape : Bool      -- checkSend: `now-setTime < MinInterval` ⇒ too frequent; `now-counterTime > CounterDuration` ⇒ refresh (counterTime, sendCount = 0), nil; `sendCount > MaxCount` ⇒ count limit; nil
  sendFlow : Bool            -- SendSMSCode: fetch (peek) or new entry; checkSend error ⇒ ("", err); genCode; updateSend; Set; `if !Mock` SendCode; return hash, err
  verifyFlow : Bool          -- VerifySMSCode: fetch (get); absent ⇒ not exist; else checkVerify
  genCodeShape : Bool        -- genCode: real ⇒ SecGenNonceStr("0123456789", CodeLen); mock ⇒ last CodeLen bytes of phone, else left-padded with '0'
  ownCache : Bool            -- NewSimpleLogic builds its own NewSimpleCache(config.CacheSize); fetchCache (whole body): Peek when peek else Get, *vCache assertion
  nonceLoop : Bool           -- genNonceStr: `for i := 0; i < length; i++ { index = fn(…); WriteByte(baseStr[index]) }`; SecGenNonceStr (whole body) seeds math/rand and passes r.Intn
  sizeIsOne : Bool           -- `func (c *vCache) Size() int { return 1 }`: the LRU capacity counts entries
  simpleCacheIsLRU : Bool    -- `NewSimpleCache(c) = &simpleCache{lru: cache.NewLRUCache(c)}`; Get/Peek/Set delegate to it
  durationIdentity : Bool    -- tex: `func (i Duration) Duration() time.Duration { return time.Duration(i) }` (no unit conversion)
deriving DecidableEq, Repr

def Facts.expected : Facts := ⟨true, true, true, true, true, true, true, true, true, true, true, true⟩

/-- configurations for which the property theorems are proved -/
def Proved (c : Cfg) : Prop :=
  c.sendKeyFmt = .lenPrefix ∧ c.verifyKeyFmt = .lenPrefix ∧ c.nonceBound = .len ∧
  -- "sends closer together than the minimum interval are refused": `<`; "after the lifetime": `>`; window: `>` as coded
  c.minIntervalCmp = .lt ∧ c.windowCmp = .gt ∧ c.ttlCmp = .gt
instance : DecidablePred Proved := fun c => by unfold Proved; exact inferInstance

/-- decimal digits of `n` (what `%d` prints), most significant first; `fuel ≥ n` is always enough -/
def decF : Nat → Nat → Str
  | 0, n => [Nat.digitChar (n % 10)]
  | f + 1, n => if n < 10 then [Nat.digitChar n] else decF f (n / 10) ++ [Nat.digitChar (n % 10)]

def dec (n : Nat) : Str := decF n n

/-- the cache key as the character string `fmt.Sprintf` produces -/
def mkKey : KeyFmt → Str → Str → Str
  | .dashJoin, a, p => a ++ '-' :: p
  | .plain, a, p => a ++ p
  | .lenPrefix, a, p => dec a.length ++ ':' :: (a ++ p)
  | .unknown, a, p => a ++ '?' :: p

/-- a verification code: literal text, or the (random) code generated at accepted send `k` -/
inductive Code
  | lit (s : Str)
  | sym (k : Nat)
deriving DecidableEq, Repr

/-- `vCache`; times in ms. A cached entry always has a set `setTime` (it is stored only after `updateSend`) -/
structure Entry where
  sendCount : Int
  verifyCount : Int
  code : Code
  hash : Nat
  setTime : Nat
  counterTime : Nat
deriving DecidableEq, Repr

/-- `Config` and the fake SMS sender, durations in their always/never regimes -/
structure Params where
  cap : Nat                  -- CacheSize: capacity of the LRU cache (every entry has Size() = 1)
  mock : Bool
  codeLen : Int              -- CodeLen; negative values: real mode ⇒ empty code, mock mode ⇒ genCode panics (out of the property's domain)
  maxCount : Int
  maxVerify : Int
  ttl : Int                  -- TTL in ms
  minInterval : Int          -- MinInterval in ms
  window : Int               -- CounterDuration in ms
  smsFails : Bool            -- the SMS sender returns an error
deriving DecidableEq, Repr

abbrev Cache := List (Str × Entry)

/-- most recently used binding first -/
def lookup (k : Str) : Cache → Option Entry
  | [] => none
  | (k', e) :: rest => if k = k' then some e else lookup k rest

def erase (k : Str) (c : Cache) : Cache := c.filter (fun b => decide (b.1 ≠ k))

/-- `MoveToFront` of an existing element with its (mutated) value / `PushFront` of a new one -/
def touch (k : Str) (e : Entry) (c : Cache) : Cache := (k, e) :: erase k c

/-- `LRUCache.Set`: update in place or add, move to front, then evict from the back while size > capacity -/
def setLRU (cap : Nat) (k : Str) (e : Entry) (c : Cache) : Cache := (touch k e c).take cap

structure State where
  cache : Cache
  nsent : Nat        -- number of accepted sends so far (supply of fresh hashes / symbolic codes)
  now : Nat          -- the clock reading (ms)
deriving DecidableEq, Repr

def State.init : State := ⟨[], 0, 0⟩

/-- the clock is read at `t`; a reading below the current one is ignored (readings never decrease) -/
def advance (t : Nat) (s : State) : State := { s with now := max s.now t }

inductive SendResult
  | ok (h : Nat)
  | smsFail (h : Nat)     -- the sender failed: the hash is returned *together with* the error, the code stays stored
  | tooFreq
  | countLimit
  | panic                 -- mock mode with a negative CodeLen: `phone[l-CodeLen:]` is out of range
deriving DecidableEq, Repr

inductive VerifyResult
  | ok | notExist | retryLimit | notMatch | hashNotMatch | timeout
deriving DecidableEq, Repr

def SendResult.accepted : SendResult → Option Nat
  | .ok h => some h
  | .smsFail h => some h
  | _ => none

/-- mock code: the last `n` characters of the phone, left-padded with '0' -/
def mockCode (phone : Str) (n : Nat) : Str :=
  if phone.length ≥ n then phone.drop (phone.length - n) else List.replicate (n - phone.length) '0' ++ phone

/-- `genCode` at accepted send number `k` -/
def genCode (pr : Params) (phone : Str) (k : Nat) : Code :=
  if pr.mock then .lit (mockCode phone pr.codeLen.toNat)
  else if pr.codeLen ≤ 0 then .lit [] else .sym k

/-- `checkSend` on the fetched (or new) entry at clock reading `now`: refusal, or (send counter, window start) to continue from -/
def checkSend (c : Cfg) (pr : Params) (now : Nat) (e : Option Entry) : Except SendResult (Int × Nat) :=
  match e with
  | some e =>
    if c.minIntervalCmp.holds ((now : Int) - e.setTime) pr.minInterval then .error .tooFreq
    else if c.windowCmp.holds ((now : Int) - e.counterTime) pr.window then .ok (0, now)
    else if e.sendCount > pr.maxCount then .error .countLimit else .ok (e.sendCount, e.counterTime)
  | none =>   -- new entry: zero setTime (elapsed saturates: never too frequent), counterTime = now (elapsed 0), sendCount = 0
    if c.windowCmp.holds 0 pr.window then .ok (0, now)
    else if (0 : Int) > pr.maxCount then .error .countLimit else .ok (0, now)

/-- `SendSMSCode` on a cache key -/
def sendK (c : Cfg) (pr : Params) (s : State) (key phone : Str) : State × SendResult :=
  match checkSend c pr s.now (lookup key s.cache) with
  | .error r => (s, r)
  | .ok (cnt, ct) =>
    if pr.mock && decide (pr.codeLen < 0) then (s, .panic) else
    let k := s.nsent + 1
    let e : Entry := ⟨cnt + 1, 0, genCode pr phone k, k, s.now, ct⟩
    (⟨setLRU pr.cap key e s.cache, k, s.now⟩, if !pr.mock && pr.smsFails then .smsFail k else .ok k)

/-- `checkVerify` at clock reading `now` on an entry whose attempt counter was already incremented -/
def checkVerify (c : Cfg) (pr : Params) (now : Nat) (e : Entry) (code : Code) (hash : Nat) : VerifyResult :=
  if e.verifyCount > pr.maxVerify then .retryLimit
  else if e.code ≠ code then .notMatch
  else if e.hash ≠ hash then .hashNotMatch
  else if c.ttlCmp.holds ((now : Int) - e.setTime) pr.ttl then .timeout
  else .ok

/-- `VerifySMSCode` on a cache key -/
def verifyK (c : Cfg) (pr : Params) (s : State) (key : Str) (code : Code) (hash : Nat) : State × VerifyResult :=
  match lookup key s.cache with
  | none => (s, .notExist)
  | some e =>
    let e' : Entry := { e with verifyCount := e.verifyCount + 1 }
    (⟨touch key e' s.cache, s.nsent, s.now⟩, checkVerify c pr s.now e' code hash)

def send (c : Cfg) (pr : Params) (s : State) (area phone : Str) : State × SendResult :=
  sendK c pr s (mkKey c.sendKeyFmt area phone) phone

def verify (c : Cfg) (pr : Params) (s : State) (area phone : Str) (code : Code) (hash : Nat) :
    State × VerifyResult :=
  verifyK c pr s (mkKey c.verifyKeyFmt area phone) code hash

/-- a timed operation: the clock reads `t` when it is called -/
inductive Op
  | send (t : Nat) (area phone : Str)
  | verify (t : Nat) (area phone : Str) (code : Code) (hash : Nat)
deriving DecidableEq, Repr

inductive Out
  | send (r : SendResult)
  | verify (r : VerifyResult)
deriving DecidableEq, Repr

def step (c : Cfg) (pr : Params) (s : State) : Op → State × Out
  | .send t a p => let r := send c pr (advance t s) a p; (r.1, .send r.2)
  | .verify t a p code h => let r := verify c pr (advance t s) a p code h; (r.1, .verify r.2)

/-! ### `genNonceStr` -/

/-- the argument passed to `fn` for an alphabet of `n` bytes -/
def boundOf : NonceBound → Nat → Int
  | .len, n => n
  | .lenMinus1, n => (n : Int) - 1
  | .unknown, n => n

/-- the loop body iterated `len` times; `fn(m)` returns the next scripted value modulo `m` (0 when the script ran out) -/
def nonceLoop (base : Str) (m : Nat) : Nat → List Nat → Str
  | 0, _ => []
  | n + 1, vals => base.getD (vals.headD 0 % m) ' ' :: nonceLoop base m n vals.tail

/-- `genNonceStr base len fn`; `none` = panic (`rand.Intn` panics when its argument is ≤ 0) -/
def genNonce (b : NonceBound) (base : Str) (len : Nat) (vals : List Nat) : Option Str :=
  if len = 0 then some []
  else if boundOf b base.length ≤ 0 then none
  else some (nonceLoop base (boundOf b base.length).toNat len vals)

/-- characters a uniformly random source can select (all positions below the bound) -/
def reachable (b : NonceBound) (base : Str) : Str := base.take (boundOf b base.length).toNat

def digits : Str := ['0', '1', '2', '3', '4', '5', '6', '7', '8', '9']

/-- the text of a code: a literal, or for the code generated at accepted send `k` in real-sender mode what
    `SecGenNonceStr("0123456789", CodeLen)` returns for the random values `rnd k` (`none` = panic) -/
def Code.text (b : NonceBound) (pr : Params) (rnd : Nat → List Nat) : Code → Option Str
  | .lit s => some s
  | .sym k => genNonce b digits pr.codeLen.toNat (rnd k)

/-! ### bulk: many sends to distinct generated pairs, then one pair is verified and re-sent -/

def bulkArea : Str := ['8', '6']
def bulkPhone (i : Nat) : Str := dec (13900000000 + i)

/-- mock mode, 4-character codes, MaxCount 3, MaxVerifyCount 3, and all three durations 9223372037 ms ("never") -/
def bulkParams (cap : Nat) : Params := ⟨cap, true, 4, 3, 3, 9223372037, 9223372037, 9223372037, false⟩

/-- sends to the generated pairs number m, m+1, …, m+cnt−1, all at clock reading 0 -/
def bulkSends : Nat → Nat → List Op
  | _, 0 => []
  | m, cnt + 1 => .send 0 bulkArea (bulkPhone m) :: bulkSends (m + 1) cnt

/-- `bulk cap n k` run on the model: n sends into an empty cache of capacity `cap`, then pair k is verified with the code and
    hash of its send, then re-sent -/
def bulkRun (c : Cfg) (cap n k : Nat) : VerifyResult × SendResult :=
  let pr := bulkParams cap
  let s := Nv.final (step c pr) State.init (bulkSends 0 n)
  let v := verify c pr s bulkArea (bulkPhone k) (genCode pr (bulkPhone k) (k + 1)) (k + 1)
  (v.2, (send c pr v.1 bulkArea (bulkPhone k)).2)

/-- the closed form: pair k is still cached iff it was sent (k < n) and fewer than `cap` sends followed it -/
def bulkClosed (cap n k : Nat) : VerifyResult × SendResult :=
  if k < n ∧ n - 1 - k < cap then (.ok, .tooFreq) else (.notExist, .ok (n + 1))

end Nv.C19
