import Nv.Basic
/-!
C14 — model of the four serial executors of `syncx/pipe`:
`line.Line`, `mline.MultiLine`, `async.RunnerQ` (call / delegate / proc contexts) and `async.ProcChan`.

One *lane* = one FIFO queue (own minimal list queue, `AddReq` = push back, `PopAnyway` = pop front also
when closed) + one consumer goroutine (`idle | running c | exited`) + one record per call holding the
caller's context flag, whether the caller is still parked in `R()` and the per-call result cell
(buffered channel of size 1 / closed `wait` channel + result fields).

The machine is a labelled transition system whose steps are the code's critical sections
(`addCallCtx`, one iteration of `popLoop`, the callee returning + `SetR`, the caller's `select` in `R()`,
`cancel`, `Stop`).  `select` with several ready cases is a nondeterministic choice: the action carries
the resolution (`enq`, `take`, `pick`).  `MultiLine` is an array of independent lanes addressed through
`NormalizeSlotIndex` (a parameter `slot` here; the oracle passes the kernel regenerated from the source).

What is selected by the source and therefore a parameter (`Cfg`): how `ProcChan.addCallCtx` accepts
(`racyThreeWaySelect` today: a closed stop channel and a free buffer slot are both ready).
-/
namespace Nv.C14

inductive Kind | line | mline | runner | pchan
deriving DecidableEq, Repr

/-- how `ProcChan.addCallCtx` decides between enqueue / closed / full -/
inductive AcceptPath
  | racyThreeWaySelect   -- `select { case ch <- p: … case <-stopChan: … default: … }` (today)
  | stopFirst            -- `stopChan` is tested before the send is attempted
  | unknown
deriving DecidableEq, Repr

/-- is `MultiLine.Run` protected against a second call (Line, RunnerQ, ProcChan use `startOnce`)? -/
inductive RunGuard
  | once        -- `startOnce.Do(…)` / started flag: a second `Run` starts nothing
  | unguarded   -- `for i … { go c.popLoop(i) }` on every call: a second `Run` puts a second consumer on every lane
  | unknown
deriving DecidableEq, Repr

structure Cfg where
  pchanAccept : AcceptPath
  mlineRun : RunGuard
deriving DecidableEq, Repr

/-- configurations for which the property theorems are proved -/
def Proved (c : Cfg) : Prop := c.pchanAccept = .stopFirst ∧ c.mlineRun = .once
instance : DecidablePred Proved := fun c => by unfold Proved; exact inferInstance

/-- no lane of kind k can get a second consumer -/
def RunGuarded (c : Cfg) (k : Kind) : Prop := c.mlineRun = .once ∨ k ≠ .mline
instance (c : Cfg) (k : Kind) : Decidable (RunGuarded c k) := by unfold RunGuarded; exact inferInstance

/-- shape facts of the source the model is written against (regenerated, compared with `expected`).
Each is "every function of the group has exactly the canonical text (locals renamed) the model was validated against". -/
structure Facts where
  popLoops : Bool     -- the four `popLoop`s: `PopAnyway` / `select ch|stopChan`, call with (ctx, [index,] param), `SetR`, `cc.run()`
  runGuards : Bool    -- constructors + `Run` of Line / RunnerQ / ProcChan: `startOnce.Do(… go c.popLoop())` (MultiLine.Run: `Cfg.mlineRun`)
  resultCells : Bool  -- `newAsyncCtx` (`rChan: make(chan AsyncR, 1)`), `SetR`, `R`, and the four `r()` selects
  runBodies : Bool    -- whole `run()` of callCtxT / delegateCtxT / procCtxT / procChanCtxT: `defer close(wait)`, ctx-done skip,
                      -- the callee is called with the caller's ctx and argument, result and error published before the close
  stopBodies : Bool   -- `Stop` (`stopOnce.Do(close …)`), `MultiLine.stop/signalDone`, the `WaitStop`s
  entryPoints : Bool  -- `AsyncCall/AsyncDelegate/AsyncProc`, `addXCtx`, the context constructors (a fresh object per call), `validateFn`
  laneIsSlot : Bool   -- `MultiLine.addCallCtx` enqueues on `qs[NormalizeSlotIndex(hashIndex, slotSize)]`, `IndexOf`, `newMux`, `GetOption`
  queueBodies : Bool  -- every function of `pipe/q.Q` and `async.Q` (FIFO list, closed/full checks, `Broadcast` on add and close, blocking pop)
  queueLocks : Bool   -- every state-touching method of both queues takes `a.lock` first and releases it by `defer`
deriving DecidableEq, Repr

def Facts.expected : Facts := ⟨true, true, true, true, true, true, true, true, true⟩

/-! ### the slot kernel -/

abbrev Slot := BitVec 64 → BitVec 64 → BitVec 64

/-- today's `NormalizeSlotIndex`: absolute value first, then remainder -/
def slotAbsFirst (i s : BitVec 64) : BitVec 64 :=
  (if i.slt 0#64 then -i else i).srem s

/-- repaired form: remainder first, then absolute value -/
def slotRemFirst (i s : BitVec 64) : BitVec 64 :=
  let r := i.srem s
  if r.slt 0#64 then -r else r

def SlotOk (f : Slot) : Prop :=
  ∀ i s : BitVec 64, 0 < s.toInt → 0 ≤ (f i s).toInt ∧ (f i s).toInt < s.toInt

/-! ### one lane -/

/-- what a caller's `AsyncCall` returns -/
inductive Res
  | ok (v : Nat)     -- the callee's value
  | err (v : Nat)    -- the callee's error
  | ctx              -- the caller's own context error
  | closed           -- queue closed / `ErrClosed`
  | full             -- queue full
  | panic            -- the caller goroutine panicked (slot index out of range)
deriving DecidableEq, Repr

inductive Ev
  | start (id lane : Nat)      -- callee entered, with the lane index it was given
  | fin (id : Nat) (r : Res)   -- callee returned r
  | ret (id : Nat) (r : Res)   -- `AsyncCall` of call id returned r to its caller
  | exit (lane : Nat)          -- the lane's consumer goroutine returned
deriving DecidableEq, Repr

inductive Cons | idle | running (id : Nat) | exited
deriving DecidableEq, Repr

structure CallRec where
  id : Nat
  ctxDone : Bool        -- the caller's context has been cancelled
  waiting : Bool        -- the caller is parked in `R()`
  cell : Option Res     -- result cell of this call
deriving DecidableEq, Repr

structure Lane where
  kind : Kind
  cap : Nat             -- queue bound (0 = unbounded) / channel capacity for pchan
  idx : Nat             -- index handed to the callee
  stopped : Bool        -- queue closed / stop channel closed
  queue : List Nat      -- call ids, oldest first
  started : Bool        -- `Run` has been called: the consumer goroutine exists
  cons : Cons
  cons2 : Option Cons   -- a second consumer on this lane (an unguarded `Run` called twice)
  calls : List CallRec
  next : Nat            -- every call id seen so far is below `next`
  log : List Ev         -- oldest first (ghost: the P-observable trace)
  accepted : List Nat   -- ghost: ids ever enqueued, oldest first
  popped : List Nat     -- ghost: ids ever taken by the consumer, oldest first
deriving DecidableEq, Repr

def Lane.init (k : Kind) (cap idx : Nat) : Lane :=
  { kind := k, cap := cap, idx := idx, stopped := false, queue := [], started := false, cons := .idle, cons2 := none, calls := [],
    next := 0, log := [], accepted := [], popped := [] }

inductive LAct
  | submit (id : Nat) (enq : Bool)     -- `addCallCtx`; enq resolves the racy select of ProcChan
  | pop (take : Bool)                  -- one iteration of `popLoop`; take resolves ProcChan's select after Stop
  | finish (id : Nat) (r : Res)        -- the running callee returns r; `SetR` / `close(wait)`
  | recv (id : Nat) (pick : Nat)       -- the caller's select: 0 result, 1 ctx.Done, 2 stopChan
  | cancel (id : Nat)
  | stop
  | run                                -- `Run()`
  | pop2                               -- one loop iteration of the second consumer (if any)
deriving DecidableEq, Repr

def getCall (l : Lane) (id : Nat) : Option CallRec := l.calls.find? (fun r => r.id == id)

def updCall (calls : List CallRec) (id : Nat) (f : CallRec → CallRec) : List CallRec :=
  calls.map (fun r => if r.id == id then f r else r)

def isCalleeRes : Res → Bool
  | .ok _ => true
  | .err _ => true
  | _ => false

/-- a send on ProcChan's channel can proceed -/
def Lane.room (l : Lane) : Bool := l.queue.length < l.cap || (l.started && l.cons == .idle && l.queue.isEmpty)

def Lane.reject (l : Lane) (id : Nat) (r : Res) : Lane :=
  { l with calls := l.calls ++ [⟨id, false, false, none⟩], next := id + 1, log := l.log ++ [.ret id r] }

def Lane.accept (l : Lane) (id : Nat) : Lane :=
  { l with calls := l.calls ++ [⟨id, false, true, none⟩], next := id + 1, queue := l.queue ++ [id],
           accepted := l.accepted ++ [id] }

/-- `run()` of the runner / pchan contexts tests ctx.Done first -/
def Lane.skips (l : Lane) (id : Nat) : Bool :=
  (l.kind == .runner || l.kind == .pchan) && (match getCall l id with | some r => r.ctxDone | none => false)

def Lane.doExit (l : Lane) : Lane := { l with cons := .exited, log := l.log ++ [.exit l.idx] }

def Lane.take (l : Lane) (c : Nat) (rest : List Nat) : Lane :=
  if l.skips c then
    { l with queue := rest, popped := l.popped ++ [c], calls := updCall l.calls c (fun r => { r with cell := some .ctx }) }
  else
    { l with queue := rest, popped := l.popped ++ [c], cons := .running c, log := l.log ++ [.start c l.idx] }

def Lane.step (cfg : Cfg) (l : Lane) : LAct → Option Lane
  | .submit id enq =>
    if id < l.next then none
    else if l.kind == .pchan then
      if !l.stopped then
        (if l.room then some (l.accept id) else some (l.reject id .full))
      else match cfg.pchanAccept with
        | .stopFirst => some (l.reject id .closed)
        | _ => if l.room && enq then some (l.accept id) else some (l.reject id .closed)
    else
      if l.stopped then some (l.reject id .closed)
      else if 0 < l.cap && l.cap ≤ l.queue.length then some (l.reject id .full)
      else some (l.accept id)
  | .pop take =>
    if !l.started then none
    else match l.cons with
    | .idle =>
      (match l.queue with
       | [] => if l.stopped then some l.doExit else none
       | c :: rest =>
         if l.kind == .pchan && l.stopped && !take then some l.doExit
         else some (l.take c rest))
    | _ => none
  | .finish id r =>
    if l.cons == .running id && isCalleeRes r then
      some { l with cons := .idle, log := l.log ++ [.fin id r],
                    calls := updCall l.calls id (fun c => { c with cell := some r }) }
    else if l.cons2 == some (.running id) && isCalleeRes r then
      some { l with cons2 := some .idle, log := l.log ++ [.fin id r],
                    calls := updCall l.calls id (fun c => { c with cell := some r }) }
    else none
  | .recv id pick =>
    match getCall l id with
    | none => none
    | some c =>
      if !c.waiting then none
      else
        let done (r : Res) : Option Lane :=
          some { l with log := l.log ++ [.ret id r], calls := updCall l.calls id (fun c => { c with waiting := false }) }
        match pick with
        | 0 => (match c.cell with | some r => done r | none => none)
        | 1 => if c.ctxDone then done .ctx else none
        | 2 => if l.kind == .pchan && l.stopped then done .closed else none
        | _ => none
  | .cancel id =>
    match getCall l id with
    | none => none
    | some _ => some { l with calls := updCall l.calls id (fun c => { c with ctxDone := true }) }
  | .stop => some { l with stopped := true }
  | .run =>
    if !l.started then some { l with started := true }
    else if l.kind == .mline && cfg.mlineRun != .once && l.cons2 == none then some { l with cons2 := some .idle }
    else some l
  | .pop2 =>
    match l.cons2 with
    | some .idle =>
      (match l.queue with
       | [] => if l.stopped then some { l with cons2 := some .exited, log := l.log ++ [.exit l.idx] } else none
       | c :: rest =>
         some { l with queue := rest, popped := l.popped ++ [c], cons2 := some (.running c), log := l.log ++ [.start c l.idx] })
    | _ => none

/-- the lane as an LTS -/
def laneLTS (cfg : Cfg) (k : Kind) (cap idx : Nat) : LTS Lane LAct :=
  { init := Lane.init k cap idx, step := Lane.step cfg }

/-! ### observables of a lane's log -/

def startIds : List Ev → List Nat
  | [] => []
  | .start id _ :: es => id :: startIds es
  | _ :: es => startIds es

/-- start / fin events only, as (isStart, id) -/
def runEvents : List Ev → List (Bool × Nat)
  | [] => []
  | .start id _ :: es => (true, id) :: runEvents es
  | .fin id _ :: es => (false, id) :: runEvents es
  | _ :: es => runEvents es

/-- ids of the calls whose callee returned, oldest first -/
def finIds : List Ev → List Nat
  | [] => []
  | .fin id _ :: es => id :: finIds es
  | _ :: es => finIds es

/-- the caller's context of call id has been cancelled -/
def Cancelled (calls : List CallRec) (id : Nat) : Prop := ∃ rec ∈ calls, rec.id = id ∧ rec.ctxDone = true

/-- the run discipline of one lane as a tiny automaton over `runEvents`: `some none` = nothing runs,
`some (some c)` = call c runs, `none` = discipline broken (a start while another call runs, or an end of a
call that does not run) -/
def runStep : Option (Option Nat) → Bool × Nat → Option (Option Nat)
  | some none, (true, id) => some (some id)
  | some (some c), (false, id) => if c = id then some none else none
  | _, _ => none

def runState (evs : List (Bool × Nat)) : Option (Option Nat) := evs.foldl runStep (some none)

def consRunning : Cons → Option Nat
  | .running c => some c
  | _ => none

/-- remaining iterations of the consumer loop once the lane is stopped -/
def Lane.remaining (l : Lane) : Nat :=
  match l.cons with
  | .exited => 0
  | _ => l.queue.length + 1

/-! ### quiescent closure (used by the oracle): run the internal steps — callers' receives and the
consumer's loop — until none is enabled.  Where ProcChan's `select` is ambiguous both branches are kept. -/

def readyPick (l : Lane) (c : CallRec) : Option Nat :=
  if !c.waiting then none
  else if c.cell.isSome then some 0
  else if c.ctxDone then some 1
  else if l.kind == .pchan && l.stopped then some 2
  else none

def firstRecv (l : Lane) : List CallRec → Option (Nat × Nat)
  | [] => none
  | c :: cs => match readyPick l c with
    | some p => some (c.id, p)
    | none => firstRecv l cs

def Lane.ambiguous (l : Lane) : Bool :=
  l.kind == .pchan && l.started && l.stopped && l.cons == .idle && !l.queue.isEmpty

def settleLane (cfg : Cfg) : Nat → Lane → List Lane
  | 0, l => [l]
  | n + 1, l =>
    match firstRecv l l.calls with
    | some (id, p) =>
      (match l.step cfg (.recv id p) with
       | some l' => settleLane cfg n l'
       | none => [l])
    | none =>
      if l.ambiguous then
        (match l.step cfg (.pop true) with | some l' => settleLane cfg n l' | none => []) ++
        (match l.step cfg (.pop false) with | some l' => settleLane cfg n l' | none => [])
      else
        match l.step cfg (.pop true) with
        | some l' => settleLane cfg n l'
        | none =>
          match l.step cfg .pop2 with
          | some l' => settleLane cfg n l'
          | none => [l]

def Lane.fuel (l : Lane) : Nat := 2 * (l.calls.length + l.queue.length) + 4

/-! ### the executor: lanes addressed through the slot kernel -/

structure Exec where
  kind : Kind
  nlanes : Nat
  lanes : List Lane
  next : Nat                         -- next call id
  owner : List (Nat × Nat)           -- call id ↦ lane index (calls that reached a lane)
  hashes : List (Nat × BitVec 64)    -- ghost: call id ↦ hash
  glog : List Ev                     -- events of calls that never reached a lane (caller panicked)
deriving DecidableEq, Repr

def mkLanes (k : Kind) (cap : Nat) : Nat → List Lane
  | 0 => []
  | n + 1 => mkLanes k cap n ++ [Lane.init k cap n]

def Exec.init (k : Kind) (nlanes cap : Nat) : Exec :=
  { kind := k, nlanes := nlanes, lanes := mkLanes k cap nlanes, next := 0, owner := [], hashes := [], glog := [] }

/-- lane index of a hash: `none` = the indexing expression panics -/
def laneOf (slot : Slot) (k : Kind) (nlanes : Nat) (hash : BitVec 64) : Option Nat :=
  if k == .mline then
    let i := (slot hash (BitVec.ofNat 64 nlanes)).toInt
    if 0 ≤ i ∧ i < (nlanes : Int) then some i.toNat else none
  else some 0

inductive XAct
  | submit (hash : BitVec 64) (enq : Bool)
  | lane (i : Nat) (a : LAct)          -- an action of lane i other than submit / stop / run
  | stop
  | run
deriving DecidableEq, Repr

def isLocal : LAct → Bool
  | .submit _ _ => false
  | .stop => false
  | .run => false
  | _ => true

/-- `Stop` / `Run` act on every lane -/
def allLanes (cfg : Cfg) (a : LAct) : List Lane → List Lane
  | [] => []
  | l :: ls => (match l.step cfg a with | some l' => l' | none => l) :: allLanes cfg a ls

def Exec.step (cfg : Cfg) (slot : Slot) (x : Exec) : XAct → Option Exec
  | .submit hash enq =>
    match laneOf slot x.kind x.nlanes hash with
    | none => some { x with next := x.next + 1, hashes := x.hashes ++ [(x.next, hash)],
                            glog := x.glog ++ [.ret x.next .panic] }
    | some i =>
      match x.lanes[i]? with
      | none => none
      | some l =>
        match l.step cfg (.submit x.next enq) with
        | none => none
        | some l' => some { x with lanes := x.lanes.set i l', next := x.next + 1,
                                   owner := x.owner ++ [(x.next, i)], hashes := x.hashes ++ [(x.next, hash)] }
  | .lane i a =>
    if !isLocal a then none
    else match x.lanes[i]? with
      | none => none
      | some l => match l.step cfg a with
        | none => none
        | some l' => some { x with lanes := x.lanes.set i l' }
  | .stop => some { x with lanes := allLanes cfg .stop x.lanes }
  | .run => some { x with lanes := allLanes cfg .run x.lanes }

def execLTS (cfg : Cfg) (slot : Slot) (k : Kind) (nlanes cap : Nat) : LTS Exec XAct :=
  { init := Exec.init k nlanes cap, step := Exec.step cfg slot }

def ownerOf (x : Exec) (id : Nat) : Option Nat := (x.owner.find? (fun p => p.1 == id)).map (·.2)

/-- all combinations of one outcome per lane -/
def combos : List (List Lane) → List (List Lane)
  | [] => [[]]
  | opts :: rest => let tails := combos rest; opts.flatMap (fun l => tails.map (fun t => l :: t))

def Exec.settle (cfg : Cfg) (x : Exec) : List Exec :=
  (combos (x.lanes.map (fun l => settleLane cfg l.fuel l))).map (fun ls => { x with lanes := ls })

end Nv.C14
