import Nv.Basic
/-!
C02 — model of `syncx/keylock` (KeyLocker, KeyLockerGrp, TKeyLocker[T], TKeyLockerGrp[T]).

State: an append-only store of `wrapLocker` objects (`objs`, fresh ids from `next`), the lock table
`key ↦ object` (all shards merged: a key determines its shard, so one table keyed by the key is the
disjoint union of the shard maps), and explicit threads. A `Tid` is the *owner identity of one
outstanding acquisition* (Go mutexes are not owned by goroutines; a goroutine that re-locks is a second tid).

`sync.RWMutex` is modelled, not verified, at the level of its implementation: `Lock` takes the inner mutex
`rw.w` (announcing itself: later readers block), then waits for the active readers; `RLock` enters unless a
writer has announced itself; a writer's `Unlock` releases one semaphore token per blocked reader (which a
reader arriving later may take instead) and releases `rw.w`. Every waiter serves itself, so *any* pending
writer may take `rw.w` next: theorems hold for every admission order; the oracle schedules FIFO like the runtime.

Atomic steps are one key at a time (finer than the code, which handles one shard group per table-mutex
section): every execution of the code is an execution of this LTS. The order in which keys are
registered / locked / unlocked is the code's: list order (single lockers) or shard-index order, then
list order (`calculateSortedMultiKeys`).

Facts of the source that select behaviour are a `Cfg` regenerated from the source (`Nv.Gen.C02.cfg`).
-/
namespace Nv.C02

abbrev Tid := Nat
abbrev Key := Nat
abbrev ObjId := Nat

inductive Mode | r | w
deriving DecidableEq, Repr, Hashable

/-- the condition under which `tryFree` deletes the map entry -/
inductive FreeGuard
  | bothZero     -- `readCount == 0 && writeCount == 0`  (today)
  | readZero     -- `readCount == 0`
  | writeZero    -- `writeCount == 0`
  | never
  | unknown
deriving DecidableEq, Repr

/-- where the reference count is raised relative to the blocking `rwLocker.Lock/RLock` -/
inductive CountAt
  | beforeBlock  -- under the table mutex, before blocking (today)
  | afterBlock   -- after the per-key lock was obtained
  | unknown
deriving DecidableEq, Repr

/-- comparator of `calculateSortedMultiKeys` -/
inductive GrpSort | asc | desc | unknown
deriving DecidableEq, Repr

structure Cfg where
  freeGuard : FreeGuard
  countAt : CountAt
  grpSort : GrpSort
deriving DecidableEq, Repr

/-- shape facts the model is written against (regenerated, compared with `expected`) -/
structure Facts where
  lockShape : Bool       -- Lock/RLock (both lockers): table lock; get-or-create; count++; table unlock; rw lock
  unlockShape : Bool     -- Unlock/RUnlock (both lockers): table lock; lookup; rw unlock; count--; tryFree; table unlock
  multiGetShape : Bool   -- getWriteLocks/getReadLocks: one table-mutex section over the whole list, count++ per key
  multiLockShape : Bool  -- TKeyLocker.Locks/RLocks: get…Locks then rw lock in slice order
  multiUnlockShape : Bool-- TKeyLocker.Unlocks/RUnlocks: one table-mutex section, per key rw unlock; count--; tryFree
  grpSingleShape : Bool  -- group Lock/Unlock/RLock/RUnlock delegate to `calculateKey(key)` (both groups)
  grpMultiShape : Bool   -- TKeyLockerGrp.Locks/RLocks/Unlocks/RUnlocks iterate `calculateSortedMultiKeys(keys)` in order
  grpBuildShape : Bool   -- calculateSortedMultiKeys groups by `calKeyFn(key)` preserving list order, then sorts by index
  sameTryFree : Bool     -- KeyLocker.tryFree and TKeyLocker.tryFree have the same condition
deriving DecidableEq, Repr

def Facts.expected : Facts := ⟨true, true, true, true, true, true, true, true, true⟩

/-- configurations for which the property theorems are proved: today's free guard and count placement, and a group
comparator that is a strict total order on shard indices (ascending as today, or descending) — all four multi-key
entry points use the one comparator (`Facts.grpMultiShape`), which is all the deadlock argument needs -/
def Proved (c : Cfg) : Prop := c.freeGuard = .bothZero ∧ c.countAt = .beforeBlock ∧ (c.grpSort = .asc ∨ c.grpSort = .desc)
instance : DecidablePred Proved := fun c => by unfold Proved; exact inferInstance

/-- `wrapLocker`; `regR`/`regW` are ghost: the tids whose registration is counted in `rc`/`wc`.
The `sync.RWMutex` part follows the runtime's implementation: `wOwner` holds the inner mutex `rw.w` (it has
announced itself: later readers block), `writer` holds the write lock, `tokens` are `readerSem` releases not yet
consumed (a writer's `Unlock` releases one per blocked reader; a reader arriving later may take one). -/
structure Wrap where
  wOwner : Option Tid
  writer : Option Tid
  readers : List Tid
  tokens : Nat
  pendW : List Tid
  pendR : List Tid
  rc : Int
  wc : Int
  regR : List Tid
  regW : List Tid
deriving DecidableEq, Repr, Hashable

def Wrap.empty : Wrap := ⟨none, none, [], 0, [], [], 0, 0, [], []⟩

inductive Phase
  | idle
  /-- inside Locks/RLocks, still registering: `groups` = remaining keys by shard group, `acc` = the `ws` slice so far -/
  | reg (m : Mode) (all : List Key) (groups : List (List Key)) (acc : List (Key × ObjId))
  /-- inside Locks/RLocks, locking `todo` in order; `all` (ghost) is the list the call was made with -/
  | acq (m : Mode) (all : List Key) (todo : List (Key × ObjId))
  /-- inside Unlocks/RUnlocks -/
  | rel (m : Mode) (groups : List (List Key))
deriving DecidableEq, Repr, Hashable

structure Thread where
  phase : Phase
  /-- ghost: what the thread holds (key, object it locked for that key, mode) -/
  held : List (Key × ObjId × Mode)
deriving DecidableEq, Repr, Hashable

def Thread.init : Thread := ⟨.idle, []⟩

structure State where
  objs : ObjId → Wrap
  next : ObjId
  table : Key → Option ObjId
  th : Tid → Thread
  /-- the code would have crashed: nil map entry in an unlock path, or unlock of an unlocked RWMutex -/
  fault : Bool

def State.init : State := ⟨fun _ => Wrap.empty, 0, fun _ => none, fun _ => Thread.init, false⟩

def upd {α β} [DecidableEq α] (f : α → β) (a : α) (b : β) : α → β := fun x => if x = a then b else f x

@[simp] theorem upd_same {α β} [DecidableEq α] (f : α → β) (a : α) (b : β) : upd f a b a = b := by simp [upd]
theorem upd_other {α β} [DecidableEq α] (f : α → β) (a x : α) (b : β) (h : x ≠ a) : upd f a b x = f x := by simp [upd, h]
theorem upd_apply {α β} [DecidableEq α] (f : α → β) (a x : α) (b : β) : upd f a b x = if x = a then b else f x := rfl

/-! ### key order of a multi-key call -/

/-- `calculateSortedMultiKeys` with the ascending comparator: one group per shard index that occurs, in index
order, each keeping list order (`n` shards, `sh` = `calKeyFn`). A single locker is `n = 1`, `sh = fun _ => 0`. -/
def groupsAsc (n : Nat) (sh : Key → Nat) (keys : List Key) : List (List Key) :=
  (List.range n).filterMap fun i =>
    let ks := keys.filter (fun k => sh k = i)
    if ks = [] then none else some ks

def groups (c : Cfg) (n : Nat) (sh : Key → Nat) (keys : List Key) : List (List Key) :=
  match c.grpSort with
  | .desc => (groupsAsc n sh keys).reverse
  | _ => groupsAsc n sh keys

/-- the shard indices in the order the comparator puts them -/
def shardOrder (c : Cfg) (n : Nat) : List Nat :=
  match c.grpSort with
  | .desc => (List.range n).reverse
  | _ => List.range n

/-- position of shard `i` in `shardOrder` -/
def srank (c : Cfg) (n : Nat) (i : Nat) : Nat :=
  match c.grpSort with
  | .desc => n - 1 - i
  | _ => i

/-- the order in which one call touches its keys -/
def acqOrder (c : Cfg) (n : Nat) (sh : Key → Nat) (keys : List Key) : List Key := (groups c n sh keys).flatten

/-! ### the per-key object -/

def bump (m : Mode) (t : Tid) (w : Wrap) : Wrap :=
  match m with
  | .r => { w with rc := w.rc + 1, regR := t :: w.regR }
  | .w => { w with wc := w.wc + 1, regW := t :: w.regW }

def unbump (m : Mode) (t : Tid) (w : Wrap) : Wrap :=
  match m with
  | .r => { w with rc := w.rc - 1, regR := w.regR.erase t }
  | .w => { w with wc := w.wc - 1, regW := w.regW.erase t }

def freeCond (c : Cfg) (w : Wrap) : Bool :=
  match c.freeGuard with
  | .bothZero => w.rc == 0 && w.wc == 0
  | .readZero => w.rc == 0
  | .writeZero => w.wc == 0
  | .never => false
  | .unknown => w.rc == 0 && w.wc == 0

def isHolder (m : Mode) (t : Tid) (w : Wrap) : Prop :=
  match m with
  | .w => w.writer = some t
  | .r => t ∈ w.readers
instance (m : Mode) (t : Tid) (w : Wrap) : Decidable (isHolder m t w) := by unfold isHolder; cases m <;> exact inferInstance

/-- outcome of one scheduling of a thread inside `rwLocker.Lock()` / `RLock()` -/
inductive Try
  | blocked              -- asleep, nothing changes
  | wait (w : Wrap)      -- progressed (queued / took `rw.w`) but does not hold the lock yet
  | enter (w : Wrap)     -- now holds the lock

/-- `rwLocker.Lock()` by `t`, as far as it gets without waiting -/
def tryW (t : Tid) (w : Wrap) : Try :=
  if w.wOwner = some t then
    if w.readers = [] ∧ w.tokens = 0 then .enter { w with writer := some t } else .blocked
  else if w.wOwner = none then .wait { w with wOwner := some t, pendW := w.pendW.erase t }
  else if t ∈ w.pendW then .blocked
  else .wait { w with pendW := w.pendW ++ [t] }

/-- `rwLocker.RLock()` by `t` -/
def tryR (t : Tid) (w : Wrap) : Try :=
  if t ∈ w.pendR then
    if w.tokens > 0 then .enter { w with tokens := w.tokens - 1, pendR := w.pendR.erase t, readers := t :: w.readers }
    else .blocked
  else if w.wOwner = none then .enter { w with readers := t :: w.readers }
  else if w.tokens > 0 then .enter { w with tokens := w.tokens - 1, readers := t :: w.readers }
  else .wait { w with pendR := w.pendR ++ [t] }

def tryLock (m : Mode) (t : Tid) (w : Wrap) : Try :=
  match m with
  | .w => tryW t w
  | .r => tryR t w

/-- the holder leaves (`Unlock` wakes every blocked reader with one token each and releases `rw.w`) -/
def leave (m : Mode) (t : Tid) (w : Wrap) : Wrap :=
  match m with
  | .w => { w with writer := none, wOwner := none, tokens := w.tokens + w.pendR.length }
  | .r => { w with readers := w.readers.erase t }

/-! ### threads -/

def heldKeys (th : Thread) : List Key := th.held.map (·.1)

/-- the thread now holds the head of its todo list -/
def advance (th : Thread) : Thread :=
  match th.phase with
  | .acq m all ((k, o) :: rest) => ⟨.acq m all rest, (k, o, m) :: th.held⟩
  | _ => th

inductive Act
  /-- a thread outside any call starts Lock/RLock/Locks/RLocks on `keys` -/
  | call (t : Tid) (m : Mode) (keys : List Key)
  /-- next key of the registration loop (under the table mutex) -/
  | reg (t : Tid)
  /-- `rwLocker.Lock()/RLock()` on the next object, or return when none is left -/
  | lock (t : Tid)
  /-- a thread outside any call starts Unlock/RUnlock/Unlocks/RUnlocks -/
  | uncall (t : Tid) (m : Mode) (keys : List Key)
  /-- next key of the unlock loop (under the table mutex) -/
  | rel (t : Tid)

def setTh (s : State) (t : Tid) (x : Thread) : State := { s with th := upd s.th t x }
def setObj (s : State) (o : ObjId) (w : Wrap) : State := { s with objs := upd s.objs o w }

/-- lookup-or-create of the registration loop, then `count++` (when the code counts before blocking) -/
def regKey (c : Cfg) (m : Mode) (t : Tid) (s : State) (k : Key) : State × ObjId :=
  let r : State × ObjId := match s.table k with
    | some o => (s, o)
    | none => ({ s with objs := upd s.objs s.next Wrap.empty, next := s.next + 1, table := upd s.table k (some s.next) }, s.next)
  (if c.countAt = .afterBlock then r.1 else setObj r.1 r.2 (bump m t (r.1.objs r.2)), r.2)

def stepReg (c : Cfg) (s : State) (t : Tid) : Option State :=
  match (s.th t).phase with
  | .reg m all [] acc => some (setTh s t { s.th t with phase := .acq m all acc })
  | .reg m all ([] :: gs) acc => some (setTh s t { s.th t with phase := .reg m all gs acc })
  | .reg m all ((k :: ks) :: gs) acc =>
    let r := regKey c m t s k
    some (setTh r.1 t { r.1.th t with phase := .reg m all (ks :: gs) (acc ++ [(k, r.2)]) })
  | _ => none

def stepLock (c : Cfg) (s : State) (t : Tid) : Option State :=
  match (s.th t).phase with
  | .acq _ _ [] => some (setTh s t { s.th t with phase := .idle })
  | .acq m _ ((_, o) :: _) =>
    match tryLock m t (s.objs o) with
    | .blocked => none
    | .wait w1 => some (setObj s o w1)
    | .enter w1 =>
      let w2 := if c.countAt = .afterBlock then bump m t w1 else w1
      some (setTh (setObj s o w2) t (advance (s.th t)))
  | _ => none

/-- one iteration of an unlock loop: lookup, rw unlock, `count--`, `tryFree` -/
def relKey (c : Cfg) (m : Mode) (t : Tid) (s : State) (k : Key) : State :=
  match s.table k with
  | none => { s with fault := true }
  | some o =>
    let w := s.objs o
    if isHolder m t w then
      let w2 := unbump m t (leave m t w)
      let s1 : State := { s with
        objs := upd s.objs o w2,
        th := upd s.th t { s.th t with held := (s.th t).held.filter (fun e => e.1 ≠ k) } }
      if freeCond c w2 then { s1 with table := upd s1.table k none } else s1
    else { s with fault := true }

def stepRel (c : Cfg) (s : State) (t : Tid) : Option State :=
  match (s.th t).phase with
  | .rel _ [] => some (setTh s t { s.th t with phase := .idle })
  | .rel m ([] :: gs) => some (setTh s t { s.th t with phase := .rel m gs })
  | .rel m ((k :: ks) :: gs) =>
    let s1 := relKey c m t s k
    some (setTh s1 t { s1.th t with phase := .rel m (ks :: gs) })
  | _ => none

def holdsIn (th : Thread) (m : Mode) (k : Key) : Prop := ∃ o, (k, o, m) ∈ th.held
instance (th : Thread) (m : Mode) (k : Key) : Decidable (holdsIn th m k) := by
  unfold holdsIn
  exact decidable_of_iff (th.held.any (fun e => e.1 = k ∧ e.2.2 = m)) (by
    simp only [List.any_eq_true, decide_eq_true_eq]
    constructor
    · rintro ⟨⟨k', o, m'⟩, hm, h1, h2⟩; simp at h1 h2; subst h1; subst h2; exact ⟨o, hm⟩
    · rintro ⟨o, hm⟩; exact ⟨(k, o, m), hm, rfl, rfl⟩)

def callOk (s : State) (t : Tid) (keys : List Key) : Prop :=
  (s.th t).phase = .idle ∧ keys.Nodup ∧ ∀ k ∈ keys, k ∉ heldKeys (s.th t)
instance (s : State) (t : Tid) (keys : List Key) : Decidable (callOk s t keys) := by unfold callOk; exact inferInstance

def uncallOk (s : State) (t : Tid) (m : Mode) (keys : List Key) : Prop :=
  (s.th t).phase = .idle ∧ keys.Nodup ∧ ∀ k ∈ keys, holdsIn (s.th t) m k
instance (s : State) (t : Tid) (m : Mode) (keys : List Key) : Decidable (uncallOk s t m keys) := by
  unfold uncallOk; exact inferInstance

def step (c : Cfg) (n : Nat) (sh : Key → Nat) (s : State) (a : Act) : Option State :=
  if s.fault then none else
  match a with
  | .call t m keys =>
    if callOk s t keys then some (setTh s t { s.th t with phase := .reg m keys (groups c n sh keys) [] }) else none
  | .reg t => stepReg c s t
  | .lock t => stepLock c s t
  | .uncall t m keys =>
    if uncallOk s t m keys then some (setTh s t { s.th t with phase := .rel m (groups c n sh keys) }) else none
  | .rel t => stepRel c s t

/-- the transition system of a locker with `n` shards routed by `sh` (single locker: `n = 1`, `sh = fun _ => 0`) -/
def lts (c : Cfg) (n : Nat) (sh : Key → Nat) : LTS State Act := ⟨State.init, step c n sh⟩

end Nv.C02
