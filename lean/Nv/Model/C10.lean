import Nv.Basic
/-!
C10 — model of `bytex.BufferX` (typed codec over a `bytes.Buffer`) and `bytex.ReaderX`
(the same typed reads over an `io.Reader`).

* A buffer is the list of its unread bytes. Writers append, readers consume from the front and return the
  outcome together with the bytes left (a failed read may have consumed bytes, exactly as the Go code does).
* Fixed-width integers are little endian (`binary.LittleEndian`), signed ones go through the two's complement
  conversion, `float64` is its 64-bit pattern, varints are `binary.PutUvarint/ReadUvarint/PutVarint/ReadVarint`
  (10-byte rule, overflow rule, zig-zag), a string is a `uint32` length followed by the bytes.
* A stream source is a list of chunks: every `io.Reader.Read` call delivers bytes of the first chunk only
  (at most as many as asked for); with `eager` the source reports `io.EOF` together with the last bytes.
  How `ReaderX.Read` turns `Read` calls into "exactly n bytes" and what `ReaderX.ZReadN` does with `n = 0`
  are facts of the source: parameters (`Cfg`) regenerated into `Nv.Gen.C10.cfg`.
-/
namespace Nv.C10

abbrev Bytes := List UInt8

inductive Err
  | eof            -- io.EOF
  | empty          -- bytex.ErrByteBufferEmpty
  | wrongNum       -- bytex.ErrReadWrongNum
  | sizeLimit      -- bytex.ErrSizeLimit
  | unexpectedEOF  -- io.ErrUnexpectedEOF
  | overflow       -- encoding/binary: varint overflows a 64-bit integer
  | io             -- an error of the underlying io.Reader other than io.EOF (a failing source)
deriving DecidableEq, Repr

/-- outcome of a call that returns `(value, error)` -/
inductive Out (α : Type)
  | ok (v : α)
  | err (e : Err)
deriving DecidableEq, Repr

def Out.isOk {α} : Out α → Bool
  | .ok _ => true
  | .err _ => false

def Out.map {α β} (f : α → β) : Out α → Out β
  | .ok v => .ok (f v)
  | .err e => .err e

/-! ### configuration regenerated from the source -/

/-- how `ReaderX.Read(p)` obtains `len(p)` bytes from the `io.Reader` -/
inductive ReadStrategy
  | single    -- one `reader.Read(p)` call, then `size != len(p)` ⇒ ErrByteBufferEmpty (today)
  | full      -- `io.ReadFull(reader, p)`
  | unknown
deriving DecidableEq, Repr

/-- what `ReaderX.ZReadN(0)` (the body read of an empty string) does -/
inductive ZeroLen
  | reject    -- falls into `ReadN`, which refuses `n <= 0` (today)
  | accept    -- returns an empty slice
  | unknown
deriving DecidableEq, Repr

structure Cfg where
  strategy : ReadStrategy
  zeroLen : ZeroLen
  /-- under `full`: a short read (`io.ErrUnexpectedEOF`) is mapped to `ErrByteBufferEmpty` -/
  mapShort : Bool
deriving DecidableEq, Repr

/-- configurations for which "stream reader ≡ buffer reader" is proved -/
def Proved (c : Cfg) : Prop := c.strategy = .full ∧ c.zeroLen = .accept
instance : DecidablePred Proved := fun c => by unfold Proved; exact inferInstance

/-- shape facts of the source the model is written against (regenerated, compared with `expected`) -/
structure Facts where
  bufReadChecksCount : Bool     -- BufferX.Read: `l == 0 ⇒ nil`; error of buffer.Read returned; `size != l ⇒ ErrByteBufferEmpty`
  bufLittleEndian : Bool        -- every fixed-width put/get of bufferx.go uses binary.LittleEndian with the matching width
  streamLittleEndian : Bool     -- the same for ioreader.go
  signedByConversion : Bool     -- I16/I32/I64 (both files) are the U-functions composed with intN(·)/uintN(·)
  f64ByBits : Bool              -- F64 = U64 composed with math.Float64bits / Float64frombits (both files)
  boolByte : Bool               -- WriteBool writes 1/0; ReadBool is `x != 0` (both files)
  varintStd : Bool              -- Var* use binary.PutUvarint/ReadUvarint/PutVarint/ReadVarint, narrowing by conversion
  stringFraming : Bool          -- WriteString: WriteU32(uint32(len)) then the bytes; ReadString: ReadU32, then Next(n) (BufferX) / ZReadN(n) (ReaderX)
  limitStrict : Bool            -- the three limit tests are `> limit`, made after the length is known and before the body
  readNRejectsNonPos : Bool     -- ReadN (both): `n <= 0 ⇒ ErrReadWrongNum`; BufferX.ZReadN: `n < 0`, then Next(n)
  rewriteCopies : Bool          -- ReWrite: `copy(b.buffer.Bytes()[pos:], p)`; ReWriteU32 = little endian 4 bytes through ReWrite
deriving DecidableEq, Repr

def Facts.expected : Facts := ⟨true, true, true, true, true, true, true, true, true, true, true⟩

/-! ### little endian fixed width -/

/-- `n` little-endian bytes of `x` (`PutUintN`) -/
def leBytes : Nat → Nat → Bytes
  | 0, _ => []
  | n+1, x => UInt8.ofNat (x % 256) :: leBytes n (x / 256)

/-- little-endian value of a byte list (`UintN`) -/
def leVal : Bytes → Nat
  | [] => 0
  | b :: bs => b.toNat + 256 * leVal bs

/-! ### varints (encoding/binary) -/

/-- `binary.PutUvarint`: `for x >= 0x80 { byte(x)|0x80; x >>= 7 }; byte(x)`. `fuel` bounds the loop; 9 rounds
    suffice for every `x < 2^64` (`uvarintEnc_fuel`). -/
def uvarintEncF : Nat → Nat → Bytes
  | 0, x => [UInt8.ofNat x]
  | f+1, x => if x < 128 then [UInt8.ofNat x] else UInt8.ofNat (x % 128 + 128) :: uvarintEncF f (x / 128)

def uvarintEnc (x : UInt64) : Bytes := uvarintEncF 9 x.toNat

/-- `binary.ReadUvarint` over `bytes.Buffer.ReadByte`: `k` = iterations left (10 at the start), `acc` the value so
    far, `mul = 2^s`. Returns the outcome and the unread bytes. -/
def uvarintDecF : Nat → Nat → Nat → Bytes → Out Nat × Bytes
  | 0, _, _, bs => (.err .overflow, bs)
  | k+1, _, _, [] => (.err (if k+1 = 10 then .eof else .unexpectedEOF), [])
  | k+1, acc, mul, b :: rest =>
    if b.toNat < 128 then
      (if k = 0 ∧ b.toNat > 1 then .err .overflow else .ok (acc + b.toNat * mul), rest)
    else uvarintDecF k (acc + (b.toNat - 128) * mul) (mul * 128) rest

def uvarintDec (bs : Bytes) : Out UInt64 × Bytes :=
  let r := uvarintDecF 10 0 1 bs
  (r.1.map UInt64.ofNat, r.2)

/-- zig-zag of `PutVarint`: `ux := uint64(x) << 1; if x < 0 { ux = ^ux }` -/
def zigzag (x : Int) : Nat := if 0 ≤ x then (2 * x).toNat else (-2 * x - 1).toNat

/-- `ReadVarint`: `x := int64(ux >> 1); if ux&1 != 0 { x = ^x }` -/
def unzigzag (u : Nat) : Int := if u % 2 = 0 then (u / 2 : Nat) else -((u / 2 : Nat) : Int) - 1

def varintEnc (x : Int64) : Bytes := uvarintEnc (UInt64.ofNat (zigzag x.toInt))

def varintDec (bs : Bytes) : Out Int64 × Bytes :=
  let r := uvarintDec bs
  (r.1.map (fun u => Int64.ofInt (unzigzag u.toNat)), r.2)

/-! ### values and read types -/

inductive Val
  | bool (b : Bool)
  | u8 (x : UInt8)
  | u16 (x : UInt16) | i16 (x : Int16)
  | u32 (x : UInt32) | i32 (x : Int32)
  | u64 (x : UInt64) | i64 (x : Int64)
  | f64 (bits : UInt64)
  | varU64 (x : UInt64) | varI64 (x : Int64) | varU32 (x : UInt32) | varI32 (x : Int32)
  | str (s : Bytes)
  | lstr (limit : UInt32) (s : Bytes)
  | raw (p : Bytes)
deriving DecidableEq, Repr

inductive Ty
  | bool | u8 | u16 | i16 | u32 | i32 | u64 | i64 | f64
  | varU64 | varI64 | varU32 | varI32
  | str
  | lstr (limit : UInt32)
  | read (n : Nat)      -- Read(p) with len(p) = n
  | readN (n : Int)     -- ReadN(n)
  | zreadN (n : Int)    -- ZReadN(n)
deriving DecidableEq, Repr

def tyOf : Val → Ty
  | .bool _ => .bool | .u8 _ => .u8 | .u16 _ => .u16 | .i16 _ => .i16 | .u32 _ => .u32 | .i32 _ => .i32
  | .u64 _ => .u64 | .i64 _ => .i64 | .f64 _ => .f64
  | .varU64 _ => .varU64 | .varI64 _ => .varI64 | .varU32 _ => .varU32 | .varI32 _ => .varI32
  | .str _ => .str | .lstr l _ => .lstr l | .raw p => .read p.length

/-- the bytes a typed write appends (`WriteLimitString` refusing is `writeOk`) -/
def enc : Val → Bytes
  | .bool b => [if b then 1 else 0]
  | .u8 x => [x]
  | .u16 x => leBytes 2 x.toNat
  | .i16 x => leBytes 2 x.toUInt16.toNat
  | .u32 x => leBytes 4 x.toNat
  | .i32 x => leBytes 4 x.toUInt32.toNat
  | .u64 x => leBytes 8 x.toNat
  | .i64 x => leBytes 8 x.toUInt64.toNat
  | .f64 x => leBytes 8 x.toNat
  | .varU64 x => uvarintEnc x
  | .varI64 x => varintEnc x
  | .varU32 x => uvarintEnc x.toUInt64
  | .varI32 x => varintEnc x.toInt64
  | .str s => leBytes 4 (s.length % 2 ^ 32) ++ s
  | .lstr _ s => leBytes 4 (s.length % 2 ^ 32) ++ s
  | .raw p => p

/-- does the write happen? (`WriteLimitString`: `uint32(len(val)) > limit ⇒ ErrSizeLimit`, nothing written) -/
def writeOk : Val → Bool
  | .lstr l s => decide (s.length % 2 ^ 32 ≤ l.toNat)
  | _ => true

/-- the values the round trip speaks about: a string fits its `uint32` length field, a size-limited string is
    within its limit (otherwise `WriteLimitString` refuses and nothing is written) -/
def Valid : Val → Prop
  | .str s => s.length < 2 ^ 32
  | .lstr l s => s.length ≤ l.toNat
  | _ => True

instance : DecidablePred Valid := fun v => by cases v <;> unfold Valid <;> exact inferInstance

/-- `NewBufferX()` / `NewSizedBufferX(n)`: a buffer with capacity and nothing unread (`buffer.Reset()` after
    `bytes.NewBuffer(make([]byte, n))`); the constructor bodies are pinned by the declaration-surface tie -/
def newBuffer : Bytes := []
def newSized (_ : Nat) : Bytes := []
/-- `NewReadableBufferX(data)`: the unread bytes are `data` -/
def newReadable (data : Bytes) : Bytes := data

/-- `Reset()`: nothing unread any more, whatever the buffer held or grew to before -/
def reset (_ : Bytes) : Bytes := []

/-- a typed write on a buffer -/
def write (v : Val) (buf : Bytes) : Out Unit × Bytes :=
  if writeOk v then (.ok (), buf ++ enc v) else (.err .sizeLimit, buf)

/-! ### BufferX readers -/

/-- `BufferX.Read(p)`, `len(p) = n`: nil for `n = 0`; io.EOF when nothing is unread; a short read drains the
    buffer and is `ErrByteBufferEmpty` -/
def bufRead (n : Nat) (bs : Bytes) : Out Bytes × Bytes :=
  if n = 0 then (.ok [], bs)
  else if bs.isEmpty then (.err .eof, [])
  else if bs.length < n then (.err .empty, [])
  else (.ok (bs.take n), bs.drop n)

/-- `buffer.Next(n)` followed by `len(data) != n ⇒ ErrByteBufferEmpty` -/
def bufNext (n : Nat) (bs : Bytes) : Out Bytes × Bytes :=
  if bs.length < n then (.err .empty, []) else (.ok (bs.take n), bs.drop n)

/-- `buffer.ReadByte()` -/
def bufReadByte : Bytes → Out UInt8 × Bytes
  | [] => (.err .eof, [])
  | b :: rest => (.ok b, rest)

/-- a fixed-width little-endian unsigned read through `Read` -/
def bufFixed (n : Nat) (bs : Bytes) : Out Nat × Bytes :=
  let r := bufRead n bs
  (r.1.map leVal, r.2)

/-- the body of a string after its length `n` was read -/
def bufStrBody (n : Nat) (bs : Bytes) : Out Bytes × Bytes := bufNext n bs

/-- typed read on a BufferX -/
def decBuf (ty : Ty) (bs : Bytes) : Out Val × Bytes :=
  match ty with
  | .bool => let r := bufReadByte bs; (r.1.map (fun b => .bool (b != 0)), r.2)
  | .u8 => let r := bufReadByte bs; (r.1.map .u8, r.2)
  | .u16 => let r := bufFixed 2 bs; (r.1.map (fun x => .u16 (UInt16.ofNat x)), r.2)
  | .i16 => let r := bufFixed 2 bs; (r.1.map (fun x => .i16 (UInt16.ofNat x).toInt16), r.2)
  | .u32 => let r := bufFixed 4 bs; (r.1.map (fun x => .u32 (UInt32.ofNat x)), r.2)
  | .i32 => let r := bufFixed 4 bs; (r.1.map (fun x => .i32 (UInt32.ofNat x).toInt32), r.2)
  | .u64 => let r := bufFixed 8 bs; (r.1.map (fun x => .u64 (UInt64.ofNat x)), r.2)
  | .i64 => let r := bufFixed 8 bs; (r.1.map (fun x => .i64 (UInt64.ofNat x).toInt64), r.2)
  | .f64 => let r := bufFixed 8 bs; (r.1.map (fun x => .f64 (UInt64.ofNat x)), r.2)
  | .varU64 => let r := uvarintDec bs; (r.1.map .varU64, r.2)
  | .varI64 => let r := varintDec bs; (r.1.map .varI64, r.2)
  | .varU32 => let r := uvarintDec bs; (r.1.map (fun x => .varU32 x.toUInt32), r.2)
  | .varI32 => let r := varintDec bs; (r.1.map (fun x => .varI32 x.toInt32), r.2)
  | .str =>
    match bufFixed 4 bs with
    | (.err e, rest) => (.err e, rest)
    | (.ok n, rest) => let r := bufStrBody (n % 2 ^ 32) rest; (r.1.map .str, r.2)
  | .lstr limit =>
    match bufFixed 4 bs with
    | (.err e, rest) => (.err e, rest)
    | (.ok n, rest) =>
      if n % 2 ^ 32 > limit.toNat then (.err .sizeLimit, rest)
      else let r := bufStrBody (n % 2 ^ 32) rest; (r.1.map (.lstr limit), r.2)
  | .read n => let r := bufRead n bs; (r.1.map .raw, r.2)
  | .readN n => if n ≤ 0 then (.err .wrongNum, bs) else let r := bufRead n.toNat bs; (r.1.map .raw, r.2)
  | .zreadN n => if n < 0 then (.err .wrongNum, bs) else let r := bufNext n.toNat bs; (r.1.map .raw, r.2)

/-- a read program on a buffer: outcomes in order, and what is left -/
def readAll : List Ty → Bytes → List (Out Val) × Bytes
  | [], bs => ([], bs)
  | t :: ts, bs =>
    let r := decBuf t bs
    let rs := readAll ts r.2
    (r.1 :: rs.1, rs.2)

/-- a write program: all writes that happen, appended in order -/
def writeAll : List Val → Bytes → Bytes
  | [], buf => buf
  | v :: vs, buf => writeAll vs (write v buf).2

/-! ### where the Go code could panic

The readers above cannot express a Go panic. The places of `bufferx.go` that *could* panic are: `buffer.Next(n)` with a
negative `n` (slice bounds), `make([]byte, n)` with a negative `n`, and — for `ReWrite` — the slice expression `buf[pos:]`.
`decBufP` re-runs the typed reads with these primitives made partial (`none` = panic) and with the `int(n)` conversion of
the `uint32` length field made explicit (`intBits` = width of Go's `int`, regenerated into `Nv.Gen.C10.intBits`). -/

/-- `int(n)` for a `uint32` value `n` on a platform whose `int` has `intBits` bits -/
def goInt (intBits : Nat) (n : Nat) : Int :=
  if n < 2 ^ (intBits - 1) then (n : Int) else (n : Int) - ((2 ^ intBits : Nat) : Int)

/-- `buffer.Next(n)`: at most `n` bytes; panics for `n < 0` -/
def goNext (n : Int) (bs : Bytes) : Option (Bytes × Bytes) :=
  if n < 0 then none else some (bs.take n.toNat, bs.drop n.toNat)

/-- `make([]byte, n)`: panics for `n < 0` -/
def goMake (n : Int) : Option Nat := if n < 0 then none else some n.toNat

/-- `data = buffer.Next(size); if len(data) != size { ErrByteBufferEmpty }` -/
def nextChecked (size : Int) (bs : Bytes) : Option (Out Bytes × Bytes) :=
  (goNext size bs).map (fun r => if (r.1.length : Int) ≠ size then (.err .empty, r.2) else (.ok r.1, r.2))

/-- typed read on a BufferX with the panicking primitives explicit: `none` = the Go code panics -/
def decBufP (intBits : Nat) (ty : Ty) (bs : Bytes) : Option (Out Val × Bytes) :=
  match ty with
  | .str =>
    match bufFixed 4 bs with
    | (.err e, rest) => some (.err e, rest)
    | (.ok n, rest) => (nextChecked (goInt intBits (n % 2 ^ 32)) rest).map (fun r => (r.1.map .str, r.2))
  | .lstr limit =>
    match bufFixed 4 bs with
    | (.err e, rest) => some (.err e, rest)
    | (.ok n, rest) =>
      if n % 2 ^ 32 > limit.toNat then some (.err .sizeLimit, rest)
      else (nextChecked (goInt intBits (n % 2 ^ 32)) rest).map (fun r => (r.1.map (.lstr limit), r.2))
  | .readN n =>
    if n ≤ 0 then some (.err .wrongNum, bs)
    else (goMake n).map (fun k => let r := bufRead k bs; (r.1.map .raw, r.2))
  | .zreadN n =>
    if n < 0 then some (.err .wrongNum, bs)
    else (nextChecked n bs).map (fun r => (r.1.map .raw, r.2))
  | ty => some (decBuf ty bs)

/-! ### histories: writes and reads interleaved -/

inductive BOp
  | w (v : Val)   -- a typed write
  | r             -- a typed read of the type of the oldest value not yet read
deriving DecidableEq, Repr

/-- run a history on a buffer. `pending` is ghost state (the values written and not yet read) that only selects
    the type each read asks for; a read with nothing pending is skipped. -/
def history : Bytes → List Val → List BOp → List (Out Val) × Bytes
  | buf, _, [] => ([], buf)
  | buf, pending, .w v :: ops => history (write v buf).2 (if writeOk v then pending ++ [v] else pending) ops
  | buf, [], .r :: ops => history buf [] ops
  | buf, v :: pending, .r :: ops =>
    let r := decBuf (tyOf v) buf
    let rs := history r.2 pending ops
    (r.1 :: rs.1, rs.2)

/-- the specification: an ideal first-in-first-out queue of values — what the reads return, what stays queued -/
def fifoSpec : List Val → List BOp → List Val × List Val
  | q, [] => ([], q)
  | q, .w v :: ops => fifoSpec (q ++ [v]) ops
  | [], .r :: ops => fifoSpec [] ops
  | v :: q, .r :: ops => let rs := fifoSpec q ops; (v :: rs.1, rs.2)

def BOp.valid : BOp → Prop
  | .w v => Valid v
  | .r => True

/-! ### ReWrite -/

/-- `ReWrite(pos, p)`: `copy(buf[pos:], p)` over the unread bytes. `none` = the slice expression panics
    (`pos` outside `0…len`). Bytes of `p` that do not fit are dropped by `copy`. -/
def rewrite (pos : Int) (p : Bytes) (buf : Bytes) : Option Bytes :=
  if pos < 0 ∨ pos > buf.length then none
  else
    let k := pos.toNat
    let w := p.take (buf.length - k)
    some (buf.take k ++ w ++ buf.drop (k + w.length))

def rewriteU32 (pos : Int) (v : UInt32) (buf : Bytes) : Option Bytes := rewrite pos (leBytes 4 v.toNat) buf

/-- `ReWrite(pos, Bytes()[from:to])`: the payload is a window of the buffer itself. Go's `copy` is a memmove, so the
    bytes written are the OLD contents of the window even where source and destination overlap. -/
def rewriteSelf (pos : Int) (frm to : Nat) (buf : Bytes) : Option Bytes :=
  rewrite pos ((buf.take to).drop frm) buf

/-! ### long values: pattern bytes and the digest the protocol prints for them -/

/-- byte `i` of the pattern `p<seed>:<n>` -/
def patByte (seed i : Nat) : UInt8 := UInt8.ofNat ((seed + 131 * i + 7 * (i / 256)) % 256)

def pat (seed n : Nat) : Bytes := (List.range n).map (patByte seed)

def digestStep (h : Nat) (b : UInt8) : Nat := (h * 31 + b.toNat + 1) % 4294967296

/-- the digest printed for byte strings longer than 64 bytes -/
def digest (bs : Bytes) : Nat := bs.foldl digestStep 0

/-- the digest of a pattern computed index by index, without building the list (`k` bytes from index `i` on) -/
def digestPatLoop (seed : Nat) : Nat → Nat → Nat → Nat
  | 0, _, h => h
  | k+1, i, h => digestPatLoop seed k (i + 1) (digestStep h (patByte seed i))

def digestPat (seed n : Nat) : Nat := digestPatLoop seed n 0 0

/-! ### stream source and ReaderX -/

/-- an `io.Reader`: the chunks it will deliver; `eager` = it reports its final event together with the last bytes;
    `fail` = that final event is an I/O error of its own (the source breaks after the chunks) instead of `io.EOF` -/
structure Src where
  eager : Bool
  chunks : List Bytes
  fail : Bool
deriving DecidableEq, Repr

def Src.flat (s : Src) : Bytes := s.chunks.flatten

/-- more bytes arrive on the source (a connection, a pipe, a `bytes.Buffer` that is still being written): they queue up
    behind what it still holds. A source that had reported `io.EOF` delivers again afterwards — EOF only ever meant
    "nothing at the moment". -/
def Src.feed (s : Src) (cs : List Bytes) : Src := { s with chunks := s.chunks ++ cs }

/-- the error a source reports when it has nothing more to deliver -/
def endErr (fail : Bool) : Err := if fail then .io else .eof

/-- one `reader.Read(p)` call with `len(p) = n > 0`: bytes delivered, the error returned with them, chunks left -/
def srcRead (eager fail : Bool) (n : Nat) : List Bytes → Bytes × Option Err × List Bytes
  | [] => ([], some (endErr fail), [])
  | c :: rest =>
    let left := if n < c.length then c.drop n :: rest else rest
    (c.take n, if eager && left.isEmpty then some (endErr fail) else none, left)

/-- the `io.ReadFull` loop: keep calling `Read` until `n` bytes arrived or the source ended -/
def pull : Nat → List Bytes → Bytes × List Bytes
  | _, [] => ([], [])
  | n, c :: rest =>
    if n = 0 then ([], c :: rest)
    else if c.length < n then
      let r := pull (n - c.length) rest
      (c ++ r.1, r.2)
    else (c.take n, if n < c.length then c.drop n :: rest else rest)

/-- `ReaderX.Read(p)`, `len(p) = n`. Under `full` (`io.ReadFull`): all `n` bytes ⇒ nil (whatever came with the last
    ones); fewer ⇒ the source's own error if it failed, else io.EOF (nothing read) / io.ErrUnexpectedEOF (mapped or not). -/
def streamRead (c : Cfg) (n : Nat) (s : Src) : Out Bytes × Src :=
  if n = 0 then (.ok [], s)
  else match c.strategy with
    | .full =>
      let r := pull n s.chunks
      if r.1.length = n then (.ok r.1, { s with chunks := r.2 })
      else if s.fail then (.err .io, { s with chunks := r.2 })
      else if r.1.isEmpty then (.err .eof, { s with chunks := r.2 })
      else (.err (if c.mapShort then .empty else .unexpectedEOF), { s with chunks := r.2 })
    | _ =>
      let r := srcRead s.eager s.fail n s.chunks
      match r.2.1 with
      | some e => (.err e, { s with chunks := r.2.2 })
      | none =>
        if r.1.length ≠ n then (.err .empty, { s with chunks := r.2.2 })
        else (.ok r.1, { s with chunks := r.2.2 })

/-- `ReaderX.ReadN(n)` -/
def streamReadN (c : Cfg) (n : Int) (s : Src) : Out Bytes × Src :=
  if n ≤ 0 then (.err .wrongNum, s) else streamRead c n.toNat s

/-- `ReaderX.ReadN(n)` with `make` explicit (the only panicking primitive of ioreader.go) -/
def streamReadNP (c : Cfg) (n : Int) (s : Src) : Option (Out Bytes × Src) :=
  if n ≤ 0 then some (.err .wrongNum, s) else (goMake n).map (fun k => streamRead c k s)

/-- `ReaderX.ZReadN(n)` -/
def streamZReadN (c : Cfg) (n : Int) (s : Src) : Out Bytes × Src :=
  if n = 0 ∧ c.zeroLen = .accept then (.ok [], s) else streamReadN c n s

def streamFixed (c : Cfg) (n : Nat) (s : Src) : Out Nat × Src :=
  let r := streamRead c n s
  (r.1.map leVal, r.2)

/-- the four varint reads (BufferX only) -/
def Ty.isVarint : Ty → Bool
  | .varU64 | .varI64 | .varU32 | .varI32 => true
  | _ => false

/-- the read types `ReaderX` offers -/
def Ty.streamable : Ty → Bool
  | .varU64 | .varI64 | .varU32 | .varI32 => false
  | _ => true

/-- the reads whose only primitive is `Read(p)`: fixed widths, bool, byte, Read, ReadN -/
def Ty.fixedLike : Ty → Bool
  | .bool | .u8 | .u16 | .i16 | .u32 | .i32 | .u64 | .i64 | .f64 | .read _ | .readN _ => true
  | _ => false

/-- typed read on a ReaderX (types it does not offer: `wrongNum`, nothing consumed — never used, see `streamable`) -/
def decStream (c : Cfg) (ty : Ty) (s : Src) : Out Val × Src :=
  match ty with
  | .bool => let r := streamRead c 1 s; (r.1.map (fun p => .bool (p.headD 0 != 0)), r.2)
  | .u8 => let r := streamRead c 1 s; (r.1.map (fun p => .u8 (p.headD 0)), r.2)
  | .u16 => let r := streamFixed c 2 s; (r.1.map (fun x => .u16 (UInt16.ofNat x)), r.2)
  | .i16 => let r := streamFixed c 2 s; (r.1.map (fun x => .i16 (UInt16.ofNat x).toInt16), r.2)
  | .u32 => let r := streamFixed c 4 s; (r.1.map (fun x => .u32 (UInt32.ofNat x)), r.2)
  | .i32 => let r := streamFixed c 4 s; (r.1.map (fun x => .i32 (UInt32.ofNat x).toInt32), r.2)
  | .u64 => let r := streamFixed c 8 s; (r.1.map (fun x => .u64 (UInt64.ofNat x)), r.2)
  | .i64 => let r := streamFixed c 8 s; (r.1.map (fun x => .i64 (UInt64.ofNat x).toInt64), r.2)
  | .f64 => let r := streamFixed c 8 s; (r.1.map (fun x => .f64 (UInt64.ofNat x)), r.2)
  | .str =>
    match streamFixed c 4 s with
    | (.err e, s') => (.err e, s')
    | (.ok n, s') => let r := streamZReadN c ((n % 2 ^ 32 : Nat) : Int) s'; (r.1.map .str, r.2)
  | .lstr limit =>
    match streamFixed c 4 s with
    | (.err e, s') => (.err e, s')
    | (.ok n, s') =>
      if n % 2 ^ 32 > limit.toNat then (.err .sizeLimit, s')
      else let r := streamZReadN c ((n % 2 ^ 32 : Nat) : Int) s'; (r.1.map (.lstr limit), r.2)
  | .read n => let r := streamRead c n s; (r.1.map .raw, r.2)
  | .readN n => let r := streamReadN c n s; (r.1.map .raw, r.2)
  | .zreadN n => let r := streamZReadN c n s; (r.1.map .raw, r.2)
  | _ => (.err .wrongNum, s)

/-- a read program on a ReaderX -/
def readAllStream (c : Cfg) : List Ty → Src → List (Out Val) × Src
  | [], s => ([], s)
  | t :: ts, s =>
    let r := decStream c t s
    let rs := readAllStream c ts r.2
    (r.1 :: rs.1, rs.2)

/-- two outcomes agree: the same value, or both an error -/
def Out.agree {α} [DecidableEq α] : Out α → Out α → Bool
  | .ok a, .ok b => decide (a = b)
  | .err _, .err _ => true
  | _, _ => false

/-- two outcome lists agree position by position (and have the same length) -/
def agreeAll : List (Out Val) → List (Out Val) → Bool
  | [], [] => true
  | a :: as, b :: bs => a.agree b && agreeAll as bs
  | _, _ => false

end Nv.C10
