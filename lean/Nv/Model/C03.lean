import Nv.Basic
/-!
C03 — executable model of `ds/tree/btree` (the vendored google B-tree plus the two scans added by
this repository in `btree_ext.go`) and of the locked wrapper `ds/tree.BTree`.

Layer A (this file): nodes are values. The functions mirror the Go ones statement by statement:
`items.find`, `node.split`, `maybeSplitChild`/`insert`, `remove`/`growChildAndRemove`, `get`, `min`,
`max`, `iterate` (both directions, with the `hit` flag threaded through the children and a *stateful*
callback, as the Go closure of `iterWalk` is), `ReplaceOrInsert` (root split), `deleteItem` (root
collapse, `length`), and the wrapper (`Insert`, `Update`, `UpdateOrInsert`, `Delete`, `Get`, four scans
through `iterWalk`). Recursion into `children[i]` is by a fuel equal to the height of the node
(all leaves of a B-tree are at one depth, which is part of the invariant), so that every definition is
structurally recursive and evaluates under `decide`.

What is *selected by the source* — the argument tuples the four pivot scans pass to `iterate`, the
comparison `iterWalk` uses for its limit, the wrapper's degree — is a parameter `Cfg`, regenerated
from the Go text on every run (`Nv.Gen.C03.cfg`).

Copy-on-write ownership (Clone) is layer B: `Nv/Model/C03Cow.lean`.
-/
namespace Nv.C03

structure Item where
  key : Int
  val : Nat
deriving DecidableEq, Repr, Inhabited

inductive Node where
  | mk (items : List Item) (children : List Node) : Node
deriving Repr

instance : Inhabited Node := ⟨.mk [] []⟩

def Node.items : Node → List Item
  | .mk is _ => is
def Node.children : Node → List Node
  | .mk _ cs => cs

mutual
/-- in-order item list of a subtree -/
def Node.inorder : Node → List Item
  | .mk items children => interleave items children
def interleave : List Item → List Node → List Item
  | items, [] => items
  | [], c :: _ => c.inorder
  | i :: is, c :: cs => c.inorder ++ i :: interleave is cs
end

/-- length of the leftmost path -/
def height : Node → Nat
  | .mk _ [] => 0
  | .mk _ (c :: _) => height c + 1

/-! ### slices -/

def insertAt {α} (l : List α) (i : Nat) (a : α) : List α := l.take i ++ a :: l.drop i
def setAt {α} (l : List α) (i : Nat) (a : α) : List α := l.take i ++ a :: l.drop (i + 1)
def removeAt {α} (l : List α) (i : Nat) : List α := l.take i ++ l.drop (i + 1)

/-- `items.find`: on a strictly sorted list, `sort.Search` for the first key above `k` followed by the
    step back on an exact hit is the first index whose key is `≥ k`, found iff that key is `k`. -/
def findIdx : List Item → Int → Nat × Bool
  | [], _ => (0, false)
  | x :: xs, k =>
    if k < x.key then (0, false)
    else if x.key = k then (0, true)
    else ((findIdx xs k).1 + 1, (findIdx xs k).2)

/-- `node.split(i)`: (shrunk node, separator, new right node) -/
def Node.split (n : Node) (i : Nat) : Node × Item × Node :=
  (.mk (n.items.take i) (n.children.take (i + 1)), n.items.getD i default,
   .mk (n.items.drop (i + 1)) (n.children.drop (i + 1)))

/-! ### insert -/

/-- `node.insert(item, maxItems)`; fuel = height of the node -/
def insertH (mx : Nat) (x : Item) : Nat → Node → Node × Option Item
  | fuel, .mk items children =>
    let f := findIdx items x.key
    if f.2 then (.mk (setAt items f.1 x) children, items[f.1]?)
    else match children, fuel with
      | [], _ => (.mk (insertAt items f.1 x) [], none)
      | _ :: _, 0 => (.mk items children, none)
      | _ :: _, fuel + 1 =>
        let i := f.1
        let c := children.getD i default
        if c.items.length < mx then
          -- maybeSplitChild returned false
          let r := insertH mx x fuel c
          (.mk items (setAt children i r.1), r.2)
        else
          let s := c.split (mx / 2)
          let items' := insertAt items i s.2.1
          if x.key < s.2.1.key then
            let r := insertH mx x fuel s.1
            (.mk items' (children.take i ++ r.1 :: s.2.2 :: children.drop (i + 1)), r.2)
          else if s.2.1.key < x.key then
            let r := insertH mx x fuel s.2.2
            (.mk items' (children.take i ++ s.1 :: r.1 :: children.drop (i + 1)), r.2)
          else
            (.mk (setAt items' i x) (children.take i ++ s.1 :: s.2.2 :: children.drop (i + 1)), some s.2.1)

/-! ### remove -/

/-- `toRemove` with the item of `removeItem` -/
inductive Rm
  | item (k : Int)
  | min
  | max
deriving DecidableEq, Repr

/-- the index `remove` selects before looking at the child -/
def locate (items : List Item) : Rm → Nat × Bool
  | .item k => findIdx items k
  | .min => (0, false)
  | .max => (items.length, false)

/-- `remove` on a node without children -/
def leafRemove (items : List Item) : Rm → List Item × Option Item
  | .max => (items.dropLast, items.getLast?)
  | .min => (items.drop 1, items.head?)
  | .item k =>
    let f := findIdx items k
    if f.2 then (removeAt items f.1, items[f.1]?) else (items, none)

/-- the rebalancing step of `growChildAndRemove` (everything before its final `n.remove` call) -/
def grow (mn : Nat) (items : List Item) (children : List Node) (i : Nat) : List Item × List Node :=
  let child := children.getD i default
  if 0 < i ∧ mn < (children.getD (i - 1) default).items.length then
    -- steal from left child
    let left := children.getD (i - 1) default
    let child' : Node := .mk (items.getD (i - 1) default :: child.items)
      (left.children.getLast?.toList ++ child.children)
    let left' : Node := .mk left.items.dropLast left.children.dropLast
    (setAt items (i - 1) (left.items.getLast?.getD default),
     children.take (i - 1) ++ left' :: child' :: children.drop (i + 1))
  else if i < items.length ∧ mn < (children.getD (i + 1) default).items.length then
    -- steal from right child
    let right := children.getD (i + 1) default
    let child' : Node := .mk (child.items ++ [items.getD i default]) (child.children ++ right.children.take 1)
    let right' : Node := .mk (right.items.drop 1) (right.children.drop 1)
    (setAt items i (right.items.head?.getD default),
     children.take i ++ child' :: right' :: children.drop (i + 2))
  else
    -- merge with right child (`i--` when `i` is the last child)
    let j := if items.length ≤ i then i - 1 else i
    let l := children.getD j default
    let r := children.getD (j + 1) default
    let merged : Node := .mk (l.items ++ items.getD j default :: r.items) (l.children ++ r.children)
    (removeAt items j, children.take j ++ merged :: children.drop (j + 2))

/-- `node.remove(item, minItems, typ)`; fuel = height of the node. After `grow` the Go code calls
    `remove` on the same node again, which recomputes the index and then descends (the grown child has
    more than `minItems` items); that second call is written out here. -/
def removeH (mn : Nat) : Nat → Node → Rm → Node × Option Item
  | fuel, .mk items children, typ =>
    match children, fuel with
    | [], _ => ((.mk (leafRemove items typ).1 []), (leafRemove items typ).2)
    | _ :: _, 0 => (.mk items children, none)
    | _ :: _, fuel + 1 =>
      let loc := locate items typ
      let small := decide ((children.getD loc.1 default).items.length ≤ mn)
      let g := if small then grow mn items children loc.1 else (items, children)
      let loc' := if small then locate g.1 typ else loc
      let i := loc'.1
      let child := g.2.getD i default
      if loc'.2 then
        -- the item is `g.1[i]`: replace it by its predecessor, pulled out of the left child
        let r := removeH mn fuel child .max
        (.mk (setAt g.1 i (r.2.getD default)) (setAt g.2 i r.1), g.1[i]?)
      else
        let r := removeH mn fuel child typ
        (.mk g.1 (setAt g.2 i r.1), r.2)

/-! ### lookups -/

def getH (k : Int) : Nat → Node → Option Item
  | fuel, .mk items children =>
    let f := findIdx items k
    if f.2 then items[f.1]?
    else match children, fuel with
      | [], _ => none
      | _ :: _, 0 => none
      | _ :: _, fuel + 1 => getH k fuel (children.getD f.1 default)

def minH : Nat → Node → Option Item
  | _, .mk items [] => items.head?
  | 0, .mk _ (_ :: _) => none
  | fuel + 1, .mk _ (c :: _) => minH fuel c

def maxH : Nat → Node → Option Item
  | _, .mk items [] => items.getLast?
  | 0, .mk _ (_ :: _) => none
  | fuel + 1, .mk _ (c :: cs) => maxH fuel ((c :: cs).getLast?.getD default)

/-! ### iterate -/

/-- the constant arguments of one `iterate` call; the callback is a state machine over `σ`
    (the Go closure of `iterWalk` counts and collects) -/
structure Q (σ : Type) where
  start : Option Int
  stop : Option Int
  incl : Bool
  cb : σ → Item → σ × Bool

/-- what `iterate` threads through: `hit`, the `ok` result, and the callback's state -/
structure R (σ : Type) where
  hit : Bool
  ok : Bool
  st : σ

/-- `!includeStart && !hit && start != nil && !start.Less(item)`: the pivot itself, met by an exclusive scan -/
def skipAsc {σ} (q : Q σ) (r : R σ) (i : Item) : Bool :=
  !q.incl && !r.hit && (match q.start with
    | some s => !(decide (s < i.key))
    | none => false)

/-- `stop != nil && !item.Less(stop)` -/
def pastStopAsc {σ} (q : Q σ) (i : Item) : Bool :=
  match q.stop with
  | some t => !(decide (i.key < t))
  | none => false

/-- `stop != nil && !stop.Less(item)` -/
def pastStopDesc {σ} (q : Q σ) (i : Item) : Bool :=
  match q.stop with
  | some t => !(decide (t < i.key))
  | none => false

/-- the part of the ascending loop body after the left child was visited -/
def stepAsc {σ} (q : Q σ) (r : R σ) (i : Item) : R σ :=
  if skipAsc q r i then { r with hit := true }
  else if pastStopAsc q i then { hit := true, ok := false, st := r.st }
  else { hit := true, ok := (q.cb r.st i).2, st := (q.cb r.st i).1 }

/-- `for i := index; i < len(items); i++ { child i; item i }` then the last child; the lists are
    `items[index:]` and `children[index:]` -/
def ascLoop {σ} (visit : Node → R σ → R σ) (q : Q σ) : List Item → List Node → R σ → R σ
  | [], [], r => r
  | [], c :: _, r => visit c r
  | i :: is, [], r =>
    let r2 := stepAsc q r i
    if r2.ok then ascLoop visit q is [] r2 else r2
  | i :: is, c :: cs, r =>
    let r1 := visit c r
    if r1.ok then
      let r2 := stepAsc q r1 i
      if r2.ok then ascLoop visit q is cs r2 else r2
    else r1

def iterAsc {σ} (q : Q σ) : Nat → Node → R σ → R σ
  | fuel, .mk items children, r =>
    let idx := match q.start with
      | some s => (findIdx items s).1
      | none => 0
    match fuel with
    | 0 => ascLoop (fun _ r => r) q (items.drop idx) [] r
    | fuel + 1 => ascLoop (iterAsc q fuel) q (items.drop idx) (children.drop idx) r

/-- the `continue` at the top of the descending loop body: skips item `i` *and* child `i+1` -/
def skipDesc {σ} (q : Q σ) (r : R σ) (i : Item) : Bool :=
  match q.start with
  | some s => !(decide (i.key < s)) && (!q.incl || r.hit || decide (s < i.key))
  | none => false

def stepDesc {σ} (q : Q σ) (r : R σ) (i : Item) : R σ :=
  if pastStopDesc q i then { r with ok := false }
  else
    { hit := true, ok := (q.cb r.st i).2, st := (q.cb r.st i).1 }

/-- `for i := index; i >= 0; i-- { child i+1; item i }` then child 0; the lists are
    `reverse items[:index+1]` and `reverse children[:index+2]` -/
def descLoop {σ} (visit : Node → R σ → R σ) (q : Q σ) : List Item → List Node → R σ → R σ
  | [], [], r => r
  | [], c :: _, r => visit c r
  | i :: is, [], r =>
    if skipDesc q r i then descLoop visit q is [] r
    else
      let r2 := stepDesc q r i
      if r2.ok then descLoop visit q is [] r2 else r2
  | i :: is, c :: cs, r =>
    if skipDesc q r i then descLoop visit q is cs r
    else
      let r1 := visit c r
      if r1.ok then
        let r2 := stepDesc q r1 i
        if r2.ok then descLoop visit q is cs r2 else r2
      else r1

def iterDesc {σ} (q : Q σ) : Nat → Node → R σ → R σ
  | fuel, .mk items children, r =>
    -- number of items the loop runs over: `index + 1`
    let cnt := match q.start with
      | some s => if (findIdx items s).2 then (findIdx items s).1 + 1 else (findIdx items s).1
      | none => items.length
    match fuel with
    | 0 => descLoop (fun _ r => r) q (items.take cnt).reverse [] r
    | fuel + 1 => descLoop (iterDesc q fuel) q (items.take cnt).reverse (children.take (cnt + 1)).reverse r

inductive Dir | asc | desc
deriving DecidableEq, Repr

def Node.iterate {σ} (n : Node) (d : Dir) (q : Q σ) (hit : Bool) (s : σ) : σ :=
  match d with
  | .asc => (iterAsc q (height n) n ⟨hit, true, s⟩).st
  | .desc => (iterDesc q (height n) n ⟨hit, true, s⟩).st

/-! ### the tree -/

structure Tree where
  degree : Nat
  root : Option Node
  length : Nat
deriving Repr

def Tree.new (d : Nat) : Tree := ⟨d, none, 0⟩
def Tree.maxItems (t : Tree) : Nat := t.degree * 2 - 1
def Tree.minItems (t : Tree) : Nat := t.degree - 1

def Tree.inorder (t : Tree) : List Item :=
  match t.root with
  | none => []
  | some r => r.inorder

/-- `ReplaceOrInsert` -/
def Tree.replaceOrInsert (t : Tree) (x : Item) : Tree × Option Item :=
  match t.root with
  | none => ({ t with root := some (.mk [x] []), length := t.length + 1 }, none)
  | some r =>
    let r1 : Node := if t.maxItems ≤ r.items.length then
        .mk [(r.split (t.maxItems / 2)).2.1] [(r.split (t.maxItems / 2)).1, (r.split (t.maxItems / 2)).2.2]
      else r
    let res := insertH t.maxItems x (height r1) r1
    ({ t with root := some res.1, length := if res.2.isNone then t.length + 1 else t.length }, res.2)

/-- `deleteItem`'s root collapse -/
def collapse : Node → Node
  | .mk [] (c :: _) => c
  | n => n

/-- `deleteItem` -/
def Tree.deleteItem (t : Tree) (typ : Rm) : Tree × Option Item :=
  match t.root with
  | none => (t, none)
  | some r =>
    if r.items.isEmpty then (t, none)
    else
      let res := removeH t.minItems (height r) r typ
      ({ t with root := some (collapse res.1), length := if res.2.isSome then t.length - 1 else t.length }, res.2)

def Tree.get (t : Tree) (k : Int) : Option Item :=
  match t.root with
  | none => none
  | some r => getH k (height r) r

def Tree.min (t : Tree) : Option Item :=
  match t.root with
  | none => none
  | some r => minH (height r) r

def Tree.max (t : Tree) : Option Item :=
  match t.root with
  | none => none
  | some r => maxH (height r) r

/-- `Clear` (layer A: the freelist is invisible) -/
def Tree.clear (t : Tree) : Tree := { t with root := none, length := 0 }

def Tree.iterate {σ} (t : Tree) (d : Dir) (q : Q σ) (hit : Bool) (s : σ) : σ :=
  match t.root with
  | none => s
  | some r => r.iterate d q hit s

/-! ### the scans and what the source passes to `iterate` -/

/-- an argument position of `iterate` that receives an item -/
inductive Arg
  | nil      -- literal `nil`
  | pivot    -- the method's first item parameter
  | pivot2   -- the method's second item parameter
  | unknown
deriving DecidableEq, Repr

inductive DirK | asc | desc | unknown
deriving DecidableEq, Repr

/-- `t.root.iterate(dir, start, stop, includeStart, hit, iterator)` as written in a scan method -/
structure ScanArgs where
  dir : DirK
  start : Arg
  stop : Arg
  incl : Bool
  hit : Bool
deriving DecidableEq, Repr

def Arg.eval : Arg → Option Int → Option Int → Option Int
  | .nil, _, _ => none
  | .pivot, p, _ => p
  | .pivot2, _, p2 => p2
  | .unknown, _, _ => none

/-- run a scan method given its argument tuple -/
def Tree.scanWith {σ} (t : Tree) (a : ScanArgs) (p p2 : Option Int) (cb : σ → Item → σ × Bool) (s : σ) : σ :=
  let q : Q σ := ⟨a.start.eval p p2, a.stop.eval p p2, a.incl, cb⟩
  match a.dir with
  | .asc => t.iterate .asc q a.hit s
  | .desc => t.iterate .desc q a.hit s
  | .unknown => s

/-- the callback that records every item it is handed and continues while `cont` says so -/
def collect (cont : Item → Bool) (acc : List Item) (i : Item) : List Item × Bool := (acc ++ [i], cont i)

/-- how `iterWalk` compares its counter with the limit -/
inductive LimitCmp | ge | eq | gt | unknown
deriving DecidableEq, Repr

def LimitCmp.reached : LimitCmp → Nat → Nat → Bool
  | .ge, c, n => decide (c ≥ n)
  | .eq, c, n => decide (c = n)
  | .gt, c, n => decide (c > n)
  | .unknown, _, _ => true

/-- how `iterWalk` sizes its result slice before the scan -/
inductive Prealloc
  | eager    -- `make([]Node, 0, n)`: `n` cells are requested whatever the tree holds
  | capped   -- `make([]Node, 0, min(n, b.t.Len()))` under the read lock
  | unknown
deriving DecidableEq, Repr

/-- how `btree.Int.Less` compares two 64-bit keys -/
inductive IntLess
  | direct     -- `a < b.(Int)`
  | subtract   -- `a-b.(Int) < 0` (wraps around)
  | unknown
deriving DecidableEq, Repr

/-- `btree.Int.Less` on machine integers, for each recognised shape -/
def intLessK : IntLess → BitVec 64 → BitVec 64 → Bool
  | .direct, a, b => a.slt b
  | .subtract, a, b => (a - b).slt 0#64
  | .unknown, _, _ => false

structure Cfg where
  ascGe : ScanArgs      -- `AscendGreaterOrEqual`
  ascGt : ScanArgs      -- `AscendGreater`   (btree_ext.go)
  descLe : ScanArgs     -- `DescendLessOrEqual`
  descLt : ScanArgs     -- `DescendLess`     (btree_ext.go)
  limitCmp : LimitCmp   -- `if c >= n { return false }` in `iterWalk`
  wrapperDegree : Nat   -- `btree.New(2)` in `NewBTree`
  prealloc : Prealloc   -- the `make` in `iterWalk`
  intLess : IntLess     -- `btree.Int.Less` (the package's own item type)
deriving DecidableEq, Repr

/-- the configurations for which the property theorems are proved -/
def Proved (c : Cfg) : Prop :=
  c.ascGe = ⟨.asc, .pivot, .nil, true, false⟩ ∧ c.ascGt = ⟨.asc, .pivot, .nil, false, false⟩ ∧
  c.descLe = ⟨.desc, .pivot, .nil, true, false⟩ ∧ c.descLt = ⟨.desc, .pivot, .nil, false, false⟩ ∧
  (c.limitCmp = .ge ∨ c.limitCmp = .eq) ∧ 2 ≤ c.wrapperDegree ∧ c.prealloc = .capped ∧ c.intLess = .direct
instance : DecidablePred Proved := fun c => by unfold Proved; exact inferInstance

/-- the scans whose tuple is not a parameter (vendored entry points; compared with `Facts.expected`) -/
def argsAscend : ScanArgs := ⟨.asc, .nil, .nil, false, false⟩
def argsAscendRange : ScanArgs := ⟨.asc, .pivot, .pivot2, true, false⟩
def argsAscendLessThan : ScanArgs := ⟨.asc, .nil, .pivot, false, false⟩
def argsDescend : ScanArgs := ⟨.desc, .nil, .nil, false, false⟩
def argsDescendRange : ScanArgs := ⟨.desc, .pivot, .pivot2, true, false⟩
def argsDescendGreaterThan : ScanArgs := ⟨.desc, .nil, .pivot, false, false⟩

/-- shape facts of the source the model is written against (regenerated, compared with `expected`) -/
structure Facts where
  maxItemsExpr : Bool      -- `return t.degree*2 - 1`
  minItemsExpr : Bool      -- `return t.degree - 1`
  splitHalf : Bool         -- `first.split(maxItems / 2)` and `t.root.split(t.maxItems() / 2)`
  splitGuards : Bool       -- `len(n.children[i].items) < maxItems` / `len(t.root.items) >= t.maxItems()`
  growGuard : Bool         -- `if len(n.children[i].items) <= minItems { return n.growChildAndRemove(…) }`
  stealGuards : Bool       -- `i > 0 && len(n.children[i-1].items) > minItems`, `i < len(n.items) && len(n.children[i+1].items) > minItems`
  otherScans : Bool        -- the six vendored scans pass the tuples `argsAscend … argsDescendGreaterThan`
  rootNilGuard : Bool      -- every scan returns when `t.root == nil`
  wrapperScanMap : Bool    -- AscendGte→AscendGreaterOrEqual, AscendGt→AscendGreater, DescendLte→DescendLessOrEqual, DescendLt→DescendLess
  wrapperWriteLocks : Bool -- Insert/Update/UpdateOrInsert/Delete: `b.rw.Lock()` first, `defer b.rw.Unlock()`
  wrapperReadLocks : Bool  -- Get/iterWalk: `b.rw.RLock()`, `defer b.rw.RUnlock()` before the tree is touched
  updateBody : Bool        -- `e = Delete(oldV); if e == nil { return false }; ReplaceOrInsert(newV); return true`
  upsertBody : Bool        -- `e = Delete(oldV); ReplaceOrInsert(newV); return e != nil`
  walkBody : Bool          -- `if n == 0 { return nil }`; callback: limit test first, then `if filter(v) { append; c++ }; return true`
  cloneFreshCows : Bool    -- `cow1, cow2 := *t.cow, *t.cow; out := *t; t.cow = &cow1; out.cow = &cow2`
  cowGuards : Bool         -- `mutableFor`: `if n.cow == cow { return n }`; `freeNode`: `if n.cow == c`
  -- whole normalised bodies, by group (a deviating function is named in the extractor's message)
  bodyIterate : Bool       -- `(*node).iterate`
  bodyFind : Bool          -- `items.find`
  bodySlices : Bool        -- `items`/`children` `insertAt` `removeAt` `pop` `truncate`, `(*node).split`
  bodyInsert : Bool        -- `(*node).insert`, `maybeSplitChild`, `ReplaceOrInsert`
  bodyRemove : Bool        -- `(*node).remove`, `growChildAndRemove`, `deleteItem`, `Delete`, `DeleteMin`, `DeleteMax`
  bodyLookup : Bool        -- `(*node).get`, `min`, `max`, `Get`, `Min`, `Max`, `Has`, `Len`, `maxItems`, `minItems`
  bodyCow : Bool           -- `Clone`, `mutableFor`, `mutableChild`, `copyOnWriteContext.newNode/freeNode`, `FreeList.newNode/freeNode`, `NewFreeList`, `New`, `NewWithFreeList`, `Clear`, `reset`
  bodyWrapper : Bool       -- every method of `tree.BTree` and `NewBTree` (`iterWalk`: one of the two recognised shapes)
  bodyClosed : Bool        -- `node.print` is as it was, and NO function of the three anchored files is outside the groups above
  wrapperAllLocked : Bool  -- EVERY method of `tree.BTree` takes `b.rw` first (with a deferred unlock) or is a one-line call of `iterWalk`
deriving DecidableEq, Repr

def Facts.expected : Facts :=
  ⟨true, true, true, true, true, true, true, true, true, true, true, true, true, true, true, true,
   true, true, true, true, true, true, true, true, true, true⟩

/-! ### direct scans of `btree.BTree` -/

def Tree.scan (t : Tree) (a : ScanArgs) (p p2 : Option Int) (cont : Item → Bool) : List Item :=
  t.scanWith a p p2 (collect cont) []

/-! ### the wrapper `ds/tree.BTree` -/

/-- the closure `fn` of `iterWalk`: state = (c, ns) -/
def walkCb (cmp : LimitCmp) (n : Nat) (f : Item → Bool) (s : Nat × List Item) (v : Item) :
    (Nat × List Item) × Bool :=
  if cmp.reached s.1 n then (s, false)
  else if f v then ((s.1 + 1, s.2 ++ [v]), true)
  else (s, true)

inductive WalkOut
  | items (l : List Item)
  | panic                      -- `make([]Node, 0, n)` with a negative `n`
  | fault                      -- the requested capacity cannot be allocated (`makeslice: cap out of range` / out of memory)
  | itemsOrFault (l : List Item)  -- the request is satisfiable only if the machine has that much memory
deriving DecidableEq, Repr

/-- requests of up to 2^24 cells (256 MB of interface values) always succeed -/
def allocSure : Int := 2 ^ 24
/-- requests beyond 2^47 cells never do (the runtime's address-space bound is 2^48 bytes) -/
def allocBound : Int := 2 ^ 47

def iterWalk (c : Cfg) (t : Tree) (a : ScanArgs) (k : Int) (f : Item → Bool) (n : Int) : WalkOut :=
  if n = 0 then .items []
  else if n < 0 then .panic
  else
    let res := (t.scanWith a (some k) none (walkCb c.limitCmp n.toNat f) (0, [])).2
    match c.prealloc with
    | .capped => .items res
    | .eager => if n ≤ allocSure then .items res else if n ≤ allocBound then .itemsOrFault res else .fault
    | .unknown => .fault

def wNew (c : Cfg) : Tree := Tree.new c.wrapperDegree
def wInsert (t : Tree) (x : Item) : Tree := (t.replaceOrInsert x).1
def wUpdate (t : Tree) (old : Int) (new : Item) : Tree × Bool :=
  let d := t.deleteItem (.item old)
  if d.2.isNone then (d.1, false) else ((d.1.replaceOrInsert new).1, true)
def wUpdateOrInsert (t : Tree) (old : Int) (new : Item) : Tree × Bool :=
  let d := t.deleteItem (.item old)
  ((d.1.replaceOrInsert new).1, d.2.isSome)
def wDelete (t : Tree) (k : Int) : Tree × Bool :=
  let d := t.deleteItem (.item k)
  (d.1, d.2.isSome)
def wGet (t : Tree) (k : Int) : Option Item := t.get k
def wAscendGte (c : Cfg) (t : Tree) := iterWalk c t c.ascGe
def wAscendGt (c : Cfg) (t : Tree) := iterWalk c t c.ascGt
def wDescendLte (c : Cfg) (t : Tree) := iterWalk c t c.descLe
def wDescendLt (c : Cfg) (t : Tree) := iterWalk c t c.descLt

/-! ### the structural invariant, executable -/

def sortedKeys : List Item → Bool
  | [] => true
  | [_] => true
  | a :: b :: rest => decide (a.key < b.key) && sortedKeys (b :: rest)

/-- a non-root node of height `h`: occupancy bounds, children count, all leaves at depth `h` -/
def nodeOk (mn mx : Nat) : Nat → Node → Bool
  | 0, .mk items children => children.isEmpty && decide (mn ≤ items.length) && decide (items.length ≤ mx)
  | h + 1, .mk items children =>
    decide (children.length = items.length + 1) && decide (mn ≤ items.length) && decide (items.length ≤ mx) &&
      children.all (nodeOk mn mx h)

def rootOk (mn mx : Nat) : Node → Bool
  | .mk items [] => decide (items.length ≤ mx)
  | .mk items (c :: cs) =>
    decide (1 ≤ items.length) && decide (items.length ≤ mx) && decide ((c :: cs).length = items.length + 1) &&
      (c :: cs).all (nodeOk mn mx (height c))

def Tree.ok (t : Tree) : Bool :=
  decide (2 ≤ t.degree) &&
  match t.root with
  | none => t.length == 0
  | some r => rootOk t.minItems t.maxItems r && sortedKeys r.inorder && t.length == r.inorder.length

end Nv.C03
