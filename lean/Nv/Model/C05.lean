import Nv.Basic
/-!
C05 — model of `cache/ttlmem.go` (in-memory TTL cache) and `cache/ttlrds.go` (redis-backed one).

`Mem` mirrors `ttlMemCache`: the recency list (`live`, front first) and the key index. The index is
modelled by *which nodes are indexed*: every node of `live` is, and `ghost` holds indexed elements that
are no longer on the list (this happens today for `size = 0`: the index entry is written after the
just-pushed node was evicted as the tail). The clock is an input (`now`, unix seconds); a deadline is
`none` for "never" (`math.MaxInt64` in the code).

`Rds` is a key → (value, absolute expiry in ms) store with the semantics of the redis commands the
cache issues, plus go-redis' duration formatting (`usePrecise`, `formatMs`, `formatSec`), so that the
unit of `time.Duration(ttl)` taken from the source matters.

Facts of the source that select between behaviours are the fields of `Cfg` (regenerated:
`Nv.Gen.C05.cfg`).
-/
namespace Nv.C05

abbrev Key := Nat
abbrev Val := Nat
/-- `none` = never expires (`math.MaxInt64`) -/
abbrev Deadline := Option Int

structure Node where
  key : Key
  val : Val
  dl : Deadline
deriving DecidableEq, Repr

/-- does `set()` look at the deadline of an existing entry? -/
inductive SetExpiry
  | ignore     -- today: an expired, not yet collected entry counts as existing
  | purge      -- an expired entry is removed first and the key treated as absent
  | unknown
deriving DecidableEq, Repr

/-- where `t.eleHash[key] = ele` stands relative to the tail eviction in `set()` -/
inductive IndexOrder
  | afterEvict   -- today: with size 0 the evicted new node is indexed afterwards
  | beforeEvict
  | unknown
deriving DecidableEq, Repr

/-- unit of the `time.Duration` built from the ttl in ttlrds.go -/
inductive RdsUnit
  | nanoseconds  -- today: `time.Duration(o.ttl)`
  | seconds      -- `time.Duration(o.ttl) * time.Second`
  | unknown
deriving DecidableEq, Repr

structure Cfg where
  setExpiry : SetExpiry
  indexOrder : IndexOrder
  rdsUnit : RdsUnit
deriving DecidableEq, Repr

/-- shape facts the model is written against (regenerated, compared with `expected`) -/
structure Facts where
  locksCoverAll : Bool        -- Set/Get/Remove/Clear: `t.Lock()` then `defer t.Unlock()` first
  getExpiryGuard : Bool       -- get: `if now() > node.deadline { t.remove(ele, node); return …, ErrTTLKeyNotFound }` first
  getRemoveAfter : Bool       -- get: `if o.removeAfterGet { t.remove(ele, node); return node.value, nil }` next
  getUpdateThenFront : Bool   -- get: `if o.updateTTL { node.deadline = deadline(o.ttl) }; MoveToFront; return`
  setExisting : Bool          -- set: existing → must-not-exist error | MoveToFront, value, deadline unless keep-ttl
  setEvictsOneTail : Bool     -- set: new → PushFront, `if Len() > size { removeTail() }`
  removeBoth : Bool           -- remove: list removal and index deletion together; Clear resets both
  optDefaults : Bool          -- options start from the cache's default ttl; WithUpdateTTL(0) keeps the default
  deadlineKernel : Bool       -- deadline(ttl): `ttl <= 0` → MaxInt64, else now()+ttl (kernel regenerated as well)
  rdsCommands : Bool          -- ttlrds: SetNX | Set(KeepTTL) | Get/GetDel (+Expire) | Del, redis.Nil → not found
  rdsClearIterates : Bool     -- ttlrds Clear: SCAN prefix* driven by its *iterator* (follows the cursor to 0), one DEL per key
deriving DecidableEq, Repr

def Facts.expected : Facts := ⟨true, true, true, true, true, true, true, true, true, true, true⟩

/-- configurations for which the property theorems are proved -/
def Proved (c : Cfg) : Prop := c.setExpiry = .purge ∧ c.indexOrder = .beforeEvict ∧ c.rdsUnit = .seconds
instance : DecidablePred Proved := fun c => by unfold Proved; exact inferInstance

/-- today's source -/
def Cfg.today : Cfg := ⟨.ignore, .afterEvict, .nanoseconds⟩
def Cfg.fixed : Cfg := ⟨.purge, .beforeEvict, .seconds⟩

/-! ### options, operations, results -/

structure SetOpt where
  ttl : Option Int        -- `WithTTL n`
  mustNotExist : Bool
  keepTTL : Bool
deriving DecidableEq, Repr

structure GetOpt where
  remove : Bool           -- `WithRemoveAfterGet`
  update : Option Int     -- `WithUpdateTTL n`
deriving DecidableEq, Repr

inductive Op
  | set (k : Key) (v : Val) (o : SetOpt)
  | get (k : Key) (o : GetOpt)
  | remove (k : Key)
  | clear
  | tick (ms : Nat)       -- the clock advances
deriving DecidableEq, Repr

inductive Out
  | ok
  | value (v : Val)
  | notFound
  | exists_
  | err                    -- redis error reply (only the redis-backed cache)
deriving DecidableEq, Repr

/-! ### the in-memory cache -/

structure Mem where
  size : Nat
  dttl : Int
  live : List Node
  ghost : List Node
deriving DecidableEq, Repr

def Mem.new (size : Nat) (dttl : Int) : Mem := ⟨size, dttl, [], []⟩

/-- `now() > node.deadline` -/
def expired (now : Int) : Deadline → Bool
  | none => false
  | some d => decide (now > d)

/-- `deadline(ttl)` -/
def deadline (now ttl : Int) : Deadline := if ttl ≤ 0 then none else some (now + ttl)

def findKey (k : Key) : List Node → Option Node
  | [] => none
  | n :: l => if n.key = k then some n else findKey k l

def eraseKey (k : Key) : List Node → List Node
  | [] => []
  | n :: l => if n.key = k then eraseKey k l else n :: eraseKey k l

def keys (l : List Node) : List Key := l.map (·.key)

/-- `t.eleHash[key]` -/
def Mem.lookup (m : Mem) (k : Key) : Option Node :=
  match findKey k m.live with
  | some n => some n
  | none => findKey k m.ghost

/-- keys present in the index -/
def Mem.indexed (m : Mem) : List Key := keys m.live ++ keys m.ghost

/-- `t.remove(ele, node)` -/
def Mem.removeKey (m : Mem) (k : Key) : Mem :=
  { m with live := eraseKey k m.live, ghost := eraseKey k m.ghost }

/-- write back a changed node and `MoveToFront` (a no-op for an element that left the list) -/
def Mem.touch (m : Mem) (n : Node) : Mem :=
  match findKey n.key m.live with
  | some _ => { m with live := n :: eraseKey n.key m.live }
  | none => { m with ghost := n :: eraseKey n.key m.ghost }

/-- new key: `PushFront`, evict the tail when over size, write the index entry (order from the source) -/
def Mem.insertNew (c : Cfg) (m : Mem) (n : Node) : Mem :=
  let l := n :: m.live
  if l.length > m.size then
    match c.indexOrder with
    | .beforeEvict => { m with live := l.dropLast }
    | _ =>
      match m.live with
      | [] => { m with live := [], ghost := n :: m.ghost }   -- the new node was the tail; indexed afterwards
      | _ => { m with live := l.dropLast }
  else { m with live := l }

def setTtl (m : Mem) (o : SetOpt) : Int := o.ttl.getD m.dttl
def getTtl (dttl : Int) (n : Int) : Int := if n ≠ 0 then n else dttl

/-- the repaired `set()` first drops an expired entry of the key -/
def Mem.purgeIfExpired (m : Mem) (now : Int) (k : Key) : Mem :=
  match m.lookup k with
  | some n => if expired now n.dl then m.removeKey k else m
  | none => m

/-- what `set()` does about the deadline of an existing entry before anything else (from the source) -/
def Mem.preSet (c : Cfg) (m : Mem) (now : Int) (k : Key) : Mem :=
  match c.setExpiry with
  | .purge => m.purgeIfExpired now k
  | _ => m

/-- the body of `set()`: existing entry → must-not-exist error | overwrite; new entry → insert -/
def Mem.setCore (c : Cfg) (m : Mem) (now : Int) (k : Key) (v : Val) (o : SetOpt) : Mem × Out :=
  match m.lookup k with
  | some n =>
    if o.mustNotExist then (m, .exists_)
    else (m.touch { n with val := v, dl := if o.keepTTL then n.dl else deadline now (setTtl m o) }, .ok)
  | none => (m.insertNew c ⟨k, v, deadline now (setTtl m o)⟩, .ok)

def Mem.set (c : Cfg) (m : Mem) (now : Int) (k : Key) (v : Val) (o : SetOpt) : Mem × Out :=
  (m.preSet c now k).setCore c now k v o

def Mem.get (m : Mem) (now : Int) (k : Key) (o : GetOpt) : Mem × Out :=
  match m.lookup k with
  | none => (m, .notFound)
  | some n =>
    if expired now n.dl then (m.removeKey k, .notFound)
    else if o.remove then (m.removeKey k, .value n.val)
    else
      let n' : Node := match o.update with
        | some t => { n with dl := deadline now (getTtl m.dttl t) }
        | none => n
      (m.touch n', .value n.val)

def Mem.clear (m : Mem) : Mem := { m with live := [], ghost := [] }

/-- one call on the in-memory cache at clock reading `now` (seconds) -/
def Mem.step (c : Cfg) (m : Mem) (now : Int) : Op → Mem × Out
  | .set k v o => m.set c now k v o
  | .get k o => m.get now k o
  | .remove k => (m.removeKey k, .ok)
  | .clear => (m.clear, .ok)
  | .tick _ => (m, .ok)

/-! ### redis, as far as the cache uses it -/

structure REntry where
  key : Key
  val : Val
  exp : Option Int     -- absolute expiry, unix ms; none = persistent
deriving DecidableEq, Repr

structure Rds where
  dttl : Int
  store : List REntry
deriving DecidableEq, Repr

def Rds.new (dttl : Int) : Rds := ⟨dttl, []⟩

/-- redis `keyIsExpired`: `now > when` -/
def rExpired (nowMs : Int) : Option Int → Bool
  | none => false
  | some e => decide (nowMs > e)

def rFind (k : Key) : List REntry → Option REntry
  | [] => none
  | e :: l => if e.key = k then some e else rFind k l

def rErase (k : Key) : List REntry → List REntry
  | [] => []
  | e :: l => if e.key = k then rErase k l else e :: rErase k l

/-- lookup with lazy expiry (`expireIfNeeded`) -/
def rLive (nowMs : Int) (k : Key) (st : List REntry) : Option REntry :=
  match rFind k st with
  | some e => if rExpired nowMs e.exp then none else some e
  | none => none

inductive Expiry
  | plain
  | px (ms : Int)
  | ex (s : Int)
  | keepttl
deriving DecidableEq, Repr

inductive Reply | ok | nil | err | bulk (v : Val) | int (n : Int)
deriving DecidableEq, Repr

/-- `SET key value [PX ms | EX s | KEEPTTL] [NX]` -/
def rSet (nowMs : Int) (k : Key) (v : Val) (x : Expiry) (nx : Bool) (st : List REntry) : List REntry × Reply :=
  let bad := match x with
    | .px n => decide (n ≤ 0)
    | .ex n => decide (n ≤ 0)
    | _ => false
  if bad then (st, .err)     -- "invalid expire time in 'set' command"
  else
    let cur := rLive nowMs k st
    if nx && cur.isSome then (st, .nil)
    else
      let exp : Option Int := match x with
        | .plain => none
        | .px n => some (nowMs + n)
        | .ex n => some (nowMs + n * 1000)
        | .keepttl => match cur with
          | some e => e.exp
          | none => none
      (⟨k, v, exp⟩ :: rErase k st, .ok)

def rGet (nowMs : Int) (k : Key) (st : List REntry) : List REntry × Reply :=
  match rLive nowMs k st with
  | some e => (st, .bulk e.val)
  | none => (rErase k st, .nil)

def rGetDel (nowMs : Int) (k : Key) (st : List REntry) : List REntry × Reply :=
  match rLive nowMs k st with
  | some e => (rErase k st, .bulk e.val)
  | none => (rErase k st, .nil)

/-- `EXPIRE key s`: a non-positive time deletes the key -/
def rExpire (nowMs : Int) (k : Key) (s : Int) (st : List REntry) : List REntry × Reply :=
  match rLive nowMs k st with
  | some e => if s ≤ 0 then (rErase k st, .int 1) else (⟨k, e.val, some (nowMs + s * 1000)⟩ :: rErase k st, .int 1)
  | none => (rErase k st, .int 0)

/-! go-redis duration formatting (durations in nanoseconds, Go's truncated `/` and `%`) -/

def nsPerSec : Int := 1000000000
def nsPerMs : Int := 1000000

def usePrecise (dur : Int) : Bool := decide (dur < nsPerSec) || decide (Int.tmod dur nsPerSec ≠ 0)
def formatMs (dur : Int) : Int := if 0 < dur ∧ dur < nsPerMs then 1 else Int.tdiv dur nsPerMs
def formatSec (dur : Int) : Int := if 0 < dur ∧ dur < nsPerSec then 1 else Int.tdiv dur nsPerSec

/-- the `time.Duration` the cache builds from a ttl -/
def durOf (c : Cfg) (ttl : Int) : Int :=
  match c.rdsUnit with
  | .seconds => ttl * nsPerSec
  | _ => ttl

/-- go-redis `Set(key, value, expiration)` -/
def goSetExpiry (dur : Int) : Expiry :=
  if dur > 0 then (if usePrecise dur then .px (formatMs dur) else .ex (formatSec dur))
  else if dur = -1 then .keepttl
  else .plain

/-- go-redis `SetNX(key, value, expiration)` -/
def goSetNXExpiry (dur : Int) : Expiry :=
  if dur = 0 then .plain
  else if dur = -1 then .keepttl
  else if usePrecise dur then .px (formatMs dur) else .ex (formatSec dur)

def Rds.set (c : Cfg) (r : Rds) (nowMs : Int) (k : Key) (v : Val) (o : SetOpt) : Rds × Out :=
  let ttl := o.ttl.getD r.dttl
  if o.mustNotExist then
    let res := rSet nowMs k v (goSetNXExpiry (durOf c ttl)) true r.store
    ({ r with store := res.1 }, match res.2 with
      | .ok => .ok
      | .nil => .exists_
      | _ => .err)
  else
    let dur := if o.keepTTL then -1 else durOf c ttl
    let res := rSet nowMs k v (goSetExpiry dur) false r.store
    ({ r with store := res.1 }, match res.2 with
      | .ok => .ok
      | _ => .err)

def Rds.get (c : Cfg) (r : Rds) (nowMs : Int) (k : Key) (o : GetOpt) : Rds × Out :=
  let res := if o.remove then rGetDel nowMs k r.store else rGet nowMs k r.store
  match res.2 with
  | .bulk v =>
    match o.update with
    | some t =>
      let res2 := rExpire nowMs k (formatSec (durOf c (getTtl r.dttl t))) res.1
      ({ r with store := res2.1 }, .value v)
    | none => ({ r with store := res.1 }, .value v)
  | _ => ({ r with store := res.1 }, .notFound)

/-- one call on the redis-backed cache at clock reading `nowMs` (milliseconds) -/
def Rds.step (c : Cfg) (r : Rds) (nowMs : Int) : Op → Rds × Out
  | .set k v o => r.set c nowMs k v o
  | .get k o => r.get c nowMs k o
  | .remove k => ({ r with store := rErase k r.store }, .ok)
  | .clear => ({ r with store := [] }, .ok)
  | .tick _ => (r, .ok)

/-! ### `Clear` on redis: SCAN is paged

`SCAN cursor MATCH prefix*` returns one page (COUNT, default 10, bounds the keys examined; a page may be short or
empty) and a cursor; the iteration is over when the cursor is 0. Redis guarantees that a key present during the
whole iteration is returned by some page. `Rds.step .clear` (store := []) is what results when every page is
consumed — fact `rdsClearIterates` — which `clearPages_covering` (Nv/Proofs/C05Scan) proves for every paging. -/

/-- DEL of every key of every page, page after page (the iterator loop of `Clear`) -/
def clearPages (pages : List (List Key)) (st : List REntry) : List REntry :=
  pages.foldl (fun st pg => pg.foldl (fun st k => rErase k st) st) st

/-- only the first page is consumed (a single SCAN call whose cursor is dropped) -/
def clearFirstPage (pages : List (List Key)) (st : List REntry) : List REntry :=
  clearPages (pages.take 1) st

/-! ### both caches under one clock (milliseconds; the in-memory cache reads whole seconds) -/

structure Sys where
  clock : Nat          -- unix milliseconds
  mem : Mem
  rds : Rds
deriving DecidableEq, Repr

def Sys.new (clock size : Nat) (dttl : Int) : Sys := ⟨clock, Mem.new size dttl, Rds.new dttl⟩

def secOf (clockMs : Nat) : Int := ((clockMs / 1000 : Nat) : Int)

def Sys.step (c : Cfg) (s : Sys) (op : Op) : Sys × (Out × Out) :=
  match op with
  | .tick ms => ({ s with clock := s.clock + ms }, (.ok, .ok))
  | op =>
    let a := s.mem.step c (secOf s.clock) op
    let b := s.rds.step c (s.clock : Int) op
    ({ s with mem := a.1, rds := b.1 }, (a.2, b.2))

/-- A call issued with an ALREADY CANCELLED context. The in-memory cache never looks at the context (`_
    context.Context`): it carries the call out as usual. On redis the go-redis client refuses before sending anything:
    the store is unchanged and Set / Get / Remove return the error; `Clear` has no result, it logs and gives up. -/
def Sys.stepCancelled (c : Cfg) (s : Sys) (op : Op) : Sys × (Out × Out) :=
  match op with
  | .tick ms => ({ s with clock := s.clock + ms }, (.ok, .ok))
  | op =>
    let a := s.mem.step c (secOf s.clock) op
    ({ s with mem := a.1 }, (a.2, match op with
      | .clear => .ok
      | _ => .err))

/-- the in-memory cache alone, as a machine over the same ops -/
structure MSys where
  clock : Nat
  mem : Mem
deriving DecidableEq, Repr

def MSys.step (c : Cfg) (s : MSys) (op : Op) : MSys × Out :=
  match op with
  | .tick ms => ({ s with clock := s.clock + ms }, .ok)
  | op =>
    let a := s.mem.step c (secOf s.clock) op
    ({ s with mem := a.1 }, a.2)

/-- `get` of every key in turn without options: the keys that are retrievable now -/
def Mem.retrievable (m : Mem) (now : Int) : List Key :=
  (m.indexed.filter (fun k => match m.lookup k with
    | some n => !expired now n.dl
    | none => false))

end Nv.C05
