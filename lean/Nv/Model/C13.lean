import Nv.Basic
import Nv.Model.C12
/-!
C13 — blocking behaviour of the queues of C12 as labelled transition systems.

**List queues** (`pipe/q`, `async`, `mux`, `mq`, `SyncQueue`): the state is the C12 queue state plus consumer
threads. Every atomic step is one critical section of the Go code (that the method bodies are covered by the
queue's mutex is a regenerated fact):

* `popCall t anyway` — a fresh consumer enters `Pop`/`PopAnyway`: it runs the wait-loop test once
  (`C12.popNow` / `C12.syncPopNow`) and either returns (`done`) or parks in `cond.Wait()` (`parked`);
* `add… x w`, `close w`, `tryClose w` — the producer-side critical sections of C12, followed by the wake primitive
  the source uses there (`Cfg`, regenerated): `Broadcast` moves every parked thread to `woken`, `Signal` moves one
  parked thread — *which* one is the label component `w`, so all choices are covered — `none` nobody;
* `resume t` — a woken thread re-acquires the lock and re-tests the loop guard: returns or parks again.

`sync.Cond` is modelled from its documentation (no spurious wake-ups; Signal wakes one waiter if there is one).

**PriQueue**: entries + the 1-buffered signal channel (`token`), threads inside the unlocked gap between
`mu.Unlock()` and `tyrSignal()` of `Push` (`pushGap`) and `Pop` (`popGap`), and consumers that received from
`WaitCh()` and have not yet called `Pop` (`holders`).
-/
namespace Nv.C13
open Nv.C12

inductive Wake | broadcast | signal | none | unknown
deriving DecidableEq, Repr

/-- wake primitives of one list queue type, regenerated from its source -/
structure WakeCfg where
  add : Wake        -- `AddReq`/`Add`/`AddCtrl`/`Push` after inserting
  prior : Wake      -- `AddPriorReq`/`AddPrior`/`AddPriorCtrl`
  close : Wake      -- `Close` after setting `closed`
  tryClose : Wake   -- (MQ) `TryClose` after setting `closed`
deriving DecidableEq, Repr

/-- shape facts of one list queue type the transition system is written against -/
structure ConcFacts where
  lockCovered : Bool   -- AST: every method touching a guarded field locks first; unlock deferred or before every return
  waitLoop : Bool      -- AST: every `Wait()` sits directly in a `for` whose condition re-tests emptiness
deriving DecidableEq, Repr

structure PriCfg where
  pushSignals : Bool   -- `Push`: `tyrSignal()` after every successful push
  popResignals : Bool  -- `Pop`: `tyrSignal()` iff entries remain
deriving DecidableEq, Repr

structure PriFacts where
  trySignalNonBlocking : Bool  -- `select { case pq.signal <- struct{}{}: default: }`
  chanCap1 : Bool              -- `make(chan struct{}, 1)`
  known : Bool
deriving DecidableEq, Repr

structure Cfg where
  q : WakeCfg
  async : WakeCfg
  mux : WakeCfg
  mq : WakeCfg
  syncq : WakeCfg
  priq : PriCfg
  /-- no method takes its mutex twice (no `Unlock(); Lock()` inside a method; only `cond.Wait` releases the lock): each
      label of the transition system below is one uninterrupted critical section of the code. The theorems are about
      this system, so they say something about the code only for configurations with `sectionsAtomic = true`. -/
  sectionsAtomic : Bool
deriving DecidableEq, Repr

structure Facts where
  q : ConcFacts
  async : ConcFacts
  mux : ConcFacts
  mq : ConcFacts
  syncq : ConcFacts
  priq : PriFacts
  closesStopChan : Bool    -- `Close`/`TryClose` close `stopChan` (what `WaitClose` callers block on), `TryClear` closes `clearChan`
  methodSets : Bool        -- no method of a queue type outside the modelled ones, in any file of its package
  priqLockCovered : Bool   -- PriQueue: `entries`/`curSeq` only touched under `mu`
  fieldsPrivate : Bool     -- sibling files never select a queue's mutable / synchronisation field (no close without wake-up from outside)
deriving DecidableEq, Repr

def Facts.expected : Facts :=
  ⟨⟨true, true⟩, ⟨true, true⟩, ⟨true, true⟩, ⟨true, true⟩, ⟨true, true⟩, ⟨true, true, true⟩, true, true, true, true⟩

def Cfg.wake (c : Cfg) : Kind → WakeCfg
  | .q => c.q | .async => c.async | .mux => c.mux | .mq => c.mq | .syncq => c.syncq

def Wake.wakes : Wake → Bool
  | .broadcast => true | .signal => true | _ => false

/-- wake configurations for which "no stuck consumer" is proved: every add wakes at least one waiter
    (`Signal` suffices: one item, one consumer) and every close wakes all of them -/
def ProvedWake (k : Kind) (w : WakeCfg) : Prop :=
  w.add.wakes = true ∧ w.prior.wakes = true ∧ w.close = .broadcast ∧ (k = .mq → w.tryClose = .broadcast)
instance (k : Kind) : DecidablePred (ProvedWake k) := fun w => by unfold ProvedWake; exact inferInstance

def ProvedPri (p : PriCfg) : Prop := p.pushSignals = true ∧ p.popResignals = true
instance : DecidablePred ProvedPri := fun p => by unfold ProvedPri; exact inferInstance

def Proved (c : Cfg) : Prop :=
  c.sectionsAtomic = true ∧ ProvedWake .q c.q ∧ ProvedWake .async c.async ∧ ProvedWake .mux c.mux ∧ ProvedWake .mq c.mq ∧
  ProvedWake .syncq c.syncq ∧ ProvedPri c.priq
instance : DecidablePred Proved := fun c => by unfold Proved; exact inferInstance

/-! ### list queues with consumers -/

abbrev Tid := Nat

structure CS where
  q : LQ
  parked : List (Tid × Bool)    -- (thread, called PopAnyway?) waiting in `cond.Wait()`
  woken : List (Tid × Bool)     -- woken by Signal/Broadcast, not yet re-acquired the lock
  done : List (Tid × Out)       -- returned, with the result
  accepted : List Nat           -- ghost: items accepted by an add, in acceptance order
deriving DecidableEq, Repr

def CS.init (q : LQ) : CS := ⟨q, [], [], [], []⟩

def tids {β} (l : List (Tid × β)) : List Tid := l.map (·.1)

def CS.fresh (s : CS) (t : Tid) : Bool :=
  !(tids s.parked).contains t && !(tids s.woken).contains t && !(tids s.done).contains t

inductive Act
  | add (x : Nat) (w : Tid)
  | prior (x : Nat) (w : Tid)
  | addCtrl (x : Nat) (w : Tid)
  | priorCtrl (x : Nat) (w : Tid)
  | close (w : Tid)
  | tryClose (w : Tid)
  | tryClear
  | tryPop                       -- SyncQueue.TryPop by a non-consumer
  | popCall (t : Tid) (anyway : Bool)
  | resume (t : Tid)
deriving DecidableEq, Repr

/-- the wake primitive; `none` = the label names a thread `Signal` cannot pick -/
def wake (p : Wake) (w : Tid) (s : CS) : Option CS :=
  match p with
  | .broadcast => some { s with parked := [], woken := s.woken ++ s.parked }
  | .signal =>
    match s.parked with
    | [] => some s
    | _ :: _ =>
      match s.parked.find? (fun e => e.1 == w) with
      | some e => some { s with parked := s.parked.erase e, woken := s.woken ++ [e] }
      | none => none
  | .none => some s
  | .unknown => some s

/-- one pass of the consumer's wait loop -/
def attempt (k : Kind) (sh : Shape) (anyway : Bool) (q : LQ) : Option (LQ × Out) :=
  match k with
  | .syncq => syncPopNow q
  | _ => popNow sh anyway q

/-- a consumer at the loop test: returns or parks -/
def enter (k : Kind) (sh : Shape) (t : Tid) (anyway : Bool) (s : CS) : CS :=
  match attempt k sh anyway s.q with
  | some r => { s with q := r.1, done := (t, r.2) :: s.done }
  | none => { s with parked := s.parked ++ [(t, anyway)] }

/-- producer-side critical section: new queue state, result, and whether an item was inserted -/
def addLike (s : CS) (r : LQ × Out) (x : Nat) (p : Wake) (w : Tid) : Option CS :=
  if r.2 = .ok then wake p w { s with q := r.1, accepted := s.accepted ++ [x] }
  else some { s with q := r.1 }

structure Par where
  kind : Kind
  sh : Shape
  ssh : SyncShape
  wk : WakeCfg

def step (P : Par) (s : CS) : Act → Option CS
  | .add x w =>
    match P.kind with
    | .syncq =>
      if P.ssh.pushGuardsClosed && s.q.closed then some s
      else wake P.wk.add w { s with q := syncPush P.ssh s.q x, accepted := s.accepted ++ [x] }
    | _ => addLike s (addReq P.sh s.q x) x P.wk.add w
  | .prior x w =>
    match P.kind with
    | .syncq => none
    | _ => addLike s (addPrior P.sh s.q x) x P.wk.prior w
  | .addCtrl x w =>
    match P.kind with
    | .mq => addLike s (addCtrl P.sh s.q x) x P.wk.add w
    | _ => none
  | .priorCtrl x w =>
    match P.kind with
    | .mq => addLike s (addPriorCtrl P.sh s.q x) x P.wk.prior w
    | _ => none
  | .close w =>
    if s.q.closed then some s else wake P.wk.close w { s with q := closeQ s.q }
  | .tryClose w =>
    match P.kind with
    | .mq =>
      if s.q.closed then some s
      else if s.q.isEmpty then wake P.wk.tryClose w { s with q := closeQ s.q }
      else some s
    | _ => none
  | .tryClear =>
    match P.kind with
    | .mq => some { s with q := (tryClear s.q).1 }
    | _ => none
  | .tryPop =>
    match P.kind with
    | .syncq => some { s with q := (syncTryPop P.ssh s.q).1 }
    | _ => none
  | .popCall t anyway =>
    if s.fresh t then
      (if anyway && P.kind == .syncq then none else some (enter P.kind P.sh t anyway s))
    else none
  | .resume t =>
    match s.woken.find? (fun e => e.1 == t) with
    | some e => some (enter P.kind P.sh e.1 e.2 { s with woken := s.woken.erase e })
    | none => none

def lts (P : Par) (q0 : LQ) : LTS CS Act := ⟨CS.init q0, step P⟩

/-- a fresh queue of the parameter's kind -/
def Par.newQ (P : Par) (ctrlCap reqCap : Int) : LQ := LQ.new P.kind ctrlCap reqCap

/-- resume woken threads (first woken first) until nobody is woken — the oracle's way to reach quiescence;
    each resume removes one thread from `woken`, so `fuel = woken.length` suffices -/
def settle (P : Par) : Nat → CS → CS
  | 0, s => s
  | n + 1, s =>
    match s.woken with
    | [] => s
    | e :: _ => match step P s (.resume e.1) with
      | some s' => settle P n s'
      | none => s

/-! ### PriQueue -/

structure PS where
  q : PQ
  token : Bool       -- the signal channel holds its one element
  pushGap : Nat      -- threads between `mu.Unlock()` and `tyrSignal()` in `Push`
  popGap : Nat       -- threads between `mu.Unlock()` and `tyrSignal()` in `Pop` with `needSignal`
  holders : Nat      -- consumers that received from `WaitCh()` and have not yet called `Pop`
deriving DecidableEq, Repr

def PS.init (cap : Int) : PS := ⟨PQ.new cap, false, 0, 0, 0⟩

inductive PAct
  | pushLock (x : Nat) (p : Int)   -- locked part of `Push`
  | pushSignal                     -- its `tyrSignal()`
  | popLock (holder : Bool)        -- locked part of `Pop`, by a token holder or by anybody else
  | popSignal                      -- its `tyrSignal()` (only entered when entries remained)
  | recv                           -- a consumer receives from `WaitCh()`
deriving DecidableEq, Repr

def pstepC (sh : PriShape) (pc : PriCfg) (s : PS) : PAct → Option PS
  | .pushLock x p =>
    let r := pqPush sh s.q x p
    if r.2 = .ok then some { s with q := r.1, pushGap := s.pushGap + (if pc.pushSignals then 1 else 0) }
    else some { s with q := r.1 }
  | .pushSignal => if 0 < s.pushGap then some { s with pushGap := s.pushGap - 1, token := true } else none
  | .popLock h =>
    if h && s.holders == 0 then none else
    let r := pqPop sh s.q
    let hs := if h then s.holders - 1 else s.holders
    match r.2 with
    | some _ =>
      some { s with q := r.1, holders := hs,
                    popGap := s.popGap + (if pc.popResignals && !r.1.entries.isEmpty then 1 else 0) }
    | none => some { s with q := r.1, holders := hs }
  | .popSignal => if 0 < s.popGap then some { s with popGap := s.popGap - 1, token := true } else none
  | .recv => if s.token then some { s with token := false, holders := s.holders + 1 } else none

def plts (sh : PriShape) (pc : PriCfg) (cap : Int) : LTS PS PAct := ⟨PS.init cap, pstepC sh pc⟩

end Nv.C13
