import Nv.Basic
/-!
C06 — executable model of the id generators of `idgen/snowflake` (HardNode, MonoNode, NewNode)
and `idgen/nano` (UnixNanoID).

The model is written over `BitVec 64` / `BitVec 8` with Go's machine semantics, so it is exact for
every input (also outside the timestamp width, where `<<` drops bits). `Nv/Tie/C06.lean` proves that
the definitions regenerated from the source (`Nv.Gen.C06.*`) are *equal* to these.
How a `time.Time` is turned into milliseconds is a fact of the source (`Cfg`): today
`t.UnixNano()/MsDivNs` (wraps after 2262-04-11), repaired `t.UnixMilli()`.

A clock reading is the true instant `ms·10^6 + sub` nanoseconds after 1970 (`ms : Int`, `0 ≤ sub < 10^6`).
-/
namespace Nv.C06

/-! ### configuration regenerated from the source -/

/-- how a `time.Time` becomes a millisecond count -/
inductive Accessor
  | unixNano    -- `t.UnixNano() / MsDivNs`  (int64 nanoseconds: wraps for instants after 2262-04-11)
  | unixMilli   -- `t.UnixMilli()`
  | unknown
deriving DecidableEq, Repr

structure Cfg where
  /-- `HardNode.Generate`: `_HookNow().<accessor> - n.epoch` -/
  nowAcc : Accessor
  /-- `NewNode`: `n.epoch = time.Unix(_epoch/SDivMs, …).<accessor>` -/
  epochAcc : Accessor
  /-- `UseEpoch`: `o.epoch = t.<accessor>` (the option through which `Setup` receives the epoch) -/
  setupAcc : Accessor
deriving DecidableEq, Repr

/-- configurations for which the property theorems that mention the clock are proved -/
def Proved (c : Cfg) : Prop := c.nowAcc = .unixMilli ∧ c.epochAcc = .unixMilli ∧ c.setupAcc = .unixMilli
instance : DecidablePred Proved := fun c => by unfold Proved; exact inferInstance

/-- shape facts the hand-written parts of the model rely on -/
structure Facts where
  stepBits : Nat                 -- const StepBits
  hardLocked : Bool              -- HardNode.Generate: `n.mu.Lock()` first, `defer n.mu.Unlock()`
  hardClockUnderLock : Bool      -- the clock is read after the lock is taken
  newNodeRangeCheck : Bool       -- NewNode: `if node < 0 || node > nodeMax { return nil, … }`, nodeMax = (1 << _nodeBits) - 1
  newNodeSeeds : Bool            -- NewNode: `n.node = node`, `n.time, _, n.step = IDFields(min)`
  monoLocked : Bool              -- MonoNode.Generate: Lock first + defer Unlock
  monoRangeCheck : Bool          -- NewMonoNode: same range check; time/step start at zero
  monoShape : Bool               -- MonoNode.Generate: `if now == n.time {step+1 &stepMax; if 0 {spin while now <= n.time}} else {step=0}; n.time = now; r = now<<ts | node<<ns | step<<ss`
  nanoLocked : Bool              -- UnixNanoID.GenIDByTS: Lock before the compare, Unlock after the update
  nanoNoLockSame : Bool          -- UnixNanoNoLockID.GenIDByTS has the same body without the lock
  nanoGenIDForwards : Bool       -- GenID (both types) is exactly `var ts = time.Now().UnixNano(); return n.GenIDByTS(ts)`
deriving DecidableEq, Repr

def Facts.expected : Facts := ⟨12, true, true, true, true, true, true, true, true, true, true⟩

/-! ### layout -/

/-- `figureShift` : (timeShift, nodeShift, stepShift) -/
def figureShift (nb : BitVec 8) (nal : Bool) : BitVec 8 × BitVec 8 × BitVec 8 :=
  if nal then (nb + 12#8, 0#8, nb) else (nb + 12#8, 12#8, 0#8)

/-- `time<<timeShift | node<<nodeShift | step<<stepShift` -/
def join (nb : BitVec 8) (nal : Bool) (time node step : BitVec 64) : BitVec 64 :=
  ((time <<< (figureShift nb nal).1.toNat) ||| (node <<< (figureShift nb nal).2.1.toNat)) |||
    (step <<< (figureShift nb nal).2.2.toNat)

/-- `IDFields` -/
def idFields (id : BitVec 64) (nb : BitVec 8) (nal : Bool) : BitVec 64 × BitVec 64 × BitVec 64 :=
  (BitVec.sshiftRight id (figureShift nb nal).1.toNat,
   (BitVec.sshiftRight id (figureShift nb nal).2.1.toNat) &&& ((1#64 <<< nb.toNat) - 1#64),
   (BitVec.sshiftRight id (figureShift nb nal).2.2.toNat) &&& 4095#64)

/-! ### clock -/

/-- a clock reading: the instant `ms·10^6 + sub` ns after 1970-01-01T00:00:00Z -/
structure Clock where
  ms : Int
  sub : Int
deriving DecidableEq, Repr

/-- the word the accessor call returns (`ext_0` of the regenerated kernel) -/
def accWord : Accessor → Clock → BitVec 64
  | .unixMilli, t => BitVec.ofInt 64 t.ms
  | _, t => BitVec.ofInt 64 (t.ms * 1000000 + t.sub)

/-- milliseconds from the accessor word -/
def accMs : Accessor → BitVec 64 → BitVec 64
  | .unixMilli, w => w
  | _, w => BitVec.sdiv w 1000000#64

/-! ### HardNode -/

structure HState where
  epoch : BitVec 64
  time : BitVec 64
  node : BitVec 64
  step : BitVec 64
deriving DecidableEq, Repr

/-- the body of `HardNode.Generate` after `now` has been computed -/
def hardCore (nb : BitVec 8) (nal : Bool) (st : HState) (now : BitVec 64) : HState × BitVec 64 :=
  if BitVec.slt st.time now then
    ({ st with step := 0#64, time := now }, join nb nal now st.node 0#64)
  else
    if ((st.step + 1#64) &&& 4095#64) == 0#64 then
      ({ st with step := (st.step + 1#64) &&& 4095#64, time := st.time + 1#64 },
        join nb nal (st.time + 1#64) st.node ((st.step + 1#64) &&& 4095#64))
    else
      ({ st with step := (st.step + 1#64) &&& 4095#64 },
        join nb nal st.time st.node ((st.step + 1#64) &&& 4095#64))

/-- ids of successive calls for the successive values of `now` (whatever clock produced them) -/
def coreRun (nb : BitVec 8) (nal : Bool) : HState → List (BitVec 64) → List (BitVec 64)
  | _, [] => []
  | st, now :: nows => (hardCore nb nal st now).2 :: coreRun nb nal (hardCore nb nal st now).1 nows

/-- `now` as `Generate` computes it from the accessor word -/
def hardNow (c : Cfg) (epoch w : BitVec 64) : BitVec 64 := accMs c.nowAcc w - epoch

/-- one call of `HardNode.Generate` at clock reading `t` -/
def hardGen (c : Cfg) (nb : BitVec 8) (nal : Bool) (st : HState) (t : Clock) : HState × BitVec 64 :=
  hardCore nb nal st (hardNow c st.epoch (accWord c.nowAcc t))

/-- `n.epoch` as `NewNode` computes it from the global `_epoch` (milliseconds) -/
def nodeEpoch (c : Cfg) (epochG : BitVec 64) : BitVec 64 :=
  accMs c.epochAcc (accWord c.epochAcc ⟨epochG.toInt, 0⟩)

/-- `Setup(UseEpoch(t), UseNodeMode(mode), [NodeAtLowest()])` applied to the package defaults, `t` the instant
    `epochMs` ms after 1970: the resulting `(_epoch, _nodeBits, _nodeAtLowest)`. `UseNodeMode` keeps 8 and 9 and turns
    every other value into 10; `NodeAtLowest` can only switch the flag on. -/
def setupCfg (c : Cfg) (epochMs : BitVec 64) (mode : BitVec 8) (lowest : Bool) : BitVec 64 × BitVec 8 × Bool :=
  (accMs c.setupAcc (accWord c.setupAcc ⟨epochMs.toInt, 0⟩), if mode == 8#8 || mode == 9#8 then mode else 10#8, lowest)

/-- `NewNode(node, min)`; `none` = the range error -/
def newNode (c : Cfg) (nb : BitVec 8) (nal : Bool) (epochG node min : BitVec 64) : Option HState :=
  if BitVec.slt node 0#64 || BitVec.slt ((1#64 <<< nb.toNat) - 1#64) node then none
  else some { epoch := nodeEpoch c epochG, time := (idFields min nb nal).1, node := node,
              step := (idFields min nb nal).2.2 }

/-- ids of successive calls under the clock readings `ts` -/
def hardRun (c : Cfg) (nb : BitVec 8) (nal : Bool) : HState → List Clock → List (BitVec 64)
  | _, [] => []
  | st, t :: ts => (hardGen c nb nal st t).2 :: hardRun c nb nal (hardGen c nb nal st t).1 ts

def hardFinal (c : Cfg) (nb : BitVec 8) (nal : Bool) : HState → List Clock → HState
  | st, [] => st
  | st, t :: ts => hardFinal c nb nal (hardGen c nb nal st t).1 ts

/-! ### MonoNode (hand-written: the spin loop is not in the translatable subset)

One call consumes a reading `now` of the monotonic clock (ms since the node's epoch) and, when the
step counter wraps inside one millisecond, the reading `spin` at which the loop `for now <= n.time`
exits. `none`: that reading does not exit the loop (the model then has no transition). -/

structure MState where
  time : BitVec 64
  node : BitVec 64
  step : BitVec 64
deriving DecidableEq, Repr

def monoGen (nb : BitVec 8) (nal : Bool) (st : MState) (now spin : BitVec 64) : Option (MState × BitVec 64) :=
  if now == st.time then
    if ((st.step + 1#64) &&& 4095#64) == 0#64 then
      if BitVec.sle spin st.time then none
      else some ({ st with step := 0#64, time := spin }, join nb nal spin st.node 0#64)
    else
      some ({ st with step := (st.step + 1#64) &&& 4095#64 },
        join nb nal now st.node ((st.step + 1#64) &&& 4095#64))
  else
    some ({ st with step := 0#64, time := now }, join nb nal now st.node 0#64)

def monoRun (nb : BitVec 8) (nal : Bool) : MState → List (BitVec 64 × BitVec 64) → Option (List (BitVec 64))
  | _, [] => some []
  | st, r :: rs =>
    match monoGen nb nal st r.1 r.2 with
    | none => none
    | some (st', id) => (monoRun nb nal st' rs).map (id :: ·)

/-- is the id sequence `ids` a trace of a fresh `MonoNode(node)` for *some* non-decreasing sequence
    of clock readings?  Position of the first id that no reading explains, if any.
    (A reading equal to the decoded timestamp explains every legal id, so it is enough to try that.) -/
def monoAccept (nb : BitVec 8) (nal : Bool) : MState → Nat → List (BitVec 64) → Option Nat
  | _, _, [] => none
  | st, i, id :: rest =>
    let t := (idFields id nb nal).1
    if BitVec.slt t st.time then some i
    else match monoGen nb nal st t t with
      | some (st', id') => if id' == id then monoAccept nb nal st' (i + 1) rest
        else
          -- the wrap case: reading == time, counter wrapped, loop left at `t`
          match monoGen nb nal st st.time t with
          | some (st'', id'') => if id'' == id then monoAccept nb nal st'' (i + 1) rest else some i
          | none => some i
      | none => some i

/-! ### UnixNanoID -/

/-- `GenIDByTS`: (id, new current) -/
def nanoGen (ts cur : BitVec 64) : BitVec 64 × BitVec 64 :=
  if BitVec.slt cur ts then (ts, ts) else (cur + 1#64, cur + 1#64)

def nanoRun : BitVec 64 → List (BitVec 64) → List (BitVec 64)
  | _, [] => []
  | cur, ts :: rest => (nanoGen ts cur).1 :: nanoRun (nanoGen ts cur).2 rest

end Nv.C06
