import Nv.Basic
/-!
C01 — model of `syncx/semap` (`SemMap`, `WideSemMap`, `Weighted`) as the code is today.

Keys interact only through the map mutex, which merely makes the three critical sections
atomic; so the state of a map is `Key → KS`, one independent component per key.

`KS` = what exists for one key: the `*Weighted` the map currently holds (`live`) and the
objects that were deleted from the map while some caller still refers to them (`orphans`;
they exist only under today's delete guard and are provably absent under the repaired one).
A caller's `*Weighted` is "the object that lists it". `holders` is a ghost field: the code
keeps only `cur`.

Atomic steps (all executed under `SemMap.mux`):
* `acquire t n`  — `SemMap.acquire` + first half of `Weighted.acquire`: look up or create, grant at
                   once iff `size - cur ≥ n ∧ waiters = []`, else push to the back of the queue;
* `release t`    — `SemMap.release`: `cur -= n`, `notifyWaiters` (grant strictly from the front
                   while the head fits), then `delete(m, key)` under the guard regenerated from the source;
* `cancel t`     — the `ctx.Done()` arm of `Weighted.acquire`: a caller that was already granted
                   keeps the grant; otherwise remove self and, when it was the head and tokens are
                   left, `notifyWaiters`. Never deletes the map entry.
-/
namespace Nv.C01

abbrev Tid := Nat
abbrev Key := Nat
/-- (caller, weight) -/
abbrev W := Tid × Nat

/-- one `*Weighted` (`size` is the map's `rwRatio`, kept outside) -/
structure Sem where
  cur : Nat
  holders : List W      -- ghost: who holds the `cur` tokens
  waiters : List W      -- `container/list`, oldest first
deriving DecidableEq, Repr

/-- the condition under which `SemMap.release` deletes the key's entry -/
inductive Guard
  | emptyOnly       -- `if empty { delete }` — `empty` = "no waiters"; ignores remaining holders (defect F01)
  | emptyAndIdle    -- `if empty && w.cur == 0 { delete }`
  | unknown
deriving DecidableEq, Repr

structure Cfg where
  guard : Guard
deriving DecidableEq, Repr

/-- shape facts of the source the model is written against (regenerated, compared with `expected`) -/
structure Facts where
  acquireLocksFirst : Bool       -- `SemMap.acquire`: `s.mux.Lock()` precedes the map lookup; no unlock in it
  createsUnderLock : Bool        -- missing key: `newWeighted(s.rwRatio)` stored into `s.m[key]` before `w.acquire`
  fastPathNeedsNoWaiters : Bool  -- `if s.size-s.cur >= n && s.waiters.Len() == 0 { s.cur += n; mu.Unlock(); return nil }`
  doomedBranch : Bool            -- `if n > s.size { mu.Unlock(); <-ctx.Done(); return ctx.Err() }` before enqueueing
  enqueueBack : Bool             -- `s.waiters.PushBack(w)` then `mu.Unlock()` then the `select`
  cancelRelocks : Bool           -- ctx arm: `mu.Lock()` … `mu.Unlock()` around the queue fix-up
  cancelPrefersReady : Bool      -- ctx arm: `select { case <-ready: err = nil default: … }`
  cancelRenotifies : Bool        -- `isFront := Front() == elem; Remove(elem); if isFront && s.size > s.cur { notifyWaiters() }`
  releaseSubtracts : Bool        -- `s.cur -= n` then `return s.notifyWaiters()`
  notifyHeadOnly : Bool          -- loop: `Front()`, nil ⇒ `return true`; `size-cur < w.n` ⇒ `break`; else grant, remove, close
  releaseLocked : Bool           -- `SemMap.release`: `s.mux.Lock(); defer s.mux.Unlock()`
  readWeightOne : Bool           -- `AcquireRead`/`ReleaseRead` use weight 1
  writeWeightRatio : Bool        -- `AcquireWrite`/`ReleaseWrite` use weight `s.rwRatio`
  wideRoutesByKey : Bool         -- all four `WideSemMap` methods go through `s.calculateKey(key)` with the same key
  wholeBodies : Bool             -- every pinned function body equals, statement for statement (up to local names),
                                 -- one of the texts the model was written against: nothing inserted anywhere
deriving DecidableEq, Repr

def Facts.expected : Facts := ⟨true, true, true, true, true, true, true, true, true, true, true, true, true, true, true⟩

/-- configurations for which the property theorems are proved -/
def Proved (c : Cfg) : Prop := c.guard = .emptyAndIdle
instance : DecidablePred Proved := fun c => by unfold Proved; exact inferInstance

def wsum (l : List W) : Nat := (l.map (·.2)).sum

/-! ### one `*Weighted` -/

/-- `notifyWaiters`: grant strictly from the front while the head fits -/
def notify (size : Nat) : Nat → List W → List W → Sem
  | cur, hs, [] => ⟨cur, hs, []⟩
  | cur, hs, w :: ws =>
    if size - cur < w.2 then ⟨cur, hs, w :: ws⟩ else notify size (cur + w.2) (hs ++ [w]) ws

/-- first half of `Weighted.acquire` (up to `mu.Unlock()`) -/
def Sem.acquire (size : Nat) (o : Sem) (t : Tid) (n : Nat) : Sem :=
  if size - o.cur ≥ n ∧ o.waiters = [] then { o with cur := o.cur + n, holders := o.holders ++ [(t, n)] }
  else if n > size then o      -- "doomed": parks outside the queue; unreachable for n ∈ {1, size}, size ≥ 1
  else { o with waiters := o.waiters ++ [(t, n)] }

/-- `Weighted.release(n)` with `n` = what `t` holds -/
def Sem.release (size : Nat) (o : Sem) (t : Tid) : Sem :=
  let n := wsum (o.holders.filter (·.1 = t))
  notify size (o.cur - n) (o.holders.filter (·.1 ≠ t)) o.waiters

def isFront (t : Tid) : List W → Bool
  | w :: _ => w.1 == t
  | [] => false

/-- ctx arm of `Weighted.acquire` for a caller still in the queue -/
def Sem.cancel (size : Nat) (o : Sem) (t : Tid) : Sem :=
  let ws := o.waiters.filter (·.1 ≠ t)
  if isFront t o.waiters = true ∧ size > o.cur then notify size o.cur o.holders ws else { o with waiters := ws }

def guardOk : Guard → Sem → Bool
  | .emptyOnly, o => o.waiters.isEmpty
  | .emptyAndIdle, o => o.waiters.isEmpty && o.cur == 0
  | .unknown, _ => false

def holdsIn (t : Tid) (o : Sem) : Bool := o.holders.any (·.1 == t)
def waitsIn (t : Tid) (o : Sem) : Bool := o.waiters.any (·.1 == t)
def referenced (o : Sem) : Bool := !o.holders.isEmpty || !o.waiters.isEmpty

/-! ### one key -/

structure KS where
  live : Option Sem
  orphans : List Sem
deriving DecidableEq, Repr

def KS.init : KS := ⟨none, []⟩

/-- `delete(s.m, key)`: whatever the map holds for the key leaves the map; it lives on while referenced -/
def KS.deleteLive (s : KS) : KS :=
  match s.live with
  | none => s
  | some o => { live := none, orphans := if referenced o then o :: s.orphans else s.orphans }

def KS.acquire (size : Nat) (s : KS) (t : Tid) (n : Nat) : KS :=
  match s.live with
  | none => { s with live := some ((⟨0, [], []⟩ : Sem).acquire size t n) }
  | some o => { s with live := some (o.acquire size t n) }

/-- release by a caller whose object is no longer in the map -/
def KS.releaseOrphan (size : Nat) (g : Guard) (s : KS) (t : Tid) : KS :=
  match s.orphans.find? (holdsIn t) with
  | none => s
  | some x =>
    let x' := x.release size t
    let rest := s.orphans.filter (· ≠ x)
    let s' : KS := { s with orphans := if referenced x' then x' :: rest else rest }
    if guardOk g x' then s'.deleteLive else s'

def KS.release (size : Nat) (g : Guard) (s : KS) (t : Tid) : KS :=
  match s.live with
  | some o =>
    if holdsIn t o then
      let o' := o.release size t
      let s' : KS := { s with live := some o' }
      if guardOk g o' then s'.deleteLive else s'
    else s.releaseOrphan size g t
  | none => s.releaseOrphan size g t

def KS.cancelOrphan (size : Nat) (s : KS) (t : Tid) : KS :=
  match s.orphans.find? (waitsIn t) with
  | none => s          -- already granted (or gone): the grant is kept, nothing changes
  | some x =>
    let x' := x.cancel size t
    let rest := s.orphans.filter (· ≠ x)
    { s with orphans := if referenced x' then x' :: rest else rest }

def KS.cancel (size : Nat) (s : KS) (t : Tid) : KS :=
  match s.live with
  | some o => if waitsIn t o then { s with live := some (o.cancel size t) } else s.cancelOrphan size t
  | none => s.cancelOrphan size t

def KS.objs (s : KS) : List Sem := (match s.live with | some o => [o] | none => []) ++ s.orphans

/-- everybody inside the critical section of this key (any object) -/
def KS.holders (s : KS) : List W := (s.objs.map (·.holders)).flatten
/-- everybody blocked on this key; for the object in the map this is its queue, oldest first -/
def KS.waiters (s : KS) : List W := (s.objs.map (·.waiters)).flatten
def KS.present (s : KS) : Bool := s.live.isSome

def KS.holds (t : Tid) (s : KS) : Bool := s.holders.any (·.1 == t)
def KS.waits (t : Tid) (s : KS) : Bool := s.waiters.any (·.1 == t)
def KS.listed (t : Tid) (s : KS) : Bool := s.holds t || s.waits t

/-! ### the map: independent keys -/

inductive Act
  | acquire (t : Tid) (k : Key) (write : Bool)
  | release (t : Tid) (k : Key)
  | cancel (t : Tid) (k : Key)
deriving DecidableEq, Repr

def Act.key : Act → Key
  | .acquire _ k _ => k
  | .release _ k => k
  | .cancel _ k => k

def weight (rw : Nat) (write : Bool) : Nat := if write then rw else 1

abbrev State := Key → KS

def upd (s : State) (k : Key) (v : KS) : State := fun k' => if k' = k then v else s k'

/-- the per-key effect of an action of that key -/
def KS.step (c : Cfg) (rw : Nat) (s : KS) : Act → KS
  | .acquire t _ wr => s.acquire rw t (weight rw wr)
  | .release t _ => s.release rw c.guard t
  | .cancel t _ => s.cancel rw t

/-- when a call can be issued: a fresh caller id for acquire; release only by a holder (with the key it
    acquired); cancel only for a caller that is waiting or holding.
    These are the CALLER-DISCIPLINE HYPOTHESES of every theorem (they are assumptions about the clients of the
    package, not facts about its code — `SemMap.release` trusts `(key, w, n)` blindly):
    * a caller releases only what it acquired, once, with the SAME key and the matching kind
      (`ReleaseRead` after `AcquireRead`, `ReleaseWrite` after `AcquireWrite`), passing the `*Weighted` it was given;
    * keys are valid Go map keys with reflexive equality (`k == k`, hashable): `Key := Nat` models exactly that.
      NaN keys (never found again, never deleted) and unhashable keys (`s.m[key]` panics with the mutex held) are
      outside the model: that is Go map semantics, not behaviour of this package. -/
def KS.enabled (s : KS) : Act → Bool
  | .acquire t _ _ => !s.listed t
  | .release t _ => s.holds t
  | .cancel t _ => s.listed t

def step (c : Cfg) (rw : Nat) (s : State) (a : Act) : Option State :=
  if (s a.key).enabled a then some (upd s a.key ((s a.key).step c rw a)) else none

def init : State := fun _ => KS.init

/-- the transition system of one `SemMap` with read/write ratio `rw` -/
def M (c : Cfg) (rw : Nat) : LTS State Act := ⟨init, step c rw⟩

/-! ### the sharded maps: an array of maps and a routing function -/

abbrev WState := Nat → State

def wupd (ws : WState) (i : Nat) (v : State) : WState := fun j => if j = i then v else ws j

def wstep (c : Cfg) (rw : Nat) (idx : Key → Nat) (ws : WState) (a : Act) : Option WState :=
  match step c rw (ws (idx a.key)) a with
  | none => none
  | some s' => some (wupd ws (idx a.key) s')

def winit : WState := fun _ => init

/-- `WideSemMap` with any shard array and any (deterministic) routing function `idx` -/
def MW (c : Cfg) (rw : Nat) (idx : Key → Nat) : LTS WState Act := ⟨winit, wstep c rw idx⟩

/-- what `remap` can route: `SimpleIndex` / `XHashIndex` end in `remap.ToBytes`, which panics
    (`unsupported.type.for.slot`) for key kinds outside its arms (pointers, floats, structs, bools …) BEFORE any
    lock is taken or anything is stored. On a sharded map a call on such a key is therefore no step at all. -/
def wstepR (c : Cfg) (rw : Nat) (idx : Key → Nat) (routable : Key → Bool) (ws : WState) (a : Act) : Option WState :=
  if routable a.key then wstep c rw idx ws a else none

/-- `WideSemMap` as it is today: routing function `idx`, defined on the `routable` keys only -/
def MWR (c : Cfg) (rw : Nat) (idx : Key → Nat) (routable : Key → Bool) : LTS WState Act :=
  ⟨winit, wstepR c rw idx routable⟩

/-! ### routing with internal state (what the routing code could do, but must not) -/

/-- a router: given its internal state (memo tables, tables shared with other containers …) and a key it names
    a shard and moves to a new internal state; `other` is what creating or using ANOTHER container of the process
    (any other `remap.ReMap` user) does to that state. -/
structure Router (ρ : Type) where
  route : ρ → Key → Nat × ρ
  other : ρ → ρ

/-- events of a process that owns one sharded map: a call on the map, or activity of another container -/
inductive HAct
  | act (a : Act)
  | other
deriving DecidableEq, Repr

def hstep {ρ : Type} (c : Cfg) (rw : Nat) (R : Router ρ) (s : WState × ρ) : HAct → Option (WState × ρ)
  | .act a =>
    match step c rw (s.1 (R.route s.2 a.key).1) a with
    | none => none
    | some s' => some (wupd s.1 (R.route s.2 a.key).1 s', (R.route s.2 a.key).2)
  | .other => some (s.1, R.other s.2)

/-- a sharded map whose routing may depend on history and on other containers -/
def MWH {ρ : Type} (c : Cfg) (rw : Nat) (R : Router ρ) (r0 : ρ) : LTS (WState × ρ) HAct := ⟨(winit, r0), hstep c rw R⟩

/-- routing is a pure function of the key (for the map's prime): independent of lookup history and of whatever
    other containers exist or do -/
def Router.Pure {ρ : Type} (R : Router ρ) (idx : Key → Nat) : Prop := ∀ r k, (R.route r k).1 = idx k

/-- the single map a sharded map behaves like: key `k` read from the shard it routes to -/
def wproj (idx : Key → Nat) (ws : WState) : State := fun k => ws (idx k) k

end Nv.C01
