import Nv.Basic
/-!
C08 — model of `bitmap1024/internal.Bit64` and `bitmap1024.Bit1024`: set/unset, counting,
set algebra and the twenty hand-copied iterators (5 element widths × 2 directions, each with
a dense scan and a sparse find-first-set branch selected by `sparseMagic`).

The iterator is written once per direction, generic in the element width `w`
(`BitVec 8/16/32/64`; the value written is `ofNat w i + add`, wrapping like Go's typed
arithmetic). That each of the twenty Go bodies is the template modulo element type is a
regenerated fact (`Nv.Gen.C08.facts`). Slice writes are bounds-checked: `none` = Go panic.
`math/bits` (`OnesCount64`, `TrailingZeros64`, `Len64`) is modelled, not verified.
Core Lean only.
-/
namespace Nv.C08

abbrev Bit64 := BitVec 64

/-- constants of the source the model depends on (regenerated) -/
structure Cfg where
  sparseMagic : Int     -- initial value of `sparseMagic` (popcount threshold dense/sparse)
  b64 : Nat             -- `B64`
  l16 : Nat             -- `L16`
deriving DecidableEq, Repr

/-- configurations for which the theorems are proved: any threshold whatsoever -/
def Proved (c : Cfg) : Prop := c.b64 = 64 ∧ c.l16 = 16
instance : DecidablePred Proved := fun c => by unfold Proved; exact inferInstance

/-- shape of one Go function body after normalisation, as classified by the extractor -/
inductive Shape
  | fwd       -- the forward iterator template
  | rev       -- the reverse iterator template
  | ok        -- (non-iterator) equals the expected body
  | unknown   -- anything else
deriving DecidableEq, Repr

structure Facts where
  iter64 : List Shape      -- Bit64.IterAs{I64,I32,U32,I16,I8}
  riter64 : List Shape     -- Bit64.RIterAs{I64,I32,U32,I16,I8}
  iter1024 : List Shape    -- Bit1024.IterAs{I64,I32,U32,I16}
  riter1024 : List Shape   -- Bit1024.RIterAs{I64,I32,U32,I16}
  getN64 : List Shape      -- Bit64.getNAs{I64,I32,I16,I8} + the 8 public wrappers
  getN1024 : List Shape    -- Bit1024.getNAs{I64,I32,I16} + the 6 public wrappers
  algebra64 : List Shape   -- Bit64.{Len,NLen,Full,Reverse,And,Or}
  algebra1024 : List Shape -- Bit1024.{Len,NLen,Reverse,OrThenReverse,And,Or,Equal}, NewBit1024
  tabInit : Shape          -- the single `init` of internal/bit64.go, whole body: u64Tab[i] = 1 << i, seq64Buf[i] = i
  setters : List Shape     -- Bit1024.{SetI32,UnsetI32,SetI16,UnsetI16}, whole bodies (nothing after the Set/Unset call)
  kernelLocks : Nat        -- Lock/Unlock statements dropped by the translator in the six kernels (must be 0)
deriving DecidableEq, Repr

def Facts.expected : Facts where
  iter64 := [.fwd, .fwd, .fwd, .fwd, .fwd]
  riter64 := [.rev, .rev, .rev, .rev, .rev]
  iter1024 := [.fwd, .fwd, .fwd, .fwd]
  riter1024 := [.rev, .rev, .rev, .rev]
  getN64 := List.replicate 12 .ok
  getN1024 := List.replicate 9 .ok
  algebra64 := List.replicate 6 .ok
  algebra1024 := List.replicate 8 .ok
  tabInit := .ok
  setters := List.replicate 4 .ok
  kernelLocks := 0

/-! ## 64-bit layer -/

/-- `u64Tab[i]` -/
def bit (i : Nat) : Bit64 := 1#64 <<< i

/-- `func (b *Bit64) Set(i byte)` -/
def set64 (b : Bit64) (i : BitVec 8) : Bit64 :=
  if BitVec.ule i 63#8 then b ||| (1#64 <<< i.toNat) else b

/-- `func (b *Bit64) Unset(i byte)` -/
def unset64 (b : Bit64) (i : BitVec 8) : Bit64 :=
  if BitVec.ule i 63#8 then b &&& ~~~(1#64 <<< i.toNat) else b

/-- the set a word denotes, ascending -/
def members (w : Bit64) : List Nat := (List.range 64).filter w.getLsbD

/-- `bits.OnesCount64` (modelled) -/
def popcount (w : Bit64) : Nat := (members w).length

def full (b : Bit64) : Bool := b == ~~~(0#64)
/-- `Bit64.Len` -/
def len64 (b : Bit64) : Nat := if full b then 64 else popcount b
def nlen64 (b : Bit64) : Nat := 64 - len64 b
def reverse64 (b : Bit64) : Bit64 := ~~~b
def and64 (b c : Bit64) : Bit64 := b &&& c
def or64 (b c : Bit64) : Bit64 := b ||| c

/-- `bits.TrailingZeros64` (modelled): index of the lowest set bit, 64 for 0 -/
def tz64 (w : Bit64) : Nat := ((List.range 64).find? w.getLsbD).getD 64
/-- `bits.Len64` (modelled): 1 + index of the highest set bit, 0 for 0 -/
def bitlen64 (w : Bit64) : Nat :=
  match (List.range 64).reverse.find? w.getLsbD with
  | some i => i + 1
  | none => 0

/-- `s[cursor] = v` with Go's bounds check -/
def put {α} (s : List α) (cursor : Int) (v : α) : Option (List α) :=
  if 0 ≤ cursor ∧ cursor.toNat < s.length then some (s.set cursor.toNat v) else none

/-- loop state of one 64-bit iterator: slice, `cursor`, `c`, `w` -/
structure St (w : Nat) where
  s : List (BitVec w)
  cursor : Int
  c : Nat
  word : Bit64

/-- scan order of the dense loop: `i = 0…63` or `i = 63…0` -/
def order (rev : Bool) : List Nat := if rev then (List.range 64).reverse else List.range 64

/-- dense branch: `for i … { if w&u64Tab[i] != 0 { if c >= n || c >= l {break}; s[cursor] = i+add; cursor++; c++;
    w &= ^u64Tab[i]; if w == 0 {break} } }` -/
def denseLoop {w : Nat} (add : BitVec w) (n : Int) (l : Nat) : List Nat → St w → Option (St w)
  | [], st => some st
  | i :: is, st =>
    if st.word &&& bit i != 0#64 then
      if (st.c : Int) ≥ n ∨ st.c ≥ l then some st
      else match put st.s st.cursor (BitVec.ofNat w i + add) with
        | none => none
        | some s' =>
          let word' := st.word &&& ~~~(bit i)
          let st' : St w := ⟨s', st.cursor + 1, st.c + 1, word'⟩
          if word' == 0#64 then some st' else denseLoop add n l is st'
    else denseLoop add n l is st

/-- sparse branch: `for w != 0 { i = TrailingZeros64(w) (resp. Len64(w)-1); if c >= n || c >= l {break};
    s[cursor] = T(i)+add; cursor++; c++; w &= ^u64Tab[i] }`. Every round clears a bit, so 64 rounds of fuel
    are never exhausted with `w ≠ 0` (see `sparseLoop_spec`). -/
def sparseLoop {w : Nat} (rev : Bool) (add : BitVec w) (n : Int) (l : Nat) : Nat → St w → Option (St w)
  | 0, st => some st
  | fuel + 1, st =>
    if st.word == 0#64 then some st
    else
      let i := if rev then bitlen64 st.word - 1 else tz64 st.word
      if (st.c : Int) ≥ n ∨ st.c ≥ l then some st
      else match put st.s st.cursor (BitVec.ofNat w i + add) with
        | none => none
        | some s' => sparseLoop rev add n l fuel ⟨s', st.cursor + 1, st.c + 1, st.word &&& ~~~(bit i)⟩

/-- `Bit64.IterAs*` / `Bit64.RIterAs*`: result slice and returned count; `none` = index-out-of-range panic -/
def iter64 {w : Nat} (magic : Int) (rev : Bool) (b : Bit64) (s : List (BitVec w)) (pos : Int)
    (add : BitVec w) (n : Int) : Option (List (BitVec w) × Nat) :=
  let l := len64 b
  if l = 0 then some (s, 0)
  else
    let st0 : St w := ⟨s, pos, 0, b⟩
    let r := if (l : Int) > magic then denseLoop add n l (order rev) st0 else sparseLoop rev add n l 64 st0
    r.map (fun st => (st.s, st.c))

/-- outcome of the `GetNAs*` family -/
inductive GetN (α : Type)
  | panic            -- `make([]T, n)` with negative n (or an out-of-range write)
  | nil              -- `iterN == 0`
  | slice (l : List α)
deriving DecidableEq, Repr

def getNOf {w : Nat} (n : Int) (it : List (BitVec w) → Option (List (BitVec w) × Nat)) : GetN (BitVec w) :=
  if n < 0 then .panic
  else match it (List.replicate n.toNat 0) with
    | none => .panic
    | some (s, c) => if c = 0 then .nil else .slice (s.take c)

/-- `Bit64.getNAs*` -/
def getN64 {w : Nat} (magic : Int) (rev : Bool) (b : Bit64) (n : Int) : GetN (BitVec w) :=
  getNOf n (fun s => iter64 magic rev b s 0 0 n)

/-! ## 1024-bit layer -/

abbrev Bit1024 := Vector Bit64 16

def empty1024 : Bit1024 := Vector.replicate 16 0#64

def modifyWord (b : Bit1024) (k : Nat) (f : Bit64 → Bit64) : Bit1024 :=
  if h : k < 16 then b.set k (f b[k]) else b

/-- index arithmetic of `SetI32/UnsetI32`: (guard passed, word index, `byte(i % B64)`) -/
def selI32 (i : BitVec 32) : Bool × BitVec 32 × BitVec 8 :=
  let index := BitVec.sdiv i 64#32
  if BitVec.sle 0#32 index && BitVec.slt index 16#32 then
    (true, index, BitVec.setWidth 8 (BitVec.srem i 64#32))
  else (false, 0#32, 0#8)

/-- index arithmetic of `SetI16/UnsetI16` -/
def selI16 (i : BitVec 16) : Bool × BitVec 16 × BitVec 8 :=
  let index := BitVec.sdiv i 64#16
  if BitVec.sle 0#16 index && BitVec.slt index 16#16 then
    (true, index, BitVec.setWidth 8 (BitVec.srem i 64#16))
  else (false, 0#16, 0#8)

def setI32 (b : Bit1024) (i : BitVec 32) : Bit1024 :=
  let r := selI32 i
  if r.1 then modifyWord b r.2.1.toNat (set64 · r.2.2) else b
def unsetI32 (b : Bit1024) (i : BitVec 32) : Bit1024 :=
  let r := selI32 i
  if r.1 then modifyWord b r.2.1.toNat (unset64 · r.2.2) else b
def setI16 (b : Bit1024) (i : BitVec 16) : Bit1024 :=
  let r := selI16 i
  if r.1 then modifyWord b r.2.1.toNat (set64 · r.2.2) else b
def unsetI16 (b : Bit1024) (i : BitVec 16) : Bit1024 :=
  let r := selI16 i
  if r.1 then modifyWord b r.2.1.toNat (unset64 · r.2.2) else b

/-- membership of an index in the 1024-bit set -/
def mem1024 (b : Bit1024) (i : Nat) : Bool :=
  if h : i / 64 < 16 then b[i / 64].getLsbD (i % 64) else false

def members1024 (b : Bit1024) : List Nat := (List.range 1024).filter (mem1024 b)

def len1024 (b : Bit1024) : Nat := (b.toList.map len64).sum
def nlen1024 (b : Bit1024) : Nat := 1024 - len1024 b
def reverse1024 (b : Bit1024) : Bit1024 := b.map reverse64
def and1024 (b c : Bit1024) : Bit1024 := Vector.zipWith and64 b c
def or1024 (b c : Bit1024) : Bit1024 := Vector.zipWith or64 b c
def orThenReverse1024 (b c : Bit1024) : Bit1024 := Vector.zipWith (fun x y => reverse64 (or64 x y)) b c
def equal1024 (b c : Bit1024) : Bool := b.toList == c.toList

/-- the `for i … L16` loop of `Bit1024.IterAs*`: `if iterN >= n {break}; eIterN = b[i].Iter(s, cursor, B64*i+add, left);
    iterN += eIterN; cursor += eIterN; left = n - iterN` (`left` is always `n - iterN` at the call) -/
def chain {w : Nat} (c : Cfg) (magic : Int) (rev : Bool) (add : BitVec w) (n : Int) :
    List (Bit64 × Nat) → List (BitVec w) → Int → Nat → Option (List (BitVec w) × Nat)
  | [], s, _, iterN => some (s, iterN)
  | (word, k) :: rest, s, cursor, iterN =>
    if (iterN : Int) ≥ n then some (s, iterN)
    else match iter64 magic rev word s cursor (BitVec.ofNat w (c.b64 * k) + add) (n - iterN) with
      | none => none
      | some (s', e) => chain c magic rev add n rest s' (cursor + e) (iterN + e)

/-- words in visiting order, with their index -/
def wordsOf (c : Cfg) (rev : Bool) (b : Bit1024) : List (Bit64 × Nat) :=
  let l := (b.toList.zipIdx).take c.l16
  if rev then l.reverse else l

/-- `Bit1024.IterAs*` / `Bit1024.RIterAs*` -/
def iter1024 {w : Nat} (c : Cfg) (magic : Int) (rev : Bool) (b : Bit1024) (s : List (BitVec w)) (pos : Int)
    (add : BitVec w) (n : Int) : Option (List (BitVec w) × Nat) :=
  chain c magic rev add n (wordsOf c rev b) s pos 0

/-- `Bit1024.getNAs*` -/
def getN1024 {w : Nat} (c : Cfg) (magic : Int) (rev : Bool) (b : Bit1024) (n : Int) : GetN (BitVec w) :=
  getNOf n (fun s => iter1024 c magic rev b s 0 0 n)

/-! ## specification vocabulary -/

/-- overwrite `xs` into `s` starting at `pos` -/
def writeAt {α} (s : List α) (pos : Nat) (xs : List α) : List α :=
  s.take pos ++ xs ++ s.drop (pos + xs.length)

/-- what an iterator must produce: the first `n` members in the direction's order, offset by `add` -/
def expected {w : Nat} (rev : Bool) (ms : List Nat) (add : BitVec w) (n : Int) : List (BitVec w) :=
  ((if rev then ms.reverse else ms).take n.toNat).map (fun i => BitVec.ofNat w i + add)

end Nv.C08
