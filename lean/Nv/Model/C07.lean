import Nv.Model.C06
/-!
C07 — executable model of the snowflake id codec of `idgen/snowflake/snowflake.go`:
`IDFields / IDParse / IDParseEx`, `TimeIDRange / TimeBetweenID`, `CnStyle / FromChStyle`.

Word-level functions are written over `BitVec 64` with Go's machine semantics (they are proved equal to
the regenerated kernels in `Nv/Tie/C07.lean`); `figureShift`, `idFields`, `join` are shared with C06.
The calendar (Go's `time` package in the fixed zone Asia/Shanghai = UTC+8, no DST after 1991) is a
parameter `Calendar`; `shanghai` is the instance the oracle runs. Strings are `List Char` (ASCII).
-/
namespace Nv.C07
open Nv.C06 (Accessor figureShift idFields join)

/-! ### configuration regenerated from the source -/

structure Cfg where
  /-- `FromChStyle`: how the parsed `time.Time` becomes milliseconds (`t.UnixNano()/MsDivNs` | `t.UnixMilli()`) -/
  fromAcc : Accessor
deriving DecidableEq, Repr

def Proved (c : Cfg) : Prop := c.fromAcc = .unixMilli
instance : DecidablePred Proved := fun c => by unfold Proved; exact inferInstance

/-- shape facts the hand-written string/calendar part relies on -/
structure Facts where
  timeStrLen : Nat          -- const TimeStrLen
  sDivMs : Nat              -- const SDivMs
  msDivNs : Nat             -- const MsDivNs
  zoneShanghai : Bool       -- timeLoc = time.LoadLocation("Asia/Shanghai")
  cnArith : Bool            -- CnStyle: ms = (id >> (nodeBits+StepBits)) + _epoch; t = time.Unix(ms/SDivMs, (ms%SDivMs)*MsDivNs).In(timeLoc); left = id & ((1<<timeShift)-1)
  cnFormat : Bool           -- CnStyle: %04d Year, %02d Month, Day, Hour, Minute, Second, %03d Nanosecond()/MsDivNs, %07d left — in this order
  fromLenCheck : Bool       -- FromChStyle: `if l != TimeStrLen { return 0, error }` first
  fromSlices : Bool         -- FromChStyle: Atoi of v[:4], v[4+2i:6+2i] (i<5), v[14:17], v[17:], each error returned
  fromDate : Bool           -- FromChStyle: time.Date(year, time.Month(es[0]), es[1], es[2], es[3], es[4], ms*MsDivNs, timeLoc)
  fromPack : Bool           -- FromChStyle: id = (tms - _epoch computed) << (nodeBits+StepBits) | int64(left)
  parseExTime : Bool        -- IDParseEx: time.Unix(ts/SDivMs, (ts%SDivMs)*MsDivNs).In(timeLoc) of IDParse's ts
deriving DecidableEq, Repr

def Facts.expected : Facts := ⟨24, 1000, 1000000, true, true, true, true, true, true, true, true⟩

/-! ### word-level functions (mirrors of the regenerated kernels) -/

/-- `IDParse` -/
def idParse (id : BitVec 64) (nb : BitVec 8) (nal : Bool) (epoch : BitVec 64) : BitVec 64 × BitVec 64 × BitVec 64 :=
  ((idFields id nb nal).1 + epoch, (idFields id nb nal).2.1, (idFields id nb nal).2.2)

/-- the mask of everything below the timestamp: `(1 << (nodeBits+StepBits)) - 1` -/
def lowMask (nb : BitVec 8) : BitVec 64 := (1#64 <<< (nb + 12#8).toNat) - 1#64

/-- `TimeIDRange`; `sec` = `t.Unix()` -/
def timeIDRange (nb : BitVec 8) (epoch sec : BitVec 64) : BitVec 64 × BitVec 64 :=
  (((sec * 1000#64) - epoch) <<< (nb + 12#8).toNat,
   (((sec * 1000#64) - epoch) <<< (nb + 12#8).toNat) ||| lowMask nb)

/-- `TimeBetweenID`; `b`, `e` = `begin.Unix()`, `end.Unix()` -/
def timeBetweenID (nb : BitVec 8) (epoch b e : BitVec 64) : BitVec 64 × BitVec 64 :=
  (((b * 1000#64) - epoch) <<< (nb + 12#8).toNat,
   (((e * 1000#64) - epoch) <<< (nb + 12#8).toNat) ||| lowMask nb)

/-- the remaining bits below the timestamp (`left` of `CnStyle`) -/
def rest (id : BitVec 64) (nb : BitVec 8) : BitVec 64 := id &&& lowMask nb

/-! ### calendar -/

structure Civil where
  year : Int
  month : Nat
  day : Nat
  hour : Nat
  minute : Nat
  second : Nat
  milli : Nat
deriving DecidableEq, Repr

/-- what the model needs of Go's `time` in the package's zone -/
structure Calendar where
  /-- `time.Unix(ms/1000, (ms%1000)*1e6).In(loc)` → Year(), Month(), …, Nanosecond()/1e6 -/
  toCivil : Int → Civil
  /-- `time.Date(y, mo, d, h, mi, s, ms*1e6, loc)` as milliseconds since 1970 (normalising like Go) -/
  ofCivil : Int → Int → Int → Int → Int → Int → Int → Int

/-- the laws `cn_roundtrip` needs, for instants `t` of a domain `D` -/
structure Calendar.Lawful (cal : Calendar) (D : Int → Prop) : Prop where
  round : ∀ t, D t → let c := cal.toCivil t
    cal.ofCivil c.year c.month c.day c.hour c.minute c.second c.milli = t
  year4 : ∀ t, D t → 0 ≤ (cal.toCivil t).year ∧ (cal.toCivil t).year ≤ 9999
  month2 : ∀ t, D t → (cal.toCivil t).month ≤ 99
  day2 : ∀ t, D t → (cal.toCivil t).day ≤ 99
  hour2 : ∀ t, D t → (cal.toCivil t).hour ≤ 99
  minute2 : ∀ t, D t → (cal.toCivil t).minute ≤ 99
  second2 : ∀ t, D t → (cal.toCivil t).second ≤ 99
  milli3 : ∀ t, D t → (cal.toCivil t).milli ≤ 999

/-- days since 1970-01-01 of the proleptic Gregorian date (month 1..12) -/
def daysOfCivil (y m d : Int) : Int :=
  let y' := if m ≤ 2 then y - 1 else y
  let era := y' / 400
  let yoe := y' - era * 400
  let mp := if m ≤ 2 then m + 9 else m - 3
  let doy := (153 * mp + 2) / 5 + d - 1
  let doe := yoe * 365 + yoe / 4 - yoe / 100 + doy
  era * 146097 + doe - 719468

/-- proleptic Gregorian date of a day number (days since 1970-01-01) -/
def civilOfDays (z : Int) : Int × Int × Int :=
  let z := z + 719468
  let era := z / 146097
  let doe := z - era * 146097
  let yoe := (doe - doe / 1460 + doe / 36524 - doe / 146096) / 365
  let doy := doe - (365 * yoe + yoe / 4 - yoe / 100)
  let mp := (5 * doy + 2) / 153
  let d := doy - (153 * mp + 2) / 5 + 1
  let m := if mp < 10 then mp + 3 else mp - 9
  (if m ≤ 2 then yoe + era * 400 + 1 else yoe + era * 400, m, d)

/-- offset of Asia/Shanghai from UTC in ms (constant since 1991-09-15) -/
def shanghaiOffsetMs : Int := 28800000

def shanghaiToCivil (t : Int) : Civil :=
  let l := t + shanghaiOffsetMs
  let days := l / 86400000
  let r := l % 86400000
  let ymd := civilOfDays days
  ⟨ymd.1, ymd.2.1.toNat, ymd.2.2.toNat, (r / 3600000).toNat, (r / 60000 % 60).toNat, (r / 1000 % 60).toNat, (r % 1000).toNat⟩

/-- `time.Date`: months are normalised into the year, every other field carries linearly -/
def shanghaiOfCivil (y mo d h mi s ms : Int) : Int :=
  let m0 := mo - 1
  let y' := y + m0 / 12
  let m' := m0 % 12 + 1
  (daysOfCivil y' m' 1 + (d - 1)) * 86400000 + h * 3600000 + mi * 60000 + s * 1000 + ms - shanghaiOffsetMs

def shanghai : Calendar := ⟨shanghaiToCivil, shanghaiOfCivil⟩

/-! ### decimal formatting and parsing -/

def digitChar (n : Nat) : Char := Char.ofNat (48 + n % 10)

/-- the last `w` decimal digits of `n`, most significant first (exactly `w` characters) -/
def lastDigits : Nat → Nat → List Char
  | 0, _ => []
  | w + 1, n => lastDigits w (n / 10) ++ [digitChar n]

/-- decimal digits of `n` (at least one) — fuelled by the value itself -/
def natDigitsAux : Nat → Nat → List Char → List Char
  | 0, _, acc => acc
  | fuel + 1, n, acc => if n < 10 then digitChar n :: acc else natDigitsAux fuel (n / 10) (digitChar n :: acc)

def natDigits (n : Nat) : List Char := natDigitsAux (n + 1) n []

/-- `fmt.Sprintf("%0<w>d", n)`: exactly `w` digits when `0 ≤ n < 10^w`; otherwise as many digits as needed,
    a minus sign counting towards the width -/
def padInt (w : Nat) (n : Int) : List Char :=
  if 0 ≤ n ∧ n < 10 ^ w then lastDigits w n.toNat
  else if 0 ≤ n then natDigits n.toNat
  else
    let ds := natDigits (-n).toNat
    '-' :: (List.replicate (w - 1 - ds.length) '0' ++ ds)

def digitVal (c : Char) : Option Nat := if '0' ≤ c ∧ c ≤ '9' then some (c.toNat - 48) else none

def digitsVal : List Char → Nat → Option Nat
  | [], acc => some acc
  | c :: cs, acc => match digitVal c with
    | some d => digitsVal cs (acc * 10 + d)
    | none => none

/-- `strconv.Atoi` on a short (< 19 characters) ASCII string; `none` = syntax error -/
def atoi : List Char → Option Int
  | [] => none
  | '-' :: rest => if rest.isEmpty then none else (digitsVal rest 0).map (fun n => -(n : Int))
  | '+' :: rest => if rest.isEmpty then none else (digitsVal rest 0).map (fun n => (n : Int))
  | cs => (digitsVal cs 0).map (fun n => (n : Int))

/-! ### CnStyle / FromChStyle -/

/-- the instant `CnStyle` formats: `(id >> timeShift) + _epoch` (ms since 1970) -/
def cnMs (nb : BitVec 8) (epoch id : BitVec 64) : BitVec 64 :=
  BitVec.sshiftRight id (nb + 12#8).toNat + epoch

def cnStyle (cal : Calendar) (nb : BitVec 8) (epoch id : BitVec 64) : List Char :=
  let c := cal.toCivil (cnMs nb epoch id).toInt
  padInt 4 c.year ++ padInt 2 c.month ++ padInt 2 c.day ++ padInt 2 c.hour ++ padInt 2 c.minute ++
    padInt 2 c.second ++ padInt 3 c.milli ++ padInt 7 (rest id nb).toInt

/-- milliseconds of the parsed instant as a word, through the accessor the source uses -/
def fromMsWord : Accessor → Int → BitVec 64
  | .unixMilli, t => BitVec.ofInt 64 t
  | _, t => BitVec.sdiv (BitVec.ofInt 64 (t * 1000000)) 1000000#64

/-- `FromChStyle`; `none` = an error is returned -/
def fromChStyle (c : Cfg) (cal : Calendar) (nb : BitVec 8) (epoch : BitVec 64) (v : List Char) : Option (BitVec 64) :=
  if v.length ≠ 24 then none else
  match atoi (v.take 4), atoi ((v.drop 4).take 2), atoi ((v.drop 6).take 2), atoi ((v.drop 8).take 2),
      atoi ((v.drop 10).take 2), atoi ((v.drop 12).take 2), atoi ((v.drop 14).take 3), atoi (v.drop 17) with
  | some y, some mo, some d, some h, some mi, some s, some ms, some left =>
    let t := cal.ofCivil y mo d h mi s ms
    some ((((fromMsWord c.fromAcc t) - epoch) <<< (nb + 12#8).toNat) ||| BitVec.ofInt 64 left)
  | _, _, _, _, _, _, _, _ => none

/-- lexicographic comparison of `(timestamp, remaining bits)` as the property words it: -1, 0, 1 -/
def lexCmp (nb : BitVec 8) (nal : Bool) (a b : BitVec 64) : Int :=
  let ta := (idFields a nb nal).1
  let tb := (idFields b nb nal).1
  if BitVec.slt ta tb then -1 else if BitVec.slt tb ta then 1
  else if BitVec.ult (rest a nb) (rest b nb) then -1 else if BitVec.ult (rest b nb) (rest a nb) then 1 else 0

end Nv.C07
