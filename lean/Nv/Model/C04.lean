import Nv.Basic
/-!
C04 — implementation-shaped model of `cache.LRUCache` (item sizes) and `cache/tiny.LRUCache`
(unit sizes), and of the wide variants (`WideLRUCache`: an array of such caches behind a routing
function).

The state is what the Go struct holds: the recency list (front = most recently used; the `table`
index is the lookup in that list), and the *stored* counters `size`, `capacity`, `evictions`,
updated by deltas exactly as `updateInPlace / addNew / checkCapacity / Delete / Clear` do.
`checkCapacity` is the loop `for size > capacity { remove Back() … }`; on an empty list with
`size > capacity` the Go code dereferences the nil `Back()` — modelled as `Out.panic`.

Facts of the source that select behaviour are the `Cfg` (regenerated: `Nv.Gen.C04`).
-/
namespace Nv.C04

structure Entry where
  key : Nat
  val : Nat
  size : Int
deriving DecidableEq, Repr

/-- comparison used by the eviction loop guard `for lru.size ? lru.capacity` -/
inductive Cmp | gt | ge | unknown
deriving DecidableEq, Repr

inductive Kind | sized | tiny
deriving DecidableEq, Repr

structure Cfg where
  /-- guard of the loop in `checkCapacity` / `checkCapacityAndGetRemoved` -/
  evictWhile : Cmp
  /-- `Get` calls `MoveToFront` -/
  getMoves : Bool
  /-- `Peek` calls `MoveToFront` -/
  peekMoves : Bool
  /-- `SetIfAbsent` on a present key calls `MoveToFront` -/
  setIfAbsentMoves : Bool
  /-- `updateInPlace` ends with `checkCapacity` (sized: yes; tiny: no — harmless there, the size does not change) -/
  updateChecks : Bool
deriving DecidableEq, Repr

/-- the configurations the theorems are proved for: strict `>` guard, Get/SetIfAbsent refresh, Peek does not,
    and — where an update can grow the size — the update re-checks the capacity -/
def Proved (kd : Kind) (c : Cfg) : Prop :=
  c.evictWhile = .gt ∧ c.getMoves = true ∧ c.peekMoves = false ∧ c.setIfAbsentMoves = true ∧
    (kd = .sized → c.updateChecks = true)
instance (kd : Kind) : DecidablePred (Proved kd) := fun c => by unfold Proved; exact inferInstance

/-- shape facts of one package's `lru.go` the model is written against -/
structure Facts where
  /-- every public method: `lru.mu.Lock()` first, `defer lru.mu.Unlock()` -/
  allMethodsLocked : Bool
  /-- `updateInPlace`: size += new − old, MoveToFront, then checkCapacity (sized);
      tiny: value replaced, MoveToFront, no size change, no check -/
  updateShape : Bool
  /-- `addNew`: PushFront, table insert, size += (entry size | 1), checkCapacity -/
  addNewShape : Bool
  /-- the two `…AndGetRemoved` helpers equal the plain ones plus `append(removed, value)`;
      tiny `SetAndGetRemoved` returns nil on update -/
  removedShape : Bool
  /-- eviction body: Remove(Back()), delete from table, size −= (entry size | 1), evictions++ -/
  evictBody : Bool
  /-- `Delete`: Remove, delete from table, size −= (entry size | 1), true; false when absent -/
  deleteShape : Bool
  /-- `Clear`: list.Init, fresh table, size = 0 (capacity and evictions kept) -/
  clearShape : Bool
  /-- `SetCapacity`: capacity = c, then checkCapacity -/
  setCapacityShape : Bool
  /-- `Keys`/`Items` walk Front()…Next(); `Stats` returns (list.Len(), size, capacity, evictions) -/
  listingShape : Bool
  /-- wide variant: shards = `rehash.Numbs()`, each `NewLRUCache(pSize)`, every method `ls[calKeyFn(key)].M(key…)` -/
  wideShape : Bool
  /-- the per-shard capacity kernel was translated -/
  kernelTranslated : Bool
deriving DecidableEq, Repr

def Facts.expected : Facts := ⟨true, true, true, true, true, true, true, true, true, true, true⟩

structure Lru where
  list : List Entry
  size : Int
  capacity : Int
  evictions : Int
deriving DecidableEq, Repr

def Lru.new (cap : Int) : Lru := ⟨[], 0, cap, 0⟩

inductive Op
  | set (k v : Nat) (sz : Int)
  | setIfAbsent (k v : Nat) (sz : Int)
  | setGetRemoved (k v : Nat) (sz : Int)
  | get (k : Nat) | peek (k : Nat) | exist (k : Nat) | delete (k : Nat)
  | clear | setCapacity (c : Int) | keys | items | stats
  /-- `Set` / `SetIfAbsent` / `SetAndGetRemoved` with a value whose `Size()` panics (a nil `Value`, or a user `Size()` that faults) -/
  | setF (k : Nat) | setIfAbsentF (k : Nat) | setGetRemovedF (k : Nat)
deriving DecidableEq, Repr

inductive Out
  | unit
  | val (v : Option Nat)
  | bool (b : Bool)
  | removed (vs : List Nat)
  | keys (ks : List Nat)
  | items (kvs : List (Nat × Nat))
  | stats (length size capacity evictions : Int)
  | panic
deriving DecidableEq, Repr

/-- The part of the property's quantifier the theorems cover: item sizes ≥ 0, capacities ≥ 0 — and both below 2^62,
so that the `int64` counter `size` (at most capacity + one item before the check) cannot wrap around. The property
text has no such bound; inside it the code is wrong (`witness_size_counter_overflow` in `Nv.Props.C04`). -/
def Op.sizeOk : Op → Bool
  | .set _ _ s | .setIfAbsent _ _ s | .setGetRemoved _ _ s => decide (0 ≤ s) && decide (s < 2 ^ 62)
  | .setCapacity c => decide (0 ≤ c) && decide (c < 2 ^ 62)
  | _ => true

/-- the value's `Size()` faults -/
def Op.faults : Op → Bool
  | .setF _ | .setIfAbsentF _ | .setGetRemovedF _ => true
  | _ => false

/-- `int64` arithmetic: the value of the mathematical result after two's-complement wrap-around -/
def wrap64 (x : Int) : Int := x.bmod (2 ^ 64)

def total (l : List Entry) : Int := (l.map (·.size)).sum

def find? (k : Nat) : List Entry → Option Entry
  | [] => none
  | e :: es => if e.key = k then some e else find? k es

/-- `list.Remove(table[k])`: removes the (first) element with key `k` -/
def removeKey (k : Nat) : List Entry → List Entry
  | [] => []
  | e :: es => if e.key = k then es else e :: removeKey k es

def over : Cmp → Int → Int → Bool
  | .ge, s, c => decide (s ≥ c)
  | _, s, c => decide (s > c)

structure Ev where
  kept : List Entry        -- coldest first
  size : Int
  evicted : List Entry     -- in eviction order, coldest first
  panicked : Bool
deriving DecidableEq, Repr

/-- the loop of `checkCapacity` over the list seen from the back (coldest first) -/
def evictLoop (cmp : Cmp) (cap : Int) (dec : Entry → Int) : List Entry → Int → Ev
  | [], size => ⟨[], size, [], over cmp size cap⟩
  | e :: rest, size =>
    if over cmp size cap then
      let r := evictLoop cmp cap dec rest (wrap64 (size - dec e))
      ⟨r.kept, r.size, e :: r.evicted, r.panicked⟩
    else ⟨e :: rest, size, [], false⟩

/-- what one eviction subtracts from `size` -/
def decOf : Kind → Entry → Int
  | .sized, e => e.size
  | .tiny, _ => 1

/-- `checkCapacity` / `checkCapacityAndGetRemoved`: new state, removed values (coldest first), panicked -/
def checkCapacity (c : Cfg) (kd : Kind) (s : Lru) : Lru × List Nat × Bool :=
  let r := evictLoop c.evictWhile s.capacity (decOf kd) s.list.reverse s.size
  (⟨r.kept.reverse, r.size, s.capacity, s.evictions + r.evicted.length⟩, r.evicted.map (·.val), r.panicked)

/-- size recorded for a stored value: `int64(value.Size())`, or nothing (1 in the model) for tiny -/
def szOf : Kind → Int → Int
  | .sized, sz => sz
  | .tiny, _ => 1

def addNew (c : Cfg) (kd : Kind) (s : Lru) (k v : Nat) (sz : Int) : Lru × List Nat × Bool :=
  checkCapacity c kd { s with list := ⟨k, v, szOf kd sz⟩ :: s.list, size := wrap64 (s.size + szOf kd sz) }

/-- `updateInPlace` (+ `…AndGetRemoved` for sized; tiny's `SetAndGetRemoved` returns nil on update) -/
def updateInPlace (c : Cfg) (kd : Kind) (s : Lru) (old : Entry) (v : Nat) (sz : Int) : Lru × List Nat × Bool :=
  match kd with
  | .sized =>
    let s1 : Lru := { s with list := ⟨old.key, v, sz⟩ :: removeKey old.key s.list, size := wrap64 (s.size + wrap64 (sz - old.size)) }
    if c.updateChecks then checkCapacity c kd s1 else (s1, [], false)
  | .tiny =>
    let s1 : Lru := { s with list := ⟨old.key, v, 1⟩ :: removeKey old.key s.list }
    if c.updateChecks then
      let r := checkCapacity c kd s1
      (r.1, [], r.2.2)
    else (s1, [], false)

def moveToFront (s : Lru) (e : Entry) : Lru := { s with list := e :: removeKey e.key s.list }

def outOr (panicked : Bool) (o : Out) : Out := if panicked then .panic else o

/-- `if element := lru.table[key]; element != nil { updateInPlace… } else { addNew… }` -/
def upsert (c : Cfg) (kd : Kind) (s : Lru) (k v : Nat) (sz : Int) : Lru × List Nat × Bool :=
  match find? k s.list with
  | some old => updateInPlace c kd s old v sz
  | none => addNew c kd s k v sz

def step (c : Cfg) (kd : Kind) (s : Lru) : Op → Lru × Out
  | .set k v sz =>
    let r := upsert c kd s k v sz
    (r.1, outOr r.2.2 .unit)
  | .setGetRemoved k v sz =>
    let r := upsert c kd s k v sz
    (r.1, outOr r.2.2 (.removed r.2.1))
  | .setIfAbsent k v sz =>
    match find? k s.list with
    | some old => (if c.setIfAbsentMoves then moveToFront s old else s, .unit)
    | none => let r := addNew c kd s k v sz; (r.1, outOr r.2.2 .unit)
  | .get k =>
    match find? k s.list with
    | some e => (if c.getMoves then moveToFront s e else s, .val (some e.val))
    | none => (s, .val none)
  | .peek k =>
    match find? k s.list with
    | some e => (if c.peekMoves then moveToFront s e else s, .val (some e.val))
    | none => (s, .val none)
  | .exist k => (s, .bool (find? k s.list).isSome)
  | .delete k =>
    match find? k s.list with
    | some e => ({ s with list := removeKey k s.list, size := wrap64 (s.size - decOf kd e) }, .bool true)
    | none => (s, .bool false)
  | .clear => ({ s with list := [], size := 0 }, .unit)
  | .setCapacity cap =>
    let r := checkCapacity c kd { s with capacity := cap }
    (r.1, outOr r.2.2 .unit)
  | .keys => (s, .keys (s.list.map (·.key)))
  | .items => (s, .items (s.list.map (fun e => (e.key, e.val))))
  | .stats => (s, .stats s.list.length s.size s.capacity s.evictions)
  -- `updateInPlace` and `addNew` evaluate `int64(value.Size())` FIRST, before list, table or counters are touched:
  -- the panic leaves the cache as it was (the deferred Unlock releases the mutex)
  | .setF _ => (s, .panic)
  | .setGetRemovedF _ => (s, .panic)
  -- `SetIfAbsent` on a present key never looks at the value
  | .setIfAbsentF k =>
    match find? k s.list with
    | some old => (if c.setIfAbsentMoves then moveToFront s old else s, .unit)
    | none => (s, .panic)

/-! ### wide variant: an array of caches behind a routing function -/

/-- per-shard capacity `capacity/int64(numbs) + 1` (Go `/` truncates) -/
def shardCap (cap : Int) (n : Nat) : Int := cap.tdiv n + 1

structure Wide where
  shards : List Lru
deriving DecidableEq, Repr

def Wide.new (cap : Int) (n : Nat) : Wide := ⟨List.replicate n (Lru.new (shardCap cap n))⟩

/-- operations of the `LRUFacade` / `tiny.LRU` interface (all keyed) -/
def Op.key? : Op → Option Nat
  | .set k _ _ | .setIfAbsent k _ _ | .setGetRemoved k _ _ | .get k | .peek k | .exist k | .delete k => some k
  | .setF k | .setIfAbsentF k | .setGetRemovedF k => some k
  | _ => none

/-- a wide step: route the key, run the op on that shard. `none` = index out of range (Go panics) or unkeyed op. -/
def wideStep (c : Cfg) (kd : Kind) (idx : Nat → Nat) (w : Wide) (op : Op) : Option (Wide × Out) :=
  match op.key? with
  | none => none
  | some k =>
    match w.shards[idx k]? with
    | none => none
    | some s =>
      let r := step c kd s op
      some (⟨w.shards.set (idx k) r.1⟩, r.2)

/-- run a script on a wide cache; `none` as soon as one step is `none` -/
def wideRun (c : Cfg) (kd : Kind) (idx : Nat → Nat) : Wide → List Op → Option (Wide × List Out)
  | w, [] => some (w, [])
  | w, op :: ops =>
    match wideStep c kd idx w op with
    | none => none
    | some r =>
      match wideRun c kd idx r.1 ops with
      | none => none
      | some rs => some (rs.1, r.2 :: rs.2)

/-- is this operation routed to shard `i`? -/
def routed (idx : Nat → Nat) (i : Nat) (op : Op) : Bool :=
  match op.key? with
  | some k => decide (idx k = i)
  | none => false

/-- the operations of a script that shard `i` sees -/
def shardOps (idx : Nat → Nat) (i : Nat) (ops : List Op) : List Op := ops.filter (routed idx i)

end Nv.C04
