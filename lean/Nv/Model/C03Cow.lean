import Nv.Model.C03
/-!
C03, layer B — copy-on-write ownership of `ds/tree/btree`: an explicit node store, owner tags
(`node.cow`), the free list shared by a tree and its clones, `mutableFor` / `mutableChild`, and the
write operations (`ReplaceOrInsert`, `Delete`, `DeleteMin`, `DeleteMax`, `Clone`) written over the store
exactly in the order the Go code touches nodes. Node identity (pointer) = index into the store.

Layer A (`Nv.Model.C03`) is what this layer computes when read back (`absNode`); the property of this
layer is about *which store cells an operation may change*.
-/
namespace Nv.C03.Cow
open Nv.C03

structure HNode where
  items : List Item
  children : List Nat
  cow : Option Nat            -- owner tag; `none` = freed (`n.cow = nil`)
deriving Repr, DecidableEq

def HNode.empty : HNode := ⟨[], [], none⟩

structure Heap where
  nodes : List HNode
  free : List Nat             -- the free list (top of the stack first)
  cap : Nat                   -- its capacity (`DefaultFreeListSize` = 32)
deriving Repr

def Heap.get (H : Heap) (id : Nat) : HNode := H.nodes.getD id HNode.empty
def Heap.tag (H : Heap) (id : Nat) : Option Nat := (H.get id).cow
def Heap.size (H : Heap) : Nat := H.nodes.length

/-- store programs -/
def M (α : Type) := Heap → α × Heap

instance : Monad M where
  pure a := fun H => (a, H)
  bind m f := fun H => f (m H).1 (m H).2

/-- read a node -/
def rd (id : Nat) : M HNode := fun H => (H.get id, H)

/-- overwrite items and children of a node (its owner tag is not touched) -/
def wr (id : Nat) (items : List Item) (children : List Nat) : M Unit := fun H =>
  ((), { H with nodes := H.nodes.set id ⟨items, children, (H.get id).cow⟩ })

/-- `copyOnWriteContext.newNode`: pop the free list or allocate; tag with `cow` -/
def newNode (cow : Nat) : M Nat := fun H =>
  match H.free with
  | [] => (H.nodes.length, { H with nodes := H.nodes ++ [⟨[], [], some cow⟩] })
  | id :: rest => (id, { H with free := rest, nodes := H.nodes.set id ⟨[], [], some cow⟩ })

/-- `copyOnWriteContext.freeNode`: only a node owned by `cow` is cleared and (if there is room) parked -/
def freeNode (cow : Nat) (id : Nat) : M Unit := fun H =>
  if (H.get id).cow = some cow then
    let nodes := H.nodes.set id HNode.empty
    ((), if H.free.length < H.cap then { H with nodes := nodes, free := id :: H.free } else { H with nodes := nodes })
  else ((), H)

/-- what `copyOnWriteContext.freeNode` reports -/
inductive FreeType | freelistFull | stored | notOwned
deriving DecidableEq, Repr

/-- `freeNode` with its result (used by `reset`) -/
def freeNodeT (cow : Nat) (id : Nat) : M FreeType := fun H =>
  if (H.get id).cow = some cow then
    let nodes := H.nodes.set id HNode.empty
    if H.free.length < H.cap then (.stored, { H with nodes := nodes, free := id :: H.free })
    else (.freelistFull, { H with nodes := nodes })
  else (.notOwned, H)

/-- `node.mutableFor(cow)` -/
def mutableFor (cow : Nat) (id : Nat) : M Nat := do
  let n ← rd id
  if n.cow = some cow then pure id
  else do
    let out ← newNode cow
    wr out n.items n.children
    pure out

/-- `n.mutableChild(i)` (an index outside the child list — where Go panics — reads the node itself): `c := n.children[i].mutableFor(n.cow); n.children[i] = c` -/
def mutableChild (cow : Nat) (n : Nat) (i : Nat) : M Nat := do
  let nd ← rd n
  let c ← mutableFor cow (nd.children.getD i n)
  wr n nd.items (setAt nd.children i c)
  pure c

/-- `node.split(i)`: returns the separator and the new right node -/
def splitB (cow : Nat) (n : Nat) (i : Nat) : M (Item × Nat) := do
  let nd ← rd n
  let next ← newNode cow
  wr next (nd.items.drop (i + 1)) (nd.children.drop (i + 1))
  wr n (nd.items.take i) (nd.children.take (i + 1))
  pure (nd.items.getD i default, next)

/-- the part of `node.insert` that ends in this node: the key is here, or this is a leaf -/
def insertHere (n : Nat) (nd : HNode) (x : Item) : M (Option Item) :=
  if (findIdx nd.items x.key).2 then do
    wr n (setAt nd.items (findIdx nd.items x.key).1 x) nd.children
    pure nd.items[(findIdx nd.items x.key).1]?
  else do
    wr n (insertAt nd.items (findIdx nd.items x.key).1 x) []
    pure none

/-- `node.insert`; fuel = height -/
def insertB (cow mx : Nat) (x : Item) : Nat → Nat → M (Option Item)
  | 0, n => do
    let nd ← rd n
    if (findIdx nd.items x.key).2 || nd.children.isEmpty then insertHere n nd x else pure none
  | fuel + 1, n => do
    let nd ← rd n
    if (findIdx nd.items x.key).2 || nd.children.isEmpty then insertHere n nd x
    else do
      let i := (findIdx nd.items x.key).1
      let c ← rd (nd.children.getD i n)
      if c.items.length < mx then do
        let ch ← mutableChild cow n i
        insertB cow mx x fuel ch
      else do
        -- maybeSplitChild
        let first ← mutableChild cow n i
        let s ← splitB cow first (mx / 2)
        let nd1 ← rd n
        wr n (insertAt nd1.items i s.1) (insertAt nd1.children (i + 1) s.2)
        if x.key < s.1.key then do
          let ch ← mutableChild cow n i
          insertB cow mx x fuel ch
        else if s.1.key < x.key then do
          let ch ← mutableChild cow n (i + 1)
          insertB cow mx x fuel ch
        else do
          let nd2 ← rd n
          wr n (setAt nd2.items i x) nd2.children
          pure (some s.1)

/-- the rebalancing step of `growChildAndRemove` -/
def growB (cow mn : Nat) (n : Nat) (i : Nat) : M Unit := do
  let nd ← rd n
  let left ← rd (nd.children.getD (i - 1) n)
  let right ← rd (nd.children.getD (i + 1) n)
  if 0 < i ∧ mn < left.items.length then do
    let child ← mutableChild cow n i
    let stealFrom ← mutableChild cow n (i - 1)
    let sf ← rd stealFrom
    let ch ← rd child
    let nd1 ← rd n
    wr stealFrom sf.items.dropLast sf.children.dropLast
    wr child (nd1.items.getD (i - 1) default :: ch.items) (sf.children.getLast?.toList ++ ch.children)
    wr n (setAt nd1.items (i - 1) (sf.items.getLast?.getD default)) nd1.children
  else if i < nd.items.length ∧ mn < right.items.length then do
    let child ← mutableChild cow n i
    let stealFrom ← mutableChild cow n (i + 1)
    let sf ← rd stealFrom
    let ch ← rd child
    let nd1 ← rd n
    wr stealFrom (sf.items.drop 1) (sf.children.drop 1)
    wr child (ch.items ++ [nd1.items.getD i default]) (ch.children ++ sf.children.take 1)
    wr n (setAt nd1.items i (sf.items.head?.getD default)) nd1.children
  else do
    let j := if nd.items.length ≤ i then i - 1 else i
    let child ← mutableChild cow n j
    let nd1 ← rd n
    let mergeChild := nd1.children.getD (j + 1) n
    let mc ← rd mergeChild
    let ch ← rd child
    wr n (removeAt nd1.items j) (removeAt nd1.children (j + 1))
    wr child (ch.items ++ nd1.items.getD j default :: mc.items) (ch.children ++ mc.children)
    freeNode cow mergeChild

/-- `node.remove` on a node without children -/
def removeLeaf (n : Nat) (nd : HNode) (typ : Rm) : M (Option Item) := do
  wr n (leafRemove nd.items typ).1 []
  pure (leafRemove nd.items typ).2

/-- `node.remove`; fuel = height -/
def removeB (cow mn : Nat) : Nat → Nat → Rm → M (Option Item)
  | 0, n, typ => do
    let nd ← rd n
    if nd.children.isEmpty then removeLeaf n nd typ else pure none
  | fuel + 1, n, typ => do
    let nd ← rd n
    if nd.children.isEmpty then removeLeaf n nd typ
    else do
      let loc := locate nd.items typ
      let c ← rd (nd.children.getD loc.1 n)
      let _ ← (if c.items.length ≤ mn then growB cow mn n loc.1 else pure () : M Unit)
      let nd1 ← rd n
      let loc1 := if c.items.length ≤ mn then locate nd1.items typ else loc
      let child ← mutableChild cow n loc1.1
      if loc1.2 then do
        let p ← removeB cow mn fuel child .max
        let nd2 ← rd n
        wr n (setAt nd2.items loc1.1 (p.getD default)) nd2.children
        pure nd1.items[loc1.1]?
      else removeB cow mn fuel child typ

/-- a tree handle -/
structure HTree where
  degree : Nat
  root : Option Nat
  length : Nat
  cow : Nat
deriving Repr

/-- length of the leftmost path in the store (bounded by the store size) -/
def heightB (H : Heap) : Nat → Nat → Nat
  | 0, _ => 0
  | fuel + 1, id => match (H.get id).children with
    | [] => 0
    | c :: _ => heightB H fuel c + 1

def HTree.maxItems (t : HTree) : Nat := t.degree * 2 - 1
def HTree.minItems (t : HTree) : Nat := t.degree - 1

/-- `ReplaceOrInsert` -/
def replaceOrInsertB (t : HTree) (x : Item) : M (HTree × Option Item) := do
  match t.root with
  | none => do
    let r ← newNode t.cow
    wr r [x] []
    pure ({ t with root := some r, length := t.length + 1 }, none)
  | some r0 => do
    let r ← mutableFor t.cow r0
    let nd ← rd r
    let root ← (if t.maxItems ≤ nd.items.length then do
        let s ← splitB t.cow r (t.maxItems / 2)
        let nr ← newNode t.cow
        wr nr [s.1] [r, s.2]
        pure nr
      else pure r : M Nat)
    let h ← (fun H => (heightB H H.size root, H) : M Nat)
    let out ← insertB t.cow t.maxItems x h root
    pure ({ t with root := some root, length := if out.isNone then t.length + 1 else t.length }, out)

/-- `deleteItem` -/
def deleteItemB (t : HTree) (typ : Rm) : M (HTree × Option Item) := do
  match t.root with
  | none => pure (t, none)
  | some r0 => do
    let nd0 ← rd r0
    if nd0.items.isEmpty then pure (t, none)
    else do
      let r ← mutableFor t.cow r0
      let h ← (fun H => (heightB H H.size r, H) : M Nat)
      let out ← removeB t.cow t.minItems h r typ
      let nd ← rd r
      let root ← (match nd.items, nd.children with
        | [], c :: _ => do
          freeNode t.cow r
          pure c
        | _, _ => pure r : M Nat)
      pure ({ t with root := some root, length := if out.isSome then t.length - 1 else t.length }, out)

/-- `(*node).reset(c)`: frees the subtree bottom-up, stops as soon as the free list is full; fuel = height.
    `true` = the caller should continue. The children are read before the node itself is cleared. -/
def resetB (cow : Nat) : Nat → Nat → M Bool
  | 0, id => do
    let ft ← freeNodeT cow id
    pure (ft != .freelistFull)
  | fuel + 1, id => do
    let nd ← rd id
    let go ← nd.children.foldlM (fun (acc : Bool) c => if acc then resetB cow fuel c else pure false) true
    if go then do
      let ft ← freeNodeT cow id
      pure (ft != .freelistFull)
    else pure false

/-- `Clear(addNodesToFreelist)` -/
def clearB (t : HTree) (add : Bool) : M (HTree × Option Item) := do
  match t.root with
  | none => pure ({ t with root := none, length := 0 }, none)
  | some r => do
    let h ← (fun H => (heightB H H.size r, H) : M Nat)
    let _ ← (if add then resetB t.cow h r else pure true : M Bool)
    pure ({ t with root := none, length := 0 }, none)

/-- `Clone`: two fresh contexts (the caller supplies two unused tags); the store is shared -/
def cloneB (t : HTree) (c1 c2 : Nat) : HTree × HTree := ({ t with cow := c1 }, { t with cow := c2 })

/-! ### reading the store back -/

/-- the layer-A node a store cell denotes (fuel = height; below the fuel, children are shown as empty nodes, so that
    a cell with children is never mistaken for a leaf) -/
def absNode (H : Heap) : Nat → Nat → Node
  | 0, id => .mk (H.get id).items ((H.get id).children.map (fun _ => Node.mk [] []))
  | fuel + 1, id => .mk (H.get id).items ((H.get id).children.map (absNode H fuel))

def HTree.inorder (t : HTree) (H : Heap) : List Item :=
  match t.root with
  | none => []
  | some r => (absNode H (heightB H H.size r) r).inorder

/-- (nodes reachable from `id` owned by `cow`, nodes reachable) — what the hook `VerifOwned` counts -/
def countOwned (H : Heap) (cow : Nat) : Nat → Nat → Nat × Nat
  | 0, id => (if H.tag id = some cow then 1 else 0, 1)
  | fuel + 1, id =>
    let rs := (H.get id).children.map (countOwned H cow fuel)
    ((if H.tag id = some cow then 1 else 0) + (rs.map (·.1)).sum, 1 + (rs.map (·.2)).sum)

def HTree.owned (t : HTree) (H : Heap) : Nat × Nat :=
  match t.root with
  | none => (0, 0)
  | some r => countOwned H t.cow (heightB H H.size r) r

def Heap.init (cap : Nat) : Heap := ⟨[], [], cap⟩

end Nv.C03.Cow
