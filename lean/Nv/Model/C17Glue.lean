import Nv.Model.C17
import Nv.Gen.C17
/-!
C17 — routing computed through the kernels regenerated from the source (`Nv.Gen.C17`): the
boundary expression, the `SearchIndex` clamp, the `SimpleIndex` arms and tail. Used by the oracle
(so that the correspondence follows the code's own arithmetic) and by `Nv.Tie.C17` (which proves
these equal to the hand-written model and states the property theorems on them).
-/
namespace Nv.C17

/-- `nps[i]` as `NewReMap` computes it -/
def genNps (n i : Nat) : Nat :=
  if Nv.Gen.C17.cfg.lastForcedMax && decide (i + 1 = n) then M64
  else (Nv.Gen.C17.npsAt (Nv.Gen.C17.npsY (BitVec.ofNat 64 n)) (BitVec.ofNat 64 i) (BitVec.ofNat 64 n)).toNat

/-- the clamp of `SearchIndex`, as an `int`; a negative result is mapped to `2^64 + i` (never in range) -/
def genClamp (n i : Nat) : Nat := (Nv.Gen.C17.searchClamp (BitVec.ofNat 64 i) (BitVec.ofNat 64 n)).toNat

def genSearchIndex (n x : Nat) : Nat := searchWith (genNps n) Nv.Gen.C17.cfg.searchPred (genClamp n) n x

def genXHash (n : Nat) (k : Key) : Out :=
  if k.hashable Nv.Gen.C17.hitHashable then .idx (genSearchIndex n k.hash) else .panic

def genSimple (n : Nat) (k : Key) : Out :=
  match Nv.Gen.C17.simpleArm k.ty k.bits with
  | some it => .idx (Nv.Gen.C17.simpleTail it (BitVec.ofNat 64 n)).toNat
  | none => genXHash n k

end Nv.C17
