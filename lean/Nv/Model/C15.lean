import Nv.Basic
/-!
C15 — model of `syncx/pipe/mux`: a worker group whose workers own a write-through cache in front of a
backing store reached through caller-supplied callbacks.

* the store is an association list `Key → Val`; every callback invocation consumes one bit of a
  *fault oracle* (`true` = the callback fails with an injected error and leaves the store unchanged);
* a worker's cache facade is a recency-ordered entry list (`Peek / Get / Set / Delete`; the LRU facade
  moves on `Get`, evicts from the back when more than `cap` entries of size 1 are held; the map facade
  never evicts);
* the seven handlers of `worker.go` are transcribed branch by branch; `DoGet` has its fast path;
* the worker is chosen by `locHash` — a parameter `loc` here (the oracle passes the kernel regenerated
  from the source); an index outside `[0, workers)` makes the indexing expression panic.
Operations are applied one at a time (the per-worker FIFO + single consumer is the subject of
`Nv.C15.Q*` below: a minimal queue machine with one consumer per worker).
-/
namespace Nv.C15

abbrev Key := Int
abbrev Val := Nat

inductive Err | inj | notFound | exists | dup
deriving DecidableEq, Repr

inductive Cb | load | add | upd | upsert | del
deriving DecidableEq, Repr

inductive Res | ok (v : Val) | nil | err (e : Err) | panic
deriving DecidableEq, Repr

/-- where `handleDelete` drops the cached entry relative to the store callback -/
inductive DelOrder
  | storeFirst    -- today: `deleteFn`, on success `ca.Delete`
  | cacheFirst    -- `ca.Delete` first, then `deleteFn` (harmless: an emptier cache is still coherent)
  | noDelete      -- the store callback only: the cached entry survives a successful delete (a BAD configuration)
  | unknown       -- not recognised: the model makes no claim (it behaves like `noDelete`, the oracle answers `unknown-cfg`)
deriving DecidableEq, Repr

/-- is `Worker.Start` protected against a second call? -/
inductive StartGuard
  | once        -- `startOnce.Do(… go w.runLoop())`: a second `Start` starts nothing
  | unguarded   -- `go w.runLoop()` on every call: a second `Start` puts a second consumer on every worker's queue
  | unknown
deriving DecidableEq, Repr

structure Cfg where
  delOrder : DelOrder
  startGuard : StartGuard
deriving DecidableEq, Repr

/-- the handlers keep the cache coherent for these configurations -/
def DelOk (c : Cfg) : Prop := c.delOrder = .storeFirst ∨ c.delOrder = .cacheFirst
instance : DecidablePred DelOk := fun c => by unfold DelOk; exact inferInstance

/-- configurations for which the property theorems are proved -/
def Proved (c : Cfg) : Prop := DelOk c ∧ c.startGuard = .once
instance : DecidablePred Proved := fun c => by unfold Proved; exact inferInstance

/-- shape facts of the source the model is written against: every function of a group has exactly the canonical text
(locals renamed) the model was validated against -/
structure Facts where
  handlers : Bool      -- `handleAsync` dispatch and six handlers (`handleDelete`: `Cfg.delOrder`): every `ca.Set` follows the
                       -- nil-check of the callback whose value it stores; `handleAdd` peeks before `addFn`
  workerApi : Bool     -- `Worker.DoX` build the op they are named after, `DoGet` fast path, `asyncCall` = `AddReq` + `R()`,
                       -- `runLoop` = `PopAnyway` + `handleAsync`, the op constructors and the result cell of gas.go
  groupRouting : Bool  -- every `WorkerGrp.DoX` is `w.ws[w.locHash(k)].DoX(…)`; constructors; `Start` loops over `Worker.Start` (`Cfg.startGuard`)
  facadeShape : Bool   -- cacheex.go: FacadeMap = cache.Map with Peek = Get; FacadeLRU passes straight through with `_wrapper{v}`
  queueBodies : Bool   -- mux.Q: AddReq (closed? full? PushBack, Broadcast), PopAnyway (Front, blocks while empty and open), Close …
  cacheBodies : Bool   -- cache.Map and cache.LRUCache: the methods the facades use, whole bodies
  lockCoverage : Bool  -- every state-touching method of mux.Q, cache.Map (RLock for Get/Exist) and LRUCache is covered by its mutex
deriving DecidableEq, Repr

def Facts.expected : Facts := ⟨true, true, true, true, true, true, true⟩

/-! ### store -/

abbrev Store := List (Key × Val)

def sGet : Store → Key → Option Val
  | [], _ => none
  | (k', v) :: rest, k => if k' = k then some v else sGet rest k

def sErase : Store → Key → Store
  | [], _ => []
  | (k', v) :: rest, k => if k' = k then sErase rest k else (k', v) :: sErase rest k

def sSet (s : Store) (k : Key) (v : Val) : Store := (k, v) :: sErase s k

/-! ### cache facade -/

structure Cache where
  lru : Bool
  sized : Bool                 -- values report their own `Size()` (here: v % 3 + 1) instead of the default 1
  cap : Nat
  ents : List (Key × Val)      -- most recently used first
deriving DecidableEq, Repr

/-- `_wrapper.Size()`: the value's own `Size()` when it has one (rows of size 0, 1 or 2; the nil row has none), else 1 -/
def vsize (sized : Bool) (v : Val) : Nat := if sized && v != 0 then v % 3 else 1

/-- `checkCapacity`: entries are dropped from the back while the summed size exceeds the capacity — what stays is the
longest prefix that fits (possibly nothing, not even the entry just written) -/
def fit (sized : Bool) (cap : Nat) : Nat → List (Key × Val) → List (Key × Val)
  | _, [] => []
  | acc, e :: es => if acc + vsize sized e.2 ≤ cap then e :: fit sized cap (acc + vsize sized e.2) es else []

def cPeek (c : Cache) (k : Key) : Option Val := sGet c.ents k

def cDelete (c : Cache) (k : Key) : Cache := { c with ents := sErase c.ents k }

/-- `Get`: the LRU facade moves the entry to the front -/
def cGet (c : Cache) (k : Key) : Option Val × Cache :=
  match sGet c.ents k with
  | none => (none, c)
  | some v => (some v, if c.lru then { c with ents := (k, v) :: sErase c.ents k } else c)

/-- `Set`: (re)place at the front; the LRU facade then evicts from the back down to `cap` entries -/
def cSet (c : Cache) (k : Key) (v : Val) : Cache :=
  let e := (k, v) :: sErase c.ents k
  { c with ents := if c.lru then fit c.sized c.cap 0 e else e }

/-! ### handler context: store, the worker's cache, remaining fault bits, callbacks invoked -/

structure Ctx where
  store : Store
  cache : Cache
  faults : List Bool
  trace : List Cb
deriving DecidableEq, Repr

/-- consume one fault bit (none left = no fault) and log the callback -/
def Ctx.call (c : Ctx) (cb : Cb) : Bool × Ctx :=
  match c.faults with
  | [] => (false, { c with trace := c.trace ++ [cb] })
  | f :: fs => (f, { c with faults := fs, trace := c.trace ++ [cb] })

def callLoad (c : Ctx) (k : Key) : Except Err Val × Ctx :=
  let (f, c) := c.call .load
  if f then (.error .inj, c)
  else match sGet c.store k with
    | some v => (.ok v, c)
    | none => (.error .notFound, c)

def callAdd (c : Ctx) (k : Key) (v : Val) : Except Err Val × Ctx :=
  let (f, c) := c.call .add
  if f then (.error .inj, c)
  else match sGet c.store k with
    | some _ => (.error .exists, c)
    | none => (.ok v, { c with store := sSet c.store k v })

/-- how the store's callbacks merge data into a row: data 0 (the Go value nil) resets the row to the nil row — a callback
may legitimately hand back `(nil, nil)` for a row that exists —, any other data is added -/
def merge (e v : Val) : Val := if v = 0 then 0 else e + v

/-- update: new value = existing item handed in, merged with the data -/
def callUpd (c : Ctx) (k : Key) (v : Val) (e : Val) : Except Err Val × Ctx :=
  let (f, c) := c.call .upd
  if f then (.error .inj, c)
  else match sGet c.store k with
    | none => (.error .notFound, c)
    | some _ => (.ok (merge e v), { c with store := sSet c.store k (merge e v) })

/-- upsert: merges the data into the row. Handed the existing item (cache hit) it returns the merged row; without it
(`nil`: cache miss) it merges in the store and returns only what it was given — the partial row, as the API allows -/
def callUpsert (c : Ctx) (k : Key) (v : Val) (e : Option Val) : Except Err Val × Ctx :=
  let (f, c) := c.call .upsert
  if f then (.error .inj, c)
  else match e with
    | some e => (.ok (merge e v), { c with store := sSet c.store k (merge e v) })
    | none => (.ok v, { c with store := sSet c.store k (merge ((sGet c.store k).getD 0) v) })

def callDel (c : Ctx) (k : Key) : Except Err Unit × Ctx :=
  let (f, c) := c.call .del
  if f then (.error .inj, c)
  else (.ok (), { c with store := sErase c.store k })

def setCache (c : Ctx) (k : Key) (v : Val) : Ctx := { c with cache := cSet c.cache k v }

/-! ### the seven handlers (`worker.go`) -/

def hLoad (c : Ctx) (k : Key) : Ctx × Res :=
  match cGet c.cache k with
  | (some v, ca) => ({ c with cache := ca }, .ok v)
  | (none, ca) =>
    match callLoad { c with cache := ca } k with
    | (.error e, c) => (c, .err e)
    | (.ok v, c) => (setCache c k v, .ok v)

def hAdd (c : Ctx) (k : Key) (v : Val) : Ctx × Res :=
  match cPeek c.cache k with
  | some _ => (c, .err .dup)
  | none =>
    match callAdd c k v with
    | (.error e, c) => (c, .err e)
    | (.ok v, c) => (setCache c k v, .ok v)

def hUpdate (c : Ctx) (k : Key) (v : Val) : Ctx × Res :=
  match cPeek c.cache k with
  | some pre =>
    (match callUpd c k v pre with
     | (.error e, c) => (c, .err e)
     | (.ok nv, c) => (setCache c k nv, .ok nv))
  | none =>
    match callLoad c k with
    | (.error e, c) => (c, .err e)
    | (.ok cur, c) =>
      match callUpd c k v cur with
      | (.error e, c) => (c, .err e)
      | (.ok nv, c) => (setCache c k nv, .ok nv)

def hDelete (cfg : Cfg) (c : Ctx) (k : Key) : Ctx × Res :=
  match cfg.delOrder with
  | .cacheFirst =>
    (match callDel { c with cache := cDelete c.cache k } k with
     | (.error e, c) => (c, .err e)
     | (.ok _, c) => (c, .nil))
  | .storeFirst =>
    (match callDel c k with
     | (.error e, c) => (c, .err e)
     | (.ok _, c) => ({ c with cache := cDelete c.cache k }, .nil))
  | _ =>
    match callDel c k with
    | (.error e, c) => (c, .err e)
    | (.ok _, c) => (c, .nil)

def hUpdOrAdd (c : Ctx) (k : Key) (v : Val) : Ctx × Res :=
  match cPeek c.cache k with
  | some pre =>
    (match callUpd c k v pre with
     | (.error e, c) => (c, .err e)
     | (.ok nv, c) => (setCache c k nv, .ok nv))
  | none =>
    match callLoad c k with
    | (.error .notFound, c) =>
      (match callAdd c k v with
       | (.error e, c) => (c, .err e)
       | (.ok nv, c) => (setCache c k nv, .ok nv))
    | (.error e, c) => (c, .err e)
    | (.ok cur, c) =>
      match callUpd c k v cur with
      | (.error e, c) => (c, .err e)
      | (.ok nv, c) => (setCache c k nv, .ok nv)

def hUpsertThenLoad (c : Ctx) (k : Key) (v : Val) : Ctx × Res :=
  match cPeek c.cache k with
  | some pre =>
    (match callUpsert c k v (some pre) with
     | (.error e, c) => (c, .err e)
     | (.ok nv, c) => (setCache c k nv, .ok nv))
  | none =>
    match callUpsert c k v none with
    | (.error e, c) => (c, .err e)
    | (.ok _, c) =>
      match callLoad c k with
      | (.error e, c) => (c, .err e)
      | (.ok cur, c) => (setCache c k cur, .ok cur)

def hUpsertThenRenew (c : Ctx) (k : Key) (v : Val) : Ctx × Res :=
  match cPeek c.cache k with
  | some pre =>
    (match callUpsert c k v (some pre) with
     | (.error e, c) => (c, .err e)
     | (.ok nv, c) => (setCache c k nv, .ok nv))
  | none =>
    match callUpsert c k v none with
    | (.error e, c) => (c, .err e)
    | (.ok nv, c) => (c, .ok nv)

inductive Op
  | get (k : Key)
  | add (k : Key) (v : Val)
  | upd (k : Key) (v : Val)
  | del (k : Key)
  | uoa (k : Key) (v : Val)     -- DoUpdOrAddIfNull
  | utl (k : Key) (v : Val)     -- DoUpsertThenLoad
  | utr (k : Key) (v : Val)     -- DoUpsertThenRenewInCache
deriving DecidableEq, Repr

def Op.key : Op → Key
  | .get k => k | .add k _ => k | .upd k _ => k | .del k => k | .uoa k _ => k | .utl k _ => k | .utr k _ => k

/-- one operation on the owning worker's cache. `DoGet` first reads the cache from the caller's goroutine. -/
def handle (cfg : Cfg) (c : Ctx) : Op → Ctx × Res
  | .get k =>
    (match cGet c.cache k with
     | (some v, ca) => ({ c with cache := ca }, .ok v)
     | (none, ca) => hLoad { c with cache := ca } k)
  | .add k v => hAdd c k v
  | .upd k v => hUpdate c k v
  | .del k => hDelete cfg c k
  | .uoa k v => hUpdOrAdd c k v
  | .utl k v => hUpsertThenLoad c k v
  | .utr k v => hUpsertThenRenew c k v

/-! ### the group -/

/-- (muxSize, key) ↦ worker index: `locHash` composed with the key type's `HashedInt` — both regenerated from the
source (the oracle passes `locHash ∘ Int.HashedInt`); the model fixes neither -/
abbrev Loc := BitVec 64 → BitVec 64 → BitVec 64

/-- today's `locHash`: absolute value first, then remainder -/
def locAbsFirst (n h : BitVec 64) : BitVec 64 := (if h.slt 0#64 then -h else h).srem n
/-- repaired form -/
def locRemFirst (n h : BitVec 64) : BitVec 64 :=
  let r := h.srem n
  if r.slt 0#64 then -r else r

def LocOk (f : Loc) : Prop :=
  ∀ n h : BitVec 64, 0 < n.toInt → 0 ≤ (f n h).toInt ∧ (f n h).toInt < n.toInt

structure State where
  store : Store
  caches : List Cache
deriving DecidableEq, Repr

def State.init (lru sized : Bool) (cap workers : Nat) : State :=
  { store := [], caches := List.replicate workers ⟨lru, sized, cap, []⟩ }

/-- worker index of a key: `none` = `w.ws[w.locHash(k)]` panics -/
def workerOf (loc : Loc) (workers : Nat) (k : Key) : Option Nat :=
  let i := (loc (BitVec.ofNat 64 workers) (BitVec.ofInt 64 k)).toInt
  if 0 ≤ i ∧ i < (workers : Int) then some i.toNat else none

structure Out where
  res : Res
  trace : List Cb
deriving DecidableEq, Repr

def step (cfg : Cfg) (loc : Loc) (s : State) (inp : Op × List Bool) : State × Out :=
  match workerOf loc s.caches.length inp.1.key with
  | none => (s, ⟨.panic, []⟩)
  | some w =>
    match s.caches[w]? with
    | none => (s, ⟨.panic, []⟩)
    | some ca =>
      let r := handle cfg ⟨s.store, ca, inp.2, []⟩ inp.1
      ({ store := r.1.store, caches := s.caches.set w r.1.cache }, ⟨r.2, r.1.trace⟩)

/-- the coherence relation of the property: whatever a cache holds is what the store holds -/
def Coherent (s : State) : Prop :=
  ∀ c ∈ s.caches, ∀ k v, (k, v) ∈ c.ents → sGet s.store k = some v

/-! ### per-worker FIFO with one consumer: acceptance order = application order per key -/

structure QState where
  pending : List (List (Op × List Bool))   -- per worker, oldest first; the first `busy[w]` of them are being handled
  busy : List Nat                          -- per worker: operations taken by a consumer and not yet completed
  consumers : Nat                          -- consumer goroutines per worker (`Start` calls that took effect)
  accepted : List (Op × List Bool)         -- ghost: all accepted ops, oldest first
  applied : List (Op × List Bool)          -- ghost: all applied ops, oldest first
  st : State
deriving DecidableEq, Repr

inductive QAct
  | start                            -- `WorkerGrp.Start()`
  | enqueue (inp : Op × List Bool)   -- `asyncCall`: `workQ.AddReq`
  | take (w : Nat)                   -- a consumer of worker w: `PopAnyway` (the handler starts)
  | complete (w : Nat)               -- the oldest handler in flight on worker w finishes: its effect is applied
deriving DecidableEq, Repr

def qInit (lru sized : Bool) (cap workers : Nat) : QState :=
  { pending := List.replicate workers [], busy := List.replicate workers 0, consumers := 0,
    accepted := [], applied := [], st := State.init lru sized cap workers }

def qStep (cfg : Cfg) (loc : Loc) (q : QState) : QAct → Option QState
  | .start =>
    if q.consumers == 0 then some { q with consumers := 1 }
    else if cfg.startGuard == .once then some q
    else some { q with consumers := q.consumers + 1 }
  | .enqueue inp =>
    match workerOf loc q.st.caches.length inp.1.key with
    | none => none
    | some w =>
      match q.pending[w]? with
      | none => none
      | some l => some { q with pending := q.pending.set w (l ++ [inp]), accepted := q.accepted ++ [inp] }
  | .take w =>
    match q.pending[w]?, q.busy[w]? with
    | some l, some b => if b < q.consumers && b < l.length then some { q with busy := q.busy.set w (b + 1) } else none
    | _, _ => none
  | .complete w =>
    match q.pending[w]?, q.busy[w]? with
    | some (inp :: rest), some (b + 1) =>
      some { q with pending := q.pending.set w rest, busy := q.busy.set w b, applied := q.applied ++ [inp],
                    st := (step cfg loc q.st inp).1 }
    | _, _ => none

def qLTS (cfg : Cfg) (loc : Loc) (lru sized : Bool) (cap workers : Nat) : LTS QState QAct :=
  { init := qInit lru sized cap workers, step := qStep cfg loc }

/-- operations of worker w that are being handled right now -/
def inFlight (q : QState) (w : Nat) : List (Op × List Bool) :=
  ((q.pending[w]?).getD []).take ((q.busy[w]?).getD 0)

end Nv.C15
