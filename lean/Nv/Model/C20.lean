import Nv.Basic
/-!
C20 — model of the `tex` scalar wrappers (JSON / SQL / text forms).

Byte strings are lists of naturals (a byte is any `Nat`; digits are 48…57). The strconv
parsers are written out (left-to-right, first failure wins, overflow ⇒ `range`); each
`UnmarshalJSON` is `strip` (length guard + quote handling) followed by the type's parser.
How the quotes are handled (`StripKind`), the length guard, the parser and the element
conversion of `JsByte` are *parameters* regenerated from the source (`Nv.Gen.C20.cfg`).
-/
namespace Nv.C20

abbrev Bytes := List Nat

inductive Err
  | invalid    -- the package's own sentinel errors (ErrInvalid…Js, ErrInvalidDuration)
  | syntax     -- strconv.ErrSyntax
  | range      -- strconv.ErrRange
  | other      -- time.ParseDuration / base64 / fmt errors
  | byteRange  -- a JsByte element outside 0…255 was refused (which error value is returned is not fixed by the property)
deriving DecidableEq, Repr

inductive Res (α : Type)
  | ok (v : α)
  | err (e : Err)
  | panic            -- run-time panic (slice bounds / index out of range)
deriving DecidableEq, Repr

/-! ## strconv -/

/-- value of one digit character (`0-9`, `a-z`, `A-Z`), as in strconv.ParseUint -/
def digitVal (c : Nat) : Option Nat :=
  if 48 ≤ c ∧ c ≤ 57 then some (c - 48)
  else if 97 ≤ c ∧ c ≤ 122 then some (c - 97 + 10)
  else if 65 ≤ c ∧ c ≤ 90 then some (c - 65 + 10)
  else none

/-- the digit loop of `strconv.ParseUint(s, base, bits)`: first bad character ⇒ syntax, first overflow ⇒ range -/
def parseUintLoop (base bits : Nat) : Nat → Bytes → Res Nat
  | n, [] => .ok n
  | n, c :: cs =>
    match digitVal c with
    | none => .err .syntax
    | some d =>
      if base ≤ d then .err .syntax
      else if 2 ^ bits ≤ n * base + d then .err .range
      else parseUintLoop base bits (n * base + d) cs

def parseUint (base bits : Nat) (s : Bytes) : Res Nat :=
  match s with
  | [] => .err .syntax
  | _ => parseUintLoop base bits 0 s

/-- sign handling and the signed range test of `strconv.ParseInt` -/
def signedOf (bits : Nat) (neg : Bool) : Res Nat → Res Int
  | .err e => .err e
  | .panic => .panic
  | .ok un =>
    if neg then (if 2 ^ (bits - 1) < un then .err .range else .ok (-(un : Int)))
    else (if 2 ^ (bits - 1) ≤ un then .err .range else .ok (un : Int))

def parseInt (base bits : Nat) (s : Bytes) : Res Int :=
  match s with
  | [] => .err .syntax
  | c :: rest =>
    if c = 43 then signedOf bits false (parseUint base bits rest)
    else if c = 45 then signedOf bits true (parseUint base bits rest)
    else signedOf bits false (parseUint base bits s)

/-- `strconv.Atoi` on a 64-bit platform (its fast path agrees with `ParseInt(s, 10, 64)`) -/
def atoi (s : Bytes) : Res Int := parseInt 10 64 s

/-- digit character of a value < 36 (lower case, as strconv.Format*) -/
def digitChar (d : Nat) : Nat := if d < 10 then 48 + d else 97 + (d - 10)

/-- most-significant-first digits; `fuel` bounds the number of digits -/
def digitsFuel (base : Nat) : Nat → Nat → Bytes
  | 0, _ => []
  | f + 1, n => if n < base then [digitChar n] else digitsFuel base f (n / base) ++ [digitChar (n % base)]

/-- `strconv.FormatUint(n, base)` for n < 2^64 (64 digits always suffice) -/
def fmtNat (base n : Nat) : Bytes := digitsFuel base 64 n

/-- `strconv.FormatInt(i, base)` -/
def fmtInt (base : Nat) (i : Int) : Bytes :=
  if i < 0 then 45 :: fmtNat base (-i).toNat else fmtNat base i.toNat

/-! ## quote handling of the JSON wrappers -/

inductive StripKind
  | checkedBare     -- `if b[0]=='"' && b[lb-1]=='"' { strip } else { parse b as it is }`   (JsInt64)
  | checkedOnly     -- `if b[0]!='"' || b[lb-1]!='"' { return Err… }` then strip
  | unconditional   -- `b[1:lb-1]` without looking at the bytes
  | unknown
deriving DecidableEq, Repr

inductive Parser
  | atoi | parseUint64 | parseDuration | fromString | unknown
deriving DecidableEq, Repr

/-- one `UnmarshalJSON`: its guard (`len(b) < minLen` ⇒ sentinel error), quote handling, whether
    an empty quoted string is answered `0`/`nil` before parsing, and the parser called -/
structure Wrap where
  kind : StripKind
  minLen : Nat
  emptyZero : Bool
  parser : Parser
deriving DecidableEq, Repr

inductive Stripped
  | quoted (inner : Bytes)
  | bare (b : Bytes)
  | invalid
  | panic
deriving DecidableEq, Repr

def quote : Nat := 34

/-- `b[1 : len(b)-1]` -/
def inner (b : Bytes) : Bytes := (b.drop 1).dropLast

def isQuoted (b : Bytes) : Bool := decide (b.head? = some quote ∧ b.getLast? = some quote)

def strip (w : Wrap) (b : Bytes) : Stripped :=
  if b.length < w.minLen then .invalid
  else match w.kind with
    | .unconditional => if b.length < 2 then .panic else .quoted (inner b)
    | .checkedBare =>
      if b.length = 0 then .panic
      else if isQuoted b then (if b.length < 2 then .panic else .quoted (inner b))
      else .bare b
    | .checkedOnly =>
      if b.length = 0 then .panic
      else if isQuoted b then (if b.length < 2 then .panic else .quoted (inner b))
      else .invalid
    | .unknown => .invalid

/-! ## the integer wrappers -/

def toIntRes : Res Nat → Res Int
  | .ok n => .ok (n : Int)
  | .err e => .err e
  | .panic => .panic

/-- the scalar parsers a wrapper may call (decimal only) -/
def runParser (p : Parser) (s : Bytes) : Res Int :=
  match p with
  | .atoi => atoi s
  | .parseUint64 => toIntRes (parseUint 10 64 s)
  | _ => .err .other

/-- generic integer `UnmarshalJSON` -/
def decodeInt (w : Wrap) (b : Bytes) : Res Int :=
  match strip w b with
  | .invalid => .err .invalid
  | .panic => .panic
  | .bare s => runParser w.parser s
  | .quoted s => if w.emptyZero && s.isEmpty then .ok 0 else runParser w.parser s

def encodeInt (v : Int) : Bytes := quote :: (fmtInt 10 v ++ [quote])
def encodeNat (v : Nat) : Bytes := quote :: (fmtNat 10 v ++ [quote])

/-! ## JsByte -/

inductive ByteConv
  | wrap           -- `byte(t)`: the low 8 bits
  | rangeChecked   -- values outside 0…255 are an error
  | unknown
deriving DecidableEq, Repr

/-- `strings.Split(s, "/")` : always at least one piece -/
def splitSlash : Bytes → List Bytes
  | [] => [[]]
  | c :: cs =>
    if c = 47 then [] :: splitSlash cs
    else match splitSlash cs with
      | [] => [[c]]
      | p :: ps => (c :: p) :: ps

def convByte (k : ByteConv) (t : Int) : Res Nat :=
  match k with
  | .wrap => .ok (t % 256).toNat
  | .rangeChecked => if 0 ≤ t ∧ t ≤ 255 then .ok t.toNat else .err .byteRange
  | .unknown => .err .other

def convPieces (k : ByteConv) : List Bytes → Res (List Nat)
  | [] => .ok []
  | p :: ps =>
    match atoi p with
    | .err e => .err e
    | .panic => .panic
    | .ok t =>
      match convByte k t with
      | .err e => .err e
      | .panic => .panic
      | .ok x =>
        match convPieces k ps with
        | .ok xs => .ok (x :: xs)
        | r => r

/-- `(*JsByte).FromString` -/
def fromString (k : ByteConv) (s : Bytes) : Res (List Nat) :=
  if s.isEmpty then .ok [] else convPieces k (splitSlash s)

def joinSlash : List Bytes → Bytes
  | [] => []
  | [p] => p
  | p :: q :: ps => p ++ 47 :: joinSlash (q :: ps)

/-- `JsByte.ToJS` -/
def toJS (l : List Nat) : Bytes := joinSlash (l.map (fmtNat 10))

def encodeBytes (l : List Nat) : Bytes := quote :: (toJS l ++ [quote])

def decodeBytes (w : Wrap) (k : ByteConv) (b : Bytes) : Res (List Nat) :=
  if w.parser ≠ .fromString then .err .other else
  match strip w b with
  | .invalid => .err .invalid
  | .panic => .panic
  | .bare s => fromString k s
  | .quoted s => fromString k s

/-! ## time.Duration text form -/

def isDig (c : Nat) : Bool := 48 ≤ c && c ≤ 57

/-- `leadingInt`: consumes `[0-9]*`; `none` on overflow past 2^63 -/
def leadingInt : Nat → Bytes → Option (Nat × Bytes)
  | x, [] => some (x, [])
  | x, c :: cs =>
    if isDig c then
      if 2 ^ 63 / 10 < x then none
      else if 2 ^ 63 < x * 10 + (c - 48) then none
      else leadingInt (x * 10 + (c - 48)) cs
    else some (x, c :: cs)

/-- `leadingFraction`: value, scale (a power of ten), rest; stops accumulating on overflow -/
def leadingFraction : Nat → Nat → Bool → Bytes → Nat × Nat × Bytes
  | x, sc, _, [] => (x, sc, [])
  | x, sc, ovf, c :: cs =>
    if isDig c then
      if ovf then leadingFraction x sc true cs
      else if (2 ^ 63 - 1) / 10 < x then leadingFraction x sc true cs
      else if 2 ^ 63 < x * 10 + (c - 48) then leadingFraction x sc true cs
      else leadingFraction (x * 10 + (c - 48)) (sc * 10) false cs
    else (x, sc, c :: cs)

def unitOf (u : Bytes) : Option Nat :=
  if u = [110, 115] then some 1                       -- ns
  else if u = [117, 115] then some 1000               -- us
  else if u = [194, 181, 115] then some 1000          -- µs (U+00B5)
  else if u = [206, 188, 115] then some 1000          -- μs (U+03BC)
  else if u = [109, 115] then some 1000000            -- ms
  else if u = [115] then some 1000000000              -- s
  else if u = [109] then some 60000000000             -- m
  else if u = [104] then some 3600000000000           -- h
  else none

def spanUnit : Bytes → Bytes × Bytes
  | [] => ([], [])
  | c :: cs =>
    if c = 46 || isDig c then ([], c :: cs)
    else let r := spanUnit cs; (c :: r.1, r.2)

/-- the optional `.[0-9]*` after the integer part: (f, scale, rest, some digit consumed) -/
def fractionPart (s1 : Bytes) : Nat × Nat × Bytes × Bool :=
  match s1 with
  | 46 :: t => let r := leadingFraction 0 1 false t; (r.1, r.2.1, r.2.2, r.2.2.length != t.length)
  | _ => (0, 1, s1, false)

/-- one `[0-9]*(\.[0-9]*)?[unit]` component of `time.ParseDuration`: its value in ns and the rest.
    The fractional contribution is exact integer arithmetic here (Go computes it in float64 — equal
    whenever the fraction has no more digits than the unit resolves, which is all `Duration.String`
    ever prints) -/
def startsNum : Bytes → Bool
  | [] => false
  | c :: _ => c = 46 || isDig c

def parseComponent (s : Bytes) : Option (Nat × Bytes) :=
  if !startsNum s then none
  else match leadingInt 0 s with
    | none => none
    | some (v, s1) =>
      let fr := fractionPart s1
      if !(s1.length != s.length) && !fr.2.2.2 then none
      else
        let us := spanUnit fr.2.2.1
        if us.1.isEmpty then none
        else match unitOf us.1 with
          | none => none
          | some unit =>
            if 2 ^ 63 / unit < v then none
            else
              let v2 := if 0 < fr.1 then v * unit + fr.1 * unit / fr.2.1 else v * unit
              if 0 < fr.1 ∧ 2 ^ 63 < v2 then none else some (v2, us.2)

/-- the `for s != ""` loop of `time.ParseDuration`; `d += v` is a uint64 addition: 2^63 + 2^63 wraps
    to 0 and passes the overflow test (as in Go) -/
def parseDurLoop : Nat → Nat → Bytes → Option Nat
  | 0, _, _ => none
  | _ + 1, d, [] => some d
  | fuel + 1, d, c :: cs =>
    match parseComponent (c :: cs) with
    | none => none
    | some (v, rest) =>
      let d' := (d + v) % 2 ^ 64
      if 2 ^ 63 < d' then none else parseDurLoop fuel d' rest

/-- consume `[-+]?` -/
def splitSign (s : Bytes) : Bool × Bytes :=
  match s with
  | 45 :: r => (true, r)
  | 43 :: r => (false, r)
  | _ => (false, s)

/-- `time.ParseDuration` -/
def parseDuration (s : Bytes) : Res Int :=
  let neg := (splitSign s).1
  let t := (splitSign s).2
  if t = [48] then .ok 0
  else if t.isEmpty then .err .other
  else match parseDurLoop (t.length + 1) 0 t with
    | none => .err .other
    | some d =>
      if neg then .ok (-(d : Int))
      else if 2 ^ 63 - 1 < d then .err .other
      else .ok (d : Int)

/-- `fmtFrac`: `.ddd` of v mod 10^prec without trailing zeros (nothing when zero) -/
def fracDigits : Nat → Nat → Bytes
  | 0, _ => []
  | p + 1, v => if v % 10 ^ (p + 1) = 0 then [] else digitChar (v / 10 ^ p % 10) :: fracDigits p v

def fmtFrac (prec v : Nat) : Bytes :=
  if v % 10 ^ prec = 0 then [] else 46 :: fracDigits prec v

/-- `time.Duration.String` on the magnitude -/
def durMag (u : Nat) : Bytes :=
  if u = 0 then [48, 115]
  else if u < 1000 then fmtNat 10 u ++ [110, 115]
  else if u < 1000000 then fmtNat 10 (u / 1000) ++ fmtFrac 3 u ++ [194, 181, 115]
  else if u < 1000000000 then fmtNat 10 (u / 1000000) ++ fmtFrac 6 u ++ [109, 115]
  else
    let secs := u / 1000000000
    let sPart := fmtNat 10 (secs % 60) ++ fmtFrac 9 u ++ [115]
    let mins := secs / 60
    if mins = 0 then sPart
    else
      let mPart := fmtNat 10 (mins % 60) ++ [109]
      let hrs := mins / 60
      if hrs = 0 then mPart ++ sPart else fmtNat 10 hrs ++ [104] ++ mPart ++ sPart

def durString (d : Int) : Bytes := if d < 0 then 45 :: durMag (-d).toNat else durMag d.toNat

def encodeDur (d : Int) : Bytes := quote :: (durString d ++ [quote])

def decodeDur (w : Wrap) (b : Bytes) : Res Int :=
  if w.parser ≠ .parseDuration then .err .other else
  match strip w b with
  | .invalid => .err .invalid
  | .panic => .panic
  | .bare s => parseDuration s
  | .quoted s => parseDuration s

/-! ## base64.RawStdEncoding -/

def b64Char (v : Nat) : Nat :=
  if v < 26 then 65 + v else if v < 52 then 97 + (v - 26) else if v < 62 then 48 + (v - 52)
  else if v = 62 then 43 else 47

def b64Val (c : Nat) : Option Nat :=
  if 65 ≤ c ∧ c ≤ 90 then some (c - 65)
  else if 97 ≤ c ∧ c ≤ 122 then some (c - 97 + 26)
  else if 48 ≤ c ∧ c ≤ 57 then some (c - 48 + 52)
  else if c = 43 then some 62
  else if c = 47 then some 63
  else none

def b64Encode : Bytes → Bytes
  | [] => []
  | [a] => [b64Char (a / 4), b64Char (a % 4 * 16)]
  | [a, b] => [b64Char (a / 4), b64Char (a % 4 * 16 + b / 16), b64Char (b % 16 * 4)]
  | a :: b :: c :: rest =>
    b64Char (a / 4) :: b64Char (a % 4 * 16 + b / 16) :: b64Char (b % 16 * 4 + c / 64) :: b64Char (c % 64) ::
      b64Encode rest

/-- decode a list of 6-bit values (no padding, trailing bits ignored as in the non-strict decoder) -/
def b64Groups : List Nat → Option Bytes
  | [] => some []
  | [_] => none
  | [p, q] => some [p * 4 + q / 16]
  | [p, q, r] => some [p * 4 + q / 16, q % 16 * 16 + r / 4]
  | p :: q :: r :: s :: rest =>
    match b64Groups rest with
    | none => none
    | some t => some ((p * 4 + q / 16) :: (q % 16 * 16 + r / 4) :: (r % 4 * 64 + s) :: t)

def mapVals : Bytes → Option (List Nat)
  | [] => some []
  | c :: cs =>
    match b64Val c, mapVals cs with
    | some v, some vs => some (v :: vs)
    | _, _ => none

/-- `base64.RawStdEncoding.DecodeString` (CR / LF are skipped by the decoder) -/
def b64Decode (s : Bytes) : Res Bytes :=
  match mapVals (s.filter (fun c => c != 10 && c != 13)) with
  | none => .err .other
  | some vs =>
    match b64Groups vs with
    | none => .err .other
    | some bs => .ok bs

/-! ## time.Time as an instant -/

/-- a `time.Time` seen as an instant: unix seconds and the nanoseconds within the second -/
structure Time where
  sec : Int
  nsec : Nat
deriving DecidableEq, Repr

/-- `time.Time{}` (January 1, year 1) -/
def Time.zero : Time := ⟨-62135596800, 0⟩

/-- two's-complement wrap of an integer into int64 -/
def wrapI64 (x : Int) : Int := (x + 2 ^ 63) % 2 ^ 64 - 2 ^ 63

/-- `t.UnixNano()`: int64 arithmetic, so it wraps outside 1678…2262 -/
def Time.unixNano (t : Time) : Int := wrapI64 (t.sec * 1000000000 + t.nsec)

/-- the instant is representable as int64 nanoseconds -/
def Time.FitsNano (t : Time) : Prop := -(2 ^ 63 : Int) ≤ t.sec * 1000000000 + t.nsec ∧ t.sec * 1000000000 + (t.nsec : Int) < 2 ^ 63
instance (t : Time) : Decidable t.FitsNano := by unfold Time.FitsNano; exact inferInstance

/-- `time.Unix(sec, nsec)` (normalises nsec into [0, 1e9)) -/
def timeUnix (sec nsec : Int) : Time := ⟨sec + nsec / 1000000000, (nsec % 1000000000).toNat⟩

def mapRes {α β : Type} (f : α → β) : Res α → Res β
  | .ok v => .ok (f v)
  | .err e => .err e
  | .panic => .panic

/-- JsNanoTime / JsUnixTime on instants -/
def encodeNanoTime (t : Time) : Bytes := encodeInt t.unixNano
def decodeNanoTime (w : Wrap) (b : Bytes) : Res Time := mapRes (timeUnix 0) (decodeInt w b)
def encodeUnixTime (t : Time) : Bytes := encodeInt t.sec
def decodeUnixTime (w : Wrap) (b : Bytes) : Res Time := mapRes (fun v => timeUnix v 0) (decodeInt w b)

/-! ## SQL forms -/

/-- dynamic values a driver hands to `Scan` (driver.Value kinds plus the integer kinds the code switches on) -/
inductive SqlVal
  | i32 (v : Int) | u32 (v : Nat) | i64 (v : Int) | u64 (v : Nat) | int (v : Int) | uint (v : Nat)
  | f64 (whole : Int) | bool (b : Bool) | bytes (s : Bytes) | str (s : Bytes)
  | time (t : Time)
  | null
deriving DecidableEq, Repr

/-- `int64(v)` of a uint64 -/
def wrap64 (v : Nat) : Int := if v % 2 ^ 64 < 2 ^ 63 then (v % 2 ^ 64 : Nat) else ((v % 2 ^ 64 : Nat) : Int) - 2 ^ 64

/-- how `UnixNano2Time.Scan` / `Unix2Time.Scan` turn the dynamic value into `ts` -/
inductive ScanShape
  | legacy   -- a type switch over six integer kinds without default: everything else is 0 with a nil error, uint64 wraps
  | strict   -- `scanInt64`: integers in range, decimal text parsed exactly, nil ⇒ 0, anything else an error
  | unknown
deriving DecidableEq, Repr

def scanInt (sh : ScanShape) (v : SqlVal) : Res Int :=
  match sh with
  | .legacy =>
    match v with
    | .i32 x | .i64 x | .int x => .ok x
    | .u32 x => .ok x
    | .u64 x | .uint x => .ok (wrap64 x)
    | _ => .ok 0
  | .strict =>
    match v with
    | .null => .ok 0
    | .i32 x | .i64 x | .int x => .ok x
    | .u32 x => .ok x
    | .u64 x | .uint x => if 2 ^ 63 ≤ x then .err .other else .ok x
    | .bytes s | .str s => parseInt 10 64 s
    | _ => .err .other
  | .unknown => .err .other

/-- `UnixNano2Time.Scan` / `Unix2Time.Scan` -/
def scanNano (sh : ScanShape) (v : SqlVal) : Res Time := mapRes (timeUnix 0) (scanInt sh v)
def scanUnix (sh : ScanShape) (v : SqlVal) : Res Time := mapRes (fun ts => timeUnix ts 0) (scanInt sh v)

/-- `UnixStamp.Scan` / `SQLTime2Unix.Scan` -/
inductive StampScan
  | legacy   -- `if t, ok := value.(time.Time); ok { … }`: anything else is ignored with a nil error
  | strict   -- nil keeps the value, a time sets it, anything else is an error
  | unknown
deriving DecidableEq, Repr

def scanStamp (sh : StampScan) (old : Int) (v : SqlVal) : Res Int :=
  match sh with
  | .legacy => match v with | .time t => .ok t.sec | _ => .ok old
  | .strict => match v with | .time t => .ok t.sec | .null => .ok old | _ => .err .other
  | .unknown => .err .other

/-! ## tex.ToString / MapVal2String / ToStringList on the integer kinds (JsInt64, JsUInt64, int64, uint64, int, uint, Duration) -/

inductive ToStrShape
  | viaInt    -- every integer kind goes through `int(v)` and `strconv.Itoa`: a uint64 above MaxInt64 prints as a negative number
  | exact     -- unsigned 64-bit kinds are printed with `FormatUint`, the others with `Itoa`
  | unknown
deriving DecidableEq, Repr

/-- the text `tex.ToString` produces for an integer value `v` (−2^63 ≤ v < 2^64) -/
def toStrNum (sh : ToStrShape) (v : Int) : Bytes :=
  match sh with
  | .viaInt => fmtInt 10 (wrapI64 v)
  | .exact => fmtInt 10 v
  | .unknown => []

/-! ## configuration regenerated from the source -/

structure Cfg where
  i64 : Wrap
  u64 : Wrap
  byte : Wrap
  unixTime : Wrap
  nanoTime : Wrap
  stamp : Wrap
  dur : Wrap
  byteConv : ByteConv
  scanInt : ScanShape
  scanStamp : StampScan
  toStr : ToStrShape
deriving DecidableEq, Repr

/-- facts the model is written against (compared with `expected` in the tie) -/
structure Facts where
  marshalQuotedDecimal : Bool   -- every integer MarshalJSON is `"` + Format{Int,Uint}(v, 10) + `"`
  durMarshalQuotedString : Bool -- Duration.MarshalJSON is `"` + String() + `"`
  byteMarshalQuotedToJS : Bool  -- JsByte.MarshalJSON is `"` + ToJS() + `"`, ToJS joins Itoa(elem) with "/"
  byteSplitSlash : Bool         -- FromString: empty ⇒ nil; strings.Split(s, "/"); Atoi per element
  hexBases : Bool               -- I64Hex/U64Hex/HexI64/HexU64 base 16, …V2 base 32, bitSize 64
  base64RawStd : Bool           -- Base64Bytes uses base64.RawStdEncoding both ways
  sqlScanValue : Bool           -- Value bodies and what Scan does with `ts` (time.Unix(0, ts) / time.Unix(ts, 0) / t.Unix())
  durToml : Bool                -- Duration.UnmarshalTOML: non-string ⇒ ErrInvalidDuration, else time.ParseDuration(s)
  durGetter : Bool              -- Duration.Duration() is `time.Duration(i)`
  byteToString : Bool           -- JsByte.ToString is splitBuilder().String()
deriving DecidableEq, Repr

def Facts.expected : Facts := ⟨true, true, true, true, true, true, true, true, true, true⟩

def Wrap.Checked (w : Wrap) : Prop := w.kind = .checkedBare ∨ w.kind = .checkedOnly
instance (w : Wrap) : Decidable w.Checked := by unfold Wrap.Checked; exact inferInstance

/-- configurations for which the property theorems are proved: every wrapper looks at the quotes
    before slicing, calls the expected parser, its length guard does not reject the shortest
    encoder output, JsByte range-checks its elements, the SQL scanners refuse what they cannot convert, and the empty input is
    rejected before any byte is indexed -/
def Proved (c : Cfg) : Prop :=
  c.i64.Checked ∧ c.u64.Checked ∧ c.byte.Checked ∧ c.unixTime.Checked ∧ c.nanoTime.Checked ∧
  c.stamp.Checked ∧ c.dur.Checked ∧
  c.i64.parser = .atoi ∧ c.u64.parser = .parseUint64 ∧ c.byte.parser = .fromString ∧
  c.unixTime.parser = .atoi ∧ c.nanoTime.parser = .atoi ∧ c.stamp.parser = .atoi ∧
  c.dur.parser = .parseDuration ∧ c.byteConv = .rangeChecked ∧
  c.i64.minLen ≤ 3 ∧ c.u64.minLen ≤ 3 ∧ c.unixTime.minLen ≤ 3 ∧ c.nanoTime.minLen ≤ 3 ∧ c.stamp.minLen ≤ 3 ∧
  c.byte.minLen ≤ 2 ∧ c.dur.minLen ≤ 4 ∧
  c.scanInt = .strict ∧ c.scanStamp = .strict ∧
  1 ≤ c.i64.minLen ∧ 1 ≤ c.u64.minLen ∧ 1 ≤ c.unixTime.minLen ∧ 1 ≤ c.nanoTime.minLen ∧ 1 ≤ c.stamp.minLen ∧
  c.toStr = .exact
instance : DecidablePred Proved := fun c => by unfold Proved; exact inferInstance

/-- today's tree (before the repairs) -/
def Cfg.today : Cfg :=
  { i64 := ⟨.checkedBare, 1, true, .atoi⟩, u64 := ⟨.unconditional, 3, false, .parseUint64⟩,
    byte := ⟨.unconditional, 2, false, .fromString⟩, unixTime := ⟨.unconditional, 3, false, .atoi⟩,
    nanoTime := ⟨.unconditional, 3, false, .atoi⟩, stamp := ⟨.unconditional, 3, false, .atoi⟩,
    dur := ⟨.unconditional, 3, false, .parseDuration⟩, byteConv := .wrap, scanInt := .legacy, scanStamp := .legacy, toStr := .viaInt }

/-- the repaired tree -/
def Cfg.repaired : Cfg :=
  { i64 := ⟨.checkedBare, 1, true, .atoi⟩, u64 := ⟨.checkedOnly, 3, false, .parseUint64⟩,
    byte := ⟨.checkedOnly, 2, false, .fromString⟩, unixTime := ⟨.checkedOnly, 3, false, .atoi⟩,
    nanoTime := ⟨.checkedOnly, 3, false, .atoi⟩, stamp := ⟨.checkedOnly, 3, false, .atoi⟩,
    dur := ⟨.checkedOnly, 3, false, .parseDuration⟩, byteConv := .rangeChecked, scanInt := .strict, scanStamp := .strict, toStr := .exact }

end Nv.C20
