import Nv.Basic
/-!
C18 — model of `store/gormx.Transact` and `Combine`.

Inputs are *outcomes*: whether begin/commit/rollback succeed and what each step does.
Output is the list of driver-visible events and the error returned to the caller.
The `defer`/`recover` logic of the Go function is written out; how a panic is detected
is a parameter (`Cfg`) regenerated from the source (`Nv.Gen.C18.cfg`).
-/
namespace Nv.C18

inductive StepOutcome
  | ok
  | err (e : Nat)          -- returns a non-nil error, identified by a number
  | panic (v : Nat)        -- panics with a non-nil value
  | panicNil               -- panic(nil)
deriving DecidableEq, Repr

inductive Event | begin | step (i : Nat) | commit | rollback
deriving DecidableEq, Repr

inductive Result
  | nil
  | stepErr (e : Nat)
  | panicErr (v : Option Nat)   -- "db.transaction.panic:<v>"; none for panic(nil)
  | beginErr
  | commitErr
deriving DecidableEq, Repr

/-- how the deferred function learns that a step panicked -/
inductive Detect
  | recoverNonNil   -- `if recover() != nil` — misses panic(nil) when the main module's go version < 1.21
  | finishedFlag    -- a flag set after the loop; not reaching it means a step panicked
  | unknown
deriving DecidableEq, Repr

structure Cfg where
  detect : Detect
  /-- `recover()` returns nil for `panic(nil)`: main module `go` directive < 1.21 (GODEBUG panicnil=1) -/
  panicNilRecoversNil : Bool
deriving DecidableEq, Repr

/-- shape facts of `Transact` the model is written against (regenerated, compared with `expected`) -/
structure Facts where
  emptyReturnsBeforeBegin : Bool   -- `if len(fnList) == 0 { return }` precedes `db.Begin()`
  beginErrReturns : Bool           -- `if err = txn.Error; err != nil { return }` before the defer is installed
  loopReturnsOnErr : Bool          -- `if err = fn(txn); err != nil { return }` in the range loop
  deferRollbackOnErr : Bool        -- deferred: `if err != nil { txn.Rollback(); return }`
  deferCommitOtherwise : Bool      -- deferred, last: `err = txn.Commit().Error`
  combineReturnsOnErr : Bool       -- `Combine`: loop returns the first non-nil error
deriving DecidableEq, Repr

def Facts.expected : Facts := ⟨true, true, true, true, true, true⟩

/-- configurations for which the property theorems are proved -/
/-  `recover() != nil` is correct only when `recover()` never returns nil for `panic(nil)`; that is decided by the
    *application* (its go directive, or GODEBUG=panicnil=1), not by the library, so it is not in the proved set. -/
def Proved (c : Cfg) : Prop := c.detect = .finishedFlag
instance : DecidablePred Proved := fun c => by unfold Proved; exact inferInstance

/-- state of the loop when the deferred function starts -/
inductive LoopEnd
  | completed
  | failed (e : Nat)
  | panicked (v : Option Nat)
deriving DecidableEq, Repr

/-- the `for _, fn := range fnList` loop: events, and how it ended -/
def runSteps : Nat → List StepOutcome → List Event × LoopEnd
  | _, [] => ([], .completed)
  | i, .ok :: rest => let r := runSteps (i+1) rest; (.step i :: r.1, r.2)
  | i, .err e :: _ => ([.step i], .failed e)
  | i, .panic v :: _ => ([.step i], .panicked (some v))
  | i, .panicNil :: _ => ([.step i], .panicked none)

/-- does the deferred function see the panic? -/
def seesPanic (c : Cfg) : Option Nat → Bool
  | some _ => true
  | none => match c.detect with
    | .finishedFlag => true
    | _ => !c.panicNilRecoversNil

/-- the deferred function -/
def finish (c : Cfg) (commitOk : Bool) : LoopEnd → List Event × Result
  | .completed => ([.commit], if commitOk then .nil else .commitErr)
  | .failed e => ([.rollback], .stepErr e)
  | .panicked v =>
    if seesPanic c v then ([.rollback], .panicErr v)
    else ([.commit], if commitOk then .nil else .commitErr)

def transact (c : Cfg) (beginOk commitOk : Bool) (steps : List StepOutcome) : List Event × Result :=
  match steps with
  | [] => ([], .nil)
  | _ =>
    if !beginOk then ([.begin], .beginErr)
    else
      let l := runSteps 0 steps
      let f := finish c commitOk l.2
      (.begin :: (l.1 ++ f.1), f.2)

/-- `Combine`: one step that runs the functions in order and stops at the first failure -/
def combine : List StepOutcome → StepOutcome
  | [] => .ok
  | .ok :: rest => combine rest
  | o :: _ => o

/-- number of functions `Combine` invokes: up to and including the first failing one -/
def combineRan : List StepOutcome → Nat
  | [] => 0
  | .ok :: rest => 1 + combineRan rest
  | _ :: _ => 1

def isOk : StepOutcome → Bool
  | .ok => true
  | _ => false

def allOk (l : List StepOutcome) : Bool := l.all isOk

/-- leaf functions invoked by `Combine(Combine(g₁…), Combine(g₂…), …)`: a group contributes the leaves it ran, and the
    outer loop stops after the first group that failed -/
def nestedRan : List (List StepOutcome) → Nat
  | [] => 0
  | g :: rest => if isOk (combine g) then combineRan g + nestedRan rest else combineRan g

end Nv.C18
