import Nv.Props.C09
import Nv.Gen.C09
import Nv.Gen.C08
/-! C09 — obligations on the definitions regenerated from /repo's current source (`c09 extract` regenerates both
`Nv/Gen/C09.lean` and `Nv/Gen/C08.lean`, because the C09 theorems are built on the C08 bitmap model). -/
namespace Nv.C09
open Nv.Gen.C09

/-- fails when `BigU32.IterAsI64/RIterAsI64` multiply in `uint32` (F07), when `U32BitTip.getNAsU32` dispatches the wrong
    way round (F08), or when any behaviour-selecting fact is `.unknown` / a constant has another value -/
theorem tie_cfg_proved : Proved cfg := by decide
theorem tie_facts : facts = Facts.expected := by decide

/-! the C08 facts and kernels the C09 theorems depend on (iterator shapes behind `iter1024_spec`, `SetI16` index
arithmetic and `Bit64.Set` behind `setI16_spec`, the `u64Tab` initialisation), re-checked by every C09 run -/
theorem tie_c08_cfg : Nv.Gen.C08.cfg = cfg.base := by decide
theorem tie_c08_facts : Nv.Gen.C08.facts = Nv.C08.Facts.expected := by decide
theorem tie_c08_set64 (i : BitVec 8) (b : BitVec 64) (j : Nat) :
    (Nv.Gen.C08.bit64_set i b).getLsbD j = (b.getLsbD j || (decide (i.toNat ≤ 63) && decide (i.toNat = j))) := by
  first
  | exact Nv.C08.set64_spec b i j
  | (have h63 : (63#8 : BitVec 8).toNat = 63 := rfl
     have h64 : (64#8 : BitVec 8).toNat = 64 := rfl
     simp only [Nv.Gen.C08.bit64_set, BitVec.ule_eq_decide, BitVec.ult_eq_decide, h63, h64]
     by_cases h : i.toNat ≤ 63
     · have h' : i.toNat < 64 := by omega
       simp only [h, h', decide_true, if_true, Bool.true_and]
       exact Nv.C08.getLsbD_setbit b i.toNat j h'
     · have h' : ¬ i.toNat < 64 := by omega
       simp [h, h'])
theorem tie_c08_setI16_sel (i : BitVec 16) :
    (0 ≤ i.toInt ∧ i.toInt < 1024 →
      (Nv.Gen.C08.setI16_sel i).1 = true ∧ (Nv.Gen.C08.setI16_sel i).2.1.toNat = i.toInt.toNat / 64 ∧
      (Nv.Gen.C08.setI16_sel i).2.2.toNat = i.toInt.toNat % 64) ∧
    (¬(0 ≤ i.toInt ∧ i.toInt < 1024) → (Nv.Gen.C08.setI16_sel i).1 = false ∨ 63 < (Nv.Gen.C08.setI16_sel i).2.2.toNat) :=
  Nv.C08.selI16_spec i

/-! the regenerated kernels are the functions the model is about -/
theorem twoPow10 : BitVec.twoPow 64 10 = 1024#64 := by decide

theorem tie_big_offset (s : BitVec 32) : bigU32_iterOffset s = bigOffset cfg false s := by
  first
  | rfl
  | (simp [bigU32_iterOffset, bigOffset, offsetOf, cfg, BitVec.mul_comm]; done)
  | (simp [bigU32_iterOffset, bigOffset, offsetOf, cfg]
     rw [BitVec.shiftLeft_eq_mul_twoPow, twoPow10])
theorem tie_big_roffset (s : BitVec 32) : bigU32_rIterOffset s = bigOffset cfg true s := by
  first
  | rfl
  | (simp [bigU32_rIterOffset, bigOffset, offsetOf, cfg, BitVec.mul_comm]; done)
  | (simp [bigU32_rIterOffset, bigOffset, offsetOf, cfg]
     rw [BitVec.shiftLeft_eq_mul_twoPow, twoPow10])
theorem tie_tip_offset (s : BitVec 32) : u32BitTip_iterOffset s = s * BitVec.ofNat 32 cfg.c1k := by
  first | rfl | (simp [u32BitTip_iterOffset, cfg, BitVec.mul_comm]; done)
theorem tie_tip_roffset (s : BitVec 32) : u32BitTip_rIterOffset s = s * BitVec.ofNat 32 cfg.c1k := by
  first | rfl | (simp [u32BitTip_rIterOffset, cfg, BitVec.mul_comm]; done)
theorem tie_selI64_new (v : BitVec 64) : newBigU32FromI64_sel v = selI64 v := rfl
theorem tie_selI64_set (v : BitVec 64) : bigU32SetI64_sel v = selI64 v := rfl
theorem tie_selU32_new (u : BitVec 32) : newU32BitTipFromU32_sel u = selU32 u := rfl
theorem tie_selU32_set (u : BitVec 32) : u32BitTipSetU32_sel u = selU32 u := rfl
theorem tie_maxTipStart : Nv.Gen.C09.maxTipStart = Nv.C09.maxTipStart := rfl

/-! property theorems stated directly on the regenerated kernels -/

/-- regenerated arithmetic of `NewBigU32FromI64`: accepted exactly on the documented range, start = v/1024, bit = v%1024 -/
theorem tie_newBigU32FromI64_sel_spec (v : BitVec 64) :
    (0 ≤ v.toInt ∧ v.toInt < 4398046510080 →
      (newBigU32FromI64_sel v).1 = true ∧ (newBigU32FromI64_sel v).2.1.toNat = v.toInt.toNat / 1024 ∧
      (newBigU32FromI64_sel v).2.2.toInt = ((v.toInt.toNat % 1024 : Nat) : Int)) ∧
    (¬(0 ≤ v.toInt ∧ v.toInt < 4398046510080) → (newBigU32FromI64_sel v).1 = false) := selI64_spec v

/-- regenerated block base of `BigU32.IterAsI64`: `Start·1024` without wrap-around, proved on the kernel itself for a
    product in either order or a shift by 10 (false for a `uint32` product) -/
theorem tie_big_offset_exact (s : BitVec 32) : (bigU32_iterOffset s).toNat = s.toNat * 1024 := by
  have := s.isLt
  first
  | (simp only [bigU32_iterOffset, BitVec.toNat_mul, BitVec.toNat_setWidth, BitVec.toNat_ofNat]; omega)
  | (simp [bigU32_iterOffset, BitVec.toNat_shiftLeft, Nat.shiftLeft_eq]; omega)

theorem tie_big_roffset_exact (s : BitVec 32) : (bigU32_rIterOffset s).toNat = s.toNat * 1024 := by
  have := s.isLt
  first
  | (simp only [bigU32_rIterOffset, BitVec.toNat_mul, BitVec.toNat_setWidth, BitVec.toNat_ofNat]; omega)
  | (simp [bigU32_rIterOffset, BitVec.toNat_shiftLeft, Nat.shiftLeft_eq]; omega)

end Nv.C09
