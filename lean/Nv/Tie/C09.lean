import Nv.Model.C09
import Nv.Gen.C09
/-! C09 — obligations on the definitions regenerated from /repo's current source. -/
namespace Nv.C09
open Nv.Gen.C09

/-- fails while `BigU32.IterAsI64/RIterAsI64` multiply in `uint32` (F07) or `U32BitTip.getNAsU32` dispatches
    the wrong way round (F08): the expected outcome before the repair -/
theorem tie_cfg_proved : Proved cfg := by decide
theorem tie_facts : facts = Facts.expected := by decide

/-! the regenerated kernels are the functions the model is about -/
theorem tie_big_offset (s : BitVec 32) : bigU32_iterOffset s = bigOffset cfg false s := rfl
theorem tie_big_roffset (s : BitVec 32) : bigU32_rIterOffset s = bigOffset cfg true s := rfl
theorem tie_tip_offset (s : BitVec 32) : u32BitTip_iterOffset s = s * BitVec.ofNat 32 cfg.c1k := rfl
theorem tie_tip_roffset (s : BitVec 32) : u32BitTip_rIterOffset s = s * BitVec.ofNat 32 cfg.c1k := rfl
theorem tie_selI64_new (v : BitVec 64) : newBigU32FromI64_sel v = selI64 v := rfl
theorem tie_selI64_set (v : BitVec 64) : bigU32SetI64_sel v = selI64 v := rfl
theorem tie_selU32_new (u : BitVec 32) : newU32BitTipFromU32_sel u = selU32 u := rfl
theorem tie_selU32_set (u : BitVec 32) : u32BitTipSetU32_sel u = selU32 u := rfl
theorem tie_maxTipStart : Nv.Gen.C09.maxTipStart = Nv.C09.maxTipStart := rfl

end Nv.C09
