import Nv.Props.C09
import Nv.Gen.C09
/-! C09 — obligations on the definitions regenerated from /repo's current source. -/
namespace Nv.C09
open Nv.Gen.C09

/-- fails while `BigU32.IterAsI64/RIterAsI64` multiply in `uint32` (F07) or `U32BitTip.getNAsU32` dispatches
    the wrong way round (F08): the expected outcome before the repair -/
theorem tie_cfg_proved : Proved cfg := by decide
theorem tie_facts : facts = Facts.expected := by decide

/-! the regenerated kernels are the functions the model is about -/
theorem tie_big_offset (s : BitVec 32) : bigU32_iterOffset s = bigOffset cfg false s := by
  first | rfl | simp [bigU32_iterOffset, bigOffset, offsetOf, cfg, BitVec.mul_comm]
theorem tie_big_roffset (s : BitVec 32) : bigU32_rIterOffset s = bigOffset cfg true s := by
  first | rfl | simp [bigU32_rIterOffset, bigOffset, offsetOf, cfg, BitVec.mul_comm]
theorem tie_tip_offset (s : BitVec 32) : u32BitTip_iterOffset s = s * BitVec.ofNat 32 cfg.c1k := by
  first | rfl | simp [u32BitTip_iterOffset, cfg, BitVec.mul_comm]
theorem tie_tip_roffset (s : BitVec 32) : u32BitTip_rIterOffset s = s * BitVec.ofNat 32 cfg.c1k := by
  first | rfl | simp [u32BitTip_rIterOffset, cfg, BitVec.mul_comm]
theorem tie_selI64_new (v : BitVec 64) : newBigU32FromI64_sel v = selI64 v := rfl
theorem tie_selI64_set (v : BitVec 64) : bigU32SetI64_sel v = selI64 v := rfl
theorem tie_selU32_new (u : BitVec 32) : newU32BitTipFromU32_sel u = selU32 u := rfl
theorem tie_selU32_set (u : BitVec 32) : u32BitTipSetU32_sel u = selU32 u := rfl
theorem tie_maxTipStart : Nv.Gen.C09.maxTipStart = Nv.C09.maxTipStart := rfl

/-! property theorems stated directly on the regenerated kernels -/

/-- regenerated arithmetic of `NewBigU32FromI64`: accepted exactly on the documented range, start = v/1024, bit = v%1024 -/
theorem tie_newBigU32FromI64_sel_spec (v : BitVec 64) :
    (0 ≤ v.toInt ∧ v.toInt < 4398046510080 →
      (newBigU32FromI64_sel v).1 = true ∧ (newBigU32FromI64_sel v).2.1.toNat = v.toInt.toNat / 1024 ∧
      (newBigU32FromI64_sel v).2.2.toInt = ((v.toInt.toNat % 1024 : Nat) : Int)) ∧
    (¬(0 ≤ v.toInt ∧ v.toInt < 4398046510080) → (newBigU32FromI64_sel v).1 = false) := selI64_spec v

/-- regenerated block base of `BigU32.IterAsI64`: `Start·1024` without wrap-around (false while the product is `uint32`) -/
theorem tie_big_offset_exact (s : BitVec 32) : (bigU32_iterOffset s).toNat = s.toNat * 1024 := by
  have := s.isLt
  simp only [bigU32_iterOffset, BitVec.toNat_mul, BitVec.toNat_setWidth, BitVec.toNat_ofNat]
  omega

theorem tie_big_roffset_exact (s : BitVec 32) : (bigU32_rIterOffset s).toNat = s.toNat * 1024 := by
  have := s.isLt
  simp only [bigU32_rIterOffset, BitVec.toNat_mul, BitVec.toNat_setWidth, BitVec.toNat_ofNat]
  omega

end Nv.C09
