import Nv.Model.C02
import Nv.Gen.C02
/-! C02 — obligations on the definitions regenerated from /repo's current source. -/
namespace Nv.C02
theorem tie_facts : Nv.Gen.C02.facts = Facts.expected := by decide
theorem tie_cfg_proved : Proved Nv.Gen.C02.cfg := by decide
end Nv.C02
