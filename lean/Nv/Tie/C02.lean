import Nv.Model.C02
import Nv.Props.C02
import Nv.Gen.C02
/-!
C02 — obligations on the definitions regenerated from /repo's current source: the shape facts the model is written
against, the configuration being one for which the theorems are proved, and the property theorems instantiated at
the regenerated configuration (every locker type = some shard count `n` and routing `sh` with `sh k < n`).
-/
namespace Nv.C02
open Nv.Gen.C02 (cfg)

theorem tie_facts : Nv.Gen.C02.facts = Facts.expected := by decide
theorem tie_cfg_proved : Proved cfg := by decide

variable {n : Nat} {sh : Key → Nat} {s : State}

theorem tie_excl (hsh : ∀ k, sh k < n) (hr : (lts cfg n sh).Reach s) {t1 t2 : Tid} {k : Key} {o1 o2 : ObjId} {m2 : Mode}
    (h1 : (k, o1, Mode.w) ∈ (s.th t1).held) (h2 : (k, o2, m2) ∈ (s.th t2).held) : t1 = t2 ∧ o1 = o2 ∧ m2 = Mode.w :=
  kl_excl tie_cfg_proved hsh hr h1 h2

theorem tie_same_object (hsh : ∀ k, sh k < n) (hr : (lts cfg n sh).Reach s) {t : Tid} {k : Key} {o : ObjId} {m : Mode}
    (h : (k, o, m) ∈ refs (s.th t)) : s.table k = some o :=
  kl_same_object tie_cfg_proved hsh hr h

theorem tie_all_held (hsh : ∀ k, sh k < n) (hr : (lts cfg n sh).Reach s) {t : Tid} {m : Mode} {all : List Key}
    (hph : (s.th t).phase = .acq m all []) : ∀ k ∈ all, holdsIn (s.th t) m k :=
  kl_all_held tie_cfg_proved hsh hr hph

theorem tie_no_leak (hsh : ∀ k, sh k < n) (hr : (lts cfg n sh).Reach s) (hidle : ∀ t, refs (s.th t) = []) (k : Key) :
    s.table k = none :=
  kl_no_leak tie_cfg_proved hsh hr hidle k

theorem tie_no_fault (hsh : ∀ k, sh k < n) (hr : (lts cfg n sh).Reach s) : s.fault = false :=
  kl_no_fault tie_cfg_proved hsh hr

theorem tie_group_order (hsh : ∀ k, sh k < n) (keys : List Key) :
    (acqOrder cfg n sh keys).Pairwise (fun a b => srank cfg n (sh a) ≤ srank cfg n (sh b)) :=
  (group_order_consistent cfg hsh keys).1

theorem tie_independent (hsh : ∀ k, sh k < n) (hr : (lts cfg n sh).Reach s)
    {t : Tid} {m : Mode} {all : List Key} {k : Key} {o : ObjId} {rest : List (Key × ObjId)}
    (hph : (s.th t).phase = .acq m all ((k, o) :: rest))
    (hfree : ∀ u, u ≠ t → ∀ o' m', (k, o', m') ∈ refs (s.th u) → m = .r ∧ m' = .r) : ¬ blockedT s t :=
  kl_independent tie_cfg_proved hsh hr hph hfree

theorem tie_deadlock_free (hsh : ∀ k, sh k < n) {rank : Key → Nat} (hr : ReachOrd cfg n sh rank s)
    (hbusy : ∃ t, (s.th t).phase ≠ .idle) : ∃ a s', isProgress a ∧ step cfg n sh s a = some s' :=
  kl_deadlock_free tie_cfg_proved hsh hr hbusy

theorem tie_deadlock_free_flat (hsh : ∀ k, sh k < n) {G : Key → Nat} {B : Nat} (hr : ReachFlat cfg n sh G B s)
    (hbusy : ∃ t, (s.th t).phase ≠ .idle) : ∃ a s', isProgress a ∧ step cfg n sh s a = some s' :=
  kl_deadlock_free_flat tie_cfg_proved hsh hr hbusy

theorem tie_no_wait_cycle (hsh : ∀ k, sh k < n) {rank : Key → Nat} (hr : ReachOrd cfg n sh rank s) (t : Tid) :
    ¬ Relation.TransGen (waitsFor s) t t :=
  kl_no_wait_cycle tie_cfg_proved hsh hr t

theorem tie_route_stable (hsh : ∀ k, sh k < n) (hr : (lts cfg n sh).Reach s)
    {t : Tid} {k : Key} {o : ObjId} {m : Mode} (h : (k, o, m) ∈ refs (s.th t)) :
    routedTable sh s (sh k) k = some o ∧ ∀ i, i ≠ sh k → routedTable sh s i k = none :=
  kl_route_stable tie_cfg_proved hsh hr h

end Nv.C02
