import Nv.Props.C15
import Nv.Gen.C15
/-! C15 — obligations on the definitions regenerated from /repo's current source. -/
namespace Nv.C15

theorem tie_facts : Nv.Gen.C15.facts = Facts.expected := by decide

theorem tie_cfg_proved : Proved Nv.Gen.C15.cfg := by decide

/-- `lochash_in_range`, stated on the regenerated `(*WorkerGrp).locHash`: for every value of `k.HashedInt()`
and every positive `muxSize` the worker index lies in `[0, muxSize)`. -/
theorem tie_lochash_in_range : LocOk Nv.Gen.C15.loc := by
  intro n h hs
  have hb := srem_bounds h n hs
  have hn := neg_toInt_of_srem_neg h n hs
  unfold Nv.Gen.C15.loc Nv.Gen.C15.workerGrp_locHash
  simp only []
  split <;> rename_i hc <;>
    first
    | (have hlt : (h.srem n).toInt < 0 := by simpa [BitVec.slt_iff_toInt_lt] using hc
       omega)
    | (have hge : 0 ≤ (h.srem n).toInt := by simpa [BitVec.slt_iff_toInt_lt] using hc
       omega)

end Nv.C15
