import Nv.Props.C15
import Nv.Gen.C15
set_option linter.unusedSimpArgs false
/-! C15 — obligations on the definitions regenerated from /repo's current source. -/
namespace Nv.C15

theorem tie_facts : Nv.Gen.C15.facts = Facts.expected := by decide

theorem tie_cfg_proved : Proved Nv.Gen.C15.cfg := by decide

/-- `lochash_in_range`, stated on the regenerated `(*WorkerGrp).locHash`: for every value of `k.HashedInt()`
and every positive `muxSize` the worker index lies in `[0, muxSize)`. -/
theorem tie_lochash_kernel_in_range (s i : BitVec 64) (hs : 0 < s.toInt) :
    0 ≤ (Nv.Gen.C15.workerGrp_locHash s i).toInt ∧ (Nv.Gen.C15.workerGrp_locHash s i).toInt < s.toInt := by
  have hb := srem_bounds i s hs
  have hn := neg_toInt_of_srem_neg i s hs
  have hr := BitVec.toInt_srem i s
  -- the remainder has the sign of the dividend
  have hsn : i.toInt < 0 → (i.srem s).toInt ≤ 0 := by
    intro h; rw [hr]
    have := Int.tmod_nonneg (a := -i.toInt) s.toInt (by omega)
    rw [Int.neg_tmod] at this; omega
  have hsp : 0 ≤ i.toInt → 0 ≤ (i.srem s).toInt := by
    intro h; rw [hr]; exact Int.tmod_nonneg _ h
  unfold Nv.Gen.C15.workerGrp_locHash
  try simp only []
  repeat' split
  all_goals (rename_i hc; simp only [BitVec.slt_iff_toInt_lt, BitVec.toInt_zero, Bool.not_eq_true, decide_eq_true_eq,
    decide_eq_false_iff_not, Int.not_lt] at hc; omega)

/-- … hence for the routing function the model is run with (`locHash ∘ Int.HashedInt`, both regenerated), whatever the
key type's hash function computes -/
theorem tie_lochash_in_range : LocOk Nv.Gen.C15.loc := by
  intro n h hs
  unfold Nv.Gen.C15.loc
  exact tie_lochash_kernel_in_range n _ hs

end Nv.C15
