import Nv.Model.C10
import Nv.Props.C10
import Nv.Gen.C10
/-!
C10 — obligations on the definitions regenerated from /repo's current source (`Nv/Gen/C10.lean`):
the shape facts equal the ones the model was written against, and the classified `ReaderX.Read` strategy /
`ZReadN(0)` rule lie in the set the stream theorems are proved for. On a tree where `ReaderX.Read` still does a
single `reader.Read`, or `ZReadN(0)` still falls into `ReadN`, `tie_cfg_proved` does not check — that is the
obligation doing its work (witnesses: `Nv.C10.witness_single_fragmented`, `witness_reject_empty_string`).
-/
namespace Nv.C10

theorem tie_facts : Nv.Gen.C10.facts = Facts.expected := by decide

theorem tie_cfg_proved : Proved Nv.Gen.C10.cfg := by decide

/-- Go's `int` is 64 bits wide in the harness build (`strconv.IntSize`), so `int(n)` of a length field is never negative -/
theorem tie_int_bits : Nv.Gen.C10.intBits = 64 := by decide

theorem tie_decode_never_panics (ty : Ty) (bs : Bytes) : decBufP Nv.Gen.C10.intBits ty bs = some (decBuf ty bs) := by
  rw [tie_int_bits]; exact decode_never_panics ty bs

/-- the stream theorem instantiated at the regenerated configuration -/
theorem tie_stream_equals_buffer (ty : Ty) (hty : ty.streamable = true) (s : Src) :
    Out.agree (decStream Nv.Gen.C10.cfg ty s).1 (decBuf ty s.flat).1 = true ∧
    (decStream Nv.Gen.C10.cfg ty s).2.flat = (decBuf ty s.flat).2 :=
  stream_equals_buffer Nv.Gen.C10.cfg tie_cfg_proved ty hty s

theorem tie_stream_program_equals_buffer (ts : List Ty) (hts : ∀ t ∈ ts, t.streamable = true) (s : Src) :
    agreeAll (readAllStream Nv.Gen.C10.cfg ts s).1 (readAll ts s.flat).1 = true ∧
    (readAllStream Nv.Gen.C10.cfg ts s).2.flat = (readAll ts s.flat).2 :=
  stream_program_equals_buffer Nv.Gen.C10.cfg tie_cfg_proved ts hts s

end Nv.C10
