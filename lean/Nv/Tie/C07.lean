import Nv.Model.C07
import Nv.Props.C07
import Nv.Gen.C07
/-!
C07 — obligations on the definitions regenerated from /repo's current source (`Nv/Gen/C07.lean`): the regenerated
kernels are the model's functions, and the property theorems restated directly on them.
-/
namespace Nv.C07
open Nv.C06 (figureShift idFields join LayoutOk tsWidth)

theorem tie_facts : Nv.Gen.C07.facts = Facts.expected := by decide

theorem tie_figureShift (nb : BitVec 8) (nal : Bool) :
    Nv.Gen.C07.figureShiftC nb nal = figureShift nb nal := by
  unfold Nv.Gen.C07.figureShiftC Nv.Gen.C07.figureShift figureShift; cases nal <;> rfl

theorem tie_figureShift' (nb : BitVec 8) (nal : Bool) :
    Nv.Gen.C07.figureShift nb nal = figureShift nb nal := tie_figureShift nb nal

theorem tie_idFields (id : BitVec 64) (nb : BitVec 8) (nal : Bool) :
    Nv.Gen.C07.idFieldsC id nb nal = idFields id nb nal := by
  unfold Nv.Gen.C07.idFieldsC Nv.Gen.C07.iDFields idFields
  rw [tie_figureShift']

theorem tie_idFields' (id : BitVec 64) (nb : BitVec 8) (nal : Bool) :
    Nv.Gen.C07.iDFields id nb nal = idFields id nb nal := tie_idFields id nb nal

theorem tie_idParse (id : BitVec 64) (nb : BitVec 8) (nal : Bool) (epoch : BitVec 64) :
    Nv.Gen.C07.idParseC id nb nal epoch = idParse id nb nal epoch := by
  unfold Nv.Gen.C07.idParseC Nv.Gen.C07.iDParse idParse
  rw [tie_idFields']

theorem tie_timeIDRange (nb : BitVec 8) (epoch sec : BitVec 64) :
    Nv.Gen.C07.timeIDRangeC nb epoch sec = timeIDRange nb epoch sec := by
  unfold Nv.Gen.C07.timeIDRangeC Nv.Gen.C07.timeIDRange timeIDRange lowMask; rfl

theorem tie_timeBetweenID (nb : BitVec 8) (epoch b e : BitVec 64) :
    Nv.Gen.C07.timeBetweenIDC nb epoch b e = timeBetweenID nb epoch b e := by
  unfold Nv.Gen.C07.timeBetweenIDC Nv.Gen.C07.timeBetweenID timeBetweenID lowMask; rfl

/-! ### the property, on the regenerated kernels -/

/-- split / join on the regenerated `IDFields` (the packing is `Generate`'s, see `Nv.C06.tie_hardGenerate`) -/
theorem tie_id_split_join {nb : BitVec 8} (hl : LayoutOk nb) (nal : Bool) (id : BitVec 64) (h : 0 ≤ id.toInt) :
    join nb nal (Nv.Gen.C07.idFieldsC id nb nal).1 (Nv.Gen.C07.idFieldsC id nb nal).2.1 (Nv.Gen.C07.idFieldsC id nb nal).2.2 = id := by
  rw [tie_idFields]; exact id_split_join hl nal id h

theorem tie_id_join_split {nb : BitVec 8} (hl : LayoutOk nb) (nal : Bool) (t n s : BitVec 64)
    (ht : t.toNat < 2 ^ tsWidth nb) (hn : n.toNat < 2 ^ nb.toNat) (hs : s.toNat < 4096) :
    Nv.Gen.C07.idFieldsC (join nb nal t n s) nb nal = (t, n, s) := by
  rw [tie_idFields]; exact (id_join_split hl nal t n s ht hn hs).1

/-- order on the regenerated `IDFields` -/
theorem tie_id_order_lex {nb : BitVec 8} (hl : LayoutOk nb) (nal : Bool) (a b : BitVec 64) (ha : 0 ≤ a.toInt) (hb : 0 ≤ b.toInt) :
    a.toInt < b.toInt ↔
      ((Nv.Gen.C07.idFieldsC a nb nal).1.toInt < (Nv.Gen.C07.idFieldsC b nb nal).1.toInt ∨
        ((Nv.Gen.C07.idFieldsC a nb nal).1 = (Nv.Gen.C07.idFieldsC b nb nal).1 ∧ (rest a nb).toNat < (rest b nb).toNat)) := by
  rw [tie_idFields, tie_idFields]; exact id_order_lex hl nal a b ha hb

/-- `IDParse` on the regenerated kernels -/
theorem tie_id_parse_fields (id : BitVec 64) (nb : BitVec 8) (nal : Bool) (epoch : BitVec 64) :
    (Nv.Gen.C07.idParseC id nb nal epoch).1 - epoch = (Nv.Gen.C07.idFieldsC id nb nal).1 ∧
    (Nv.Gen.C07.idParseC id nb nal epoch).2 = (Nv.Gen.C07.idFieldsC id nb nal).2 := by
  rw [tie_idParse, tie_idFields]; exact id_parse_fields id nb nal epoch

/-- the interval of the regenerated `TimeBetweenID` is exact -/
theorem tie_range_exact {nb : BitVec 8} (hl : LayoutOk nb) (nal : Bool) (epoch b e id : BitVec 64)
    (hb : ((b * 1000#64) - epoch).toNat < 2 ^ tsWidth nb) (he : ((e * 1000#64) - epoch).toNat < 2 ^ tsWidth nb)
    (hid : 0 ≤ id.toInt) :
    ((Nv.Gen.C07.timeBetweenIDC nb epoch b e).1.toInt ≤ id.toInt ∧ id.toInt ≤ (Nv.Gen.C07.timeBetweenIDC nb epoch b e).2.toInt) ↔
      (((b * 1000#64) - epoch).toInt ≤ (Nv.Gen.C07.idFieldsC id nb nal).1.toInt ∧
        (Nv.Gen.C07.idFieldsC id nb nal).1.toInt ≤ ((e * 1000#64) - epoch).toInt) := by
  rw [tie_timeBetweenID, tie_idFields]; exact range_exact hl nal epoch b e id hb he hid

/-- … and so is the one of the regenerated `TimeIDRange` (one second) -/
theorem tie_range_exact_one {nb : BitVec 8} (hl : LayoutOk nb) (nal : Bool) (epoch sec id : BitVec 64)
    (hs : ((sec * 1000#64) - epoch).toNat < 2 ^ tsWidth nb) (hid : 0 ≤ id.toInt) :
    ((Nv.Gen.C07.timeIDRangeC nb epoch sec).1.toInt ≤ id.toInt ∧ id.toInt ≤ (Nv.Gen.C07.timeIDRangeC nb epoch sec).2.toInt) ↔
      (Nv.Gen.C07.idFieldsC id nb nal).1 = (sec * 1000#64) - epoch := by
  rw [tie_timeIDRange, time_id_range_eq, tie_idFields, range_exact hl nal epoch sec sec id hs hs hid, ← BitVec.toInt_inj]
  omega

/-- the accessor found in `FromChStyle` is inside the proved set (fails while the code converts through `UnixNano`:
    see `witness_unixNano_roundtrip`) -/
theorem tie_cfg_proved : Proved Nv.Gen.C07.cfg := by decide

/-- round trip through the date form with the accessor found in the source -/
theorem tie_cn_roundtrip (cal : Calendar) (D : Int → Prop) (law : cal.Lawful D)
    {nb : BitVec 8} (hl : LayoutOk nb) (epoch id : BitVec 64) (hid : 0 ≤ id.toInt) (hD : D (cnMs nb epoch id).toInt) :
    fromChStyle Nv.Gen.C07.cfg cal nb epoch (cnStyle cal nb epoch id) = some id :=
  cn_roundtrip tie_cfg_proved cal D law hl epoch id hid hD

/-- … and for the concrete calendar `shanghai`, with no hypothesis on the calendar -/
theorem tie_cn_roundtrip_shanghai {nb : BitVec 8} (hl : LayoutOk nb) (epoch id : BitVec 64) (hid : 0 ≤ id.toInt)
    (he0 : 946684800000 ≤ epoch.toInt) (he1 : epoch.toInt ≤ 2 ^ 47) :
    (cnStyle shanghai nb epoch id).length = 24 ∧
    fromChStyle Nv.Gen.C07.cfg shanghai nb epoch (cnStyle shanghai nb epoch id) = some id :=
  cn_roundtrip_shanghai tie_cfg_proved hl epoch id hid he0 he1

end Nv.C07
