import Nv.Model.C07
import Nv.Gen.C07
/-! C07 — obligations on the definitions regenerated from /repo's current source. -/
namespace Nv.C07
open Nv.C06 (figureShift idFields)

theorem tie_facts : Nv.Gen.C07.facts = Facts.expected := by decide

theorem tie_figureShift (nb : BitVec 8) (nal : Bool) :
    Nv.Gen.C07.figureShift nb nal = figureShift nb nal := by
  unfold Nv.Gen.C07.figureShift figureShift; cases nal <;> rfl

theorem tie_idFields (id : BitVec 64) (nb : BitVec 8) (nal : Bool) :
    Nv.Gen.C07.iDFields id nb nal = idFields id nb nal := by
  unfold Nv.Gen.C07.iDFields idFields
  rw [tie_figureShift]

theorem tie_idParse (id : BitVec 64) (nb : BitVec 8) (nal : Bool) (epoch : BitVec 64) :
    Nv.Gen.C07.iDParse id nb nal epoch = idParse id nb nal epoch := by
  unfold Nv.Gen.C07.iDParse idParse
  rw [tie_idFields]

theorem tie_timeIDRange (nb : BitVec 8) (epoch sec : BitVec 64) :
    Nv.Gen.C07.timeIDRange nb epoch sec = timeIDRange nb epoch sec := by
  unfold Nv.Gen.C07.timeIDRange timeIDRange lowMask; rfl

theorem tie_timeBetweenID (nb : BitVec 8) (epoch b e : BitVec 64) :
    Nv.Gen.C07.timeBetweenID nb epoch b e = timeBetweenID nb epoch b e := by
  unfold Nv.Gen.C07.timeBetweenID timeBetweenID lowMask; rfl

theorem tie_cfg_proved : Proved Nv.Gen.C07.cfg := by decide

end Nv.C07
