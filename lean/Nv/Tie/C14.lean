import Nv.Props.C14
import Nv.Gen.C14
set_option linter.unusedSimpArgs false
/-! C14 — obligations on the definitions regenerated from /repo's current source. -/
namespace Nv.C14

theorem tie_facts : Nv.Gen.C14.facts = Facts.expected := by decide

theorem tie_cfg_proved : Proved Nv.Gen.C14.cfg := by decide

/-- `slot_in_range`, stated on the regenerated `NormalizeSlotIndex`: for every hash and every positive
lane count the index lies in `[0, lanes)`. -/
theorem tie_slot_in_range : SlotOk Nv.Gen.C14.normalizeSlotIndex := by
  intro i s hs
  have hb := srem_bounds i s hs
  have hn := neg_toInt_of_srem_neg i s hs
  have hr := BitVec.toInt_srem i s
  -- the remainder has the sign of the dividend
  have hsn : i.toInt < 0 → (i.srem s).toInt ≤ 0 := by
    intro h; rw [hr]
    have := Int.tmod_nonneg (a := -i.toInt) s.toInt (by omega)
    rw [Int.neg_tmod] at this; omega
  have hsp : 0 ≤ i.toInt → 0 ≤ (i.srem s).toInt := by
    intro h; rw [hr]; exact Int.tmod_nonneg _ h
  unfold Nv.Gen.C14.normalizeSlotIndex
  try simp only []
  repeat' split
  all_goals (rename_i hc; simp only [BitVec.slt_iff_toInt_lt, BitVec.toInt_zero, Bool.not_eq_true, decide_eq_true_eq,
    decide_eq_false_iff_not, Int.not_lt] at hc; omega)

end Nv.C14
