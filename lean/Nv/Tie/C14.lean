import Nv.Props.C14
import Nv.Gen.C14
/-! C14 — obligations on the definitions regenerated from /repo's current source. -/
namespace Nv.C14

theorem tie_facts : Nv.Gen.C14.facts = Facts.expected := by decide

theorem tie_cfg_proved : Proved Nv.Gen.C14.cfg := by decide

/-- `slot_in_range`, stated on the regenerated `NormalizeSlotIndex`: for every hash and every positive
lane count the index lies in `[0, lanes)`. -/
theorem tie_slot_in_range : SlotOk Nv.Gen.C14.normalizeSlotIndex := by
  intro i s hs
  have hb := srem_bounds i s hs
  have hn := neg_toInt_of_srem_neg i s hs
  have hb' := srem_bounds (-i) s hs
  unfold Nv.Gen.C14.normalizeSlotIndex
  simp only []
  split <;> rename_i h <;>
    first
    | (have hlt : (i.srem s).toInt < 0 := by simpa [BitVec.slt_iff_toInt_lt] using h
       omega)
    | (have hge : 0 ≤ (i.srem s).toInt := by simpa [BitVec.slt_iff_toInt_lt] using h
       omega)

/-- equal hashes give equal lanes: the lane index is a function of (hash, lanes) only — by definition of
the regenerated kernel (no other input) -/
theorem tie_slot_stable (h1 h2 s : BitVec 64) (h : h1 = h2) :
    Nv.Gen.C14.normalizeSlotIndex h1 s = Nv.Gen.C14.normalizeSlotIndex h2 s := by rw [h]

end Nv.C14
