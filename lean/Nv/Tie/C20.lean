import Nv.Model.C20
import Nv.Gen.C20
/-! C20 — obligations on the definitions regenerated from /repo's current source. -/
namespace Nv.C20
theorem tie_facts : Nv.Gen.C20.facts = Facts.expected := by decide
theorem tie_cfg_proved : Proved Nv.Gen.C20.cfg := by decide
end Nv.C20
