import Nv.Props.C20
import Nv.Gen.C20
/-!
C20 — obligations on the definitions regenerated from /repo's current source: the regenerated
configuration is inside the proved set, the shape facts are the ones the model is written
against, and the two central property theorems hold of the regenerated wrappers themselves.
-/
namespace Nv.C20
theorem tie_facts : Nv.Gen.C20.facts = Facts.expected := by decide
theorem tie_cfg_proved : Proved Nv.Gen.C20.cfg := by decide

/-- exact-or-error, stated on the regenerated JsUInt64 / JsUnixTime / JsNanoTime / UnixStamp / JsInt64 -/
theorem tie_exact_or_error (b : Bytes) (v : Int) :
    (decodeInt Nv.Gen.C20.cfg.i64 b = .ok v → denotes b v) ∧ (decodeInt Nv.Gen.C20.cfg.u64 b = .ok v → denotes b v) ∧
    (decodeInt Nv.Gen.C20.cfg.unixTime b = .ok v → denotes b v) ∧ (decodeInt Nv.Gen.C20.cfg.nanoTime b = .ok v → denotes b v) ∧
    (decodeInt Nv.Gen.C20.cfg.stamp b = .ok v → denotes b v) :=
  ⟨fun h => (i64_exact_or_error _ tie_cfg_proved b v h).1, fun h => (u64_exact_or_error _ tie_cfg_proved b v h).1,
   unixtime_exact_or_error _ tie_cfg_proved b v, nanotime_exact_or_error _ tie_cfg_proved b v,
   stamp_exact_or_error _ tie_cfg_proved b v⟩

/-- no wrapped byte, stated on the regenerated JsByte -/
theorem tie_jsbyte_no_wrap (b : Bytes) (l : List Nat)
    (h : decodeBytes Nv.Gen.C20.cfg.byte Nv.Gen.C20.cfg.byteConv b = .ok l) : denotesBytes b l ∧ ∀ x ∈ l, x ≤ 255 :=
  ⟨jsbyte_exact_or_error _ tie_cfg_proved b l h, jsbyte_no_wrap _ tie_cfg_proved b l h⟩

/-- the regenerated SQL scanners never answer a silent zero or a wrapped number -/
theorem tie_scan_exact_or_error (v : SqlVal) (ts : Int) (h : scanInt Nv.Gen.C20.cfg.scanInt v = .ok ts) : sqlDenotes v ts := by
  have hs : Nv.Gen.C20.cfg.scanInt = .strict := tie_cfg_proved.2.2.2.2.2.2.2.2.2.2.2.2.2.2.2.2.2.2.2.2.2.2.1
  rw [hs] at h
  exact scan_exact_or_error v ts h
end Nv.C20
