import Nv.Model.C16
import Nv.Gen.C16
import Nv.Props.C16
/-!
C16 — obligations on the definitions regenerated from /repo's current source (`Nv/Gen/C16.lean`, written by
`c16 extract`): the shape facts the model is written against, the configuration is a proved one, and the property
theorems instantiated at exactly that configuration (environment assumption: the exit callback returns).
-/
namespace Nv.C16
open Nv.Gen.C16 in
theorem tie_facts : facts = Facts.expected := by decide

open Nv.Gen.C16 in
theorem tie_cfg_proved : Proved cfg := by decide

open Nv.Gen.C16 in
theorem tie_single_exit (s : Sess) (hr : (sessLTS cfg).Reach s) : s.exits ≤ 1 ∧ s.decs ≤ 1 ∧ s.closes ≤ 1 :=
  sess_exit_at_most_once tie_cfg_proved (k := .returns) rfl s hr

open Nv.Gen.C16 in
theorem tie_terminal_state (s : Sess) (hr : (sessLTS cfg).Reach s) (hq : quiescent cfg s) : ended s ∨ waiting s :=
  sess_terminal_state tie_cfg_proved (k := .returns) rfl s hr hq

open Nv.Gen.C16 in
theorem tie_terminating_event_ends (s : Sess) (hr : (sessLTS cfg).Reach s) (e : Env) (he : Terminating s e)
    (as : List Act) (hi : ∀ a ∈ as, a.internal = true) (t : Sess)
    (hrun : (sessLTS cfg).run (envStep s e) as = some t) (hq : quiescent cfg t) : ended t :=
  terminating_event_ends tie_cfg_proved (k := .returns) rfl s hr e he as hi t hrun hq

open Nv.Gen.C16 in
theorem tie_flush_before_close (s : Sess) (hr : (sessLTS cfg).Reach s) (hf : s.faulted = false) (hcl : s.closes ≠ 0) :
    s.delivered = s.accepted.flatten :=
  flush_before_close tie_cfg_proved (k := .returns) rfl s hr hf (Or.inl hcl)

open Nv.Gen.C16 in
theorem tie_count (max : Int) (hmax : 0 ≤ max) (w : World) (hr : (worldLTS cfg max).Reach w) :
    w.count ≤ max ∧ w.count = (aliveNum w.sess : Int) :=
  ⟨count_le_max tie_cfg_proved max hmax (k := .returns) rfl w hr, count_balanced tie_cfg_proved max (k := .returns) rfl w hr⟩
end Nv.C16
