import Nv.Model.C16
import Nv.Gen.C16
/-! C16 — obligations on the definitions regenerated from /repo's current source. -/
namespace Nv.C16
theorem tie_facts : Nv.Gen.C16.facts = Facts.expected := by decide
theorem tie_cfg_proved : Proved Nv.Gen.C16.cfg := by decide
end Nv.C16
