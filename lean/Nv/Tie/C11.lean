import Nv.Model.C11
import Nv.Gen.C11
/-! C11 — obligations on the definitions regenerated from /repo's current source. -/
namespace Nv.C11
theorem tie_facts : Nv.Gen.C11.facts = Facts.expected := by decide
theorem tie_cfg_proved : Proved Nv.Gen.C11.cfg := by decide
end Nv.C11
