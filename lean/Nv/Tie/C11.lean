import Nv.Props.C11
import Nv.Gen.C11
/-! C11 — obligations on the definitions regenerated from /repo's current source (tex/buffer.go). -/
namespace Nv.C11
open Spec

/-- the shape of every method the model was transcribed from is still the one expected -/
theorem tie_facts : Nv.Gen.C11.facts = Facts.expected := by decide

/-- the regenerated configuration (rune comparison kind, slide guard, smallBufferSize, MinRead) is one the theorems cover -/
theorem tie_cfg_proved : Proved Nv.Gen.C11.cfg := by decide

/-- the refinement theorem, instantiated with the configuration read from today's source -/
theorem tie_refines (ops : List Op) (hcom : ∀ op ∈ ops, Common Nv.Gen.C11.cfg op)
    (hun : NoUnreadAfterGrow false ops) (hmem : MemOk Nv.Gen.C11.cfg St.zero ops) :
    outs (implObs Nv.Gen.C11.cfg) St.zero ops = outs specObs SSt.empty ops :=
  texbuf_refines _ tie_cfg_proved ops hcom hun hmem

end Nv.C11
