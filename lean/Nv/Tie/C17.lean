import Nv.Model.C17
import Nv.Gen.C17
/-! C17 — obligations on the definitions regenerated from /repo's current source. -/
namespace Nv.C17
theorem tie_facts : Nv.Gen.C17.facts = Facts.expected := by decide
theorem tie_cfg_proved : Proved Nv.Gen.C17.cfg := by decide
end Nv.C17
