import Nv.Model.C17Glue
import Nv.Props.C17
/-!
C17 — obligations on the definitions regenerated from /repo's current source: facts, configuration,
and the property theorems stated directly on the translated kernels (boundary expression, clamp,
`SimpleIndex` tail and arms) as the oracle evaluates them (`genNps`, `genSearchIndex`, `genSimple`).
Shard counts `1 ≤ n < 2^63` (a Go slice cannot be longer; `int(r.numbs)` is then non-negative).
-/
namespace Nv.C17

theorem tie_facts : Nv.Gen.C17.facts = Facts.expected := by decide
theorem tie_cfg_proved : Proved Nv.Gen.C17.cfg := by decide

/-- `ToBytes` can hash a HitGroup implementer, as `route_total` needs for the property's full key space
    (fails on a tree whose `ToBytes` lacks the arm: the defect `C17:XHashIndex:HitGroup-key-unsupported`) -/
theorem tie_hitgroup_hashable : Nv.Gen.C17.hitHashable = true := by decide

/-- every key type the property lists gets an index from the regenerated routing, under both routes -/
theorem tie_route_total (n : Nat) (k : Key) (hk : k.ty ≠ .other) : ∃ i, genXHash n k = .idx i := by
  have hh : k.hashable Nv.Gen.C17.hitHashable = true := by
    rw [tie_hitgroup_hashable]
    cases hty : k.ty <;> simp_all [Key.hashable, toBytesArmsExpected]
  exact ⟨genSearchIndex n k.hash, by simp [genXHash, hh]⟩

private theorem toInt_ofNat_small (i : Nat) (h : i < 2 ^ 63) : (BitVec.ofNat 64 i).toInt = i := by
  have hn : (BitVec.ofNat 64 i).toNat = i := by
    simp only [BitVec.toNat_ofNat]; exact Nat.mod_eq_of_lt (by omega)
  rw [BitVec.toInt_eq_toNat_of_lt (by omega), hn]

/-- the translated boundary expression is the model's `y·(i+1) mod 2^64` -/
theorem tie_nps (n i : Nat) (h2 : n < 2 ^ 64) (hi : i < n) : genNps n i = nps Nv.Gen.C17.cfg n i := by
  unfold genNps nps
  split
  · rfl
  · unfold Nv.Gen.C17.npsAt Nv.Gen.C17.npsY npsRaw yOf M64
    simp only [BitVec.udiv_eq, BitVec.toNat_mul, BitVec.toNat_udiv, BitVec.toNat_add, BitVec.toNat_ofNat]
    have e1 : n % 2 ^ 64 = n := Nat.mod_eq_of_lt h2
    have e2 : i % 2 ^ 64 = i := Nat.mod_eq_of_lt (by omega)
    have e3 : (i + 1 % 2 ^ 64) % 2 ^ 64 = i + 1 := by
      have : (1 : Nat) % 2 ^ 64 = 1 := by decide
      rw [this]; exact Nat.mod_eq_of_lt (by omega)
    have e4 : 18446744073709551615 % 2 ^ 64 = 2 ^ 64 - 1 := by decide
    simp only [e1, e2, e3, e4]

/-- the translated clamp is the identity on in-range indices and 0 on `n` -/
theorem tie_clamp (n i : Nat) (h2 : n < 2 ^ 63) (hi : i ≤ n) : genClamp n i = clampSpec n i := by
  unfold genClamp clampSpec Nv.Gen.C17.searchClamp
  have hi' := toInt_ofNat_small i (by omega)
  have hn' := toInt_ofNat_small n h2
  by_cases h : i ≥ n
  · have : (BitVec.ofNat 64 n).sle (BitVec.ofNat 64 i) = true := by
      rw [BitVec.sle_iff_toInt_le, hi', hn']; omega
    simp [this, h]
  · have h1 : (BitVec.ofNat 64 n).sle (BitVec.ofNat 64 i) = false := by
      apply Bool.eq_false_iff.2
      rw [Ne, BitVec.sle_iff_toInt_le, hi', hn']; omega
    have h0 : (BitVec.ofNat 64 i).slt 0#64 = false := by
      apply Bool.eq_false_iff.2
      rw [Ne, BitVec.slt_iff_toInt_lt, hi']; simp
    simp only [h1, h0, Bool.or_self, Bool.false_eq_true, if_false, h]
    simp only [BitVec.toNat_ofNat]
    exact Nat.mod_eq_of_lt (by omega)

private theorem bsearch_le (p : Nat → Bool) : ∀ (fuel i j : Nat), i ≤ j → bsearch p fuel i j ≤ j := by
  intro fuel
  induction fuel with
  | zero => intro i j h; exact h
  | succ f ih =>
    intro i j h
    simp only [bsearch]
    split
    · split
      · have := ih i ((i + j) / 2) (by omega); omega
      · exact ih _ _ (by omega)
    · exact h

/-- `SearchIndex` evaluated through the regenerated kernels is the model's `searchIndex` -/
theorem tie_search_eq (n x : Nat) (h2 : n < 2 ^ 63) : genSearchIndex n x = searchIndex Nv.Gen.C17.cfg n x := by
  unfold genSearchIndex searchIndex searchWith
  have hc := bsearch_congr (fun i => holds Nv.Gen.C17.cfg.searchPred (genNps n i) x)
    (fun i => holds Nv.Gen.C17.cfg.searchPred (nps Nv.Gen.C17.cfg n i) x) n
    (fun k hk => by simp only [tie_nps n k (by omega) hk]) n 0 n (Nat.le_refl _)
  rw [hc]
  exact tie_clamp n _ h2 (bsearch_le _ n 0 n (Nat.zero_le _))

/-- range + the partition, on what the code computes today -/
theorem tie_partition (n x : Nat) (h1 : 1 ≤ n) (h2 : n < 2 ^ 63) (hx : x < 2 ^ 64) :
    genSearchIndex n x < n ∧ x ≤ genNps n (genSearchIndex n x) ∧
      (0 < genSearchIndex n x → genNps n (genSearchIndex n x - 1) < x) := by
  have hM : n ≤ M64 := by have : M64 = 2 ^ 64 - 1 := rfl; omega
  have hp := partition_total Nv.Gen.C17.cfg tie_cfg_proved n x h1 hM hx
  rw [tie_search_eq n x h2]
  refine ⟨hp.1, ?_, ?_⟩
  · rw [tie_nps n _ (by omega) hp.1]; exact hp.2.1
  · intro h0; rw [tie_nps n _ (by omega) (by omega)]; exact hp.2.2 h0

theorem tie_search_monotone (n x y : Nat) (h1 : 1 ≤ n) (h2 : n < 2 ^ 63) (hxy : x ≤ y) (hy : y < 2 ^ 64) :
    genSearchIndex n x ≤ genSearchIndex n y := by
  have hM : n ≤ M64 := by have : M64 = 2 ^ 64 - 1 := rfl; omega
  rw [tie_search_eq n x h2, tie_search_eq n y h2]
  exact search_monotone Nv.Gen.C17.cfg tie_cfg_proved n x y h1 hM hxy hy

/-- the translated tail `int(it % r.numbs)` is in `[0, n)` as an `int`, for every `it` -/
theorem tie_simple_tail (it n : BitVec 64) (h1 : 0 < n.toNat) (h2 : n.toNat < 2 ^ 63) :
    (Nv.Gen.C17.simpleTail it n).toNat = it.toNat % n.toNat ∧
      0 ≤ (Nv.Gen.C17.simpleTail it n).toInt ∧ (Nv.Gen.C17.simpleTail it n).toInt < n.toNat := by
  have hv : (Nv.Gen.C17.simpleTail it n).toNat = it.toNat % n.toNat := by
    unfold Nv.Gen.C17.simpleTail; exact BitVec.toNat_umod
  have hlt : it.toNat % n.toNat < n.toNat := Nat.mod_lt _ h1
  have hi : (Nv.Gen.C17.simpleTail it n).toInt = ((Nv.Gen.C17.simpleTail it n).toNat : Int) :=
    BitVec.toInt_eq_toNat_of_lt (by omega)
  exact ⟨hv, by omega, by omega⟩

/-- every arm of today's type switch yields a value (no arm was dropped from the regenerated table) -/
theorem tie_arms_total (t : KType) (ht : t ∈ simpleArmsExpected) (b : Nat) : (Nv.Gen.C17.simpleArm t b).isSome = true := by
  cases t <;> simp [simpleArmsExpected] at ht <;> rfl

/-- `SimpleIndex` and `XHashIndex` as computed by the regenerated kernels are in range for every key -/
theorem tie_route_in_range (n : Nat) (h1 : 1 ≤ n) (h2 : n < 2 ^ 63) (k : Key) (hh : k.hash < 2 ^ 64) :
    (∀ i, genSimple n k = .idx i → i < n) ∧ (∀ i, genXHash n k = .idx i → i < n) := by
  have hx : ∀ i, genXHash n k = .idx i → i < n := by
    intro i h
    simp only [genXHash] at h
    split at h
    · cases h; exact (tie_partition n _ h1 h2 hh).1
    · cases h
  refine ⟨?_, hx⟩
  intro i h
  simp only [genSimple] at h
  cases ha : Nv.Gen.C17.simpleArm k.ty k.bits with
  | none => rw [ha] at h; exact hx i h
  | some it =>
    rw [ha] at h
    cases h
    have hn : (BitVec.ofNat 64 n).toNat = n := by simp only [BitVec.toNat_ofNat]; exact Nat.mod_eq_of_lt (by omega)
    have := (tie_simple_tail it (BitVec.ofNat 64 n) (by omega) (by omega)).1
    rw [this, hn]; exact Nat.mod_lt _ (by omega)

end Nv.C17
