import Nv.Props.C01
import Nv.Gen.C01
/-!
C01 — obligations on the definitions regenerated from /repo's current source (`Nv/Gen/C01.lean`):
the shape facts equal what the model was written against, the regenerated delete guard lies in the proved
set, and — instantiated at the regenerated configuration — exclusion, hand-off and no-residue hold for the
transition system of today's code. On a tree with the defect F01 this module does not build (expected);
the concrete failing run is `Nv.C01.witness_emptyOnly_writer_beside_reader`.
-/
namespace Nv.C01
theorem tie_facts : Nv.Gen.C01.facts = Facts.expected := by decide
theorem tie_cfg_proved : Proved Nv.Gen.C01.cfg := by decide
/-- the default ratio (`NewSemMap()` without `WithRwRatio`) satisfies the theorems' hypothesis `1 ≤ rw` -/
theorem tie_default_ratio : 1 ≤ Nv.Gen.C01.defaultRatio := by decide

theorem tie_excl (rw : Nat) (hrw : 1 ≤ rw) (s : State) (hr : (M Nv.Gen.C01.cfg rw).Reach s) (k : Key) :
    (∃ t, (s k).holders = [(t, rw)]) ∨ ((∀ h ∈ (s k).holders, h.2 = 1) ∧ (s k).holders.length ≤ rw) :=
  sem_excl_rw _ tie_cfg_proved rw hrw s hr k

theorem tie_head_blocked (rw : Nat) (hrw : 1 ≤ rw) (s : State) (hr : (M Nv.Gen.C01.cfg rw).Reach s) (k : Key)
    (w : W) (ws : List W) (hw : (s k).waiters = w :: ws) : rw - wsum (s k).holders < w.2 :=
  sem_head_blocked _ tie_cfg_proved rw hrw s hr k w ws hw

theorem tie_no_residue (rw : Nat) (hrw : 1 ≤ rw) (s : State) (hr : (M Nv.Gen.C01.cfg rw).Reach s) (k : Key)
    (hh : (s k).holders = []) (hw : (s k).waiters = []) : (s k).present = false :=
  sem_no_residue _ tie_cfg_proved rw hrw s hr k hh hw

/-- the full sharded-map theorem at the regenerated configuration: token bound, one-writer-or-readers shape,
    a key is unknown to every shard it does not route to, and no residue in any shard -/
theorem tie_wide (rw : Nat) (hrw : 1 ≤ rw) (idx : Key → Nat) (ws : WState)
    (hr : (MW Nv.Gen.C01.cfg rw idx).Reach ws) (k : Key) :
    wsum (ws (idx k) k).holders ≤ rw ∧
    ((∃ t, (ws (idx k) k).holders = [(t, rw)]) ∨
      ((∀ h ∈ (ws (idx k) k).holders, h.2 = 1) ∧ (ws (idx k) k).holders.length ≤ rw)) ∧
    (∀ i, i ≠ idx k → ws i k = KS.init) ∧
    ((ws (idx k) k).holders = [] → (ws (idx k) k).waiters = [] → ∀ i, (ws i k).present = false) :=
  sem_wide _ tie_cfg_proved rw hrw idx ws hr k

/-- a sharded run of today's code is a run of the single map (so every single-map theorem transfers) -/
theorem tie_wide_refines (rw : Nat) (idx : Key → Nat) (ws : WState)
    (hr : (MW Nv.Gen.C01.cfg rw idx).Reach ws) : (M Nv.Gen.C01.cfg rw).Reach (wproj idx ws) :=
  sem_wide_refines _ rw idx ws hr

/-- today's sharded maps route only the key kinds `remap.ToBytes` has an arm for: a key outside them is unknown to
    every shard of every reachable state (the call panics before any lock) -/
theorem tie_wide_unroutable (rw : Nat) (idx : Key → Nat) (routable : Key → Bool) (ws : WState)
    (hr : (MWR Nv.Gen.C01.cfg rw idx routable).Reach ws) (k : Key) (hk : routable k = false) (i : Nat) :
    ws i k = KS.init :=
  (sem_wide_unroutable _ rw idx routable ws hr).2 k hk i

/-- today's configuration with ANY router whose answer depends on the key only — whatever internal state it keeps and
    whatever other containers of the process do to it: the shards evolve as in `MW`, the token bound holds and a key
    lives in one shard only (the harness checks purity on the implementation: `wide-routing-changed`, `routing-unstable`) -/
theorem tie_pure_routing {ρ : Type} (rw : Nat) (hrw : 1 ≤ rw) (R : Router ρ) (r0 : ρ) (idx : Key → Nat)
    (hp : R.Pure idx) (s : WState × ρ) (hr : (MWH Nv.Gen.C01.cfg rw R r0).Reach s) (k : Key) :
    (MW Nv.Gen.C01.cfg rw idx).Reach s.1 ∧ wsum (s.1 (idx k) k).holders ≤ rw ∧ (∀ i, i ≠ idx k → s.1 i k = KS.init) :=
  sem_wide_pure_routing _ tie_cfg_proved rw hrw R r0 idx hp s hr k
end Nv.C01
