import Nv.Model.C13
import Nv.Props.C13
import Nv.Gen.C12
import Nv.Gen.C13
/-! C13 — obligations on the definitions regenerated from /repo's current source. -/
namespace Nv.C13
open Nv.C12

theorem tie_facts : Nv.Gen.C13.facts = Facts.expected := by decide
theorem tie_cfg_proved : Proved Nv.Gen.C13.cfg := by decide

/-- the transition system of queue type `k` with the shapes and wake primitives found in the source -/
def genPar (k : Kind) : Par := ⟨k, Nv.Gen.C12.cfg.shape k, Nv.Gen.C12.cfg.syncq, Nv.Gen.C13.cfg.wake k⟩

theorem tie_wake_proved (k : Kind) : ProvedWake (genPar k).kind (genPar k).wk := by
  cases k <;> decide

/-- the property theorems instantiated on the regenerated configuration, for every queue type -/
theorem tie_no_stuck_waiter (k : Kind) (a b : Int) (s : CS) (hr : (lts (genPar k) ((genPar k).newQ a b)).Reach s)
    (hq : s.woken = []) (hp : s.parked ≠ []) : s.q.closed = false ∧ s.q.ctrl = [] ∧ s.q.req = [] :=
  q_no_stuck_waiter (genPar k) (tie_wake_proved k) a b s hr hq hp

theorem tie_close_releases_all (k : Kind) (a b : Int) (s s' : CS) (w : Tid) (as : List Act)
    (hr : (lts (genPar k) ((genPar k).newQ a b)).Reach s)
    (hrun : (lts (genPar k) ((genPar k).newQ a b)).run s (.close w :: as) = some s') (hq : s'.woken = []) :
    ∀ t, (t ∈ tids s.parked ∨ t ∈ tids s.woken) → t ∈ tids s'.done :=
  close_releases_all (genPar k) (tie_wake_proved k) a b s s' w as hr hrun hq

theorem tie_conservation (k : Kind) (a b : Int) (s : CS) (hr : (ltsC (genPar k) ((genPar k).newQ a b)).Reach s) :
    (vals s.done ++ (s.q.ctrl ++ s.q.req)).Perm s.accepted :=
  conc_conservation_perm (genPar k) a b s hr

theorem tie_k_items_k_consumers (k : Kind) (a b : Int) (s : CS) (hr : (ltsC (genPar k) ((genPar k).newQ a b)).Reach s)
    (hq : s.woken = []) (ho : s.q.closed = false) (hk : s.accepted.length = s.parked.length + s.done.length) :
    s.parked = [] ∧ s.q.ctrl = [] ∧ s.q.req = [] ∧ (∀ d ∈ s.done, ∃ v, d.2 = .val v) ∧
    (vals s.done).Perm s.accepted ∧ (s.accepted.Nodup → (vals s.done).Nodup) :=
  k_items_k_consumers_exact (genPar k) (tie_wake_proved k) a b s hr hq ho hk

theorem tie_priq_waitch_readable (cap : Int) (s : PS)
    (hr : (plts Nv.Gen.C12.cfg.priq Nv.Gen.C13.cfg.priq cap).Reach s) (hne : s.q.entries ≠ [])
    (h1 : s.pushGap = 0) (h2 : s.popGap = 0) (h3 : s.holders = 0) : s.token = true :=
  priq_waitch_readable _ _ (by decide) cap s hr hne h1 h2 h3

end Nv.C13
