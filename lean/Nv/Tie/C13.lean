import Nv.Model.C13
import Nv.Gen.C13
/-! C13 — obligations on the definitions regenerated from /repo's current source. -/
namespace Nv.C13
theorem tie_facts : Nv.Gen.C13.facts = Facts.expected := by decide
theorem tie_cfg_proved : Proved Nv.Gen.C13.cfg := by decide
end Nv.C13
