import Nv.Props.C08
import Nv.Gen.C08
/-! C08 — obligations on the definitions regenerated from /repo's current source. -/
namespace Nv.C08
open Nv.Gen.C08

theorem tie_cfg_proved : Proved cfg := by decide
theorem tie_facts : facts = Facts.expected := by decide

/-! the regenerated kernels are the functions the model (and every theorem of `Nv.Props.C08`) is about -/
theorem tie_setI32_sel (i : BitVec 32) : setI32_sel i = selI32 i := rfl
theorem tie_unsetI32_sel (i : BitVec 32) : unsetI32_sel i = selI32 i := rfl
theorem tie_setI16_sel (i : BitVec 16) : setI16_sel i = selI16 i := rfl
theorem tie_unsetI16_sel (i : BitVec 16) : unsetI16_sel i = selI16 i := rfl

/-! the property theorems about set/unset, stated directly on the regenerated kernels -/

/-- regenerated `Bit64.Set` / `Unset`: bit `i` changes iff `i ≤ 63`, nothing else — proved on the kernel itself
    (first by definitional equality with the model, otherwise semantically, e.g. for the guard written `i < 64`) -/
theorem tie_set64_spec (i : BitVec 8) (b : BitVec 64) (j : Nat) :
    (bit64_set i b).getLsbD j = (b.getLsbD j || (decide (i.toNat ≤ 63) && decide (i.toNat = j))) := by
  first
  | exact set64_spec b i j
  | (have h63 : (63#8 : BitVec 8).toNat = 63 := rfl
     have h64 : (64#8 : BitVec 8).toNat = 64 := rfl
     simp only [bit64_set, BitVec.ule_eq_decide, BitVec.ult_eq_decide, h63, h64]
     by_cases h : i.toNat ≤ 63
     · have h' : i.toNat < 64 := by omega
       simp only [h, h', decide_true, if_true, Bool.true_and]
       exact getLsbD_setbit b i.toNat j h'
     · have h' : ¬ i.toNat < 64 := by omega
       simp [h, h'])

theorem tie_unset64_spec (i : BitVec 8) (b : BitVec 64) (j : Nat) :
    (bit64_unset i b).getLsbD j = (b.getLsbD j && !(decide (i.toNat ≤ 63) && decide (i.toNat = j))) := by
  first
  | exact unset64_spec b i j
  | (have h63 : (63#8 : BitVec 8).toNat = 63 := rfl
     have h64 : (64#8 : BitVec 8).toNat = 64 := rfl
     simp only [bit64_unset, BitVec.ule_eq_decide, BitVec.ult_eq_decide, h63, h64]
     by_cases h : i.toNat ≤ 63
     · have h' : i.toNat < 64 := by omega
       simp only [h, h', decide_true, if_true, Bool.true_and]
       exact getLsbD_clear b i.toNat j
     · have h' : ¬ i.toNat < 64 := by omega
       simp [h, h'])

theorem tie_set64 (i : BitVec 8) (b : BitVec 64) : bit64_set i b = set64 b i := by
  first
  | rfl
  | (apply BitVec.eq_of_getLsbD_eq; intro j _; rw [tie_set64_spec, set64_spec])
theorem tie_unset64 (i : BitVec 8) (b : BitVec 64) : bit64_unset i b = unset64 b i := by
  first
  | rfl
  | (apply BitVec.eq_of_getLsbD_eq; intro j _; rw [tie_unset64_spec, unset64_spec])

/-- regenerated index arithmetic of `SetI32`: in range ⇒ (word i/64, bit i%64); otherwise the guard fails or the
    byte handed to `Bit64.Set` exceeds 63 -/
theorem tie_setI32_sel_spec (i : BitVec 32) :
    (0 ≤ i.toInt ∧ i.toInt < 1024 →
      (setI32_sel i).1 = true ∧ (setI32_sel i).2.1.toNat = i.toInt.toNat / 64 ∧ (setI32_sel i).2.2.toNat = i.toInt.toNat % 64) ∧
    (¬(0 ≤ i.toInt ∧ i.toInt < 1024) → (setI32_sel i).1 = false ∨ 63 < (setI32_sel i).2.2.toNat) := selI32_spec i

theorem tie_setI16_sel_spec (i : BitVec 16) :
    (0 ≤ i.toInt ∧ i.toInt < 1024 →
      (setI16_sel i).1 = true ∧ (setI16_sel i).2.1.toNat = i.toInt.toNat / 64 ∧ (setI16_sel i).2.2.toNat = i.toInt.toNat % 64) ∧
    (¬(0 ≤ i.toInt ∧ i.toInt < 1024) → (setI16_sel i).1 = false ∨ 63 < (setI16_sel i).2.2.toNat) := selI16_spec i

end Nv.C08
