import Nv.Model.C08
import Nv.Gen.C08
/-! C08 — obligations on the definitions regenerated from /repo's current source. -/
namespace Nv.C08
open Nv.Gen.C08

theorem tie_cfg_proved : Proved cfg := by decide
theorem tie_facts : facts = Facts.expected := by decide

/-! the regenerated kernels are the functions the model (and every theorem of `Nv.Props.C08`) is about -/
theorem tie_set64 (i : BitVec 8) (b : BitVec 64) : bit64_set i b = set64 b i := rfl
theorem tie_unset64 (i : BitVec 8) (b : BitVec 64) : bit64_unset i b = unset64 b i := rfl
theorem tie_setI32_sel (i : BitVec 32) : setI32_sel i = selI32 i := rfl
theorem tie_unsetI32_sel (i : BitVec 32) : unsetI32_sel i = selI32 i := rfl
theorem tie_setI16_sel (i : BitVec 16) : setI16_sel i = selI16 i := rfl
theorem tie_unsetI16_sel (i : BitVec 16) : unsetI16_sel i = selI16 i := rfl

end Nv.C08
