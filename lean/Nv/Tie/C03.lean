import Nv.Props.C03
import Nv.Gen.C03
/-!
C03 — obligations on the definitions regenerated from /repo's current source, and the property theorems
instantiated at the regenerated configuration (what the code passes to `iterate` today, the comparison
`iterWalk` uses today, the wrapper's degree today).
-/
namespace Nv.C03

theorem tie_facts : Nv.Gen.C03.facts = Facts.expected := by decide
theorem tie_cfg_proved : Proved Nv.Gen.C03.cfg := by decide

/-- `AscendGreaterOrEqual`, `AscendGreater`, `DescendLessOrEqual`, `DescendLess` as written in the source today -/
theorem tie_scan_named (t : Tree) (h : t.ok = true) (p : Int) (cont : Item → Bool) :
    t.scan Nv.Gen.C03.cfg.ascGe (some p) none cont = visited cont (specScan t.inorder .asc (some p) true) ∧
    t.scan Nv.Gen.C03.cfg.ascGt (some p) none cont = visited cont (specScan t.inorder .asc (some p) false) ∧
    t.scan Nv.Gen.C03.cfg.descLe (some p) none cont = visited cont (specScan t.inorder .desc (some p) true) ∧
    t.scan Nv.Gen.C03.cfg.descLt (some p) none cont = visited cont (specScan t.inorder .desc (some p) false) :=
  bt_scan_named _ tie_cfg_proved t h p cont

/-- the wrapper's `AscendGte`, `AscendGt`, `DescendLte`, `DescendLt` as written in the source today -/
theorem tie_iterwalk (t : Tree) (h : t.ok = true) (k : Int) (f : Item → Bool) (n : Nat) :
    wAscendGte Nv.Gen.C03.cfg t k f n = .items (((specScan t.inorder .asc (some k) true).filter f).take n) ∧
    wAscendGt Nv.Gen.C03.cfg t k f n = .items (((specScan t.inorder .asc (some k) false).filter f).take n) ∧
    wDescendLte Nv.Gen.C03.cfg t k f n = .items (((specScan t.inorder .desc (some k) true).filter f).take n) ∧
    wDescendLt Nv.Gen.C03.cfg t k f n = .items (((specScan t.inorder .desc (some k) false).filter f).take n) :=
  bt_iterwalk_spec _ tie_cfg_proved t h k f n

/-- the wrapper's tree starts valid with the degree found in `NewBTree` -/
theorem tie_wrapper_new : (wNew Nv.Gen.C03.cfg).ok = true := bt_wrapper_new _ tie_cfg_proved

end Nv.C03
