import Nv.Model.C03
import Nv.Gen.C03
/-! C03 — obligations on the definitions regenerated from /repo's current source. -/
namespace Nv.C03
theorem tie_facts : Nv.Gen.C03.facts = Facts.expected := by decide
theorem tie_cfg_proved : Proved Nv.Gen.C03.cfg := by decide
end Nv.C03
