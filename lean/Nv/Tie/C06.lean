import Nv.Model.C06
import Nv.Props.C06
import Nv.Gen.C06
/-!
C06 — obligations on the definitions regenerated from /repo's current source (`Nv/Gen/C06.lean`):
the regenerated kernels *are* the model's functions, and the property theorems restated directly on runs of
the regenerated `HardNode.Generate` / `GenIDByTS`.
-/
namespace Nv.C06

theorem tie_facts : Nv.Gen.C06.facts = Facts.expected := by decide

/-- the regenerated `figureShift` is the model's -/
theorem tie_figureShift (nb : BitVec 8) (nal : Bool) :
    Nv.Gen.C06.figureShiftC nb nal = Nv.C06.figureShift nb nal := by
  unfold Nv.Gen.C06.figureShiftC Nv.Gen.C06.figureShift Nv.C06.figureShift; cases nal <;> rfl

theorem tie_figureShift' (nb : BitVec 8) (nal : Bool) :
    Nv.Gen.C06.figureShift nb nal = Nv.C06.figureShift nb nal := tie_figureShift nb nal

theorem tie_idFields (id : BitVec 64) (nb : BitVec 8) (nal : Bool) :
    Nv.Gen.C06.idFieldsC id nb nal = Nv.C06.idFields id nb nal := by
  unfold Nv.Gen.C06.idFieldsC Nv.Gen.C06.iDFields Nv.C06.idFields
  rw [tie_figureShift']

/-- the regenerated `HardNode.Generate` is the model's `hardCore` applied to `now` computed through the
    accessor the extractor classified (`Gen.cfg.nowAcc`) -/
theorem tie_hardGenerate (epoch time node step : BitVec 64) (nb : BitVec 8) (nal : Bool) (w : BitVec 64) :
    Nv.Gen.C06.hardGenerateC epoch time node step w nb nal =
      (let r := hardCore nb nal ⟨epoch, time, node, step⟩ (hardNow Nv.Gen.C06.cfg epoch w)
       (r.2, r.1.time, r.1.step)) := by
  unfold Nv.Gen.C06.hardGenerateC Nv.Gen.C06.hardNode_generate hardCore hardNow join
  simp only [tie_figureShift', Nv.Gen.C06.cfg, accMs]
  split
  · rfl
  · split <;> rfl

theorem tie_nanoGen (ts cur : BitVec 64) :
    Nv.Gen.C06.nanoGenC ts cur = nanoGen ts cur := by
  unfold Nv.Gen.C06.nanoGenC Nv.Gen.C06.unixNanoID_genIDByTS nanoGen; split <;> rfl

theorem tie_nanoNoLockGen (ts cur : BitVec 64) :
    Nv.Gen.C06.nanoNoLockGenC ts cur = nanoGen ts cur := by
  unfold Nv.Gen.C06.nanoNoLockGenC Nv.Gen.C06.unixNanoNoLockID_genIDByTS nanoGen; split <;> rfl

/-! ### the property, on runs of the regenerated kernels -/

/-- successive calls of the regenerated `HardNode.Generate`; `ws` are the words the clock accessor returned -/
def genHardRun (nb : BitVec 8) (nal : Bool) (epoch node : BitVec 64) : BitVec 64 → BitVec 64 → List (BitVec 64) → List (BitVec 64)
  | _, _, [] => []
  | step, time, w :: ws =>
    (Nv.Gen.C06.hardGenerateC epoch time node step w nb nal).1 ::
      genHardRun nb nal epoch node (Nv.Gen.C06.hardGenerateC epoch time node step w nb nal).2.2
        (Nv.Gen.C06.hardGenerateC epoch time node step w nb nal).2.1 ws

theorem hardCore_keeps (nb : BitVec 8) (nal : Bool) (st : HState) (now : BitVec 64) :
    (hardCore nb nal st now).1.epoch = st.epoch ∧ (hardCore nb nal st now).1.node = st.node := by
  unfold hardCore; split
  · exact ⟨rfl, rfl⟩
  · split <;> exact ⟨rfl, rfl⟩

theorem tie_genHardRun (nb : BitVec 8) (nal : Bool) (epoch node : BitVec 64) :
    ∀ (ws : List (BitVec 64)) (step time : BitVec 64),
      genHardRun nb nal epoch node step time ws =
        coreRun nb nal ⟨epoch, time, node, step⟩ (ws.map (hardNow Nv.Gen.C06.cfg epoch))
  | [], _, _ => rfl
  | w :: ws, step, time => by
    have hk := hardCore_keeps nb nal ⟨epoch, time, node, step⟩ (hardNow Nv.Gen.C06.cfg epoch w)
    simp only [genHardRun, List.map_cons, coreRun, tie_hardGenerate]
    rw [tie_genHardRun nb nal epoch node ws]
    congr 2
    cases h : (hardCore nb nal ⟨epoch, time, node, step⟩ (hardNow Nv.Gen.C06.cfg epoch w)).1 with
    | mk e t n s =>
      rw [h] at hk
      simp only at hk
      rw [hk.1, hk.2]

/-- C06 on the regenerated `HardNode.Generate`: strictly increasing, duplicate-free, node field fixed —
    for every sequence of clock words (any clock history), all six layouts -/
theorem tie_hard_strictly_increasing {nb : BitVec 8} (hl : LayoutOk nb) (nal : Bool) (epoch node step time : BitVec 64)
    (ws : List (BitVec 64)) (wf : WF nb ⟨epoch, time, node, step⟩)
    (hw : InWidth nb nal ⟨epoch, time, node, step⟩ (ws.map (hardNow Nv.Gen.C06.cfg epoch))) :
    (genHardRun nb nal epoch node step time ws).Pairwise (fun a b => a.toInt < b.toInt) ∧
    (genHardRun nb nal epoch node step time ws).Nodup ∧
    ∀ id ∈ genHardRun nb nal epoch node step time ws, (Nv.Gen.C06.idFieldsC id nb nal).2.1 = node := by
  rw [tie_genHardRun]
  refine ⟨hard_strictly_increasing hl nal _ _ wf hw, hard_unique hl nal _ _ wf hw, fun id h => ?_⟩
  rw [tie_idFields]; exact hard_node_field hl nal _ _ wf hw id h

/-- successive calls of the regenerated `GenIDByTS` -/
def genNanoRun : BitVec 64 → List (BitVec 64) → List (BitVec 64)
  | _, [] => []
  | cur, ts :: rest => (Nv.Gen.C06.nanoGenC ts cur).1 :: genNanoRun (Nv.Gen.C06.nanoGenC ts cur).2 rest

theorem tie_genNanoRun : ∀ (tss : List (BitVec 64)) (cur : BitVec 64), genNanoRun cur tss = nanoRun cur tss
  | [], _ => rfl
  | ts :: rest, cur => by simp only [genNanoRun, nanoRun, tie_nanoGen, tie_genNanoRun rest]

theorem tie_nano_strictly_increasing (tss : List (BitVec 64)) (cur : BitVec 64) (h : NanoBelowMax cur tss) :
    (genNanoRun cur tss).Pairwise (fun a b => a.toInt < b.toInt) := by
  rw [tie_genNanoRun]; exact nano_strictly_increasing tss cur h

/-- the accessor facts found in the source are inside the proved set (fails on a tree that still converts
    through `UnixNano`: see `witness_unixNano_stamp_before_clock`) -/
theorem tie_cfg_proved : Proved Nv.Gen.C06.cfg := by decide

/-- C06 on the regenerated kernel: no id carries a timestamp earlier than the clock reading -/
theorem tie_hard_ts_ge_clock {nb : BitVec 8} (hl : LayoutOk nb) (nal : Bool) (ts : List Clock) (st : HState) (wf : WF nb st)
    (hok : ∀ t ∈ ts, ClockOk st.epoch t)
    (hw : InWidth nb nal st (ts.map (fun t => hardNow Nv.Gen.C06.cfg st.epoch (accWord Nv.Gen.C06.cfg.nowAcc t)))) :
    ∀ p ∈ List.zip ts (genHardRun nb nal st.epoch st.node st.step st.time (ts.map (accWord Nv.Gen.C06.cfg.nowAcc))),
      p.1.ms - st.epoch.toInt ≤ (Nv.Gen.C06.idFieldsC p.2 nb nal).1.toInt := by
  intro p hp
  rw [tie_genHardRun, List.map_map] at hp
  rw [tie_idFields]
  have := hard_ts_ge_clock tie_cfg_proved hl nal ts st wf hok hw p
  rw [hardRun_eq_coreRun] at this
  exact this hp

end Nv.C06
