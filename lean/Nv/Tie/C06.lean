import Nv.Model.C06
import Nv.Gen.C06
/-! C06 — obligations on the definitions regenerated from /repo's current source. -/
namespace Nv.C06
open Nv.Gen.C06

theorem tie_facts : Nv.Gen.C06.facts = Facts.expected := by decide

/-- the regenerated `figureShift` is the model's -/
theorem tie_figureShift (nb : BitVec 8) (nal : Bool) :
    Nv.Gen.C06.figureShift nb nal = Nv.C06.figureShift nb nal := by
  unfold Nv.Gen.C06.figureShift Nv.C06.figureShift; cases nal <;> rfl

theorem tie_idFields (id : BitVec 64) (nb : BitVec 8) (nal : Bool) :
    Nv.Gen.C06.iDFields id nb nal = Nv.C06.idFields id nb nal := by
  unfold Nv.Gen.C06.iDFields Nv.C06.idFields
  rw [tie_figureShift]

/-- the regenerated `HardNode.Generate` is the model's `hardCore` applied to `now` computed by the
    accessor the extractor classified -/
theorem tie_hardGenerate (step time epoch node : BitVec 64) (nb : BitVec 8) (nal : Bool) (w : BitVec 64) :
    Nv.Gen.C06.hardNode_generate step time epoch node nb nal w =
      (let r := hardCore nb nal ⟨epoch, time, node, step⟩ (hardNow Nv.Gen.C06.cfg epoch w)
       (r.2, r.1.step, r.1.time)) := by
  unfold Nv.Gen.C06.hardNode_generate hardCore hardNow join
  simp only [tie_figureShift, Nv.Gen.C06.cfg, accMs]
  split
  · rfl
  · split <;> rfl

theorem tie_nanoGen (ts cur : BitVec 64) :
    Nv.Gen.C06.unixNanoID_genIDByTS ts cur = nanoGen ts cur := by
  unfold Nv.Gen.C06.unixNanoID_genIDByTS nanoGen; split <;> rfl

theorem tie_nanoNoLockGen (ts cur : BitVec 64) :
    Nv.Gen.C06.unixNanoNoLockID_genIDByTS ts cur = nanoGen ts cur := by
  unfold Nv.Gen.C06.unixNanoNoLockID_genIDByTS nanoGen; split <;> rfl

theorem tie_cfg_proved : Proved Nv.Gen.C06.cfg := by decide

end Nv.C06
