import Nv.Model.C18
import Nv.Gen.C18
/-! C18 — obligations on the definitions regenerated from /repo's current source. -/
namespace Nv.C18
theorem tie_facts : Nv.Gen.C18.facts = Facts.expected := by decide
theorem tie_cfg_proved : Proved Nv.Gen.C18.cfg := by decide
end Nv.C18
