import Nv.Model.C05
import Nv.Gen.C05
/-! C05 — obligations on the definitions regenerated from /repo's current source. -/
namespace Nv.C05
theorem tie_facts : Nv.Gen.C05.facts = Facts.expected := by decide
theorem tie_cfg_proved : Proved Nv.Gen.C05.cfg := by decide
end Nv.C05
