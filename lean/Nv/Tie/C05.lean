import Nv.Model.C05
import Nv.Spec.C05
import Nv.Gen.C05
/-! C05 — obligations on the definitions regenerated from /repo's current source. -/
namespace Nv.C05
theorem tie_facts : Nv.Gen.C05.facts = Facts.expected := by decide
theorem tie_cfg_proved : Proved Nv.Gen.C05.cfg := by decide

/-- the named atomicity assumption of the concurrency theorems holds for the facts regenerated from the source:
    Lock + deferred Unlock first in every public method of the in-memory cache; a consuming read is one GETDEL -/
theorem tie_atomic_calls : AtomicCalls Nv.Gen.C05.facts := ⟨by decide, by decide⟩

/-- The translated kernel `deadline(ttl)` (BitVec 64, Go semantics; `now()` is the parameter `now`) and the
    comparison `now() > node.deadline` of `get()` are what the model calls `deadline` / `expired`, for every
    ttl and every clock reading `t`, provided `now + ttl` does not overflow int64 (for `ttl ≤ 0` always). -/
theorem tie_deadline_kernel (ttl now t : BitVec 64) (hno : ttl.toInt ≤ 0 ∨ now.toInt + ttl.toInt < 2^63) :
    (Nv.Gen.C05.deadline ttl now).slt t = expired t.toInt (deadline now.toInt ttl.toInt) := by
  unfold Nv.Gen.C05.deadline deadline
  have hb := BitVec.toInt_lt (x := t)
  have hn := BitVec.le_toInt (x := now)
  by_cases h : ttl.toInt ≤ 0
  · have : BitVec.sle ttl 0#64 = true := by rw [BitVec.sle_iff_toInt_le]; simpa using h
    simp only [this, if_true, h, expired]
    rw [Bool.eq_false_iff]
    intro hh
    rw [BitVec.slt_iff_toInt_lt] at hh
    have : (9223372036854775807#64 : BitVec 64).toInt = 9223372036854775807 := by decide
    omega
  · have : BitVec.sle ttl 0#64 = false := by
      rw [Bool.eq_false_iff]; intro hh; rw [BitVec.sle_iff_toInt_le] at hh; exact h (by simpa using hh)
    simp only [this, Bool.false_eq_true, if_false, h, expired]
    have hadd : (now + ttl).toInt = now.toInt + ttl.toInt := by
      rw [BitVec.toInt_add, Int.bmod_def]
      rcases hno with h1 | h1
      · exact absurd h1 h
      · omega
    rw [Bool.eq_iff_iff, BitVec.slt_iff_toInt_lt, hadd]
    simp

/-- non-vacuity: ttl 60 at clock 1700000000 gives deadline 1700000060, elapsed at 1700000061 and not before -/
example : (Nv.Gen.C05.deadline 60#64 1700000000#64).slt 1700000061#64 = true ∧
    (Nv.Gen.C05.deadline 60#64 1700000000#64).slt 1700000060#64 = false := by decide
end Nv.C05
