import Nv.Model.C12
import Nv.Gen.C12
/-! C12 — obligations on the definitions regenerated from /repo's current source. -/
namespace Nv.C12
theorem tie_facts : Nv.Gen.C12.facts = Facts.expected := by decide
theorem tie_cfg_proved : Proved Nv.Gen.C12.cfg := by decide
end Nv.C12
