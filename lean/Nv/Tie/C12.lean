import Nv.Model.C12
import Nv.Props.C12
import Nv.Gen.C12
/-! C12 — obligations on the definitions regenerated from /repo's current source. -/
namespace Nv.C12
theorem tie_facts : Nv.Gen.C12.facts = Facts.expected := by decide
theorem tie_cfg_proved : Proved Nv.Gen.C12.cfg := by decide

/-- the machine the oracle runs (regenerated configuration) is the machine the theorems are about -/
theorem tie_step_expected : step Nv.Gen.C12.cfg = step Cfg.expected := by rw [show Nv.Gen.C12.cfg = Cfg.expected from tie_cfg_proved]
theorem tie_pstep_expected : pstep Nv.Gen.C12.cfg.priq = pstep PriShape.expected := by
  rw [show Nv.Gen.C12.cfg = Cfg.expected from tie_cfg_proved]; rfl

/-- conservation, on the regenerated configuration -/
theorem tie_conservation (ops : List Op) (s : LQ) (y : Nat) :
    (final (step Nv.Gen.C12.cfg) s ops).items.count y + poppedIn y s ops = s.items.count y + addedIn y s ops :=
  q_conservation _ tie_cfg_proved ops s y
/-- FIFO for every history, on the regenerated configuration -/
theorem tie_fifo_history (ops : List Op) (s : LQ) (hc : s.ctrl = []) (hops : ∀ op ∈ ops, noFront op = true) :
    poppedSeq Nv.Gen.C12.cfg s ops ++ (final (step Nv.Gen.C12.cfg) s ops).req = s.req ++ acceptedSeq Nv.Gen.C12.cfg s ops :=
  q_fifo_history _ tie_cfg_proved ops s hc hops
end Nv.C12
