import Nv.Model.C04
import Nv.Gen.C04
/-! C04 — obligations on the definitions regenerated from /repo's current source. -/
namespace Nv.C04

theorem tie_facts : Nv.Gen.C04.factsSized = Facts.expected ∧ Nv.Gen.C04.factsTiny = Facts.expected := by decide

theorem tie_cfg_proved : Proved .sized Nv.Gen.C04.cfgSized ∧ Proved .tiny Nv.Gen.C04.cfgTiny := by decide

/-- the two shapes of the per-shard capacity kernel the theorems below cover: today's `capacity/numbs + 1`
    and the saturating `p := capacity/numbs; if p < MaxInt64 { p++ }` -/
def KernelShape (k : BitVec 64 → BitVec 64 → BitVec 64) : Prop :=
  (∀ a b, k a b = BitVec.sdiv a b + 1#64) ∨
  (∀ a b, k a b = if (BitVec.sdiv a b).slt 9223372036854775807#64 then BitVec.sdiv a b + 1#64 else BitVec.sdiv a b)

def Saturating (k : BitVec 64 → BitVec 64 → BitVec 64) : Prop :=
  ∀ a b, k a b = if (BitVec.sdiv a b).slt 9223372036854775807#64 then BitVec.sdiv a b + 1#64 else BitVec.sdiv a b

theorem sdiv_facts (cap n : BitVec 64) (hc : 0 ≤ cap.toInt) (hn : 0 < n.toInt) :
    (BitVec.sdiv cap n).toInt = cap.toInt.tdiv n.toInt ∧ 0 ≤ cap.toInt.tdiv n.toInt ∧
      cap.toInt.tdiv n.toInt ≤ cap.toInt ∧ cap.toInt.tdiv n.toInt * n.toInt ≤ cap.toInt := by
  have hne : cap ≠ BitVec.intMin 64 := by
    intro h; rw [h] at hc; simp [BitVec.toInt_intMin] at hc
  refine ⟨BitVec.toInt_sdiv_of_ne_or_ne _ _ (Or.inl hne), Int.tdiv_nonneg hc (by omega), ?_, ?_⟩
  · rw [Int.tdiv_eq_ediv_of_nonneg hc]; exact Int.ediv_le_self _ hc
  · rw [Int.tdiv_eq_ediv_of_nonneg hc]; exact Int.ediv_mul_le _ (by omega)

theorem add_one_toInt (q : BitVec 64) (h0 : 0 ≤ q.toInt) (h1 : q.toInt + 1 < 2 ^ 63) : (q + 1#64).toInt = q.toInt + 1 := by
  rw [BitVec.toInt_add]
  have : (1#64 : BitVec 64).toInt = 1 := by decide
  rw [this]
  apply Int.bmod_eq_of_le <;> omega

/-- 64-bit per-shard capacity is the model's `shardCap` whenever `capacity/shards + 1` does not overflow
    (it overflows only for capacity = MaxInt64 with a single shard) -/
theorem shardCap_kernel (k : BitVec 64 → BitVec 64 → BitVec 64) (hk : KernelShape k)
    (cap n : BitVec 64) (hc : 0 ≤ cap.toInt) (hn : 0 < n.toInt)
    (hov : cap.toInt < 2 ^ 63 - 1 ∨ 2 ≤ n.toInt) :
    (k cap n).toInt = shardCap cap.toInt n.toNat ∧ 0 < (k cap n).toInt := by
  have hcl := BitVec.toInt_lt (x := cap)
  have hnat : (n.toNat : Int) = n.toInt := by
    have := BitVec.toInt_eq_toNat_of_lt (x := n) (by
      have := BitVec.toInt_eq_toNat_cond n
      split at this <;> omega)
    omega
  obtain ⟨hs, hq0, hqle, hmul⟩ := sdiv_facts cap n hc hn
  have hq : cap.toInt.tdiv n.toInt + 1 < 2 ^ 63 := by
    rcases hov with h | h
    · omega
    · have h2 : cap.toInt.tdiv n.toInt * 2 ≤ cap.toInt.tdiv n.toInt * n.toInt :=
        Int.mul_le_mul_of_nonneg_left h hq0
      omega
  have hval : (k cap n).toInt = cap.toInt.tdiv n.toInt + 1 := by
    rcases hk with hk | hk
    · rw [hk, add_one_toInt _ (by omega) (by omega), hs]
    · have hlt : (BitVec.sdiv cap n).slt 9223372036854775807#64 = true := by
        rw [BitVec.slt_iff_toInt_lt, hs]
        have : (9223372036854775807#64 : BitVec 64).toInt = 2 ^ 63 - 1 := by decide
        rw [this]; omega
      rw [hk, hlt, if_pos rfl, add_one_toInt _ (by omega) (by omega), hs]
  refine ⟨?_, by omega⟩
  rw [hval, shardCap, hnat]

/-- with the saturating kernel the per-shard capacity is positive for EVERY capacity ≥ 0 and shard count ≥ 1 -/
theorem saturating_positive (k : BitVec 64 → BitVec 64 → BitVec 64) (hk : Saturating k)
    (cap n : BitVec 64) (hc : 0 ≤ cap.toInt) (hn : 0 < n.toInt) : 0 < (k cap n).toInt := by
  obtain ⟨hs, hq0, hqle, -⟩ := sdiv_facts cap n hc hn
  have hmax : (9223372036854775807#64 : BitVec 64).toInt = 2 ^ 63 - 1 := by decide
  rw [hk]
  split
  · rename_i h
    rw [BitVec.slt_iff_toInt_lt, hs, hmax] at h
    rw [add_one_toInt _ (by omega) (by omega), hs]; omega
  · rename_i h
    have : ¬ ((BitVec.sdiv cap n).toInt < (9223372036854775807#64 : BitVec 64).toInt) := by
      rw [← BitVec.slt_iff_toInt_lt]; exact h
    rw [hs, hmax] at this
    rw [hs]; omega

theorem tie_pSize (cap n : BitVec 64) (hc : 0 ≤ cap.toInt) (hn : 0 < n.toInt)
    (hov : cap.toInt < 2 ^ 63 - 1 ∨ 2 ≤ n.toInt) :
    (Nv.Gen.C04.pSize cap n).toInt = shardCap cap.toInt n.toNat ∧ 0 < (Nv.Gen.C04.pSize cap n).toInt :=
  shardCap_kernel Nv.Gen.C04.pSize (by first | exact Or.inl (fun _ _ => rfl) | exact Or.inr (fun _ _ => rfl)) cap n hc hn hov

theorem tie_pSize_tiny (cap n : BitVec 64) (hc : 0 ≤ cap.toInt) (hn : 0 < n.toInt)
    (hov : cap.toInt < 2 ^ 63 - 1 ∨ 2 ≤ n.toInt) :
    (Nv.Gen.C04.pSizeTiny cap n).toInt = shardCap cap.toInt n.toNat ∧ 0 < (Nv.Gen.C04.pSizeTiny cap n).toInt :=
  shardCap_kernel Nv.Gen.C04.pSizeTiny (by first | exact Or.inl (fun _ _ => rfl) | exact Or.inr (fun _ _ => rfl)) cap n hc hn hov

/-- FULL quantifier of the property (capacity ≥ 0, any shard count ≥ 1): every shard gets a positive capacity.
    False for `capacity/numbs + 1` (capacity = MaxInt64, one shard: `Nv.C04.witness_shard_capacity_overflow`);
    holds for the saturating form. -/
theorem tie_pSize_positive (cap n : BitVec 64) (hc : 0 ≤ cap.toInt) (hn : 0 < n.toInt) :
    0 < (Nv.Gen.C04.pSize cap n).toInt ∧ 0 < (Nv.Gen.C04.pSizeTiny cap n).toInt :=
  ⟨saturating_positive Nv.Gen.C04.pSize (fun _ _ => rfl) cap n hc hn,
   saturating_positive Nv.Gen.C04.pSizeTiny (fun _ _ => rfl) cap n hc hn⟩

end Nv.C04
