import Nv.Model.C04
import Nv.Gen.C04
/-! C04 — obligations on the definitions regenerated from /repo's current source. -/
namespace Nv.C04
theorem tie_facts : Nv.Gen.C04.factsSized = Facts.expected ∧ Nv.Gen.C04.factsTiny = Facts.expected := by decide
theorem tie_cfg_proved : Proved .sized Nv.Gen.C04.cfgSized ∧ Proved .tiny Nv.Gen.C04.cfgTiny := by decide
end Nv.C04
