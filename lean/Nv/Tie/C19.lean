import Nv.Model.C19
import Nv.Gen.C19
/-! C19 — obligations on the definitions regenerated from /repo's current source. -/
namespace Nv.C19
theorem tie_facts : Nv.Gen.C19.facts = Facts.expected := by decide
theorem tie_cfg_proved : Proved Nv.Gen.C19.cfg := by decide
end Nv.C19
