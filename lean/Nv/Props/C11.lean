import Nv.Model.C11
import Nv.Spec.C11
/-! C11 — property theorems (first milestone: witnesses only; the refinement proof follows). -/
namespace Nv.C11

/-- today's comparison (`r < utf8.RuneSelf` on the signed rune): `WriteRune(-1)` stores the single byte FF … -/
theorem witness_signed_negative_rune :
    ((step ⟨.signed, .half, 64, 512⟩ St.zero (.writeRune (-1))).1.data, (step ⟨.signed, .half, 64, 512⟩ St.zero (.writeRune (-1))).2)
      = ([0xFF], .nErr 1 .nil) := by decide

/-- … while the abstract buffer (bytes.Buffer) stores U+FFFD -/
theorem witness_spec_negative_rune :
    ((Spec.step Spec.SSt.empty (.writeRune (-1))).1.data, (Spec.step Spec.SSt.empty (.writeRune (-1))).2)
      = ([0xEF, 0xBF, 0xBD], .nErr 3 .nil) := by decide

end Nv.C11
