import Nv.Proofs.C11Step
/-!
C11 — property theorems: the implementation-shaped model of `tex.Buffer` (`Nv.Model.C11`, configuration `c`
ranging over `Proved`) refines the abstract byte buffer (`Nv.Spec.C11`, = what `bytes.Buffer` does) on every
operation sequence of the shared interface — same results, errors, panics and unread contents after every step —
except `Unread*` issued while a `Grow` is the last operation that did not (re)assign `lastRead`
(the property's own exclusion; pure observers `Len/Bytes/String` in between do not lift it).
Scripted readers are those whose output does not depend on the size of the slice they are offered (chunks ≤ MinRead, or
greedy): that size is `cap-len`, i.e. capacity policy, which the property leaves open (`Cap()` is not compared);
`witness_reader_depends_on_space` shows what happens outside. `ReWrite` and `NewSizedBuffer` have their own theorems. All statements are over all inputs and all histories.
-/
namespace Nv.C11
open Spec

/-- result of a step together with the unread contents after it (`Len` is its length) -/
def implObs (c : Cfg) (i : St) (op : Op) : St × (Out × Bytes) :=
  ((step c i op).1, ((step c i op).2, (step c i op).1.data))

def specObs (s : SSt) (op : Op) : SSt × (Out × Bytes) :=
  ((Spec.step s op).1, ((Spec.step s op).2, (Spec.step s op).1.data))

/-- no `UnreadByte/UnreadRune` while tainted by a `Grow` (`t` = taint at the start of the list) -/
def NoUnreadAfterGrow : Bool → List Op → Prop
  | _, [] => True
  | t, op :: rest => ¬ (t = true ∧ isUnread op = true) ∧ NoUnreadAfterGrow (taintAfter t op) rest

instance : ∀ t ops, Decidable (NoUnreadAfterGrow t ops)
  | _, [] => isTrue trivial
  | t, op :: rest => by
    unfold NoUnreadAfterGrow
    have := instDecidableNoUnreadAfterGrow (taintAfter t op) rest
    exact inferInstance

/-- memory suffices along the run: the model reports `ErrTooLarge` only where the request itself exceeds the
    allocation limit (a `Grow(n)` with `n > allocLimit`) -/
def MemOk (c : Cfg) : St → List Op → Prop
  | _, [] => True
  | i, op :: rest => ((step c i op).2 = .panic .tooLarge → opTooLarge op) ∧ MemOk c (step c i op).1 rest

instance (c : Cfg) : ∀ i ops, Decidable (MemOk c i ops)
  | _, [] => isTrue trivial
  | i, op :: rest => by
    unfold MemOk
    have := instDecidableMemOk c (step c i op).1 rest
    exact inferInstance

/-- **refinement, one step**: from related states a shared operation yields the same output and related states -/
theorem texbuf_step_refines (c : Cfg) (hc : Proved c) {t : Bool} {i : St} {s : SSt} (R : Rel t i s) (op : Op)
    (hcom : Common c op) (hun : ¬ (t = true ∧ isUnread op = true))
    (hmem : (step c i op).2 = .panic .tooLarge → opTooLarge op) :
    (step c i op).2 = (Spec.step s op).2 ∧ (step c i op).1.data = (Spec.step s op).1.data ∧
    Rel (taintAfter t op) (step c i op).1 (Spec.step s op).1 := by
  have k := sim_step hc R op hcom hun hmem
  exact ⟨k.1, by rw [St.data, k.2.data], k.2⟩

/-- **refinement, all histories**, from any pair of related states -/
theorem texbuf_refines_from (c : Cfg) (hc : Proved c) :
    ∀ (ops : List Op) (t : Bool) (i : St) (s : SSt), Rel t i s → (∀ op ∈ ops, Common c op) →
      NoUnreadAfterGrow t ops → MemOk c i ops → outs (implObs c) i ops = outs specObs s ops
  | [], _, _, _, _, _, _, _ => rfl
  | op :: rest, t, i, s, R, hcom, hun, hmem => by
    have k := texbuf_step_refines c hc R op (hcom op (by simp)) hun.1 hmem.1
    simp only [outs_cons, implObs, specObs]
    rw [k.1, k.2.1]
    congr 1
    exact texbuf_refines_from c hc rest _ _ _ k.2.2 (fun o ho => hcom o (by simp [ho])) hun.2 hmem.2

/-- **C11, main theorem**: a zero `tex.Buffer` and a zero `bytes.Buffer` driven by the same operations -/
theorem texbuf_refines (c : Cfg) (hc : Proved c) (ops : List Op) (hcom : ∀ op ∈ ops, Common c op)
    (hun : NoUnreadAfterGrow false ops) (hmem : MemOk c St.zero ops) :
    outs (implObs c) St.zero ops = outs specObs SSt.empty ops :=
  texbuf_refines_from c hc ops false _ _ rel_zero hcom hun hmem

/-- the same from `NewBuffer(content)` with any spare capacity -/
theorem texbuf_refines_newBuffer (c : Cfg) (hc : Proved c) (content : Bytes) (extra : Nat)
    (hfit : content.length + extra ≤ allocLimit) (ops : List Op) (hcom : ∀ op ∈ ops, Common c op)
    (hun : NoUnreadAfterGrow false ops) (hmem : MemOk c (St.ofBytes content extra) ops) :
    outs (implObs c) (St.ofBytes content extra) ops = outs specObs (SSt.ofBytes content) ops :=
  texbuf_refines_from c hc ops false _ _
    ⟨⟨by simp [St.ofBytes], by simp [St.ofBytes], by simpa [St.ofBytes] using hfit, by simp [St.ofBytes]⟩,
     by simp [St.ofBytes, SSt.ofBytes], fun _ => rfl⟩ hcom hun hmem

/-- the state `NewSizedBuffer(size)` ends in is related to the empty abstract buffer -/
theorem sized_rel (size : Nat) (hfit : size ≤ allocLimit) : Rel false (St.sized size) SSt.empty :=
  ⟨⟨by simp [St.sized], by simp [St.sized], by simpa [St.sized] using hfit, by simp [St.sized]⟩, rfl, fun _ => rfl⟩

/-- the constructor's body (`make([]byte, size)`, `&Buffer{buf: buf}`, `b.Reset()`) evaluates to `St.sized` -/
theorem newSizedBuffer_eq (size : Int) (h0 : 0 ≤ size) (h1 : size ≤ (allocLimit : Int)) :
    newSizedBuffer size = (St.sized size.toNat, .ok) := by
  have hc : ¬ (size < 0 ∨ size > (allocLimit : Int)) := by omega
  unfold newSizedBuffer
  rw [if_neg hc]
  rfl

/-- **NewSizedBuffer** (derived from the model of its body, not from a definition): for every admissible size the
    call returns normally with an empty buffer (`Len() = 0`, `Bytes()` empty) whose capacity is at least the requested
    size, and which from then on behaves like an empty `bytes.Buffer` (`texbuf_refines_sized`) -/
theorem sized_buffer (size : Int) (h0 : 0 ≤ size) (h1 : size ≤ (allocLimit : Int)) :
    (newSizedBuffer size).2 = .ok ∧ (newSizedBuffer size).1.data = [] ∧ (newSizedBuffer size).1.buf.length = 0 ∧
    size ≤ ((newSizedBuffer size).1.cap : Int) ∧ Rel false (newSizedBuffer size).1 SSt.empty := by
  rw [newSizedBuffer_eq size h0 h1]
  refine ⟨rfl, rfl, rfl, ?_, sized_rel _ (by omega)⟩
  simp only [St.sized]; omega

/-- a negative size, or one the runtime cannot allocate, panics in `make` (no buffer exists afterwards) -/
theorem sized_buffer_invalid (size : Int) (h : size < 0 ∨ size > (allocLimit : Int)) :
    (newSizedBuffer size).2 = .panic .makeslice := by
  unfold newSizedBuffer; rw [if_pos h]

theorem texbuf_refines_sized (c : Cfg) (hc : Proved c) (size : Nat) (hfit : size ≤ allocLimit) (ops : List Op)
    (hcom : ∀ op ∈ ops, Common c op) (hun : NoUnreadAfterGrow false ops) (hmem : MemOk c (St.sized size) ops) :
    outs (implObs c) (St.sized size) ops = outs specObs SSt.empty ops :=
  texbuf_refines_from c hc ops false _ _ (sized_rel size hfit) hcom hun hmem

/-- each of the five growth paths keeps the unread bytes in front of the write index and makes room for `n` more;
    a failed growth (`ErrTooLarge`) leaves them untouched. Holds for every configuration. -/
theorem texbuf_grow_paths (c : Cfg) (hs : c.small ≤ allocLimit) (s : St) (n : Nat) (h : Inv s) :
    match grow c s n with
    | (s', some m) => Inv s' ∧ s'.off ≤ m ∧ s'.buf.length = m + n ∧ (s'.buf.take m).drop s'.off = s.data
    | (s', none) => Inv s' ∧ s'.data = s.data := by
  cases hg : grow c s n with
  | mk s' r =>
    cases r with
    | some m => have g := grow_some hs h hg; exact ⟨g.inv, g.off_le, g.len, g.data⟩
    | none => have k := grow_none h hg; exact ⟨k.inv, k.data⟩

/-- the storage invariant `off ≤ len ≤ cap` survives every shared operation (no hypothesis on memory or taint) -/
theorem texbuf_inv_step (c : Cfg) (hc : Proved c) {t : Bool} {i : St} {s : SSt} (R : Rel t i s) (op : Op)
    (hcom : Common c op) (hun : ¬ (t = true ∧ isUnread op = true))
    (hmem : (step c i op).2 = .panic .tooLarge → opTooLarge op) : Inv (step c i op).1 :=
  (sim_step hc R op hcom hun hmem).2.inv


/-! ### ReadFrom and empty reads -/

/-- what a scripted reader hands over does not depend on interleaved `(0, nil)` reads -/
theorem delivered_ignores_empty_reads (greedy : Bool) (tail : Nat) :
    ∀ (sizes : List Nat) (data : Bytes),
      delivered greedy (sizes.filter (· ≠ 0)) tail data = delivered greedy sizes tail data
  | [], _ => rfl
  | k :: sizes, data => by
    by_cases hk : k = 0
    · subst hk
      have ih := delivered_ignores_empty_reads greedy tail sizes data
      simpa [delivered] using ih
    · have ih := delivered_ignores_empty_reads greedy tail sizes (data.drop k)
      simpa [hk, delivered] using ih

/-- the same reader without its empty reads -/
def Reader.withoutEmptyReads (r : Reader) : Reader := { r with sizes := r.sizes.filter (· ≠ 0) }

/-- **ReadFrom keeps reading through empty reads**: a `(0, nil)` answer changes nothing and the loop continues, however
    many of them come in a row — result, error and contents are those of the reader with the empty reads removed
    (`bytes.Buffer` gives up on no count of them; only `io.EOF` or an error ends the loop) -/
theorem readFrom_ignores_empty_reads (c : Cfg) (hc : Proved c) {t : Bool} {i : St} {s : SSt} (R : Rel t i s) (r : Reader)
    (hcom : Common c (.readFrom r))
    (hmem : (step c i (.readFrom r)).2 ≠ .panic .tooLarge)
    (hmem' : (step c i (.readFrom r.withoutEmptyReads)).2 ≠ .panic .tooLarge) :
    (step c i (.readFrom r)).2 = (step c i (.readFrom r.withoutEmptyReads)).2 ∧
    (step c i (.readFrom r)).1.data = (step c i (.readFrom r.withoutEmptyReads)).1.data := by
  have hcom' : Common c (.readFrom r.withoutEmptyReads) :=
    ⟨fun k hk => hcom.1 k (List.mem_filter.1 hk).1, hcom.2⟩
  have a := texbuf_step_refines c hc R (.readFrom r) hcom (by simp [isUnread]) (fun h => absurd h hmem)
  have b := texbuf_step_refines c hc R (.readFrom r.withoutEmptyReads) hcom' (by simp [isUnread]) (fun h => absurd h hmem')
  have e : Spec.step s (.readFrom r.withoutEmptyReads) = Spec.step s (.readFrom r) := by
    simp only [Spec.step, Reader.withoutEmptyReads, delivered_ignores_empty_reads]
  rw [a.1, a.2.1, b.1, b.2.1, e]
  exact ⟨rfl, rfl⟩

/-- 101 empty reads in a row between two chunks: all three bytes arrive, no error -/
example : (outs (implObs ⟨.unsigned, .half, 4, 4⟩) St.zero
    [.readFrom ⟨[1, 2, 3], [1] ++ List.replicate 101 0 ++ [1], 4, .eof, false⟩]) = [(.nErr 3 .nil, [1, 2, 3])] := by decide

/-! ### the exclusion in the property's literal wording -/

def isGrow : Op → Bool
  | .grow _ => true
  | _ => false

def isObserver : Op → Bool
  | .len | .bytes | .string => true
  | _ => false

/-- "no UnreadByte/UnreadRune issued directly after Grow" -/
def NoUnreadDirectlyAfterGrow : List Op → Prop
  | a :: b :: rest => ¬ (isGrow a = true ∧ isUnread b = true) ∧ NoUnreadDirectlyAfterGrow (b :: rest)
  | _ => True

theorem taintAfter_of_mutator (c : Cfg) (t : Bool) (op : Op) (hcom : Common c op) (hobs : isObserver op = false) :
    taintAfter t op = isGrow op := by
  cases op <;> simp_all [taintAfter, isGrow, isObserver, Common]

/-- for scripts of mutating operations the literal wording is exactly the taint condition -/
theorem noUnreadAfterGrow_of_literal (c : Cfg) :
    ∀ (ops : List Op) (t : Bool), (∀ op ∈ ops, Common c op ∧ isObserver op = false) →
      NoUnreadDirectlyAfterGrow ops → (t = true → ∀ op ∈ ops.head?, isUnread op = false) → NoUnreadAfterGrow t ops
  | [], _, _, _, _ => trivial
  | [op], t, _, _, ht => ⟨fun h => by have := ht h.1 op (by simp); simp [this] at h, trivial⟩
  | a :: b :: rest, t, hall, hlit, ht => by
    refine ⟨fun h => by have := ht h.1 a (by simp); simp [this] at h, ?_⟩
    apply noUnreadAfterGrow_of_literal c (b :: rest) _ (fun o ho => hall o (by simp [ho])) hlit.2
    intro hta o ho
    simp only [List.head?_cons, Option.mem_def, Option.some.injEq] at ho
    subst ho
    rw [taintAfter_of_mutator c t a (hall a (by simp)).1 (hall a (by simp)).2] at hta
    cases hu : isUnread b with
    | false => rfl
    | true => exact absurd ⟨hta, hu⟩ hlit.1

/-- **C11 in the property's wording**: sequences of mutating operations with no Unread* directly after a Grow -/
theorem texbuf_refines_literal (c : Cfg) (hc : Proved c) (ops : List Op)
    (hcom : ∀ op ∈ ops, Common c op ∧ isObserver op = false)
    (hun : NoUnreadDirectlyAfterGrow ops) (hmem : MemOk c St.zero ops) :
    outs (implObs c) St.zero ops = outs specObs SSt.empty ops :=
  texbuf_refines c hc ops (fun o ho => (hcom o ho).1)
    (noUnreadAfterGrow_of_literal c ops false hcom hun (fun h => by cases h)) hmem

/-! ### ReWrite -/

/-- `ReWrite(pos, p)` with `0 ≤ pos ≤ len(buf)`: storage index `j` holds `p[j-pos]` for `pos ≤ j < pos+|p|`
    (as far as the storage reaches) and is unchanged elsewhere; length, offset, capacity, lastRead untouched -/
theorem rewrite_exact (s : St) (pos : Nat) (p : Bytes) (hpos : pos ≤ s.buf.length) :
    (rewrite s pos p).2 = .ok ∧
    (rewrite s pos p).1.buf.length = s.buf.length ∧
    (rewrite s pos p).1.off = s.off ∧ (rewrite s pos p).1.cap = s.cap ∧
    (rewrite s pos p).1.lastRead = s.lastRead ∧
    ∀ j, j < s.buf.length →
      (rewrite s pos p).1.buf[j]? = if pos ≤ j ∧ j < pos + p.length then p[j - pos]? else s.buf[j]? := by
  have hc : ¬ ((pos : Int) < 0 ∨ (pos : Int) > (s.buf.length : Int)) := by omega
  unfold rewrite
  simp only [hc, if_false, Int.toNat_natCast]
  have hw : (p.take (s.buf.length - pos)).length = min (s.buf.length - pos) p.length := List.length_take
  refine ⟨trivial, ?_, trivial, trivial, trivial, ?_⟩
  · simp only [List.length_append, List.length_take, List.length_drop]; omega
  · intro j hj
    by_cases h1 : j < pos
    · have : ¬ (pos ≤ j ∧ j < pos + p.length) := by omega
      rw [if_neg this, List.append_assoc, List.getElem?_append_left (by simp; omega), List.getElem?_take, if_pos h1]
    · by_cases h2 : j < pos + p.length
      · have : pos ≤ j ∧ j < pos + p.length := by omega
        rw [if_pos this, List.append_assoc, List.getElem?_append_right (by simp; omega),
          List.getElem?_append_left (by simp; omega)]
        simp only [List.length_take, Nat.min_eq_left hpos, List.getElem?_take]
        rw [if_pos (by omega)]
      · have : ¬ (pos ≤ j ∧ j < pos + p.length) := by omega
        rw [if_neg this, List.getElem?_append_right (by simp; omega), List.getElem?_drop]
        congr 1
        simp only [List.length_append, List.length_take]
        omega

/-- out-of-range positions panic (slice bounds) and change nothing -/
theorem rewrite_out_of_range (s : St) (pos : Int) (p : Bytes) (h : pos < 0 ∨ pos > (s.buf.length : Int)) :
    rewrite s pos p = (s, .panic .sliceBounds) := by
  unfold rewrite; simp only [h, if_true]

/-- the same on the observable `Bytes()`: unread byte `j` is `p[off+j-pos]` where addressed, unchanged elsewhere
    (addresses count from the start of the storage, i.e. include the `off` bytes already read) -/
theorem rewrite_bytes (s : St) (pos : Nat) (p : Bytes) (hpos : pos ≤ s.buf.length) (j : Nat)
    (hj : s.off + j < s.buf.length) :
    (rewrite s pos p).1.data[j]? =
      if pos ≤ s.off + j ∧ s.off + j < pos + p.length then p[s.off + j - pos]? else s.data[j]? := by
  have k := rewrite_exact s pos p hpos
  simp only [St.data, k.2.2.1, List.getElem?_drop]
  exact k.2.2.2.2.2 (s.off + j) hj

/-- **ReWrite with a payload that aliases the buffer** (`ReWrite(pos, b.Bytes()[f:f+k])`): `copy` is `memmove`, so what is
    stored are the OLD bytes of the source range, also where source and destination overlap (a forward byte loop would smear) -/
theorem rewrite_aliasing (s : St) (pos f k : Nat) (hpos : pos ≤ s.buf.length) (j : Nat) (hj : j < s.buf.length) :
    (rewrite s pos ((s.data.drop f).take k)).1.buf[j]? =
      if pos ≤ j ∧ j < pos + ((s.data.drop f).take k).length then s.buf[s.off + f + (j - pos)]? else s.buf[j]? := by
  have h := (rewrite_exact s pos ((s.data.drop f).take k) hpos).2.2.2.2.2 j hj
  rw [h]
  by_cases hc : pos ≤ j ∧ j < pos + ((s.data.drop f).take k).length
  · rw [if_pos hc, if_pos hc]
    have hk : j - pos < k := by
      have : ((s.data.drop f).take k).length ≤ k := by simp [List.length_take]; omega
      omega
    rw [List.getElem?_take, if_pos hk, St.data, List.getElem?_drop, List.getElem?_drop]
    congr 1; omega
  · rw [if_neg hc, if_neg hc]

/-- overlapping self-copy, the red-team's input: `01..08`, `ReWrite(2, Bytes()[0:6])` gives `01 02 01 02 03 04 05 06` -/
example : (rewrite ⟨[1, 2, 3, 4, 5, 6, 7, 8], 0, 16, 0, false⟩ 2
    (((⟨[1, 2, 3, 4, 5, 6, 7, 8], 0, 16, 0, false⟩ : St).data.drop 0).take 6)).1.buf = [1, 2, 1, 2, 3, 4, 5, 6] := by decide

/-- the script behind the `big` operation on the abstract buffer, for payloads of ANY size: `Write(p); Next(r); Write(q)`
    returns `|p|`, the first `r` bytes of `p`, `|q|`, and leaves `p[r:] ++ q` (the oracle streams length and digest of that) -/
theorem spec_write_next_write (p q : Bytes) (r : Nat) :
    outs specObs SSt.empty [.write p, .next r, .write q] =
      [(.nErr p.length .nil, p), (.data (p.take r), p.drop r), (.nErr q.length .nil, p.drop r ++ q)] := by
  have h : ¬ ((r : Int) < 0) := by omega
  simp [outs, runOps, specObs, Spec.step, SSt.empty, h]

/-! ### non-vacuity -/

example : Proved ⟨.unsigned, .half, 64, 512⟩ := by decide
example : Proved ⟨.unsigned, .full, 64, 512⟩ := by decide

def exampleOps : List Op :=
  [.write [1, 2, 0xE2, 0x82, 0xAC], .readByte, .unreadByte, .grow 100, .len, .writeRune 0x20AC, .read 2, .readRune,
   .unreadRune, .readFrom ⟨[9, 8, 7], [1, 0], 5, .eof, false⟩, .writeTo (.short 2), .truncate 3, .next 1, .unreadByte, .bytes]

/-- a script touching every clause satisfies the hypotheses of `texbuf_refines` … -/
example : (∀ op ∈ exampleOps, Common ⟨.unsigned, .half, 64, 512⟩ op) ∧ NoUnreadAfterGrow false exampleOps ∧
    MemOk ⟨.unsigned, .half, 64, 512⟩ St.zero exampleOps := by decide

/-- … and ends with the expected unread bytes -/
example : (final (implObs ⟨.unsigned, .half, 64, 512⟩) St.zero exampleOps).data = [0xAC, 0xE2, 0x82] := by decide

example : (64 : Nat) ≤ allocLimit := by decide
example : Rel false St.zero SSt.empty := rel_zero
example : Rel false (newSizedBuffer 16).1 SSt.empty := (sized_buffer 16 (by decide) (by decide)).2.2.2.2
/-- ReWrite of the length prefix of a frame, as the callers in mpb use it -/
example : (rewrite ⟨[0, 0, 1, 2, 3], 0, 8, 0, false⟩ 0 [0, 3]).1.buf = [0, 3, 1, 2, 3] := by decide
/-- ReWrite addresses the storage from its start: after one byte was read, position 1 is the first unread byte -/
example : (rewrite ⟨[9, 1, 2], 1, 8, -1, false⟩ 1 [7]).1.data = [7, 2] := by decide
example : NoUnreadDirectlyAfterGrow [.write [1], .readByte, .grow 3, .writeByte 2, .unreadByte] := by
  simp [NoUnreadDirectlyAfterGrow, isGrow, isUnread]

/-- a reader that fills whatever space it is offered (`bytes.Reader`): with `MinRead = 4` its 11 bytes take three
    `Read` calls and three reallocations (4, 12, 28), and arrive whole -/
example : outs (implObs ⟨.unsigned, .half, 2, 4⟩) St.zero [.readFrom ⟨[1, 2, 3, 4, 5, 6, 7, 8, 9, 10, 11], [], 0, .eof, true⟩, .cap]
    = [(.nErr 11 .nil, [1, 2, 3, 4, 5, 6, 7, 8, 9, 10, 11]), (.int 28, [1, 2, 3, 4, 5, 6, 7, 8, 9, 10, 11])] := by decide

/-! ### today's configuration: the property is false of it -/

/-- `r < utf8.RuneSelf` on the signed rune: `WriteRune(-1)` stores the single byte FF … -/
theorem witness_signed_negative_rune :
    outs (implObs ⟨.signed, .half, 64, 512⟩) St.zero [.writeRune (-1)] = [(.nErr 1 .nil, [0xFF])] := by decide

/-- … while the abstract buffer (`bytes.Buffer`) stores U+FFFD -/
theorem witness_spec_negative_rune :
    outs specObs SSt.empty [.writeRune (-1)] = [(.nErr 3 .nil, [0xEF, 0xBF, 0xBD])] := by decide

theorem not_refines_signed :
    ¬ (∀ ops : List Op, (∀ op ∈ ops, Common ⟨.signed, .half, 64, 512⟩ op) → NoUnreadAfterGrow false ops →
        MemOk ⟨.signed, .half, 64, 512⟩ St.zero ops →
        outs (implObs ⟨.signed, .half, 64, 512⟩) St.zero ops = outs specObs SSt.empty ops) := by
  intro h
  have := h [.writeRune (-1)] (by decide) (by decide) (by decide)
  rw [witness_signed_negative_rune, witness_spec_negative_rune] at this
  cases this

/-- the excluded corner is real: after `Grow` moved the data to the front, `UnreadByte` reports success
    without restoring the byte (whether a `bytes.Buffer` does depends on its capacity policy) -/
theorem witness_unread_after_grow :
    outs (implObs ⟨.unsigned, .half, 64, 512⟩) St.zero [.write [1, 2, 3], .readByte, .grow 64, .unreadByte]
      ≠ outs specObs SSt.empty [.write [1, 2, 3], .readByte, .grow 64, .unreadByte] := by decide

/-! ### why the exclusion is "until `lastRead` is reassigned", not only "directly after" -/

/-- a pure observer between `Grow` and `UnreadByte` does not lift the hazard: the literal wording would admit this script -/
theorem witness_unread_after_grow_observer :
    outs (implObs ⟨.unsigned, .half, 64, 512⟩) St.zero [.write [1, 2, 3], .readByte, .grow 64, .len, .unreadByte]
      ≠ outs specObs SSt.empty [.write [1, 2, 3], .readByte, .grow 64, .len, .unreadByte] := by decide

def policyScript : List Op :=
  [.write (List.replicate 60 7), .read 50, .grow 30, .readByte, .grow 100, .len, .unreadByte, .bytes]

/-- and what the answer there depends on is the capacity policy alone: the two slide guards — both inside `Proved`,
    both refining the abstract buffer on every admissible script — answer this script differently, because the
    earlier `Grow(30)` slid (cap 64) under one and reallocated (cap 158) under the other, so that `Grow(100)`
    reslices (offset kept, byte restored) or moves the data (offset 0, nothing restored). The set of scripts on which a
    `bytes.Buffer`'s answer can depend on its growth policy is exactly: `Unread*` while `lastRead` is still the one a read
    before a `Grow` left (`off` enters a result only through `off > 0` / `off >= lastRead` in `Unread*`; the invariant
    `lastRead valid ⇒ off ≥ size` is broken only by `Grow` and re-established by every operation that assigns
    `lastRead`; `Len/Bytes/String` assign nothing). -/
theorem witness_unread_depends_on_capacity_policy :
    outs (implObs ⟨.unsigned, .half, 64, 512⟩) St.zero policyScript
      ≠ outs (implObs ⟨.unsigned, .full, 64, 512⟩) St.zero policyScript := by decide

/-! ### readers whose output depends on the size of the slice they are offered -/

/-- A reader that hands over up to 6 bytes per call when `MinRead = 4`: how much it delivers depends on the space
    `cap-len` the buffer offers (4, then 8 after reallocating to 12) — the model takes 4+6 = 10 bytes where a buffer
    that always offers ≥ 6 would take 12. That size is capacity policy, outside the contract like `Cap()`: such
    readers are outside `Common`. The same bytes delivered always give the same contents and results (`texbuf_refines`). -/
theorem witness_reader_depends_on_space :
    ¬ Common ⟨.unsigned, .half, 2, 4⟩ (.readFrom ⟨List.replicate 20 1, [6, 6], 0, .eof, false⟩) ∧
    (outs (implObs ⟨.unsigned, .half, 2, 4⟩) St.zero [.readFrom ⟨List.replicate 20 1, [6, 6], 0, .eof, false⟩]).map (·.1)
      = [.nErr 10 .nil] ∧
    (outs specObs SSt.empty [.readFrom ⟨List.replicate 20 1, [6, 6], 0, .eof, false⟩]).map (·.1) = [.nErr 12 .nil] := by
  decide

end Nv.C11
