import Nv.Model.C20
namespace Nv.C20
/-- today's JsUInt64: the bare JSON number `123` decodes to 2 -/
theorem witness_u64_bare_123 : decodeInt Cfg.today.u64 [49, 50, 51] = .ok 2 := by decide
end Nv.C20
