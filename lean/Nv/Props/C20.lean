import Nv.Proofs.C20Byte
import Nv.Proofs.C20B64
import Nv.Proofs.C20Dur
import Nv.Proofs.C20Time
/-!
C20 — property theorems for the `tex` scalar wrappers (model `Nv.Model.C20`, reference `Nv.Spec.C20`).
Every statement quantifies over all byte strings / all values of the type; the configuration `c`
ranges over `Proved` (quotes checked before slicing, elements range-checked, strict SQL scanners). For the
original configuration (`Cfg.today`) and the legacy scanners the witnesses at the end show the property is false.

INDEX — clause of properties.jsonl#C20.statement → theorem(s)

"For each JSON- or SQL-adapted scalar type … decoding the encoder's output gives back the original value":
  * string-encoded int64 / uint64 ........ `i64_roundtrip`, `u64_roundtrip` (all of int64 / uint64, extremes included)
  * slash-separated byte list ............ `jsbyte_roundtrip` (every list, `[]` and one-element lists included)
  * unix-second time (JsUnixTime) ........ `unixtime_roundtrip` (on seconds), `unixtime_roundtrip_time` /
                                           `unixtime_roundtrip_whole_second` (on instants: exact iff nsec = 0 — the stated domain)
  * unix-nanosecond time (JsNanoTime) .... `nanotime_roundtrip` (on int64 ns), `nanotime_roundtrip_iff` (on instants: exact
                                           IFF the instant fits int64 ns; outside: `witness_nanotime_zero_time`,
                                           `witness_nanotime_year_2300` — a KNOWN FINDING, not repairable in this format)
  * second stamps (UnixStamp) ............ `stamp_roundtrip`; SQL form `sql_stamp_roundtrip` (also SQLTime2Unix)
  * SQL time adapters .................... `sql_unixnano_roundtrip_iff` (UnixNano2Time, same domain as JsNanoTime;
                                           `witness_sql_unixnano_zero_time`), `sql_unix_roundtrip` (Unix2Time, to the second)
  * durations ............................ `dur_roundtrip`, `duration_string_parses` (every int64 duration: zero, negative, Min/MaxInt64;
                                           the TOML form is the same `ParseDuration(String())` law)
  * base64 bytes ......................... `base64_roundtrip`
  * hex / base-32 integer strings ........ `hex_roundtrip_u16`, `hex_roundtrip_u32`, `hex_roundtrip_i16`, `hex_roundtrip_i32`
"Decoding any other input either fails or produces exactly the value that the text denotes: it never silently yields a
 different number (dropped digits, wrapped bytes)":
  * the strconv layer .................... `parse_int_exact`, `parse_int_complete`, `parse_int_never_wraps`, `parse_uint_exact`,
                                           `parse_uint_complete`, `parse_uint_never_wraps`, `hex_parse_exact`, `hex_parse_exact_u`
  * every JSON wrapper, EVERY byte string  `unmarshal_exact_or_error`, `i64_exact_or_error`, `u64_exact_or_error`,
                                           `unixtime_exact_or_error`, `nanotime_exact_or_error`, `stamp_exact_or_error`,
                                           `unmarshal_complete_quoted`, `unmarshal_range_quoted`
  * byte lists, "wrapped bytes" .......... `jsbyte_exact_or_error`, `jsbyte_no_wrap`, `jsbyte_no_dropped_elements`
  * Duration ............................. `dur_exact_or_error` (only the quoted / whole text reaches the parser; exactness of the
                                           parser itself is relative to the hand-written model of `time.ParseDuration`)
  * SQL scanners ......................... `scan_exact_or_error`, `scan_complete`, `scan_refuses_unsupported`, `stamp_scan_exact_or_error`
  * tex.ToString / MapVal2String / ToStringList on the integer kinds: `tostring_denotes`, `tostring_decodes_back_signed`,
    `tostring_decodes_back_unsigned`, `tostring_is_marshal_text` (false of the `int(v)` shape: `witness_tostring_maxuint64`)
  * no panic on any JSON token ........... `panic_only_lone_quote`, `proved_panics_only_on_lone_quote`
  * false of the unrepaired code ......... `witness_*`, `not_exact_or_error_today`, `not_no_wrap_today`, `not_scan_exact_legacy`
Only monitor-checked / correspondence-checked (no theorem):
  * that encoding/json and jsoniter hand the raw token to UnmarshalJSON (three delivery paths compared on every token);
  * the modelled library functions themselves (strconv, time.ParseDuration/String incl. its float64 fraction step,
    time.Unix/Unix/UnixNano, encoding/base64, strings.Split) — validated against the real ones on every run;
  * base64 beyond the round trip: the non-strict decoder accepts non-canonical tails and skips CR/LF (as coded);
  * `Duration.Duration()`, `UnmarshalTOML`, `JsByte.ToString/FromString` wiring (pinned facts + monitors);
  * that an encoder result the caller still holds is not changed by later encodes (harness rule, not expressible in the pure model).
-/
namespace Nv.C20

/-! ### strconv: exactly the denoted number, or an error (never dropped digits, never wrap) -/

/-- `Atoi` (= `ParseInt(s,10,64)`) sound: a result is the value of sign + digits, inside int64 -/
theorem parse_int_exact (s : Bytes) (v : Int) (h : atoi s = .ok v) :
    denotesCore s v ∧ -(2 ^ 63 : Int) ≤ v ∧ v < 2 ^ 63 :=
  denotesCore_of_parseInt (bits := 64) h

/-- … complete: every denoted number inside int64 is returned -/
theorem parse_int_complete (s : Bytes) (v : Int) (hd : denotesCore s v) (hlo : -(2 ^ 63 : Int) ≤ v) (hhi : v < 2 ^ 63) :
    atoi s = .ok v :=
  parseInt_of_denotesCore (bits := 64) (by omega) hd hlo hhi

/-- … and a denoted number outside int64 is a range error, never a wrapped value -/
theorem parse_int_never_wraps (s : Bytes) (v : Int) (hd : denotesCore s v) (hout : v < -(2 ^ 63 : Int) ∨ 2 ^ 63 ≤ v) :
    atoi s = .err .range :=
  parseInt_range_of_denotesCore (bits := 64) (by omega) hd hout

/-- `ParseUint(s,10,64)`: all digits, exact value, below 2^64 -/
theorem parse_uint_exact (s : Bytes) (n : Nat) (h : parseUint 10 64 s = .ok n) : DecDigits s ∧ n = decVal s ∧ n < 2 ^ 64 :=
  parseUint10_ok h

theorem parse_uint_complete (s : Bytes) (hd : DecDigits s) (hv : decVal s < 2 ^ 64) : parseUint 10 64 s = .ok (decVal s) :=
  parseUint10_complete hd hv

theorem parse_uint_never_wraps (s : Bytes) (hd : DecDigits s) (hv : 2 ^ 64 ≤ decVal s) : parseUint 10 64 s = .err .range :=
  parseUint10_overflow hd hv

/-- hex / base-32 parse: sign + digits of the base, exact value, inside int64 -/
theorem hex_parse_exact (base : Nat) (s : Bytes) (v : Int) (h : parseInt base 64 s = .ok v) :
    ∃ (neg : Bool) (t : Bytes), (s = t ∨ s = 43 :: t ∨ s = 45 :: t) ∧ (neg = true ↔ s = 45 :: t) ∧ t ≠ [] ∧
      BaseDigits base t ∧ v = (if neg then -(baseVal base 0 t : Int) else (baseVal base 0 t : Int)) ∧
      -(2 ^ 63 : Int) ≤ v ∧ v < 2 ^ 63 :=
  parseInt_ok base 64 h

/-! ### exact-or-error: for EVERY byte string (so for every JSON token) -/

/-- generic form: an integer wrapper that checks its quotes decodes `b` to `v` only if `b` denotes `v` -/
theorem unmarshal_exact_or_error (w : Wrap) (hw : w.Checked) (hp : w.parser = .atoi ∨ w.parser = .parseUint64)
    (b : Bytes) (v : Int) (h : decodeInt w b = .ok v) : denotes b v :=
  (decodeInt_exact hw hp h).1

theorem i64_exact_or_error (c : Cfg) (hc : Proved c) (b : Bytes) (v : Int) (h : decodeInt c.i64 b = .ok v) :
    denotes b v ∧ -(2 ^ 63 : Int) ≤ v ∧ v < 2 ^ 63 := by
  have hp : c.i64.parser = .atoi := hc.2.2.2.2.2.2.2.1
  have := decodeInt_exact hc.1 (Or.inl hp) h
  refine ⟨this.1, this.2.1, ?_⟩
  -- the signed parser keeps the value inside int64
  unfold decodeInt at h
  split at h
  · cases h
  · cases h
  · rw [hp] at h; exact (denotesCore_of_parseInt (bits := 64) (by simpa [runParser, atoi] using h)).2.2
  · split at h
    · simp only [Res.ok.injEq] at h; omega
    · rw [hp] at h; exact (denotesCore_of_parseInt (bits := 64) (by simpa [runParser, atoi] using h)).2.2

theorem u64_exact_or_error (c : Cfg) (hc : Proved c) (b : Bytes) (v : Int) (h : decodeInt c.u64 b = .ok v) :
    denotes b v ∧ 0 ≤ v ∧ v < 2 ^ 64 := by
  have hp : c.u64.parser = .parseUint64 := hc.2.2.2.2.2.2.2.2.1
  have := decodeInt_exact hc.2.1 (Or.inr hp) h
  refine ⟨this.1, ?_, this.2.2⟩
  unfold decodeInt at h
  split at h
  · cases h
  · cases h
  · rw [hp] at h; obtain ⟨n, _, hv⟩ := toIntRes_ok (by simpa [runParser] using h); omega
  · split at h
    · simp only [Res.ok.injEq] at h; omega
    · rw [hp] at h; obtain ⟨n, _, hv⟩ := toIntRes_ok (by simpa [runParser] using h); omega

theorem unixtime_exact_or_error (c : Cfg) (hc : Proved c) (b : Bytes) (v : Int) (h : decodeInt c.unixTime b = .ok v) :
    denotes b v :=
  unmarshal_exact_or_error _ hc.2.2.2.1 (Or.inl hc.2.2.2.2.2.2.2.2.2.2.1) b v h

theorem nanotime_exact_or_error (c : Cfg) (hc : Proved c) (b : Bytes) (v : Int) (h : decodeInt c.nanoTime b = .ok v) :
    denotes b v :=
  unmarshal_exact_or_error _ hc.2.2.2.2.1 (Or.inl hc.2.2.2.2.2.2.2.2.2.2.2.1) b v h

theorem stamp_exact_or_error (c : Cfg) (hc : Proved c) (b : Bytes) (v : Int) (h : decodeInt c.stamp b = .ok v) :
    denotes b v :=
  unmarshal_exact_or_error _ hc.2.2.2.2.2.1 (Or.inl hc.2.2.2.2.2.2.2.2.2.2.2.2.1) b v h

/-- JsByte: a decoded list is exactly the denoted list -/
theorem jsbyte_exact_or_error (c : Cfg) (hc : Proved c) (b : Bytes) (l : List Nat)
    (h : decodeBytes c.byte c.byteConv b = .ok l) : denotesBytes b l := by
  have hk : c.byteConv = .rangeChecked := hc.2.2.2.2.2.2.2.2.2.2.2.2.2.2.1
  rw [hk] at h
  exact decodeBytes_exact hc.2.2.1 h

/-- JsByte: no element is a wrapped value — each is the denoted number itself and lies in 0…255 -/
theorem jsbyte_no_wrap (c : Cfg) (hc : Proved c) (b : Bytes) (l : List Nat)
    (h : decodeBytes c.byte c.byteConv b = .ok l) : ∀ x ∈ l, x ≤ 255 := by
  rcases jsbyte_exact_or_error c hc b l h with ⟨s, _, hd⟩ | hd <;>
  · rcases hd with ⟨_, rfl⟩ | ⟨_, hr⟩
    · intro x hx; cases hx
    · exact listRel_le_255 hr

theorem listRel_length {α β : Type} {R : α → β → Prop} {as : List α} {bs : List β} (h : ListRel R as bs) :
    as.length = bs.length := by
  induction h with
  | nil => rfl
  | cons _ _ ih => simp [ih]

/-- JsByte: no element is dropped or invented — a decoded list has exactly one element per `/`-separated piece of the
    text, whatever its length (300 elements, 70 000 elements) -/
theorem jsbyte_no_dropped_elements (c : Cfg) (hc : Proved c) (s : Bytes) (l : List Nat) (hs : s ≠ [])
    (h : decodeBytes c.byte c.byteConv (34 :: (s ++ [34])) = .ok l) : l.length = (splitSlash s).length := by
  have hq : ∀ s' : Bytes, (34 : Nat) :: (s ++ [34]) = 34 :: (s' ++ [34]) → s' = s := by
    intro s' he
    have := congrArg inner he
    rw [inner_quoted, inner_quoted] at this
    exact this.symm
  rcases jsbyte_exact_or_error c hc _ l h with ⟨s', he, hd⟩ | hd
  · have := hq s' he
    subst this
    rcases hd with ⟨he', _⟩ | ⟨_, hr⟩
    · exact absurd he' hs
    · exact (listRel_length hr).symm
  · -- the quoted token read as a bare list: its first piece starts with the quote character, which denotes nothing
    rcases hd with ⟨he', _⟩ | ⟨_, hr⟩
    · cases he'
    · exfalso
      have hne := splitSlash_ne_nil (34 :: (s ++ [34]))
      cases hsp : splitSlash (34 :: (s ++ [34])) with
      | nil => exact hne hsp
      | cons p ps =>
        have hp : ∃ t, p = 34 :: t := by
          simp only [splitSlash, show (34 : Nat) ≠ 47 by decide, if_false] at hsp
          split at hsp
          · simp only [List.cons.injEq] at hsp; exact ⟨[], hsp.1.symm⟩
          · rename_i q qs _; simp only [List.cons.injEq] at hsp; exact ⟨q, hsp.1.symm⟩
        obtain ⟨t, rfl⟩ := hp
        rw [hsp] at hr
        cases hr with
        | cons h1 _ =>
          rcases h1.1 with ⟨hdg, _⟩ | ⟨u, hu, _⟩ | ⟨u, hu, _⟩
          · have := hdg.2 34 (by simp); omega
          · simp at hu
          · simp at hu

/-- Duration: only a quoted (or entirely bare) text is handed to `ParseDuration` — never a slice of something else -/
theorem dur_exact_or_error (c : Cfg) (hc : Proved c) (b : Bytes) (d : Int) (h : decodeDur c.dur b = .ok d) :
    (∃ s, b = 34 :: (s ++ [34]) ∧ parseDuration s = .ok d) ∨ parseDuration b = .ok d := by
  have hw : c.dur.Checked := hc.2.2.2.2.2.2.1
  unfold decodeDur at h
  split at h
  · cases h
  · split at h
    · cases h
    · cases h
    · rename_i s hs
      have := strip_checked_bare hw hs
      subst this
      exact Or.inr h
    · rename_i s hs
      exact Or.inl ⟨s, strip_checked_quoted hw hs, h⟩

/-! ### round trips: decoding the encoder's output gives back the value (all values, extremes included) -/

theorem i64_roundtrip (c : Cfg) (hc : Proved c) (v : Int) (hlo : -(2 ^ 63 : Int) ≤ v) (hhi : v < 2 ^ 63) :
    decodeInt c.i64 (encodeInt v) = .ok v :=
  decodeInt_encodeInt _ (by rcases hc.1 with h | h <;> simp [h]) hc.2.2.2.2.2.2.2.2.2.2.2.2.2.2.2.1
    hc.2.2.2.2.2.2.2.1 v hlo hhi

theorem u64_roundtrip (c : Cfg) (hc : Proved c) (n : Nat) (hn : n < 2 ^ 64) :
    decodeInt c.u64 (encodeNat n) = .ok (n : Int) :=
  decodeInt_encodeNat _ (by rcases hc.2.1 with h | h <;> simp [h]) hc.2.2.2.2.2.2.2.2.2.2.2.2.2.2.2.2.1
    hc.2.2.2.2.2.2.2.2.1 n hn

/-- JsUnixTime over unix seconds (`time.Unix(s,0).Unix() = s` is the modelled library law) -/
theorem unixtime_roundtrip (c : Cfg) (hc : Proved c) (v : Int) (hlo : -(2 ^ 63 : Int) ≤ v) (hhi : v < 2 ^ 63) :
    decodeInt c.unixTime (encodeInt v) = .ok v :=
  decodeInt_encodeInt _ (by rcases hc.2.2.2.1 with h | h <;> simp [h]) hc.2.2.2.2.2.2.2.2.2.2.2.2.2.2.2.2.2.1
    hc.2.2.2.2.2.2.2.2.2.2.1 v hlo hhi

/-- JsNanoTime over unix nanoseconds -/
theorem nanotime_roundtrip (c : Cfg) (hc : Proved c) (v : Int) (hlo : -(2 ^ 63 : Int) ≤ v) (hhi : v < 2 ^ 63) :
    decodeInt c.nanoTime (encodeInt v) = .ok v :=
  decodeInt_encodeInt _ (by rcases hc.2.2.2.2.1 with h | h <;> simp [h]) hc.2.2.2.2.2.2.2.2.2.2.2.2.2.2.2.2.2.2.1
    hc.2.2.2.2.2.2.2.2.2.2.2.1 v hlo hhi

theorem stamp_roundtrip (c : Cfg) (hc : Proved c) (v : Int) (hlo : -(2 ^ 63 : Int) ≤ v) (hhi : v < 2 ^ 63) :
    decodeInt c.stamp (encodeInt v) = .ok v :=
  decodeInt_encodeInt _ (by rcases hc.2.2.2.2.2.1 with h | h <;> simp [h]) hc.2.2.2.2.2.2.2.2.2.2.2.2.2.2.2.2.2.2.2.1
    hc.2.2.2.2.2.2.2.2.2.2.2.2.1 v hlo hhi

/-- JsByte, every list of bytes (empty and one-element lists included) -/
theorem jsbyte_roundtrip (c : Cfg) (hc : Proved c) (l : List Nat) (hl : ∀ x ∈ l, x < 256) :
    decodeBytes c.byte c.byteConv (encodeBytes l) = .ok l :=
  decodeBytes_encodeBytes _ (by rcases hc.2.2.1 with h | h <;> simp [h]) hc.2.2.2.2.2.2.2.2.2.2.2.2.2.2.2.2.2.2.2.2.1
    hc.2.2.2.2.2.2.2.2.2.1 _ (Or.inr hc.2.2.2.2.2.2.2.2.2.2.2.2.2.2.1) l hl

/-- the round trips also hold of today's (unrepaired) wrappers: the defect is in what ELSE they accept -/
theorem u64_roundtrip_today (n : Nat) (hn : n < 2 ^ 64) : decodeInt Cfg.today.u64 (encodeNat n) = .ok (n : Int) :=
  decodeInt_encodeNat _ (by decide) (by decide) rfl n hn

theorem jsbyte_roundtrip_today (l : List Nat) (hl : ∀ x ∈ l, x < 256) :
    decodeBytes Cfg.today.byte Cfg.today.byteConv (encodeBytes l) = .ok l :=
  decodeBytes_encodeBytes _ (by decide) (by decide) rfl _ (Or.inl rfl) l hl

/-- Base64Bytes: `Scan(Value(bs)) = bs` for every byte string -/
theorem base64_roundtrip (bs : Bytes) (h : ∀ x ∈ bs, x < 256) : b64Decode (b64Encode bs) = .ok bs :=
  b64Decode_encode bs h

/-- **distinct values never share a text form** (corollaries of the round trips; the decoder of the repaired
    configuration is a left inverse): the integer text of two int64 values … -/
theorem encodeInt_injective (v w : Int) (hv : -(2 ^ 63 : Int) ≤ v ∧ v < 2 ^ 63) (hw : -(2 ^ 63 : Int) ≤ w ∧ w < 2 ^ 63)
    (h : encodeInt v = encodeInt w) : v = w := by
  have hp : Proved Cfg.repaired := by decide
  have h1 := i64_roundtrip Cfg.repaired hp v hv.1 hv.2
  have h2 := i64_roundtrip Cfg.repaired hp w hw.1 hw.2
  rw [h, h2] at h1
  cases h1; rfl

/-- … of two uint64 values … -/
theorem encodeNat_injective (m n : Nat) (hm : m < 2 ^ 64) (hn : n < 2 ^ 64) (h : encodeNat m = encodeNat n) : m = n := by
  have h1 := u64_roundtrip_today m hm
  have h2 := u64_roundtrip_today n hn
  rw [h, h2] at h1
  cases h1; rfl

/-- … the `a/b/c` text of two byte lists … -/
theorem encodeBytes_injective (l l' : List Nat) (hl : ∀ x ∈ l, x < 256) (hl' : ∀ x ∈ l', x < 256)
    (h : encodeBytes l = encodeBytes l') : l = l' := by
  have h1 := jsbyte_roundtrip_today l hl
  have h2 := jsbyte_roundtrip_today l' hl'
  rw [h, h2] at h1
  cases h1; rfl

/-- … and the base64 text of two byte strings -/
theorem b64Encode_injective (a b : Bytes) (ha : ∀ x ∈ a, x < 256) (hb : ∀ x ∈ b, x < 256)
    (h : b64Encode a = b64Encode b) : a = b := by
  have h1 := base64_roundtrip a ha
  have h2 := base64_roundtrip b hb
  rw [h, h2] at h1
  cases h1; rfl
/-- hex (base 16) and base-32 integer strings, unsigned and signed -/
theorem hex_roundtrip_u16 (n : Nat) (hn : n < 2 ^ 64) : parseUint 16 64 (fmtNat 16 n) = .ok n :=
  parseUint_fmtNat 16 (by omega) (by omega) n hn
theorem hex_roundtrip_u32 (n : Nat) (hn : n < 2 ^ 64) : parseUint 32 64 (fmtNat 32 n) = .ok n :=
  parseUint_fmtNat 32 (by omega) (by omega) n hn
theorem hex_roundtrip_i16 (v : Int) (hlo : -(2 ^ 63 : Int) ≤ v) (hhi : v < 2 ^ 63) : parseInt 16 64 (fmtInt 16 v) = .ok v :=
  parseInt_fmtInt 16 (by omega) (by omega) v hlo hhi
theorem hex_roundtrip_i32 (v : Int) (hlo : -(2 ^ 63 : Int) ≤ v) (hhi : v < 2 ^ 63) : parseInt 32 64 (fmtInt 32 v) = .ok v :=
  parseInt_fmtInt 32 (by omega) (by omega) v hlo hhi

/-- hex / base-32 parse, unsigned: digits of the base, exact value, below 2^64 -/
theorem hex_parse_exact_u (base : Nat) (s : Bytes) (n : Nat) (h : parseUint base 64 s = .ok n) :
    s ≠ [] ∧ BaseDigits base s ∧ baseVal base 0 s = n ∧ n < 2 ^ 64 :=
  parseUint_ok base 64 h

/-! ### tex.ToString on the integer kinds (the text form the generic map paths produce for a wrapper value) -/

/-- the exact shape prints the canonical decimal: it denotes the value … -/
theorem tostring_denotes (v : Int) (hlo : -(2 ^ 63 : Int) ≤ v) (hhi : v < 2 ^ 64) : denotesCore (toStrNum .exact v) v := by
  show denotesCore (fmtInt 10 v) v
  unfold fmtInt
  split
  · rename_i hneg
    have sp := fmtNat_spec 10 (by omega) (by omega) (-v).toNat (by omega)
    have hd := (baseDigits10_iff _).1 sp.2.1
    right; right
    refine ⟨_, rfl, ⟨sp.1, hd⟩, ?_⟩
    rw [← baseVal10_decVal _ hd, sp.2.2]; omega
  · rename_i hpos
    have sp := fmtNat_spec 10 (by omega) (by omega) v.toNat (by omega)
    have hd := (baseDigits10_iff _).1 sp.2.1
    left
    refine ⟨⟨sp.1, hd⟩, ?_⟩
    rw [← baseVal10_decVal _ hd, sp.2.2]; omega

/-- … and decodes back: a signed value through `Atoi` (JsInt64 and the time wrappers), an unsigned one through `ParseUint` -/
theorem tostring_decodes_back_signed (v : Int) (hlo : -(2 ^ 63 : Int) ≤ v) (hhi : v < 2 ^ 63) : atoi (toStrNum .exact v) = .ok v :=
  parseInt_fmtInt 10 (by omega) (by omega) v hlo hhi

theorem tostring_decodes_back_unsigned (n : Nat) (hn : n < 2 ^ 64) : parseUint 10 64 (toStrNum .exact (n : Int)) = .ok n := by
  show parseUint 10 64 (fmtInt 10 (n : Int)) = .ok n
  unfold fmtInt
  rw [if_neg (by omega)]
  simpa using parseUint_fmtNat 10 (by omega) (by omega) n hn

/-- through the wrapper itself: quoting `ToString(v)` gives what `MarshalJSON` gives, so `UnmarshalJSON` returns `v` -/
theorem tostring_is_marshal_text (v : Int) : (34 : Nat) :: (toStrNum .exact v ++ [34]) = encodeInt v := rfl

/-! ### the time types on genuine instants (seconds, nanoseconds): the exact round-trip domain -/

/-- JsNanoTime round-trips an instant **iff** its `UnixNano` fits int64 (1678-09-21 … 2262-04-11).
    Outside that range `MarshalJSON` prints a wrapped number and `UnmarshalJSON` yields another instant, nil error. -/
theorem nanotime_roundtrip_iff (c : Cfg) (hc : Proved c) (t : Time) (hv : t.nsec < 1000000000) :
    decodeNanoTime c.nanoTime (encodeNanoTime t) = .ok t ↔ t.FitsNano := by
  have hr := wrapI64_range (t.sec * 1000000000 + t.nsec)
  have hd : decodeInt c.nanoTime (encodeInt t.unixNano) = .ok t.unixNano :=
    nanotime_roundtrip c hc _ hr.1 hr.2
  unfold decodeNanoTime encodeNanoTime
  rw [mapRes_ok _ hd]
  constructor
  · intro h
    have := timeUnix_nano_inv (Res.ok.inj h)
    unfold Time.unixNano at this
    exact (wrapI64_eq_iff _).1 this
  · intro hf
    have : t.unixNano = t.sec * 1000000000 + t.nsec := wrapI64_id hf.1 hf.2
    rw [this, timeUnix_nano t hv]

theorem nanotime_roundtrip_time (c : Cfg) (hc : Proved c) (t : Time) (hv : t.nsec < 1000000000) (hf : t.FitsNano) :
    decodeNanoTime c.nanoTime (encodeNanoTime t) = .ok t :=
  (nanotime_roundtrip_iff c hc t hv).2 hf

/-- JsUnixTime keeps the second and drops the nanoseconds (second-resolution format), for every instant -/
theorem unixtime_roundtrip_time (c : Cfg) (hc : Proved c) (t : Time) (hlo : -(2 ^ 63 : Int) ≤ t.sec) (hhi : t.sec < 2 ^ 63) :
    decodeUnixTime c.unixTime (encodeUnixTime t) = .ok ⟨t.sec, 0⟩ := by
  unfold decodeUnixTime encodeUnixTime
  rw [mapRes_ok _ (unixtime_roundtrip c hc t.sec hlo hhi), timeUnix_sec]

/-- … hence exactly the instants on a whole second round-trip -/
theorem unixtime_roundtrip_whole_second (c : Cfg) (hc : Proved c) (t : Time) (hn : t.nsec = 0)
    (hlo : -(2 ^ 63 : Int) ≤ t.sec) (hhi : t.sec < 2 ^ 63) :
    decodeUnixTime c.unixTime (encodeUnixTime t) = .ok t := by
  rw [unixtime_roundtrip_time c hc t hlo hhi]
  cases t; simp only at hn; subst hn; rfl

/-! ### SQL forms -/

/-- UnixNano2Time: `Scan(Value(t)) = t` iff the instant fits int64 nanoseconds (either scanner shape) -/
theorem sql_unixnano_roundtrip_iff (sh : ScanShape) (hsh : sh ≠ .unknown) (t : Time) (hv : t.nsec < 1000000000) :
    scanNano sh (.i64 t.unixNano) = .ok t ↔ t.FitsNano := by
  have hs : scanInt sh (.i64 t.unixNano) = .ok t.unixNano := by
    cases sh with
    | unknown => exact absurd rfl hsh
    | legacy => rfl
    | strict => rfl
  unfold scanNano
  rw [mapRes_ok _ hs]
  constructor
  · intro h
    have := timeUnix_nano_inv (Res.ok.inj h)
    unfold Time.unixNano at this
    exact (wrapI64_eq_iff _).1 this
  · intro hf
    have : t.unixNano = t.sec * 1000000000 + t.nsec := wrapI64_id hf.1 hf.2
    rw [this, timeUnix_nano t hv]

/-- Unix2Time: `Scan(Value(t))` is `t` truncated to the second -/
theorem sql_unix_roundtrip (sh : ScanShape) (hsh : sh ≠ .unknown) (t : Time) : scanUnix sh (.i64 t.sec) = .ok ⟨t.sec, 0⟩ := by
  cases sh with
  | unknown => exact absurd rfl hsh
  | legacy => simp [scanUnix, scanInt, mapRes, timeUnix]
  | strict => simp [scanUnix, scanInt, mapRes, timeUnix]

/-- UnixStamp / SQLTime2Unix: `Scan(Value(v)) = v` -/
theorem sql_stamp_roundtrip (sh : StampScan) (hsh : sh ≠ .unknown) (old v : Int) :
    scanStamp sh old (.time (timeUnix v 0)) = .ok v := by
  cases sh with
  | unknown => exact absurd rfl hsh
  | legacy => simp [scanStamp, timeUnix]
  | strict => simp [scanStamp, timeUnix]

/-- the repaired scanner: a result is exactly what the driver value denotes (integers as they are, decimal
    text its exact value, NULL 0) — never a silent zero, never a wrapped uint64 -/
theorem scan_exact_or_error (v : SqlVal) (ts : Int) (h : scanInt .strict v = .ok ts) : sqlDenotes v ts := by
  cases v with
  | i32 x => simpa [scanInt, sqlDenotes] using h.symm
  | i64 x => simpa [scanInt, sqlDenotes] using h.symm
  | int x => simpa [scanInt, sqlDenotes] using h.symm
  | u32 x => simpa [scanInt, sqlDenotes] using h.symm
  | u64 x =>
    simp only [scanInt] at h
    split at h
    · cases h
    · simpa [sqlDenotes] using h.symm
  | uint x =>
    simp only [scanInt] at h
    split at h
    · cases h
    · simpa [sqlDenotes] using h.symm
  | f64 w => simp [scanInt] at h
  | bool b => simp [scanInt] at h
  | bytes s => exact (denotesCore_of_parseInt (bits := 64) (by simpa [scanInt] using h)).1
  | str s => exact (denotesCore_of_parseInt (bits := 64) (by simpa [scanInt] using h)).1
  | time t => simp [scanInt] at h
  | null => simpa [scanInt, sqlDenotes] using h.symm

/-- completeness of the repaired scanner: every driver value that denotes an int64 is accepted with exactly that value
    (so a boundary slip such as `>=` for `>` in the uint64 range test changes the model's answer on MaxInt64) -/
theorem scan_complete (v : SqlVal) (ts : Int) (hd : sqlDenotes v ts) (hlo : -(2 ^ 63 : Int) ≤ ts) (hhi : ts < 2 ^ 63) :
    scanInt .strict v = .ok ts := by
  cases v with
  | i32 x => simp only [sqlDenotes] at hd; subst hd; rfl
  | i64 x => simp only [sqlDenotes] at hd; subst hd; rfl
  | int x => simp only [sqlDenotes] at hd; subst hd; rfl
  | u32 x => simp only [sqlDenotes] at hd; subst hd; rfl
  | u64 x =>
    simp only [sqlDenotes] at hd; subst hd
    simp only [scanInt]; rw [if_neg (by omega)]
  | uint x =>
    simp only [sqlDenotes] at hd; subst hd
    simp only [scanInt]; rw [if_neg (by omega)]
  | f64 w => exact absurd hd (by simp [sqlDenotes])
  | bool b => exact absurd hd (by simp [sqlDenotes])
  | bytes s => exact parseInt_of_denotesCore (bits := 64) (by omega) hd hlo hhi
  | str s => exact parseInt_of_denotesCore (bits := 64) (by omega) hd hlo hhi
  | time t => exact absurd hd (by simp [sqlDenotes])
  | null => simp only [sqlDenotes] at hd; subst hd; rfl

/-- … and whatever denotes no integer (float, bool, time, non-numeric text) is refused with an error -/
theorem scan_refuses_unsupported (v : SqlVal) (hno : ∀ ts, ¬ sqlDenotes v ts) : ∃ e, scanInt .strict v = .err e := by
  have text : ∀ s : Bytes, (∀ ts, ¬ denotesCore s ts) → ∃ e, parseInt 10 64 s = .err e := by
    intro s hs
    cases hp : parseInt 10 64 s with
    | ok ts => exact absurd (denotesCore_of_parseInt (bits := 64) hp).1 (hs ts)
    | err e => exact ⟨e, rfl⟩
    | panic =>
      have := runParser_no_panic .atoi s
      exact absurd hp (by simpa [runParser, atoi] using this)
  cases v with
  | f64 w => exact ⟨.other, rfl⟩
  | bool b => exact ⟨.other, rfl⟩
  | time t => exact ⟨.other, rfl⟩
  | i32 x => exact absurd rfl (hno x)
  | i64 x => exact absurd rfl (hno x)
  | int x => exact absurd rfl (hno x)
  | u32 x => exact absurd rfl (hno x)
  | u64 x => exact absurd rfl (hno x)
  | uint x => exact absurd rfl (hno x)
  | null => exact absurd rfl (hno 0)
  | bytes s => exact text s hno
  | str s => exact text s hno

/-- UnixStamp / SQLTime2Unix repaired: only a time sets the stamp, only NULL keeps it -/
theorem stamp_scan_exact_or_error (old r : Int) (v : SqlVal) (h : scanStamp .strict old v = .ok r) :
    (∃ t, v = .time t ∧ r = t.sec) ∨ (v = .null ∧ r = old) := by
  cases v <;> simp [scanStamp] at h
  · rename_i t; exact Or.inl ⟨t, rfl, h.symm⟩
  · exact Or.inr ⟨rfl, h.symm⟩

/-- `time.ParseDuration(d.String()) = d` for every int64 duration — zero, negative and the extremes included
    (on the hand-written models of the two library functions, which the correspondence validates) -/
theorem duration_string_parses (d : Int) (hlo : -(2 ^ 63 : Int) ≤ d) (hhi : d < 2 ^ 63) :
    parseDuration (durString d) = .ok d :=
  parseDuration_durString d hlo hhi

/-- Duration: marshal then unmarshal gives back the duration -/
theorem dur_roundtrip (c : Cfg) (hc : Proved c) (d : Int) (hlo : -(2 ^ 63 : Int) ≤ d) (hhi : d < 2 ^ 63) :
    decodeDur c.dur (encodeDur d) = .ok d := by
  have hk : c.dur.kind ≠ .unknown := by rcases hc.2.2.2.2.2.2.1 with h | h <;> simp [h]
  have hp : c.dur.parser = .parseDuration := hc.2.2.2.2.2.2.2.2.2.2.2.2.2.1
  have hm : c.dur.minLen ≤ 4 := hc.2.2.2.2.2.2.2.2.2.2.2.2.2.2.2.2.2.2.2.2.2.1
  have hlen := durString_length d hlo hhi
  unfold decodeDur encodeDur
  simp only [quote, hp, ne_eq, not_true_eq_false, if_false]
  rw [strip_quoted c.dur hk _ (by omega)]
  exact parseDuration_durString d hlo hhi

/-! ### completeness on quoted tokens, and the only panicking input -/

/-- every quoted signed decimal inside int64 (leading zeros, `+` allowed) decodes to its value — for the
    `Atoi`-based wrappers (JsInt64, JsUnixTime, JsNanoTime, UnixStamp) under any known strip kind -/
theorem unmarshal_complete_quoted (w : Wrap) (hk : w.kind ≠ .unknown) (hp : w.parser = .atoi) (s : Bytes) (v : Int)
    (hl : w.minLen ≤ s.length + 2) (hd : denotesCore s v) (hlo : -(2 ^ 63 : Int) ≤ v) (hhi : v < 2 ^ 63) :
    decodeInt w (34 :: (s ++ [34])) = .ok v := by
  have hne : s.isEmpty = false := by
    rcases hd with ⟨hd, _⟩ | ⟨t, rfl, _⟩ | ⟨t, rfl, _⟩
    · cases s with
      | nil => exact absurd rfl hd.1
      | cons _ _ => rfl
    · rfl
    · rfl
  unfold decodeInt
  rw [strip_quoted w hk s hl]
  simp only [hne, Bool.and_false, Bool.false_eq_true, if_false, hp, runParser]
  exact parse_int_complete s v hd hlo hhi

/-- … and a quoted decimal outside int64 is refused with a range error -/
theorem unmarshal_range_quoted (w : Wrap) (hk : w.kind ≠ .unknown) (hp : w.parser = .atoi) (s : Bytes) (v : Int)
    (hl : w.minLen ≤ s.length + 2) (hd : denotesCore s v) (hout : v < -(2 ^ 63 : Int) ∨ 2 ^ 63 ≤ v) :
    decodeInt w (34 :: (s ++ [34])) = .err .range := by
  have hne : s.isEmpty = false := by
    rcases hd with ⟨hd, _⟩ | ⟨t, rfl, _⟩ | ⟨t, rfl, _⟩
    · cases s with
      | nil => exact absurd rfl hd.1
      | cons _ _ => rfl
    · rfl
    · rfl
  unfold decodeInt
  rw [strip_quoted w hk s hl]
  simp only [hne, Bool.and_false, Bool.false_eq_true, if_false, hp, runParser]
  exact parse_int_never_wraps s v hd hout

/-- a wrapper that checks its quotes and rejects the empty input panics on exactly one input: the lone
    quote character (`b[1:0]`; today's JsInt64) — which no JSON library ever passes -/
theorem panic_only_lone_quote (w : Wrap) (hw : w.Checked) (hm : 1 ≤ w.minLen) (b : Bytes)
    (h : decodeInt w b = .panic) : b = [34] := by
  unfold decodeInt at h
  split at h
  · cases h
  · rename_i hs
    unfold strip at hs
    split at hs
    · cases hs
    · rename_i hlen
      rcases hw with hk | hk <;> simp only [hk] at hs
      all_goals
        split at hs
        · rename_i h0; omega
        · split at hs
          · rename_i hq
            split at hs
            · rename_i hl2
              cases b with
              | nil => simp at hlen; omega
              | cons x xs =>
                cases xs with
                | nil =>
                  simp only [isQuoted, quote, List.head?_cons, decide_eq_true_eq, Option.some.injEq] at hq
                  rw [hq.1]
                | cons y ys => simp only [List.length_cons] at hl2; omega
            · cases hs
          · cases hs
  · exact absurd h (runParser_no_panic _ _)
  · split at h
    · cases h
    · exact absurd h (runParser_no_panic _ _)

/-- JsInt64 as it is today: the lone quote panics (`b[1:0]`), and nothing else does -/
theorem i64_lone_quote_panics_today : decodeInt Cfg.today.i64 [34] = .panic := by decide
/-- inside `Proved` no integer wrapper panics on any input except (for the JsInt64 shape) the lone quote -/
theorem proved_panics_only_on_lone_quote (c : Cfg) (hc : Proved c) (b : Bytes) :
    (decodeInt c.i64 b = .panic → b = [34]) ∧ (decodeInt c.u64 b = .panic → b = [34]) ∧
    (decodeInt c.unixTime b = .panic → b = [34]) ∧ (decodeInt c.nanoTime b = .panic → b = [34]) ∧
    (decodeInt c.stamp b = .panic → b = [34]) := by
  have hm := hc.2.2.2.2.2.2.2.2.2.2.2.2.2.2.2.2.2.2.2.2.2.2.2.2
  exact ⟨panic_only_lone_quote _ hc.1 hm.1 b, panic_only_lone_quote _ hc.2.1 hm.2.1 b,
    panic_only_lone_quote _ hc.2.2.2.1 hm.2.2.1 b, panic_only_lone_quote _ hc.2.2.2.2.1 hm.2.2.2.1 b,
    panic_only_lone_quote _ hc.2.2.2.2.2.1 hm.2.2.2.2.1 b⟩

/-! ### non-vacuity -/

example : Proved Cfg.repaired := by decide
example : ¬ Proved Cfg.today := by decide
example : decodeInt Cfg.repaired.u64 [34, 49, 50, 51, 34] = .ok 123 := by decide          -- "123"
example : decodeInt Cfg.repaired.u64 [49, 50, 51] = .err .invalid := by decide            -- 123 (bare) is refused
example : denotes [34, 45, 49, 50, 34] (-12) :=                                            -- "-12"
  Or.inl ⟨[45, 49, 50], rfl, Or.inl (Or.inr (Or.inr ⟨[49, 50], rfl, ⟨by simp, by decide⟩, by decide⟩))⟩
example : decodeBytes Cfg.repaired.byte .rangeChecked [34, 51, 48, 48, 47, 45, 49, 34] = .err .byteRange := by decide  -- "300/-1"
example : decodeBytes Cfg.repaired.byte .rangeChecked [34, 55, 47, 50, 53, 53, 34] = .ok [7, 255] := by decide    -- "7/255"
example : durString (-90000000001) = [45, 49, 109, 51, 48, 46, 48, 48, 48, 48, 48, 48, 48, 48, 49, 115] := by decide  -- -1m30.000000001s
example : parseDuration [49, 104, 50, 109, 51, 46, 53, 115] = .ok 3723500000000 := by decide                          -- 1h2m3.5s

example : scanUnix .strict (.bytes [49, 55, 48, 48, 48, 48, 48, 48, 48, 48]) = .ok ⟨1700000000, 0⟩ := by decide
example : ¬ Time.zero.FitsNano := by decide
example : (⟨1700000000, 5⟩ : Time).FitsNano := by decide
example : scanInt .strict (.u64 (2 ^ 63)) = .err .other := by decide

/-! ### today's configuration: the property is false (each witness is also the replay on the Go side) -/

/-- JsUInt64: the bare JSON number `123` decodes to 2 -/
theorem witness_u64_bare_123 : decodeInt Cfg.today.u64 [49, 50, 51] = .ok 2 := by decide
/-- JsUInt64: `-123` decodes to 12 -/
theorem witness_u64_bare_neg123 : decodeInt Cfg.today.u64 [45, 49, 50, 51] = .ok 12 := by decide
/-- JsUnixTime / JsNanoTime / UnixStamp: `123` decodes to 2 -/
theorem witness_unixtime_bare_123 : decodeInt Cfg.today.unixTime [49, 50, 51] = .ok 2 := by decide
theorem witness_nanotime_bare_123 : decodeInt Cfg.today.nanoTime [49, 50, 51] = .ok 2 := by decide
theorem witness_stamp_bare_123 : decodeInt Cfg.today.stamp [49, 50, 51] = .ok 2 := by decide
/-- Duration: the bare number `105` decodes to the zero duration -/
theorem witness_dur_bare_105 : decodeDur Cfg.today.dur [49, 48, 53] = .ok 0 := by decide
/-- JsByte: the quoted list 300,-1 (slash-separated) decodes to [44, 255] (elements wrapped) -/
theorem witness_byte_wrap : decodeBytes Cfg.today.byte Cfg.today.byteConv [34, 51, 48, 48, 47, 45, 49, 34] = .ok [44, 255] := by
  decide
/-- JsByte: the bare number `12` decodes to the empty list -/
theorem witness_byte_bare_12 : decodeBytes Cfg.today.byte Cfg.today.byteConv [49, 50] = .ok [] := by decide

/-- JsNanoTime on `time.Time{}` (an unset field): marshals to "-6795364578871345152" and comes back as an instant in
    1754 with a nil error — the round trip fails outside the int64-nanosecond range, whatever the configuration -/
theorem witness_nanotime_zero_time :
    decodeNanoTime Cfg.repaired.nanoTime (encodeNanoTime Time.zero) = .ok ⟨-6795364579, 128654848⟩ := by decide
/-- … and on 2300-01-01T00:00:00Z, which comes back as an instant in 1715 -/
theorem witness_nanotime_year_2300 :
    decodeNanoTime Cfg.repaired.nanoTime (encodeNanoTime ⟨10413792000, 0⟩) = .ok ⟨-8032952074, 290448384⟩ := by decide
theorem not_nanotime_roundtrip_all_instants :
    ¬ (∀ t : Time, t.nsec < 1000000000 → decodeNanoTime Cfg.repaired.nanoTime (encodeNanoTime t) = .ok t) := by
  intro h
  have := h Time.zero (by decide)
  rw [witness_nanotime_zero_time] at this
  exact absurd this (by decide)
/-- the same wrap through the SQL form of UnixNano2Time -/
theorem witness_sql_unixnano_zero_time : scanNano .strict (.i64 Time.zero.unixNano) = .ok ⟨-6795364579, 128654848⟩ := by decide

/-- legacy scanners: the decimal text a text-protocol driver delivers is answered with the epoch and a nil error -/
theorem witness_scan_legacy_text_epoch :
    scanNano .legacy (.bytes [49, 55, 48, 48, 48, 48, 48, 48, 48, 48]) = .ok ⟨0, 0⟩ := by decide
/-- … a uint64 above MaxInt64 is wrapped -/
theorem witness_scan_legacy_uint_wraps : scanInt .legacy (.u64 (2 ^ 63)) = .ok (-(2 ^ 63)) := by decide
/-- … and UnixStamp.Scan ignores what is not a time -/
theorem witness_stamp_legacy_ignores : scanStamp .legacy 7 (.i64 5) = .ok 7 := by decide
theorem not_scan_exact_legacy : ¬ (∀ v ts, scanInt .legacy v = .ok ts → sqlDenotes v ts) := by
  intro h
  exact absurd (h (.f64 5) 0 rfl) (by simp [sqlDenotes])

/-- ToString through `int(v)`: MaxUint64 (as uint64 / uint / JsUInt64) is printed "-1" -/
theorem witness_tostring_maxuint64 : toStrNum .viaInt (2 ^ 64 - 1) = [45, 49] := by decide
theorem not_tostring_denotes_viaInt : ¬ (∀ v : Int, -(2 ^ 63 : Int) ≤ v → v < 2 ^ 64 → denotesCore (toStrNum .viaInt v) v) := by
  intro h
  have := h (2 ^ 64 - 1) (by decide) (by decide)
  rw [witness_tostring_maxuint64] at this
  rcases this with ⟨hd, _⟩ | ⟨t, ht, _⟩ | ⟨t, ht, hd, hv⟩
  · have := hd.2 45 (by simp); omega
  · simp at ht
  · simp only [List.cons.injEq, true_and] at ht
    subst ht
    have : (decVal [49] : Int) = 1 := by decide
    omega

theorem not_denotes_123_2 : ¬ denotes [49, 50, 51] 2 := by
  intro h
  rcases h with ⟨s, hs, _⟩ | h
  · simp at hs
  · rcases h with ⟨_, hv⟩ | ⟨t, ht, _⟩ | ⟨t, ht, _⟩
    · simp [decVal] at hv
    · simp at ht
    · simp at ht

/-- exact-or-error is false of today's JsUInt64 -/
theorem not_exact_or_error_today : ¬ (∀ b v, decodeInt Cfg.today.u64 b = .ok v → denotes b v) :=
  fun h => not_denotes_123_2 (h _ _ witness_u64_bare_123)

/-- no-wrap is false of today's JsByte -/
theorem not_no_wrap_today : ¬ (∀ b l, decodeBytes Cfg.today.byte Cfg.today.byteConv b = .ok l → ∀ x ∈ l, x ≤ 255 ∧ denotesBytes b l) := by
  intro h
  have := (h _ _ witness_byte_bare_12)
  -- the empty result is fine element-wise; use the wrapped witness for the denotation
  have hw := (h _ _ witness_byte_wrap) 44 (by simp)
  rcases hw.2 with ⟨s, hs, hd⟩ | hd
  · have hs' : s = [51, 48, 48, 47, 45, 49] := by
      have := congrArg inner hs
      rw [inner_quoted] at this
      exact this.symm
    subst hs'
    rcases hd with ⟨he, _⟩ | ⟨_, hr⟩
    · cases he
    · have hsp : splitSlash [51, 48, 48, 47, 45, 49] = [[51, 48, 48], [45, 49]] := by decide
      rw [hsp] at hr
      cases hr with
      | cons h1 _ =>
        rcases h1.1 with ⟨_, hv⟩ | ⟨t, ht, _⟩ | ⟨t, ht, _⟩
        · simp [decVal] at hv
        · simp at ht
        · simp at ht
  · rcases hd with ⟨he, _⟩ | ⟨_, hr⟩
    · cases he
    · have hsp : splitSlash [34, 51, 48, 48, 47, 45, 49, 34] = [[34, 51, 48, 48], [45, 49, 34]] := by decide
      rw [hsp] at hr
      cases hr with
      | cons h1 _ =>
        rcases h1.1 with ⟨hdg, _⟩ | ⟨t, ht, _⟩ | ⟨t, ht, _⟩
        · have := hdg.2 34 (by simp); omega
        · simp at ht
        · simp at ht

end Nv.C20
