import Nv.Proofs.C14Exec
/-!
C14 — property theorems for the serial executors (model: `Nv.Model.C14`).
-/
namespace Nv.C14

/-! ### the slot kernel -/

theorem srem_bounds (i s : BitVec 64) (hs : 0 < s.toInt) :
    -s.toInt < (i.srem s).toInt ∧ (i.srem s).toInt < s.toInt := by
  have hr := BitVec.toInt_srem i s
  have h1 : (i.toInt.tmod s.toInt) < s.toInt := Int.tmod_lt_of_pos _ hs
  have h2 : -s.toInt < (i.toInt.tmod s.toInt) := by
    have := Int.tmod_lt_of_pos (-i.toInt) hs
    rw [Int.neg_tmod] at this; omega
  omega

theorem neg_toInt_of_srem_neg (i s : BitVec 64) (hs : 0 < s.toInt) :
    (-(i.srem s)).toInt = -(i.srem s).toInt := by
  have hb := srem_bounds i s hs
  have hsb := BitVec.toInt_lt (x := s)
  have hne : i.srem s ≠ BitVec.intMin 64 := by
    intro h; rw [h] at hb; simp [BitVec.toInt_intMin] at hb; omega
  exact BitVec.toInt_neg_of_ne_intMin hne

/-- the repaired kernel is in range for every hash and every positive lane count -/
theorem slot_in_range_remFirst : SlotOk slotRemFirst := by
  intro i s hs
  unfold slotRemFirst
  simp only []
  have hb := srem_bounds i s hs
  have hn := neg_toInt_of_srem_neg i s hs
  split
  · rename_i hneg
    have hlt : (i.srem s).toInt < 0 := by simpa [BitVec.slt_iff_toInt_lt] using hneg
    omega
  · rename_i hnn
    have hge : 0 ≤ (i.srem s).toInt := by simpa [BitVec.slt_iff_toInt_lt] using hnn
    omega

/-- today's kernel: the minimum integer on 509 lanes is mapped to −151 -/
theorem witness_slotAbsFirst_minInt : (slotAbsFirst (BitVec.intMin 64) 509#64).toInt = -151 := by decide

theorem not_slot_in_range_absFirst : ¬ SlotOk slotAbsFirst := by
  intro h
  have := (h (BitVec.intMin 64) 509#64 (by decide)).1
  rw [witness_slotAbsFirst_minInt] at this
  omega


/-! ### one lane: every reachable state, i.e. every schedule of callers, consumer, callee returns,
cancellations and Stop (line, runner, pchan are one lane; a MultiLine is an array of them, below) -/

section lane
variable (cfg : Cfg) (k : Kind) (cap idx : Nat) (hg : RunGuarded cfg k) (l : Lane)
  (hr : (laneLTS cfg k cap idx).Reach l)
include hg hr

omit hg in
theorem lane_static : l.kind = k ∧ l.idx = idx ∧ l.cap = cap := by
  induction hr with
  | init => exact ⟨rfl, rfl, rfl⟩
  | step _ hstep ih =>
    have := step_static cfg _ _ _ hstep
    exact ⟨this.1.trans ih.1, this.2.1.trans ih.2.1, this.2.2.trans ih.2.2⟩

/-- `lane_start_order`: the calls started on a lane are a subsequence of the calls accepted on it, in
acceptance order (ids are issued in acceptance order, so: strictly increasing) -/
theorem lane_start_order :
    (startIds l.log).Sublist l.accepted ∧ l.accepted.Pairwise (· < ·) ∧ (startIds l.log).Pairwise (· < ·) := by
  have h := linv_reach cfg k cap idx hg l hr
  have hsub : (startIds l.log).Sublist l.accepted := by
    rw [h.acc_split]; exact h.starts_sub.trans (List.sublist_append_left _ _)
  exact ⟨hsub, h.acc_sorted, h.acc_sorted.sublist hsub⟩

/-- `lane_at_most_once`: no call is started twice -/
theorem lane_at_most_once : (startIds l.log).Nodup := by
  have := (lane_start_order cfg k cap idx hg l hr).2.2
  exact this.imp (fun h => Nat.ne_of_lt h)

/-- `lane_serial`: on a lane, start and end events alternate — a call starts only while none runs, the
call that ends is the one that runs — and the consumer's state is what the log says -/
theorem lane_serial : runState (runEvents l.log) = some (consRunning l.cons) :=
  (linv_reach cfg k cap idx hg l hr).run_state

/-- the callee of a call returns at most once, and only after it was started -/
theorem lane_end_once : finIds l.log ++ (consRunning l.cons).toList = startIds l.log ∧ (finIds l.log).Nodup := by
  have h := (rinv_reach cfg k cap idx hg l hr).2.fin
  refine ⟨h, ?_⟩
  have hn := lane_at_most_once cfg k cap idx hg l hr
  unfold FinOk at h
  rw [← h] at hn
  exact (List.nodup_append.1 hn).1

/-- `lane_result_routing`: what `AsyncCall` of call id returned is the value its own callee returned
(and a callee returns one value), or its own context's error (its context was cancelled), or a
rejection (`closed` only after Stop, `full`) — never another call's result -/
theorem lane_result_routing (id : Nat) (r : Res) (h : Ev.ret id r ∈ l.log) :
    ((isCalleeRes r = true ∧ Ev.fin id r ∈ l.log ∧ ∀ r', Ev.fin id r' ∈ l.log → r' = r) ∨
     (r = .ctx ∧ Cancelled l.calls id) ∨ (r = .closed ∧ l.stopped = true) ∨ r = .full) := by
  have hinv := rinv_reach cfg k cap idx hg l hr
  rcases hinv.2.ret id r h with ⟨a, b⟩ | h2
  · left
    refine ⟨a, b, fun r' hr' => ?_⟩
    exact fin_unique_aux l.log (lane_end_once cfg k cap idx hg l hr).2 id r' r hr' b
  · exact Or.inr h2

/-- the index handed to the callee is the lane's own -/
theorem lane_index_passed (id ln : Nat) (h : Ev.start id ln ∈ l.log) : ln = idx := by
  rw [(linv_reach cfg k cap idx hg l hr).idx_ok id ln h]
  exact (lane_static cfg k cap idx l hr).2.1

/-- `stop_drains` (line, multi-line, runner queue): a consumer that has exited has taken every accepted
call; for line / multi-line every accepted call was started exactly once, in order -/
theorem stop_drains (hk : k ≠ .pchan) (he : l.cons = .exited) :
    l.queue = [] ∧ l.popped = l.accepted ∧ ((k = .line ∨ k = .mline) → startIds l.log = l.accepted) := by
  have h := linv_reach cfg k cap idx hg l hr
  have hs := lane_static cfg k cap idx l hr
  have hq : l.queue = [] := (h.exited_drained he).2 (by rw [hs.1]; exact hk)
  have hp : l.popped = l.accepted := by rw [h.acc_split, hq, List.append_nil]
  refine ⟨hq, hp, fun hkk => ?_⟩
  rw [← hp]; exact h.starts_eq (by rw [hs.1]; exact hkk)

/-- before the consumer exits, for line / multi-line: the started calls followed by the queued ones are
exactly the accepted ones (nothing is lost, reordered or duplicated at any moment) -/
theorem lane_nothing_lost (hkk : k = .line ∨ k = .mline) : startIds l.log ++ l.queue = l.accepted := by
  have h := linv_reach cfg k cap idx hg l hr
  have hs := lane_static cfg k cap idx l hr
  rw [h.starts_eq (by rw [hs.1]; exact hkk), h.acc_split]

end lane

/-! ### Stop -/

/-- `stop_rejects_new`: in a stopped lane no submission is accepted (queue and accepted list unchanged, the
caller is told `closed`) — for every kind, for the configurations in `Proved` -/
theorem stop_rejects_new (cfg : Cfg) (hc : Proved cfg) (l l' : Lane) (id : Nat) (enq : Bool)
    (hst : l.stopped = true) (hs : l.step cfg (.submit id enq) = some l') :
    l'.accepted = l.accepted ∧ l'.queue = l.queue ∧ l'.log = l.log ++ [.ret id .closed] := by
  obtain ⟨_, he⟩ := submit_effect cfg l l' id enq hs
  rcases he with ⟨_, hw⟩ | ⟨r, e, hwhy⟩
  · rcases hw with hw | ⟨_, hw⟩
    · rw [hst] at hw; cases hw
    · exact absurd hc.1 hw
  · subst e
    refine ⟨rfl, rfl, ?_⟩
    -- the reason is `closed`: `full` is answered only by an open lane
    simp only [Lane.step] at hs
    have hcl : r = .closed := by
      rcases hwhy with e | ⟨e, _⟩
      · subst e
        exfalso
        split at hs
        · cases hs
        · split at hs
          · simp only [hst, Bool.not_true, Bool.false_eq_true, if_false] at hs
            rw [hc.1] at hs
            simp only [Option.some.injEq] at hs
            have := congrArg Lane.log hs
            simp [Lane.reject] at this
          · simp only [Option.some.injEq] at hs
            have := congrArg Lane.log hs
            simp [Lane.reject] at this
      · exact e
    rw [hcl]; rfl

/-- today's accept path of `ProcChan` (`racyThreeWaySelect`): a stopped ProcChan whose consumer is still
busy takes a new call into its channel, and the consumer then executes it — after `Stop` returned -/
theorem witness_pchan_accepts_after_stop :
    (laneLTS ⟨.racyThreeWaySelect, .once⟩ .pchan 2 0).run (Lane.init .pchan 2 0)
      [.run, .submit 0 true, .pop true, .stop, .recv 0 2, .submit 1 true, .finish 0 (.ok 1), .pop true] =
    some { kind := .pchan, cap := 2, idx := 0, stopped := true, queue := [], started := true, cons := .running 1, cons2 := none,
           calls := [⟨0, false, false, some (.ok 1)⟩, ⟨1, false, true, none⟩], next := 2,
           log := [.start 0 0, .ret 0 .closed, .fin 0 (.ok 1), .start 1 0], accepted := [0, 1], popped := [0, 1] } := by
  decide

theorem not_stop_rejects_new_racy :
    ¬ (∀ (l l' : Lane) (id : Nat) (enq : Bool), l.stopped = true →
        l.step ⟨.racyThreeWaySelect, .once⟩ (.submit id enq) = some l' → l'.accepted = l.accepted) := by
  intro h
  have := h { Lane.init .pchan 2 0 with stopped := true } _ 0 true rfl rfl
  simp [Lane.accept, Lane.init] at this

/-- the repaired accept path on the same schedule: the call is turned away -/
example : (laneLTS ⟨.stopFirst, .once⟩ .pchan 2 0).run (Lane.init .pchan 2 0)
      [.run, .submit 0 true, .pop true, .stop, .recv 0 2, .submit 1 true] =
    some { kind := .pchan, cap := 2, idx := 0, stopped := true, queue := [], started := true, cons := .running 0, cons2 := none,
           calls := [⟨0, false, false, none⟩, ⟨1, false, false, none⟩], next := 2,
           log := [.start 0 0, .ret 0 .closed, .ret 1 .closed], accepted := [0], popped := [0] } := by
  decide

/-- `lane_terminates`, part 1: once stopped, every iteration of the consumer loop strictly decreases
`remaining = backlog + 1` (0 when exited): at most backlog + 1 iterations are left -/
theorem lane_terminates_decreases (cfg : Cfg) (l l' : Lane) (take : Bool) (_hst : l.stopped = true)
    (hs : l.step cfg (.pop take) = some l') : l'.remaining < l.remaining := by
  obtain ⟨hc, he⟩ := pop_effect cfg l l' take hs
  rcases he with ⟨e, _, _⟩ | ⟨c, rest, hq, e⟩
  · subst e; simp [Lane.remaining, Lane.doExit, hc]
  · subst e
    unfold Lane.take
    split <;> simp [Lane.remaining, hc, hq]

/-- part 2: a stopped lane's idle consumer is never parked — its next iteration is enabled -/
theorem lane_terminates_not_stuck (cfg : Cfg) (l : Lane) (hst : l.stopped = true) (hrun : l.started = true)
    (hc : l.cons = .idle) : ∃ l', l.step cfg (.pop true) = some l' := by
  simp only [Lane.step, hc, hrun]
  cases hq : l.queue with
  | nil => simp [hst]
  | cons c rest => simp

/-- part 3: nothing else adds work to a stopped lane (for the configurations in `Proved`) -/
theorem lane_terminates_no_new_work (cfg : Cfg) (hcfg : Proved cfg) (l l' : Lane) (a : LAct)
    (hst : l.stopped = true) (h2 : l.cons2 = none) (hs : l.step cfg a = some l') :
    l'.remaining ≤ l.remaining ∧ l'.stopped = true := by
  cases a with
  | submit id enq =>
    have h := stop_rejects_new cfg hcfg l l' id enq hst hs
    obtain ⟨_, he⟩ := submit_effect cfg l l' id enq hs
    rcases he with ⟨_, hw⟩ | ⟨r, e, _⟩
    · rcases hw with hw | ⟨_, hw⟩
      · rw [hst] at hw; cases hw
      · exact absurd hcfg.1 hw
    · subst e; exact ⟨by simp [Lane.remaining, Lane.reject], hst⟩
  | pop take =>
    refine ⟨Nat.le_of_lt (lane_terminates_decreases cfg l l' take hst hs), ?_⟩
    obtain ⟨_, he⟩ := pop_effect cfg l l' take hs
    rcases he with ⟨e, _, _⟩ | ⟨c, rest, _, e⟩
    · subst e; exact hst
    · subst e; rw [(take_static l c rest).2.2.2.1]; exact hst
  | finish id r =>
    obtain ⟨hc, _, e⟩ := finish_effect cfg l l' id r h2 hs
    subst e; exact ⟨by simp [Lane.remaining, hc], hst⟩
  | recv id pick =>
    obtain ⟨c, r, _, _, e, _⟩ := recv_effect cfg l l' id pick hs
    subst e; exact ⟨by simp [Lane.remaining], hst⟩
  | cancel id => rw [cancel_effect cfg l l' id hs]; exact ⟨by simp [Lane.remaining], hst⟩
  | stop => rw [stop_effect cfg l l' hs]; exact ⟨by simp [Lane.remaining], rfl⟩
  | run =>
    rcases run_effect cfg l l' hs with e | e | ⟨e, _, _⟩ <;> subst e <;> exact ⟨by simp [Lane.remaining], hst⟩
  | pop2 => rw [pop2_disabled cfg l h2] at hs; cases hs

/-! ### the oracle's quiescent closure only takes transitions of the lane machine -/

/-- every outcome of `settleLane` (what the correspondence compares the real code with) is a reachable
state: the compared runs are paths of the transition system the theorems quantify over -/
theorem settle_reach (cfg : Cfg) (k : Kind) (cap idx : Nat) : ∀ (n : Nat) (l : Lane),
    (laneLTS cfg k cap idx).Reach l → ∀ l' ∈ settleLane cfg n l, (laneLTS cfg k cap idx).Reach l'
  | 0, l, hr, l', h => by simp [settleLane] at h; subst h; exact hr
  | n + 1, l, hr, l', h => by
    simp only [settleLane] at h
    split at h
    · rename_i id p _
      split at h
      · rename_i l1 h1
        exact settle_reach cfg k cap idx n l1 (LTS.Reach.step (m := laneLTS cfg k cap idx) (a := .recv id p) hr h1) l' h
      · simp at h; subst h; exact hr
    · split at h
      · rcases List.mem_append.1 h with h | h
        · split at h
          · rename_i l1 h1
            exact settle_reach cfg k cap idx n l1 (LTS.Reach.step (m := laneLTS cfg k cap idx) (a := .pop true) hr h1) l' h
          · simp at h
        · split at h
          · rename_i l1 h1
            exact settle_reach cfg k cap idx n l1 (LTS.Reach.step (m := laneLTS cfg k cap idx) (a := .pop false) hr h1) l' h
          · simp at h
      · split at h
        · rename_i l1 h1
          exact settle_reach cfg k cap idx n l1 (LTS.Reach.step (m := laneLTS cfg k cap idx) (a := .pop true) hr h1) l' h
        · split at h
          · rename_i l1 h1
            exact settle_reach cfg k cap idx n l1 (LTS.Reach.step (m := laneLTS cfg k cap idx) (a := .pop2) hr h1) l' h
          · simp at h; subst h; exact hr

/-! ### the executor: lanes addressed through the slot kernel -/

theorem mkLanes_getElem (k : Kind) (cap : Nat) : ∀ (n i : Nat) (l : Lane),
    (mkLanes k cap n)[i]? = some l → l = Lane.init k cap i ∧ i < n
  | 0, i, l, h => by simp [mkLanes] at h
  | n + 1, i, l, h => by
    simp only [mkLanes] at h
    by_cases hi : i < (mkLanes k cap n).length
    · rw [List.getElem?_append_left hi] at h
      have := mkLanes_getElem k cap n i l h
      exact ⟨this.1, by omega⟩
    · have hlen : ∀ m, (mkLanes k cap m).length = m := by
        intro m; induction m with
        | zero => rfl
        | succ m ih => simp [mkLanes, ih]
      rw [List.getElem?_append_right (by omega)] at h
      rw [hlen] at h hi
      have : i - n = 0 := by
        cases hd : i - n with
        | zero => rfl
        | succ d => rw [hd] at h; simp at h
      rw [this] at h
      simp at h
      have hin : i = n := by omega
      subst hin
      exact ⟨h.symm, by omega⟩

theorem allLanes_getElem (cfg : Cfg) (a : LAct) (ha : ∀ l : Lane, (l.step cfg a).isSome) :
    ∀ (ls : List Lane) (i : Nat) (l' : Lane),
    (allLanes cfg a ls)[i]? = some l' → ∃ l, ls[i]? = some l ∧ l.step cfg a = some l'
  | [], i, l', h => by simp [allLanes] at h
  | l :: ls, 0, l', h => by
    simp only [allLanes, List.getElem?_cons_zero, Option.some.injEq] at h
    refine ⟨l, rfl, ?_⟩
    have := ha l
    cases hst : l.step cfg a with
    | none => rw [hst] at this; cases this
    | some l1 => rw [hst] at h; simp only at h; rw [h]
  | l :: ls, i + 1, l', h => by
    simp only [allLanes, List.getElem?_cons_succ] at h
    obtain ⟨l0, h0, h1⟩ := allLanes_getElem cfg a ha ls i l' h
    exact ⟨l0, by simpa using h0, h1⟩

theorem stop_enabled (cfg : Cfg) (l : Lane) : (l.step cfg .stop).isSome := by simp [Lane.step]
theorem run_enabled (cfg : Cfg) (l : Lane) : (l.step cfg .run).isSome := by
  simp only [Lane.step]
  split
  · rfl
  · split <;> rfl

/-- every lane of a reachable executor state is a reachable state of the one-lane machine with that index:
all lane theorems above hold for every lane of a `MultiLine`, under every schedule -/
theorem exec_lanes_reach (cfg : Cfg) (slot : Slot) (k : Kind) (nlanes cap : Nat) (x : Exec)
    (hr : (execLTS cfg slot k nlanes cap).Reach x) :
    x.kind = k ∧ x.nlanes = nlanes ∧ ∀ i l, x.lanes[i]? = some l → (laneLTS cfg k cap i).Reach l := by
  induction hr with
  | init =>
    refine ⟨rfl, rfl, fun i l h => ?_⟩
    have := (mkLanes_getElem k cap nlanes i l h).1
    subst this; exact LTS.Reach.init
  | @step s a s' _ hstep ih =>
    obtain ⟨hk, hn, hl⟩ := ih
    cases a with
    | submit hash enq =>
      simp only [execLTS, Exec.step] at hstep
      split at hstep
      · cases hstep; exact ⟨hk, hn, hl⟩
      · rename_i i _
        split at hstep
        · cases hstep
        · rename_i l0 hl0
          split at hstep
          · cases hstep
          · rename_i l1 hl1
            cases hstep
            refine ⟨hk, hn, fun j l hj => ?_⟩
            simp only at hj
            by_cases hij : j = i
            · subst hij
              rw [List.getElem?_set_self (List.getElem?_eq_some_iff.1 hl0).1] at hj
              cases hj
              exact LTS.Reach.step (m := laneLTS cfg k cap j) (a := .submit s.next enq) (hl j l0 hl0) hl1
            · rw [List.getElem?_set_ne (fun e => hij e.symm)] at hj
              exact hl j l hj
    | lane i a =>
      simp only [execLTS, Exec.step] at hstep
      split at hstep
      · cases hstep
      · split at hstep
        · cases hstep
        · rename_i l0 hl0
          split at hstep
          · cases hstep
          · rename_i l1 hl1
            cases hstep
            refine ⟨hk, hn, fun j l hj => ?_⟩
            simp only at hj
            by_cases hij : j = i
            · subst hij
              rw [List.getElem?_set_self (List.getElem?_eq_some_iff.1 hl0).1] at hj
              cases hj
              exact LTS.Reach.step (m := laneLTS cfg k cap j) (a := a) (hl j l0 hl0) hl1
            · rw [List.getElem?_set_ne (fun e => hij e.symm)] at hj
              exact hl j l hj
    | stop =>
      simp only [execLTS, Exec.step, Option.some.injEq] at hstep
      subst hstep
      refine ⟨hk, hn, fun j l hj => ?_⟩
      obtain ⟨l0, h0, h1⟩ := allLanes_getElem cfg .stop (stop_enabled cfg) s.lanes j l hj
      exact LTS.Reach.step (m := laneLTS cfg k cap j) (a := .stop) (hl j l0 h0) h1
    | run =>
      simp only [execLTS, Exec.step, Option.some.injEq] at hstep
      subst hstep
      refine ⟨hk, hn, fun j l hj => ?_⟩
      obtain ⟨l0, h0, h1⟩ := allLanes_getElem cfg .run (run_enabled cfg) s.lanes j l hj
      exact LTS.Reach.step (m := laneLTS cfg k cap j) (a := .run) (hl j l0 h0) h1

/-- for an in-range kernel every hash — negative ones and the minimum integer included — has a lane below the
lane count (where a call with that hash then runs: `exec_start_lane_of_hash` below) -/
theorem toInt_ofNat_small (n : Nat) (h : n < 2^63) : (BitVec.ofNat 64 n).toInt = (n : Int) := by
  have h1 : (BitVec.ofNat 64 n).toNat = n := by simp [BitVec.toNat_ofNat]; omega
  rw [BitVec.toInt_eq_toNat_of_lt (by omega), h1]

theorem slot_lane_exists (slot : Slot) (hs : SlotOk slot) (n : Nat) (hn : 0 < n) (hb : n < 2^63) (hash : BitVec 64) :
    ∃ i, laneOf slot .mline n hash = some i ∧ i < n := by
  have hi := toInt_ofNat_small n hb
  have := hs hash (BitVec.ofNat 64 n) (by rw [hi]; omega)
  rw [hi] at this
  refine ⟨(slot hash (BitVec.ofNat 64 n)).toInt.toNat, ?_, by omega⟩
  simp only [laneOf, beq_self_eq_true, if_true]
  rw [if_pos this]

theorem exec_index_passed (cfg : Cfg) (slot : Slot) (k : Kind) (nlanes cap : Nat) (hg : RunGuarded cfg k) (x : Exec)
    (hr : (execLTS cfg slot k nlanes cap).Reach x) (i : Nat) (l : Lane) (hl : x.lanes[i]? = some l)
    (id ln : Nat) (h : Ev.start id ln ∈ l.log) : ln = i :=
  lane_index_passed cfg k cap i hg l ((exec_lanes_reach cfg slot k nlanes cap x hr).2.2 i l hl) id ln h

/-- today's kernel: the minimum integer has no lane on 509 lanes (`qs[-151]` panics) -/
theorem witness_laneOf_minInt : laneOf slotAbsFirst .mline 509 (BitVec.intMin 64) = none := by decide
example : laneOf slotRemFirst .mline 509 (BitVec.intMin 64) = some 151 := by decide


/-! ### audit follow-up: Run twice, accepted calls, hash ↦ lane, Stop composed over runs -/

/-- an unguarded `MultiLine.Run` called twice: two consumers on one lane start two calls with no end in between —
the run discipline is broken (`runState = none`) -/
theorem witness_mline_run_twice_overlap :
    ((laneLTS ⟨.stopFirst, .unguarded⟩ .mline 0 0).run (Lane.init .mline 0 0)
      [.run, .run, .submit 0 true, .submit 1 true, .pop true, .pop2]).map
        (fun l => (l.log, runState (runEvents l.log))) = some ([.start 0 0, .start 1 0], none) := by decide

theorem not_lane_serial_unguarded :
    ¬ (∀ l, (laneLTS ⟨.stopFirst, .unguarded⟩ .mline 0 0).Reach l → (runState (runEvents l.log)).isSome = true) := by
  intro h
  have hrun : (laneLTS ⟨.stopFirst, .unguarded⟩ .mline 0 0).run (Lane.init .mline 0 0)
      [.run, .run, .submit 0 true, .submit 1 true, .pop true, .pop2] = some
      { kind := .mline, cap := 0, idx := 0, stopped := false, queue := [], started := true, cons := .running 0,
        cons2 := some (.running 1), calls := [⟨0, false, true, none⟩, ⟨1, false, true, none⟩], next := 2,
        log := [.start 0 0, .start 1 0], accepted := [0, 1], popped := [0, 1] } := by decide
  have := h _ (LTS.reach_of_run _ _ _ _ LTS.Reach.init hrun)
  revert this; decide

/-- with the guard a second `Run` changes nothing -/
example : (laneLTS ⟨.stopFirst, .once⟩ .mline 0 0).run (Lane.init .mline 0 0) [.run, .run] =
    (laneLTS ⟨.stopFirst, .once⟩ .mline 0 0).run (Lane.init .mline 0 0) [.run] := by decide

/-- `lane_result_routing` for accepted calls: the caller of a call that was ACCEPTED gets the value its own callee
returned, or its own context's error, or — ProcChan only — `closed` once the lane is stopped; never `full`,
never `closed` from a queue, never another call's value -/
theorem lane_result_routing_accepted (cfg : Cfg) (k : Kind) (cap idx : Nat) (hg : RunGuarded cfg k) (l : Lane)
    (hr : (laneLTS cfg k cap idx).Reach l) (id : Nat) (r : Res) (hacc : id ∈ l.accepted) (h : Ev.ret id r ∈ l.log) :
    (isCalleeRes r = true ∧ Ev.fin id r ∈ l.log ∧ ∀ r', Ev.fin id r' ∈ l.log → r' = r) ∨
    (r = .ctx ∧ Cancelled l.calls id) ∨ (r = .closed ∧ l.stopped = true ∧ k = .pchan) := by
  have ha := ainv_reach cfg k cap idx hg l hr
  have hk := (lane_static cfg k cap idx l hr).1
  rcases lane_result_routing cfg k cap idx hg l hr id r h with h1 | h1 | ⟨h1, h2⟩ | h1
  · exact Or.inl h1
  · exact Or.inr (Or.inl h1)
  · subst h1
    rcases ha.closed_rejected id h with h3 | h3
    · exact absurd hacc h3
    · exact Or.inr (Or.inr ⟨rfl, h2, by rw [← hk]; exact h3⟩)
  · subst h1; exact absurd hacc (ha.full_rejected id h)

theorem einv_reach (cfg : Cfg) (slot : Slot) (k : Kind) (nlanes cap : Nat) (x : Exec)
    (hr : (execLTS cfg slot k nlanes cap).Reach x) : EInv slot x := by
  induction hr with
  | init => exact einv_init slot k nlanes cap
  | step _ hstep ih => exact einv_step cfg slot _ _ _ ih hstep

theorem start_mem_accepted (cfg : Cfg) (k : Kind) (cap idx : Nat) (hg : RunGuarded cfg k) (l : Lane)
    (hr : (laneLTS cfg k cap idx).Reach l) (id ln : Nat) (h : Ev.start id ln ∈ l.log) : id ∈ l.accepted :=
  (lane_start_order cfg k cap idx hg l hr).1.subset (mem_startIds.2 ⟨ln, h⟩)

/-- `slot_stable`, the real statement: a call submitted with hash h starts — if it starts — in lane
`slot(h, lanes)` and is handed exactly that index, under every schedule -/
theorem exec_start_lane_of_hash (cfg : Cfg) (slot : Slot) (k : Kind) (nlanes cap : Nat) (hg : RunGuarded cfg k)
    (x : Exec) (hr : (execLTS cfg slot k nlanes cap).Reach x) (i : Nat) (l : Lane) (hl : x.lanes[i]? = some l)
    (id ln : Nat) (hs : Ev.start id ln ∈ l.log) (h : BitVec 64) (hh : (id, h) ∈ x.hashes) :
    laneOf slot k nlanes h = some i ∧ ln = i := by
  obtain ⟨hk, hn, hlanes⟩ := exec_lanes_reach cfg slot k nlanes cap x hr
  have he := einv_reach cfg slot k nlanes cap x hr
  have hacc := start_mem_accepted cfg k cap i hg l (hlanes i l hl) id ln hs
  obtain ⟨h', hm, hlane⟩ := he.acc_hash i l hl id hacc
  rw [he.hash_fun id h h' hh hm, ← hk, ← hn]
  exact ⟨hlane, lane_index_passed cfg k cap i hg l (hlanes i l hl) id ln hs⟩

/-- calls with equal hash run on the same lane -/
theorem exec_equal_hash_same_lane (cfg : Cfg) (slot : Slot) (k : Kind) (nlanes cap : Nat) (hg : RunGuarded cfg k)
    (x : Exec) (hr : (execLTS cfg slot k nlanes cap).Reach x) (i j : Nat) (li lj : Lane)
    (hi : x.lanes[i]? = some li) (hj : x.lanes[j]? = some lj) (a b la lb : Nat) (h : BitVec 64)
    (ha : (a, h) ∈ x.hashes) (hb : (b, h) ∈ x.hashes)
    (hsa : Ev.start a la ∈ li.log) (hsb : Ev.start b lb ∈ lj.log) : i = j ∧ la = lb := by
  have h1 := exec_start_lane_of_hash cfg slot k nlanes cap hg x hr i li hi a la hsa h ha
  have h2 := exec_start_lane_of_hash cfg slot k nlanes cap hg x hr j lj hj b lb hsb h hb
  have : i = j := Option.some.inj (h1.1.symm.trans h2.1)
  exact ⟨this, by rw [h1.2, h2.2, this]⟩

/-- at most once across ALL lanes: a call starts in at most one lane (and there at most once: `lane_at_most_once`) -/
theorem exec_at_most_once (cfg : Cfg) (slot : Slot) (k : Kind) (nlanes cap : Nat) (hg : RunGuarded cfg k)
    (x : Exec) (hr : (execLTS cfg slot k nlanes cap).Reach x) (i j : Nat) (li lj : Lane)
    (hi : x.lanes[i]? = some li) (hj : x.lanes[j]? = some lj) (id la lb : Nat)
    (hsa : Ev.start id la ∈ li.log) (hsb : Ev.start id lb ∈ lj.log) :
    i = j ∧ (startIds li.log).Nodup := by
  obtain ⟨_, _, hlanes⟩ := exec_lanes_reach cfg slot k nlanes cap x hr
  have he := einv_reach cfg slot k nlanes cap x hr
  obtain ⟨h1, hm1, hl1⟩ := he.acc_hash i li hi id (start_mem_accepted cfg k cap i hg li (hlanes i li hi) id la hsa)
  obtain ⟨h2, hm2, hl2⟩ := he.acc_hash j lj hj id (start_mem_accepted cfg k cap j hg lj (hlanes j lj hj) id lb hsb)
  rw [he.hash_fun id h1 h2 hm1 hm2] at hl1
  exact ⟨Option.some.inj (hl1.symm.trans hl2), lane_at_most_once cfg k cap i hg li (hlanes i li hi)⟩

/-! #### Stop, composed: every run of the consumer side from a stopped lane is short, and where it can go no
further the lane has exited having executed every accepted call exactly once, in order -/

/-- what the consumer side can do: loop iterations and callee returns -/
def consumerAct : LAct → Bool
  | .pop _ => true
  | .finish _ r => isCalleeRes r
  | _ => false

def Lane.work (l : Lane) : Nat := 2 * l.remaining + (match l.cons with | .running _ => 1 | _ => 0)

/-- nothing is left for the consumer side -/
def Lane.final (cfg : Cfg) (l : Lane) : Prop :=
  l.step cfg (.pop true) = none ∧ ∀ id, l.step cfg (.finish id (.ok 0)) = none

theorem consumer_step (cfg : Cfg) (l l' : Lane) (a : LAct) (hst : l.stopped = true) (h2 : l.cons2 = none)
    (ha : consumerAct a = true) (hs : l.step cfg a = some l') :
    l'.work < l.work ∧ l'.stopped = true ∧ l'.accepted = l.accepted ∧ l'.started = l.started := by
  have hacc := step_accepted cfg l l' a hs (by intro id enq e; subst e; simp [consumerAct] at ha)
  cases a with
  | pop take =>
    obtain ⟨hc, he⟩ := pop_effect cfg l l' take hs
    rcases he with ⟨e, _, _⟩ | ⟨c, rest, hq, e⟩
    · subst e; exact ⟨by simp [Lane.work, Lane.remaining, Lane.doExit, hc], hst, hacc, rfl⟩
    · subst e
      refine ⟨?_, by rw [(take_static l c rest).2.2.2.1]; exact hst, hacc, ?_⟩
      · unfold Lane.take
        split <;> simp [Lane.work, Lane.remaining, hc, hq] <;> omega
      · unfold Lane.take; split <;> rfl
  | finish id r =>
    obtain ⟨hc, _, e⟩ := finish_effect cfg l l' id r h2 hs
    subst e; exact ⟨by simp [Lane.work, Lane.remaining, hc], hst, hacc, rfl⟩
  | submit id enq => simp [consumerAct] at ha
  | recv id pick => simp [consumerAct] at ha
  | cancel id => simp [consumerAct] at ha
  | stop => simp [consumerAct] at ha
  | run => simp [consumerAct] at ha
  | pop2 => simp [consumerAct] at ha

theorem consumer_run (cfg : Cfg) (k : Kind) (cap idx : Nat) (hg : RunGuarded cfg k) :
    ∀ (as : List LAct) (l l' : Lane), (laneLTS cfg k cap idx).Reach l → l.stopped = true →
      (∀ a ∈ as, consumerAct a = true) → (laneLTS cfg k cap idx).run l as = some l' →
      as.length + l'.work ≤ l.work ∧ l'.stopped = true ∧ l'.accepted = l.accepted ∧ l'.started = l.started
  | [], l, l', _, hst, _, hrun => by
    simp [LTS.run] at hrun; subst hrun; exact ⟨by simp, hst, rfl, rfl⟩
  | a :: as, l, l', hr, hst, hall, hrun => by
    simp only [LTS.run] at hrun
    split at hrun
    · cases hrun
    · rename_i l1 h1
      have hi := linv_reach cfg k cap idx hg l hr
      have hstep := consumer_step cfg l l1 a hst hi.cons2_none (hall a (by simp)) h1
      have ih := consumer_run cfg k cap idx hg as l1 l' (LTS.Reach.step (m := laneLTS cfg k cap idx) (a := a) hr h1)
        hstep.2.1 (fun b hb => hall b (by simp [hb])) hrun
      refine ⟨by simp only [List.length_cons]; omega, ih.2.1, ih.2.2.1.trans hstep.2.2.1, ih.2.2.2.trans hstep.2.2.2⟩

/-- `stop_completes`: from a reachable, started, stopped lane (line / multi-line / runner queue), every run of
consumer iterations and callee returns has at most `2·(backlog+1)+1` steps, and when it can go no further the
consumer has exited, the queue is empty, nothing was accepted meanwhile, every accepted call was taken — and for
line / multi-line started exactly once, in acceptance order. -/
theorem stop_completes (cfg : Cfg) (k : Kind) (cap idx : Nat) (hg : RunGuarded cfg k) (hk : k ≠ .pchan)
    (l l' : Lane) (hr : (laneLTS cfg k cap idx).Reach l) (hst : l.stopped = true) (hrun : l.started = true)
    (as : List LAct) (hall : ∀ a ∈ as, consumerAct a = true) (h : (laneLTS cfg k cap idx).run l as = some l') :
    as.length ≤ l.work ∧
    (l'.final cfg → l'.cons = .exited ∧ l'.queue = [] ∧ l'.accepted = l.accepted ∧ l'.popped = l'.accepted ∧
      ((k = .line ∨ k = .mline) → startIds l'.log = l'.accepted ∧ (startIds l'.log).Pairwise (· < ·))) := by
  have hc := consumer_run cfg k cap idx hg as l l' hr hst hall h
  have hr' := LTS.reach_of_run _ as l l' hr h
  refine ⟨by omega, fun hfin => ?_⟩
  have hex : l'.cons = .exited := by
    cases hcons : l'.cons with
    | exited => rfl
    | idle =>
      obtain ⟨l2, h2⟩ := lane_terminates_not_stuck cfg l' hc.2.1 (by rw [hc.2.2.2]; exact hrun) hcons
      rw [hfin.1] at h2; cases h2
    | running c =>
      have := hfin.2 c
      simp [Lane.step, hcons, isCalleeRes] at this
  have hd := stop_drains cfg k cap idx hg l' hr' hk hex
  refine ⟨hex, hd.1, hc.2.2.1, hd.2.1, fun hkk => ⟨hd.2.2 hkk, ?_⟩⟩
  exact (lane_start_order cfg k cap idx hg l' hr').2.2

/-! ### bounded queues (round-4 seeds) -/

/-- `bounded_lane_accepts_below_capacity`: a line, multi-line lane or runner that is not stopped accepts a call whenever its
queue HOLDS fewer calls than its bound (or is unbounded) — the call the consumer is executing has left the queue and does not
count; so `full` is answered only when `cap` calls are waiting -/
theorem bounded_lane_accepts_below_capacity (cfg : Cfg) (l : Lane) (id : Nat) (enq : Bool) (hk : l.kind ≠ .pchan)
    (hid : l.next ≤ id) (hs : l.stopped = false) (hc : l.cap = 0 ∨ l.queue.length < l.cap) :
    l.step cfg (.submit id enq) = some (l.accept id) := by
  have h1 : ¬ id < l.next := Nat.not_lt.2 hid
  have h2 : (l.kind == .pchan) = false := by
    cases hkk : l.kind <;> simp_all
  have h3 : ¬ (0 < l.cap ∧ l.cap ≤ l.queue.length) := by
    rcases hc with h | h <;> omega
  simp [Lane.step, h1, h2, hs, h3]

/-- and conversely `full` from such a lane means exactly that: `cap` calls are waiting -/
theorem full_only_at_capacity (cfg : Cfg) (l : Lane) (id : Nat) (enq : Bool) (hk : l.kind ≠ .pchan)
    (h : l.step cfg (.submit id enq) = some (l.reject id .full)) : 0 < l.cap ∧ l.cap ≤ l.queue.length := by
  have h2 : (l.kind == .pchan) = false := by
    cases hkk : l.kind <;> simp_all
  simp only [Lane.step, h2] at h
  split at h
  · cases h
  · simp only [Bool.false_eq_true, if_false] at h
    split at h
    · have := Option.some.inj h
      simp [Lane.reject] at this
    · split at h
      · rename_i hcap
        simpa using hcap
      · have := Option.some.inj h
        simp [Lane.reject, Lane.accept] at this

end Nv.C14
