import Nv.Model.C14
/-!
C14 — property theorems for the serial executors (model: `Nv.Model.C14`).
-/
namespace Nv.C14

/-! ### the slot kernel -/

theorem srem_bounds (i s : BitVec 64) (hs : 0 < s.toInt) :
    -s.toInt < (i.srem s).toInt ∧ (i.srem s).toInt < s.toInt := by
  have hr := BitVec.toInt_srem i s
  have h1 : (i.toInt.tmod s.toInt) < s.toInt := Int.tmod_lt_of_pos _ hs
  have h2 : -s.toInt < (i.toInt.tmod s.toInt) := by
    have := Int.tmod_lt_of_pos (-i.toInt) hs
    rw [Int.neg_tmod] at this; omega
  omega

theorem neg_toInt_of_srem_neg (i s : BitVec 64) (hs : 0 < s.toInt) :
    (-(i.srem s)).toInt = -(i.srem s).toInt := by
  have hb := srem_bounds i s hs
  have hsb := BitVec.toInt_lt (x := s)
  have hne : i.srem s ≠ BitVec.intMin 64 := by
    intro h; rw [h] at hb; simp [BitVec.toInt_intMin] at hb; omega
  exact BitVec.toInt_neg_of_ne_intMin hne

/-- the repaired kernel is in range for every hash and every positive lane count -/
theorem slot_in_range_remFirst : SlotOk slotRemFirst := by
  intro i s hs
  unfold slotRemFirst
  simp only []
  have hb := srem_bounds i s hs
  have hn := neg_toInt_of_srem_neg i s hs
  split
  · rename_i hneg
    have hlt : (i.srem s).toInt < 0 := by simpa [BitVec.slt_iff_toInt_lt] using hneg
    omega
  · rename_i hnn
    have hge : 0 ≤ (i.srem s).toInt := by simpa [BitVec.slt_iff_toInt_lt] using hnn
    omega

/-- today's kernel: the minimum integer on 509 lanes is mapped to −151 -/
theorem witness_slotAbsFirst_minInt : (slotAbsFirst (BitVec.intMin 64) 509#64).toInt = -151 := by decide

theorem not_slot_in_range_absFirst : ¬ SlotOk slotAbsFirst := by
  intro h
  have := (h (BitVec.intMin 64) 509#64 (by decide)).1
  rw [witness_slotAbsFirst_minInt] at this
  omega

end Nv.C14
