import Nv.Proofs.C01Lists
import Nv.Proofs.C01Fifo
import Nv.Proofs.C01Refine
/-!
C01 — property theorems for `syncx/semap` (model `Nv.Model.C01`, proofs `Nv.Proofs.C01*`).

Every theorem quantifies over every configuration `c` with `Proved c` (the repaired delete guard), every
`rwRatio ≥ 1`, every reachable state of the map's transition system `M c rw` — i.e. every interleaving of
acquire / release / cancel critical sections of any number of callers over any keys — and every key.
`(s k).holders` = callers inside the critical section of `k` (caller id, weight: 1 reader, rwRatio writer);
`(s k).waiters` = blocked callers, oldest first; `(s k).present` = the container has an entry for `k`.
For today's guard (`emptyOnly`) the exclusion theorem is *refuted* by concrete runs (`witness_*`).
-/
namespace Nv.C01

/-! ### the shape of a key in a reachable state -/

theorem kinv_view {size : Nat} {s : KS} (h : KInv size s) :
    s = ⟨none, []⟩ ∨ ∃ o, s = ⟨some o, []⟩ ∧ SemOk size o ∧ 0 < o.cur := by
  obtain ⟨ho, hl⟩ := h
  cases hlive : s.live with
  | none => exact Or.inl (ks_eta s none hlive ho)
  | some o => exact Or.inr ⟨o, ks_eta s (some o) hlive ho, hl o hlive⟩

/-- all callers refer to the object the map holds for the key: no object is ever deleted while referenced -/
theorem sem_no_orphans (c : Cfg) (hc : Proved c) (rw : Nat) (hrw : 1 ≤ rw) (s : State)
    (hr : (M c rw).Reach s) (k : Key) : (s k).orphans = [] :=
  (reach_inv c hc rw hrw s hr k).1

/-! ### exclusion -/

/-- the tokens held for a key never exceed rwRatio -/
theorem sem_excl (c : Cfg) (hc : Proved c) (rw : Nat) (hrw : 1 ≤ rw) (s : State)
    (hr : (M c rw).Reach s) (k : Key) : wsum (s k).holders ≤ rw := by
  rcases kinv_view (reach_inv c hc rw hrw s hr k) with h | ⟨o, h, hok, _⟩
  · rw [h]; simp [wsum]
  · rw [h, holders_live, ← hok.cur_eq]; exact hok.cur_le

/-- the token counter of the map's object is exactly what the callers inside hold: no token is ever leaked or
    double-counted (this is the `cur` the hook reads) -/
theorem sem_tokens_exact (c : Cfg) (hc : Proved c) (rw : Nat) (hrw : 1 ≤ rw) (s : State)
    (hr : (M c rw).Reach s) (k : Key) (o : Sem) (ho : (s k).live = some o) :
    o.cur = wsum (s k).holders ∧ o.holders = (s k).holders ∧ o.waiters = (s k).waiters := by
  rcases kinv_view (reach_inv c hc rw hrw s hr k) with h | ⟨o', h, hok, _⟩
  · rw [h] at ho; cases ho
  · rw [h] at ho ⊢
    cases ho
    exact ⟨by rw [holders_live]; exact hok.cur_eq, by rw [holders_live], by rw [waiters_live]⟩

/-- readers weigh 1, writers weigh rwRatio — holders and waiters alike -/
theorem sem_weights (c : Cfg) (hc : Proved c) (rw : Nat) (hrw : 1 ≤ rw) (s : State)
    (hr : (M c rw).Reach s) (k : Key) : ∀ x ∈ (s k).holders ++ (s k).waiters, x.2 = 1 ∨ x.2 = rw :=
  (reach_inv2 c hc rw hrw s hr k).2.1

/-- a caller id occurs at most once among the holders and waiters of a key -/
theorem sem_unique_callers (c : Cfg) (hc : Proved c) (rw : Nat) (hrw : 1 ≤ rw) (s : State)
    (hr : (M c rw).Reach s) (k : Key) : (((s k).holders ++ (s k).waiters).map (·.1)).Nodup :=
  (reach_inv2 c hc rw hrw s hr k).2.2

theorem holders_pos (c : Cfg) (hc : Proved c) (rw : Nat) (hrw : 1 ≤ rw) (s : State)
    (hr : (M c rw).Reach s) (k : Key) : ∀ h ∈ (s k).holders, 1 ≤ h.2 := by
  rcases kinv_view (reach_inv c hc rw hrw s hr k) with h | ⟨o, h, hok, _⟩
  · rw [h]; simp
  · rw [h, holders_live]; exact hok.hpos

/-- **exclusion**: the callers inside a key are exactly one writer, or at most rwRatio readers -/
theorem sem_excl_rw (c : Cfg) (hc : Proved c) (rw : Nat) (hrw : 1 ≤ rw) (s : State)
    (hr : (M c rw).Reach s) (k : Key) :
    (∃ t, (s k).holders = [(t, rw)]) ∨ ((∀ h ∈ (s k).holders, h.2 = 1) ∧ (s k).holders.length ≤ rw) := by
  have hsum := sem_excl c hc rw hrw s hr k
  have hwt := sem_weights c hc rw hrw s hr k
  have hpos := holders_pos c hc rw hrw s hr k
  by_cases hall : ∀ h ∈ (s k).holders, h.2 = 1
  · right
    exact ⟨hall, by rw [← wsum_all_one _ hall]; exact hsum⟩
  · left
    have : ∃ x, x ∈ (s k).holders ∧ x.2 ≠ 1 := by
      apply Classical.byContradiction
      intro hne
      apply hall
      intro h hh
      apply Classical.byContradiction
      intro h1
      exact hne ⟨h, hh, h1⟩
    obtain ⟨x, hx, hx1⟩ := this
    have hxw : x.2 = rw := by
      rcases hwt x (by simp [hx]) with h | h
      · exact absurd h hx1
      · exact h
    have hb := mem_wsum_bound _ hpos x hx
    have hlen : (s k).holders.length ≤ 1 := by omega
    cases hl : (s k).holders with
    | nil => rw [hl] at hx; cases hx
    | cons a rest =>
      rw [hl] at hlen hx
      have : rest = [] := by
        cases rest with
        | nil => rfl
        | cons _ _ => simp at hlen
      subst this
      simp at hx
      subst hx
      exact ⟨x.1, by rw [← hxw]⟩

/-! ### hand-off -/

/-- **no stuck waiter**: in every reachable state the oldest waiter does not fit. Hence after any release or
    cancel the waiters that fit have already been admitted (`sem_release`, `sem_cancel_waiter` say which). -/
theorem sem_head_blocked (c : Cfg) (hc : Proved c) (rw : Nat) (hrw : 1 ≤ rw) (s : State)
    (hr : (M c rw).Reach s) (k : Key) (w : W) (ws : List W) (hw : (s k).waiters = w :: ws) :
    rw - wsum (s k).holders < w.2 := by
  rcases kinv_view (reach_inv c hc rw hrw s hr k) with h | ⟨o, h, hok, _⟩
  · rw [h] at hw; simp at hw
  · rw [h, waiters_live] at hw
    rw [h, holders_live, ← hok.cur_eq]
    exact hok.head w ws hw

/-- **arrival order, acquire**: a caller is admitted at once iff nobody waits and it fits; otherwise it queues
    at the back and the holders are unchanged -/
theorem sem_acquire (c : Cfg) (hc : Proved c) (rw : Nat) (hrw : 1 ≤ rw) (s : State)
    (hr : (M c rw).Reach s) (t : Tid) (k : Key) (wr : Bool) (s' : State)
    (hstep : (M c rw).step s (.acquire t k wr) = some s') :
    if (s k).waiters = [] ∧ weight rw wr ≤ rw - wsum (s k).holders
    then (s' k).holders = (s k).holders ++ [(t, weight rw wr)] ∧ (s' k).waiters = []
    else (s' k).holders = (s k).holders ∧ (s' k).waiters = (s k).waiters ++ [(t, weight rw wr)] := by
  have hstep' : step c rw s (.acquire t k wr) = some s' := hstep
  have hk := step_this_key c rw s s' _ hstep'
  simp only [Act.key] at hk
  rw [hk]
  have hb := weight_bounds rw hrw wr
  exact (acquire_char rw (s k) t _ hb.1 hb.2 (reach_inv c hc rw hrw s hr k)).2.2

/-- **no barging**: whoever arrives while someone is waiting queues behind them (so readers cannot starve a
    waiting writer) -/
theorem sem_no_barging (c : Cfg) (hc : Proved c) (rw : Nat) (hrw : 1 ≤ rw) (s : State)
    (hr : (M c rw).Reach s) (t : Tid) (k : Key) (wr : Bool) (s' : State)
    (hstep : (M c rw).step s (.acquire t k wr) = some s') (hw : (s k).waiters ≠ []) :
    (s' k).holders = (s k).holders ∧ (s' k).waiters = (s k).waiters ++ [(t, weight rw wr)] := by
  have h := sem_acquire c hc rw hrw s hr t k wr s' hstep
  have hn : ¬ ((s k).waiters = [] ∧ weight rw wr ≤ rw - wsum (s k).holders) := fun h => hw h.1
  simpa only [hn, if_false] using h

/-- **arrival order, release**: the releaser leaves and a prefix of the queue, in queue order, is admitted;
    the rest of the queue keeps its order -/
theorem sem_release (c : Cfg) (hc : Proved c) (rw : Nat) (hrw : 1 ≤ rw) (s : State)
    (hr : (M c rw).Reach s) (t : Tid) (k : Key) (s' : State)
    (hstep : (M c rw).step s (.release t k) = some s') :
    ∃ m, (s' k).holders = (s k).holders.filter (·.1 ≠ t) ++ (s k).waiters.take m ∧
      (s' k).waiters = (s k).waiters.drop m := by
  have hstep' : step c rw s (.release t k) = some s' := hstep
  have hk := step_this_key c rw s s' _ hstep'
  have hen := (step_some c rw s s' _ hstep').1
  simp only [Act.key] at hk hen
  have hg : c.guard = .emptyAndIdle := hc
  rw [hk]
  simp only [KS.step, hg]
  exact release_step_lists rw (s k) t (reach_inv c hc rw hrw s hr k) (by simpa [KS.enabled] using hen)

/-- **admitted in arrival order** (ghost stamps: `MG` = `M` plus, per key, a counter and the stamp each caller got
    when its acquire section ran; `sem_ghost_faithful` shows the ghost changes nothing). In every reachable state
    the queue is sorted by arrival and nobody inside arrived later than somebody still waiting — so at no time
    has a caller been admitted past an earlier arrival that is still blocked. -/
theorem sem_arrival_order (c : Cfg) (hc : Proved c) (rw : Nat) (hrw : 1 ≤ rw) (g : GState)
    (hr : (MG c rw).Reach g) (k : Key) :
    (g.st k).waiters.Pairwise (fun a b => g.stamp k a.1 < g.stamp k b.1) ∧
    (∀ h ∈ (g.st k).holders, ∀ w ∈ (g.st k).waiters, g.stamp k h.1 < g.stamp k w.1) :=
  let h := reach_fifo c hc rw hrw g hr k
  ⟨h.2.1, h.2.2⟩

/-- every run of the map is the projection of a ghost run, and every ghost run projects to a run of the map -/
theorem sem_ghost_faithful (c : Cfg) (rw : Nat) :
    (∀ (as : List Act) (s : State), (M c rw).run init as = some s →
      ∃ g, (MG c rw).run ginit as = some g ∧ g.st = s) ∧
    (∀ g, (MG c rw).Reach g → (M c rw).Reach g.st) :=
  ⟨fun as s h => ghost_faithful c rw as ginit s h, ghost_proj_reach c rw⟩

/-- **a cancelled acquire holds nothing**: a waiting caller whose context ends leaves the queue, is not a
    holder, and a prefix of the remaining queue is admitted (non-empty only when it was the head) -/
theorem sem_cancel_waiter (c : Cfg) (hc : Proved c) (rw : Nat) (hrw : 1 ≤ rw) (s : State)
    (hr : (M c rw).Reach s) (t : Tid) (k : Key) (s' : State)
    (hstep : (M c rw).step s (.cancel t k) = some s') (hw : (s k).waits t = true) :
    (∃ m, (s' k).holders = (s k).holders ++ ((s k).waiters.filter (·.1 ≠ t)).take m ∧
      (s' k).waiters = ((s k).waiters.filter (·.1 ≠ t)).drop m) ∧
    (s' k).holds t = false ∧ (s' k).waits t = false := by
  have hstep' : step c rw s (.cancel t k) = some s' := hstep
  have hk := step_this_key c rw s s' _ hstep'
  simp only [Act.key] at hk
  rw [hk]
  simp only [KS.step]
  obtain ⟨m, h1, h2⟩ := cancel_step_lists rw (s k) t (reach_inv c hc rw hrw s hr k) hw
  refine ⟨⟨m, h1, h2⟩, ?_, ?_⟩
  · -- not a holder before (ids are unique), and nobody admitted has its id
    have hnd := sem_unique_callers c hc rw hrw s hr k
    simp only [KS.holds, h1, List.any_append, Bool.or_eq_false_iff]
    constructor
    · rw [List.any_eq_false]
      intro x hx hxt
      have hxt' : x.1 = t := by simpa using hxt
      simp only [KS.waits, List.any_eq_true] at hw
      obtain ⟨y, hy, hyt⟩ := hw
      have hyt' : y.1 = t := by simpa using hyt
      rw [List.map_append, List.nodup_append] at hnd
      exact hnd.2.2 x.1 (List.mem_map_of_mem hx) y.1 (List.mem_map_of_mem hy) (by rw [hxt', hyt'])
    · rw [List.any_eq_false]
      intro x hx hxt
      have := (List.mem_filter.1 (List.mem_of_mem_take hx)).2
      simp at this hxt
      exact this hxt
  · simp only [KS.waits, h2]
    rw [List.any_eq_false]
    intro x hx hxt
    have := (List.mem_filter.1 (List.mem_of_mem_drop hx)).2
    simp at this hxt
    exact this hxt

/-- a caller that was already admitted when its context ended keeps the grant: nothing changes -/
theorem sem_cancel_admitted (c : Cfg) (hc : Proved c) (rw : Nat) (hrw : 1 ≤ rw) (s : State)
    (hr : (M c rw).Reach s) (t : Tid) (k : Key) (s' : State)
    (hstep : (M c rw).step s (.cancel t k) = some s') (hw : (s k).waits t = false) : s' k = s k := by
  have hstep' : step c rw s (.cancel t k) = some s' := hstep
  have hk := step_this_key c rw s s' _ hstep'
  simp only [Act.key] at hk
  rw [hk]
  exact cancel_noop rw (s k) t (reach_inv c hc rw hrw s hr k) hw

/-- keys are independent: a step changes nothing for any other key -/
theorem sem_keys_independent (c : Cfg) (rw : Nat) (s s' : State) (a : Act)
    (hstep : (M c rw).step s a = some s') (k : Key) (hk : k ≠ a.key) : s' k = s k :=
  step_other_key c rw s s' a hstep k hk

/-- **a successful acquire holds until its own release**: no step other than `release t k` removes
    holder `t` of key `k` -/
theorem sem_holds_until_release (c : Cfg) (hc : Proved c) (rw : Nat) (hrw : 1 ≤ rw) (s : State)
    (hr : (M c rw).Reach s) (a : Act) (s' : State) (hstep : (M c rw).step s a = some s')
    (k : Key) (h : W) (hh : h ∈ (s k).holders) (hne : a ≠ .release h.1 k) : h ∈ (s' k).holders := by
  by_cases hk : k = a.key
  · cases a with
    | acquire t k' wr =>
      simp only [Act.key] at hk; subst hk
      have := sem_acquire c hc rw hrw s hr t k wr s' hstep
      split at this
      · rw [this.1]; simp [hh]
      · rw [this.1]; exact hh
    | release t k' =>
      simp only [Act.key] at hk; subst hk
      obtain ⟨m, h1, _⟩ := sem_release c hc rw hrw s hr t k s' hstep
      rw [h1]
      have hne' : h.1 ≠ t := fun heq => hne (by rw [heq])
      simp [List.mem_filter, hh, hne']
    | cancel t k' =>
      simp only [Act.key] at hk; subst hk
      cases hw : (s k).waits t with
      | true =>
        obtain ⟨⟨m, h1, _⟩, _⟩ := sem_cancel_waiter c hc rw hrw s hr t k s' hstep hw
        rw [h1]; simp [hh]
      | false => rw [sem_cancel_admitted c hc rw hrw s hr t k s' hstep hw]; exact hh
  · rw [sem_keys_independent c rw s s' a hstep k hk]; exact hh

/-! ### no residue -/

/-- the container has an entry for a key exactly while somebody holds it -/
theorem sem_entry_iff_held (c : Cfg) (hc : Proved c) (rw : Nat) (hrw : 1 ≤ rw) (s : State)
    (hr : (M c rw).Reach s) (k : Key) : (s k).present = true ↔ (s k).holders ≠ [] := by
  rcases kinv_view (reach_inv c hc rw hrw s hr k) with h | ⟨o, h, hok, hpos⟩
  · rw [h]; simp [KS.present]
  · rw [h, holders_live]
    simp only [KS.present, Option.isSome_some, true_iff]
    intro hnil
    have := hok.cur_eq
    rw [hnil] at this
    simp [wsum] at this
    omega

/-- whoever waits, waits behind a holder (so a waiter is always woken by some later release or cancel) -/
theorem sem_waiters_have_holder (c : Cfg) (hc : Proved c) (rw : Nat) (hrw : 1 ≤ rw) (s : State)
    (hr : (M c rw).Reach s) (k : Key) (hw : (s k).waiters ≠ []) : (s k).holders ≠ [] := by
  rcases kinv_view (reach_inv c hc rw hrw s hr k) with h | ⟨o, h, hok, hpos⟩
  · rw [h] at hw; simp at hw
  · exact (sem_entry_iff_held c hc rw hrw s hr k).1 (by rw [h]; rfl)

/-- **no residue**: once every holder has released and nobody waits, the container keeps no entry for the key -/
theorem sem_no_residue (c : Cfg) (hc : Proved c) (rw : Nat) (hrw : 1 ≤ rw) (s : State)
    (hr : (M c rw).Reach s) (k : Key) (hh : (s k).holders = []) (_hw : (s k).waiters = []) :
    (s k).present = false := by
  cases hp : (s k).present with
  | false => rfl
  | true => exact absurd hh ((sem_entry_iff_held c hc rw hrw s hr k).1 hp)

/-- however many keys are in use: over any finite set of keys the container holds exactly as many entries as
    there are keys somebody is inside of (no entry outlives its last holder, at any population) -/
theorem sem_entry_count (c : Cfg) (hc : Proved c) (rw : Nat) (hrw : 1 ≤ rw) (s : State)
    (hr : (M c rw).Reach s) (ks : List Key) :
    (ks.filter (fun k => (s k).present)).length = (ks.filter (fun k => !(s k).holders.isEmpty)).length := by
  congr 1
  apply List.filter_congr
  intro k _
  have h := sem_entry_iff_held c hc rw hrw s hr k
  cases hp : (s k).present with
  | true =>
    have := h.1 hp
    cases hh : (s k).holders with
    | nil => exact absurd hh this
    | cons _ _ => rfl
  | false =>
    cases hh : (s k).holders with
    | nil => rfl
    | cons a l =>
      have : (s k).present = true := h.2 (by rw [hh]; simp)
      rw [hp] at this; cases this

/-- the "doomed" branch of `Weighted.acquire` (`n > size`) is never taken -/
theorem sem_not_doomed (rw : Nat) (hrw : 1 ≤ rw) (wr : Bool) : ¬ weight rw wr > rw := by
  have := (weight_bounds rw hrw wr).2; omega

/-! ### refinement to the token-free reader/writer lock (`Nv/Spec/C01.lean`) -/

/-- **refinement**: the model of the code and the reference FIFO reader/writer lock `S rw` accept exactly the same
    action sequences (`Agree`: both refuse, or both accept), and after each accepted sequence every key has the
    same callers inside and the same queue (`Rel`: holders = inside, waiters = queue, weight = 1 / rwRatio) -/
theorem sem_refines_rwlock (c : Cfg) (hc : Proved c) (rw : Nat) (hrw : 1 ≤ rw) (as : List Act) :
    Agree rw ((M c rw).run init as) ((S rw).run (fun _ => RW.init) as) :=
  run_agree c hc rw hrw as init _ LTS.Reach.init (fun _ => Rel.init rw)

/-- the reference lock excludes by construction: inside is one writer alone, or only readers, at most rwRatio -/
theorem spec_rwlock_excl (rw : Nat) (sp : SState) (hr : (S rw).Reach sp) (k : Key) :
    (∃ t, (sp k).inside = [(t, true)]) ∨
      ((sp k).inside.all (fun c => !c.2) = true ∧ (sp k).inside.length ≤ rw) :=
  spec_excl rw sp hr k

/-! ### the sharded maps (any shard array, any routing function) -/

/-- a sharded map behaves as the single map that reads every key from the shard it routes to -/
theorem sem_wide_refines (c : Cfg) (rw : Nat) (idx : Key → Nat) (ws : WState)
    (hr : (MW c rw idx).Reach ws) : (M c rw).Reach (wproj idx ws) :=
  wide_refines_single c rw idx ws hr

/-- exclusion for the sharded maps: in every shard the bound holds, and a key is unknown to every shard it
    does not route to — so over the whole array the callers inside `k` hold at most rwRatio tokens -/
theorem sem_wide (c : Cfg) (hc : Proved c) (rw : Nat) (hrw : 1 ≤ rw) (idx : Key → Nat) (ws : WState)
    (hr : (MW c rw idx).Reach ws) (k : Key) :
    wsum (ws (idx k) k).holders ≤ rw ∧
    ((∃ t, (ws (idx k) k).holders = [(t, rw)]) ∨
      ((∀ h ∈ (ws (idx k) k).holders, h.2 = 1) ∧ (ws (idx k) k).holders.length ≤ rw)) ∧
    (∀ i, i ≠ idx k → ws i k = KS.init) ∧
    ((ws (idx k) k).holders = [] → (ws (idx k) k).waiters = [] → ∀ i, (ws i k).present = false) := by
  have hsr := wide_shard_reach c rw idx ws hr (idx k)
  have hother := wide_other_shard_untouched c rw idx ws hr
  refine ⟨sem_excl c hc rw hrw _ hsr k, sem_excl_rw c hc rw hrw _ hsr k, fun i hi => hother i k hi, ?_⟩
  intro hh hw i
  by_cases hi : i = idx k
  · subst hi; exact sem_no_residue c hc rw hrw _ hsr k hh hw
  · rw [hother i k hi]; rfl

/-- the sharded maps as they are (remap routes only some key kinds; a call on any other key panics before any lock
    is taken, i.e. is no step): every run is a run of `MW`, so `sem_wide` applies, and a key remap cannot route
    is unknown to every shard for ever — nobody is ever inside it, nothing is stored for it -/
theorem sem_wide_unroutable (c : Cfg) (rw : Nat) (idx : Key → Nat) (routable : Key → Bool) (ws : WState)
    (hr : (MWR c rw idx routable).Reach ws) :
    (MW c rw idx).Reach ws ∧ ∀ k, routable k = false → ∀ i, ws i k = KS.init :=
  ⟨wideR_reach c rw idx routable ws hr, wideR_unroutable_untouched c rw idx routable ws hr⟩

/-- **routing must be a pure function of the key**: if the shard the routing code names depends only on the key
    (`Router.Pure`) — not on lookup history, memo tables, or on other containers created or used in the process
    (`HAct.other`) — then every reachable state of the sharded map with that router is a reachable state of `MW`,
    so exclusion, arrival order, hand-off and no-residue (`sem_wide`) hold; in particular a held key's shard never
    changes. The harness checks the hypothesis on the implementation (`wide-routing-changed`, `routing-unstable`). -/
theorem sem_wide_pure_routing {ρ : Type} (c : Cfg) (hc : Proved c) (rw : Nat) (hrw : 1 ≤ rw) (R : Router ρ) (r0 : ρ)
    (idx : Key → Nat) (hp : R.Pure idx) (s : WState × ρ) (hr : (MWH c rw R r0).Reach s) (k : Key) :
    (MW c rw idx).Reach s.1 ∧ wsum (s.1 (idx k) k).holders ≤ rw ∧ (∀ i, i ≠ idx k → s.1 i k = KS.init) := by
  have h := pure_router_reach c rw R r0 idx hp s hr
  have hw := sem_wide c hc rw hrw idx s.1 h k
  exact ⟨h, hw.1, hw.2.2.1⟩

/-- and the hypothesis is necessary: a router whose answer another container can flip (state `Bool`, shard 0 or 1)
    lets a second writer in beside the first — repaired guard, rwRatio 2, key 5: one writer in each of two shards -/
theorem witness_history_dependent_routing :
    let R : Router Bool := ⟨fun b _ => (if b then 1 else 0, b), fun b => !b⟩
    ((MWH ⟨.emptyAndIdle⟩ 2 R false).run ((winit, false) : WState × Bool)
        [.act (.acquire 1 5 true), .other, .act (.acquire 2 5 true)]).map
      (fun s => ((s.1 0 5).holders, (s.1 1 5).holders)) = some ([(1, 2)], [(2, 2)]) := by decide

/-! ### today's guard: the property is false (concrete runs; the same scripts are replayed on the Go code) -/

/-- `emptyOnly`: two readers, one leaves (entry deleted under the other), a writer is admitted beside it -/
theorem witness_emptyOnly_writer_beside_reader :
    ((M ⟨.emptyOnly⟩ 3).run init [.acquire 1 7 false, .acquire 2 7 false, .release 1 7, .acquire 9 7 true]).map
      (fun s => (s 7).holders) = some [(9, 3), (2, 1)] := by decide

/-- `emptyOnly`: writer hands over to a queued writer (entry deleted under it), a third writer walks in -/
theorem witness_emptyOnly_two_writers :
    ((M ⟨.emptyOnly⟩ 2).run init [.acquire 1 0 true, .acquire 2 0 true, .release 1 0, .acquire 3 0 true]).map
      (fun s => (s 0).holders) = some [(3, 2), (2, 2)] := by decide

/-- `emptyOnly`: an arrival is admitted while an earlier caller is still blocked (on an orphaned object) -/
theorem witness_emptyOnly_overtake :
    ((M ⟨.emptyOnly⟩ 3).run init [.acquire 1 0 false, .acquire 2 0 false, .release 1 0, .acquire 3 0 true,
        .acquire 4 0 false, .release 2 0, .acquire 5 0 false]).map
      (fun s => ((s 0).holders, (s 0).waiters)) = some ([(5, 1), (3, 3)], [(4, 1)]) := by decide

/-- the exclusion theorem does not hold for today's configuration -/
theorem not_sem_excl_emptyOnly :
    ¬ ∀ s, (M ⟨.emptyOnly⟩ 3).Reach s → ∀ k, wsum (s k).holders ≤ 3 := by
  intro h
  have hw := witness_emptyOnly_writer_beside_reader
  cases hrun : (M ⟨.emptyOnly⟩ 3).run init
      [.acquire 1 7 false, .acquire 2 7 false, .release 1 7, .acquire 9 7 true] with
  | none => rw [hrun] at hw; cases hw
  | some s =>
    rw [hrun] at hw
    simp only [Option.map_some, Option.some.injEq] at hw
    have hreach := LTS.reach_of_run _ _ _ _ LTS.Reach.init hrun
    have := h s hreach 7
    rw [hw] at this
    revert this
    decide

/-! ### non-vacuity: a non-trivial reachable state of the proved configuration -/

/-- two readers inside, a queued writer and a reader behind it; the second reader's context ends; the readers
    leave; the writer is admitted: reachable, and exactly the writer is inside -/
example : ((M ⟨.emptyAndIdle⟩ 3).run init [.acquire 1 0 false, .acquire 2 0 false, .acquire 3 0 true,
      .acquire 4 0 false, .cancel 4 0, .release 1 0, .release 2 0]).map
    (fun s => ((s 0).holders, (s 0).waiters, (s 0).present)) = some ([(3, 3)], [], true) := by decide

/-- same prefix: the state with two readers inside and writer + reader queued (hypotheses of `sem_head_blocked`,
    `sem_no_barging`, `sem_cancel_waiter` are satisfiable) -/
example : ((M ⟨.emptyAndIdle⟩ 3).run init [.acquire 1 0 false, .acquire 2 0 false, .acquire 3 0 true,
      .acquire 4 0 false]).map
    (fun s => ((s 0).holders, (s 0).waiters, (s 0).waits 4)) = some ([(1, 1), (2, 1)], [(3, 3), (4, 1)], true) := by
  decide

/-- cancelling the queued writer at the head admits the reader behind it at once -/
example : ((M ⟨.emptyAndIdle⟩ 3).run init [.acquire 1 0 false, .acquire 2 0 false, .acquire 3 0 true,
      .acquire 4 0 false, .cancel 3 0]).map
    (fun s => ((s 0).holders, (s 0).waiters)) = some ([(1, 1), (2, 1), (4, 1)], []) := by decide

/-- everybody leaves: no entry is left (hypotheses of `sem_no_residue`) -/
example : ((M ⟨.emptyAndIdle⟩ 2).run init [.acquire 1 0 false, .acquire 2 0 true, .release 1 0, .release 2 0]).map
    (fun s => ((s 0).holders, (s 0).waiters, (s 0).present)) = some ([], [], false) := by decide

/-- the repaired guard on the F01 script: the writer queues behind the remaining reader -/
example : ((M ⟨.emptyAndIdle⟩ 3).run init [.acquire 1 7 false, .acquire 2 7 false, .release 1 7, .acquire 9 7 true]).map
    (fun s => ((s 7).holders, (s 7).waiters)) = some ([(2, 1)], [(9, 3)]) := by decide

/-- ghost stamps on the same trace: arrivals 1,2,3,4 get stamps 0,1,2,3; the queue [3,4] is in stamp order -/
example : ((MG ⟨.emptyAndIdle⟩ 3).run ginit [.acquire 1 0 false, .acquire 2 0 false, .acquire 3 0 true,
      .acquire 4 0 false]).map
    (fun g => ((g.st 0).waiters, [g.stamp 0 1, g.stamp 0 2, g.stamp 0 3, g.stamp 0 4], g.next 0)) =
    some ([(3, 3), (4, 1)], [0, 1, 2, 3], 4) := by decide

/-- the reference lock on the same trace -/
example : ((S 3).run (fun _ => RW.init) [.acquire 1 0 false, .acquire 2 0 false, .acquire 3 0 true,
      .acquire 4 0 false, .cancel 3 0]).map
    (fun sp => ((sp 0).inside, (sp 0).queue)) = some ([(1, false), (2, false), (4, false)], []) := by decide

/-- partial routing: odd keys are not routable — the call on key 5 is refused, the run stops there -/
example : ((MWR ⟨.emptyAndIdle⟩ 2 (· % 3) (· % 2 == 0)).run winit [.acquire 1 4 true, .acquire 3 5 false]).isNone = true ∧
    ((MWR ⟨.emptyAndIdle⟩ 2 (· % 3) (· % 2 == 0)).run winit [.acquire 1 4 true]).map (fun ws => (ws 1 4).holders) =
      some [(1, 2)] := by decide

/-- a sharded run (3 shards by residue): key 4 lives in shard 1 only -/
example : ((MW ⟨.emptyAndIdle⟩ 2 (· % 3)).run winit [.acquire 1 4 true, .acquire 2 4 false, .acquire 3 5 false]).map
    (fun ws => ((ws 1 4).holders, (ws 1 4).waiters, (ws 2 5).holders, (ws 0 4).present)) =
    some ([(1, 2)], [(2, 1)], [(3, 1)], false) := by decide

end Nv.C01
