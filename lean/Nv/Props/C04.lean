import Nv.Proofs.C04Sim
import Nv.Proofs.C04Fit
import Nv.Proofs.C04Wide
/-!
C04 — property theorems for the LRU caches (`cache.LRUCache` = `Kind.sized`, `cache/tiny.LRUCache` =
`Kind.tiny`, wide variants = arrays of them). Model: `Nv.Model.C04` (implementation-shaped, stored
counters), reference: `Nv.Spec.C04` (ideal LRU, recomputed sizes).
Every theorem quantifies over all operation sequences, all keys/values, all item sizes and capacities in
`[0, 2^62)` (`Op.sizeOk`; RESTRICTION of the property's quantifier, which has no upper bound: beyond it the `int64`
counter wraps and the property is false of the code — `witness_size_counter_overflow`), both kinds, and every
configuration `c` with `Proved kd c`. Keys are values with decidable reflexive equality (NaN-like keys, for which
Go's `==` is not reflexive, are outside, as for every Go map).
-/
namespace Nv.C04

/-! ### refinement: every result equals the ideal LRU's -/

/-- Every result of every operation (values, booleans, the removed list of `SetAndGetRemoved`,
`Keys`/`Items` order, `Stats` = length/size/capacity/evictions) equals the ideal LRU's; in particular
no operation panics. -/
theorem lru_refines_ideal (kd : Kind) (c : Cfg) (hc : Proved kd c) (cap : Int) (hcap : 0 ≤ cap) (hcap2 : cap < 2 ^ 62)
    (ops : List Op) (hok : ∀ o ∈ ops, o.sizeOk = true) :
    outs (step c kd) (Lru.new cap) ops = outs (specStep kd) (Ideal.new cap) ops :=
  (sim_outs (step c kd) (specStep kd) (fun s t => Inv kd s ∧ abs s = t) (fun o => o.sizeOk = true)
    (fun s t o hr ho => by
      obtain ⟨hi, rfl⟩ := hr
      have := step_sim hc s o hi ho
      exact ⟨⟨this.1, this.2.1⟩, this.2.2⟩)
    ops _ _ ⟨inv_new kd cap hcap hcap2, rfl⟩ hok).1

/-- …and the states stay related: the recency list, capacity and eviction counter are the ideal's, and the
invariant (below) holds after every sequence. -/
theorem lru_state_is_ideal (kd : Kind) (c : Cfg) (hc : Proved kd c) (cap : Int) (hcap : 0 ≤ cap) (hcap2 : cap < 2 ^ 62)
    (ops : List Op) (hok : ∀ o ∈ ops, o.sizeOk = true) :
    Inv kd (final (step c kd) (Lru.new cap) ops) ∧
      abs (final (step c kd) (Lru.new cap) ops) = final (specStep kd) (Ideal.new cap) ops :=
  (sim_outs (step c kd) (specStep kd) (fun s t => Inv kd s ∧ abs s = t) (fun o => o.sizeOk = true)
    (fun s t o hr ho => by
      obtain ⟨hi, rfl⟩ := hr
      have := step_sim hc s o hi ho
      exact ⟨⟨this.1, this.2.1⟩, this.2.2⟩)
    ops _ _ ⟨inv_new kd cap hcap hcap2, rfl⟩ hok).2

example : Proved .sized ⟨.gt, true, false, true, true⟩ ∧ Proved .tiny ⟨.gt, true, false, true, false⟩ ∧
    Proved .tiny ⟨.gt, true, false, true, true⟩ := by decide

/-- a concrete non-trivial run inside the hypotheses: eviction of the coldest, then an oversize item -/
example : outs (step ⟨.gt, true, false, true, true⟩ .sized) (Lru.new 5)
      [.set 0 1 2, .set 1 2 2, .get 0, .setGetRemoved 2 3 2, .keys, .set 3 4 9, .stats] =
    [.unit, .unit, .val (some 1), .removed [2], .keys [2, 0], .unit, .stats 0 0 5 4] := by decide

/-! ### invariants after every operation sequence -/

/-- the summed item size never exceeds the capacity after an operation returns -/
theorem lru_cap_bound (kd : Kind) (c : Cfg) (hc : Proved kd c) (cap : Int) (hcap : 0 ≤ cap) (hcap2 : cap < 2 ^ 62)
    (ops : List Op) (hok : ∀ o ∈ ops, o.sizeOk = true) :
    let s := final (step c kd) (Lru.new cap) ops
    s.size ≤ s.capacity ∧ total s.list ≤ s.capacity := by
  have h := (lru_state_is_ideal kd c hc cap hcap hcap2 ops hok).1
  exact ⟨by rw [h.size_eq]; exact h.fits, h.fits⟩

/-- the stored counter is the sum of the entries' sizes; for tiny it is the number of entries -/
theorem lru_size_accounting (kd : Kind) (c : Cfg) (hc : Proved kd c) (cap : Int) (hcap : 0 ≤ cap) (hcap2 : cap < 2 ^ 62)
    (ops : List Op) (hok : ∀ o ∈ ops, o.sizeOk = true) :
    let s := final (step c kd) (Lru.new cap) ops
    s.size = total s.list ∧ (kd = .tiny → s.size = s.list.length) := by
  have h := (lru_state_is_ideal kd c hc cap hcap hcap2 ops hok).1
  exact ⟨h.size_eq, fun hk => by rw [h.size_eq]; exact total_unit _ (h.unit hk)⟩

/-- no key is listed twice -/
theorem lru_nodup (kd : Kind) (c : Cfg) (hc : Proved kd c) (cap : Int) (hcap : 0 ≤ cap) (hcap2 : cap < 2 ^ 62)
    (ops : List Op) (hok : ∀ o ∈ ops, o.sizeOk = true) :
    ((final (step c kd) (Lru.new cap) ops).list.map (·.key)).Nodup :=
  (lru_state_is_ideal kd c hc cap hcap hcap2 ops hok).1.nodup

theorem specStep_no_panic (kd : Kind) (s : Ideal) (op : Op) (hf : op.faults = false) : (specStep kd s op).2 ≠ .panic := by
  cases op <;> simp [Op.faults] at hf <;> simp [specStep] <;> split <;> simp

/-- inside the quantifier no call panics (the nil `Back()` is never dereferenced) — unless the caller's own
`Value.Size()` does (`Op.faults`) -/
theorem lru_no_panic (kd : Kind) (c : Cfg) (hc : Proved kd c) (cap : Int) (hcap : 0 ≤ cap) (hcap2 : cap < 2 ^ 62)
    (ops : List Op) (hok : ∀ o ∈ ops, o.sizeOk = true) (hnf : ∀ o ∈ ops, o.faults = false) :
    Out.panic ∉ outs (step c kd) (Lru.new cap) ops := by
  rw [lru_refines_ideal kd c hc cap hcap hcap2 ops hok]
  clear hok
  generalize Ideal.new cap = s
  induction ops generalizing s with
  | nil => simp
  | cons o ops ih =>
    simp only [outs_cons, List.mem_cons, not_or]
    exact ⟨fun h => specStep_no_panic kd s o (hnf o (by simp)) h.symm, ih (fun x hx => hnf x (by simp [hx])) _⟩

/-- a `Set` / `SetAndGetRemoved` (any key) or `SetIfAbsent` (absent key) whose value cannot be sized — `Size()` panics,
or the value is nil — fails and changes NOTHING: list, table, counters are as before (no ghost entry);
`SetIfAbsent` on a present key never sizes the value and just refreshes the entry -/
theorem failed_set_changes_nothing (kd : Kind) (c : Cfg) (s : Lru) (k : Nat) :
    step c kd s (.setF k) = (s, .panic) ∧ step c kd s (.setGetRemovedF k) = (s, .panic) ∧
      (find? k s.list = none → step c kd s (.setIfAbsentF k) = (s, .panic)) := by
  refine ⟨rfl, rfl, fun h => ?_⟩
  simp [step, h]

/-! ### which entries are evicted -/

/-- `checkCapacity` (the only place entries are evicted) keeps a prefix of the recency order and evicts the
rest, reporting the evicted values coldest first: `kept ++ evicted.reverse = before`. -/
theorem lru_evicts_coldest_suffix (kd : Kind) (c : Cfg) (hc : Proved kd c) (s : Lru) (hp : Pre kd s) :
    ∃ evicted : List Entry,
      (checkCapacity c kd s).1.list ++ evicted.reverse = s.list ∧
      (checkCapacity c kd s).2.1 = evicted.map (·.val) ∧
      (checkCapacity c kd s).1.evictions = s.evictions + evicted.length := by
  have hs := checkCapacity_spec hc.1 hp
  simp only [] at hs
  refine ⟨(trimCold s.capacity s.list.reverse).2, ?_, by rw [hs], by rw [hs]⟩
  rw [hs]
  have := congrArg List.reverse (trimCold_split s.capacity s.list.reverse)
  simpa using this

/-- non-vacuity of `Pre`: a state between an insertion and the capacity check (over capacity, counter exact) -/
example : Pre .sized ⟨[⟨0, 1, 7⟩, ⟨1, 2, 2⟩], 9, 5, 0⟩ :=
  ⟨by decide, by decide, by decide, (by intro h; cases h), by decide, by decide, by decide⟩

/-- …and what is kept is exactly the longest prefix of the recency order that fits: entries are taken
from the most recently used end while they cumulatively fit (`takeFit`). -/
theorem lru_keeps_longest_fitting_prefix (kd : Kind) (c : Cfg) (hc : Proved kd c) (s : Lru) (hp : Pre kd s) :
    (checkCapacity c kd s).1.list = takeFit s.capacity s.list := by
  have hs := checkCapacity_spec hc.1 hp
  simp only [] at hs
  rw [hs]
  have := trim_eq_takeFit s.capacity s.list.reverse (by simpa using hp.nonneg)
  simpa using this

/-- characterisation of `takeFit`: a prefix, within the capacity, and maximal (the first entry left out
does not fit on top of the kept ones) -/
theorem takeFit_characterisation (cap : Int) (hcap : 0 ≤ cap) (l : List Entry) :
    (∃ t, takeFit cap l ++ t = l) ∧ total (takeFit cap l) ≤ cap ∧
      ∀ x t, takeFit cap l ++ x :: t = l → total (takeFit cap l) + x.size > cap :=
  ⟨takeFit_prefix cap l, takeFit_fits cap hcap l, takeFit_maximal cap l⟩

/-- the ideal LRU's `insert` in the most-recent-first reading -/
theorem ideal_insert_takeFit (kd : Kind) (s : Ideal) (k v : Nat) (sz : Int) (hsz : 0 ≤ sz)
    (hnn : ∀ e ∈ s.entries, 0 ≤ e.size) :
    (s.insert kd k v sz).1.entries = takeFit s.capacity (⟨k, v, szOf kd sz⟩ :: removeKey k s.entries) := by
  have := trim_eq_takeFit s.capacity (⟨k, v, szOf kd sz⟩ :: removeKey k s.entries).reverse (by
    intro e he
    simp at he
    rcases he with he | rfl
    · exact hnn e (mem_removeKey he)
    · exact szOf_nonneg kd sz hsz)
  simpa [Ideal.insert, Ideal.fit] using this

/-! ### recency -/

/-- `Get` of a present key moves it to the front and returns its value; nothing else changes -/
theorem lru_get_refreshes (kd : Kind) (c : Cfg) (hc : Proved kd c) (s : Lru) (k : Nat) (e : Entry)
    (hf : find? k s.list = some e) :
    step c kd s (.get k) = ({ s with list := e :: removeKey k s.list }, .val (some e.val)) := by
  have hk := (find_some hf).2
  simp [step, hf, hc.2.1, moveToFront, hk]

/-- `SetIfAbsent` of a present key moves it to the front, keeps its value -/
theorem lru_setIfAbsent_refreshes (kd : Kind) (c : Cfg) (hc : Proved kd c) (s : Lru) (k v : Nat) (sz : Int) (e : Entry)
    (hf : find? k s.list = some e) :
    step c kd s (.setIfAbsent k v sz) = ({ s with list := e :: removeKey k s.list }, .unit) := by
  have hk := (find_some hf).2
  simp [step, hf, hc.2.2.2.1, moveToFront, hk]

/-- `Set` puts the key at the front (when anything survives, the new entry is first) -/
theorem lru_set_front (kd : Kind) (c : Cfg) (hc : Proved kd c) (s : Lru) (hi : Inv kd s) (k v : Nat) (sz : Int)
    (hsz : 0 ≤ sz) (hsz2 : sz < 2 ^ 62) :
    (step c kd s (.set k v sz)).1.list = takeFit s.capacity (⟨k, v, szOf kd sz⟩ :: removeKey k s.list) := by
  have h := (step_sim hc s (.set k v sz) hi (by simpa [Op.sizeOk] using And.intro hsz hsz2)).2.1
  have h2 := ideal_insert_takeFit kd (abs s) k v sz hsz hi.nonneg
  have : (step c kd s (.set k v sz)).1.list = (abs (step c kd s (.set k v sz)).1).entries := rfl
  rw [this, h]; exact h2

/-- `Peek`, `Exist`, `Keys`, `Items`, `Stats` change nothing -/
theorem lru_peek_exist_pure (kd : Kind) (c : Cfg) (hc : Proved kd c) (s : Lru) (k : Nat) :
    (step c kd s (.peek k)).1 = s ∧ (step c kd s (.exist k)).1 = s ∧ (step c kd s .keys).1 = s ∧
      (step c kd s .items).1 = s ∧ (step c kd s .stats).1 = s := by
  refine ⟨?_, rfl, rfl, rfl, rfl⟩
  simp only [step]
  split <;> simp [hc.2.2.1]

/-- an item larger than the whole capacity empties the cache, itself included -/
theorem lru_oversize_item (c : Cfg) (hc : Proved .sized c) (s : Lru) (hi : Inv .sized s) (k v : Nat) (sz : Int)
    (hsz : s.capacity < sz) (hsz2 : sz < 2 ^ 62) : (step c .sized s (.set k v sz)).1.list = [] := by
  rw [lru_set_front .sized c hc s hi k v sz (by have := hi.cap_nonneg; omega) hsz2]
  have : ¬ sz ≤ s.capacity := by omega
  simp [takeFit, szOf, this]

/-! ### wide variants: the product of per-shard caches -/

/-- A wide cache with any total routing function into `[0, n)` never indexes outside its shard slice, and
every shard ends in exactly the state — and gives exactly the answers — of a single cache (same kind,
capacity `capacity/shards + 1`) run on the sub-script of the operations routed to it. -/
theorem wlru_per_shard (c : Cfg) (kd : Kind) (idx : Nat → Nat) (n : Nat) (hidx : ∀ k, idx k < n) (cap : Int)
    (ops : List Op) (hkeyed : ∀ o ∈ ops, o.key?.isSome = true) :
    ∃ w os, wideRun c kd idx (Wide.new cap n) ops = some (w, os) ∧ w.shards.length = n ∧
      ∀ i, i < n →
        w.shards[i]? = some (final (step c kd) (Lru.new (shardCap cap n)) (shardOps idx i ops)) ∧
        ((ops.zip os).filter (fun p => routed idx i p.1)).map (·.2) =
          outs (step c kd) (Lru.new (shardCap cap n)) (shardOps idx i ops) := by
  obtain ⟨w, os, h1, h2, h3⟩ := wide_run_per_shard c kd idx n hidx ops hkeyed (Wide.new cap n) (by simp [Wide.new])
  exact ⟨w, os, h1, h2, fun i hi => h3 i _ (by simp [Wide.new, hi])⟩

theorem shardCap_nonneg (cap : Int) (n : Nat) (h : 0 ≤ cap) : 0 ≤ shardCap cap n := by
  have : 0 ≤ cap.tdiv n := Int.tdiv_nonneg h (Int.natCast_nonneg n)
  simp only [shardCap]; omega

/-- consequently every shard of a wide cache answers as the ideal LRU of capacity `capacity/shards + 1`
on its sub-script, and keeps the invariant (bound, accounting, no duplicates) -/
theorem wlru_shard_refines_ideal (kd : Kind) (c : Cfg) (hc : Proved kd c) (idx : Nat → Nat) (n : Nat)
    (hidx : ∀ k, idx k < n) (cap : Int) (hcap : 0 ≤ cap) (hcap2 : cap + 1 < 2 ^ 62) (ops : List Op)
    (hkeyed : ∀ o ∈ ops, o.key?.isSome = true) (hok : ∀ o ∈ ops, o.sizeOk = true) :
    ∃ w os, wideRun c kd idx (Wide.new cap n) ops = some (w, os) ∧
      ∀ i, i < n →
        ((ops.zip os).filter (fun p => routed idx i p.1)).map (·.2) =
          outs (specStep kd) (Ideal.new (shardCap cap n)) (shardOps idx i ops) ∧
        ∃ s, w.shards[i]? = some s ∧ Inv kd s := by
  obtain ⟨w, os, h1, -, h3⟩ := wlru_per_shard c kd idx n hidx cap ops hkeyed
  refine ⟨w, os, h1, fun i hi => ?_⟩
  have hsub : ∀ o ∈ shardOps idx i ops, o.sizeOk = true := fun o ho => hok o (List.mem_filter.1 ho).1
  have hcap' := shardCap_nonneg cap n hcap
  have hcap'' : shardCap cap n < 2 ^ 62 := by
    have : cap.tdiv n ≤ cap := by
      rw [Int.tdiv_eq_ediv_of_nonneg hcap]; exact Int.ediv_le_self _ hcap
    simp only [shardCap]; omega
  obtain ⟨ha, hb⟩ := h3 i hi
  exact ⟨by rw [hb]; exact lru_refines_ideal kd c hc _ hcap' hcap'' _ hsub,
    _, ha, (lru_state_is_ideal kd c hc _ hcap' hcap'' _ hsub).1⟩

example : (wideRun ⟨.gt, true, false, true, true⟩ .sized (· % 2) (Wide.new 4 2)
    [.set 0 1 1, .set 2 2 1, .set 4 3 1, .set 6 4 1, .set 1 5 3, .get 0]).map (·.2) =
    some [.unit, .unit, .unit, .unit, .unit, .val none] := by decide

/-- 64-bit arithmetic of `capacity/int64(numbs) + 1`: MaxInt64 on a single shard wraps to MinInt64 -/
theorem witness_shard_capacity_overflow :
    (BitVec.sdiv (BitVec.ofInt 64 (2 ^ 63 - 1)) 1#64 + 1#64).toInt = -(2 ^ 63) := by decide

/-! ### concurrent callers

Every public method holds the cache's mutex for its whole body (regenerated fact `allMethodsLocked`,
`sync.Mutex` trusted), so a concurrent execution is some interleaving of the callers' operation lists
executed atomically. Whatever the interleaving, it is one operation sequence — and the theorems above
hold for all of them. -/

/-- `m` is an interleaving of the per-caller programs `ps` -/
inductive Interleaving : List (List Op) → List Op → Prop
  | done {ps} : (∀ p ∈ ps, p = []) → Interleaving ps []
  | step {ps : List (List Op)} {i : Nat} {o : Op} {rest : List Op} {m : List Op} :
      ps[i]? = some (o :: rest) → Interleaving (ps.set i rest) m → Interleaving ps (o :: m)

theorem interleaving_mem {ps : List (List Op)} {m : List Op} (h : Interleaving ps m) :
    ∀ o ∈ m, ∃ p ∈ ps, o ∈ p := by
  induction h with
  | done _ => simp
  | @step ps i o rest m hget _ ih =>
    intro x hx
    simp at hx
    rcases hx with rfl | hx
    · exact ⟨_, List.mem_of_getElem? hget, by simp⟩
    · obtain ⟨p, hp, hxp⟩ := ih x hx
      rcases List.mem_or_eq_of_mem_set hp with hp | rfl
      · exact ⟨p, hp, hxp⟩
      · exact ⟨_, List.mem_of_getElem? hget, by simp [hxp]⟩

/-- for every schedule of concurrent callers the results are those of the ideal LRU on the same
linearisation, and the capacity bound and size accounting hold at the end -/
theorem lru_concurrent_callers (kd : Kind) (c : Cfg) (hc : Proved kd c) (cap : Int) (hcap : 0 ≤ cap) (hcap2 : cap < 2 ^ 62)
    (ps : List (List Op)) (hok : ∀ p ∈ ps, ∀ o ∈ p, o.sizeOk = true) (m : List Op) (hm : Interleaving ps m) :
    outs (step c kd) (Lru.new cap) m = outs (specStep kd) (Ideal.new cap) m ∧
      Inv kd (final (step c kd) (Lru.new cap) m) := by
  have hall : ∀ o ∈ m, o.sizeOk = true := by
    intro o ho
    obtain ⟨p, hp, hop⟩ := interleaving_mem hm o ho
    exact hok p hp o hop
  exact ⟨lru_refines_ideal kd c hc cap hcap hcap2 m hall, (lru_state_is_ideal kd c hc cap hcap hcap2 m hall).1⟩

/-! ### what the hypotheses exclude, and what the unproved configurations do -/

/-- INSIDE the property's quantifier (sizes ≥ 0, capacity ≥ 0) but outside `Op.sizeOk`: the `int64` counter wraps.
`NewLRUCache(MaxInt64)`, an item of size MaxInt64, then an item of size 1: `size` = MinInt64, nothing is evicted,
the summed size 2^63 exceeds the capacity. (Monitor key `C04:cache.LRUCache:size-counter-overflows`.) -/
theorem witness_size_counter_overflow :
    let s := final (step ⟨.gt, true, false, true, true⟩ .sized) (Lru.new (2 ^ 63 - 1)) [.set 0 1 (2 ^ 63 - 1), .set 1 2 1]
    s.size = -(2 ^ 63) ∧ s.list.length = 2 ∧ s.evictions = 0 ∧ total s.list = 2 ^ 63 ∧ s.capacity = 2 ^ 63 - 1 := by decide

/-- sizes < 0 are outside the property: the bound fails (Delete does not re-check the capacity) -/
theorem witness_negative_size_breaks_bound :
    let s := final (step ⟨.gt, true, false, true, true⟩ .sized) (Lru.new 1) [.set 0 1 (-5), .set 1 2 6, .delete 0]
    s.size = 6 ∧ s.capacity = 1 := by decide

/-- a negative capacity makes the first `Set` dereference the nil `Back()` -/
theorem witness_negative_capacity_panics :
    outs (step ⟨.gt, true, false, true, true⟩ .sized) (Lru.new (-1)) [.set 0 1 1] = [.panic] := by decide

/-- guard `>=` instead of `>`: evicts at exact fit — not the ideal LRU -/
theorem witness_ge_guard :
    outs (step ⟨.ge, true, false, true, true⟩ .sized) (Lru.new 2) [.set 0 1 1, .set 1 2 1, .keys] ≠
      outs (specStep .sized) (Ideal.new 2) [.set 0 1 1, .set 1 2 1, .keys] := by decide

/-- `Peek` that refreshes recency: a later eviction takes the wrong entry -/
theorem witness_peek_moves :
    outs (step ⟨.gt, true, true, true, true⟩ .sized) (Lru.new 2) [.set 0 1 1, .set 1 2 1, .peek 0, .set 2 3 1, .keys] ≠
      outs (specStep .sized) (Ideal.new 2) [.set 0 1 1, .set 1 2 1, .peek 0, .set 2 3 1, .keys] := by decide

/-- `Get` / `SetIfAbsent` that do not refresh -/
theorem witness_get_does_not_move :
    outs (step ⟨.gt, false, false, true, true⟩ .tiny) (Lru.new 2) [.set 0 1 1, .set 1 2 1, .get 0, .set 2 3 1, .keys] ≠
      outs (specStep .tiny) (Ideal.new 2) [.set 0 1 1, .set 1 2 1, .get 0, .set 2 3 1, .keys] := by decide

theorem witness_setIfAbsent_does_not_move :
    outs (step ⟨.gt, true, false, false, true⟩ .sized) (Lru.new 2) [.set 0 1 1, .set 1 2 1, .setIfAbsent 0 9 1, .set 2 3 1, .keys] ≠
      outs (specStep .sized) (Ideal.new 2) [.set 0 1 1, .set 1 2 1, .setIfAbsent 0 9 1, .set 2 3 1, .keys] := by decide

/-- sized update without the capacity check: in-place growth exceeds the capacity -/
theorem witness_update_without_check :
    let s := final (step ⟨.gt, true, false, true, false⟩ .sized) (Lru.new 3) [.set 0 1 1, .set 0 2 7]
    s.size = 7 ∧ s.capacity = 3 := by decide

end Nv.C04
