import Nv.Spec.C04
/-! C04 — property theorems (milestone A placeholder: concrete runs; the full list follows). -/
namespace Nv.C04

theorem run_example :
    (outs (step ⟨.gt, true, false, true, true⟩ .sized) (Lru.new 5) [.set 0 1 2, .set 2 2 7, .keys]) =
      [.unit, .unit, .keys []] := by decide

end Nv.C04
