import Nv.Model.C13
import Nv.Proofs.C13
import Nv.Proofs.C13Cons
/-!
C13 — property theorems (model: `Nv.Model.C13`, lemmas: `Nv.Proofs.C13`).

Every statement quantifies over all reachable states of the transition system, i.e. over all numbers of
producers and consumers, all interleavings of the critical sections (add / prior add / close / try-close / consumer
entry / resume of a woken consumer) and all choices a `Signal` can make; over every queue shape of C12 (`Par.sh`,
`Par.ssh` are arbitrary) and over every wake configuration in `ProvedWake` — `Broadcast` on close, *either*
primitive on add (one item needs one consumer).
Progress ("returns as soon as") is stated as safety: in no quiescent reachable state does a consumer wait beside a
closed queue or beside an item; that a woken goroutine eventually runs is an assumption on the Go scheduler.
-/
namespace Nv.C13
open Nv.C12

/-- the invariant holds in every reachable state -/
theorem inv_reachable (P : Par) (hP : ProvedWake P.kind P.wk) (a b : Int) :
    ∀ s, (lts P (P.newQ a b)).Reach s → Inv' P s := by
  apply LTS.inv_of_step
  · exact ⟨inv_init _, fun _ => rfl⟩
  · intro s act s' hI h
    exact inv_step P hP s s' act hI h

/-- **No stuck waiter.** In every reachable state in which no thread is mid-operation (nobody has been woken and
    not yet re-tested the loop guard), a consumer is parked only if the queue is open and holds nothing. -/
theorem q_no_stuck_waiter (P : Par) (hP : ProvedWake P.kind P.wk) (a b : Int) (s : CS)
    (hr : (lts P (P.newQ a b)).Reach s) (hq : s.woken = []) (hp : s.parked ≠ []) :
    s.q.closed = false ∧ s.q.ctrl = [] ∧ s.q.req = [] := by
  have hI := (inv_reachable P hP a b s hr).1
  cases hc : s.q.closed with
  | true => exact absurd (hI.1 hc) hp
  | false =>
    have := hI.2 hc hp
    rw [hq] at this
    simp [LQ.size] at this
    exact ⟨rfl, this.1, this.2⟩

/-- **Close releases every blocked consumer.** From any reachable state, after `Close` and any further steps, once
    nobody is mid-operation every consumer that was parked (or woken) at the time of the close has returned. -/
theorem close_releases_all (P : Par) (hP : ProvedWake P.kind P.wk) (a b : Int) (s s' : CS) (w : Tid) (as : List Act)
    (hr : (lts P (P.newQ a b)).Reach s) (hrun : (lts P (P.newQ a b)).run s (.close w :: as) = some s')
    (hq : s'.woken = []) :
    ∀ t, (t ∈ tids s.parked ∨ t ∈ tids s.woken) → t ∈ tids s'.done := by
  intro t ht
  have hr' := LTS.reach_of_run _ _ s s' hr hrun
  have hI := (inv_reachable P hP a b s' hr').1
  have hhas : s'.has t := run_has P _ _ s s' hrun t (by
    rcases ht with h | h
    · exact Or.inl h
    · exact Or.inr (Or.inl h))
  have hcl : s'.q.closed = true := by
    simp only [LTS.run] at hrun
    split at hrun
    · cases hrun
    · rename_i s1 hs1
      exact run_closed P _ as s1 s' hrun (close_sets_closed P s s1 w hs1)
  have hp := hI.1 hcl
  rcases hhas with h | h | h
  · rw [hp] at h; cases h
  · rw [hq] at h; cases h
  · exact h

/-- the system in which items leave the queue only through consumers (`SyncQueue.TryPop` by an outsider excluded) -/
def ltsC (P : Par) (q0 : LQ) : LTS CS Act :=
  ⟨CS.init q0, fun s a => if a = .tryPop then none else step P s a⟩

theorem reach_of_reachC (P : Par) (q0 : LQ) (s : CS) (h : (ltsC P q0).Reach s) : (lts P q0).Reach s := by
  induction h with
  | init => exact LTS.Reach.init
  | @step s1 a s2 _ hs ih =>
    simp only [ltsC] at hs
    split at hs
    · cases hs
    · exact LTS.Reach.step (a := a) ih hs

/-- **Nothing lost, duplicated or invented under concurrency**: in every reachable state, for every item value, the
    copies handed to consumers plus the copies still queued are exactly the copies accepted by adds. -/
theorem conc_conservation (P : Par) (a b : Int) (s : CS) (hr : (ltsC P (P.newQ a b)).Reach s) : Cons s := by
  refine LTS.inv_of_step (ltsC P (P.newQ a b)) Cons (cons_init _ ⟨rfl, rfl⟩) ?_ s hr
  intro s1 act s2 hC h
  simp only [ltsC] at h
  split at h
  · cases h
  · rename_i hne
    exact cons_step P s1 s2 act hne hC h

/-- **k items, k consumers.** In every quiescent reachable state in which some consumer is still parked, every
    accepted item has been handed to a consumer, each exactly as often as it was accepted: the multiset of items
    returned by consumers *is* the multiset of accepted items. Hence k accepted (distinct) items while at least k
    consumers were blocked means k consumers have returned, with k distinct items; and whenever fewer consumers
    than items were blocked nobody is parked at all (`q_no_stuck_waiter`). -/
theorem k_items_k_consumers (P : Par) (hP : ProvedWake P.kind P.wk) (a b : Int) (s : CS)
    (hr : (ltsC P (P.newQ a b)).Reach s) (hq : s.woken = []) (hp : s.parked ≠ []) :
    (vals s.done).Perm s.accepted := by
  have hn := q_no_stuck_waiter P hP a b s (reach_of_reachC P _ s hr) hq hp
  have hC := conc_conservation P a b s hr
  rw [List.perm_iff_count]
  intro y
  have := hC y
  simp only [items, hn.2.1, hn.2.2, List.append_nil, List.count_nil] at this
  omega

theorem doneVal_reachable (P : Par) (a b : Int) (s : CS) (hr : (ltsC P (P.newQ a b)).Reach s) : DoneVal s := by
  refine LTS.inv_of_step (ltsC P (P.newQ a b)) DoneVal (fun _ d hd => nomatch hd) ?_ s hr
  intro s1 act s2 hD h
  simp only [ltsC] at h
  split at h
  · cases h
  · exact doneVal_step P s1 s2 act hD h

/-- handed out ⊎ queued = accepted, as a permutation (and hence with equal lengths) -/
theorem conc_conservation_perm (P : Par) (a b : Int) (s : CS) (hr : (ltsC P (P.newQ a b)).Reach s) :
    (vals s.done ++ (s.q.ctrl ++ s.q.req)).Perm s.accepted := by
  rw [List.perm_iff_count]
  intro y
  have := conc_conservation P a b s hr y
  simp only [items] at this
  rw [List.count_append]; exact this

/-- **k items, k consumers — the exact case of the property.** In every quiescent reachable state of an open queue
    (no close so far — `closed` is never reset) in which exactly as many items have been accepted as consumers have
    called `Pop`/`PopAnyway` (`parked + done`; nobody is woken): nobody is left parked, the queue is empty, every
    consumer returned with an item, and the returned items are exactly the accepted ones as a multiset — so k distinct
    accepted items are k distinct returned items. -/
theorem k_items_k_consumers_exact (P : Par) (hP : ProvedWake P.kind P.wk) (a b : Int) (s : CS)
    (hr : (ltsC P (P.newQ a b)).Reach s) (hq : s.woken = []) (ho : s.q.closed = false)
    (hk : s.accepted.length = s.parked.length + s.done.length) :
    s.parked = [] ∧ s.q.ctrl = [] ∧ s.q.req = [] ∧ (∀ d ∈ s.done, ∃ v, d.2 = .val v) ∧
    (vals s.done).Perm s.accepted ∧ (s.accepted.Nodup → (vals s.done).Nodup) := by
  have hD := doneVal_reachable P a b s hr ho
  have hlen := vals_length_of_all_val s.done hD
  have hperm := conc_conservation_perm P a b s hr
  have hl := hperm.length_eq
  simp only [List.length_append] at hl
  have hpk : s.parked = [] := by
    cases hp : s.parked with
    | nil => rfl
    | cons e r =>
      have hn := q_no_stuck_waiter P hP a b s (reach_of_reachC P _ s hr) hq (by rw [hp]; simp)
      rw [hn.2.1, hn.2.2] at hl
      rw [hp] at hk
      simp at hl hk
      omega
  rw [hpk] at hk
  simp at hk
  have hc : s.q.ctrl = [] := List.eq_nil_of_length_eq_zero (by omega)
  have hrq : s.q.req = [] := List.eq_nil_of_length_eq_zero (by omega)
  have hp2 : (vals s.done).Perm s.accepted := by
    have := hperm; rw [hc, hrq] at this; simpa using this
  exact ⟨hpk, hc, hrq, hD, hp2, fun hnd => (hp2.nodup_iff).2 hnd⟩

/-- the general form: in every quiescent reachable state of an open queue, `#returned consumers + #queued items =
    #accepted items`, every returned consumer carries an item, and if anybody is still parked the queue is empty — so
    with at least as many blocked consumers as items, all items have been delivered; with more items than consumers,
    nobody is parked. -/
theorem items_vs_consumers (P : Par) (hP : ProvedWake P.kind P.wk) (a b : Int) (s : CS)
    (hr : (ltsC P (P.newQ a b)).Reach s) (hq : s.woken = []) (ho : s.q.closed = false) :
    s.done.length + (s.q.ctrl.length + s.q.req.length) = s.accepted.length ∧
    (s.parked ≠ [] → s.q.ctrl = [] ∧ s.q.req = [] ∧ s.done.length = s.accepted.length) ∧
    (s.parked.length + s.done.length < s.accepted.length → s.parked = []) := by
  have hD := doneVal_reachable P a b s hr ho
  have hlen := vals_length_of_all_val s.done hD
  have hl := (conc_conservation_perm P a b s hr).length_eq
  simp only [List.length_append] at hl
  refine ⟨by omega, fun hp => ?_, fun hlt => ?_⟩
  · have hn := q_no_stuck_waiter P hP a b s (reach_of_reachC P _ s hr) hq hp
    rw [hn.2.1, hn.2.2] at hl
    simp at hl
    exact ⟨hn.2.1, hn.2.2, by omega⟩
  · cases hp : s.parked with
    | nil => rfl
    | cons e r =>
      have hn := q_no_stuck_waiter P hP a b s (reach_of_reachC P _ s hr) hq (by rw [hp]; simp)
      rw [hn.2.1, hn.2.2] at hl
      rw [hp] at hlt
      simp at hl hlt
      omega

/-- **An accepted add always wakes a waiter — also one that went back to sleep.** In ANY reachable state with a parked
    consumer (no matter how it got there: first park, or woken by an earlier add, beaten to the item by a barging
    `TryPop`/`Pop` and parked again), an add that is accepted moves at least one parked consumer to `woken`, and no
    consumer disappears. The wake-up bookkeeping of the model is the code's: `Signal`/`Broadcast` on every accepted add,
    unconditionally — there is no "already signalled" state a re-parked consumer could be stuck in. -/
theorem accepted_add_wakes_a_waiter (P : Par) (hP : ProvedWake P.kind P.wk) (s s' : CS) (x : Nat) (w : Tid)
    (hp : s.parked ≠ []) (h : step P s (.add x w) = some s') (hacc : s'.accepted = s.accepted ++ [x]) :
    s'.woken ≠ [] ∧ s'.woken.length + s'.parked.length = s.woken.length + s.parked.length := by
  have hadd := hP.1
  have key : ∀ (s0 : CS), s0.parked = s.parked → s0.woken = s.woken → wake P.wk.add w s0 = some s' →
      s'.woken ≠ [] ∧ s'.woken.length + s'.parked.length = s.woken.length + s.parked.length := by
    intro s0 hp0 hw0 hwk
    rcases wake_threads _ w s0 s' hwk with ⟨_, h1, h2⟩ | ⟨_, h0, _, _⟩ | ⟨_, e, he, h1, h2⟩ | ⟨hn, _, _⟩
    · rw [h1, h2, hp0, hw0]
      refine ⟨fun h0 => hp ((List.append_eq_nil_iff.1 h0).2), by simp⟩
    · rw [hp0] at h0; exact absurd h0 hp
    · rw [h1, h2, hp0, hw0]
      rw [hp0] at he
      refine ⟨by simp, ?_⟩
      rw [List.length_erase_of_mem he]
      have : 0 < s.parked.length := List.length_pos_of_mem he
      simp; omega
    · rcases hn with hn | hn <;> rw [hn] at hadd <;> cases hadd
  simp only [step] at h
  cases hk : P.kind <;> simp only [hk] at h
  case syncq =>
    split at h
    · cases h; simp at hacc
    · exact key { s with q := syncPush P.ssh s.q x, accepted := s.accepted ++ [x] } rfl rfl h
  all_goals
    unfold addLike at h
    split at h
    · exact key { s with q := (addReq P.sh s.q x).1, accepted := s.accepted ++ [x] } rfl rfl h
    · cases h; simp at hacc

/-- the barging history on the repaired SyncQueue: the consumer is signalled, a `TryPop` takes the item first, the
    consumer re-parks, the next push signals it again and it returns that item -/
example :
    (lts ⟨.syncq, Shape.expected, SyncShape.expected, ⟨.signal, .signal, .broadcast, .none⟩⟩ (LQ.new .syncq 0 0)).run
      (CS.init (LQ.new .syncq 0 0)) [.popCall 1 false, .add 7 1, .tryPop, .resume 1, .add 8 1, .resume 1]
      = some ⟨LQ.new .syncq 0 0, [], [], [(1, .val 8)], [7, 8]⟩ := by decide

/-- after a close the woken consumers can always run to completion: a woken thread's resume is enabled, and on a
    closed queue it returns (it never parks again) -/
theorem resume_returns_when_closed (P : Par) (s : CS) (e : Tid × Bool) (he : s.woken.find? (fun x => x.1 == e.1) = some e)
    (hc : s.q.closed = true) (hk : P.kind = .syncq → s.q.ctrl = []) :
    ∃ s', step P s (.resume e.1) = some s' ∧ s'.parked = s.parked ∧ s'.woken = s.woken.erase e ∧
      e.1 ∈ tids s'.done := by
  have hstep : step P s (.resume e.1) =
      some (enter P.kind P.sh e.1 e.2 { s with woken := s.woken.erase e }) := by simp only [step, he]
  refine ⟨_, hstep, ?_⟩
  unfold enter
  cases hat : attempt P.kind P.sh e.2 s.q with
  | none =>
    have := attempt_none P.kind P.sh e.2 s.q hk hat
    rw [this.2] at hc; cases hc
  | some r => simp [tids]

/-! ### the oracle's quiescence function takes LTS steps only and ends with nobody woken -/

theorem enter_woken (k : Kind) (sh : Shape) (t : Tid) (a : Bool) (s : CS) : (enter k sh t a s).woken = s.woken := by
  unfold enter; cases attempt k sh a s.q <;> rfl

theorem resume_head (P : Par) (s : CS) (e : Tid × Bool) (r : List (Tid × Bool)) (hw : s.woken = e :: r) :
    ∃ s', step P s (.resume e.1) = some s' ∧ s'.woken = r := by
  have hf : s.woken.find? (fun x => x.1 == e.1) = some e := by rw [hw]; simp
  have hstep : step P s (.resume e.1) =
      some (enter P.kind P.sh e.1 e.2 { s with woken := s.woken.erase e }) := by simp only [step, hf]
  refine ⟨_, hstep, ?_⟩
  rw [enter_woken]; simp [hw]

theorem settle_reach (P : Par) (q0 : LQ) : ∀ (n : Nat) (s : CS), (lts P q0).Reach s → (lts P q0).Reach (settle P n s)
  | 0, _, h => h
  | n + 1, s, h => by
    unfold settle
    cases hw : s.woken with
    | nil => exact h
    | cons e r =>
      obtain ⟨s', hs, _⟩ := resume_head P s e r hw
      simp only [hs]
      exact settle_reach P q0 n s' (LTS.Reach.step (m := lts P q0) (a := .resume e.1) h hs)

theorem settle_quiescent (P : Par) : ∀ (n : Nat) (s : CS), s.woken.length ≤ n → (settle P n s).woken = []
  | 0, s, h => by
    unfold settle
    exact List.eq_nil_of_length_eq_zero (Nat.le_zero.1 h)
  | n + 1, s, h => by
    unfold settle
    cases hw : s.woken with
    | nil => exact hw
    | cons e r =>
      obtain ⟨s', hs, hr⟩ := resume_head P s e r hw
      simp only [hs]
      exact settle_quiescent P n s' (by rw [hr]; rw [hw] at h; simp at h; omega)

/-- **PriQueue: the wait channel is readable beside a non-empty queue.** In every reachable state in which the
    queue is non-empty, no `Push`/`Pop` is between its unlock and its signal, and no consumer holds a received
    signal it has not yet followed by a `Pop`, the channel holds its element. All interleavings of the locked
    parts, the signal parts and the receives are covered, for every `Less` shape and capacity. -/
theorem priq_waitch_readable (sh : PriShape) (pc : PriCfg) (hp : ProvedPri pc) (cap : Int) (s : PS)
    (hr : (plts sh pc cap).Reach s) (hne : s.q.entries ≠ []) (h1 : s.pushGap = 0) (h2 : s.popGap = 0)
    (h3 : s.holders = 0) : s.token = true := by
  have hI : PInv s := by
    refine LTS.inv_of_step (plts sh pc cap) PInv (pinv_init cap) ?_ s hr
    intro s a s' hI h
    exact pinv_step sh pc hp s s' a hI h
  rcases hI hne with h | h | h | h
  · exact h
  · omega
  · omega
  · omega

/-! ### non-vacuity -/

example : ProvedWake .q ⟨.broadcast, .broadcast, .broadcast, .none⟩ := by decide
example : ProvedWake .mq ⟨.broadcast, .signal, .broadcast, .broadcast⟩ := by decide
/-- the negative control of DESIGN Appendix B: `Signal` instead of `Broadcast` in an add is inside the proved set -/
example : ProvedWake .q ⟨.signal, .broadcast, .broadcast, .none⟩ := by decide
/-- the repaired SyncQueue -/
example : ProvedWake .syncq ⟨.signal, .signal, .broadcast, .none⟩ := by decide
example : ProvedPri ⟨true, true⟩ := by decide

/-- a reachable quiescent state with a parked consumer (hypotheses of `q_no_stuck_waiter` are satisfiable):
    two consumers park, one item arrives, one consumer takes it, the other parks again -/
example :
    (lts ⟨.q, Shape.expected, SyncShape.expected, ⟨.broadcast, .broadcast, .broadcast, .none⟩⟩ (LQ.new .q 0 0)).run
      (CS.init (LQ.new .q 0 0)) [.popCall 1 false, .popCall 2 true, .add 7 0, .resume 2, .resume 1]
      = some ⟨LQ.new .q 0 0, [(1, false)], [], [(2, .val 7)], [7]⟩ := by decide

/-- the hypotheses of `k_items_k_consumers_exact` are satisfiable: two consumers block, two items arrive, everybody
    resumes — quiescent, open, `accepted.length = parked.length + done.length = 2` -/
example :
    (ltsC ⟨.q, Shape.expected, SyncShape.expected, ⟨.broadcast, .broadcast, .broadcast, .none⟩⟩ (LQ.new .q 0 0)).run
      (CS.init (LQ.new .q 0 0)) [.popCall 1 false, .popCall 2 false, .add 7 0, .add 8 0, .resume 2, .resume 1]
      = some ⟨LQ.new .q 0 0, [], [], [(1, .val 8), (2, .val 7)], [7, 8]⟩ := by decide

/-- the window between a wake-up and the woken consumer's re-acquisition of the lock is part of the system: two
    consumers parked on the (repaired) SyncQueue, `Push` signals one, `Close` arrives before it resumes, and the
    broadcast releases the other one too — the run the harness drives with `atomic add 1 ; close` -/
example :
    (lts ⟨.syncq, Shape.expected, SyncShape.expected, ⟨.signal, .signal, .broadcast, .none⟩⟩ (LQ.new .syncq 0 0)).run
      (CS.init (LQ.new .syncq 0 0)) [.popCall 1 false, .popCall 2 false, .add 7 1, .close 0, .resume 1, .resume 2]
      = some ⟨closeQ (LQ.new .syncq 0 0), [], [], [(2, .nil), (1, .val 7)], [7]⟩ := by decide

/-- a reachable PriQueue state satisfying the hypotheses of `priq_waitch_readable` -/
example : (plts PriShape.expected ⟨true, true⟩ 3).run (PS.init 3)
      [.pushLock 1 0, .pushSignal, .pushLock 2 5, .pushSignal, .recv, .popLock true, .popSignal]
      = some ⟨⟨[⟨0, 1, 1⟩], 3, 2⟩, true, 0, 0, 0⟩ := by decide

/-! ### today's defective configuration, and the mutations of DESIGN Appendix B: the property is false -/

/-- today's `SyncQueue.Close` uses `Signal`: two consumers parked, Close, the woken one resumes and returns — the
    other stays parked beside a closed queue with nobody mid-operation (defect F12; script `new syncq / pop / pop /
    close` is the replay on the real code). -/
theorem witness_signal_on_close :
    (lts ⟨.syncq, Shape.expected, SyncShape.expected, ⟨.signal, .signal, .signal, .none⟩⟩ (LQ.new .syncq 0 0)).run
      (CS.init (LQ.new .syncq 0 0)) [.popCall 1 false, .popCall 2 false, .close 1, .resume 1]
      = some ⟨closeQ (LQ.new .syncq 0 0), [(2, false)], [], [(1, .nil)], []⟩ := by decide

theorem not_no_stuck_waiter_signal_on_close :
    ¬ (∀ s, (lts ⟨.syncq, Shape.expected, SyncShape.expected, ⟨.signal, .signal, .signal, .none⟩⟩ (LQ.new .syncq 0 0)).Reach s →
        s.woken = [] → s.parked ≠ [] → s.q.closed = false) := by
  intro h
  have hr := LTS.reach_of_run _ _ _ _ LTS.Reach.init witness_signal_on_close
  have := h _ hr rfl (by decide)
  revert this; decide

/-- an add that wakes nobody loses the wake-up: consumer parked, item added, consumer still parked beside it -/
theorem witness_add_without_wake :
    (lts ⟨.q, Shape.expected, SyncShape.expected, ⟨.none, .broadcast, .broadcast, .none⟩⟩ (LQ.new .q 0 0)).run
      (CS.init (LQ.new .q 0 0)) [.popCall 1 false, .add 7 0]
      = some ⟨{ LQ.new .q 0 0 with req := [7] }, [(1, false)], [], [], [7]⟩ := by decide

/-- PriQueue `Pop` without the re-signal: two entries, one signal received, one Pop — an entry is left, nothing is
    in flight, nobody holds a signal, and the channel is empty -/
theorem witness_priq_no_resignal :
    (plts PriShape.expected ⟨true, false⟩ 3).run (PS.init 3)
      [.pushLock 1 0, .pushSignal, .pushLock 2 0, .pushSignal, .recv, .popLock true]
      = some ⟨⟨[⟨0, 2, 2⟩], 3, 2⟩, false, 0, 0, 0⟩ := by decide

theorem not_waitch_readable_no_resignal :
    ¬ (∀ s, (plts PriShape.expected ⟨true, false⟩ 3).Reach s → s.q.entries ≠ [] → s.pushGap = 0 → s.popGap = 0 →
        s.holders = 0 → s.token = true) := by
  intro h
  have hr := LTS.reach_of_run _ _ _ _ LTS.Reach.init witness_priq_no_resignal
  have := h _ hr (by decide) rfl rfl rfl
  revert this; decide

end Nv.C13
