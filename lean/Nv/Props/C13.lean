import Nv.Model.C13
/-!
C13 — property theorems (model: `Nv.Model.C13`).
-/
namespace Nv.C13
open Nv.C12

/-- today's `SyncQueue.Close` uses `Signal`: two consumers parked, Close, resume the woken one — one consumer stays
    parked beside a closed queue (defect F12; the same script is the replay on the real code). -/
theorem witness_signal_on_close :
    (lts ⟨.syncq, Shape.expected, SyncShape.expected, ⟨.signal, .signal, .signal, .none⟩⟩ (LQ.new .syncq 0 0)).run
      (CS.init (LQ.new .syncq 0 0)) [.popCall 1 false, .popCall 2 false, .close 1, .resume 1]
      = some ⟨closeQ (LQ.new .syncq 0 0), [(2, false)], [], [(1, .nil)], []⟩ := by decide

end Nv.C13
