import Nv.Model.C07
import Nv.Proofs.C07Codec
import Nv.Proofs.C07Round
import Nv.Proofs.C07Calendar
set_option linter.unusedSimpArgs false
/-!
C07 — property theorems for the snowflake id codec (model `Nv/Model/C07.lean`).
Ids are signed 64-bit integers; "non-negative id" is `0 ≤ id.toInt`; every non-negative id has a timestamp
field that fits the configured width. All six layouts (`LayoutOk nb`, node-at-lowest on/off).
-/
namespace Nv.C07
open Nv.C06

/-! ### split / join -/

/-- splitting an id into (timestamp, node, step) and recombining the fields as `Generate` packs them gives the id -/
theorem id_split_join {nb : BitVec 8} (hl : LayoutOk nb) (nal : Bool) (id : BitVec 64) (h : 0 ≤ id.toInt) :
    join nb nal (idFields id nb nal).1 (idFields id nb nal).2.1 (idFields id nb nal).2.2 = id :=
  join_idFields hl nal (toNat_lt_of_toInt_nonneg h)

/-- the fields of a non-negative id fit their widths -/
theorem id_fields_fit {nb : BitVec 8} (hl : LayoutOk nb) (nal : Bool) (id : BitVec 64) (h : 0 ≤ id.toInt) :
    (idFields id nb nal).1.toNat < 2 ^ tsWidth nb ∧ (idFields id nb nal).2.1.toNat < 2 ^ nb.toNat ∧
      (idFields id nb nal).2.2.toNat < 4096 :=
  idFields_ranges hl nal (toNat_lt_of_toInt_nonneg h)

/-- conversely, fields that fit their widths are what `IDFields` reads back from the packed id -/
theorem id_join_split {nb : BitVec 8} (hl : LayoutOk nb) (nal : Bool) (t n s : BitVec 64)
    (ht : t.toNat < 2 ^ tsWidth nb) (hn : n.toNat < 2 ^ nb.toNat) (hs : s.toNat < 4096) :
    idFields (join nb nal t n s) nb nal = (t, n, s) ∧ 0 ≤ (join nb nal t n s).toInt := by
  refine ⟨idFields_join hl nal ht hn hs, ?_⟩
  rw [toInt_eq_toNat_of_lt (join_lt hl nal ht hn hs)]; omega

/-- `IDParse` is `IDFields` with the epoch added to the timestamp -/
theorem id_parse_fields (id : BitVec 64) (nb : BitVec 8) (nal : Bool) (epoch : BitVec 64) :
    (idParse id nb nal epoch).1 - epoch = (idFields id nb nal).1 ∧
    (idParse id nb nal epoch).2 = (idFields id nb nal).2 := by
  unfold idParse
  exact ⟨BitVec.add_sub_cancel _ _, rfl⟩

/-! ### order -/

/-- ids order exactly as their (timestamp, remaining bits) pairs order -/
theorem id_order_lex {nb : BitVec 8} (hl : LayoutOk nb) (nal : Bool) (a b : BitVec 64) (ha : 0 ≤ a.toInt) (hb : 0 ≤ b.toInt) :
    a.toInt < b.toInt ↔
      ((idFields a nb nal).1.toInt < (idFields b nb nal).1.toInt ∨
        ((idFields a nb nal).1 = (idFields b nb nal).1 ∧ (rest a nb).toNat < (rest b nb).toNat)) := by
  have ha' := toNat_lt_of_toInt_nonneg ha
  have hb' := toNat_lt_of_toInt_nonneg hb
  rw [toInt_eq_toNat_of_lt ha', toInt_eq_toNat_of_lt hb', ts_toInt hl nal ha', ts_toInt hl nal hb',
    rest_toNat hl, rest_toNat hl]
  have e : (idFields a nb nal).1 = (idFields b nb nal).1 ↔ a.toNat / 2 ^ tsShift nb = b.toNat / 2 ^ tsShift nb := by
    rw [← BitVec.toNat_inj, ts_toNat hl nal ha', ts_toNat hl nal hb']
  rw [e]
  have := lt_iff_lex (tsShift nb) a.toNat b.toNat
  constructor
  · intro h
    rcases this.1 (by omega) with h1 | h1
    · left; omega
    · right; exact h1
  · intro h
    have : a.toNat < b.toNat := this.2 (by
      rcases h with h1 | h1
      · left; omega
      · right; exact h1)
    omega

/-- the comparison the oracle prints (`lexCmp`) is the comparison of the ids -/
theorem lexCmp_spec {nb : BitVec 8} (hl : LayoutOk nb) (nal : Bool) (a b : BitVec 64) (ha : 0 ≤ a.toInt) (hb : 0 ≤ b.toInt) :
    (lexCmp nb nal a b = -1 ↔ a.toInt < b.toInt) ∧ (lexCmp nb nal a b = 1 ↔ b.toInt < a.toInt) := by
  have hab := id_order_lex hl nal a b ha hb
  have hba := id_order_lex hl nal b a hb ha
  unfold lexCmp
  by_cases h1 : (idFields a nb nal).1.toInt < (idFields b nb nal).1.toInt
  · have hlt := hab.2 (Or.inl h1)
    rw [if_pos (BitVec.slt_iff_toInt_lt.2 h1)]
    exact ⟨⟨fun _ => hlt, fun _ => rfl⟩, ⟨fun h => by omega, fun h => by omega⟩⟩
  · rw [if_neg (fun h => h1 (BitVec.slt_iff_toInt_lt.1 h))]
    by_cases h2 : (idFields b nb nal).1.toInt < (idFields a nb nal).1.toInt
    · have hlt := hba.2 (Or.inl h2)
      rw [if_pos (BitVec.slt_iff_toInt_lt.2 h2)]
      exact ⟨⟨fun h => by omega, fun h => by omega⟩, ⟨fun _ => hlt, fun _ => rfl⟩⟩
    · rw [if_neg (fun h => h2 (BitVec.slt_iff_toInt_lt.1 h))]
      have heq : (idFields a nb nal).1 = (idFields b nb nal).1 := BitVec.toInt_inj.1 (by omega)
      by_cases h3 : (rest a nb).toNat < (rest b nb).toNat
      · have hlt := hab.2 (Or.inr ⟨heq, h3⟩)
        rw [if_pos (BitVec.ult_iff_toNat_lt.2 h3)]
        exact ⟨⟨fun _ => hlt, fun _ => rfl⟩, ⟨fun h => by omega, fun h => by omega⟩⟩
      · rw [if_neg (fun h => h3 (BitVec.ult_iff_toNat_lt.1 h))]
        by_cases h4 : (rest b nb).toNat < (rest a nb).toNat
        · have hlt := hba.2 (Or.inr ⟨heq.symm, h4⟩)
          rw [if_pos (BitVec.ult_iff_toNat_lt.2 h4)]
          exact ⟨⟨fun h => by omega, fun h => by omega⟩, ⟨fun _ => hlt, fun _ => rfl⟩⟩
        · rw [if_neg (fun h => h4 (BitVec.ult_iff_toNat_lt.1 h))]
          have n1 : ¬ a.toInt < b.toInt := fun h => by
            rcases hab.1 h with h' | h'
            · exact h1 h'
            · exact h3 h'.2
          have n2 : ¬ b.toInt < a.toInt := fun h => by
            rcases hba.1 h with h' | h'
            · exact h2 h'
            · exact h4 h'.2
          exact ⟨⟨fun h => by omega, fun h => absurd h n1⟩, ⟨fun h => by omega, fun h => absurd h n2⟩⟩

/-- **ids are time-ordered**: an id with a strictly earlier timestamp is strictly smaller, whatever node and step either
    carries — sorting ids sorts by creation millisecond -/
theorem id_order_time {nb : BitVec 8} (hl : LayoutOk nb) (nal : Bool) (a b : BitVec 64) (ha : 0 ≤ a.toInt) (hb : 0 ≤ b.toInt)
    (h : (idFields a nb nal).1.toInt < (idFields b nb nal).1.toInt) : a.toInt < b.toInt :=
  (id_order_lex hl nal a b ha hb).2 (Or.inl h)

/-- conversely a smaller id never has a later timestamp -/
theorem id_order_time_le {nb : BitVec 8} (hl : LayoutOk nb) (nal : Bool) (a b : BitVec 64) (ha : 0 ≤ a.toInt) (hb : 0 ≤ b.toInt)
    (h : a.toInt ≤ b.toInt) : (idFields a nb nal).1.toInt ≤ (idFields b nb nal).1.toInt := by
  by_cases h' : (idFields b nb nal).1.toInt < (idFields a nb nal).1.toInt
  · have := id_order_time hl nal b a hb ha h'; omega
  · omega
/-! ### id interval of a time interval -/

/-- `TimeIDRange(t)` is `TimeBetweenID(t, t)` -/
theorem time_id_range_eq (nb : BitVec 8) (epoch sec : BitVec 64) :
    timeIDRange nb epoch sec = timeBetweenID nb epoch sec sec := rfl

/-- the millisecond offset of a second from the epoch, computed without wrap-around -/
theorem sec_offset_toInt (epoch sec : BitVec 64) (hs : -2 ^ 52 ≤ sec.toInt ∧ sec.toInt < 2 ^ 52)
    (he : -2 ^ 62 ≤ epoch.toInt ∧ epoch.toInt < 2 ^ 62) :
    ((sec * 1000#64) - epoch).toInt = sec.toInt * 1000 - epoch.toInt := by
  have h1 : (sec * 1000#64).toInt = sec.toInt * 1000 := by
    rw [BitVec.toInt_mul, show (1000#64).toInt = 1000 by decide]
    apply Int.bmod_eq_of_le <;> omega
  rw [BitVec.toInt_sub, h1]
  apply Int.bmod_eq_of_le <;> omega

/-- **the interval is exact**: with `bOff`/`eOff` the millisecond offsets of the second-truncated endpoints from the
    epoch (non-negative, inside the timestamp width), a non-negative id lies in `[min, max]` iff its timestamp lies
    in `[bOff, eOff]` -/
theorem range_exact {nb : BitVec 8} (hl : LayoutOk nb) (nal : Bool) (epoch b e id : BitVec 64)
    (hb : ((b * 1000#64) - epoch).toNat < 2 ^ tsWidth nb) (he : ((e * 1000#64) - epoch).toNat < 2 ^ tsWidth nb)
    (hid : 0 ≤ id.toInt) :
    ((timeBetweenID nb epoch b e).1.toInt ≤ id.toInt ∧ id.toInt ≤ (timeBetweenID nb epoch b e).2.toInt) ↔
      (((b * 1000#64) - epoch).toInt ≤ (idFields id nb nal).1.toInt ∧
        (idFields id nb nal).1.toInt ≤ ((e * 1000#64) - epoch).toInt) := by
  have hid' := toNat_lt_of_toInt_nonneg hid
  have hW : 2 ^ tsWidth nb * 2 ^ tsShift nb = 2 ^ 63 := by
    rcases hl with rfl | rfl | rfl <;> decide
  have hp : 0 < 2 ^ tsShift nb := Nat.pos_of_ne_zero (by simp)
  have hWle : 2 ^ tsWidth nb ≤ 2 ^ 43 := by
    rcases hl with rfl | rfl | rfl <;> decide
  have hmin := shl_toNat hl hb
  have hmax := shl_or_mask_toNat hl he
  have hminlt : ((b * 1000#64 - epoch) <<< (nb + 12#8).toNat).toNat < 2 ^ 63 := by
    rw [hmin, ← hW]; exact Nat.mul_lt_mul_of_pos_right hb hp
  have hmaxlt : (((e * 1000#64 - epoch) <<< (nb + 12#8).toNat) ||| lowMask nb).toNat < 2 ^ 63 := by
    rw [hmax, ← hW]
    have : ((e * 1000#64 - epoch).toNat + 1) * 2 ^ tsShift nb ≤ 2 ^ tsWidth nb * 2 ^ tsShift nb :=
      Nat.mul_le_mul_right _ he
    rw [Nat.add_mul] at this; omega
  unfold timeBetweenID
  simp only
  rw [toInt_eq_toNat_of_lt hminlt, toInt_eq_toNat_of_lt hmaxlt, toInt_eq_toNat_of_lt hid', ts_toInt hl nal hid',
    toInt_eq_toNat_of_lt (x := b * 1000#64 - epoch) (by omega), toInt_eq_toNat_of_lt (x := e * 1000#64 - epoch) (by omega),
    hmin, hmax]
  have hdm := Nat.div_add_mod id.toNat (2 ^ tsShift nb)
  have hr := Nat.mod_lt id.toNat hp
  generalize id.toNat / 2 ^ tsShift nb = q at *
  generalize id.toNat % 2 ^ tsShift nb = r at *
  generalize (b * 1000#64 - epoch).toNat = bo at *
  generalize (e * 1000#64 - epoch).toNat = eo at *
  generalize 2 ^ tsShift nb = p at *
  rw [Nat.mul_comm] at hdm
  constructor
  · rintro ⟨h1, h2⟩
    constructor
    · by_cases hq : bo ≤ q
      · omega
      · exfalso
        have : (q + 1) * p ≤ bo * p := Nat.mul_le_mul_right p (by omega)
        rw [Nat.add_mul] at this; omega
    · by_cases hq : q ≤ eo
      · omega
      · exfalso
        have : (eo + 1) * p ≤ q * p := Nat.mul_le_mul_right p (by omega)
        rw [Nat.add_mul] at this; omega
  · rintro ⟨h1, h2⟩
    have a1 : bo * p ≤ q * p := Nat.mul_le_mul_right p (by omega)
    have a2 : q * p ≤ eo * p := Nat.mul_le_mul_right p (by omega)
    constructor <;> omega

/-- the interval contains every id whose timestamp lies between the second-truncated endpoints -/
theorem range_contains {nb : BitVec 8} (hl : LayoutOk nb) (nal : Bool) (epoch b e id : BitVec 64)
    (hb : ((b * 1000#64) - epoch).toNat < 2 ^ tsWidth nb) (he : ((e * 1000#64) - epoch).toNat < 2 ^ tsWidth nb)
    (hid : 0 ≤ id.toInt)
    (h : ((b * 1000#64) - epoch).toInt ≤ (idFields id nb nal).1.toInt ∧ (idFields id nb nal).1.toInt ≤ ((e * 1000#64) - epoch).toInt) :
    (timeBetweenID nb epoch b e).1.toInt ≤ id.toInt ∧ id.toInt ≤ (timeBetweenID nb epoch b e).2.toInt :=
  (range_exact hl nal epoch b e id hb he hid).2 h

/-- … and no id whose timestamp lies before the first endpoint's second or after the last endpoint's second -/
theorem range_excludes {nb : BitVec 8} (hl : LayoutOk nb) (nal : Bool) (epoch b e id : BitVec 64)
    (hb : ((b * 1000#64) - epoch).toNat < 2 ^ tsWidth nb) (he : ((e * 1000#64) - epoch).toNat < 2 ^ tsWidth nb)
    (hid : 0 ≤ id.toInt)
    (h : (idFields id nb nal).1.toInt < ((b * 1000#64) - epoch).toInt ∨ ((e * 1000#64) - epoch).toInt < (idFields id nb nal).1.toInt) :
    id.toInt < (timeBetweenID nb epoch b e).1.toInt ∨ (timeBetweenID nb epoch b e).2.toInt < id.toInt := by
  have := range_exact hl nal epoch b e id hb he hid
  by_cases h1 : (timeBetweenID nb epoch b e).1.toInt ≤ id.toInt
  · by_cases h2 : id.toInt ≤ (timeBetweenID nb epoch b e).2.toInt
    · have := this.1 ⟨h1, h2⟩; omega
    · right; omega
  · left; omega

/-- both endpoints of the computed interval are themselves non-negative ids, and the interval is non-empty whenever
    the first endpoint's second is not after the last one's: `0 ≤ min ≤ max` (so `range_exact` applies to them) -/
theorem range_endpoints_ordered {nb : BitVec 8} (hl : LayoutOk nb) (epoch b e : BitVec 64)
    (hb : ((b * 1000#64) - epoch).toNat < 2 ^ tsWidth nb) (he : ((e * 1000#64) - epoch).toNat < 2 ^ tsWidth nb)
    (hbe : ((b * 1000#64) - epoch).toNat ≤ ((e * 1000#64) - epoch).toNat) :
    0 ≤ (timeBetweenID nb epoch b e).1.toInt ∧
      (timeBetweenID nb epoch b e).1.toInt ≤ (timeBetweenID nb epoch b e).2.toInt := by
  have hW : 2 ^ tsWidth nb * 2 ^ tsShift nb = 2 ^ 63 := by
    rcases hl with rfl | rfl | rfl <;> decide
  have hp : 0 < 2 ^ tsShift nb := Nat.pos_of_ne_zero (by simp)
  have hmin := shl_toNat hl hb
  have hmax := shl_or_mask_toNat hl he
  have hminlt : ((b * 1000#64 - epoch) <<< (nb + 12#8).toNat).toNat < 2 ^ 63 := by
    rw [hmin, ← hW]; exact Nat.mul_lt_mul_of_pos_right hb hp
  have hmaxlt : (((e * 1000#64 - epoch) <<< (nb + 12#8).toNat) ||| lowMask nb).toNat < 2 ^ 63 := by
    rw [hmax, ← hW]
    have : ((e * 1000#64 - epoch).toNat + 1) * 2 ^ tsShift nb ≤ 2 ^ tsWidth nb * 2 ^ tsShift nb :=
      Nat.mul_le_mul_right _ he
    rw [Nat.add_mul] at this; omega
  unfold timeBetweenID
  simp only
  rw [toInt_eq_toNat_of_lt hminlt, toInt_eq_toNat_of_lt hmaxlt, hmin, hmax]
  have : (b * 1000#64 - epoch).toNat * 2 ^ tsShift nb ≤ (e * 1000#64 - epoch).toNat * 2 ^ tsShift nb :=
    Nat.mul_le_mul_right _ hbe
  omega

/-- **the interval is tight**: its lower end is the id with timestamp `bOff` and every remaining bit clear, its upper
    end the id with timestamp `eOff` and every remaining bit set — both are attained, the interval cannot be narrowed -/
theorem range_endpoints_fields {nb : BitVec 8} (hl : LayoutOk nb) (nal : Bool) (epoch b e : BitVec 64)
    (hb : ((b * 1000#64) - epoch).toNat < 2 ^ tsWidth nb) (he : ((e * 1000#64) - epoch).toNat < 2 ^ tsWidth nb) :
    (idFields (timeBetweenID nb epoch b e).1 nb nal).1.toInt = ((b * 1000#64) - epoch).toInt ∧
      (idFields (timeBetweenID nb epoch b e).2 nb nal).1.toInt = ((e * 1000#64) - epoch).toInt ∧
      (timeBetweenID nb epoch b e).1.toNat % 2 ^ tsShift nb = 0 ∧
      (timeBetweenID nb epoch b e).2.toNat % 2 ^ tsShift nb = 2 ^ tsShift nb - 1 := by
  have hW : 2 ^ tsWidth nb * 2 ^ tsShift nb = 2 ^ 63 := by
    rcases hl with rfl | rfl | rfl <;> decide
  have hWle : 2 ^ tsWidth nb ≤ 2 ^ 43 := by
    rcases hl with rfl | rfl | rfl <;> decide
  have hp : 0 < 2 ^ tsShift nb := Nat.pos_of_ne_zero (by simp)
  have hmin := shl_toNat hl hb
  have hmax := shl_or_mask_toNat hl he
  have hminlt : ((b * 1000#64 - epoch) <<< (nb + 12#8).toNat).toNat < 2 ^ 63 := by
    rw [hmin, ← hW]; exact Nat.mul_lt_mul_of_pos_right hb hp
  have hmaxlt : (((e * 1000#64 - epoch) <<< (nb + 12#8).toNat) ||| lowMask nb).toNat < 2 ^ 63 := by
    rw [hmax, ← hW]
    have : ((e * 1000#64 - epoch).toNat + 1) * 2 ^ tsShift nb ≤ 2 ^ tsWidth nb * 2 ^ tsShift nb :=
      Nat.mul_le_mul_right _ he
    rw [Nat.add_mul] at this; omega
  unfold timeBetweenID
  simp only
  rw [ts_toInt hl nal hminlt, ts_toInt hl nal hmaxlt,
    toInt_eq_toNat_of_lt (x := b * 1000#64 - epoch) (by omega), toInt_eq_toNat_of_lt (x := e * 1000#64 - epoch) (by omega),
    hmin, hmax]
  refine ⟨?_, ?_, ?_, ?_⟩
  · rw [Nat.mul_div_cancel _ hp]
  · congr 1
    rw [Nat.mul_comm, Nat.mul_add_div hp, Nat.div_eq_of_lt (by omega)]; omega
  · exact Nat.mul_mod_left _ _
  · rw [Nat.mul_comm, Nat.mul_add_mod, Nat.mod_eq_of_lt (by omega)]

/-- **monotone in the time interval**: widening the time interval (earlier first second, later last second) widens the
    id interval — no id is lost by asking for more time -/
theorem range_monotone {nb : BitVec 8} (hl : LayoutOk nb) (nal : Bool) (epoch b e b' e' id : BitVec 64)
    (hb : ((b * 1000#64) - epoch).toNat < 2 ^ tsWidth nb) (he : ((e * 1000#64) - epoch).toNat < 2 ^ tsWidth nb)
    (hb' : ((b' * 1000#64) - epoch).toNat < 2 ^ tsWidth nb) (he' : ((e' * 1000#64) - epoch).toNat < 2 ^ tsWidth nb)
    (hbb : ((b' * 1000#64) - epoch).toInt ≤ ((b * 1000#64) - epoch).toInt)
    (hee : ((e * 1000#64) - epoch).toInt ≤ ((e' * 1000#64) - epoch).toInt)
    (hid : 0 ≤ id.toInt)
    (h : (timeBetweenID nb epoch b e).1.toInt ≤ id.toInt ∧ id.toInt ≤ (timeBetweenID nb epoch b e).2.toInt) :
    (timeBetweenID nb epoch b' e').1.toInt ≤ id.toInt ∧ id.toInt ≤ (timeBetweenID nb epoch b' e').2.toInt := by
  have h1 := (range_exact hl nal epoch b e id hb he hid).1 h
  exact (range_exact hl nal epoch b' e' id hb' he' hid).2 ⟨by omega, by omega⟩

/-- **intervals compose**: an id lies in the id intervals of two time intervals iff it lies in the id interval of
    their intersection (first second = the later of the two first seconds, last second = the earlier of the two last) -/
theorem range_inter {nb : BitVec 8} (hl : LayoutOk nb) (nal : Bool) (epoch b e b' e' id : BitVec 64)
    (hb : ((b * 1000#64) - epoch).toNat < 2 ^ tsWidth nb) (he : ((e * 1000#64) - epoch).toNat < 2 ^ tsWidth nb)
    (hb' : ((b' * 1000#64) - epoch).toNat < 2 ^ tsWidth nb) (he' : ((e' * 1000#64) - epoch).toNat < 2 ^ tsWidth nb)
    (hbb : ((b * 1000#64) - epoch).toInt ≤ ((b' * 1000#64) - epoch).toInt)
    (hee : ((e * 1000#64) - epoch).toInt ≤ ((e' * 1000#64) - epoch).toInt)
    (hid : 0 ≤ id.toInt) :
    (((timeBetweenID nb epoch b e).1.toInt ≤ id.toInt ∧ id.toInt ≤ (timeBetweenID nb epoch b e).2.toInt) ∧
      ((timeBetweenID nb epoch b' e').1.toInt ≤ id.toInt ∧ id.toInt ≤ (timeBetweenID nb epoch b' e').2.toInt)) ↔
    ((timeBetweenID nb epoch b' e).1.toInt ≤ id.toInt ∧ id.toInt ≤ (timeBetweenID nb epoch b' e).2.toInt) := by
  rw [range_exact hl nal epoch b e id hb he hid, range_exact hl nal epoch b' e' id hb' he' hid,
    range_exact hl nal epoch b' e id hb' he hid]
  omega

/-- a single-instant range (`TimeIDRange`) holds exactly the ids stamped with that second's millisecond offset -/
theorem time_id_range_exact {nb : BitVec 8} (hl : LayoutOk nb) (nal : Bool) (epoch sec id : BitVec 64)
    (hs : ((sec * 1000#64) - epoch).toNat < 2 ^ tsWidth nb) (hid : 0 ≤ id.toInt) :
    ((timeIDRange nb epoch sec).1.toInt ≤ id.toInt ∧ id.toInt ≤ (timeIDRange nb epoch sec).2.toInt) ↔
      (idFields id nb nal).1.toInt = ((sec * 1000#64) - epoch).toInt := by
  rw [time_id_range_eq, range_exact hl nal epoch sec sec id hs hs hid]
  omega

/-- non-vacuity: default layout (10 node bits), epoch 2021-01-01 (ms), the range of 2021-01-01 00:00:10 UTC … :20 -/
example :
    ((1609459210#64 * 1000#64) - 1609459200000#64).toNat < 2 ^ tsWidth 10#8 ∧
    (timeBetweenID 10#8 1609459200000#64 1609459210#64 1609459220#64) = (41943040000#64, 83890274303#64) := by decide

/-! ### the 24-character date form -/

/-- **round trip through the date form**: for the millisecond accessor, over any calendar that is lawful on a domain
    `D` of instants (`ofCivil ∘ toCivil = id`, year ≤ 9999, two/three-digit fields), every non-negative id whose
    instant lies in `D` has a 24-character date form that converts back to the identical id.
    (Seven digits suffice for the low part because it is < 2^22 < 10^7 — proved, `rest_toInt`.) -/
theorem cn_roundtrip {c : Cfg} (hc : Proved c) (cal : Calendar) (D : Int → Prop) (law : cal.Lawful D)
    {nb : BitVec 8} (hl : LayoutOk nb) (epoch id : BitVec 64) (hid : 0 ≤ id.toInt) (hD : D (cnMs nb epoch id).toInt) :
    fromChStyle c cal nb epoch (cnStyle cal nb epoch id) = some id :=
  (cn_roundtrip_aux hc cal D law hl epoch id hid hD).2

theorem cn_length {c : Cfg} (hc : Proved c) (cal : Calendar) (D : Int → Prop) (law : cal.Lawful D)
    {nb : BitVec 8} (hl : LayoutOk nb) (epoch id : BitVec 64) (hid : 0 ≤ id.toInt) (hD : D (cnMs nb epoch id).toInt) :
    (cnStyle cal nb epoch id).length = 24 :=
  (cn_roundtrip_aux hc cal D law hl epoch id hid hD).1

/-- the instant of a non-negative id under an epoch from 2000-01-01 on (and before the year 6429) lies in the calendar's
    domain 2000-01-01 … 9999-12-31 -/
theorem cnMs_inCalendar {nb : BitVec 8} (hl : LayoutOk nb) (epoch id : BitVec 64) (hid : 0 ≤ id.toInt)
    (he0 : 946684800000 ≤ epoch.toInt) (he1 : epoch.toInt ≤ 2 ^ 47) : InCalendar (cnMs nb epoch id).toInt := by
  have hid' := toNat_lt_of_toInt_nonneg hid
  have e : BitVec.sshiftRight id (nb + 12#8).toNat = (idFields id nb false).1 := rfl
  have hts := ts_toInt hl false hid'
  have hr := (idFields_ranges hl false hid').1
  have hW : 2 ^ tsWidth nb ≤ 2 ^ 43 := by rcases hl with rfl | rfl | rfl <;> decide
  have hlt : (idFields id nb false).1.toInt < 2 ^ 43 := by
    rw [toInt_eq_toNat_of_lt (by omega)]; omega
  have h0 : 0 ≤ (idFields id nb false).1.toInt := by rw [hts]; exact Int.natCast_nonneg _
  unfold cnMs InCalendar
  rw [e, BitVec.toInt_add, Int.bmod_eq_of_le (by omega) (by omega)]
  omega

/-- **round trip through the date form, concrete calendar**: with the millisecond accessor, for the calendar the oracle
    runs (`shanghai`: Asia/Shanghai as the fixed offset +08:00, proleptic Gregorian — proved lawful in
    `Nv/Proofs/C07Calendar.lean`), every layout, every epoch from 2000-01-01 on and every non-negative id:
    the date form has 24 characters and converts back to the identical id -/
theorem cn_roundtrip_shanghai {c : Cfg} (hc : Proved c) {nb : BitVec 8} (hl : LayoutOk nb) (epoch id : BitVec 64)
    (hid : 0 ≤ id.toInt) (he0 : 946684800000 ≤ epoch.toInt) (he1 : epoch.toInt ≤ 2 ^ 47) :
    (cnStyle shanghai nb epoch id).length = 24 ∧
    fromChStyle c shanghai nb epoch (cnStyle shanghai nb epoch id) = some id :=
  cn_roundtrip_aux hc shanghai InCalendar shanghai_lawful hl epoch id hid (cnMs_inCalendar hl epoch id hid he0 he1)

/-- distinct ids have distinct date forms (a batch of date forms identifies its ids; pure functions of the id, so this
    holds whatever else is formatted in between and from however many goroutines) -/
theorem cn_injective_shanghai {c : Cfg} (hc : Proved c) {nb : BitVec 8} (hl : LayoutOk nb) (epoch a b : BitVec 64)
    (ha : 0 ≤ a.toInt) (hb : 0 ≤ b.toInt) (he0 : 946684800000 ≤ epoch.toInt) (he1 : epoch.toInt ≤ 2 ^ 47)
    (h : cnStyle shanghai nb epoch a = cnStyle shanghai nb epoch b) : a = b := by
  have ra := (cn_roundtrip_shanghai hc hl epoch a ha he0 he1).2
  have rb := (cn_roundtrip_shanghai hc hl epoch b hb he0 he1).2
  rw [h, rb] at ra
  exact (Option.some.inj ra).symm

/-- **limit of the 24-character form**: past 9999-12-31 the year needs five digits. "All epochs from year 2000 on" has no
    upper end, and with an epoch of 10000-01-01T00:00:00Z the very first id is dated in the year 10000: its date form has 25
    characters and `FromChStyle` rejects it. The domain of `cn_roundtrip_shanghai` (`InCalendar`; epoch ≤ 2^47 ms ≈ year 6429,
    so that epoch + 2^43 ms stays before the year 10000) is therefore a real restriction. It is not reported as a violation:
    the clause speaks of "the 24-character date form", which does not exist for such an id. -/
theorem witness_year_10000 :
    (cnStyle shanghai 8#8 253402300800000#64 0#64).length = 25 ∧
    fromChStyle ⟨.unixMilli⟩ shanghai 8#8 253402300800000#64 (cnStyle shanghai 8#8 253402300800000#64 0#64) = none ∧
    ¬ InCalendar (cnMs 8#8 253402300800000#64 0#64).toInt := by decide

/-- non-vacuity of `cn_roundtrip`'s hypothesis: the instance and its domain -/
example : shanghai.Lawful InCalendar := shanghai_lawful
example : InCalendar 946684800000 ∧ InCalendar 253402271999999 ∧ ¬ InCalendar 253402272000000 := by decide

/-! ### non-vacuity -/

example : LayoutOk 8#8 ∧ 0 ≤ (9008925330102025984#64).toInt ∧
    idFields 9008925330102025984#64 8#8 false = (8591580705739#64, 255#64, 3840#64) := by decide
/-- an interval of ten seconds in 2023 under the default epoch, Node1024 -/
example : ((1700000000#64 * 1000#64) - 1609430400000#64).toNat < 2 ^ tsWidth 10#8 ∧
    timeBetweenID 10#8 1609430400000#64 1700000000#64 1700000010#64 = (379876435558400000#64, 379876477505634303#64) := by decide

/-- the instance `shanghai` satisfies the round-trip law at the edges the property names: 2000-01-01 (first epoch),
    a leap day, the last millisecond of 2262-04-11 UTC, 2299-12-31, 9999-12-31 -/
example : ∀ t ∈ [946684800000, 1709164800123, 9223372036854, 10413791999999, 253402271999999],
    (let c := shanghai.toCivil t; shanghai.ofCivil c.year c.month c.day c.hour c.minute c.second c.milli) = t := by decide
example : shanghai.toCivil 1709164800123 = ⟨2024, 2, 29, 8, 0, 0, 123⟩ := by decide

/-! ### the accessor found on today's tree: negation by witness (F05) -/

/-- `UnixNano()/MsDivNs` in `FromChStyle`: an id stamped 2293 (Node256 layout, inside the 43-bit width) does not
    survive the date form -/
theorem witness_unixNano_roundtrip :
    fromChStyle ⟨.unixNano⟩ shanghai 8#8 1609430400000#64 (cnStyle shanghai 8#8 1609430400000#64 9008925330102025984#64)
      = some 8112856289978089216#64 := by decide

/-- with the millisecond accessor the same id comes back -/
example : fromChStyle ⟨.unixMilli⟩ shanghai 8#8 1609430400000#64 (cnStyle shanghai 8#8 1609430400000#64 9008925330102025984#64)
      = some 9008925330102025984#64 := by decide

end Nv.C07
