import Nv.Model.C07
/-! C07 — property theorems (placeholder while the pipeline is wired). -/
namespace Nv.C07

/-- today's accessor: an id stamped 2293 (Node256 layout, inside the 43-bit width) does not survive the date form -/
theorem witness_unixNano_roundtrip :
    fromChStyle ⟨.unixNano⟩ shanghai 8#8 1609430400000#64 (cnStyle shanghai 8#8 1609430400000#64 9008925330102025984#64)
      = some 8112856289978089216#64 := by decide

end Nv.C07
