import Nv.Model.C12
/-!
C12 — property theorems for the queues (model: `Nv.Model.C12`).
-/
namespace Nv.C12

example : Proved Cfg.expected := by decide

/-- a closed pipe queue / MQ refuses every ordinary add -/
theorem q_closed_refuses_add (sh : Shape) (s : LQ) (x : Nat) (hsh : sh = Shape.expected) (hc : s.closed = true) :
    addReq sh s x = (s, .closed) := by
  subst hsh; simp [addReq, Shape.expected, hc]

end Nv.C12
