import Nv.Model.C12
import Nv.Proofs.C12Defs
import Nv.Proofs.C12Cons
import Nv.Proofs.C12Fifo
/-!
C12 — property theorems for the six queues (model: `Nv.Model.C12`).

The statements quantify over every queue state (any contents, any capacity, open or closed) and every operation /
operation sequence; `c` ranges over `Proved` (the shapes found in the source today).
-/
namespace Nv.C12

example : Proved Cfg.expected := by decide



/-! ### capacity: an ordinary add is refused exactly when the queue holds its capacity (0 = unbounded) -/

theorem q_full_iff (s : LQ) (x : Nat) (hc : s.closed = false) :
    ((addReq Shape.expected s x).2 = .full ↔ (0 < s.reqCap ∧ s.reqCap ≤ s.req.length)) ∧
    ((addReq Shape.expected s x).2 = .ok ↔ ¬ (0 < s.reqCap ∧ s.reqCap ≤ s.req.length)) := by
  unfold addReq fullAt
  by_cases h1 : 0 < s.reqCap <;> by_cases h2 : s.reqCap ≤ s.req.length <;> simp [Shape.expected, hc, h1, h2]

theorem mq_ctrl_full_iff (s : LQ) (x : Nat) (hc : s.closed = false) :
    ((addCtrl Shape.expected s x).2 = .ctrlFull ↔ (0 < s.ctrlCap ∧ s.ctrlCap ≤ s.ctrl.length)) ∧
    ((addCtrl Shape.expected s x).2 = .ok ↔ ¬ (0 < s.ctrlCap ∧ s.ctrlCap ≤ s.ctrl.length)) := by
  unfold addCtrl fullAt
  by_cases h1 : 0 < s.ctrlCap <;> by_cases h2 : s.ctrlCap ≤ s.ctrl.length <;> simp [Shape.expected, hc, h1, h2]

/-- a prior add is never refused for capacity: on an open queue it always succeeds and goes to the front -/
theorem q_prior_unbounded (s : LQ) (x : Nat) (hc : s.closed = false) :
    addPrior Shape.expected s x = ({ s with req := x :: s.req }, .ok) ∧
    addPriorCtrl Shape.expected s x = ({ s with ctrl := x :: s.ctrl }, .ok) := by
  simp [addPrior, addPriorCtrl, Shape.expected, hc]

/-- an accepted ordinary add goes to the back -/
theorem q_add_back (s : LQ) (x : Nat) (h : (addReq Shape.expected s x).2 = .ok) :
    (addReq Shape.expected s x).1 = { s with req := s.req ++ [x] } := by
  unfold addReq at h ⊢
  simp only [Shape.expected, if_true] at h ⊢
  split at h <;> try (simp at h)
  split at h <;> try (simp at h)
  rename_i h1 h2; simp [h1, h2]

theorem mq_addCtrl_back (s : LQ) (x : Nat) (h : (addCtrl Shape.expected s x).2 = .ok) :
    (addCtrl Shape.expected s x).1 = { s with ctrl := s.ctrl ++ [x] } := by
  unfold addCtrl at h ⊢
  simp only [Shape.expected, if_true] at h ⊢
  split at h <;> try (simp at h)
  split at h <;> try (simp at h)
  rename_i h1 h2; simp [h1, h2]

/-! ### close semantics -/

/-- a closed pipe queue / MQ refuses every add, leaving the state unchanged (even when it is also full) -/
theorem q_closed_refuses (s : LQ) (x : Nat) (hc : s.closed = true) :
    addReq Shape.expected s x = (s, .closed) ∧ addPrior Shape.expected s x = (s, .closed) ∧
    addCtrl Shape.expected s x = (s, .closed) ∧ addPriorCtrl Shape.expected s x = (s, .closed) := by
  simp [addReq, addPrior, addCtrl, addPriorCtrl, Shape.expected, hc]

/-- a closed SyncQueue silently drops every push -/
theorem syncq_closed_drops (s : LQ) (x : Nat) (hc : s.closed = true) :
    stepSync SyncShape.expected s (.add x) = (s, .ok) := by
  simp [stepSync, syncPush, SyncShape.expected, hc]

/-- after close, `Pop` fails even if items remain (state unchanged) -/
theorem q_pop_after_close (s : LQ) (hc : s.closed = true) : popNow Shape.expected false s = some (s, .closed) := by
  unfold popNow
  cases s.isEmpty <;> simp [Shape.expected, hc]

/-- `PopAnyway` hands out the next item whether or not the queue is closed; on an empty queue: closed → `closed`,
    open → the caller blocks -/
theorem q_popAnyway_spec (s : LQ) :
    popNow Shape.expected true s =
      match s.ctrl, s.req with
      | c :: cs, _ => some ({ s with ctrl := cs }, .val c)
      | [], r :: rs => some ({ s with req := rs }, .val r)
      | [], [] => if s.closed then some (s, .closed) else none := by
  unfold popNow takeFront LQ.isEmpty
  cases hc : s.ctrl <;> cases hr : s.req <;> simp [Shape.expected]

/-- on an open queue `Pop` behaves like `PopAnyway` -/
theorem q_pop_open (s : LQ) (hc : s.closed = false) : popNow Shape.expected false s = popNow Shape.expected true s := by
  unfold popNow; simp [hc]

/-- draining with `PopAnyway`: all control items in order, then all request items in order, then `closed` -/
def drainAnyway : Nat → LQ → List Out
  | 0, _ => []
  | n + 1, s => match popNow Shape.expected true s with
    | some r => r.2 :: drainAnyway n r.1
    | none => [.wouldBlock]

theorem q_drain_after_close (s : LQ) (hc : s.closed = true) :
    drainAnyway (s.ctrl.length + s.req.length + 1) s = (s.ctrl ++ s.req).map .val ++ [.closed] := by
  obtain ⟨k, ctrl, req, cc, rc, cl, clr⟩ := s
  simp only at hc; subst hc
  induction ctrl with
  | nil =>
    induction req with
    | nil => simp [drainAnyway, q_popAnyway_spec]
    | cons r rs ih =>
      simp only [List.length_nil, Nat.zero_add, List.length_cons, List.nil_append, List.map_cons, List.cons_append]
      simp only [List.length_nil, Nat.zero_add, List.nil_append] at ih
      rw [drainAnyway, q_popAnyway_spec]
      simp only
      rw [ih]
  | cons c cs ih =>
    have : (c :: cs).length + req.length + 1 = (cs.length + req.length + 1) + 1 := by simp; omega
    rw [this, drainAnyway, q_popAnyway_spec]
    simp only [List.cons_append, List.map_cons]
    rw [ih]

/-- MQ: control messages before requests — whenever a control item is queued, the next pop returns the oldest
    control item, whatever the request list holds -/
theorem mq_ctrl_first (s : LQ) (c : Nat) (cs : List Nat) (hs : s.ctrl = c :: cs) (anyway : Bool)
    (ho : anyway = true ∨ s.closed = false) :
    popNow Shape.expected anyway s = some ({ s with ctrl := cs }, .val c) := by
  unfold popNow takeFront LQ.isEmpty
  rcases ho with h | h <;> simp [Shape.expected, hs, h]

/-- SyncQueue: `Pop`/`TryPop` hand out the remaining items in order after close, and only then report closed -/
theorem syncq_drain_spec (s : LQ) :
    syncPopNow s = (match s.req with
      | x :: r => some ({ s with req := r }, .val x)
      | [] => if s.closed then some (s, .nil) else none) ∧
    syncTryPop SyncShape.expected s = (match s.req with
      | x :: r => ({ s with req := r }, .val x)
      | [] => if s.closed then (s, .closed) else (s, .none)) := by
  unfold syncPopNow syncTryPop
  cases s.req <;> simp [SyncShape.expected]

/-- try-close succeeds exactly when the queue is empty (an already closed queue reports true) -/
theorem mq_tryclose_iff (s : LQ) (hc : s.closed = false) :
    ((tryClose s).2 = .bool true ↔ (s.ctrl = [] ∧ s.req = [])) ∧
    ((tryClose s).1.closed = true ↔ (s.ctrl = [] ∧ s.req = [])) ∧
    ((tryClose s).2 = .bool true ∨ (tryClose s).2 = .bool false) := by
  unfold tryClose LQ.isEmpty
  cases h1 : s.ctrl <;> cases h2 : s.req <;> simp [hc]

theorem mq_tryclose_closed (s : LQ) (hc : s.closed = true) : tryClose s = (s, .bool true) := by
  simp [tryClose, hc]

/-- try-clear succeeds exactly when the queue is closed and empty (an already cleared queue reports true) -/
theorem mq_tryclear_iff (s : LQ) (hc : s.cleared = false) :
    ((tryClear s).2 = .bool true ↔ (s.closed = true ∧ s.ctrl = [] ∧ s.req = [])) ∧
    ((tryClear s).1.cleared = true ↔ (s.closed = true ∧ s.ctrl = [] ∧ s.req = [])) := by
  unfold tryClear LQ.isEmpty
  cases h0 : s.closed <;> cases h1 : s.ctrl <;> cases h2 : s.req <;> simp [hc]

/-! ### FIFO over histories (pipe queues): adds at the back, prior adds at the front, pops from the front -/

/-- ordinary adds on an open unbounded queue are all accepted and queue up at the back in call order -/
theorem q_run_adds (b : Kind) (xs : List Nat) (s : LQ) (hc : s.closed = false) (hu : s.reqCap = 0) :
    runOps (stepPipe Shape.expected b) s (xs.map .add) = ({ s with req := s.req ++ xs }, xs.map (fun _ => .ok)) := by
  induction xs generalizing s with
  | nil => simp [runOps]
  | cons x xs ih =>
    have h1 : stepPipe Shape.expected b s (.add x) = ({ s with req := s.req ++ [x] }, .ok) := by
      simp [stepPipe, addReq, Shape.expected, hc, hu, fullAt]
    simp only [List.map_cons, runOps, h1]
    rw [ih { s with req := s.req ++ [x] } hc hu]
    simp

/-- prior adds are accepted whatever the bound and end up in front, the latest first -/
theorem q_run_priors (b : Kind) (xs : List Nat) (s : LQ) (hc : s.closed = false) :
    runOps (stepPipe Shape.expected b) s (xs.map .prior) = ({ s with req := xs.reverse ++ s.req }, xs.map (fun _ => .ok)) := by
  induction xs generalizing s with
  | nil => simp [runOps]
  | cons x xs ih =>
    have h1 : stepPipe Shape.expected b s (.prior x) = ({ s with req := x :: s.req }, .ok) := by
      simp [stepPipe, addPrior, Shape.expected, hc]
    simp only [List.map_cons, runOps, h1]
    rw [ih { s with req := x :: s.req } hc]
    simp

/-- `n` pops (`Pop` on an open queue, or `PopAnyway` on any) hand out the first `n` queued items in queue order -/
theorem q_run_pops (b : Kind) (op : Op) (n : Nat) (s : LQ) (hs : s.ctrl = []) (hn : n ≤ s.req.length)
    (hop : (op = .pop ∧ s.closed = false) ∨ op = .popAnyway) :
    runOps (stepPipe Shape.expected b) s (List.replicate n op) =
      ({ s with req := s.req.drop n }, (s.req.take n).map .val) := by
  induction n generalizing s with
  | zero => simp [runOps]
  | succ n ih =>
    cases hr : s.req with
    | nil => rw [hr] at hn; simp at hn
    | cons x r =>
      have h1 : stepPipe Shape.expected b s op = ({ s with req := r }, .val x) := by
        rcases hop with ⟨rfl, hc⟩ | rfl <;>
          simp [stepPipe, popNow, takeFront, orBlock, LQ.isEmpty, Shape.expected, *]
      simp only [List.replicate_succ, runOps, h1]
      rw [ih { s with req := r } hs (by rw [hr] at hn; simp at hn ⊢; omega) (by
        rcases hop with ⟨h, hc⟩ | h
        · exact Or.inl ⟨h, hc⟩
        · exact Or.inr h)]
      simp

/-- **FIFO.** From an empty open unbounded pipe queue: ordinary adds `xs`, prior adds `ps`, then pops — the pops
    hand out the prior items latest-first, then `xs` in call order. -/
theorem q_fifo (b : Kind) (xs ps : List Nat) (n : Nat) (k : Kind) (hn : n ≤ ps.length + xs.length) :
    outs (stepPipe Shape.expected b) (LQ.new k 0 0) (xs.map .add ++ ps.map .prior ++ List.replicate n .pop) =
      xs.map (fun _ => .ok) ++ ps.map (fun _ => .ok) ++ ((ps.reverse ++ xs).take n).map .val := by
  have e1 := q_run_adds b xs (LQ.new k 0 0) rfl rfl
  have e2 := q_run_priors b ps { LQ.new k 0 0 with req := (LQ.new k 0 0).req ++ xs } rfl
  have e3 := q_run_pops b .pop n { LQ.new k 0 0 with req := ps.reverse ++ ((LQ.new k 0 0).req ++ xs) } rfl
    (by simp [LQ.new]; omega) (Or.inl ⟨rfl, rfl⟩)
  have fA : final (stepPipe Shape.expected b) (LQ.new k 0 0) (xs.map .add) =
      { LQ.new k 0 0 with req := (LQ.new k 0 0).req ++ xs } := by simp [final, e1]
  have fB : final (stepPipe Shape.expected b) (LQ.new k 0 0) (xs.map .add ++ ps.map .prior) =
      { LQ.new k 0 0 with req := ps.reverse ++ ((LQ.new k 0 0).req ++ xs) } := by
    rw [final_append, fA]; simp [final, e2]
  rw [outs_append, outs_append, fB, fA]
  simp only [outs, e1, e2, e3]
  simp [LQ.new]

/-! ### conservation: nothing is lost, duplicated or invented -/

def addedIn (y : Nat) : LQ → List Op → Nat
  | _, [] => 0
  | s, op :: r => addCount y s op (step Cfg.expected s op).2 + addedIn y (step Cfg.expected s op).1 r

def poppedIn (y : Nat) : LQ → List Op → Nat
  | _, [] => 0
  | s, op :: r => popCount y (step Cfg.expected s op).2 + poppedIn y (step Cfg.expected s op).1 r

/-- **Conservation.** For every history on every list queue and every item value `y`: what is in the queue at the
    end plus what was handed out equals what was there at the start plus what was accepted. -/
theorem q_conservation (c : Cfg) (hc : Proved c) (ops : List Op) (s : LQ) (y : Nat) :
    (final (step c) s ops).items.count y + poppedIn y s ops = s.items.count y + addedIn y s ops := by
  cases hc
  induction ops generalizing s with
  | nil => simp [poppedIn, addedIn]
  | cons op r ih =>
    have h1 := step_conservation s op y
    have h2 := ih (step Cfg.expected s op).1
    simp only [final_cons, poppedIn, addedIn]
    omega

/-! ### FIFO for every history

For every history without front insertions (no prior add; for MQ no control traffic) — any mix of adds, `*Anyway`
adds, refused adds, `Pop`, `PopAnyway`, closes, try-closes … from ANY state (any contents, any bound, open or
closed): the sequence of items handed out, followed by what is still queued, IS the initial content followed by the
accepted adds in acceptance order. So the handed-out sequence is always a prefix of `initial ++ accepted`: first in,
first out, nothing lost, duplicated or reordered. (A prior add goes to the very front in every state:
`q_prior_unbounded`; MQ control items always come first: `mq_ctrl_first`.) -/

def poppedSeq (c : Cfg) : LQ → List Op → List Nat
  | _, [] => []
  | s, op :: r => poppedOf (step c s op).2 ++ poppedSeq c (step c s op).1 r

def acceptedSeq (c : Cfg) : LQ → List Op → List Nat
  | _, [] => []
  | s, op :: r => acceptedOf s op (step c s op).2 ++ acceptedSeq c (step c s op).1 r

/-- **FIFO, every history**: handed out ++ still queued = initially queued ++ accepted (in acceptance order) -/
theorem q_fifo_history (c : Cfg) (hp : Proved c) (ops : List Op) (s : LQ) (hc : s.ctrl = [])
    (hops : ∀ op ∈ ops, noFront op = true) :
    poppedSeq c s ops ++ (final (step c) s ops).req = s.req ++ acceptedSeq c s ops := by
  cases hp
  induction ops generalizing s with
  | nil => simp [poppedSeq, acceptedSeq]
  | cons op r ih =>
    have h1 := step_fifo s op hc (hops op (by simp))
    have h2 := ih (step Cfg.expected s op).1 h1.1 (fun o ho => hops o (by simp [ho]))
    simp only [poppedSeq, acceptedSeq, final_cons, List.append_assoc]
    rw [h2, ← List.append_assoc, h1.2.2, List.append_assoc]

/-- hence: what has been handed out so far is a prefix of `initial ++ accepted` -/
theorem q_fifo_prefix (c : Cfg) (hp : Proved c) (ops : List Op) (s : LQ) (hc : s.ctrl = [])
    (hops : ∀ op ∈ ops, noFront op = true) : poppedSeq c s ops <+: s.req ++ acceptedSeq c s ops :=
  ⟨_, q_fifo_history c hp ops s hc hops⟩

/-! ### capacity over histories — also what the parallel stress class checks on the real code

Every label of the concurrent system (C13) is one of these functions executed as one uninterrupted critical section
(`Cfg.sectionsAtomic`, `Facts.lockCovered`), so a statement about all sequences of steps is a statement about all
interleavings of whole calls. -/

/-- a bounded request list never holds more than its capacity -/
def Bounded (s : LQ) : Prop := 0 < s.reqCap → s.req.length ≤ s.reqCap

theorem addReq_bounded (s : LQ) (x : Nat) (h : Bounded s) : Bounded (addReq Shape.expected s x).1 := by
  rcases addReq_cases s x with e | e | e
  · rw [e]
    have hok : (addReq Shape.expected s x).2 = .ok := by rw [e]
    have hnf := ((q_full_iff s x (by
      unfold addReq at hok; simp only [Shape.expected, if_true] at hok
      cases hc : s.closed <;> simp [hc] at hok ⊢)).2.1 hok)
    intro hp
    simp only [List.length_append, List.length_cons, List.length_nil]
    have := h hp
    simp only at hp
    omega
  · rw [e]; exact h
  · rw [e]; exact h

theorem popNow_bounded (a : Bool) (s t : LQ) (o : Out) (h : Bounded s) (hp : popNow Shape.expected a s = some (t, o)) :
    Bounded t ∧ t.reqCap = s.reqCap := by
  unfold popNow takeFront at hp
  simp only [Shape.expected, if_true] at hp
  split at hp
  · split at hp <;> simp at hp
    obtain ⟨rfl, _⟩ := hp; exact ⟨h, rfl⟩
  · split at hp
    · simp at hp; obtain ⟨rfl, _⟩ := hp; exact ⟨h, rfl⟩
    · cases hc : s.ctrl <;> cases hr : s.req <;> simp [hc, hr] at hp
      all_goals obtain ⟨rfl, _⟩ := hp
      all_goals first
        | exact ⟨h, rfl⟩
        | (refine ⟨fun hpos => ?_, rfl⟩
           have := h hpos
           simp [hr] at this ⊢
           try omega)

theorem drainFor_bounded (x : Nat) : ∀ (n : Nat) (s : LQ) (acc : List Nat), Bounded s →
    Bounded (drainFor (fun t => addReq Shape.expected t x) (popNow Shape.expected true) n s acc).1
  | 0, s, acc, h => by simpa [drainFor] using h
  | n + 1, s, acc, h => by
    unfold drainFor
    split
    · rename_i s' v hp
      have hb := (popNow_bounded true s s' (.val v) h hp).1
      by_cases hf : isFullOut (addReq Shape.expected s' x).2 = true
      · simp only [hf, if_true]
        exact drainFor_bounded x n s' (v :: acc) hb
      · simp only [hf, Bool.false_eq_true, if_false]
        exact addReq_bounded s' x hb
    · exact h

/-- **Capacity, every history**: starting within the bound, no sequence of ordinary adds, `*Anyway` adds, pops, closes,
    try-closes … (anything but a prior add, which bypasses the bound by design) ever exceeds it — for the pipe queues. -/
theorem q_capacity_history (k : Kind) (ops : List Op) (s : LQ) (h : Bounded s)
    (hops : ∀ op ∈ ops, ∀ x, op ≠ .prior x) : Bounded (final (stepPipe Shape.expected k) s ops) := by
  induction ops generalizing s with
  | nil => exact h
  | cons op r ih =>
    simp only [final_cons]
    apply ih _ _ (fun o ho => hops o (by simp [ho]))
    have hnp := hops op (by simp)
    cases op with
    | add x => exact addReq_bounded s x h
    | prior x => exact absurd rfl (hnp x)
    | addAny x rp =>
      simp only [stepPipe, addAnyway]
      split
      · exact addReq_bounded s x h
      · split
        · exact drainFor_bounded x _ s [] h
        · exact addReq_bounded (closeQ s) x h
    | pop =>
      simp only [stepPipe, orBlock]
      cases hp : popNow Shape.expected false s with
      | none => exact h
      | some r => exact (popNow_bounded false s r.1 r.2 h hp).1
    | popAnyway =>
      simp only [stepPipe, orBlock]
      cases hp : popNow Shape.expected true s with
      | none => exact h
      | some r => exact (popNow_bounded true s r.1 r.2 h hp).1
    | close => exact h
    | isClosed => simp only [stepPipe]; split <;> exact h
    | size => simp only [stepPipe]; split <;> exact h
    | waitClose => simp only [stepPipe]; split <;> exact h
    | _ => exact h

/-! ### PriQueue -/

/-- `m` pops no later than `e`: higher priority, or the same priority and pushed no later -/
def Before (m e : Entry) : Prop := e.prio < m.prio ∨ (e.prio = m.prio ∧ m.seq ≤ e.seq)

theorem before_refl (m : Entry) : Before m m := Or.inr ⟨rfl, Nat.le_refl _⟩

theorem before_trans {a b c : Entry} (h1 : Before a b) (h2 : Before b c) : Before a c := by
  unfold Before at *; omega

theorem less_true {e b : Entry} (h : less PriShape.expected e b = true) : Before e b := by
  unfold less at h; unfold Before
  simp only [PriShape.expected, if_true] at h
  split at h <;> simp at h <;> omega

theorem less_false {e b : Entry} (h : less PriShape.expected e b = false) : Before b e := by
  unfold less at h; unfold Before
  simp only [PriShape.expected, if_true] at h
  split at h <;> simp at h <;> omega

theorem best_spec (b : Entry) (l : List Entry) :
    Before (best PriShape.expected b l) b ∧ (∀ e ∈ l, Before (best PriShape.expected b l) e) ∧
    (best PriShape.expected b l = b ∨ best PriShape.expected b l ∈ l) := by
  induction l generalizing b with
  | nil => exact ⟨before_refl b, (fun _ h => nomatch h), Or.inl rfl⟩
  | cons e r ih =>
    simp only [best]
    cases hl : less PriShape.expected e b with
    | true =>
      have := ih e
      simp only [if_true]
      refine ⟨before_trans this.1 (less_true hl), fun x hx => ?_, ?_⟩
      · rcases List.mem_cons.1 hx with rfl | hx
        · exact this.1
        · exact this.2.1 x hx
      · rcases this.2.2 with h | h
        · right; rw [h]; exact List.mem_cons_self
        · right; exact List.mem_cons_of_mem _ h
    | false =>
      have := ih b
      simp only [Bool.false_eq_true, if_false]
      refine ⟨this.1, fun x hx => ?_, ?_⟩
      · rcases List.mem_cons.1 hx with rfl | hx
        · exact before_trans this.1 (less_false hl)
        · exact this.2.1 x hx
      · rcases this.2.2 with h | h
        · left; exact h
        · right; exact List.mem_cons_of_mem _ h

/-- **Priority order.** `Pop` returns nil exactly on an empty queue; otherwise it removes an entry of the queue
    that no other entry precedes: no entry has a higher priority, and none of the same priority was pushed earlier. -/
theorem priq_order (s : PQ) :
    (s.entries = [] → pqPop PriShape.expected s = (s, none)) ∧
    (s.entries ≠ [] → ∃ m, (pqPop PriShape.expected s).2 = some m ∧ m ∈ s.entries ∧
      (pqPop PriShape.expected s).1 = { s with entries := s.entries.erase m } ∧
      ∀ e ∈ s.entries, e.prio < m.prio ∨ (e.prio = m.prio ∧ m.seq ≤ e.seq)) := by
  unfold pqPop
  cases he : s.entries with
  | nil => simp
  | cons b l =>
    refine ⟨(fun h => nomatch h), fun _ => ⟨best PriShape.expected b l, rfl, ?_, rfl, ?_⟩⟩
    · rcases (best_spec b l).2.2 with h | h
      · rw [h]; exact List.mem_cons_self
      · exact List.mem_cons_of_mem _ h
    · intro e hm
      rcases List.mem_cons.1 hm with rfl | hm
      · exact (best_spec e l).1
      · exact (best_spec b l).2.1 e hm

/-- a bounded priority queue refuses a push exactly when it already holds its capacity; an accepted push appends an
    entry stamped with the next sequence number -/
theorem priq_full_iff (s : PQ) (x : Nat) (p : Int) :
    ((pqPush PriShape.expected s x p).2 = .full ↔ s.cap ≤ (s.entries.length : Int)) ∧
    (¬ s.cap ≤ (s.entries.length : Int) →
      pqPush PriShape.expected s x p = ({ s with curSeq := s.curSeq + 1, entries := s.entries ++ [⟨p, s.curSeq + 1, x⟩] }, .ok)) := by
  unfold pqPush pqFull
  by_cases h : s.cap ≤ (s.entries.length : Int) <;> simp [PriShape.expected, h]

/-- sequence numbers are fresh: every queued entry was stamped no later than `curSeq`, and stamps are distinct -/
def PWF (s : PQ) : Prop := (∀ e ∈ s.entries, e.seq ≤ s.curSeq) ∧ (s.entries.map (·.seq)).Nodup

theorem priq_wf_step (s : PQ) (op : POp) (h : PWF s) : PWF (pstep PriShape.expected s op).1 := by
  cases op with
  | push x p =>
    simp only [pstep]
    by_cases hf : s.cap ≤ (s.entries.length : Int)
    · have : pqPush PriShape.expected s x p = (s, .full) := by simp [pqPush, pqFull, PriShape.expected, hf]
      rw [this]; exact h
    · rw [(priq_full_iff s x p).2 hf]
      refine ⟨fun e he => ?_, ?_⟩
      · simp only [List.mem_append, List.mem_singleton] at he
        rcases he with he | rfl
        · have := h.1 e he; simp only; omega
        · simp
      · simp only [List.map_append, List.map_cons, List.map_nil]
        rw [List.nodup_append]
        refine ⟨h.2, by simp, fun a ha b hb => ?_⟩
        simp only [List.mem_singleton] at hb
        obtain ⟨e, he, rfl⟩ := List.mem_map.1 ha
        have := h.1 e he
        omega
  | pop =>
    have hp : (pstep PriShape.expected s .pop).1 = (pqPop PriShape.expected s).1 := by
      simp only [pstep]; split <;> rename_i h1 <;> rw [h1]
    rw [hp]
    cases he : s.entries with
    | nil =>
      have := (priq_order s).1 he
      rw [this]; exact h
    | cons b l =>
      obtain ⟨m, hm, _, hs, _⟩ := (priq_order s).2 (by rw [he]; simp)
      have hsub : ((pqPop PriShape.expected s).1.entries).Sublist s.entries := by rw [hs]; exact List.erase_sublist
      have hcs : (pqPop PriShape.expected s).1.curSeq = s.curSeq := by rw [hs]
      exact ⟨fun e he' => by rw [hcs]; exact h.1 e (hsub.subset he'), (hsub.map _).nodup h.2⟩
  | len => exact h

/-- FIFO among equal priorities, over every history: the invariant holds after any operation sequence, so an entry
    pushed later carries a strictly larger stamp than every entry queued at that time (and `priq_order` then pops the
    earlier one first among equal priorities) -/
theorem priq_wf_run (cap : Int) (ops : List POp) : PWF (final (pstep PriShape.expected) (PQ.new cap) ops) :=
  final_inv (pstep PriShape.expected) PWF (fun _ => True) (fun s i h _ => priq_wf_step s i h) ops _
    ⟨(fun _ h => nomatch h), by simp [PQ.new]⟩ (fun _ _ => trivial)

/-- the stamp `curSeq + 1` given to the next accepted push is larger than every stamp in the queue -/
theorem priq_push_is_latest (s : PQ) (h : PWF s) :
    ∀ e ∈ s.entries, e.seq < (s.curSeq + 1) := fun e he => Nat.lt_succ_of_le (h.1 e he)

/-! ### PriQueue over histories: FIFO among equal priorities (stated without stamps) and conservation -/

/-- the queue lists its entries in push order: stamps strictly increase along `entries` and are bounded by `curSeq` -/
def PSorted (s : PQ) : Prop := (s.entries.map (·.seq)).Pairwise (· < ·) ∧ ∀ e ∈ s.entries, e.seq ≤ s.curSeq

theorem psorted_step (s : PQ) (op : POp) (h : PSorted s) : PSorted (pstep PriShape.expected s op).1 := by
  cases op with
  | push x p =>
    simp only [pstep]
    by_cases hf : s.cap ≤ (s.entries.length : Int)
    · have : pqPush PriShape.expected s x p = (s, .full) := by simp [pqPush, pqFull, PriShape.expected, hf]
      rw [this]; exact h
    · rw [(priq_full_iff s x p).2 hf]
      refine ⟨?_, fun e he => ?_⟩
      · simp only [List.map_append, List.map_cons, List.map_nil]
        rw [List.pairwise_append]
        refine ⟨h.1, by simp, fun a ha b hb => ?_⟩
        simp only [List.mem_singleton] at hb
        obtain ⟨e, he, rfl⟩ := List.mem_map.1 ha
        have := h.2 e he
        omega
      · simp only [List.mem_append, List.mem_singleton] at he
        rcases he with he | rfl
        · have := h.2 e he; simp only; omega
        · simp
  | pop =>
    have hp : (pstep PriShape.expected s .pop).1 = (pqPop PriShape.expected s).1 := by
      simp only [pstep]; split <;> rename_i h1 <;> rw [h1]
    rw [hp]
    cases he : s.entries with
    | nil => rw [(priq_order s).1 he]; exact h
    | cons b l =>
      obtain ⟨m, _, _, hs, _⟩ := (priq_order s).2 (by rw [he]; simp)
      have hsub : ((pqPop PriShape.expected s).1.entries).Sublist s.entries := by rw [hs]; exact List.erase_sublist
      have hcs : (pqPop PriShape.expected s).1.curSeq = s.curSeq := by rw [hs]
      exact ⟨h.1.sublist (hsub.map _), fun e he' => by rw [hcs]; exact h.2 e (hsub.subset he')⟩
  | len => exact h

/-- push order is kept by every history -/
theorem psorted_run (cap : Int) (ops : List POp) : PSorted (final (pstep PriShape.expected) (PQ.new cap) ops) :=
  final_inv (pstep PriShape.expected) PSorted (fun _ => True) (fun s i h _ => psorted_step s i h) ops _
    ⟨by simp [PQ.new], (fun _ h => nomatch h)⟩ (fun _ _ => trivial)

/-- **Highest priority first, FIFO among equal priorities.** `entries` lists the queued items in push order (an
    accepted push appends: `priq_full_iff`). `Pop` on a non-empty queue splits it as `pre ++ m :: post` and removes
    `m`, where everything pushed before `m` has a strictly lower priority and nothing pushed after it has a higher one:
    among the items of the highest priority, the one pushed first comes out. -/
theorem priq_pop_first_of_max (s : PQ) (hs : PSorted s) (hne : s.entries ≠ []) :
    ∃ pre m post, s.entries = pre ++ m :: post ∧ (pqPop PriShape.expected s).2 = some m ∧
      (pqPop PriShape.expected s).1 = { s with entries := pre ++ post } ∧
      (∀ e ∈ pre, e.prio < m.prio) ∧ (∀ e ∈ post, e.prio ≤ m.prio) := by
  obtain ⟨m, hm, hmem, hst, hord⟩ := (priq_order s).2 hne
  obtain ⟨pre, post, hsplit⟩ := List.append_of_mem hmem
  have hpw := hs.1
  rw [hsplit] at hpw
  simp only [List.map_append, List.map_cons, List.pairwise_append, List.pairwise_cons, List.mem_map,
    List.mem_cons] at hpw
  have hpre : ∀ e ∈ pre, e.seq < m.seq := fun e he => hpw.2.2 e.seq ⟨e, he, rfl⟩ m.seq (Or.inl rfl)
  have hnot : m ∉ pre := fun h => Nat.lt_irrefl _ (hpre m h)
  refine ⟨pre, m, post, hsplit, hm, ?_, fun e he => ?_, fun e he => ?_⟩
  · rw [hst, hsplit, List.erase_append_right _ hnot, List.erase_cons_head]
  · have := hord e (by rw [hsplit]; simp [he])
    have := hpre e he
    omega
  · have := hord e (by rw [hsplit]; simp [he])
    omega

/-- … in every state any history can reach -/
theorem priq_fifo_among_equals (cap : Int) (ops : List POp)
    (hne : (final (pstep PriShape.expected) (PQ.new cap) ops).entries ≠ []) :
    ∃ pre m post, (final (pstep PriShape.expected) (PQ.new cap) ops).entries = pre ++ m :: post ∧
      (pstep PriShape.expected (final (pstep PriShape.expected) (PQ.new cap) ops) .pop).2 = .val m.item ∧
      (pstep PriShape.expected (final (pstep PriShape.expected) (PQ.new cap) ops) .pop).1.entries = pre ++ post ∧
      (∀ e ∈ pre, e.prio < m.prio) ∧ (∀ e ∈ post, e.prio ≤ m.prio) := by
  obtain ⟨pre, m, post, h1, h2, h3, h4, h5⟩ := priq_pop_first_of_max _ (psorted_run cap ops) hne
  refine ⟨pre, m, post, h1, ?_, ?_, h4, h5⟩
  · simp only [pstep]; split <;> rename_i heq <;> rw [heq] at h2 <;> simp at h2 ⊢; rw [h2]
  · simp only [pstep]; split <;> rename_i heq <;> rw [heq] at h3 <;> simp at h3 ⊢ <;> rw [h3]

theorem split_first {α : Type} [DecidableEq α] (a : α) : ∀ (l : List α), a ∈ l →
    ∃ pre post, l = pre ++ a :: post ∧ a ∉ pre
  | [], h => nomatch h
  | x :: r, h => by
    by_cases hx : x = a
    · exact ⟨[], r, by simp [hx], by simp⟩
    · have hr : a ∈ r := by
        rcases List.mem_cons.1 h with h1 | h1
        · exact absurd h1.symm hx
        · exact h1
      obtain ⟨pre, post, h1, h2⟩ := split_first a r hr
      exact ⟨x :: pre, post, by simp [h1], by simp [h2, Ne.symm hx]⟩

def pitems (s : PQ) : List Nat := s.entries.map (·.item)

def ppopCount (y : Nat) : Out → Nat
  | .val v => if v = y then 1 else 0
  | _ => 0

def ppushCount (y : Nat) (op : POp) (o : Out) : Nat :=
  match op with
  | .push x _ => if x = y ∧ o = .ok then 1 else 0
  | _ => 0

theorem pstep_conservation (s : PQ) (op : POp) (y : Nat) :
    (pitems (pstep PriShape.expected s op).1).count y + ppopCount y (pstep PriShape.expected s op).2 =
      (pitems s).count y + ppushCount y op (pstep PriShape.expected s op).2 := by
  cases op with
  | push x p =>
    simp only [pstep]
    by_cases hf : s.cap ≤ (s.entries.length : Int)
    · have : pqPush PriShape.expected s x p = (s, .full) := by simp [pqPush, pqFull, PriShape.expected, hf]
      rw [this]; simp [ppopCount, ppushCount]
    · rw [(priq_full_iff s x p).2 hf]
      by_cases hx : x = y <;> simp [pitems, ppopCount, ppushCount, List.count_append, hx]
  | pop =>
    cases he : s.entries with
    | nil =>
      have h0 := (priq_order s).1 he
      simp only [pstep, h0]; simp [ppopCount, ppushCount]
    | cons b l =>
      obtain ⟨m, hm, hmem, hst, _⟩ := (priq_order s).2 (by rw [he]; simp)
      have hpair : pqPop PriShape.expected s = ({ s with entries := s.entries.erase m }, some m) := by
        rw [← hm, ← hst]
      simp only [pstep, hpair, pitems, ppopCount, ppushCount]
      obtain ⟨pre, post, hsplit, hnot⟩ := split_first m s.entries hmem
      rw [hsplit, List.erase_append_right _ hnot, List.erase_cons_head]
      by_cases hv : m.item = y <;> simp [List.count_append, hv] <;> omega
  | len => simp [pstep, ppopCount, ppushCount]

def ppoppedIn (y : Nat) : PQ → List POp → Nat
  | _, [] => 0
  | s, op :: r => ppopCount y (pstep PriShape.expected s op).2 + ppoppedIn y (pstep PriShape.expected s op).1 r

def ppushedIn (y : Nat) : PQ → List POp → Nat
  | _, [] => 0
  | s, op :: r => ppushCount y op (pstep PriShape.expected s op).2 + ppushedIn y (pstep PriShape.expected s op).1 r

/-- **PriQueue conservation**, every history, every item value: queued at the end + handed out = queued at the start +
    accepted pushes -/
theorem priq_conservation (ops : List POp) (s : PQ) (y : Nat) :
    (pitems (final (pstep PriShape.expected) s ops)).count y + ppoppedIn y s ops =
      (pitems s).count y + ppushedIn y s ops := by
  induction ops generalizing s with
  | nil => simp [ppoppedIn, ppushedIn]
  | cons op r ih =>
    have h1 := pstep_conservation s op y
    have h2 := ih (pstep PriShape.expected s op).1
    simp only [final_cons, ppoppedIn, ppushedIn]
    omega

/-! ### non-vacuity and the mutations of DESIGN Appendix B (the model with that shape violates the property) -/

/-- bound 2: third ordinary add refused, prior add accepted beyond the bound; close with residue; Pop fails,
    PopAnyway drains in order, then closed -/
example : outs (step Cfg.expected) (LQ.new .q 0 2)
    [.add 1, .add 2, .add 3, .prior 4, .pop, .close, .add 5, .pop, .popAnyway, .popAnyway, .popAnyway] =
    [.ok, .ok, .full, .ok, .val 4, .ok, .closed, .closed, .val 1, .val 2, .closed] := by decide

example : outs (pstep PriShape.expected) (PQ.new 3) [.push 1 1, .push 2 5, .push 3 1, .push 4 5, .pop, .pop, .pop, .pop] =
    [.ok, .ok, .ok, .full, .val 2, .val 1, .val 3, .nil] := by decide

/-- priorities are compared exactly (`Int`), also more than `MaxInt64` apart: `MaxInt64` pops before `-1` and
    `1` before `MinInt64` — a `Less` that takes the sign of the wrapped difference `pi - pj` gets both wrong -/
example : outs (pstep PriShape.expected) (PQ.new 4)
    [.push 1 (-1), .push 2 9223372036854775807, .push 3 (-9223372036854775808), .push 4 1, .pop, .pop, .pop, .pop] =
    [.ok, .ok, .ok, .ok, .val 2, .val 4, .val 1, .val 3] := by decide

/-- mutation "AddPriorReq honours the bound": a prior add is refused for capacity -/
theorem witness_prior_bounded :
    (addPrior { Shape.expected with priorBounded := true } { LQ.new .q 0 1 with req := [1] } 2).2 = .full := by decide

/-- mutation "pop: drop the checkClose branch": Pop drains after close -/
theorem witness_pop_ignores_close :
    popNow { Shape.expected with popChecksClosed := false } false { LQ.new .q 0 0 with req := [1], closed := true }
      = some ({ LQ.new .q 0 0 with req := [], closed := true }, .val 1) := by decide

/-- mutation "MQ Pop: request list before control list" -/
theorem witness_req_before_ctrl :
    (popNow { Shape.expected with ctrlFirst := false } false { LQ.new .mq 0 0 with ctrl := [1], req := [2] }).map (·.2)
      = some (.val 2) := by decide

/-- mutation "priq Less: seq > for ties": LIFO among equal priorities -/
theorem witness_tie_newest_first :
    outs (pstep { PriShape.expected with olderFirstOnTie := false }) (PQ.new 3) [.push 1 0, .push 2 0, .pop] =
      [.ok, .ok, .val 2] := by decide

end Nv.C12
