import Nv.Model.C16
import Nv.Proofs.C16Sess
import Nv.Proofs.C16Term
import Nv.Proofs.C16Flush
import Nv.Proofs.C16World
import Nv.Proofs.C16Conf
import Nv.Proofs.C16Ends
/-!
C16 — property theorems for `stcp.Session`, `SessionMgr.count` and the accept loop (model: `Nv.Model.C16`).

Every statement quantifies over all reachable states of the transition systems, i.e. over every schedule of the
two loops (with `quit` split into its four effects), every order and combination of terminating events, any number
of queued sends, any number of sessions and connection attempts; `c` ranges over the proved configurations.
Environment assumption, named in every statement: `OnExitReturns k` — the handler's exit callback returns normally
(`witness_onexit_panics_leaks`, `witness_onexit_blocks_leaks` show what happens otherwise). Below the transition
level the behaviour of the OS (`net.Conn`, deadlines, the Go scheduler) is assumed — see docs/C16.md.
-/
namespace Nv.C16

theorem reach_returns {c : Cfg} {k : OnExitKind} (hx : OnExitReturns k) {s : Sess} (hr : (sessLTSK c k).Reach s) :
    (sessLTS c).Reach s := by cases hx; exact hr

/-! ### one session: single exit -/

/-- the exit callback, the count decrement and the connection close each happen at most once, in every reachable state -/
theorem sess_exit_at_most_once {c : Cfg} (hc : Proved c) {k : OnExitKind} (hx : OnExitReturns k) (s : Sess)
    (hr : (sessLTSK c k).Reach s) : s.exits ≤ 1 ∧ s.decs ≤ 1 ∧ s.closes ≤ 1 :=
  counters_le_one (sinv_reach hc s (reach_returns hx hr))

/-- … in the order OnExit, Dec, Close, all of them done once the once has finished and none before it is taken; a
    loop that has stopped has seen the once finished; no panic escapes -/
theorem sess_exit_together {c : Cfg} (hc : Proved c) {k : OnExitKind} (hx : OnExitReturns k) (s : Sess)
    (hr : (sessLTSK c k).Reach s) :
    s.closes ≤ s.decs ∧ s.decs ≤ s.exits ∧
    (s.onceTaken = false → s.exits = 0) ∧ (s.onceDone = true → s.exits = 1 ∧ s.decs = 1 ∧ s.closes = 1) ∧
    (s.sendPc = .done → s.onceDone = true) ∧ (s.recvPc = .done → s.onceDone = true) ∧ s.crashed = false := by
  have hS := sinv_reach hc s (reach_returns hx hr)
  obtain ⟨h1, h2, h3, h4, h5, h6, h7, h8, h9⟩ := hS
  refine ⟨?_, ?_, fun a => (h5 a).2.1, fun a => ⟨(h6 a).2.1, (h6 a).2.2.1, (h6 a).2.2.2.1⟩, h3, h4, h2⟩
  all_goals
    cases ht : s.onceTaken
    · obtain ⟨_, a, b, c⟩ := h5 ht; omega
    · cases hd : s.onceDone
      · obtain ⟨e1, o⟩ := h7 ht hd
        rcases o with ⟨st, o, ne⟩ | ⟨p, st, o, ne⟩
        · obtain ⟨_, _, ok, _⟩ := h8 st o ne
          cases st <;> simp [stageOk] at ok ne <;> omega
        · obtain ⟨_, _, ok, _⟩ := h9 p st o ne
          cases st <;> simp [stageOk] at ok ne <;> omega
      · obtain ⟨_, a, b, c, _⟩ := h6 hd; omega

/-! ### one session: terminal states -/

/-- In every reachable state in which neither loop can move, the session is either over — exit callback ran exactly
    once, count given back exactly once, connection closed, both loops stopped — or it is still fully alive and
    waiting: nothing has been released, the read loop is blocked on an open connection, and the send loop is parked on
    an empty open queue or blocked writing to a peer that does not read. (No state "in the middle of quit" is
    quiescent: the owner of the once can always move.) -/
theorem sess_terminal_state {c : Cfg} (hc : Proved c) {k : OnExitKind} (hx : OnExitReturns k) (s : Sess)
    (hr : (sessLTSK c k).Reach s) (hq : quiescent c s) : ended s ∨ waiting s := by
  have hS := sinv_reach hc s (reach_returns hx hr)
  rw [quiescent_proved hc hS] at hq
  exact quiescentP_cases hS hq.1 hq.2

/-- whatever ends it, state form: once a terminating condition holds (`Doomed`: the read loop has left its read, the
    peer or the connection is closed, a failing write is in progress or ahead, or the queue is closed and no write can
    stay blocked), a quiescent state is an ended one -/
theorem sess_terminating_event_ends {c : Cfg} (hc : Proved c) {k : OnExitKind} (hx : OnExitReturns k) (s : Sess)
    (hr : (sessLTSK c k).Reach s) (hq : quiescent c s) (hev : Doomed s) : ended s := by
  rcases sess_terminal_state hc hx s hr hq with h | h
  · exact h
  · exact absurd h (fun w => doomed_not_waiting hev w)

/-! ### one session: progress -/

def Act.internal : Act → Bool
  | .sendStep | .recvStep => true
  | .env _ => false

/-- every loop step strictly decreases `measure s = 2·|queue| + weights ≤ 2·|queue| + 13` -/
theorem sess_progress {c : Cfg} (hc : Proved c) {s s' : Sess} {a : Act} (hS : SInv s) (ha : a.internal = true)
    (hs : step c s a = some s') : measure s' < measure s := by
  cases a with
  | env e => simp [Act.internal] at ha
  | sendStep => rw [step, sendStep_proved hc s hS.exit_ret] at hs; exact measure_sendStepP hs
  | recvStep => rw [step, recvStep_proved hc s hS.exit_ret hS.not_crashed] at hs; exact measure_recvStepP hs

theorem measure_le (s : Sess) : measure s ≤ 2 * s.q.length + 13 := by
  unfold measure
  have h1 : s.sendPc.weight ≤ 7 := by cases s.sendPc <;> simp [SendPc.weight]; rename_i st; cases st <;> simp [QStage.weight]
  have h2 : s.recvPc.weight ≤ 6 := by cases s.recvPc <;> simp [RecvPc.weight]; rename_i p st; cases st <;> simp [QStage.weight]
  omega

/-- hence without new environment events the loops take at most `2·queued + 13` more steps (no livelock) -/
theorem sess_internal_run_bounded {c : Cfg} (hc : Proved c) : ∀ (as : List Act) (s s' : Sess), SInv s →
    (∀ a ∈ as, a.internal = true) → (sessLTS c).run s as = some s' → as.length + measure s' ≤ measure s
  | [], s, s', _, _, h => by simp [LTS.run] at h; subst h; simp
  | a :: as, s, s', hS, hi, h => by
    simp only [LTS.run] at h
    cases h1 : (sessLTS c).step s a with
    | none => simp [h1] at h
    | some s1 =>
      simp only [h1] at h
      have := sess_progress hc hS (hi a (by simp)) h1
      have := sess_internal_run_bounded hc as s1 s' (sinv_step hc hS h1) (fun b hb => hi b (by simp [hb])) h
      simp; omega

/-- running the loops until nothing moves (what the correspondence does after each event) ends in a quiescent,
    reachable state -/
theorem settle_quiescent {c : Cfg} (hc : Proved c) (s : Sess) (hS : SInv s) : quiescent c (settle c s) :=
  (settleN_quiescent hc (measure s) s hS (Nat.le_refl _)).1

theorem settle_reach {c : Cfg} (s : Sess) (hr : (sessLTS c).Reach s) : (sessLTS c).Reach (settle c s) :=
  settleN_reach _ s hr

theorem event_reach {c : Cfg} (s : Sess) (e : Env) (hr : (sessLTS c).Reach s) : (sessLTS c).Reach (event c s e) :=
  settle_reach _ (LTS.Reach.step (a := Act.env e) hr rfl)

theorem events_reach {c : Cfg} : ∀ (es : List Env) (s : Sess), (sessLTS c).Reach s → (sessLTS c).Reach (events c s es)
  | [], _, hr => hr
  | e :: es, s, hr => by
    simp only [events, List.foldl_cons]
    exact events_reach es _ (event_reach s e hr)

/-- runs of loop steps in the P layer -/
theorem irun_of_run {c : Cfg} (hc : Proved c) : ∀ (as : List Act) (u t : Sess), SInv u → (∀ a ∈ as, a.internal = true) →
    (sessLTS c).run u as = some t → IRun u t
  | [], u, t, _, _, h => by simp [LTS.run] at h; subst h; exact IRun.refl _
  | a :: as, u, t, hS, hi, h => by
    simp only [LTS.run] at h
    cases h1 : (sessLTS c).step u a with
    | none => simp [h1] at h
    | some u1 =>
      simp only [h1] at h
      have h1' : step c u a = some u1 := h1
      have r := irun_of_run hc as u1 t (sinv_step hc hS h1') (fun b hb => hi b (by simp [hb])) h
      have hia := hi a (by simp)
      cases a with
      | env e => simp [Act.internal] at hia
      | sendStep => rw [step, sendStep_proved hc u hS.exit_ret] at h1'; exact IRun.send h1' r
      | recvStep => rw [step, recvStep_proved hc u hS.exit_ret hS.not_crashed] at h1'; exact IRun.recv h1' r

theorem doomed_irun {s t : Sess} (r : IRun s t) (h : Doomed s) : Doomed t := by
  induction r with
  | refl => exact h
  | send hs _ ih => exact ih (doomed_sendStepP h hs)
  | recv hs _ ih => exact ih (doomed_recvStepP hs)

/-- **Whatever ends it.** For every terminating event of the property's list — local `Close` (`.close`), peer close
    (`.peerClose`), read error or read timeout (`.readFail`), write error or write timeout (`.writeFail`, after a partial write:
    `.writeFailAfter n`), a panic in
    the read handler (`.handlerPanic`) — from ANY reachable state in which the event is a terminating one
    (`Terminating s e`: always for the read-side events and the peer close; for a failing write when a write is in
    progress or queued; for a local Close unless a write stays blocked on a peer that does not read), EVERY schedule of
    loop steps that runs until neither loop can move ends in `ended`: exit callback exactly once, count returned
    exactly once, connection closed, both loops stopped, no escaped panic. -/
theorem terminating_event_ends {c : Cfg} (hc : Proved c) {k : OnExitKind} (hx : OnExitReturns k) (s : Sess)
    (hr : (sessLTSK c k).Reach s) (e : Env) (he : Terminating s e) (as : List Act) (hi : ∀ a ∈ as, a.internal = true)
    (t : Sess) (hrun : (sessLTS c).run (envStep s e) as = some t) (hq : quiescent c t) : ended t := by
  have hr' := reach_returns hx hr
  have hS := sinv_env (sinv_reach hc s hr') e
  have r := irun_of_run hc as _ t hS hi hrun
  have hd := doomed_irun r (doomed_of_event he)
  have hrt : (sessLTS c).Reach t :=
    LTS.reach_of_run _ as _ _ (LTS.Reach.step (a := Act.env e) hr' rfl) hrun
  exact sess_terminating_event_ends hc rfl t hrt hq hd

/-- the blocked-write form of a local Close (and of anything else): a write blocked on a silent peer ends the
    session as soon as the peer reads again or the write fails/times out -/
theorem blocked_close_ends {c : Cfg} (hc : Proved c) {k : OnExitKind} (hx : OnExitReturns k) (s : Sess)
    (hr : (sessLTSK c k).Reach s) (hcl : s.qClosed = true) (e : Env) (he : e = .peerDrain ∨ e = .writeFail)
    (as : List Act) (hi : ∀ a ∈ as, a.internal = true)
    (t : Sess) (hrun : (sessLTS c).run (envStep s e) as = some t) (hq : quiescent c t) : ended t := by
  have hr' := reach_returns hx hr
  have hS := sinv_env (sinv_reach hc s hr') e
  have r := irun_of_run hc as _ t hS hi hrun
  have h0 : Doomed (envStep s e) := by
    unfold Doomed noBlockAhead
    right; right; right; right
    rcases he with he | he <;> subst he <;> simp [envStep, hcl]
  have hrt : (sessLTS c).Reach t :=
    LTS.reach_of_run _ as _ _ (LTS.Reach.step (a := Act.env e) hr' rfl) hrun
  exact sess_terminating_event_ends hc rfl t hrt hq (doomed_irun r h0)

/-- in particular the schedule the oracle runs -/
theorem event_ends_session {c : Cfg} (hc : Proved c) {k : OnExitKind} (hx : OnExitReturns k) (s : Sess)
    (hr : (sessLTSK c k).Reach s) (e : Env) (he : Terminating s e) : ended (event c s e) := by
  have hr' := reach_returns hx hr
  have hS := sinv_env (sinv_reach hc s hr') e
  have r : IRun (envStep s e) (event c s e) := irun_settleN hc _ _ hS
  have hd := doomed_irun r (doomed_of_event he)
  exact sess_terminating_event_ends hc rfl _ (event_reach s e hr') (settle_quiescent hc _ hS) hd

/-- Schedule independence of one script step: from a quiescent reachable state, after one environment event, *every*
    schedule of the two loops that runs until neither can move ends in the same state — the one the oracle computes
    (`event c s e`). So the correspondence compares against the only possible outcome, not against one schedule. -/
theorem event_schedule_independent {c : Cfg} (hc : Proved c) {k : OnExitKind} (hx : OnExitReturns k) (s : Sess)
    (hr : (sessLTSK c k).Reach s) (hq : quiescent c s)
    (e : Env) (as : List Act) (hi : ∀ a ∈ as, a.internal = true) (t : Sess)
    (hrun : (sessLTS c).run (envStep s e) as = some t) (hqt : quiescent c t) : t = event c s e := by
  have hr' := reach_returns hx hr
  have hS := sinv_env (sinv_reach hc s hr') e
  have hK := norace_after_event (sess_terminal_state hc hx s hr hq) e
  have r1 := irun_of_run hc as _ t hS hi hrun
  have hSt := (irun_inv r1 hS hK).1
  have n1 := (quiescent_proved hc hSt).1 hqt
  have r2 : IRun (envStep s e) (event c s e) := irun_settleN hc _ _ hS
  have hSe := (irun_inv r2 hS hK).1
  have n2 := (quiescent_proved hc hSe).1 (settle_quiescent hc (envStep s e) hS)
  exact normal_unique _ _ _ _ (Nat.le_refl _) hS hK r1 n1 r2 n2

/-! ### one session: flush before local close -/

theorem all_inv_reach {c : Cfg} (hc : Proved c) : ∀ s, (sessLTS c).Reach s → SInv s ∧ GInv s ∧ FOk s :=
  (sessLTS c).inv_of_step (fun s => SInv s ∧ GInv s ∧ FOk s) ⟨sinv_init, ginv_init, fok_init⟩ (by
    intro s a s' ih hs
    have hs' : step c s a = some s' := hs
    have hx := ih.1.exit_ret
    have hn := ih.1.not_crashed
    refine ⟨sinv_step hc ih.1 hs', ?_, ?_⟩
    · cases a with
      | env e => simp only [step, Option.some.injEq] at hs'; subst hs'; exact ginv_env ih.2.1 e
      | sendStep => rw [step, sendStep_proved hc s hx] at hs'; exact ginv_sendStepP ih.2.1 hs'
      | recvStep => rw [step, recvStep_proved hc s hx hn] at hs'; exact ginv_recvStepP ih.2.1 hs'
    · cases a with
      | env e => simp only [step, Option.some.injEq] at hs'; subst hs'; exact fok_env ih.2.2 e
      | sendStep => rw [step, sendStep_proved hc s hx] at hs'; exact fok_sendStepP ih.1 ih.2.1 ih.2.2 hs'
      | recvStep => rw [step, recvStep_proved hc s hx hn] at hs'; exact fok_recvStepP ih.1 ih.2.2 hs')

/-- the peer reads a prefix of what `Send` accepted: in order, nothing duplicated or invented — in every reachable state -/
theorem delivered_in_order {c : Cfg} (hc : Proved c) {k : OnExitKind} (hx : OnExitReturns k) (s : Sess)
    (hr : (sessLTSK c k).Reach s) : s.delivered <+: s.accepted.flatten :=
  (all_inv_reach hc s (reach_returns hx hr)).2.1.pref

/-- Flush before local close: in every reachable state in which no terminating event other than a local `Close`
    has happened (no peer close, no failing read or write, no handler panic), if the connection is closed then the
    peer has read *all* bytes `Send` accepted, in order. (The connection is closed by the last step of `quit` only, so
    this holds at the moment of closing; already when the once is taken — before OnExit runs — everything has been
    delivered.) Nothing is accepted after the local Close: `no_accept_after_close`. -/
theorem flush_before_close {c : Cfg} (hc : Proved c) {k : OnExitKind} (hx : OnExitReturns k) (s : Sess)
    (hr : (sessLTSK c k).Reach s) (hf : s.faulted = false) (hcl : s.closes ≠ 0 ∨ s.onceTaken = true) :
    s.delivered = s.accepted.flatten := by
  obtain ⟨hS, _, hF⟩ := all_inv_reach hc s (reach_returns hx hr)
  obtain ⟨_, _, f3, f4, _⟩ := hF hf
  have ht : s.onceTaken = true := by
    rcases hcl with h | h
    · exact taken_of_closes hS h
    · exact h
  exact (f4 (f3 ht)).1

/-- … and until then nothing is lost either: while the send loop runs, delivered ++ in-flight ++ queued = accepted -/
theorem nothing_lost_while_sending {c : Cfg} (hc : Proved c) {k : OnExitKind} (hx : OnExitReturns k) (s : Sess)
    (hr : (sessLTSK c k).Reach s) (hl : sendLooping s) : s.delivered ++ inflight s ++ s.q.flatten = s.accepted.flatten :=
  (all_inv_reach hc s (reach_returns hx hr)).2.1.pending hl

theorem no_accept_after_close (s : Sess) (bs : List Nat) (h : s.qClosed = true) :
    sendAccepted s = false ∧ (envStep s (.send bs)).accepted = s.accepted := by
  simp [sendAccepted, envStep, h]

/-- the events that do not set `faulted` -/
def Act.benign : Act → Bool
  | .env (.send _) | .env .close | .env .peerDrain | .env .peerHold | .env .peerData | .sendStep | .recvStep => true
  | _ => false

theorem faulted_unchanged {c : Cfg} (hc : Proved c) {s s' : Sess} {a : Act} (hS : SInv s) (hb : a.benign = true)
    (hs : step c s a = some s') : s'.faulted = s.faulted := by
  cases a with
  | env e =>
    simp only [step, Option.some.injEq] at hs; subst hs
    cases e <;> simp [Act.benign] at hb <;> simp only [envStep] <;> (try split) <;> rfl
  | sendStep =>
    rw [step, sendStep_proved hc s hS.exit_ret] at hs
    unfold sendStepP at hs
    repeat' split at hs
    all_goals first | (cases hs; rfl) | cases hs
  | recvStep =>
    rw [step, recvStep_proved hc s hS.exit_ret hS.not_crashed] at hs
    unfold recvStepP at hs
    repeat' split at hs
    all_goals first | (cases hs; rfl) | cases hs

/-- trace form: along any run made only of sends, local closes, the peer reading or pausing, handler data and loop
    steps — in any order and number — a closed connection means everything accepted was delivered, in order -/
theorem flush_before_close_trace {c : Cfg} (hc : Proved c) (as : List Act) (s : Sess)
    (hb : ∀ a ∈ as, a.benign = true) (hrun : (sessLTS c).run Sess.init as = some s) (hcl : s.closes ≠ 0) :
    s.delivered = s.accepted.flatten := by
  have hr : (sessLTS c).Reach s := LTS.reach_of_run _ as _ _ LTS.Reach.init hrun
  apply flush_before_close hc rfl s hr _ (Or.inl hcl)
  have key : ∀ (as : List Act) (t t' : Sess), SInv t → (∀ a ∈ as, a.benign = true) → t.faulted = false →
      (sessLTS c).run t as = some t' → t'.faulted = false := by
    intro as
    induction as with
    | nil => intro t t' _ _ h0 h; simp [LTS.run] at h; subst h; exact h0
    | cons a as ih =>
      intro t t' hS hb h0 h
      simp only [LTS.run] at h
      cases h1 : (sessLTS c).step t a with
      | none => simp [h1] at h
      | some t1 =>
        simp only [h1] at h
        have h1' : step c t a = some t1 := h1
        refine ih t1 t' (sinv_step hc hS h1') (fun b hb' => hb b (by simp [hb'])) ?_ h
        rw [faulted_unchanged hc hS (hb a (by simp)) h1']; exact h0
  exact key as Sess.init s sinv_init hb rfl hrun

/-! ### many sessions: the manager's count and the accept loop -/

/-- every session of a reachable world is in a reachable state of the one-session system, so all theorems above
    hold for each of any number of simultaneous sessions -/
theorem world_sess_reach {c : Cfg} (max : Int) (k : OnExitKind) : ∀ w, (worldLTSK c max k).Reach w →
    w.max = max ∧ w.onExit = k ∧ ∀ s ∈ w.sess, (sessLTSK c k).Reach s :=
  (worldLTSK c max k).inv_of_step (fun w => w.max = max ∧ w.onExit = k ∧ ∀ s ∈ w.sess, (sessLTSK c k).Reach s)
    ⟨rfl, rfl, by intro s hs; simp [worldLTSK] at hs⟩ (by
    intro w a w' ih hs
    have hs' : wstep c w a = some w' := hs
    cases a with
    | connect =>
      simp only [wstep] at hs'
      split at hs'
      · cases hs'; exact ih
      · cases hs'
        refine ⟨ih.1, ih.2.1, ?_⟩
        intro s hm
        rcases List.mem_append.1 hm with hm | hm
        · exact ih.2.2 s hm
        · simp at hm; subst hm; rw [ih.2.1]; exact LTS.Reach.init
    | sess j a =>
      simp only [wstep] at hs'
      split at hs'
      · cases hs'
      · rename_i s0 hk
        split at hs'
        · cases hs'
        · rename_i s1 hst
          cases hs'
          refine ⟨ih.1, ih.2.1, ?_⟩
          intro s hm
          rcases List.mem_or_eq_of_mem_set hm with hm | hm
          · exact ih.2.2 s hm
          · subst hm
            exact LTS.Reach.step (ih.2.2 s0 (List.mem_of_getElem? hk)) hst)

theorem world_sinv {c : Cfg} (hc : Proved c) (max : Int) {k : OnExitKind} (hx : OnExitReturns k) (w : World)
    (hr : (worldLTSK c max k).Reach w) : ∀ s ∈ w.sess, SInv s :=
  fun s hs => sinv_reach hc s (reach_returns hx ((world_sess_reach max k w hr).2.2 s hs))

/-- balanced count: in every reachable world the count equals the number of sessions that have not executed their
    `count.Dec()` — each session adds one at `Start` and gives exactly that one back, whatever ends it -/
theorem count_balanced {c : Cfg} (hc : Proved c) (max : Int) {k : OnExitKind} (hx : OnExitReturns k) (w : World)
    (hr : (worldLTSK c max k).Reach w) : w.count = (aliveNum w.sess : Int) :=
  liveCount_eq_alive w.sess (world_sinv hc max hx w hr)

theorem count_nonneg {c : Cfg} (hc : Proved c) (max : Int) {k : OnExitKind} (hx : OnExitReturns k) (w : World)
    (hr : (worldLTSK c max k).Reach w) : 0 ≤ w.count := by
  rw [count_balanced hc max hx w hr]; omega

/-- the count never exceeds the configured maximum -/
theorem count_le_max {c : Cfg} (hc : Proved c) (max : Int) (hmax : 0 ≤ max) {k : OnExitKind} (hx : OnExitReturns k)
    (w : World) (hr : (worldLTSK c max k).Reach w) : w.count ≤ max := by
  have key : ∀ w, (worldLTSK c max k).Reach w → (worldLTSK c max k).Reach w ∧ w.max = max ∧ w.count ≤ max :=
    (worldLTSK c max k).inv_of_step (fun w => (worldLTSK c max k).Reach w ∧ w.max = max ∧ w.count ≤ max)
      ⟨LTS.Reach.init, rfl, by simpa [worldLTSK, World.count, liveCount] using hmax⟩ (by
      intro w a w' ih hs
      have hs' : wstep c w a = some w' := hs
      refine ⟨LTS.Reach.step ih.1 hs, ?_⟩
      cases a with
      | connect =>
        simp only [wstep] at hs'
        split at hs'
        · cases hs'; exact ih.2
        · rename_i hfull
          cases hs'
          refine ⟨ih.2.1, ?_⟩
          simp only [full, hc.2.2.2.2.2.2.2.2.2.2, Bool.not_eq_true, decide_eq_false_iff_not] at hfull
          simp only [World.count, liveCount_append] at hfull ⊢
          have := ih.2.1
          simp [Sess.initWith]; omega
      | sess j a =>
        simp only [wstep] at hs'
        split at hs'
        · cases hs'
        · rename_i s0 hk
          split at hs'
          · cases hs'
          · rename_i s1 hst
            cases hs'
            refine ⟨ih.2.1, ?_⟩
            have hS0 := world_sinv hc max hx w ih.1 s0 (List.mem_of_getElem? hk)
            have hm := decs_mono_P hc hS0 hst
            have := liveCount_set w.sess j s0 s1 hk
            have := ih.2.2
            simp only [World.count] at this ⊢
            omega)
  exact (key w hr).2.2

/-- with a negative maximum nothing is ever admitted -/
theorem negative_max_admits_nothing {c : Cfg} (hc : Proved c) (max : Int) (hmax : max < 0) (k : OnExitKind) (w : World)
    (hr : (worldLTSK c max k).Reach w) : w.sess = [] := by
  have key : ∀ w, (worldLTSK c max k).Reach w → w.max = max ∧ w.sess = [] :=
    (worldLTSK c max k).inv_of_step (fun w => w.max = max ∧ w.sess = []) ⟨rfl, rfl⟩ (by
      intro w a w' ih hs
      have hs' : wstep c w a = some w' := hs
      cases a with
      | connect =>
        simp only [wstep] at hs'
        split at hs'
        · cases hs'; exact ih
        · rename_i hfull
          exfalso
          simp only [full, hc.2.2.2.2.2.2.2.2.2.2, Bool.not_eq_true, decide_eq_false_iff_not] at hfull
          simp only [World.count, ih.2, liveCount, ih.1] at hfull
          omega
      | sess j a => simp [wstep, ih.2] at hs')
  exact (key w hr).2

/-- surplus connections are closed on accept, and only those: the accept loop closes the new connection exactly
    when the count has reached the maximum; otherwise it starts a session (count + 1, inside `Start`) -/
theorem accept_decision {c : Cfg} (hc : Proved c) (w : World) :
    wstep c w .connect =
      if w.count ≥ w.max then some { w with rejected := w.rejected + 1 }
      else some { w with sess := w.sess ++ [Sess.initWith w.onExit] } := by
  simp only [wstep, full, hc.2.2.2.2.2.2.2.2.2.2]
  by_cases h : w.count ≥ w.max <;> simp [h]

/-- a full server closes any number of surplus connections in a row and admits none of them -/
theorem connects_when_full {c : Cfg} (hc : Proved c) (w : World) (hfull : w.count ≥ w.max) : ∀ (n : Nat),
    (worldLTS c w.max).run w (List.replicate n .connect) = some { w with rejected := w.rejected + n }
  | 0 => rfl
  | n + 1 => by
    have hstep : (worldLTS c w.max).step w .connect = some { w with rejected := w.rejected + 1 } := by
      show wstep c w .connect = _
      rw [accept_decision hc]; simp [hfull]
    simp only [List.replicate_succ, LTS.run, hstep]
    have ih := connects_when_full hc { w with rejected := w.rejected + 1 } hfull n
    simp only at ih
    rw [ih]
    simp [Nat.add_assoc, Nat.add_comm 1 n]

/-- when every session of a reachable world is quiescent, each is ended or waiting and the count is exactly the number
    of sessions still waiting: every ended session has returned the count to its previous value -/
theorem count_at_quiescence {c : Cfg} (hc : Proved c) (max : Int) {k : OnExitKind} (hx : OnExitReturns k) (w : World)
    (hr : (worldLTSK c max k).Reach w) (hq : ∀ s ∈ w.sess, quiescent c s) :
    (∀ s ∈ w.sess, ended s ∨ waiting s) ∧ w.count = ((w.sess.filter (fun s => decide (s.decs = 0))).length : Int) := by
  have hsr := (world_sess_reach max k w hr).2.2
  refine ⟨fun s hs => sess_terminal_state hc hx s (hsr s hs) (hq s hs), ?_⟩
  rw [count_balanced hc max hx w hr]
  have : ∀ l : List Sess, aliveNum l = (l.filter (fun s => decide (s.decs = 0))).length := by
    intro l
    induction l with
    | nil => rfl
    | cons x xs ih => by_cases h : x.decs = 0 <;> simp [aliveNum, h, ih] <;> omega
  rw [this]

/-! ### non-vacuity: concrete reachable states satisfying the hypotheses -/

example : Proved Cfg.good := by decide
example : OnExitReturns .returns := by decide

/-- a session ended by a handler panic after two sends: reachable, quiescent, ended -/
example : let s := events Cfg.good Sess.init [.send [1, 2], .send [3], .peerData, .handlerPanic]
    quiescent Cfg.good s ∧ ended s ∧ s.delivered = [1, 2, 3] ∧ s.faulted = true := by decide

/-- local Close behind a blocked write and two queued items: not over while the peer does not read (`waiting`),
    everything delivered in order once it does, then closed -/
example : let s := events Cfg.good Sess.init [.peerHold, .send [1], .send [2, 3], .send [4], .close]
    quiescent Cfg.good s ∧ ¬ ended s ∧ s.closes = 0 ∧ s.faulted = false ∧ ¬ Terminating s .close ∧ Terminating s .writeFail := by decide
example : let s := events Cfg.good Sess.init [.peerHold, .send [1], .send [2, 3], .send [4], .close, .send [9], .peerDrain]
    ended s ∧ s.closes ≠ 0 ∧ s.faulted = false ∧ s.delivered = [1, 2, 3, 4] ∧ s.accepted = [[1], [2, 3], [4]] := by decide

/-- `terminating_event_ends` is about every state, also one in the middle of things: a blocked write, two queued
    items; the write fails (error or timeout) — a schedule with the receive loop scheduled late -/
example : let s := events Cfg.good Sess.init [.peerHold, .send [1], .send [2]]
    Terminating s .writeFail ∧
    ((sessLTS Cfg.good).run (envStep s .writeFail)
      [.sendStep, .sendStep, .sendStep, .sendStep, .sendStep, .recvStep, .recvStep]).map (fun t => decide (ended t)) = some true := by decide

/-- a backlog: three items sent and flushed, then eight queued behind a stalled peer, a local Close, and the peer
    reads again: every byte arrives, in order, before the connection closes -/
example : let backlog := (List.range 8).map (fun i => Env.send [i + 10])
    let s := events Cfg.good Sess.init ([.send [1], .send [2], .send [3], .peerHold] ++ backlog ++ [.close, .peerDrain])
    ended s ∧ s.faulted = false ∧ s.delivered = [1, 2, 3] ++ (List.range 8).map (· + 10) := by decide

/-- a partial write followed by a write error / timeout: the peer has a proper prefix of the item, the session is over,
    nothing else of the queue is ever written (no retry, no duplicate) -/
example : let s := events Cfg.good Sess.init [.send [9], .writeFailAfter 2, .send [1, 2, 3, 4], .send [5]]
    ended s ∧ s.delivered = [9, 1, 2] ∧ s.accepted = [[9], [1, 2, 3, 4]] := by decide

/-- the peer closes while a write is blocked: both loops race for `exitOnce`; the receive-first schedule ends where
    the oracle's send-first schedule (`event`) ends -/
example : let s := events Cfg.good Sess.init [.peerHold, .send [1], .send [2]]
    quiescent Cfg.good s ∧
    (sessLTS Cfg.good).run (envStep s .peerClose)
      [.recvStep, .sendStep, .recvStep, .recvStep, .recvStep, .recvStep, .sendStep] = some (event Cfg.good s .peerClose) ∧
    quiescent Cfg.good (event Cfg.good s .peerClose) := by decide

/-- three connection attempts against maxConn = 2, one session ends (all steps of its quit), a fourth attempt -/
example : ((worldLTS Cfg.good 2).run { max := 2 }
    [.connect, .connect, .connect, .sess 0 (.env .peerClose), .sess 0 .recvStep, .sess 0 .recvStep, .sess 0 .recvStep,
     .sess 0 .recvStep, .sess 0 .recvStep, .sess 0 .sendStep, .sess 0 .sendStep, .connect]).map
      (fun w => (w.count, w.rejected, w.sess.length)) = some (2, 1, 3) := by decide

/-- between the steps of `quit` the count is already returned while the connection is still open -/
example : ((worldLTS Cfg.good 2).run { max := 2 }
    [.connect, .sess 0 (.env .peerClose), .sess 0 .recvStep, .sess 0 .recvStep, .sess 0 .recvStep]).map
      (fun w => (w.count, w.sess.map (fun s => (s.exits, s.decs, s.closes)))) = some (0, [(1, 1, 0)]) := by decide

/-! ### the environment assumption: an exit callback that does not return -/

/-- OnExit panics: `sync.Once` is marked done, the rest of `quit` is skipped; `recovery` swallows the panic. The count
    is not returned, the connection stays open and the send loop stays parked — for ever. (Observed on the real code;
    outside the property's list of terminating events; hardening proposal: fixes/C16-onexit-panic-safe.diff.txt.) -/
theorem witness_onexit_panics_leaks :
    let s := events Cfg.good (Sess.initWith .panics) [.peerClose]
    quiescent Cfg.good s ∧ s.exits = 1 ∧ s.decs = 0 ∧ s.closes = 0 ∧ s.recvPc = .done ∧ s.sendPc = .idle ∧
    s.crashed = false ∧ ¬ ended s := by decide

/-- OnExit blocks: the loop that won the once never comes back, the other one waits in `exitOnce.Do` or stays parked -/
theorem witness_onexit_blocks_leaks :
    let s := events Cfg.good (Sess.initWith .blocks) [.send [1], .close]
    quiescent Cfg.good s ∧ s.exits = 1 ∧ s.decs = 0 ∧ s.closes = 0 ∧ s.sendPc = .quitting .stuck ∧ s.recvPc = .reading := by decide

/-! ### the configurations for which the property is false: concrete witnesses (replayed on the real code by
    `c16 corr`, fixed cases tagged `witness`, on a tree with the corresponding edit) -/

/-- the source before fix 2279fa4: a zero-length item makes `loopSend` return; items accepted after it and before the
    local Close are never written. Script: hold, send 6161, send -, send 6262, close, drain. -/
theorem witness_emptySend_quits :
    let c : Cfg := { Cfg.good with emptySend := .quits }
    let s := events c Sess.init [.peerHold, .send [0x61, 0x61], .send [], .send [0x62, 0x62], .close, .peerDrain]
    s.faulted = false ∧ s.closes ≠ 0 ∧ s.accepted.flatten = [0x61, 0x61, 0x62, 0x62] ∧ s.delivered = [0x61, 0x61] := by decide

theorem not_flush_emptySend_quits :
    ¬ (∀ s, (sessLTS { Cfg.good with emptySend := .quits }).Reach s → s.faulted = false → s.closes ≠ 0 →
        s.delivered = s.accepted.flatten) := by
  intro h
  have := h (events { Cfg.good with emptySend := .quits } Sess.init
      [.peerHold, .send [0x61, 0x61], .send [], .send [0x62, 0x62], .close, .peerDrain])
    (events_reach _ _ LTS.Reach.init) (by decide) (by decide)
  revert this; decide

/-- `loopSend` popping with `Pop`: items still queued at the local Close are dropped -/
theorem witness_pop_loses_queued :
    let c : Cfg := { Cfg.good with sendPop := .pop }
    let s := events c Sess.init [.peerHold, .send [1], .send [2], .close, .peerDrain]
    s.faulted = false ∧ s.closes ≠ 0 ∧ s.accepted.flatten = [1, 2] ∧ s.delivered = [1] := by decide

/-- `quit` without `exitOnce`: both loops run the body — OnExit twice, count −1 -/
theorem witness_quit_without_once :
    let c : Cfg := { Cfg.good with quitOnce := false }
    let s := events c Sess.init [.close]
    s.exits = 2 ∧ s.decs = 2 ∧ liveCount [s] = -1 := by decide

/-- accept loop comparing with `>`: maxConn + 1 sessions -/
theorem witness_accept_gt :
    let c : Cfg := { Cfg.good with acceptCmp := .gt }
    ((worldLTS c 1).run { max := 1 } [.connect, .connect]).map World.count = some 2 := by decide

/-- `loopSend` without a deferred `quit`: a local Close stops the send loop and nothing else -/
theorem witness_send_without_deferred_quit :
    let c : Cfg := { Cfg.good with sendDefers := .recoveryOnly }
    let s := events c Sess.init [.close]
    quiescent c s ∧ s.exits = 0 ∧ s.closes = 0 ∧ s.recvPc = .reading ∧ s.sendPc = .done := by decide

/-- `loopReceive` without a deferred `recovery`: a handler panic escapes the goroutine -/
theorem witness_recv_without_recovery :
    let c : Cfg := { Cfg.good with recvDefers := .quitOnly }
    (events c Sess.init [.handlerPanic]).crashed = true := by decide

/-- `quit` that does not close the connection: after a local Close the read loop never stops -/
theorem witness_quit_without_conn_close :
    let c : Cfg := { Cfg.good with quitCloseConn := false }
    let s := events c Sess.init [.close]
    quiescent c s ∧ s.exits = 1 ∧ s.recvPc = .reading := by decide

/-- `quit` that does not close the queue: after a read error the send loop never stops -/
theorem witness_quit_without_queue_close :
    let c : Cfg := { Cfg.good with quitCloseQ := false }
    let s := events c Sess.init [.readFail]
    quiescent c s ∧ s.exits = 1 ∧ s.sendPc = .idle := by decide

/-- the order of the two defers does not matter (a deferred `recovery` recovers, then `quit` still runs) -/
example : Proved { Cfg.good with sendDefers := .quitRecovery, recvDefers := .quitRecovery } := by decide

end Nv.C16
