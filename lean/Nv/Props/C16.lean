import Nv.Model.C16
/-! C16 — property theorems (work in progress). -/
namespace Nv.C16

example : Proved Cfg.good := by decide

end Nv.C16
