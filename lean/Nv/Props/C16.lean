import Nv.Model.C16
import Nv.Proofs.C16Sess
import Nv.Proofs.C16Term
import Nv.Proofs.C16Flush
import Nv.Proofs.C16World
import Nv.Proofs.C16Conf
/-!
C16 — property theorems for `stcp.Session`, `SessionMgr.count` and the accept loop (model: `Nv.Model.C16`).

Every statement quantifies over all reachable states of the transition systems, i.e. over every schedule of the
two loops, every order and combination of terminating events, any number of queued sends, any number of sessions and
connection attempts; `c` ranges over the proved configurations. Below the transition level the behaviour of the OS
(`net.Conn`, deadlines, the Go scheduler) is assumed — see docs/C16.md. For the configuration extracted from
today's source (`emptySend = quits`) the flush theorem is false: `witness_emptySend_quits`.
-/
namespace Nv.C16

/-! ### one session: single exit -/

/-- the exit callback, the count decrement and the connection close each happen at most once, in every reachable state -/
theorem sess_exit_at_most_once {c : Cfg} (hc : Proved c) (s : Sess) (hr : (sessLTS c).Reach s) :
    s.exits ≤ 1 ∧ s.decs ≤ 1 ∧ s.closes ≤ 1 := by
  obtain ⟨h1, h2, h3, _⟩ := sinv_reach hc s hr
  cases ho : s.onceDone <;> simp [ho] at h1 <;> omega

/-- … and they happen together: all three counters equal 1 once the exit once has fired, 0 before; a loop that has
    stopped has run `quit`; no panic escapes -/
theorem sess_exit_together {c : Cfg} (hc : Proved c) (s : Sess) (hr : (sessLTS c).Reach s) :
    s.exits = (if s.onceDone then 1 else 0) ∧ s.decs = s.exits ∧ s.closes = s.exits ∧
    (s.sendPc = .done → s.onceDone = true) ∧ (s.recvPc = .done → s.onceDone = true) ∧ s.crashed = false := by
  obtain ⟨h1, h2, h3, _, h5, h6, h7⟩ := sinv_reach hc s hr
  exact ⟨h1, h2, h3, h5, h6, h7⟩

/-! ### one session: terminal states -/

/-- In every reachable state in which neither loop can move, the session is either over — exit callback ran exactly
    once, count given back exactly once, connection closed, both loops stopped — or it is still fully alive and
    waiting: nothing has been released, the read loop is blocked on an open connection, and the send loop is parked on
    an empty open queue or blocked writing to a peer that does not read. -/
theorem sess_terminal_state {c : Cfg} (hc : Proved c) (s : Sess) (hr : (sessLTS c).Reach s) (hq : quiescent c s) :
    ended s ∨ waiting s := by
  rw [quiescent_proved hc] at hq
  exact quiescentP_cases (sinv_reach hc s hr) hq.1 hq.2

/-- whatever ends it: once any terminating condition holds, a quiescent state is an ended one. The conditions are
    stable (`terminating_condition_stable`), so this is "after the event, as soon as the loops have run". -/
theorem sess_terminating_event_ends {c : Cfg} (hc : Proved c) (s : Sess) (hr : (sessLTS c).Reach s) (hq : quiescent c s)
    (hev : s.recvPc ≠ .reading                                  -- read error / timeout / handler error / panic
        ∨ s.peerClosed = true                                   -- peer close
        ∨ s.closes ≠ 0
        ∨ (s.qClosed = true ∧ (s.peerDrain = true ∨ ∀ x, s.sendPc ≠ .writing x))   -- local Close, write not blocked
        ∨ (s.wfault = true ∧ ∃ x, s.sendPc = .writing x)) :     -- write error / timeout while writing
    ended s := by
  rcases sess_terminal_state hc s hr hq with h | ⟨_, _, _, w4, w5, w6, w7⟩
  · exact h
  · exfalso
    rcases hev with h | h | h | ⟨h, h'⟩ | ⟨h, x, h'⟩
    · exact h w5
    · simp [w6] at h
    · exact h w4
    · rcases w7 with ⟨_, _, a3⟩ | ⟨x, a1, a2, _⟩
      · simp [a3] at h
      · rcases h' with h' | h'
        · simp [a2] at h'
        · exact h' x a1
    · rcases w7 with ⟨a1, _, _⟩ | ⟨y, _, _, a3⟩
      · simp [a1] at h'
      · simp [a3] at h

/-- the terminating conditions never go away again -/
theorem terminating_condition_stable {c : Cfg} (hc : Proved c) {s s' : Sess} {a : Act} (hs : step c s a = some s') :
    (s.recvPc ≠ .reading → s'.recvPc ≠ .reading) ∧ (s.peerClosed = true → s'.peerClosed = true) ∧
    (s.qClosed = true → s'.qClosed = true) ∧ (s.wfault = true → s'.wfault = true) ∧ (s.closes ≠ 0 → s'.closes ≠ 0) := by
  have hq := quitP_same s
  have hqc : s.closes ≠ 0 → (quitP s).closes ≠ 0 := by unfold quitP; split <;> simp <;> omega
  cases a with
  | env e =>
    simp only [step, Option.some.injEq] at hs; subst hs
    cases e <;> simp only [envStep] <;> (try split) <;> simp_all
  | sendStep =>
    rw [step, sendStep_proved hc] at hs
    unfold sendStepP at hs
    split at hs
    · split at hs
      · split at hs <;> cases hs; simp
      · split at hs <;> (cases hs; simp)
    · split at hs
      · cases hs; simp
      · split at hs <;> cases hs; simp
    · cases hs; simp only; exact ⟨by simp [hq.2.2.1], by simp [hq.2.2.2.2.2.1], hq.2.2.2.2.2.2.2.2.2.1, by simp [hq.2.2.2.2.2.2.1], hqc⟩
    · cases hs
  | recvStep =>
    rw [step, recvStep_proved hc] at hs
    unfold recvStepP at hs
    split at hs
    · split at hs <;> cases hs; simp
    · cases hs; simp only; exact ⟨by simp, by simp [hq.2.2.2.2.2.1], hq.2.2.2.2.2.2.2.2.2.1, by simp [hq.2.2.2.2.2.2.1], hqc⟩
    · cases hs

/-! ### one session: progress -/

def Act.internal : Act → Bool
  | .sendStep | .recvStep => true
  | .env _ => false

/-- every loop step strictly decreases `measure s = 2·|queue| + weights ≤ 2·|queue| + 5` -/
theorem sess_progress {c : Cfg} (hc : Proved c) {s s' : Sess} {a : Act} (ha : a.internal = true)
    (hs : step c s a = some s') : measure s' < measure s := by
  cases a with
  | env e => simp [Act.internal] at ha
  | sendStep => rw [step, sendStep_proved hc] at hs; exact measure_sendStepP hs
  | recvStep => rw [step, recvStep_proved hc] at hs; exact measure_recvStepP hs

theorem measure_le (s : Sess) : measure s ≤ 2 * s.q.length + 5 := by
  unfold measure
  cases s.sendPc <;> cases s.recvPc <;> simp [SendPc.weight, RecvPc.weight] <;> omega

/-- hence without new environment events the loops take at most `2·queued + 5` more steps (no livelock) -/
theorem sess_internal_run_bounded {c : Cfg} (hc : Proved c) : ∀ (as : List Act) (s s' : Sess),
    (∀ a ∈ as, a.internal = true) → (sessLTS c).run s as = some s' → as.length + measure s' ≤ measure s
  | [], s, s', _, h => by simp [LTS.run] at h; subst h; simp
  | a :: as, s, s', hi, h => by
    simp only [LTS.run] at h
    cases h1 : (sessLTS c).step s a with
    | none => simp [h1] at h
    | some s1 =>
      simp only [h1] at h
      have := sess_progress hc (hi a (by simp)) h1
      have := sess_internal_run_bounded hc as s1 s' (fun b hb => hi b (by simp [hb])) h
      simp; omega

/-- running the loops until nothing moves (what the correspondence does after each event) ends in a quiescent,
    reachable state -/
theorem settle_quiescent {c : Cfg} (hc : Proved c) (s : Sess) : quiescent c (settle c s) :=
  settleN_quiescent hc (measure s) s (Nat.le_refl _)

theorem settle_reach {c : Cfg} (s : Sess) (hr : (sessLTS c).Reach s) : (sessLTS c).Reach (settle c s) :=
  settleN_reach _ s hr

theorem event_reach {c : Cfg} (s : Sess) (e : Env) (hr : (sessLTS c).Reach s) : (sessLTS c).Reach (event c s e) :=
  settle_reach _ (LTS.Reach.step (a := Act.env e) hr rfl)

theorem events_reach {c : Cfg} : ∀ (es : List Env) (s : Sess), (sessLTS c).Reach s → (sessLTS c).Reach (events c s es)
  | [], _, hr => hr
  | e :: es, s, hr => by
    simp only [events, List.foldl_cons]
    exact events_reach es _ (event_reach s e hr)

/-- after a peer close, a failing read, a handler error or a handler panic, the settled session is over -/
theorem event_ends_session {c : Cfg} (hc : Proved c) (s : Sess) (hr : (sessLTS c).Reach s) (e : Env)
    (he : e = .peerClose ∨ ((e = .readFail ∨ e = .handlerPanic) ∧ s.recvPc = .reading)) :
    ended (event c s e) ∨ ended s := by
  left
  apply sess_terminating_event_ends hc _ (event_reach s e hr) (settle_quiescent hc _)
  have key : ∀ (n : Nat) (t : Sess), (t.recvPc ≠ .reading ∨ t.peerClosed = true) →
      ((settleN c n t).recvPc ≠ .reading ∨ (settleN c n t).peerClosed = true) := by
    intro n
    induction n with
    | zero => intro t h; exact h
    | succ n ih =>
      intro t h
      simp only [settleN]
      cases h1 : sendStep c t with
      | some t' =>
        have st := terminating_condition_stable hc (a := Act.sendStep) (s := t) h1
        exact ih t' (h.imp st.1 st.2.1)
      | none =>
        simp only
        cases h2 : recvStep c t with
        | some t' =>
          have st := terminating_condition_stable hc (a := Act.recvStep) (s := t) h2
          exact ih t' (h.imp st.1 st.2.1)
        | none => exact h
  have h0 : (envStep s e).recvPc ≠ .reading ∨ (envStep s e).peerClosed = true := by
    rcases he with he | ⟨he | he, hrd⟩ <;> subst he <;> simp [envStep, *]
  rcases key _ _ h0 with h | h
  · exact Or.inl h
  · exact Or.inr (Or.inl h)

/-- Schedule independence of one script step: from a quiescent reachable state, after one environment event, *every*
    schedule of the two loops that runs until neither can move ends in the same state — the one the oracle computes
    (`event c s e`). So the correspondence compares against the only possible outcome, not against one schedule. -/
theorem event_schedule_independent {c : Cfg} (hc : Proved c) (s : Sess) (hr : (sessLTS c).Reach s) (hq : quiescent c s)
    (e : Env) (as : List Act) (hi : ∀ a ∈ as, a.internal = true) (t : Sess)
    (hrun : (sessLTS c).run (envStep s e) as = some t) (hqt : quiescent c t) : t = event c s e := by
  have hS := sinv_env (sinv_reach hc s hr) e
  have hK := norace_after_event (sess_terminal_state hc s hr hq) e
  have irun_of_run : ∀ (as : List Act) (u t : Sess), (∀ a ∈ as, a.internal = true) →
      (sessLTS c).run u as = some t → IRun u t := by
    intro as
    induction as with
    | nil => intro u t _ h; simp [LTS.run] at h; subst h; exact IRun.refl _
    | cons a as ih =>
      intro u t hi h
      simp only [LTS.run] at h
      cases h1 : (sessLTS c).step u a with
      | none => simp [h1] at h
      | some u1 =>
        simp only [h1] at h
        have r := ih u1 t (fun b hb => hi b (by simp [hb])) h
        have hia := hi a (by simp)
        cases a with
        | env e => simp [Act.internal] at hia
        | sendStep => simp only [sessLTS] at h1; rw [step, sendStep_proved hc] at h1; exact IRun.send h1 r
        | recvStep => simp only [sessLTS] at h1; rw [step, recvStep_proved hc] at h1; exact IRun.recv h1 r
  have r1 := irun_of_run as _ t hi hrun
  have n1 := (quiescent_proved hc t).1 hqt
  have r2 : IRun (envStep s e) (event c s e) := irun_settleN hc _ _
  have n2 := (quiescent_proved hc _).1 (settle_quiescent hc (envStep s e))
  exact normal_unique _ _ _ _ (Nat.le_refl _) hS hK r1 n1 r2 n2

/-! ### one session: flush before local close -/

/-- the peer reads a prefix of what `Send` accepted: in order, nothing duplicated or invented — in every reachable state -/
theorem all_inv_reach {c : Cfg} (hc : Proved c) : ∀ s, (sessLTS c).Reach s → SInv s ∧ GInv s ∧ FOk s :=
  (sessLTS c).inv_of_step (fun s => SInv s ∧ GInv s ∧ FOk s) ⟨sinv_init, ginv_init, fok_init⟩ (by
    intro s a s' ih hs
    have hs' : step c s a = some s' := hs
    refine ⟨sinv_step hc ih.1 hs', ?_, ?_⟩
    · cases a with
      | env e => simp only [step, Option.some.injEq] at hs'; subst hs'; exact ginv_env ih.2.1 e
      | sendStep => rw [step, sendStep_proved hc] at hs'; exact ginv_sendStepP ih.2.1 hs'
      | recvStep => rw [step, recvStep_proved hc] at hs'; exact ginv_recvStepP ih.2.1 hs'
    · cases a with
      | env e => simp only [step, Option.some.injEq] at hs'; subst hs'; exact fok_env ih.2.2 e
      | sendStep => rw [step, sendStep_proved hc] at hs'; exact fok_sendStepP ih.1 ih.2.1 ih.2.2 hs'
      | recvStep => rw [step, recvStep_proved hc] at hs'; exact fok_recvStepP ih.1 ih.2.2 hs')

/-- the peer reads a prefix of what `Send` accepted: in order, nothing duplicated or invented — in every reachable state -/
theorem delivered_in_order {c : Cfg} (hc : Proved c) (s : Sess) (hr : (sessLTS c).Reach s) :
    s.delivered <+: s.accepted.flatten := (all_inv_reach hc s hr).2.1.pref

/-- Flush before local close: in every reachable state in which no terminating event other than a local `Close`
    has happened (no peer close, no failing read or write, no handler panic), if the connection is closed then the
    peer has read *all* bytes `Send` accepted, in order. (The connection is closed by `quit` only, so this holds at
    the moment of closing.) Nothing is accepted after the local Close: `no_accept_after_close`. -/
theorem flush_before_close {c : Cfg} (hc : Proved c) (s : Sess) (hr : (sessLTS c).Reach s)
    (hf : s.faulted = false) (hcl : s.closes ≠ 0) : s.delivered = s.accepted.flatten := by
  obtain ⟨hS, _, hF⟩ := all_inv_reach hc s hr
  obtain ⟨_, _, f3, f4⟩ := hF hf
  exact (f4 (f3 (once_of_closes hS hcl))).1

/-- … and until then nothing is lost either: while the send loop runs, delivered ++ in-flight ++ queued = accepted -/
theorem nothing_lost_while_sending {c : Cfg} (hc : Proved c) (s : Sess) (hr : (sessLTS c).Reach s)
    (hl : sendLooping s) : s.delivered ++ inflight s ++ s.q.flatten = s.accepted.flatten :=
  (all_inv_reach hc s hr).2.1.pending hl

theorem no_accept_after_close (s : Sess) (bs : List Nat) (h : s.qClosed = true) :
    sendAccepted s = false ∧ (envStep s (.send bs)).accepted = s.accepted := by
  simp [sendAccepted, envStep, h]

/-- the events that do not set `faulted` -/
def Act.benign : Act → Bool
  | .env (.send _) | .env .close | .env .peerDrain | .env .peerHold | .env .peerData | .sendStep | .recvStep => true
  | _ => false

/-- trace form: along any run made only of sends, local closes, the peer reading or pausing, handler data and loop
    steps — in any order and number — a closed connection means everything accepted was delivered, in order -/
theorem flush_before_close_trace {c : Cfg} (hc : Proved c) (as : List Act) (s : Sess)
    (hb : ∀ a ∈ as, a.benign = true) (hrun : (sessLTS c).run Sess.init as = some s) (hcl : s.closes ≠ 0) :
    s.delivered = s.accepted.flatten := by
  have hr : (sessLTS c).Reach s := LTS.reach_of_run _ as _ _ LTS.Reach.init hrun
  apply flush_before_close hc s hr _ hcl
  have key : ∀ (as : List Act) (t t' : Sess), (∀ a ∈ as, a.benign = true) → t.faulted = false →
      (sessLTS c).run t as = some t' → t'.faulted = false := by
    intro as
    induction as with
    | nil => intro t t' _ h0 h; simp [LTS.run] at h; subst h; exact h0
    | cons a as ih =>
      intro t t' hb h0 h
      simp only [LTS.run] at h
      cases h1 : (sessLTS c).step t a with
      | none => simp [h1] at h
      | some t1 =>
        simp only [h1] at h
        refine ih t1 t' (fun b hb' => hb b (by simp [hb'])) ?_ h
        have hba := hb a (by simp)
        have hq := quitP_same t
        cases a with
        | env e =>
          simp only [sessLTS, step, Option.some.injEq] at h1; subst h1
          cases e <;> simp [Act.benign] at hba <;> simp only [envStep] <;> (try split) <;> simp [h0]
        | sendStep =>
          simp only [sessLTS] at h1; rw [step, sendStep_proved hc] at h1
          unfold sendStepP at h1
          split at h1
          · split at h1
            · split at h1 <;> cases h1; simp [h0]
            · split at h1 <;> (cases h1; simp [h0])
          · split at h1
            · cases h1; simp [h0]
            · split at h1 <;> cases h1; simp [h0]
          · cases h1; simp [hq.2.2.2.2.2.2.2.1, h0]
          · cases h1
        | recvStep =>
          simp only [sessLTS] at h1; rw [step, recvStep_proved hc] at h1
          unfold recvStepP at h1
          split at h1
          · split at h1 <;> cases h1; simp [h0]
          · cases h1; simp [hq.2.2.2.2.2.2.2.1, h0]
          · cases h1
  exact key as Sess.init s hb rfl hrun

/-! ### many sessions: the manager's count and the accept loop -/

/-- every session of a reachable world is in a reachable state of the one-session system, so all theorems above
    hold for each of any number of simultaneous sessions -/
theorem world_sess_reach {c : Cfg} (max : Int) : ∀ w, (worldLTS c max).Reach w →
    w.max = max ∧ ∀ s ∈ w.sess, (sessLTS c).Reach s :=
  (worldLTS c max).inv_of_step (fun w => w.max = max ∧ ∀ s ∈ w.sess, (sessLTS c).Reach s)
    ⟨rfl, by intro s hs; simp [worldLTS] at hs⟩ (by
    intro w a w' ih hs
    have hs' : wstep c w a = some w' := hs
    cases a with
    | connect =>
      simp only [wstep] at hs'
      split at hs'
      · cases hs'; exact ih
      · cases hs'
        refine ⟨ih.1, ?_⟩
        intro s hm
        rcases List.mem_append.1 hm with hm | hm
        · exact ih.2 s hm
        · simp at hm; subst hm; exact LTS.Reach.init
    | sess k a =>
      simp only [wstep] at hs'
      split at hs'
      · cases hs'
      · rename_i s0 hk
        split at hs'
        · cases hs'
        · rename_i s1 hst
          cases hs'
          refine ⟨ih.1, ?_⟩
          intro s hm
          rcases List.mem_or_eq_of_mem_set hm with hm | hm
          · exact ih.2 s hm
          · subst hm
            exact LTS.Reach.step (ih.2 s0 (List.mem_of_getElem? hk)) hst)

/-- balanced count: in every reachable world the count equals the number of sessions whose exit has not fired —
    each session adds one at `Start` and gives exactly that one back, whatever ends it -/
theorem count_balanced {c : Cfg} (hc : Proved c) (max : Int) (w : World) (hr : (worldLTS c max).Reach w) :
    w.count = (aliveNum w.sess : Int) :=
  liveCount_eq_alive w.sess (fun s hs => sinv_reach hc s ((world_sess_reach max w hr).2 s hs))

theorem count_nonneg {c : Cfg} (hc : Proved c) (max : Int) (w : World) (hr : (worldLTS c max).Reach w) : 0 ≤ w.count := by
  rw [count_balanced hc max w hr]; omega

/-- the count never exceeds the configured maximum -/
theorem count_le_max {c : Cfg} (hc : Proved c) (max : Int) (hmax : 0 ≤ max) (w : World)
    (hr : (worldLTS c max).Reach w) : w.count ≤ max := by
  have key : ∀ w, (worldLTS c max).Reach w → w.max = max ∧ w.count ≤ max :=
    (worldLTS c max).inv_of_step (fun w => w.max = max ∧ w.count ≤ max)
      ⟨rfl, by simpa [worldLTS, World.count, liveCount] using hmax⟩ (by
      intro w a w' ih hs
      have hs' : wstep c w a = some w' := hs
      cases a with
      | connect =>
        simp only [wstep] at hs'
        split at hs'
        · cases hs'; exact ih
        · rename_i hfull
          cases hs'
          refine ⟨ih.1, ?_⟩
          simp only [full, hc.2.2.2.2.2.2.2.2.2.2, Bool.not_eq_true, decide_eq_false_iff_not] at hfull
          simp only [World.count, liveCount_append] at hfull ⊢
          simp [Sess.init]; omega
      | sess k a =>
        simp only [wstep] at hs'
        split at hs'
        · cases hs'
        · rename_i s0 hk
          split at hs'
          · cases hs'
          · rename_i s1 hst
            cases hs'
            refine ⟨ih.1, ?_⟩
            have hm := decs_mono_P hc hst
            have := liveCount_set w.sess k s0 s1 hk
            simp only [World.count] at ih ⊢
            omega)
  exact (key w hr).2

/-- with a negative maximum nothing is ever admitted -/
theorem negative_max_admits_nothing {c : Cfg} (hc : Proved c) (max : Int) (hmax : max < 0) (w : World)
    (hr : (worldLTS c max).Reach w) : w.sess = [] := by
  have key : ∀ w, (worldLTS c max).Reach w → w.max = max ∧ w.sess = [] :=
    (worldLTS c max).inv_of_step (fun w => w.max = max ∧ w.sess = []) ⟨rfl, rfl⟩ (by
      intro w a w' ih hs
      have hs' : wstep c w a = some w' := hs
      cases a with
      | connect =>
        simp only [wstep] at hs'
        split at hs'
        · cases hs'; exact ih
        · rename_i hfull
          exfalso
          simp only [full, hc.2.2.2.2.2.2.2.2.2.2, Bool.not_eq_true, decide_eq_false_iff_not] at hfull
          simp only [World.count, ih.2, liveCount, ih.1] at hfull
          omega
      | sess k a => simp [wstep, ih.2] at hs')
  exact (key w hr).2

/-- surplus connections are closed on accept, and only those: the accept loop closes the new connection exactly
    when the count has reached the maximum; otherwise it starts a session (count + 1, inside `Start`) -/
theorem accept_decision {c : Cfg} (hc : Proved c) (w : World) :
    wstep c w .connect =
      if w.count ≥ w.max then some { w with rejected := w.rejected + 1 }
      else some { w with sess := w.sess ++ [Sess.init] } := by
  simp only [wstep, full, hc.2.2.2.2.2.2.2.2.2.2]
  by_cases h : w.count ≥ w.max <;> simp [h]

/-- when every session of a reachable world is quiescent, the count is exactly the number of sessions that are
    still waiting: every ended session has returned the count to its previous value -/
theorem count_at_quiescence {c : Cfg} (hc : Proved c) (max : Int) (w : World) (hr : (worldLTS c max).Reach w)
    (hq : ∀ s ∈ w.sess, quiescent c s) :
    (∀ s ∈ w.sess, ended s ∨ waiting s) ∧ w.count = ((w.sess.filter (fun s => !s.onceDone)).length : Int) := by
  have hsr := (world_sess_reach max w hr).2
  refine ⟨fun s hs => sess_terminal_state hc s (hsr s hs) (hq s hs), ?_⟩
  rw [count_balanced hc max w hr]
  have : ∀ l : List Sess, aliveNum l = (l.filter (fun s => !s.onceDone)).length := by
    intro l
    induction l with
    | nil => rfl
    | cons x xs ih => cases ho : x.onceDone <;> simp [aliveNum, ho, ih] <;> omega
  rw [this]

/-! ### non-vacuity: concrete reachable states satisfying the hypotheses -/

example : Proved Cfg.good := by decide

/-- a session ended by a handler panic after two sends: reachable, quiescent, ended -/
example : let s := events Cfg.good Sess.init [.send [1, 2], .send [3], .peerData, .handlerPanic]
    quiescent Cfg.good s ∧ ended s ∧ s.delivered = [1, 2, 3] ∧ s.faulted = true := by decide

/-- local Close behind a blocked write and two queued items: not over while the peer does not read (`waiting`),
    everything delivered in order once it does, then closed -/
example : let s := events Cfg.good Sess.init [.peerHold, .send [1], .send [2, 3], .send [4], .close]
    quiescent Cfg.good s ∧ ¬ ended s ∧ s.closes = 0 ∧ s.faulted = false := by decide
example : let s := events Cfg.good Sess.init [.peerHold, .send [1], .send [2, 3], .send [4], .close, .send [9], .peerDrain]
    ended s ∧ s.closes ≠ 0 ∧ s.faulted = false ∧ s.delivered = [1, 2, 3, 4] ∧ s.accepted = [[1], [2, 3], [4]] := by decide

/-- the peer closes while a write is blocked: both loops can move; the receive-first schedule ends where the oracle's
    send-first schedule (`event`) ends -/
example : let s := events Cfg.good Sess.init [.peerHold, .send [1], .send [2]]
    quiescent Cfg.good s ∧
    (sessLTS Cfg.good).run (envStep s .peerClose) [.recvStep, .recvStep, .sendStep, .sendStep] = some (event Cfg.good s .peerClose) ∧
    quiescent Cfg.good (event Cfg.good s .peerClose) := by decide

/-- three connection attempts against maxConn = 2, one session ends, a fourth attempt -/
example : ((worldLTS Cfg.good 2).run { max := 2 }
    [.connect, .connect, .connect, .sess 0 (.env .peerClose), .sess 0 .recvStep, .sess 0 .recvStep, .sess 0 .sendStep,
     .sess 0 .sendStep, .connect]).map (fun w => (w.count, w.rejected, w.sess.length)) = some (2, 1, 3) := by decide

/-! ### the configurations for which the property is false: concrete witnesses (replayed on the real code by
    `c16 corr`, fixed cases tagged `witness`) -/

/-- today's source: a zero-length item makes `loopSend` return; items accepted after it and before the local Close
    are never written. Script: hold, send 6161, send -, send 6262, close, drain. -/
theorem witness_emptySend_quits :
    let c : Cfg := { Cfg.good with emptySend := .quits }
    let s := events c Sess.init [.peerHold, .send [0x61, 0x61], .send [], .send [0x62, 0x62], .close, .peerDrain]
    s.faulted = false ∧ s.closes ≠ 0 ∧ s.accepted.flatten = [0x61, 0x61, 0x62, 0x62] ∧ s.delivered = [0x61, 0x61] := by decide

theorem not_flush_emptySend_quits :
    ¬ (∀ s, (sessLTS { Cfg.good with emptySend := .quits }).Reach s → s.faulted = false → s.closes ≠ 0 →
        s.delivered = s.accepted.flatten) := by
  intro h
  have := h (events { Cfg.good with emptySend := .quits } Sess.init
      [.peerHold, .send [0x61, 0x61], .send [], .send [0x62, 0x62], .close, .peerDrain])
    (events_reach _ _ LTS.Reach.init) (by decide) (by decide)
  revert this; decide

/-- `loopSend` popping with `Pop`: items still queued at the local Close are dropped -/
theorem witness_pop_loses_queued :
    let c : Cfg := { Cfg.good with sendPop := .pop }
    let s := events c Sess.init [.peerHold, .send [1], .send [2], .close, .peerDrain]
    s.faulted = false ∧ s.closes ≠ 0 ∧ s.accepted.flatten = [1, 2] ∧ s.delivered = [1] := by decide

/-- `quit` without `exitOnce`: both loops run the body — OnExit twice, count −1 -/
theorem witness_quit_without_once :
    let c : Cfg := { Cfg.good with quitOnce := false }
    let s := events c Sess.init [.close]
    s.exits = 2 ∧ s.decs = 2 ∧ liveCount [s] = -1 := by decide

/-- accept loop comparing with `>`: maxConn + 1 sessions -/
theorem witness_accept_gt :
    let c : Cfg := { Cfg.good with acceptCmp := .gt }
    ((worldLTS c 1).run { max := 1 } [.connect, .connect]).map World.count = some 2 := by decide

/-- `loopSend` without a deferred `quit`: a local Close stops the send loop and nothing else -/
theorem witness_send_without_deferred_quit :
    let c : Cfg := { Cfg.good with sendDefers := .recoveryOnly }
    let s := events c Sess.init [.close]
    quiescent c s ∧ s.exits = 0 ∧ s.closes = 0 ∧ s.recvPc = .reading ∧ s.sendPc = .done := by decide

/-- `loopReceive` without a deferred `recovery`: a handler panic escapes the goroutine -/
theorem witness_recv_without_recovery :
    let c : Cfg := { Cfg.good with recvDefers := .quitOnly }
    (events c Sess.init [.handlerPanic]).crashed = true := by decide

/-- `quit` that does not close the connection: after a local Close the read loop never stops -/
theorem witness_quit_without_conn_close :
    let c : Cfg := { Cfg.good with quitCloseConn := false }
    let s := events c Sess.init [.close]
    quiescent c s ∧ s.exits = 1 ∧ s.recvPc = .reading := by decide

/-- `quit` that does not close the queue: after a read error the send loop never stops -/
theorem witness_quit_without_queue_close :
    let c : Cfg := { Cfg.good with quitCloseQ := false }
    let s := events c Sess.init [.readFail]
    quiescent c s ∧ s.exits = 1 ∧ s.sendPc = .idle := by decide

/-- the order of the two defers does not matter (a deferred `recovery` recovers, then `quit` still runs) -/
example : Proved { Cfg.good with sendDefers := .quitRecovery, recvDefers := .quitRecovery } := by decide

end Nv.C16
