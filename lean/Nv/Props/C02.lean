import Nv.Model.C02
import Nv.Proofs.C02Inv4
/-!
C02 — property theorems for `syncx/keylock` (model: `Nv.Model.C02`, invariant: `Nv.Proofs.C02Inv*`).

Every theorem quantifies over all configurations `c` with `Proved c`, every shard count `n`, every routing
function `sh` with `sh k < n` (single lockers: `n = 1`, `sh = fun _ => 0`), and every reachable state of the
transition system, i.e. every interleaving of Lock/RLock/Locks/RLocks/Unlock/RUnlock/Unlocks/RUnlocks by any
number of threads over any keys, with any admission order among waiting writers and readers.
A `Tid` is the owner identity of one outstanding acquisition (see the model header).
-/
namespace Nv.C02

variable {c : Cfg} {n : Nat} {sh : Key → Nat} {s : State}

/-- **exclusion**: a key write-locked by `t1` is held by nobody else, in any mode -/
theorem kl_excl (hc : Proved c) (hsh : ∀ k, sh k < n) (hr : (lts c n sh).Reach s)
    {t1 t2 : Tid} {k : Key} {o1 o2 : ObjId} {m2 : Mode}
    (h1 : (k, o1, Mode.w) ∈ (s.th t1).held) (h2 : (k, o2, m2) ∈ (s.th t2).held) :
    t1 = t2 ∧ o1 = o2 ∧ m2 = Mode.w := by
  have hI := inv_reach hc n sh hsh s hr
  have e1 := hI.refTab t1 k o1 .w (by simp [refs, h1])
  have e2 := hI.refTab t2 k o2 m2 (by simp [refs, h2])
  rw [e1] at e2; cases e2
  have hw := (hI.holdW t1 o1).2 ⟨k, h1⟩
  cases m2 with
  | w =>
    have hw2 := (hI.holdW t2 o1).2 ⟨k, h2⟩
    rw [hw] at hw2; cases hw2; exact ⟨rfl, rfl, rfl⟩
  | r =>
    have hr2 := (hI.holdR t2 o1).2 ⟨k, h2⟩
    rw [(hI.wOk o1 t1 hw).2.1] at hr2; cases hr2

/-- read locks are shared only among readers: if some thread read-holds `k`, every holder of `k` is a reader -/
theorem kl_readers_only_with_readers (hc : Proved c) (hsh : ∀ k, sh k < n) (hr : (lts c n sh).Reach s)
    {t1 t2 : Tid} {k : Key} {o1 o2 : ObjId} {m2 : Mode}
    (h1 : (k, o1, Mode.r) ∈ (s.th t1).held) (h2 : (k, o2, m2) ∈ (s.th t2).held) : m2 = Mode.r := by
  cases m2 with
  | r => rfl
  | w => exact absurd (kl_excl hc hsh hr h2 h1).2.2 (by decide)

/-- a thread holds a key at most once -/
theorem kl_held_once (hc : Proved c) (hsh : ∀ k, sh k < n) (hr : (lts c n sh).Reach s) (t : Tid) :
    ((s.th t).held.map (·.1)).Nodup := by
  have := (inv_reach hc n sh hsh s hr).keysNd t
  simp only [allKeys, refs, List.map_append] at this
  rw [List.append_assoc] at this
  exact (List.nodup_append.1 this).1

/-- **same object**: while a thread is registered on `k` (waiting, about to lock, or holding) the map entry of `k`
is the object it registered on: the entry is neither freed nor replaced (the count is raised before blocking) -/
theorem kl_same_object (hc : Proved c) (hsh : ∀ k, sh k < n) (hr : (lts c n sh).Reach s)
    {t : Tid} {k : Key} {o : ObjId} {m : Mode} (h : (k, o, m) ∈ refs (s.th t)) : s.table k = some o :=
  (inv_reach hc n sh hsh s hr).refTab t k o m h

/-- different keys never share an object (so a step on one key reads and writes no state of another key) -/
theorem kl_key_objects_distinct (hc : Proved c) (hsh : ∀ k, sh k < n) (hr : (lts c n sh).Reach s)
    {k1 k2 : Key} {o : ObjId} (h1 : s.table k1 = some o) (h2 : s.table k2 = some o) : k1 = k2 :=
  (inv_reach hc n sh hsh s hr).tInj k1 k2 o h1 h2

/-- the reference counts are exactly the registered threads (waiters and holders), per mode -/
theorem kl_counts (hc : Proved c) (hsh : ∀ k, sh k < n) (hr : (lts c n sh).Reach s) (o : ObjId) :
    (s.objs o).wc = ((s.objs o).regW.length : Int) ∧ (s.objs o).rc = ((s.objs o).regR.length : Int) ∧
    (s.objs o).regW.Nodup ∧ (s.objs o).regR.Nodup ∧
    (∀ t, t ∈ (s.objs o).regW ↔ ∃ k, (k, o, Mode.w) ∈ refs (s.th t)) ∧
    (∀ t, t ∈ (s.objs o).regR ↔ ∃ k, (k, o, Mode.r) ∈ refs (s.th t)) := by
  have hI := inv_reach hc n sh hsh s hr
  exact ⟨hI.cntW o, hI.cntR o, hI.ndW o, hI.ndR o, fun t => hI.regW t o, fun t => hI.regR t o⟩

/-- **reclaim**: when no thread holds or awaits anything, the locker retains no per-key state -/
theorem kl_no_leak (hc : Proved c) (hsh : ∀ k, sh k < n) (hr : (lts c n sh).Reach s)
    (hidle : ∀ t, refs (s.th t) = []) (k : Key) : s.table k = none := by
  have hI := inv_reach hc n sh hsh s hr
  cases h : s.table k with
  | none => rfl
  | some o =>
    exfalso
    rcases hI.tabLive k o h with hw | hr'
    · obtain ⟨t, ht⟩ := List.exists_mem_of_ne_nil _ hw
      obtain ⟨k', hk'⟩ := (hI.regW t o).1 ht
      rw [hidle t] at hk'; cases hk'
    · obtain ⟨t, ht⟩ := List.exists_mem_of_ne_nil _ hr'
      obtain ⟨k', hk'⟩ := (hI.regR t o).1 ht
      rw [hidle t] at hk'; cases hk'

/-- per key: an entry exists only while somebody is registered on that key -/
theorem kl_entry_has_registrant (hc : Proved c) (hsh : ∀ k, sh k < n) (hr : (lts c n sh).Reach s)
    {k : Key} {o : ObjId} (h : s.table k = some o) : ∃ t m, (k, o, m) ∈ refs (s.th t) := by
  have hI := inv_reach hc n sh hsh s hr
  rcases hI.tabLive k o h with hw | hr'
  · obtain ⟨t, ht⟩ := List.exists_mem_of_ne_nil _ hw
    obtain ⟨k', hk'⟩ := (hI.regW t o).1 ht
    have := hI.tInj k' k o (hI.refTab t k' o _ hk') h
    subst this; exact ⟨t, .w, hk'⟩
  · obtain ⟨t, ht⟩ := List.exists_mem_of_ne_nil _ hr'
    obtain ⟨k', hk'⟩ := (hI.regR t o).1 ht
    have := hI.tInj k' k o (hI.refTab t k' o _ hk') h
    subst this; exact ⟨t, .r, hk'⟩

/-- no unlock path ever meets a missing map entry or an RWMutex that the caller does not hold -/
theorem kl_no_fault (hc : Proved c) (hsh : ∀ k, sh k < n) (hr : (lts c n sh).Reach s) : s.fault = false :=
  (inv_reach hc n sh hsh s hr).noFault

/-- **all held**: when Locks/RLocks is about to return, every listed key is held in the requested mode, at once -/
theorem kl_all_held (hc : Proved c) (hsh : ∀ k, sh k < n) (hr : (lts c n sh).Reach s)
    {t : Tid} {m : Mode} {all : List Key} (hph : (s.th t).phase = .acq m all []) :
    ∀ k ∈ all, holdsIn (s.th t) m k := by
  intro k hk
  rcases (inv_reach hc n sh hsh s hr).acqAll t m all [] hph k hk with h | h
  · simp at h
  · exact h

/-- a call's ghost key list is the list it was called with, so `kl_all_held` speaks about the caller's keys -/
theorem kl_call_records_keys (t : Tid) (m : Mode) (keys : List Key) {s' : State}
    (h : step c n sh s (.call t m keys) = some s') : ∃ gs, (s'.th t).phase = .reg m keys gs [] := by
  unfold step at h
  split at h
  · cases h
  · simp only at h
    split at h
    · cases h; exact ⟨groups c n sh keys, by simp⟩
    · cases h

/-- **independence (1)**: whether the blocking step of `t` is enabled, and what it does to the object, depends only
on the object of the key `t` is locking — not on any other key's state, the table, or other threads -/
theorem kl_lock_enabled_local (s1 s2 : State) (t : Tid) (h : s1.th t = s2.th t)
    (hobj : ∀ m all k o rest, (s1.th t).phase = .acq m all ((k, o) :: rest) → s1.objs o = s2.objs o) :
    (stepLock c s1 t).isSome = (stepLock c s2 t).isSome := by
  unfold stepLock
  rw [← h]
  cases hph : (s1.th t).phase with
  | idle => rfl
  | reg => rfl
  | rel => rfl
  | acq m all todo =>
    cases todo with
    | nil => rfl
    | cons p rest =>
      obtain ⟨k, o⟩ := p
      simp only
      rw [← hobj m all k o rest hph]
      cases tryLock m t (s1.objs o) <;> rfl

/-- **independence (2)**: the sections under a table mutex (registration and unlock loops) never block -/
theorem kl_table_sections_never_block (t : Tid) :
    (∀ m all gs acc, (s.th t).phase = .reg m all gs acc → (stepReg c s t).isSome) ∧
    (∀ m gs, (s.th t).phase = .rel m gs → (stepRel c s t).isSome) := by
  constructor
  · intro m all gs acc h
    unfold stepReg; rw [h]
    cases gs with
    | nil => rfl
    | cons g gs => cases g <;> rfl
  · intro m gs h
    unfold stepRel; rw [h]
    cases gs with
    | nil => rfl
    | cons g gs => cases g <;> rfl

/-- **independence (3)**: an object whose inner mutex `rw.w` is free (no writer holds, waits or has announced itself)
never blocks a caller that is not already asleep on it — whatever the state of every other key -/
theorem kl_free_object_admits (m : Mode) (t : Tid) (w : Wrap) (h1 : w.wOwner = none) (h4 : t ∉ w.pendR) :
    ∃ w1, tryLock m t w = .wait w1 ∨ tryLock m t w = .enter w1 := by
  cases m
  · simp [tryLock, tryR, h1, h4]
  · simp [tryLock, tryW, h1]

theorem pairwise_of_forall {α} {R : α → α → Prop} : ∀ {l : List α}, (∀ a ∈ l, ∀ b ∈ l, R a b) → l.Pairwise R
  | [], _ => List.Pairwise.nil
  | x :: l, h => List.Pairwise.cons (fun b hb => h x (by simp) b (by simp [hb]))
      (pairwise_of_forall (fun a ha b hb => h a (by simp [ha]) b (by simp [hb])))

theorem pairwise_flatMap_filter (sh : Key → Nat) (keys : List Key) :
    ∀ (is : List Nat), is.Pairwise (· < ·) →
      (is.flatMap (fun i => keys.filter (fun k => sh k = i))).Pairwise (fun a b => sh a ≤ sh b)
  | [], _ => by simp
  | i :: is, h => by
    rw [List.pairwise_cons] at h
    simp only [List.flatMap_cons]
    rw [List.pairwise_append]
    refine ⟨pairwise_of_forall ?_, pairwise_flatMap_filter sh keys is h.2, ?_⟩
    · intro a ha b hb
      simp only [List.mem_filter, decide_eq_true_eq] at ha hb
      rw [ha.2, hb.2]; exact Nat.le_refl _
    · intro a ha b hb
      simp only [List.mem_filter, decide_eq_true_eq] at ha
      rw [mem_flatMap_filter] at hb
      rw [ha.2]; exact Nat.le_of_lt (h.1 _ hb.2)

/-- **group order**: every multi-key call touches its keys in non-decreasing shard index, whatever the list order;
within one shard it keeps the caller's order; and it touches exactly the listed keys -/
theorem group_order_consistent (hc : Proved c) (hsh : ∀ k, sh k < n) (keys : List Key) :
    (acqOrder c n sh keys).Pairwise (fun a b => sh a ≤ sh b) ∧
    (∀ i, (acqOrder c n sh keys).filter (fun k => sh k = i) = keys.filter (fun k => sh k = i)) ∧
    (∀ k, k ∈ acqOrder c n sh keys ↔ k ∈ keys) := by
  unfold acqOrder
  rw [groups_of_proved hc, flatten_groupsAsc]
  refine ⟨pairwise_flatMap_filter sh keys _ List.pairwise_lt_range, ?_, ?_⟩
  · intro i
    have key : ∀ (is : List Nat), is.Nodup →
        (is.flatMap (fun j => keys.filter (fun k => sh k = j))).filter (fun k => sh k = i) =
          if i ∈ is then keys.filter (fun k => sh k = i) else [] := by
      intro is
      induction is with
      | nil => simp
      | cons j is ih =>
        intro hnd
        rw [List.nodup_cons] at hnd
        simp only [List.flatMap_cons, List.filter_append, List.filter_filter, ih hnd.2, List.mem_cons]
        by_cases hij : i = j
        · subst hij
          simp [hnd.1]
        · have : (keys.filter (fun k => decide (sh k = i) && decide (sh k = j))) = [] := by
            rw [List.filter_eq_nil_iff]
            intro a _
            simp only [Bool.and_eq_true, decide_eq_true_eq, not_and]
            intro h1 h2; exact hij (h1.symm.trans h2)
          rw [this]; simp [hij]
    rw [key _ List.nodup_range]
    split
    · rfl
    · next h =>
      rw [List.mem_range] at h
      symm; rw [List.filter_eq_nil_iff]
      intro a _
      simp only [decide_eq_true_eq]
      intro e; exact h (e ▸ hsh a)
  · intro k
    rw [mem_flatMap_filter, List.mem_range]
    exact ⟨fun h => h.1, fun h => ⟨h, hsh k⟩⟩

/-! ### deadlock freedom

Full statement (NOT proved; kept for the record):

  theorem kl_deadlock_free (hc : Proved c) (hsh : ∀ k, sh k < n) (hr : (lts c n sh).Reach s)
      (G : Key → Nat) (hG : Function.Injective G)
      (hord : ∀ t, the keys `t` still has to lock are strictly ascending in (sh k, G k) and above every key `t` holds)
      (hbusy : ∃ t, (s.th t).phase ≠ .idle) :
      ∃ t, ((s.th t).phase ≠ .idle ∧ ∃ a s', actor a = t ∧ step c n sh s a = some s') ∨
           ((s.th t).phase = .idle ∧ (s.th t).held ≠ [])      -- a holder that can still unlock

What is proved: `group_order_consistent` (all callers acquire in the one order (shard, list order)), the
"never blocked under a table mutex" and locality theorems above, and the rank argument itself in abstract form
(`kl_deadlock_free_partial`): if every blocked thread waits for a thread that holds a key of strictly smaller rank
than the key the waiter awaits, and blocked threads that hold something await a key of greater rank than what they
hold, then whenever somebody is blocked some thread that is waited for is not blocked.
Missing: the instantiation of `waitsFor` from the RWMutex state — it needs three more conjuncts in the
invariant (`wOwner = some u` ⇒ `u` is locking this object in write mode; `tokens ≤ |pendR|`, with equality when
`wOwner = none`; members of `pendR`/`pendW` are threads whose todo list starts with this object). -/

/-- the rank argument (abstract): no cycle of blocked threads when waiting goes up in rank -/
theorem kl_deadlock_free_partial (blocked : Tid → Prop) (awaits : Tid → Nat) (waitsFor : Tid → Tid → Prop) (bound : Nat)
    (hbound : ∀ t, blocked t → awaits t ≤ bound)
    (hwait : ∀ t, blocked t → ∃ u, waitsFor t u ∧ (blocked u → awaits t < awaits u))
    (t : Tid) (ht : blocked t) : ∃ v u, blocked v ∧ waitsFor v u ∧ ¬ blocked u := by
  have key : ∀ d t, blocked t → bound - awaits t ≤ d → ∃ v u, blocked v ∧ waitsFor v u ∧ ¬ blocked u := by
    intro d
    induction d with
    | zero =>
      intro t ht hd
      obtain ⟨u, hw, hu⟩ := hwait t ht
      refine ⟨t, u, ht, hw, fun hbu => ?_⟩
      have := hu hbu
      have := hbound u hbu
      have := hbound t ht
      omega
    | succ d ih =>
      intro t ht hd
      obtain ⟨u, hw, hu⟩ := hwait t ht
      by_cases hbu : blocked u
      · have := hu hbu
        have := hbound u hbu
        exact ih u hbu (by omega)
      · exact ⟨t, u, ht, hw, hbu⟩
  exact key (bound - awaits t) t ht (Nat.le_refl _)


/-! ### non-vacuity and negation witnesses (concrete runs of the transition system, single locker, key 0) -/

/-- the steps of a complete single-key `Lock`/`RLock` call by `t` when it is admitted at once -/
def lockNow (t : Tid) : Mode → List Act
  | .w => [.call t .w [0], .reg t, .reg t, .reg t, .lock t, .lock t, .lock t]
  | .r => [.call t .r [0], .reg t, .reg t, .reg t, .lock t, .lock t]
/-- a call that registers and then parks -/
def lockPark (t : Tid) (m : Mode) : List Act := [.call t m [0], .reg t, .reg t, .reg t, .lock t]
def unlockNow (t : Tid) (m : Mode) : List Act := [.uncall t m [0], .rel t, .rel t, .rel t]

def cfgToday : Cfg := ⟨.bothZero, .beforeBlock, .asc⟩
def single (c : Cfg) : LTS State Act := lts c 1 (fun _ => 0)

/-- non-vacuity of the hypotheses of the theorems above: a reachable state with two readers inside, a writer that has
announced itself and waits, and a later reader blocked behind it; counts are 3 readers / 1 writer -/
example : ((single cfgToday).run State.init (lockNow 0 .r ++ lockNow 1 .r ++ lockPark 2 .w ++ lockPark 3 .r)).map
    (fun s => decide ((s.th 0).held = [(0, 0, .r)] ∧ (s.th 1).held = [(0, 0, .r)] ∧ (s.objs 0).wOwner = some 2 ∧
      (s.objs 0).pendR = [3] ∧ (s.objs 0).rc = 3 ∧ (s.objs 0).wc = 1 ∧ s.table 0 = some 0)) = some true := by decide

/-- … and after everybody has left the table is empty again (the run exists, so `kl_no_leak` is not vacuous) -/
example : ((single cfgToday).run State.init (lockNow 0 .r ++ lockPark 1 .w ++
    unlockNow 0 .r ++ [.lock 1, .lock 1] ++ unlockNow 1 .w)).map (fun s => (s.table 0, (s.th 1).held, s.fault)) =
    some (none, [], false) := by decide

/-- the run used by the witnesses: W0 holds, W1 waits, W0 unlocks, W1 gets in, W2 arrives -/
def twoWritersRun : List Act :=
  lockNow 0 .w ++ lockPark 1 .w ++ unlockNow 0 .w ++ [.lock 1, .lock 1, .lock 1] ++ lockNow 2 .w

/-- today's configuration: the third writer parks -/
theorem today_third_writer_waits : ((single cfgToday).run State.init twoWritersRun) = none := by decide

/-- `tryFree` on `readCount == 0` only: the entry is freed under the waiter and two writers hold key 0 at once -/
theorem witness_readZero_two_writers :
    ((single ⟨.readZero, .beforeBlock, .asc⟩).run State.init twoWritersRun).map (fun s => ((s.th 1).held, (s.th 2).held)) =
    some ([(0, 0, .w)], [(0, 1, .w)]) := by decide

/-- count raised only after the per-key lock was obtained: same failure -/
theorem witness_afterBlock_two_writers :
    ((single ⟨.bothZero, .afterBlock, .asc⟩).run State.init twoWritersRun).map (fun s => ((s.th 1).held, (s.th 2).held)) =
    some ([(0, 0, .w)], [(0, 1, .w)]) := by decide

/-- `tryFree` never frees: residue after the last unlock -/
theorem witness_never_leaks :
    ((single ⟨.never, .beforeBlock, .asc⟩).run State.init (lockNow 0 .w ++ unlockNow 0 .w)).map
      (fun s => (s.table 0, (s.th 0).held)) = some (some 0, []) := by decide

end Nv.C02
