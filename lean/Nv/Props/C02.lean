import Nv.Model.C02
import Nv.Proofs.C02Inv4
import Nv.Proofs.C02Dl4
/-!
C02 — property theorems for `syncx/keylock` (model: `Nv.Model.C02`, invariant: `Nv.Proofs.C02Inv*`).

Every theorem quantifies over all configurations `c` with `Proved c`, every shard count `n`, every routing
function `sh` with `sh k < n` (single lockers: `n = 1`, `sh = fun _ => 0`), and every reachable state of the
transition system, i.e. every interleaving of Lock/RLock/Locks/RLocks/Unlock/RUnlock/Unlocks/RUnlocks by any
number of threads over any keys, with any admission order among waiting writers and readers.
A `Tid` is the owner identity of one outstanding acquisition (see the model header).
-/
namespace Nv.C02

variable {c : Cfg} {n : Nat} {sh : Key → Nat} {s : State}

/-- **exclusion**: a key write-locked by `t1` is held by nobody else, in any mode -/
theorem kl_excl (hc : Proved c) (hsh : ∀ k, sh k < n) (hr : (lts c n sh).Reach s)
    {t1 t2 : Tid} {k : Key} {o1 o2 : ObjId} {m2 : Mode}
    (h1 : (k, o1, Mode.w) ∈ (s.th t1).held) (h2 : (k, o2, m2) ∈ (s.th t2).held) :
    t1 = t2 ∧ o1 = o2 ∧ m2 = Mode.w := by
  have hI := inv_reach hc n sh hsh s hr
  have e1 := hI.refTab t1 k o1 .w (by simp [refs, h1])
  have e2 := hI.refTab t2 k o2 m2 (by simp [refs, h2])
  rw [e1] at e2; cases e2
  have hw := (hI.holdW t1 o1).2 ⟨k, h1⟩
  cases m2 with
  | w =>
    have hw2 := (hI.holdW t2 o1).2 ⟨k, h2⟩
    rw [hw] at hw2; cases hw2; exact ⟨rfl, rfl, rfl⟩
  | r =>
    have hr2 := (hI.holdR t2 o1).2 ⟨k, h2⟩
    rw [(hI.wOk o1 t1 hw).2.1] at hr2; cases hr2

/-- read locks are shared only among readers: if some thread read-holds `k`, every holder of `k` is a reader -/
theorem kl_readers_only_with_readers (hc : Proved c) (hsh : ∀ k, sh k < n) (hr : (lts c n sh).Reach s)
    {t1 t2 : Tid} {k : Key} {o1 o2 : ObjId} {m2 : Mode}
    (h1 : (k, o1, Mode.r) ∈ (s.th t1).held) (h2 : (k, o2, m2) ∈ (s.th t2).held) : m2 = Mode.r := by
  cases m2 with
  | r => rfl
  | w => exact absurd (kl_excl hc hsh hr h2 h1).2.2 (by decide)

/-- a thread holds a key at most once -/
theorem kl_held_once (hc : Proved c) (hsh : ∀ k, sh k < n) (hr : (lts c n sh).Reach s) (t : Tid) :
    ((s.th t).held.map (·.1)).Nodup := by
  have := (inv_reach hc n sh hsh s hr).keysNd t
  simp only [allKeys, refs, List.map_append] at this
  rw [List.append_assoc] at this
  exact (List.nodup_append.1 this).1

/-- **same object**: while a thread is registered on `k` (waiting, about to lock, or holding) the map entry of `k`
is the object it registered on: the entry is neither freed nor replaced (the count is raised before blocking) -/
theorem kl_same_object (hc : Proved c) (hsh : ∀ k, sh k < n) (hr : (lts c n sh).Reach s)
    {t : Tid} {k : Key} {o : ObjId} {m : Mode} (h : (k, o, m) ∈ refs (s.th t)) : s.table k = some o :=
  (inv_reach hc n sh hsh s hr).refTab t k o m h

/-! #### routing

The transition system takes the routing function `sh` as a parameter: the shard of a key is a function of the key alone
(of its bytes and the locker's shard count), the same at every step of every history and independent of anything else
the process does. That is what lets the model keep ONE table keyed by the key; `routedTable` is the per-shard view. -/

/-- the table of shard `i` as the code sees it: the entries of the keys routed to `i` -/
def routedTable (sh : Key → Nat) (s : State) (i : Nat) (k : Key) : Option ObjId := if sh k = i then s.table k else none

/-- **a held key's shard never changes**: the entry a thread registered on is found in the shard the routing function
names — by the lock, by every later lock of another thread and by the unlock — and in no other shard -/
theorem kl_route_stable (hc : Proved c) (hsh : ∀ k, sh k < n) (hr : (lts c n sh).Reach s)
    {t : Tid} {k : Key} {o : ObjId} {m : Mode} (h : (k, o, m) ∈ refs (s.th t)) :
    routedTable sh s (sh k) k = some o ∧ ∀ i, i ≠ sh k → routedTable sh s i k = none := by
  refine ⟨?_, ?_⟩
  · simp [routedTable, kl_same_object hc hsh hr h]
  · intro i hi; simp [routedTable, Ne.symm hi]

/-- … so a lookup that routed the same key differently (a routing that depends on history, on other containers, on a
lookup memo) misses the entry: the unlock would meet a nil map entry and a second writer would get in -/
theorem kl_reroute_misses_entry (hc : Proved c) (hsh : ∀ k, sh k < n) (hr : (lts c n sh).Reach s)
    {t : Tid} {k : Key} {o : ObjId} {m : Mode} (h : (k, o, m) ∈ refs (s.th t)) (sh' : Key → Nat) (hne : sh' k ≠ sh k) :
    routedTable sh s (sh' k) k = none :=
  (kl_route_stable hc hsh hr h).2 (sh' k) hne

/-- different keys never share an object (so a step on one key reads and writes no state of another key) -/
theorem kl_key_objects_distinct (hc : Proved c) (hsh : ∀ k, sh k < n) (hr : (lts c n sh).Reach s)
    {k1 k2 : Key} {o : ObjId} (h1 : s.table k1 = some o) (h2 : s.table k2 = some o) : k1 = k2 :=
  (inv_reach hc n sh hsh s hr).tInj k1 k2 o h1 h2

/-- the reference counts are exactly the registered threads (waiters and holders), per mode -/
theorem kl_counts (hc : Proved c) (hsh : ∀ k, sh k < n) (hr : (lts c n sh).Reach s) (o : ObjId) :
    (s.objs o).wc = ((s.objs o).regW.length : Int) ∧ (s.objs o).rc = ((s.objs o).regR.length : Int) ∧
    (s.objs o).regW.Nodup ∧ (s.objs o).regR.Nodup ∧
    (∀ t, t ∈ (s.objs o).regW ↔ ∃ k, (k, o, Mode.w) ∈ refs (s.th t)) ∧
    (∀ t, t ∈ (s.objs o).regR ↔ ∃ k, (k, o, Mode.r) ∈ refs (s.th t)) := by
  have hI := inv_reach hc n sh hsh s hr
  exact ⟨hI.cntW o, hI.cntR o, hI.ndW o, hI.ndR o, fun t => hI.regW t o, fun t => hI.regR t o⟩

/-- **reclaim**: when no thread holds or awaits anything, the locker retains no per-key state -/
theorem kl_no_leak (hc : Proved c) (hsh : ∀ k, sh k < n) (hr : (lts c n sh).Reach s)
    (hidle : ∀ t, refs (s.th t) = []) (k : Key) : s.table k = none := by
  have hI := inv_reach hc n sh hsh s hr
  cases h : s.table k with
  | none => rfl
  | some o =>
    exfalso
    rcases hI.tabLive k o h with hw | hr'
    · obtain ⟨t, ht⟩ := List.exists_mem_of_ne_nil _ hw
      obtain ⟨k', hk'⟩ := (hI.regW t o).1 ht
      rw [hidle t] at hk'; cases hk'
    · obtain ⟨t, ht⟩ := List.exists_mem_of_ne_nil _ hr'
      obtain ⟨k', hk'⟩ := (hI.regR t o).1 ht
      rw [hidle t] at hk'; cases hk'

/-- per key: an entry exists only while somebody is registered on that key -/
theorem kl_entry_has_registrant (hc : Proved c) (hsh : ∀ k, sh k < n) (hr : (lts c n sh).Reach s)
    {k : Key} {o : ObjId} (h : s.table k = some o) : ∃ t m, (k, o, m) ∈ refs (s.th t) := by
  have hI := inv_reach hc n sh hsh s hr
  rcases hI.tabLive k o h with hw | hr'
  · obtain ⟨t, ht⟩ := List.exists_mem_of_ne_nil _ hw
    obtain ⟨k', hk'⟩ := (hI.regW t o).1 ht
    have := hI.tInj k' k o (hI.refTab t k' o _ hk') h
    subst this; exact ⟨t, .w, hk'⟩
  · obtain ⟨t, ht⟩ := List.exists_mem_of_ne_nil _ hr'
    obtain ⟨k', hk'⟩ := (hI.regR t o).1 ht
    have := hI.tInj k' k o (hI.refTab t k' o _ hk') h
    subst this; exact ⟨t, .r, hk'⟩

/-- no unlock path ever meets a missing map entry or an RWMutex that the caller does not hold -/
theorem kl_no_fault (hc : Proved c) (hsh : ∀ k, sh k < n) (hr : (lts c n sh).Reach s) : s.fault = false :=
  (inv_reach hc n sh hsh s hr).noFault

/-- **all held**: when Locks/RLocks is about to return, every listed key is held in the requested mode, at once -/
theorem kl_all_held (hc : Proved c) (hsh : ∀ k, sh k < n) (hr : (lts c n sh).Reach s)
    {t : Tid} {m : Mode} {all : List Key} (hph : (s.th t).phase = .acq m all []) :
    ∀ k ∈ all, holdsIn (s.th t) m k := by
  intro k hk
  rcases (inv_reach hc n sh hsh s hr).acqAll t m all [] hph k hk with h | h
  · simp at h
  · exact h

/-- a call's ghost key list is the list it was called with, so `kl_all_held` speaks about the caller's keys -/
theorem kl_call_records_keys (t : Tid) (m : Mode) (keys : List Key) {s' : State}
    (h : step c n sh s (.call t m keys) = some s') : ∃ gs, (s'.th t).phase = .reg m keys gs [] := by
  unfold step at h
  split at h
  · cases h
  · simp only at h
    split at h
    · cases h; exact ⟨groups c n sh keys, by simp⟩
    · cases h

/-- **key independence** (the real statement, from both invariants): a thread locking key `k` is not asleep when no
other thread is registered on `k` — for a reader: when no other thread is registered on `k` as a *writer* — whatever
the state of every other key, the table and all other threads. (Registered = holds `k`, waits for it, or has
announced it in a multi-key call: the conservative reading of "somebody else uses k".) -/
theorem kl_independent (hc : Proved c) (hsh : ∀ k, sh k < n) (hr : (lts c n sh).Reach s)
    {t : Tid} {m : Mode} {all : List Key} {k : Key} {o : ObjId} {rest : List (Key × ObjId)}
    (hph : (s.th t).phase = .acq m all ((k, o) :: rest))
    (hfree : ∀ u, u ≠ t → ∀ o' m', (k, o', m') ∈ refs (s.th u) → m = .r ∧ m' = .r) :
    ¬ blockedT s t := by
  obtain ⟨hI, h2⟩ := inv12_reach hc n sh hsh s hr
  rintro ⟨m1, a1, k1, o1, r1, e1, hb⟩
  rw [hph] at e1; cases e1
  have htk : s.table k = some o := hI.refTab t k o m ((mem_refs_acq hph _).2 (.inr ⟨(k, o), by simp, rfl⟩))
  -- any other thread registered on the object is registered on `k`
  have key : ∀ u k' m', (k', o, m') ∈ refs (s.th u) → u ≠ t → m = .r ∧ m' = .r := by
    intro u k' m' h hu
    have : k' = k := hI.tInj k' k o (hI.refTab u k' o m' h) htk
    subst this; exact hfree u hu o m' h
  have notSelfHeld : ∀ k' m', (k', o, m') ∉ (s.th t).held := fun k' m' => not_held_of_todo hI hph k' m'
  have reader_absurd : (s.objs o).readers ≠ [] → m = .w → False := by
    intro h hm
    obtain ⟨u, hu⟩ := List.exists_mem_of_ne_nil _ h
    obtain ⟨k', hk'⟩ := (hI.holdR u o).1 hu
    by_cases e : u = t
    · subst e; exact notSelfHeld k' .r hk'
    · have := (key u k' .r (by simp [refs, hk']) e).1; rw [hm] at this; cases this
  have owner_absurd : ∀ u, (s.objs o).wOwner = some u → u ≠ t → False := by
    intro u hown hu
    rcases h2.ownW o u hown with hw | ⟨a', k', r', hph'⟩
    · obtain ⟨k', hk'⟩ := (hI.holdW u o).1 hw
      have := (key u k' .w (by simp [refs, hk']) hu).2; cases this
    · have := (key u k' .w ((mem_refs_acq hph' _).2 (.inr ⟨(k', o), by simp, rfl⟩)) hu).2; cases this
  cases m with
  | w =>
    rcases blocked_w hb with ⟨_, hrd | htok⟩ | ⟨u, hu, hne⟩
    · exact reader_absurd hrd rfl
    · have hle := h2.tokLe o
      have hne : (s.objs o).pendR ≠ [] := by
        intro e; rw [e] at hle; simp at hle; exact htok hle
      obtain ⟨p, hp⟩ := List.exists_mem_of_ne_nil _ hne
      obtain ⟨a', k', r', hp'⟩ := h2.pendRPh o p hp
      have hpt : p ≠ t := by intro e; subst e; rw [hph] at hp'; cases hp'
      have := (key p k' .r ((mem_refs_acq hp' _).2 (.inr ⟨(k', o), by simp, rfl⟩)) hpt).1; cases this
    · exact owner_absurd u hu hne
  | r =>
    obtain ⟨hin, htok⟩ := blocked_r hb
    cases hown : (s.objs o).wOwner with
    | none =>
      have := h2.tokGe o hown
      rw [htok] at this
      have : (s.objs o).pendR = [] := List.eq_nil_of_length_eq_zero (by omega)
      rw [this] at hin; cases hin
    | some u =>
      by_cases e : u = t
      · subst e
        rcases h2.ownW o u hown with hw | ⟨a', k', r', hph'⟩
        · obtain ⟨k', hk'⟩ := (hI.holdW u o).1 hw
          exact notSelfHeld k' .w hk'
        · rw [hph] at hph'; cases hph'
      · exact owner_absurd u hown e

/-! The next three statements are *definitional* (true by unfolding the model, for every configuration): they record how
the model is built — the blocking step reads only the object of the key being locked, and the model has no step that
waits inside a table-mutex section — and are tied to the source only through the shape facts (`rwLocker.Lock/RLock`
comes after `d.locker.Unlock()` in every lock path; the unlock paths take no blocking call). The property-level
independence statement is `kl_independent` above. -/

/-- (definitional) whether the blocking step of `t` is enabled depends only on the object of the key `t` is locking -/
theorem kl_lock_enabled_local (s1 s2 : State) (t : Tid) (h : s1.th t = s2.th t)
    (hobj : ∀ m all k o rest, (s1.th t).phase = .acq m all ((k, o) :: rest) → s1.objs o = s2.objs o) :
    (stepLock c s1 t).isSome = (stepLock c s2 t).isSome := by
  unfold stepLock
  rw [← h]
  cases hph : (s1.th t).phase with
  | idle => rfl
  | reg => rfl
  | rel => rfl
  | acq m all todo =>
    cases todo with
    | nil => rfl
    | cons p rest =>
      obtain ⟨k, o⟩ := p
      simp only
      rw [← hobj m all k o rest hph]
      cases tryLock m t (s1.objs o) <;> rfl

/-- (definitional) the sections under a table mutex (registration and unlock loops) are always enabled -/
theorem kl_table_sections_never_block (t : Tid) :
    (∀ m all gs acc, (s.th t).phase = .reg m all gs acc → (stepReg c s t).isSome) ∧
    (∀ m gs, (s.th t).phase = .rel m gs → (stepRel c s t).isSome) := by
  constructor
  · intro m all gs acc h
    unfold stepReg; rw [h]
    cases gs with
    | nil => rfl
    | cons g gs => cases g <;> rfl
  · intro m gs h
    unfold stepRel; rw [h]
    cases gs with
    | nil => rfl
    | cons g gs => cases g <;> rfl

/-- (definitional) an object whose inner mutex `rw.w` is free never blocks a caller that is not already asleep on it -/
theorem kl_free_object_admits (m : Mode) (t : Tid) (w : Wrap) (h1 : w.wOwner = none) (h4 : t ∉ w.pendR) :
    ∃ w1, tryLock m t w = .wait w1 ∨ tryLock m t w = .enter w1 := by
  cases m
  · simp [tryLock, tryR, h1, h4]
  · simp [tryLock, tryW, h1]

theorem pairwise_of_forall {α} {R : α → α → Prop} : ∀ {l : List α}, (∀ a ∈ l, ∀ b ∈ l, R a b) → l.Pairwise R
  | [], _ => List.Pairwise.nil
  | x :: l, h => List.Pairwise.cons (fun b hb => h x (by simp) b (by simp [hb]))
      (pairwise_of_forall (fun a ha b hb => h a (by simp [ha]) b (by simp [hb])))

theorem pairwise_flatMap_filter (sh : Key → Nat) (r : Nat → Nat) (keys : List Key) :
    ∀ (is : List Nat), is.Pairwise (fun i j => r i < r j) →
      (is.flatMap (fun i => keys.filter (fun k => sh k = i))).Pairwise (fun a b => r (sh a) ≤ r (sh b))
  | [], _ => by simp
  | i :: is, h => by
    rw [List.pairwise_cons] at h
    simp only [List.flatMap_cons]
    rw [List.pairwise_append]
    refine ⟨pairwise_of_forall ?_, pairwise_flatMap_filter sh r keys is h.2, ?_⟩
    · intro a ha b hb
      simp only [List.mem_filter, decide_eq_true_eq] at ha hb
      rw [ha.2, hb.2]; exact Nat.le_refl _
    · intro a ha b hb
      simp only [List.mem_filter, decide_eq_true_eq] at ha
      rw [mem_flatMap_filter] at hb
      rw [ha.2]; exact Nat.le_of_lt (h.1 _ hb.2)

/-- the comparator's order of the shard indices is strictly ascending in `srank` -/
theorem pairwise_shardOrder (c : Cfg) (n : Nat) : (shardOrder c n).Pairwise (fun i j => srank c n i < srank c n j) := by
  unfold shardOrder srank
  cases c.grpSort <;> simp only
  · exact List.pairwise_lt_range
  · rw [List.pairwise_reverse]
    have h : (List.range n).Pairwise (fun a b => a < b ∧ b < n) := by
      have h1 : (List.range n).Pairwise (· < ·) := List.pairwise_lt_range
      exact h1.imp_of_mem (fun _ hb hlt => ⟨hlt, List.mem_range.1 hb⟩)
    exact h.imp (fun hh => by omega)
  · exact List.pairwise_lt_range

/-- **group order**: every multi-key call touches its keys in non-decreasing comparator rank of the shard index,
whatever the list order; within one shard it keeps the caller's order; and it touches exactly the listed keys -/
theorem group_order_consistent (c : Cfg) (hsh : ∀ k, sh k < n) (keys : List Key) :
    (acqOrder c n sh keys).Pairwise (fun a b => srank c n (sh a) ≤ srank c n (sh b)) ∧
    (∀ i, (acqOrder c n sh keys).filter (fun k => sh k = i) = keys.filter (fun k => sh k = i)) ∧
    (∀ k, k ∈ acqOrder c n sh keys ↔ k ∈ keys) := by
  unfold acqOrder
  refine ⟨?_, ?_, ?_⟩
  · rw [flatten_groups]; exact pairwise_flatMap_filter sh (srank c n) keys _ (pairwise_shardOrder c n)
  · intro i
    rw [flatten_groups]
    have key : ∀ (is : List Nat), is.Nodup →
        (is.flatMap (fun j => keys.filter (fun k => sh k = j))).filter (fun k => sh k = i) =
          if i ∈ is then keys.filter (fun k => sh k = i) else [] := by
      intro is
      induction is with
      | nil => simp
      | cons j is ih =>
        intro hnd
        rw [List.nodup_cons] at hnd
        simp only [List.flatMap_cons, List.filter_append, List.filter_filter, ih hnd.2, List.mem_cons]
        by_cases hij : i = j
        · subst hij
          simp [hnd.1]
        · have : (keys.filter (fun k => decide (sh k = i) && decide (sh k = j))) = [] := by
            rw [List.filter_eq_nil_iff]
            intro a _
            simp only [Bool.and_eq_true, decide_eq_true_eq, not_and]
            intro h1 h2; exact hij (h1.symm.trans h2)
          rw [this]; simp [hij]
    rw [key _ (nodup_shardOrder c n)]
    split
    · rfl
    · next h =>
      rw [mem_shardOrder] at h
      symm; rw [List.filter_eq_nil_iff]
      intro a _
      simp only [decide_eq_true_eq]
      intro e; exact h (e ▸ hsh a)
  · intro k
    rw [mem_groups_flatten]
    exact ⟨fun h => h.1, fun h => ⟨h, hsh k⟩⟩

/-! ### deadlock freedom

Callers are *disciplined* for a rank function when every call's keys ascend in rank in the order the locker takes
them (`acqOrder`) and lie above everything the caller already holds (`okAct`). `group_order_rank` shows that
duplicate-free lists sorted by one global key order `G` are disciplined for the rank `(shard index, G)` — for all
four lockers, whatever the shard count and routing. Progress is stated as "no stuck state": whenever some call is
outstanding, a step other than a new call is enabled — an outstanding call can proceed, or a thread outside any
call holds a lock and can start unlocking it. That enabled steps are eventually taken (fair scheduling; holders
eventually unlock) is the assumption of the property's liveness reading. -/

/-- states reachable when every call is disciplined for `rank` -/
inductive ReachOrd (c : Cfg) (n : Nat) (sh : Key → Nat) (rank : Key → Nat) : State → Prop
  | init : ReachOrd c n sh rank State.init
  | step {s a s'} : ReachOrd c n sh rank s → okAct c n sh rank s a → step c n sh s a = some s' → ReachOrd c n sh rank s'

theorem reachOrd_reach {rank : Key → Nat} (h : ReachOrd c n sh rank s) : (lts c n sh).Reach s := by
  induction h with
  | init => exact LTS.Reach.init
  | step _ _ hs ih => exact LTS.Reach.step ih hs

theorem reachOrd_ordered {rank : Key → Nat} (h : ReachOrd c n sh rank s) : Ordered rank s := by
  induction h with
  | init => exact ordered_init rank
  | step _ hok hs ih => exact ordered_step ih hok hs

/-! #### no cycle in the waits-for relation (any number of keys per call, any number of shards) -/

/-- `t` sleeps on an object that `u` holds, and `u` is itself asleep: an edge of the waits-for graph among sleepers -/
def waitsFor (s : State) (t u : Tid) : Prop :=
  (∃ m all k o rest k' m', (s.th t).phase = .acq m all ((k, o) :: rest) ∧ tryLock m t (s.objs o) = .blocked ∧
    (k', o, m') ∈ (s.th u).held) ∧ blockedT s u

/-- rank of the key a sleeping thread is asleep on (0 when it is not inside a blocking call) -/
def awaitedRank (rank : Key → Nat) (s : State) (t : Tid) : Nat :=
  match (s.th t).phase with
  | .acq _ _ ((k, _) :: _) => rank k
  | _ => 0

/-- along a waits-for edge the awaited rank strictly increases: the holder acquired the contested key *before* the key
it now sleeps on, and acquisition goes upwards in rank (for lists of any length: `group_order_rank`) -/
theorem kl_waits_for_rank_increases (hc : Proved c) (hsh : ∀ k, sh k < n) {rank : Key → Nat}
    (hr : ReachOrd c n sh rank s) {t u : Tid} (h : waitsFor s t u) : awaitedRank rank s t < awaitedRank rank s u := by
  have hI := (inv12_reach hc n sh hsh s (reachOrd_reach hr)).1
  have hord := reachOrd_ordered hr
  obtain ⟨⟨m, all, k, o, rest, k', m', hph, _, hheld⟩, ⟨m2, a2, k2, o2, r2, e2, _⟩⟩ := h
  have htk : s.table k = some o := hI.refTab t k o m ((mem_refs_acq hph _).2 (.inr ⟨(k, o), by simp, rfl⟩))
  have hkk : k' = k := hI.tInj k' k o (hI.refTab u k' o m' (by simp [refs, hheld])) htk
  subst hkk
  have hlt : rank k' < rank k2 := by
    apply (hord u).2 k' (List.mem_map.2 ⟨(k', o, m'), hheld, rfl⟩) k2
    simp [seqKeys, pend, e2]
  simp only [awaitedRank, hph, e2]; exact hlt

/-- **no waits-for cycle**: with disciplined callers (in particular: ascending duplicate-free lists by threads that hold
nothing, `reachFlat_reachOrd`) the waits-for graph among sleeping threads is acyclic — whatever the length of the key
lists and however many shards one call spans -/
theorem kl_no_wait_cycle (hc : Proved c) (hsh : ∀ k, sh k < n) {rank : Key → Nat}
    (hr : ReachOrd c n sh rank s) (t : Tid) : ¬ Relation.TransGen (waitsFor s) t t := by
  have mono : ∀ a b, Relation.TransGen (waitsFor s) a b → awaitedRank rank s a < awaitedRank rank s b := by
    intro a b h
    induction h with
    | single h => exact kl_waits_for_rank_increases hc hsh hr h
    | tail _ h ih => exact Nat.lt_trans ih (kl_waits_for_rank_increases hc hsh hr h)
  intro h
  exact Nat.lt_irrefl _ (mono t t h)

/-- steps that work off existing obligations (everything except starting a new Lock/RLock/Locks/RLocks call) -/
def isProgress : Act → Prop
  | .call .. => False
  | _ => True

/-- **no deadlock (core)**: if a disciplined history has put some thread to sleep inside a lock call, then some
thread is not asleep and is either inside a call (it has an enabled step) or holds a lock (it can unlock) -/
theorem kl_blocked_implies_mover (hc : Proved c) (hsh : ∀ k, sh k < n) {rank : Key → Nat}
    (hr : ReachOrd c n sh rank s) {t : Tid} (hb : blockedT s t) :
    ∃ u, ¬ blockedT s u ∧ ((s.th u).phase ≠ .idle ∨ (s.th u).held ≠ []) := by
  obtain ⟨hI, h2⟩ := inv12_reach hc n sh hsh s (reachOrd_reach hr)
  obtain ⟨R, hR⟩ := rank_bound rank s.next s.table hI.tRange hI.tInj
  obtain ⟨m, all, k, o, rest, hph, hbl⟩ := hb
  exact unblocked_exists hI h2 rank (reachOrd_ordered hr) R hR (R - rank k) t hph hbl (Nat.le_refl _)

/-- **deadlock freedom**: in every state of a disciplined history in which some call is outstanding, a progress step
is enabled (any number of threads, keys and shards; any interleaving; any wake-up order). Discipline (`okAct`, for a
rank function of the caller's choosing): the keys of every call ascend in rank in the order the locker takes them and
lie above every key the caller already holds. Multi-key calls by threads that hold nothing, with lists sorted by one
global key order, are always disciplined (`kl_deadlock_free_flat`); a caller that *holds locks while acquiring more*
must follow the locker's own (shard, key) rank, which for hashed routing it cannot derive from the keys alone. -/
theorem kl_deadlock_free (hc : Proved c) (hsh : ∀ k, sh k < n) {rank : Key → Nat}
    (hr : ReachOrd c n sh rank s) (hbusy : ∃ t, (s.th t).phase ≠ .idle) :
    ∃ a s', isProgress a ∧ step c n sh s a = some s' := by
  have hI := (inv12_reach hc n sh hsh s (reachOrd_reach hr)).1
  obtain ⟨t, ht⟩ := hbusy
  have mover : ∃ u, ¬ blockedT s u ∧ ((s.th u).phase ≠ .idle ∨ (s.th u).held ≠ []) := by
    by_cases hb : blockedT s t
    · exact kl_blocked_implies_mover hc hsh hr hb
    · exact ⟨t, hb, .inl ht⟩
  obtain ⟨u, hnb, hu⟩ := mover
  by_cases hidle : (s.th u).phase = .idle
  · -- outside any call and holding something: it can start unlocking
    have hne : (s.th u).held ≠ [] := by
      rcases hu with h | h
      · exact absurd hidle h
      · exact h
    obtain ⟨e, he⟩ := List.exists_mem_of_ne_nil _ hne
    obtain ⟨k, o, m⟩ := e
    have hok : uncallOk s u m [k] := ⟨hidle, by simp, by
      intro k' hk'; simp only [List.mem_singleton] at hk'; subst hk'; exact ⟨o, he⟩⟩
    refine ⟨.uncall u m [k], setTh s u { s.th u with phase := .rel m (groups c n sh [k]) }, trivial, ?_⟩
    simp [step, hI.noFault, hok]
  · obtain ⟨a, s', ha, hs⟩ := can_step (c := c) (n := n) (sh := sh) hI.noFault u hidle hnb
    refine ⟨a, s', ?_, hs⟩
    cases a with
    | call t' m keys =>
      -- `can_step` never returns a call
      exfalso
      simp only [step, hI.noFault, Bool.false_eq_true, if_false] at hs
      split at hs
      · next hok => simp only [actor] at ha; subst ha; exact hidle hok.1
      · cases hs
    | _ => trivial

theorem lex_rank_lt {B x y ga gb : Nat} (hB : ga < B) (h : x < y) : x * B + ga < y * B + gb := by
  have h1 : (x + 1) * B ≤ y * B := Nat.mul_le_mul_right B h
  rw [Nat.succ_mul] at h1
  omega

/-- the rank for which sorted lists are disciplined: (comparator rank of the shard, global key order `G`) -/
def lexRank (c : Cfg) (n : Nat) (sh : Key → Nat) (G : Key → Nat) (B : Nat) (k : Key) : Nat := srank c n (sh k) * B + G k

/-- **one global key order is enough**: a duplicate-free list that is sorted by a global order `G` is taken by every
locker in ascending `(shard, G)` rank -/
theorem group_order_rank (c : Cfg) (G : Key → Nat) (B : Nat) (keys : List Key)
    (hB : ∀ k ∈ keys, G k < B) (hsorted : keys.Pairwise (fun a b => G a < G b)) :
    (acqOrder c n sh keys).Pairwise (fun a b => lexRank c n sh G B a < lexRank c n sh G B b) := by
  unfold acqOrder lexRank
  rw [flatten_groups]
  have key : ∀ (is : List Nat), is.Pairwise (fun i j => srank c n i < srank c n j) →
      (is.flatMap (fun i => keys.filter (fun k => sh k = i))).Pairwise
        (fun a b => srank c n (sh a) * B + G a < srank c n (sh b) * B + G b) := by
    intro is
    induction is with
    | nil => intro _; simp
    | cons i is ih =>
      intro h
      rw [List.pairwise_cons] at h
      simp only [List.flatMap_cons]
      rw [List.pairwise_append]
      refine ⟨?_, ih h.2, ?_⟩
      · have hsub : (keys.filter (fun k => sh k = i)).Pairwise (fun a b => G a < G b) :=
          hsorted.sublist List.filter_sublist
        have hall : ∀ a ∈ keys.filter (fun k => sh k = i), sh a = i := by
          intro a ha; simpa using (List.mem_filter.1 ha).2
        have : ∀ l : List Key, (∀ a ∈ l, sh a = i) → l.Pairwise (fun a b => G a < G b) →
            l.Pairwise (fun a b => srank c n (sh a) * B + G a < srank c n (sh b) * B + G b) := by
          intro l
          induction l with
          | nil => intro _ _; exact List.Pairwise.nil
          | cons x l ihl =>
            intro hx hp
            rw [List.pairwise_cons] at hp ⊢
            refine ⟨?_, ihl (fun a ha => hx a (by simp [ha])) hp.2⟩
            intro b hb
            have e1 := hx x (by simp)
            have e2 := hx b (by simp [hb])
            have := hp.1 b hb
            rw [e1, e2]; omega
        exact this _ hall hsub
      · intro a ha b hb
        have ha' := List.mem_filter.1 ha
        rw [mem_flatMap_filter] at hb
        have hlt : srank c n (sh a) < srank c n (sh b) := by
          have : sh a = i := by simpa using ha'.2
          rw [this]; exact h.1 _ hb.2
        exact lex_rank_lt (hB a ha'.1) hlt
  exact key _ (pairwise_shardOrder c n)

/-- a thread that holds nothing and calls with a duplicate-free, `G`-sorted list is disciplined for `lexRank` -/
theorem okAct_of_sorted (c : Cfg) (G : Key → Nat) (B : Nat) (t : Tid) (m : Mode) (keys : List Key)
    (hB : ∀ k ∈ keys, G k < B) (hsorted : keys.Pairwise (fun a b => G a < G b)) (hnone : (s.th t).held = []) :
    okAct c n sh (lexRank c n sh G B) s (.call t m keys) := by
  refine ⟨group_order_rank c G B keys hB hsorted, ?_⟩
  intro h hh; simp [heldKeys, hnone] at hh

/-- histories in which every Lock/RLock/Locks/RLocks call is made by a thread that holds nothing, with a duplicate-free
list sorted by one global key order `G` (`G k < B` for the keys that occur): the clause of the property text -/
inductive ReachFlat (c : Cfg) (n : Nat) (sh : Key → Nat) (G : Key → Nat) (B : Nat) : State → Prop
  | init : ReachFlat c n sh G B State.init
  | step {s a s'} : ReachFlat c n sh G B s →
      (∀ t m keys, a = .call t m keys →
        (s.th t).held = [] ∧ (∀ k ∈ keys, G k < B) ∧ keys.Pairwise (fun x y => G x < G y)) →
      step c n sh s a = some s' → ReachFlat c n sh G B s'

theorem reachFlat_reachOrd {G : Key → Nat} {B : Nat} (h : ReachFlat c n sh G B s) :
    ReachOrd c n sh (lexRank c n sh G B) s := by
  induction h with
  | init => exact ReachOrd.init
  | @step s a s' _ hcall hs ih =>
    refine ReachOrd.step ih ?_ hs
    cases a with
    | call t m keys =>
      obtain ⟨h1, h2, h3⟩ := hcall t m keys rfl
      exact okAct_of_sorted c G B t m keys h2 h3 h1
    | _ => trivial

/-- **deadlock freedom, as the property text states it**: callers that hold nothing when they call, duplicate-free lists
sorted by one global key order — on any locker (any shard count, routing, comparator direction) a progress step is
enabled whenever a call is outstanding. Callers that hold locks while acquiring more are covered by `kl_deadlock_free`
only if they follow the locker's own `(shard, key)` rank (`okAct`); see `witness_nested_single_deadlock`. -/
theorem kl_deadlock_free_flat (hc : Proved c) (hsh : ∀ k, sh k < n) {G : Key → Nat} {B : Nat}
    (hr : ReachFlat c n sh G B s) (hbusy : ∃ t, (s.th t).phase ≠ .idle) :
    ∃ a s', isProgress a ∧ step c n sh s a = some s' :=
  kl_deadlock_free hc hsh (reachFlat_reachOrd hr) hbusy

/-! ### non-vacuity and negation witnesses (concrete runs of the transition system, single locker, key 0) -/

/-- the steps of a complete single-key `Lock`/`RLock` call by `t` when it is admitted at once -/
def lockNow (t : Tid) : Mode → List Act
  | .w => [.call t .w [0], .reg t, .reg t, .reg t, .lock t, .lock t, .lock t]
  | .r => [.call t .r [0], .reg t, .reg t, .reg t, .lock t, .lock t]
/-- a call that registers and then parks -/
def lockPark (t : Tid) (m : Mode) : List Act := [.call t m [0], .reg t, .reg t, .reg t, .lock t]
def unlockNow (t : Tid) (m : Mode) : List Act := [.uncall t m [0], .rel t, .rel t, .rel t]

def cfgToday : Cfg := ⟨.bothZero, .beforeBlock, .asc⟩
def single (c : Cfg) : LTS State Act := lts c 1 (fun _ => 0)

/-- non-vacuity of the hypotheses of the theorems above: a reachable state with two readers inside, a writer that has
announced itself and waits, and a later reader blocked behind it; counts are 3 readers / 1 writer -/
example : ((single cfgToday).run State.init (lockNow 0 .r ++ lockNow 1 .r ++ lockPark 2 .w ++ lockPark 3 .r)).map
    (fun s => decide ((s.th 0).held = [(0, 0, .r)] ∧ (s.th 1).held = [(0, 0, .r)] ∧ (s.objs 0).wOwner = some 2 ∧
      (s.objs 0).pendR = [3] ∧ (s.objs 0).rc = 3 ∧ (s.objs 0).wc = 1 ∧ s.table 0 = some 0)) = some true := by decide

/-- … and after everybody has left the table is empty again (the run exists, so `kl_no_leak` is not vacuous) -/
example : ((single cfgToday).run State.init (lockNow 0 .r ++ lockPark 1 .w ++
    unlockNow 0 .r ++ [.lock 1, .lock 1] ++ unlockNow 1 .w)).map (fun s => (s.table 0, (s.th 1).held, s.fault)) =
    some (none, [], false) := by decide

/-- the run used by the witnesses: W0 holds, W1 waits, W0 unlocks, W1 gets in, W2 arrives -/
def twoWritersRun : List Act :=
  lockNow 0 .w ++ lockPark 1 .w ++ unlockNow 0 .w ++ [.lock 1, .lock 1, .lock 1] ++ lockNow 2 .w

/-- today's configuration: the third writer parks -/
theorem today_third_writer_waits : ((single cfgToday).run State.init twoWritersRun) = none := by decide

/-- `tryFree` on `readCount == 0` only: the entry is freed under the waiter and two writers hold key 0 at once -/
theorem witness_readZero_two_writers :
    ((single ⟨.readZero, .beforeBlock, .asc⟩).run State.init twoWritersRun).map (fun s => ((s.th 1).held, (s.th 2).held)) =
    some ([(0, 0, .w)], [(0, 1, .w)]) := by decide

/-- count raised only after the per-key lock was obtained: same failure -/
theorem witness_afterBlock_two_writers :
    ((single ⟨.bothZero, .afterBlock, .asc⟩).run State.init twoWritersRun).map (fun s => ((s.th 1).held, (s.th 2).held)) =
    some ([(0, 0, .w)], [(0, 1, .w)]) := by decide

/-- `tryFree` never frees: residue after the last unlock -/
theorem witness_never_leaks :
    ((single ⟨.never, .beforeBlock, .asc⟩).run State.init (lockNow 0 .w ++ unlockNow 0 .w)).map
      (fun s => (s.table 0, (s.th 0).held)) = some (some 0, []) := by decide


/-! non-vacuity of the deadlock theorem: a disciplined run (rank = key id) exists in which a thread is asleep -/

instance (c : Cfg) (n : Nat) (sh rank : Key → Nat) (s : State) (a : Act) : Decidable (okAct c n sh rank s a) := by
  cases a <;> unfold okAct <;> exact inferInstance

/-- run a list of actions, checking the discipline at every step -/
def runOk (c : Cfg) (n : Nat) (sh rank : Key → Nat) : State → List Act → Option State
  | s, [] => some s
  | s, a :: as =>
    if okAct c n sh rank s a then
      match step c n sh s a with
      | none => none
      | some s' => runOk c n sh rank s' as
    else none

theorem reachOrd_of_runOk {rank : Key → Nat} : ∀ (as : List Act) (s s' : State),
    ReachOrd c n sh rank s → runOk c n sh rank s as = some s' → ReachOrd c n sh rank s'
  | [], s, s', hr, h => by simp [runOk] at h; subst h; exact hr
  | a :: as, s, s', hr, h => by
    simp only [runOk] at h
    split at h
    · next hok =>
      split at h
      · cases h
      · next s1 hs1 => exact reachOrd_of_runOk as s1 s' (ReachOrd.step hr hok hs1) h
    · cases h

/-- W0 holds key 0, W1 sleeps on it:
the run is disciplined, W1 is asleep (its lock step is not enabled), and W0 can move -/
example : ((runOk cfgToday 1 (fun _ => 0) id State.init (lockNow 0 .w ++ lockPark 1 .w)).bind
    (fun s => some (decide ((stepLock cfgToday s 1).isNone ∧ (s.th 0).held = [(0, 0, .w)] ∧ (s.th 1).phase ≠ .idle)))) =
    some true := by decide

/-! nested single-key locking on a 2-shard group (key 0 ↦ shard 1, key 1 ↦ shard 0): A: Lock(0); B: Locks([0,1]) takes key 1
(shard 0) first and sleeps on key 0; A: Lock(1) sleeps on key 1. Every list is duplicate-free and ascending in key id, but
A acquires while holding and does not follow the (shard, key) rank: outside `ReachOrd`, and really stuck. -/

def sh2 : Key → Nat := fun k => if k = 0 then 1 else 0

def nestedRun : List Act :=
  [.call 0 .w [0], .reg 0, .reg 0, .reg 0, .lock 0, .lock 0, .lock 0,                 -- A: Lock(0)
   .call 1 .w [0, 1], .reg 1, .reg 1, .reg 1, .reg 1, .reg 1, .lock 1, .lock 1, .lock 1, -- B: Locks([0,1]): key 1, then asleep on key 0
   .call 0 .w [1], .reg 0, .reg 0, .reg 0, .lock 0]                                   -- A: Lock(1): asleep on key 1

/-- both outstanding calls are asleep and nobody outside a call holds anything: no progress step exists -/
theorem witness_nested_single_deadlock :
    ((lts cfgToday 2 sh2).run State.init nestedRun).map (fun s => decide (
      (stepLock cfgToday s 0).isNone ∧ (stepLock cfgToday s 1).isNone ∧
      (s.th 0).phase ≠ .idle ∧ (s.th 1).phase ≠ .idle ∧ (s.th 1).held = [(1, 1, .w)] ∧ (s.th 0).held = [(0, 0, .w)])) =
    some true := by decide

/-- the same nesting is NOT disciplined for the locker's rank: the call `A: Lock(1)` violates `okAct` -/
example : ((lts cfgToday 2 sh2).run State.init (nestedRun.take 16)).map
    (fun s => decide (okAct cfgToday 2 sh2 (lexRank cfgToday 2 sh2 id 2) s (.call 0 .w [1]))) = some false := by decide

end Nv.C02
