import Nv.Model.C09
/-! C09 — property theorems (placeholder during milestone A). -/
namespace Nv.C09
open Nv.C08

def cfgToday : Cfg := ⟨⟨9, 64, 16⟩, .u32mul, .u32mul, .swapped, 1024, 64⟩
def cfgFixed : Cfg := ⟨⟨9, 64, 16⟩, .i64mul, .i64mul, .straight, 1024, 64⟩

theorem cfgFixed_proved : Proved cfgFixed := by decide
theorem cfgToday_not_proved : ¬ Proved cfgToday := by decide

end Nv.C09
