import Nv.Proofs.C09Unm
import Nv.Proofs.C09Block
import Nv.Proofs.C09Order
import Nv.Proofs.C09Marshal
import Nv.Proofs.C09List
/-!
C09 — property theorems for `Bit1024.Marshal/Unmarshal`, `BigU32` and `U32BitTip`
(model: `Nv.Model.C09` on top of the C08 bitmap model; proofs: `Nv/Proofs/C09*.lean`).

`Proved c` = the configuration of the repaired source (`int64(Start)*C1K` in both BigU32 iterators, `getNAsU32`
dispatching `reverse ⇒ RIterAsU32`) — this is what /repo contains since commits f369e56 and d9c43db. `cfgUnrepaired` is
the configuration the extractor produced *before* those repairs; the `witness_*` theorems keep the concrete inputs on
which the property is false for it (they are the replays that exposed F07 / F08, and what a revert would reproduce).

Index — clause of the property statement ↦ theorem(s):
* "Unmarshalling the bytes produced by Marshal into a fresh bitmap reproduces the bitmap exactly, for both the sparse
   (2 bytes per member, fewer than 64 members) and the dense (128 byte) encodings"
      `marshal_roundtrip`, `marshal_size`, `le_bytes_roundtrip`
* "Unmarshal of arbitrary bytes never panics" .............. `unmarshal_never_panics`
* "and either fails or yields exactly the set the bytes denote"
      `unmarshal_total_exact` (fresh target), `unmarshal_rejects_bad_length`, `unmarshal_into_any` (why the target must be fresh)
* "a block bitmap built from an integer (64-bit blocks up to 2^32*1024-1025, 32-bit blocks over all uint32) iterates back
   to precisely that integer" ............................. `bigu32_roundtrip`, `bigu32_rejects_out_of_range`, `u32tip_roundtrip`
* "accepts further integers exactly when they belong to its block"
      `bigu32_accepts_iff_same_block`, `u32tip_accepts_iff_same_block`, `bigu32_set_history` (any sequence of SetI64 calls)
* "forward iteration is ascending while reverse iteration is descending"
      `block_iteration_exact`, `block_forward_ascending`, `block_reverse_descending`, `tip_forward_ascending`,
      `tip_reverse_descending`, `newTip_start_le`
* list forms (anchor "list forms concatenate per-block iteration")
      `bigs_list_concat`, `tips_list_concat`, `list_forms_total`, `bigs_list_values` (loop invariant `listChain_spec`)
* the property is false of the unrepaired source ............ `witness_*`, `not_bigu32_roundtrip_unrepaired`, `cfgUnrepaired_not_proved`
-/
namespace Nv.C09
open Nv.C08

def cfgUnrepaired : Cfg := ⟨⟨9, 64, 16⟩, .u32mul, .u32mul, .swapped, 1024, 64, 128⟩
def cfgFixed : Cfg := ⟨⟨9, 64, 16⟩, .i64mul, .i64mul, .straight, 1024, 64, 128⟩

theorem cfgFixed_proved : Proved cfgFixed := by decide
theorem cfgUnrepaired_not_proved : ¬ Proved cfgUnrepaired := by decide

/-! ### Marshal / Unmarshal round trip -/

/-- **Unmarshalling the bytes produced by Marshal into a fresh bitmap reproduces the bitmap exactly** — all 2^1024
    bitmaps, both encodings (fewer than 64 members: 2 bytes per member; otherwise 128 bytes), every sparse threshold.
    Uses `iter1024_spec` of C08 for the member list `GetNAsI16(n)` produces. -/
theorem marshal_roundtrip (c : Cfg) (hc : Proved c) (magic : Int) (b : Bit1024) :
    ∃ bs, marshal c magic b = some bs ∧ unmarshal empty1024 bs = .ok b := marshal_roundtrip_all c hc magic b

/-- encoding sizes: nothing for the empty set, 2 bytes per member below 64 members, 128 bytes otherwise -/
theorem marshal_size (c : Cfg) (hc : Proved c) (magic : Int) (b : Bit1024) :
    ∃ bs, marshal c magic b = some bs ∧
      bs.length = (if (members1024 b).length = 0 then 0 else if (members1024 b).length < 64 then 2 * (members1024 b).length else 128) :=
  marshal_size_all c hc magic b

/-- the byte form of a byte pair / 8-byte group is the little-endian value (used by both directions) -/
theorem le_bytes_roundtrip (v : BitVec 16) (x : BitVec 64) :
    rd16 (le16 v) 0 = some v ∧ rd64 (le64 x) 0 = some x := by
  constructor
  · simp only [le16, rd16, List.drop_zero, le16_roundtrip]
  · simp only [le64, rd64, List.drop_zero, le64_roundtrip]

-- non-vacuity: the boundary between the encodings, evaluated by the kernel (2 members: 4 bytes)
example : marshal cfgFixed 9 (setI16 (setI16 empty1024 1#16) 1023#16) = some [1#8, 0#8, 0xff#8, 3#8] := by decide

/-! ### Unmarshal: total, never panics, exact -/

/-- `Unmarshal` of arbitrary bytes (any length, into any bitmap) never panics -/
theorem unmarshal_never_panics (b : Bit1024) (buf : List Byte) : unmarshal b buf ≠ .panic := unmarshal_no_panic b buf

/-- … and either fails, or yields exactly the set the bytes denote (fresh bitmap): -/
theorem unmarshal_total_exact (buf : List Byte) :
    (∃ e b, unmarshal empty1024 buf = .err e b) ∨
    (∃ b', unmarshal empty1024 buf = .ok b' ∧ ∀ i, i < 1024 → (mem1024 b' i = true ↔ (buf ≠ [] ∧ denotes buf i))) := by
  cases h : unmarshal empty1024 buf with
  | ok b' => exact Or.inr ⟨b', rfl, unmarshal_exact buf b' h⟩
  | err e b => exact Or.inl ⟨e, b, rfl⟩
  | panic => exact absurd h (unmarshal_no_panic _ _)

/-- the target must be fresh for that: `Unmarshal` does not clear its receiver (read `bit1024.go`: the sparse branch only
    calls `SetI16`, the dense branch assigns all 16 words). Into an arbitrary bitmap `b` a successful call yields `b` for
    no bytes, `b ∪ denoted set` for the sparse form, and the denoted set alone for the dense form. -/
theorem unmarshal_into_any (b : Bit1024) (buf : List Byte) (b' : Bit1024) (h : unmarshal b buf = .ok b') :
    ∀ i, i < 1024 → (mem1024 b' i = true ↔
      (if buf = [] then mem1024 b i = true
       else if buf.length < 128 then (mem1024 b i = true ∨ denotes buf i)
       else denotes buf i)) := unmarshal_into b buf b' h

-- a stale member survives a sparse Unmarshal into a non-fresh bitmap (why freshness is required)
example : unmarshal (setI16 empty1024 5#16) [1#8, 0#8] = .ok (setI16 (setI16 empty1024 5#16) 1#16) := by decide

/-- more than 128 bytes or an odd number of bytes is always rejected, and the bitmap is left untouched -/
theorem unmarshal_rejects_bad_length (b : Bit1024) (buf : List Byte) (h : buf.length > 128 ∨ buf.length % 2 = 1) :
    ∃ e, unmarshal b buf = .err e b := unmarshal_rejects b buf h

-- non-vacuity: a 4-byte sparse string {1, 1023}; an element 1024 is rejected
example : unmarshal empty1024 [1#8, 0#8, 0xff#8, 3#8] = .ok (setI16 (setI16 empty1024 1#16) 1023#16) := by decide
example : unmarshal empty1024 [0#8, 4#8] = .err (.element 1024) empty1024 := by decide
example : unmarshal empty1024 [0xff#8, 0xff#8] = .err (.element (-1)) empty1024 := by decide

/-! ### BigU32 -/

/-- the block built from `v` (documented range `0 ≤ v < (2^32−1)·1024`) iterates back to precisely `[v]`,
    in both directions, for every count `n ≥ 1` and every sparse threshold -/
theorem bigu32_roundtrip (c : Cfg) (hc : Proved c) (magic : Int) (rev : Bool) (v : BitVec 64)
    (hv : 0 ≤ v.toInt ∧ v.toInt < 4398046510080) (n : Int) (hn : 1 ≤ n) :
    ∃ blk, newBigFromI64 v = some blk ∧ bigGetN c magic rev blk n = .slice [v] := by
  obtain ⟨h1, h2, h3⟩ := (selI64_spec v).1 hv
  refine ⟨⟨(selI64 v).2.1, setI16 empty1024 (selI64 v).2.2⟩, by simp [newBigFromI64, h1], ?_⟩
  unfold bigGetN bigIter
  rw [getN_of_iter c.base hc.1 magic rev _ _ n (by omega)]
  simp only
  rw [members_single _ (v.toInt.toNat % 1024) (by omega) h3, expected_single rev _ _ n hn]
  simp only [List.cons_ne_nil, if_false]
  congr 2
  have hoff : bigOffset c rev (selI64 v).2.1 = BitVec.setWidth 64 (selI64 v).2.1 * 1024#64 := by
    cases rev <;> simp [bigOffset, hc.2.1, hc.2.2.1, offsetOf]
  rw [hoff]
  apply BitVec.eq_of_toNat_eq
  have cz := BitVec.toInt_eq_toNat_cond v
  have lz := v.isLt
  have hs := (selI64 v).2.1.isLt
  simp only [BitVec.toNat_add, BitVec.toNat_mul, BitVec.toNat_setWidth, BitVec.toNat_ofNat, h2]
  split at cz <;> omega

/-- **Marshal is injective**: two bitmaps with the same serialized bytes are the same bitmap (no two sets share an
    encoding, whichever of the two encodings each one uses) -/
theorem marshal_injective (c : Cfg) (hc : Proved c) (magic : Int) (a b : Bit1024)
    (h : marshal c magic a = marshal c magic b) : a = b := by
  obtain ⟨bs, h1, h2⟩ := marshal_roundtrip c hc magic a
  obtain ⟨bs', h1', h2'⟩ := marshal_roundtrip c hc magic b
  rw [h, h1'] at h1
  cases h1
  rw [h2] at h2'
  cases h2'
  rfl
/-- **`NewBigU32FromInt64` is injective on its documented range**: two in-range integers that build the same block are
    the same integer (the block's start and single bit determine the value) -/
theorem bigu32_injective (c : Cfg) (hc : Proved c) (magic : Int) (v w : BitVec 64)
    (hv : 0 ≤ v.toInt ∧ v.toInt < 4398046510080) (hw : 0 ≤ w.toInt ∧ w.toInt < 4398046510080)
    (h : newBigFromI64 v = newBigFromI64 w) : v = w := by
  obtain ⟨blk, h1, h2⟩ := bigu32_roundtrip c hc magic false v hv 1 (by omega)
  obtain ⟨blk', h1', h2'⟩ := bigu32_roundtrip c hc magic false w hw 1 (by omega)
  rw [h, h1'] at h1
  cases h1
  rw [h2] at h2'
  simpa using h2'
/-- integers outside the documented range are rejected by the constructor -/
theorem bigu32_rejects_out_of_range (v : BitVec 64) (hv : ¬(0 ≤ v.toInt ∧ v.toInt < 4398046510080)) :
    newBigFromI64 v = none := by
  simp [newBigFromI64, (selI64_spec v).2 hv]

/-- a block accepts a further integer exactly when it is in range and belongs to the block; the accepted integer's
    offset joins the block, a rejected one changes nothing -/
theorem bigu32_accepts_iff_same_block (blk : Block) (v : BitVec 64) :
    ((bigSetI64 blk v).2 = .ok ↔
      (0 ≤ v.toInt ∧ v.toInt < 4398046510080 ∧ blk.start.toNat = v.toInt.toNat / 1024)) ∧
    ((bigSetI64 blk v).2 ≠ .ok → (bigSetI64 blk v).1 = blk) ∧
    ((bigSetI64 blk v).2 = .ok → (bigSetI64 blk v).1.start = blk.start ∧
      ∀ j, mem1024 (bigSetI64 blk v).1.bits j = (mem1024 blk.bits j || decide (v.toInt.toNat % 1024 = j))) := by
  by_cases hv : 0 ≤ v.toInt ∧ v.toInt < 4398046510080
  · obtain ⟨h1, h2, h3⟩ := (selI64_spec v).1 hv
    by_cases hs : (selI64 v).2.1 = blk.start
    · have hst : blk.start.toNat = v.toInt.toNat / 1024 := by rw [← hs, h2]
      refine ⟨?_, ?_, ?_⟩
      · simp [bigSetI64, h1, hs, hv, hst]
      · simp [bigSetI64, h1, hs]
      · intro _
        refine ⟨by simp [bigSetI64, h1, hs], fun j => ?_⟩
        simp only [bigSetI64, h1, hs, Bool.not_true, Bool.false_eq_true, if_false, bne_self_eq_false]
        rw [setI16_mem]
        congr 1
        apply decide_eq_decide.2
        omega
    · have hst : ¬ blk.start.toNat = v.toInt.toNat / 1024 := by
        intro e; apply hs; apply BitVec.eq_of_toNat_eq; rw [h2, e]
      have hne : ((selI64 v).2.1 != blk.start) = true := by simpa using hs
      refine ⟨?_, ?_, ?_⟩ <;> simp [bigSetI64, h1, hne, hst]
  · have h1 := (selI64_spec v).2 hv
    refine ⟨?_, ?_, ?_⟩
    · simp only [bigSetI64, h1, Bool.not_false, if_true]
      constructor
      · intro h; cases h
      · intro h; exact absurd ⟨h.1, h.2.1⟩ hv
    · simp [bigSetI64, h1]
    · simp [bigSetI64, h1]

-- non-vacuity of the range hypothesis, at both ends
example : (0 : Int) ≤ (4398046510079#64 : BitVec 64).toInt ∧ (4398046510079#64 : BitVec 64).toInt < 4398046510080 := by decide

/-- a whole history of `SetI64` calls on one block, of any length and order (so also when the block passes through every
    size 1…1024): the start never changes and the members afterwards are the old ones plus exactly the offsets of the
    accepted integers — no member is ever dropped or invented -/
theorem bigu32_set_history (vs : List (BitVec 64)) (blk : Block) :
    (vs.foldl (fun b v => (bigSetI64 b v).1) blk).start = blk.start ∧
    ∀ j, mem1024 (vs.foldl (fun b v => (bigSetI64 b v).1) blk).bits j =
      (mem1024 blk.bits j || vs.any (fun v => decide ((bigSetI64 blk v).2 = .ok ∧ v.toInt.toNat % 1024 = j))) := by
  induction vs generalizing blk with
  | nil => simp
  | cons v vs ih =>
    have hstep := bigu32_accepts_iff_same_block blk v
    have hstart : (bigSetI64 blk v).1.start = blk.start := by
      by_cases hok : (bigSetI64 blk v).2 = .ok
      · exact (hstep.2.2 hok).1
      · rw [hstep.2.1 hok]
    -- acceptance depends on the start only, which the step preserves
    have hacc : ∀ u, ((bigSetI64 (bigSetI64 blk v).1 u).2 = .ok) ↔ ((bigSetI64 blk u).2 = .ok) := by
      intro u
      rw [(bigu32_accepts_iff_same_block _ u).1, (bigu32_accepts_iff_same_block blk u).1, hstart]
    obtain ⟨ih1, ih2⟩ := ih (bigSetI64 blk v).1
    refine ⟨by rw [List.foldl_cons, ih1, hstart], fun j => ?_⟩
    rw [List.foldl_cons, ih2 j, List.any_cons]
    have hany : vs.any (fun u => decide ((bigSetI64 (bigSetI64 blk v).1 u).2 = .ok ∧ u.toInt.toNat % 1024 = j)) =
        vs.any (fun u => decide ((bigSetI64 blk u).2 = .ok ∧ u.toInt.toNat % 1024 = j)) := by
      congr 1
      funext u
      apply decide_eq_decide.2
      rw [hacc u]
    rw [hany]
    by_cases hok : (bigSetI64 blk v).2 = .ok
    · rw [(hstep.2.2 hok).2 j]
      simp [hok, Bool.or_assoc]
    · rw [hstep.2.1 hok]
      simp [hok]

/-! ### U32BitTip -/

/-- every `uint32` builds a block that iterates back to precisely `[u]` (both directions, every `n ≥ 1`) -/
theorem u32tip_roundtrip (c : Cfg) (hc : Proved c) (magic : Int) (rev : Bool) (u : BitVec 32) (n : Int) (hn : 1 ≤ n) :
    tipGetN c magic rev (newTipFromU32 u) n = .slice [u] := by
  obtain ⟨h2, h3⟩ := selU32_spec u
  unfold tipGetN tipIter newTipFromU32
  simp only
  rw [getN_of_iter c.base hc.1 magic _ _ _ n (by omega)]
  have lu := u.isLt
  rw [members_single _ (u.toNat % 1024) (by omega) h3, expected_single _ _ _ n hn]
  simp only [List.cons_ne_nil, if_false]
  congr 2
  apply BitVec.eq_of_toNat_eq
  have hs := (selU32 u).1.isLt
  simp only [BitVec.toNat_add, BitVec.toNat_mul, BitVec.toNat_ofNat, h2, hc.2.2.2.2.1]
  omega

/-- a tip block accepts a further integer exactly when it belongs to the block -/
theorem u32tip_accepts_iff_same_block (blk : Block) (u : BitVec 32) :
    ((tipSetU32 blk u).2 = .ok ↔ blk.start.toNat = u.toNat / 1024) ∧
    ((tipSetU32 blk u).2 ≠ .ok → (tipSetU32 blk u).1 = blk) ∧
    ((tipSetU32 blk u).2 = .ok → (tipSetU32 blk u).1.start = blk.start ∧
      ∀ j, mem1024 (tipSetU32 blk u).1.bits j = (mem1024 blk.bits j || decide (u.toNat % 1024 = j))) := by
  obtain ⟨h2, h3⟩ := selU32_spec u
  by_cases hs : (selU32 u).1 = blk.start
  · have hst : blk.start.toNat = u.toNat / 1024 := by rw [← hs, h2]
    refine ⟨by simp [tipSetU32, hs, hst], by simp [tipSetU32, hs], fun _ => ⟨by simp [tipSetU32, hs], fun j => ?_⟩⟩
    simp only [tipSetU32, hs, bne_self_eq_false, Bool.false_eq_true, if_false]
    rw [setI16_mem]
    congr 1
    apply decide_eq_decide.2
    omega
  · have hst : ¬ blk.start.toNat = u.toNat / 1024 := by
      intro e; apply hs; apply BitVec.eq_of_toNat_eq; rw [h2, e]
    have hne : ((selU32 u).1 != blk.start) = true := by simpa using hs
    refine ⟨?_, ?_, ?_⟩ <;> simp [tipSetU32, hne, hst]

/-! ### forward iteration is ascending, reverse iteration is descending (single blocks) -/

theorem bigOffset_proved (c : Cfg) (hc : Proved c) (rev : Bool) (s : BitVec 32) :
    bigOffset c rev s = BitVec.setWidth 64 s * 1024#64 := by
  cases rev <;> simp [bigOffset, hc.2.1, hc.2.2.1, offsetOf]

/-- **`BigU32.GetNAsI64 / RGetNAsI64`, exact output** (n ≥ 0, any `uint32` start, every threshold): the returned list
    `l` (nil when empty) consists, as `int64` values, of exactly `Start·1024 + m` for the first `min(n, Len)` members
    `m` of the block's set in ascending (`rev = false`) resp. descending (`rev = true`) order — no wrap-around. -/
theorem block_iteration_exact (c : Cfg) (hc : Proved c) (magic : Int) (rev : Bool) (blk : Block) (n : Int) (hn : 0 ≤ n) :
    ∃ l, bigGetN c magic rev blk n = (if l = [] then GetN.nil else .slice l) ∧
      l.map BitVec.toInt =
        ((if rev then (members1024 blk.bits).reverse else members1024 blk.bits).take n.toNat).map
          (fun (m : Nat) => ((blk.start.toNat * 1024 : Nat) : Int) + (m : Int)) := by
  unfold bigGetN bigIter
  rw [getN_of_iter c.base hc.1 magic rev _ _ n hn]
  refine ⟨_, rfl, ?_⟩
  exact expected_values BitVec.toInt ((blk.start.toNat * 1024 : Nat) : Int) _ (members1024_lt _) _
    (fun i hi => by rw [bigOffset_proved c hc]; exact big_value blk.start i hi) rev n

/-- forward iteration of a BigU32 block: exactly the first `min(n, Len)` integers of the block, strictly ascending -/
theorem block_forward_ascending (c : Cfg) (hc : Proved c) (magic : Int) (blk : Block) (n : Int) (hn : 0 ≤ n) :
    ∃ l, bigGetN c magic false blk n = (if l = [] then GetN.nil else .slice l) ∧
      l.map BitVec.toInt = ((members1024 blk.bits).take n.toNat).map (fun (m : Nat) => ((blk.start.toNat * 1024 : Nat) : Int) + (m : Int)) ∧
      l.length = min n.toNat (members1024 blk.bits).length ∧ (l.map BitVec.toInt).Pairwise (· < ·) := by
  unfold bigGetN bigIter
  rw [getN_of_iter c.base hc.1 magic false _ _ n hn]
  have hv : ∀ i, i < 1024 → (BitVec.ofNat 64 i + bigOffset c false blk.start).toInt = ((blk.start.toNat * 1024 : Nat) : Int) + i :=
    fun i hi => by rw [bigOffset_proved c hc]; exact big_value blk.start i hi
  refine ⟨_, rfl, ?_, expected_length _ _ _ _, ?_⟩
  · simpa using expected_values BitVec.toInt ((blk.start.toNat * 1024 : Nat) : Int) _ (members1024_lt _) _ hv false n
  · exact (expected_pairwise BitVec.toInt ((blk.start.toNat * 1024 : Nat) : Int) _ (members1024_asc _) (members1024_lt _) _ hv n).1

/-- reverse iteration: exactly the last `min(n, Len)` integers of the block, largest first, strictly descending -/
theorem block_reverse_descending (c : Cfg) (hc : Proved c) (magic : Int) (blk : Block) (n : Int) (hn : 0 ≤ n) :
    ∃ l, bigGetN c magic true blk n = (if l = [] then GetN.nil else .slice l) ∧
      l.map BitVec.toInt = ((members1024 blk.bits).reverse.take n.toNat).map (fun (m : Nat) => ((blk.start.toNat * 1024 : Nat) : Int) + (m : Int)) ∧
      l.length = min n.toNat (members1024 blk.bits).length ∧ (l.map BitVec.toInt).Pairwise (· > ·) := by
  unfold bigGetN bigIter
  rw [getN_of_iter c.base hc.1 magic true _ _ n hn]
  have hv : ∀ i, i < 1024 → (BitVec.ofNat 64 i + bigOffset c true blk.start).toInt = ((blk.start.toNat * 1024 : Nat) : Int) + i :=
    fun i hi => by rw [bigOffset_proved c hc]; exact big_value blk.start i hi
  refine ⟨_, rfl, ?_, expected_length _ _ _ _, ?_⟩
  · simpa using expected_values BitVec.toInt ((blk.start.toNat * 1024 : Nat) : Int) _ (members1024_lt _) _ hv true n
  · exact (expected_pairwise BitVec.toInt ((blk.start.toNat * 1024 : Nat) : Int) _ (members1024_asc _) (members1024_lt _) _ hv n).2

/-- `U32BitTip.GetNAsU32 / RGetNAsU32`, exact output (start within `MaxU32TipStart`, as every constructor guarantees):
    the `uint32` values are exactly `Start·1024 + m` for the first `min(n, Len)` members, ascending resp. descending -/
theorem tip_forward_ascending (c : Cfg) (hc : Proved c) (magic : Int) (blk : Block) (hst : blk.start.toNat ≤ 4194303)
    (n : Int) (hn : 0 ≤ n) :
    ∃ l, tipGetN c magic false blk n = (if l = [] then GetN.nil else .slice l) ∧
      l.map (fun v => (v.toNat : Int)) = ((members1024 blk.bits).take n.toNat).map (fun (m : Nat) => ((blk.start.toNat * 1024 : Nat) : Int) + (m : Int)) ∧
      l.length = min n.toNat (members1024 blk.bits).length ∧ (l.map (fun v => (v.toNat : Int))).Pairwise (· < ·) := by
  unfold tipGetN tipIter
  have hd : tipDir c false = false := by simp [tipDir, hc.2.2.2.1]
  rw [hd, getN_of_iter c.base hc.1 magic false _ _ n hn]
  have hv : ∀ i, i < 1024 → ((BitVec.ofNat 32 i + blk.start * BitVec.ofNat 32 c.c1k).toNat : Int) = ((blk.start.toNat * 1024 : Nat) : Int) + i :=
    fun i hi => by rw [hc.2.2.2.2.1]; exact tip_value blk.start hst i hi
  refine ⟨_, rfl, ?_, expected_length _ _ _ _, ?_⟩
  · simpa using expected_values (fun v => (v.toNat : Int)) ((blk.start.toNat * 1024 : Nat) : Int) _ (members1024_lt _) _ hv false n
  · exact (expected_pairwise (fun v => (v.toNat : Int)) ((blk.start.toNat * 1024 : Nat) : Int) _ (members1024_asc _) (members1024_lt _) _ hv n).1

theorem tip_reverse_descending (c : Cfg) (hc : Proved c) (magic : Int) (blk : Block) (hst : blk.start.toNat ≤ 4194303)
    (n : Int) (hn : 0 ≤ n) :
    ∃ l, tipGetN c magic true blk n = (if l = [] then GetN.nil else .slice l) ∧
      l.map (fun v => (v.toNat : Int)) = ((members1024 blk.bits).reverse.take n.toNat).map (fun (m : Nat) => ((blk.start.toNat * 1024 : Nat) : Int) + (m : Int)) ∧
      l.length = min n.toNat (members1024 blk.bits).length ∧ (l.map (fun v => (v.toNat : Int))).Pairwise (· > ·) := by
  unfold tipGetN tipIter
  have hd : tipDir c true = true := by simp [tipDir, hc.2.2.2.1]
  rw [hd, getN_of_iter c.base hc.1 magic true _ _ n hn]
  have hv : ∀ i, i < 1024 → ((BitVec.ofNat 32 i + blk.start * BitVec.ofNat 32 c.c1k).toNat : Int) = ((blk.start.toNat * 1024 : Nat) : Int) + i :=
    fun i hi => by rw [hc.2.2.2.2.1]; exact tip_value blk.start hst i hi
  refine ⟨_, rfl, ?_, expected_length _ _ _ _, ?_⟩
  · simpa using expected_values (fun v => (v.toNat : Int)) ((blk.start.toNat * 1024 : Nat) : Int) _ (members1024_lt _) _ hv true n
  · exact (expected_pairwise (fun v => (v.toNat : Int)) ((blk.start.toNat * 1024 : Nat) : Int) _ (members1024_asc _) (members1024_lt _) _ hv n).2

-- non-vacuity: a full block (all 1024 members, built as the complement of the empty block) asked for 1024 / 1025 values
example (j : Nat) (hj : j < 1024) : mem1024 (reverse1024 empty1024) j = true := by
  rw [reverse1024_mem _ _ hj, mem_empty1024]; rfl

/-- every block the constructors produce satisfies the start bound used above -/
theorem newTip_start_le (u : BitVec 32) : (newTipFromU32 u).start.toNat ≤ 4194303 := by
  have := (selU32_spec u).1
  have l := u.isLt
  simp only [newTipFromU32]
  omega

/-! ### list forms: concatenation of the per-block iterations in the order the code visits, truncated to `n` -/

/-- **`BigU32s.GetNAsI64 / RGetNAsI64`** (as coded: blocks are visited in *index order for both directions*; inside a block
    the direction applies). The result is `nil` for an empty list, a panic for `n < 0` on a non-empty list (`make`),
    otherwise exactly the first `n` values of the concatenation of the per-block full iterations
    (`blockAll rev bits (Start·1024)`; its `take k` is the single-block output of `block_iteration_exact`). The loop's
    bookkeeping (`pos = iterN`, `left = n - iterN`, stop once `iterN >= n`) is the invariant `listChain_spec`. -/
theorem bigs_list_concat (c : Cfg) (hc : Proved c) (magic : Int) (rev : Bool) (bs : List Block) (n : Int) :
    bigsGetN c magic rev bs n =
      if bs = [] then .nil else if n < 0 then .panic
      else .slice ((bs.flatMap (fun b => blockAll rev b.bits (BitVec.setWidth 64 b.start * 1024#64))).take n.toNat) := by
  unfold bigsGetN
  apply listGetN_spec
  intro b s pos left h0 hroom
  unfold bigIter
  rw [bigOffset_proved c hc]
  rw [← expected_eq_take_blockAll] at hroom ⊢
  exact iter1024_eq_spec c.base hc.1 magic rev b.bits s pos _ left h0 hroom

/-- **`U32BitTips.GetNAsU32 / RGetNAsU32`** (as coded: the reverse form visits the blocks in *reverse index order* and
    iterates each block downwards; the forward form visits them in index order) -/
theorem tips_list_concat (c : Cfg) (hc : Proved c) (magic : Int) (rev : Bool) (bs : List Block) (n : Int) :
    tipsGetN c magic rev bs n =
      if bs = [] then .nil else if n < 0 then .panic
      else .slice (((if rev then bs.reverse else bs).flatMap (fun b => blockAll rev b.bits (b.start * 1024#32))).take n.toNat) := by
  unfold tipsGetN
  have hne : ((if rev then bs.reverse else bs) = []) ↔ bs = [] := by cases rev <;> simp
  have := listGetN_spec (w := 32) (fun b s pos left => tipIter c magic rev b s pos left)
    (fun b => blockAll rev b.bits (b.start * 1024#32)) (by
      intro b s pos left h0 hroom
      unfold tipIter
      rw [hc.2.2.2.2.1]
      rw [← expected_eq_take_blockAll] at hroom ⊢
      exact iter1024_eq_spec c.base hc.1 magic rev b.bits s pos _ left h0 hroom) n (if rev then bs.reverse else bs)
  rw [this]
  by_cases hb : bs = []
  · simp [hb]
  · have : ¬ (if rev then bs.reverse else bs) = [] := fun h => hb (hne.1 h)
    simp [hb, this]

/-- total produced by a list form: `min(n, Σ Len)` — nothing is skipped, nothing is produced after `n` is exhausted -/
theorem list_forms_total (rev : Bool) (bs : List Block) (add : Block → BitVec 64) (n : Int) :
    ((bs.flatMap (fun b => blockAll rev b.bits (add b))).take n.toNat).length =
      min n.toNat ((bs.map (fun b => (members1024 b.bits).length)).sum) := by
  have hl : ∀ b : Block, (blockAll rev b.bits (add b)).length = (members1024 b.bits).length := by
    intro b; unfold blockAll; cases rev <;> simp only [Bool.false_eq_true, if_false, if_true, List.length_map, List.length_reverse]
  have : (bs.flatMap (fun b => blockAll rev b.bits (add b))).length = (bs.map (fun b => (members1024 b.bits).length)).sum := by
    induction bs with
    | nil => rfl
    | cons b rest ih => rw [List.flatMap_cons, List.length_append, ih, List.map_cons, List.sum_cons, hl]
  rw [List.length_take, this]

/-- the values of a BigU32s list iteration as `int64`s: block after block, `Start·1024 + m` -/
theorem bigs_list_values (rev : Bool) (bs : List Block) (n : Int) :
    (((bs.flatMap (fun b => blockAll rev b.bits (BitVec.setWidth 64 b.start * 1024#64))).take n.toNat).map BitVec.toInt) =
      (bs.flatMap (fun b => (if rev then (members1024 b.bits).reverse else members1024 b.bits).map
        (fun (m : Nat) => ((b.start.toNat * 1024 : Nat) : Int) + (m : Int)))).take n.toNat := by
  rw [List.map_take, List.map_flatMap]
  apply congrArg (List.take n.toNat)
  apply flatMap_congr'
  intro b _
  unfold blockAll
  rw [List.map_map]
  apply List.map_congr_left
  intro i hi
  have : i ∈ members1024 b.bits := by cases rev <;> simpa using hi
  simp only [Function.comp, big_value b.start i (members1024_lt _ i this)]

-- non-vacuity: two blocks {5} (start 0) and {1} (start 8388608 = 2^23), forward, n = 5
example : bigsGetN cfgFixed 9 false [⟨0#32, setI16 empty1024 5#16⟩, ⟨8388608#32, setI16 empty1024 1#16⟩] 5 =
    .slice [5#64, 8589934593#64] := by decide
example : tipsGetN cfgFixed 9 true [⟨0#32, setI16 empty1024 5#16⟩, ⟨1#32, setI16 (setI16 empty1024 1#16) 2#16⟩] 2 =
    .slice [1026#32, 1025#32] := by decide

/-! ### the unrepaired configuration (before f369e56 / d9c43db): the property is false of it, by concrete witnesses -/

/-- F07 — `int64(b.Start*C1K)` multiplies in `uint32`: the block of `2^33+5` iterates to `[5]` -/
theorem witness_bigu32_offset_wraps :
    (newBigFromI64 8589934597#64).map (fun b => bigGetN cfgUnrepaired 9 false b 1) = some (.slice [5#64]) := by decide

theorem witness_bigu32_roffset_wraps :
    (newBigFromI64 8589934597#64).map (fun b => bigGetN cfgUnrepaired 9 true b 1) = some (.slice [5#64]) := by decide

/-- F08 — `getNAsU32` dispatch swapped: the forward call on {7, 9} answers `[9, 7]`, the reverse call `[7, 9]` -/
theorem witness_u32tip_forward_descending :
    tipGetN cfgUnrepaired 9 false (tipSetU32 (newTipFromU32 7#32) 9#32).1 2 = .slice [9#32, 7#32] := by decide

theorem witness_u32tip_reverse_ascending :
    tipGetN cfgUnrepaired 9 true (tipSetU32 (newTipFromU32 7#32) 9#32).1 2 = .slice [7#32, 9#32] := by decide

/-- hence `bigu32_roundtrip` does not hold for `cfgUnrepaired` -/
theorem not_bigu32_roundtrip_unrepaired :
    ¬ (∀ (v : BitVec 64), 0 ≤ v.toInt ∧ v.toInt < 4398046510080 →
        ∃ blk, newBigFromI64 v = some blk ∧ bigGetN cfgUnrepaired 9 false blk 1 = .slice [v]) := by
  intro h
  obtain ⟨blk, h1, h2⟩ := h 8589934597#64 (by decide)
  have hw := witness_bigu32_offset_wraps
  rw [h1] at hw
  simp only [Option.map_some, Option.some.injEq] at hw
  rw [hw] at h2
  exact absurd h2 (by decide)

/-- the same inputs under the repaired configuration -/
example : (newBigFromI64 8589934597#64).map (fun b => bigGetN cfgFixed 9 false b 1) = some (.slice [8589934597#64]) := by decide
example : tipGetN cfgFixed 9 false (tipSetU32 (newTipFromU32 7#32) 9#32).1 2 = .slice [7#32, 9#32] := by decide

end Nv.C09
