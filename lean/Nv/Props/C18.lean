import Nv.Model.C18
/-!
C18 — property theorems for `gormx.Transact` (model: `Nv.Model.C18`).
All statements quantify over every step list, every outcome per step and every
begin/commit result; the configuration `c` ranges over `Proved`.
-/
namespace Nv.C18

/-! ### helper lemmas about the step loop -/

theorem runSteps_events_no_finish (i : Nat) (steps : List StepOutcome) :
    Event.commit ∉ (runSteps i steps).1 ∧ Event.rollback ∉ (runSteps i steps).1 ∧ Event.begin ∉ (runSteps i steps).1 := by
  induction steps generalizing i with
  | nil => simp [runSteps]
  | cons o rest ih =>
    cases o <;> simp [runSteps, ih]

theorem allOk_cons (o : StepOutcome) (rest : List StepOutcome) :
    allOk (o :: rest) = (isOk o && allOk rest) := by simp [allOk]

theorem runSteps_completed_iff (i : Nat) (steps : List StepOutcome) :
    (runSteps i steps).2 = .completed ↔ allOk steps = true := by
  induction steps generalizing i with
  | nil => simp [runSteps, allOk]
  | cons o rest ih =>
    cases o <;> simp [runSteps, allOk_cons, isOk, ih]

theorem seesPanic_of_proved (c : Cfg) (h : Proved c) (v : Option Nat) : seesPanic c v = true := by
  cases v with
  | some _ => rfl
  | none =>
    simp [seesPanic, show c.detect = .finishedFlag from h]

theorem count_finish (c : Cfg) (ok : Bool) (l : LoopEnd) :
    (finish c ok l).1.count .commit + (finish c ok l).1.count .rollback = 1 := by
  cases l <;> simp [finish] <;> split <;> simp

theorem count_zero_of_not_mem {e : Event} {l : List Event} (h : e ∉ l) : l.count e = 0 :=
  List.count_eq_zero.2 h

/-! ### property theorems -/

/-- begun ⇒ finished exactly once (exactly one commit-or-rollback event); holds for *every* cfg -/
theorem tx_finished_once (c : Cfg) (commitOk : Bool) (steps : List StepOutcome) (hne : steps ≠ []) :
    let ev := (transact c true commitOk steps).1
    ev.count .commit + ev.count .rollback = 1 := by
  cases steps with
  | nil => exact absurd rfl hne
  | cons o rest =>
    have h := runSteps_events_no_finish 0 (o :: rest)
    have := count_finish c commitOk (runSteps 0 (o :: rest)).2
    simp only [transact, Bool.not_true, Bool.false_eq_true, if_false]
    rw [List.count_cons, List.count_cons, List.count_append, List.count_append,
      count_zero_of_not_mem h.1, count_zero_of_not_mem h.2.1]
    simp; omega

/-- committed iff every step returned nil without panicking -/
theorem tx_commit_iff_all_ok (c : Cfg) (hc : Proved c) (commitOk : Bool) (steps : List StepOutcome)
    (hne : steps ≠ []) :
    Event.commit ∈ (transact c true commitOk steps).1 ↔ allOk steps = true := by
  cases steps with
  | nil => exact absurd rfl hne
  | cons o rest =>
    have h := runSteps_events_no_finish 0 (o :: rest)
    have hiff := runSteps_completed_iff 0 (o :: rest)
    simp only [transact, Bool.not_true, Bool.false_eq_true, if_false, List.mem_cons, List.mem_append]
    constructor
    · intro hm
      rcases hm with hm | hm | hm
      · cases hm
      · exact absurd hm h.1
      · apply hiff.1
        cases hl : (runSteps 0 (o :: rest)).2 with
        | completed => rfl
        | failed e => rw [hl] at hm; simp [finish] at hm
        | panicked v => rw [hl] at hm; simp [finish, seesPanic_of_proved c hc] at hm
    · intro hall
      right; right
      rw [hiff.2 hall]; simp [finish]

/-- otherwise it is rolled back -/
theorem tx_rollback_iff_not_all_ok (c : Cfg) (hc : Proved c) (commitOk : Bool) (steps : List StepOutcome)
    (hne : steps ≠ []) :
    Event.rollback ∈ (transact c true commitOk steps).1 ↔ allOk steps = false := by
  have h1 := tx_finished_once c commitOk steps hne
  have h2 := tx_commit_iff_all_ok c hc commitOk steps hne
  simp only at h1
  constructor
  · intro hr
    cases hall : allOk steps with
    | false => rfl
    | true =>
      have hcm := h2.2 hall
      have a := List.count_pos_iff.2 hcm
      have b := List.count_pos_iff.2 hr
      omega
  · intro hall
    have hnc : Event.commit ∉ (transact c true commitOk steps).1 := by
      intro hm; rw [h2.1 hm] at hall; cases hall
    have := count_zero_of_not_mem hnc
    apply List.count_pos_iff.1; omega

/-- steps that run are exactly the all-ok prefix plus the first failing step: no later step runs -/
theorem tx_no_step_after_failure (c : Cfg) (b commitOk : Bool) (pre post : List StepOutcome)
    (bad : StepOutcome) (hpre : allOk pre = true) (hbad : isOk bad = false) (i : Nat)
    (hi : Event.step i ∈ (transact c b commitOk (pre ++ bad :: post)).1) : i ≤ pre.length := by
  have key : ∀ (pre : List StepOutcome) (k : Nat), allOk pre = true →
      ∀ i, Event.step i ∈ (runSteps k (pre ++ bad :: post)).1 → i ≤ k + pre.length := by
    intro pre
    induction pre with
    | nil =>
      intro k _ i hi
      cases bad <;> simp [runSteps, isOk] at hi hbad <;> omega
    | cons o rest ih =>
      intro k hp i hi
      cases o <;> simp [allOk_cons, isOk] at hp
      simp only [List.cons_append, runSteps, List.mem_cons] at hi
      rcases hi with hi | hi
      · cases hi; omega
      · have := ih (k+1) hp i hi
        simp; omega
  have hne : pre ++ bad :: post ≠ [] := by simp
  cases hl : pre ++ bad :: post with
  | nil => exact absurd hl hne
  | cons o rest =>
    rw [hl] at hi
    cases b with
    | false => simp [transact] at hi
    | true =>
      simp only [transact, Bool.not_true, Bool.false_eq_true, if_false, List.mem_cons,
        List.mem_append] at hi
      rcases hi with hi | hi | hi
      · cases hi
      · rw [← hl] at hi; simpa using key pre 0 hpre i hi
      · cases hf : (runSteps 0 (o :: rest)).2 <;> rw [hf] at hi <;> simp [finish] at hi
        split at hi <;> simp at hi

/-- the first failing step does run, and every step before it -/
theorem tx_prefix_runs (c : Cfg) (commitOk : Bool) (pre post : List StepOutcome) (bad : StepOutcome)
    (hpre : allOk pre = true) (i : Nat) (hi : i ≤ pre.length) :
    Event.step i ∈ (transact c true commitOk (pre ++ bad :: post)).1 := by
  have key : ∀ (pre : List StepOutcome) (k : Nat), allOk pre = true →
      ∀ i, k ≤ i → i ≤ k + pre.length → Event.step i ∈ (runSteps k (pre ++ bad :: post)).1 := by
    intro pre
    induction pre with
    | nil =>
      intro k _ i h1 h2
      have : i = k := by simp at h2; omega
      subst this
      cases bad <;> simp [runSteps]
    | cons o rest ih =>
      intro k hp i h1 h2
      cases o <;> simp [allOk_cons, isOk] at hp
      simp only [List.cons_append, runSteps, List.mem_cons]
      by_cases hik : i = k
      · left; rw [hik]
      · right; exact ih (k+1) hp i (by omega) (by simp at h2; omega)
  have hne : pre ++ bad :: post ≠ [] := by simp
  cases hl : pre ++ bad :: post with
  | nil => exact absurd hl hne
  | cons o rest =>
    simp only [transact, Bool.not_true, Bool.false_eq_true, if_false, List.mem_cons, List.mem_append]
    right; left
    rw [← hl]; exact key pre 0 hpre i (by omega) (by omega)

/-- the error returned: nil iff all steps ok and commit succeeded -/
theorem tx_result_nil_iff (c : Cfg) (hc : Proved c) (commitOk : Bool) (steps : List StepOutcome)
    (hne : steps ≠ []) :
    (transact c true commitOk steps).2 = .nil ↔ (allOk steps = true ∧ commitOk = true) := by
  cases steps with
  | nil => exact absurd rfl hne
  | cons o rest =>
    have hiff := runSteps_completed_iff 0 (o :: rest)
    simp only [transact, Bool.not_true, Bool.false_eq_true, if_false]
    cases hl : (runSteps 0 (o :: rest)).2 with
    | completed =>
      have := hiff.1 hl
      cases commitOk <;> simp [finish, this]
    | failed e =>
      have : allOk (o :: rest) ≠ true := fun h => by rw [hiff.2 h] at hl; cases hl
      simp [finish, this]
    | panicked v =>
      have : allOk (o :: rest) ≠ true := fun h => by rw [hiff.2 h] at hl; cases hl
      simp [finish, seesPanic_of_proved c hc, this]

/-- first failing step's error, or the panic's description -/
theorem tx_result_first_failure (c : Cfg) (hc : Proved c) (commitOk : Bool) (pre post : List StepOutcome)
    (bad : StepOutcome) (hpre : allOk pre = true) :
    (transact c true commitOk (pre ++ bad :: post)).2 =
      match bad with
      | .ok => (transact c true commitOk (pre ++ bad :: post)).2
      | .err e => .stepErr e
      | .panic v => .panicErr (some v)
      | .panicNil => .panicErr none := by
  have key : ∀ (pre : List StepOutcome) (k : Nat), allOk pre = true →
      (runSteps k (pre ++ bad :: post)).2 =
        match bad with
        | .ok => (runSteps k (pre ++ bad :: post)).2
        | .err e => .failed e
        | .panic v => .panicked (some v)
        | .panicNil => .panicked none := by
    intro pre
    induction pre with
    | nil => intro k _; cases bad <;> simp [runSteps]
    | cons o rest ih =>
      intro k hp
      cases o <;> simp [allOk_cons, isOk] at hp
      have := ih (k+1) hp
      cases bad <;> simp [runSteps] at this ⊢ <;> exact this
  have hne : pre ++ bad :: post ≠ [] := by simp
  cases hl : pre ++ bad :: post with
  | nil => exact absurd hl hne
  | cons o rest =>
    have hk := key pre 0 hpre
    rw [hl] at hk
    cases bad with
    | ok => rfl
    | err e => simp [transact, hk, finish]
    | panic v => simp [transact, hk, finish, seesPanic]
    | panicNil => simp [transact, hk, finish, seesPanic_of_proved c hc]

/-- all steps ok but commit fails: commit error -/
theorem tx_result_commit_failure (c : Cfg) (steps : List StepOutcome) (hne : steps ≠ [])
    (hall : allOk steps = true) : (transact c true false steps).2 = .commitErr := by
  cases steps with
  | nil => exact absurd rfl hne
  | cons o rest =>
    simp [transact, (runSteps_completed_iff 0 (o :: rest)).2 hall, finish]

/-- a failure to begin runs no step and finishes nothing -/
theorem tx_begin_failure_runs_nothing (c : Cfg) (commitOk : Bool) (steps : List StepOutcome) (hne : steps ≠ []) :
    transact c false commitOk steps = ([.begin], .beginErr) := by
  cases steps with
  | nil => exact absurd rfl hne
  | cons o rest => simp [transact]

/-- with no steps nothing is begun -/
theorem tx_empty_begins_nothing (c : Cfg) (b commitOk : Bool) : transact c b commitOk [] = ([], .nil) := rfl

/-- `Combine fns` used as one step finishes the transaction like the list itself -/
theorem combine_spec (c : Cfg) (commitOk : Bool) (fns : List StepOutcome) (hne : fns ≠ []) :
    (transact c true commitOk [combine fns]).2 = (transact c true commitOk fns).2 ∧
    (Event.commit ∈ (transact c true commitOk [combine fns]).1 ↔ Event.commit ∈ (transact c true commitOk fns).1) := by
  have key : ∀ (fns : List StepOutcome) (k j : Nat),
      (runSteps k [combine fns]).2 = (runSteps j fns).2 ∨ (fns = [] ) := by
    intro fns
    induction fns with
    | nil => intro _ _; right; rfl
    | cons o rest ih =>
      intro k j
      left
      cases o with
      | ok =>
        rcases ih k (j+1) with h | h
        · simpa [combine, runSteps] using h
        · subst h; simp [combine, runSteps]
      | err e => simp [combine, runSteps]
      | panic v => simp [combine, runSteps]
      | panicNil => simp [combine, runSteps]
  cases fns with
  | nil => exact absurd rfl hne
  | cons o rest =>
    have hk : (runSteps 0 [combine (o :: rest)]).2 = (runSteps 0 (o :: rest)).2 := by
      rcases key (o :: rest) 0 0 with h | h
      · exact h
      · cases h
    have n1 := runSteps_events_no_finish 0 [combine (o :: rest)]
    have n2 := runSteps_events_no_finish 0 (o :: rest)
    constructor
    · simp [transact, hk]
    · simp only [transact, Bool.not_true, Bool.false_eq_true, if_false, List.mem_cons, List.mem_append, hk]
      constructor
      · rintro (h | h | h)
        · cases h
        · exact absurd h n1.1
        · right; right; exact h
      · rintro (h | h | h)
        · cases h
        · exact absurd h n2.1
        · right; right; exact h

/-- the step events of a run: indices `k, k+1, …` of the all-ok prefix and of the first failing step -/
def ranSteps : Nat → List StepOutcome → List Event
  | _, [] => []
  | k, .ok :: rest => .step k :: ranSteps (k+1) rest
  | k, _ :: _ => [.step k]

theorem runSteps_events (k : Nat) (steps : List StepOutcome) : (runSteps k steps).1 = ranSteps k steps := by
  induction steps generalizing k with
  | nil => rfl
  | cons o rest ih => cases o <;> simp [runSteps, ranSteps, ih]

/-- exact shape and order of the events: `begin`, then the steps in list order up to and including the first failing
    one, then exactly one finishing event — commit if all steps were ok, rollback otherwise -/
theorem tx_events_shape (c : Cfg) (hc : Proved c) (commitOk : Bool) (steps : List StepOutcome) (hne : steps ≠ []) :
    (transact c true commitOk steps).1 =
      .begin :: (ranSteps 0 steps ++ [if allOk steps then Event.commit else Event.rollback]) := by
  cases steps with
  | nil => exact absurd rfl hne
  | cons o rest =>
    have hiff := runSteps_completed_iff 0 (o :: rest)
    simp only [transact, Bool.not_true, Bool.false_eq_true, if_false, runSteps_events]
    cases hl : (runSteps 0 (o :: rest)).2 with
    | completed => simp [finish, hiff.1 hl]
    | failed e =>
      have : allOk (o :: rest) = false := by
        cases h : allOk (o :: rest) with
        | false => rfl
        | true => rw [hiff.2 h] at hl; cases hl
      simp [finish, this]
    | panicked v =>
      have : allOk (o :: rest) = false := by
        cases h : allOk (o :: rest) with
        | false => rfl
        | true => rw [hiff.2 h] at hl; cases hl
      simp [finish, seesPanic_of_proved c hc, this]

/-- `Combine` stops at the first failing function: it invokes exactly the all-ok prefix plus that function -/
theorem combine_early_exit (pre post : List StepOutcome) (bad : StepOutcome) (hpre : allOk pre = true)
    (hbad : isOk bad = false) :
    combineRan (pre ++ bad :: post) = pre.length + 1 ∧ combine (pre ++ bad :: post) = bad := by
  induction pre with
  | nil => cases bad <;> simp [combineRan, combine, isOk] at hbad ⊢
  | cons o rest ih =>
    cases o <;> simp [allOk_cons, isOk] at hpre
    have := ih hpre
    simp [combineRan, combine, this]; omega

theorem combine_all_ok (fns : List StepOutcome) (h : allOk fns = true) :
    combineRan fns = fns.length ∧ combine fns = .ok := by
  induction fns with
  | nil => simp [combineRan, combine]
  | cons o rest ih =>
    cases o <;> simp [allOk_cons, isOk] at h
    have := ih h
    simp [combineRan, combine, this]; omega

/-- `Combine` nests: combining combined groups is combining the concatenation — same outcome … -/
theorem combine_flatten (groups : List (List StepOutcome)) :
    combine (groups.map combine) = combine groups.flatten := by
  induction groups with
  | nil => rfl
  | cons g rest ih =>
    induction g with
    | nil => simpa [combine] using ih
    | cons o os ihg =>
      cases o with
      | ok => simpa [combine] using ihg
      | err e => simp [combine]
      | panic v => simp [combine]
      | panicNil => simp [combine]

/-- … and the same number of leaf functions invoked (a group contributes the leaves it ran) -/

theorem combineRan_append_ok (g rest : List StepOutcome) :
    combineRan (g ++ rest) = if isOk (combine g) then combineRan g + combineRan rest else combineRan g := by
  induction g with
  | nil => simp [combine, combineRan, isOk]
  | cons o os ih =>
    cases o with
    | ok =>
      simp only [List.cons_append, combineRan, combine, ih]
      by_cases h : isOk (combine os) = true <;> simp [h] <;> omega
    | err e => simp [combine, combineRan, isOk]
    | panic v => simp [combine, combineRan, isOk]
    | panicNil => simp [combine, combineRan, isOk]

theorem nested_ran_flatten (groups : List (List StepOutcome)) :
    nestedRan groups = combineRan groups.flatten := by
  induction groups with
  | nil => rfl
  | cons g rest ih => simp [nestedRan, List.flatten_cons, combineRan_append_ok, ih]

/-- so a transaction over nested `Combine`s finishes like the transaction over the flat list -/
theorem tx_nested_combine (c : Cfg) (commitOk : Bool) (groups : List (List StepOutcome)) (hne : groups.flatten ≠ []) :
    (transact c true commitOk [combine (groups.map combine)]).2 = (transact c true commitOk groups.flatten).2 := by
  rw [combine_flatten]
  exact (combine_spec c commitOk groups.flatten hne).1

example : combine ([[.ok, .ok], [.ok, .err 4, .ok], [.panic 1]].map combine) = .err 4 ∧
    nestedRan [[.ok, .ok], [.ok, .err 4, .ok], [.panic 1]] = 4 := by decide

/-! ### non-vacuity and the witness for the unrepaired detection -/

example : Proved ⟨.finishedFlag, true⟩ := by decide
example : Proved ⟨.finishedFlag, false⟩ := by decide
example : ¬ Proved ⟨.recoverNonNil, false⟩ := by decide

/-- a concrete non-trivial run: second step panics ⇒ rollback, third never runs -/
example : transact ⟨.finishedFlag, true⟩ true true [.ok, .panic 7, .ok] =
    ([.begin, .step 0, .step 1, .rollback], .panicErr (some 7)) := by decide

/-- `recover() != nil` under a main module with go < 1.21: a step that does `panic(nil)` is
    committed and nil is returned — the property is false of that configuration. -/
theorem witness_recoverNonNil_panicNil :
    transact ⟨.recoverNonNil, true⟩ true true [.ok, .panicNil, .ok] =
      ([.begin, .step 0, .step 1, .commit], .nil) := by decide

theorem not_commit_iff_all_ok_recoverNonNil :
    ¬ (∀ steps : List StepOutcome, steps ≠ [] →
        (Event.commit ∈ (transact ⟨.recoverNonNil, true⟩ true true steps).1 ↔ allOk steps = true)) := by
  intro h
  have := (h [.ok, .panicNil, .ok] (by simp)).1 (by decide)
  simp [allOk, isOk] at this

end Nv.C18
