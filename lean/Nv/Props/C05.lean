import Nv.Model.C05
import Nv.Spec.C05
import Nv.Proofs.C05Hist
import Nv.Proofs.C05Agree
import Nv.Proofs.C05Recent
import Nv.Proofs.C05Scan
/-!
C05 — property theorems for the TTL caches (model: `Nv.Model.C05`, history spec: `Nv.Spec.C05`).

Every statement quantifies over all histories (`ops : List Op`, including clock advances), all keys,
values, sizes, default ttls and clock readings; the configuration `c` ranges over the facts the
statement needs (`Proved c` is the conjunction of all three). For today's source (`Cfg.today`) the
three affected clauses are refuted by concrete witnesses at the end.
-/
namespace Nv.C05

/-- the in-memory cache started empty at clock reading `clock` (ms) -/
def MSys.start (clock size : Nat) (dttl : Int) : MSys := ⟨clock, Mem.new size dttl⟩

/-! ### A successful Get returns the value of the latest successful Set … -/

/-- Along every history, every successful Get returns the value of the latest successful Set of its key, and
    none if the key was since removed, cleared, consumed by a remove-after-get read or seen absent
    (`HistOk`, `Nv.Spec.C05`). Holds for every configuration, also today's. -/
theorem ttl_get_latest (c : Cfg) (clock size : Nat) (dttl : Int) (ops : List Op) :
    HistOk (fun _ => none) (events c (MSys.start clock size dttl) ops) :=
  histOk_run ops _ _ (wf_new size dttl) (by intro k n hn; simp [MSys.start, Mem.new, Mem.lookup, findKey] at hn)

/-- … and only while its time-to-live has not elapsed: a Get hits exactly when the index holds a node of the key
    whose deadline is not behind the clock; an elapsed node gives not-found. -/
theorem ttl_hit_iff_live (m : Mem) (now : Int) (k : Key) (o : GetOpt) (v : Val) :
    (m.get now k o).2 = .value v ↔ ∃ n, m.lookup k = some n ∧ expired now n.dl = false ∧ n.val = v :=
  get_value_iff

theorem ttl_elapsed_misses (m : Mem) (now : Int) (k : Key) (o : GetOpt) (n : Node)
    (hl : m.lookup k = some n) (he : expired now n.dl = true) : (m.get now k o).2 = .notFound :=
  (expired_get_as_absent hl he o).2

/-- the deadline a (non keep-ttl) Set stores is `now + ttl`, or never for `ttl ≤ 0` -/
theorem ttl_set_stores (c : Cfg) (m : Mem) (hs : 1 ≤ m.size) (now : Int) (k : Key) (v : Val) (t : Option Int)
    (mne : Bool) (h : (m.set c now k v ⟨t, mne, false⟩).2 = .ok) :
    (m.set c now k v ⟨t, mne, false⟩).1.lookup k = some ⟨k, v, deadline now (t.getD m.dttl)⟩ := by
  have hd : (m.preSet c now k).dttl = m.dttl := dttl_preSet c m now k
  have hsz : (m.preSet c now k).size = m.size := size_preSet c m now k
  simp only [Mem.set] at h ⊢
  generalize m.preSet c now k = m' at h hd hsz ⊢
  unfold Mem.setCore at h ⊢
  split
  · rename_i x hx
    have hkx := lookup_key hx
    cases mne
    · simp only [Bool.false_eq_true, if_false]
      have := lookup_touch_self m' { x with val := v, dl := deadline now (setTtl m' ⟨t, false, false⟩) }
      simp only [hkx] at this
      simpa [setTtl, hd, hkx] using this
    · simp [hx] at h
  · have := insertNew_lookup_self (c := c) (m := m') (by omega) ⟨k, v, deadline now (setTtl m' ⟨t, mne, false⟩)⟩
    simpa [setTtl, hd] using this

/-! ### an elapsed key behaves exactly like a key that was never set -/

/-- For the repaired `set()`: in *any* state, every call addressing a key whose time-to-live has elapsed gives
    the same result and the same next state as on the cache from which that key was removed. -/
theorem ttl_expired_as_absent (c : Cfg) (hc : c.setExpiry = .purge) (m : Mem) (now : Int) (k : Key) (n : Node)
    (hl : m.lookup k = some n) (he : expired now n.dl = true) (op : Op) (hop : opKey op = some k) :
    m.step c now op = (m.removeKey k).step c now op := by
  cases op with
  | set k' v o => simp [opKey] at hop; subst hop; exact expired_set_as_absent hc hl he v o
  | get k' o => simp [opKey] at hop; subst hop; exact (expired_get_as_absent hl he o).1
  | remove k' => simp [opKey] at hop; subst hop; simp [Mem.step, removeKey_idem]
  | clear => simp [opKey] at hop
  | tick _ => simp [opKey] at hop

/-- in particular set-if-absent succeeds on it, the new value is then retrievable (size ≥ 1), and a keep-ttl Set
    gives it a fresh deadline -/
theorem ttl_expired_set_if_absent (c : Cfg) (hc : c.setExpiry = .purge) (m : Mem) (hs : 1 ≤ m.size) (now : Int)
    (k : Key) (n : Node) (hl : m.lookup k = some n) (he : expired now n.dl = true) (v : Val) (t : Option Int)
    (keep : Bool) :
    (m.set c now k v ⟨t, true, keep⟩).2 = .ok ∧
    (m.set c now k v ⟨t, true, keep⟩).1.lookup k = some ⟨k, v, deadline now (t.getD m.dttl)⟩ ∧
    ((m.set c now k v ⟨t, true, keep⟩).1.get now k ⟨false, none⟩).2 = .value v := by
  have hset : m.set c now k v ⟨t, true, keep⟩ =
      ((m.removeKey k).insertNew c ⟨k, v, deadline now (t.getD m.dttl)⟩, .ok) := by
    rw [expired_set_as_absent hc hl he]
    have hp : (m.removeKey k).preSet c now k = m.removeKey k := by
      simp only [Mem.preSet, hc, purge_absent (lookup_removeKey_self m k)]
    have hd : (m.removeKey k).dttl = m.dttl := rfl
    unfold Mem.set
    rw [hp]
    simp only [Mem.setCore, lookup_removeKey_self, setTtl, hd]
  have hlk := insertNew_lookup_self (c := c) (m := m.removeKey k) (by simpa [Mem.removeKey] using hs)
    ⟨k, v, deadline now (t.getD m.dttl)⟩
  rw [hset]
  refine ⟨rfl, hlk, ?_⟩
  apply get_value_iff.2
  refine ⟨_, hlk, ?_, rfl⟩
  simp only [deadline]
  split
  · rfl
  · simp [expired]; omega

/-! ### one-shot reads -/

/-- after a successful remove-after-get read the key is gone -/
theorem ttl_consumed_then_miss (m : Mem) (now now' : Int) (k : Key) (u : Option Int) (o : GetOpt) :
    ((m.get now k ⟨true, u⟩).1.get now' k o).2 = .notFound := by
  apply get_notFound_iff.2; left; exact get_remove_absent m now k u

/-- Concurrent callers: each public call is one critical section (lock facts), so every schedule of racing calls
    is a sequence of calls. In every sequence that contains no Set of `k` — any number of remove-after-get
    readers of `k`, mixed with any calls on other keys, Removes, Clears and clock advances — at most one
    remove-after-get read of `k` succeeds. -/
theorem ttl_consume_once (c : Cfg) (s : MSys) (hwf : WF s.mem) (k : Key) (ops : List Op)
    (hops : ∀ op ∈ ops, setsKey k op = false) : consumes k (events c s ops) ≤ 1 :=
  consumes_le_one ops s k hwf hops

/-- every reachable state has a well-formed index -/
theorem ttl_reachable_wf (c : Cfg) (clock size : Nat) (dttl : Int) (ops : List Op) :
    WF (final (MSys.step c) (MSys.start clock size dttl) ops).mem :=
  msys_mem_inv c WF (fun _ now op h => wf_step h now op) ops _ (wf_new size dttl)

/-! ### at most `size` keys are retrievable -/

/-- With the index entry written before the eviction: after every history, for every `size ≥ 0`, at most `size`
    keys are retrievable at any clock reading. -/
theorem ttl_bound (c : Cfg) (hc : c.indexOrder = .beforeEvict) (clock size : Nat) (dttl : Int) (ops : List Op)
    (now : Int) : ((final (MSys.step c) (MSys.start clock size dttl) ops).mem.retrievable now).length ≤ size := by
  have hb := msys_mem_inv c Bounded (fun _ now op h => bounded_step hc h now op) ops (MSys.start clock size dttl)
    (bounded_new size dttl)
  have hsz := msys_size c ops (MSys.start clock size dttl)
  exact Nat.le_trans (retrievable_length_le hb now) (Nat.le_of_eq hsz)

/-- the same, stated on results: any list of distinct keys that all hit at one instant has length ≤ size -/
theorem ttl_bound_hits (c : Cfg) (hc : c.indexOrder = .beforeEvict) (clock size : Nat) (dttl : Int) (ops : List Op)
    (now : Int) (ks : List Key) (hnd : ks.Nodup)
    (hhit : ∀ k ∈ ks, ∃ v, ((final (MSys.step c) (MSys.start clock size dttl) ops).mem.get now k ⟨false, none⟩).2 = .value v) :
    ks.length ≤ size := by
  have hb := msys_mem_inv c Bounded (fun _ now op h => bounded_step hc h now op) ops (MSys.start clock size dttl)
    (bounded_new size dttl)
  have hsz := msys_size c ops (MSys.start clock size dttl)
  have h1 := nodup_subset_length hnd (fun k hk => by obtain ⟨v, hv⟩ := hhit k hk; exact hit_mem_indexed hv)
  have h2 := indexed_length_le hb
  have h3 : (final (MSys.step c) (MSys.start clock size dttl) ops).mem.size = size := hsz
  omega

/-! ### a recently touched key is never evicted

Full statement (NOT yet proved as one theorem over histories):

    ∀ c, c.indexOrder = .beforeEvict → ∀ s (reachable), ∀ k on the recency list, ∀ ops that contain no Clear and no
    call addressing k: if the number of *distinct* keys addressed by `ops` plus the number of nodes in front of k
    is < size, then k is still indexed, with the same node, in `final (MSys.step c) s ops`.

What is proved (`_partial`): the one-call step with *positions* instead of distinct keys — a call that does not
address k moves its node back by at most one place and cannot drop it while fewer than `size − 1` nodes are in
front of it; a hit / overwrite puts the key at the head; a Set of a new key drops exactly the tail, and only when
the list is full. Missing for the full statement: the counting argument that the nodes in front of k are always
among the distinct keys addressed since k's last touch (a subset/cardinality invariant over `ops`). -/

theorem ttl_recent_not_evicted_partial (c : Cfg) (hc : c.indexOrder = .beforeEvict) (m : Mem) (hb : Bounded m)
    (x : Node) (i : Nat) (h : At m x i) (hi : i + 1 < m.size) (now : Int) (op : Op)
    (hop : opKey op ≠ some x.key) (hcl : op ≠ .clear) : At (m.step c now op).1 x (i + 1) :=
  at_step hc hb h hi now op hop hcl

/-- a Set of a new key pushes it to the front and drops exactly the tail of the recency list, only when full -/
theorem ttl_evicts_only_tail (c : Cfg) (hc : c.indexOrder = .beforeEvict) (m : Mem) (n : Node) :
    (m.live.length < m.size ∧ (m.insertNew c n).live = n :: m.live) ∨
    (m.size ≤ m.live.length ∧ (m.insertNew c n).live = (n :: m.live).dropLast) :=
  insertNew_live hc m n

/-- a hit or an overwrite moves the key's node to the head of the recency list -/
theorem ttl_touch_moves_to_front (m : Mem) (n x : Node) (h : findKey n.key m.live = some x) :
    (m.touch n).live = n :: eraseKey n.key m.live :=
  touch_head h

/-- non-vacuity of `ttl_recent_not_evicted_partial`: k2 sits behind one node in a cache of size 3 -/
example : let m : Mem := ⟨3, 0, [⟨1, 5, none⟩, ⟨2, 6, none⟩], []⟩
    Bounded m ∧ At m ⟨2, 6, none⟩ 1 ∧ 1 + 1 < m.size :=
  ⟨⟨rfl, by decide⟩, ⟨[⟨1, 5, none⟩], [], rfl, by decide⟩, by decide⟩

/-! ### the redis-backed cache agrees with the in-memory one -/

/-- For the repaired sources (`Proved c`: ttl converted with `* time.Second`, `set()` purges an elapsed entry, index
    written before the eviction): for every size, every default ttl, every starting clock (ms; the in-memory cache
    reads whole seconds, redis milliseconds, whatever the sub-second phase) and every history inside the comparison
    domain of the property — `Admissible`: positive ttls, keep-ttl (without must-not-exist) on live keys only, no call
    on a key at a clock reading equal to its deadline, no Set that would evict — both caches return the same
    hit/miss, value and already-exists result for every call. -/
theorem ttl_mem_rds_agree (c : Cfg) (hc : Proved c) (clock size : Nat) (dttl : Int) (ops : List Op)
    (hadm : Admissible c (Sys.new clock size dttl) ops) :
    ∀ o ∈ outs (Sys.step c) (Sys.new clock size dttl) ops, o.1 = o.2 :=
  agree_run hc ops _ (rel_new clock size dttl) hadm

/-- the simulation behind it: one admissible call keeps the two stores related and gives equal results -/
theorem ttl_mem_rds_step (c : Cfg) (hc : Proved c) (s : Sys) (hR : Rel s) (op : Op) (ha : admOp s op) :
    (Sys.step c s op).2.1 = (Sys.step c s op).2.2 ∧ Rel (Sys.step c s op).1 :=
  agree_sys_step hc hR ha

/-! ### Clear on redis: the SCAN iteration must be followed to the end -/

/-- For every paging of the key space (any page sizes, short and empty pages included) in which each stored key
    appears on some page — what redis guarantees for an iteration followed until the cursor is 0 — deleting the
    keys of every page leaves the store empty, i.e. `Clear` is `Rds.step .clear` of the model. -/
theorem ttl_rds_clear_all_pages (pages : List (List Key)) (st : List REntry)
    (hcov : ∀ e ∈ st, ∃ pg ∈ pages, e.key ∈ pg) : clearPages pages st = [] :=
  clearPages_covering pages st hcov

/-- non-vacuity, and the counter-example for a Clear that consumes only the first page (cursor dropped):
    12 keys in pages of 10 and 2 (with an empty page in between) — all pages: nothing left; first page: 2 survive -/
theorem witness_clear_first_page_only :
    let st : List REntry := (List.range 12).map (fun k => ⟨k, k + 1, none⟩)
    let pages : List (List Key) := [List.range 10, [], [10, 11]]
    clearPages pages st = [] ∧ (clearFirstPage pages st).map (·.key) = [10, 11] := by decide

/-! ### non-vacuity -/

/-- an admissible history with hits, an elapsed key, set-if-absent, keep-ttl, update-ttl and a consuming read -/
example : Admissible Cfg.fixed (Sys.new 1700000000500 2 5)
    [.set 1 5 ⟨some 3, false, false⟩, .tick 1700, .get 1 ⟨false, none⟩, .set 1 6 ⟨none, false, true⟩, .tick 3000,
     .get 1 ⟨false, none⟩, .set 1 7 ⟨some 2, true, false⟩, .get 1 ⟨false, some 4⟩, .tick 3000, .get 1 ⟨true, none⟩,
     .get 1 ⟨false, none⟩] := admissibleB_sound _ _ (by decide)

example : outs (Sys.step Cfg.fixed) (Sys.new 1700000000500 2 5)
    [.set 1 5 ⟨some 3, false, false⟩, .tick 1700, .get 1 ⟨false, none⟩, .set 1 6 ⟨none, false, true⟩, .tick 3000,
     .get 1 ⟨false, none⟩, .set 1 7 ⟨some 2, true, false⟩, .get 1 ⟨false, some 4⟩, .tick 3000, .get 1 ⟨true, none⟩,
     .get 1 ⟨false, none⟩] =
    [(.ok, .ok), (.ok, .ok), (.value 5, .value 5), (.ok, .ok), (.ok, .ok), (.notFound, .notFound), (.ok, .ok),
     (.value 7, .value 7), (.ok, .ok), (.value 7, .value 7), (.notFound, .notFound)] := by decide

example : Proved Cfg.fixed := by decide
example : ¬ Proved Cfg.today := by decide

/-- a state with an elapsed key (hypotheses of `ttl_expired_as_absent` / `ttl_expired_set_if_absent`) -/
example : let m : Mem := ⟨2, 0, [⟨1, 5, some 103⟩], []⟩
    m.lookup 1 = some ⟨1, 5, some 103⟩ ∧ expired 104 (some 103) = true ∧ 1 ≤ m.size := by decide

/-- a history in which a Get hits, a remove-after-get read consumes, and a later Get misses -/
example : outs (MSys.step Cfg.fixed) (MSys.start 100000 2 0)
    [.set 1 5 ⟨some 3, false, false⟩, .get 1 ⟨false, none⟩, .get 1 ⟨true, none⟩, .get 1 ⟨false, none⟩] =
    [.ok, .value 5, .value 5, .notFound] := by decide

/-- `ttl_consume_once` hypotheses: five racing readers of a live key, exactly one wins -/
example : consumes 1 (events Cfg.fixed ⟨100000, ⟨2, 0, [⟨1, 5, none⟩], []⟩⟩ (List.replicate 5 (.get 1 ⟨true, none⟩))) = 1 := by
  decide

/-! ### today's source: the affected clauses fail (concrete witnesses, replayed on the real code by the monitors) -/

/-- F02: Set; the ttl elapses; Set with must-not-exist reports already-exists. -/
theorem witness_set_ignores_expiry :
    outs (MSys.step Cfg.today) (MSys.start 1700000000000 2 0)
      [.set 1 5 ⟨some 3, false, false⟩, .tick 4000, .set 1 6 ⟨none, true, false⟩, .get 1 ⟨false, none⟩] =
      [.ok, .ok, .exists_, .notFound] := by decide

/-- F02': keep-ttl on an elapsed key stores the value under the dead deadline: it is never readable. -/
theorem witness_keep_ttl_on_elapsed :
    outs (MSys.step Cfg.today) (MSys.start 1700000000000 2 0)
      [.set 1 5 ⟨some 3, false, false⟩, .tick 4000, .set 1 6 ⟨none, false, true⟩, .get 1 ⟨false, none⟩] =
      [.ok, .ok, .ok, .notFound] := by decide

theorem not_expired_as_absent_today :
    ¬ (∀ (m : Mem) (now : Int) (k : Key) (n : Node), m.lookup k = some n → expired now n.dl = true →
        ∀ op, opKey op = some k → m.step Cfg.today now op = (m.removeKey k).step Cfg.today now op) := by
  intro h
  have := h ⟨2, 0, [⟨1, 5, some 103⟩], []⟩ 104 1 ⟨1, 5, some 103⟩ (by decide) (by decide)
    (.set 1 6 ⟨none, true, false⟩) (by decide)
  revert this; decide

/-- F03: size 0 — every key that was set is retrievable. -/
theorem witness_size_zero :
    outs (MSys.step Cfg.today) (MSys.start 1700000000000 0 0)
      [.set 1 5 ⟨none, false, false⟩, .set 2 6 ⟨none, false, false⟩, .get 1 ⟨false, none⟩, .get 2 ⟨false, none⟩] =
      [.ok, .ok, .value 5, .value 6] := by decide

theorem not_bound_today :
    ¬ (∀ (clock size : Nat) (dttl : Int) (ops : List Op) (now : Int),
        ((final (MSys.step Cfg.today) (MSys.start clock size dttl) ops).mem.retrievable now).length ≤ size) := by
  intro h
  have := h 0 0 0 [.set 1 5 ⟨none, false, false⟩] 0
  revert this; decide

/-- F04: `time.Duration(ttl)` is nanoseconds — a key set with ttl 60 s is gone on redis two seconds later
    (`SET … PX 1`), while the in-memory cache still serves it; the history is admissible. -/
theorem witness_rds_ttl_unit :
    outs (Sys.step Cfg.today) (Sys.new 1700000000000 2 60)
      [.set 1 5 ⟨none, false, false⟩, .tick 2000, .get 1 ⟨false, none⟩] =
      [(.ok, .ok), (.ok, .ok), (.value 5, .notFound)] ∧
    admissibleB Cfg.today (Sys.new 1700000000000 2 60)
      [.set 1 5 ⟨none, false, false⟩, .tick 2000, .get 1 ⟨false, none⟩] = true := by decide

theorem not_agree_today :
    ¬ (∀ (clock size : Nat) (dttl : Int) (ops : List Op), Admissible Cfg.today (Sys.new clock size dttl) ops →
        ∀ o ∈ outs (Sys.step Cfg.today) (Sys.new clock size dttl) ops, o.1 = o.2) := by
  intro h
  have := h 1700000000000 2 60 [.set 1 5 ⟨none, false, false⟩, .tick 2000, .get 1 ⟨false, none⟩]
    (admissibleB_sound _ _ witness_rds_ttl_unit.2) (.value 5, .notFound) (by rw [witness_rds_ttl_unit.1]; simp)
  cases this

/-- the command go-redis sends for ttl = 60 today, and after the repair -/
theorem witness_rds_command :
    goSetExpiry (durOf Cfg.today 60) = .px 1 ∧ goSetExpiry (durOf Cfg.fixed 60) = .ex 60 ∧
    formatSec (durOf Cfg.today 60) = 1 ∧ formatSec (durOf Cfg.fixed 60) = 60 := by decide

end Nv.C05
