import Nv.Model.C05
import Nv.Spec.C05
import Nv.Proofs.C05Hist
import Nv.Proofs.C05Agree
import Nv.Proofs.C05Recent
import Nv.Proofs.C05Scan
import Nv.Proofs.C05Elapsed
import Nv.Proofs.C05Domain
import Nv.Proofs.C05Conc
/-!
C05 — property theorems for the TTL caches (model: `Nv.Model.C05`, history spec: `Nv.Spec.C05`).

Every statement quantifies over all histories (`ops : List Op`, including clock advances), all keys,
values, sizes, default ttls and clock readings; the configuration `c` ranges over the facts the
statement needs (`Proved c` is the conjunction of all three). For today's source (`Cfg.today`) the
three affected clauses are refuted by concrete witnesses at the end.
-/

/-!
## Index: clause of the property statement → theorem(s)

| clause of the statement | proved by |
|---|---|
| a successful Get returns the value of the latest Set of that key | `ttl_get_latest` (all histories, every cfg) |
| … only if the key has not been removed (Remove / Clear) | `ttl_get_latest` (`histStep` forgets on remove / clear) |
| … its time-to-live has not elapsed | `ttl_elapsed_history` (deadline = Set reading + ttl, from the history), `ttl_hit_iff_live`, `ttl_elapsed_misses` |
| … and it was not consumed by a remove-after-get read | `ttl_get_latest`, `ttl_consumed_then_miss` |
| and (converse) while live, recent and not removed it DOES hit | `ttl_live_recent_hits` |
| an elapsed key behaves exactly like a key never set (Get → not-found, set-if-absent succeeds) | `ttl_expired_as_absent`, `ttl_expired_set_if_absent`, `ttl_elapsed_misses` |
| at most `size` distinct keys are retrievable at any time (any size ≥ 0) | `ttl_bound`, `ttl_bound_hits` |
| a key touched more recently than `size` other distinct keys is never evicted | `ttl_recent_not_evicted`, `ttl_recent_after_touch` |
| the redis-backed cache agrees with the in-memory one (positive ttls, keep-ttl on live keys, off deadlines, below the size bound) | `ttl_mem_rds_agree`, `ttl_mem_rds_agree_keys` (size clause on the history), `ttl_mem_rds_step`; redis corners: `rds_corner_cases`; Clear: `ttl_rds_clear_all_pages` |
| concurrent callers racing on one key: remove-after-get succeeds for at most one | `ttl_consume_once` (any call sequence without a Set of k), `ttl_consume_once_concurrent` / `_rds` (interleavings; assumption `AtomicCalls`, discharged for the regenerated facts by `tie_atomic_calls`) |
| quantifier: any keys, any size ≥ 0, default ttl ≤ 0 or > 0, clock advances | all of the above quantify over `Key`, `Val`, `size`, `dttl`, `.tick`; `ttl_other_key_untouched` (keys matter by identity only); cancelled contexts: `rds_cancelled_changes_nothing` |

Only monitor-checked / assumed (no theorem): that the Go methods ARE the model's steps (correspondence + facts);
redis itself (the `Rds` model and the fake are hand-written); atomicity of a call (`AtomicCalls`: lock facts, GETDEL);
racing callers of kinds other than remove-after-get (class `stress`, monitors `C05:concurrency:*`); value aliasing and
ttl beyond the int64 / time.Duration range are not claimed.
-/
namespace Nv.C05

/-- the in-memory cache started empty at clock reading `clock` (ms) -/
def MSys.start (clock size : Nat) (dttl : Int) : MSys := ⟨clock, Mem.new size dttl⟩

/-! ### A successful Get returns the value of the latest successful Set … -/

/-- Along every history, every successful Get returns the value of the latest successful Set of its key, and
    none if the key was since removed, cleared, consumed by a remove-after-get read or seen absent
    (`HistOk`, `Nv.Spec.C05`). Holds for every configuration, also today's. -/
theorem ttl_get_latest (c : Cfg) (clock size : Nat) (dttl : Int) (ops : List Op) :
    HistOk (fun _ => none) (events c (MSys.start clock size dttl) ops) :=
  histOk_run ops _ _ (wf_new size dttl) (by intro k n hn; simp [MSys.start, Mem.new, Mem.lookup, findKey] at hn)

/-- … and only while its time-to-live has not elapsed: a Get hits exactly when the index holds a node of the key
    whose deadline is not behind the clock; an elapsed node gives not-found. -/
theorem ttl_hit_iff_live (m : Mem) (now : Int) (k : Key) (o : GetOpt) (v : Val) :
    (m.get now k o).2 = .value v ↔ ∃ n, m.lookup k = some n ∧ expired now n.dl = false ∧ n.val = v :=
  get_value_iff

theorem ttl_elapsed_misses (m : Mem) (now : Int) (k : Key) (o : GetOpt) (n : Node)
    (hl : m.lookup k = some n) (he : expired now n.dl = true) : (m.get now k o).2 = .notFound :=
  (expired_get_as_absent hl he o).2

/-- the deadline a (non keep-ttl) Set stores is `now + ttl`, or never for `ttl ≤ 0` -/
theorem ttl_set_stores (c : Cfg) (m : Mem) (hs : 1 ≤ m.size) (now : Int) (k : Key) (v : Val) (t : Option Int)
    (mne : Bool) (h : (m.set c now k v ⟨t, mne, false⟩).2 = .ok) :
    (m.set c now k v ⟨t, mne, false⟩).1.lookup k = some ⟨k, v, deadline now (t.getD m.dttl)⟩ := by
  have hd : (m.preSet c now k).dttl = m.dttl := dttl_preSet c m now k
  have hsz : (m.preSet c now k).size = m.size := size_preSet c m now k
  simp only [Mem.set] at h ⊢
  generalize m.preSet c now k = m' at h hd hsz ⊢
  unfold Mem.setCore at h ⊢
  split
  · rename_i x hx
    have hkx := lookup_key hx
    cases mne
    · simp only [Bool.false_eq_true, if_false]
      have := lookup_touch_self m' { x with val := v, dl := deadline now (setTtl m' ⟨t, false, false⟩) }
      simp only [hkx] at this
      simpa [setTtl, hd, hkx] using this
    · simp [hx] at h
  · have := insertNew_lookup_self (c := c) (m := m') (by omega) ⟨k, v, deadline now (setTtl m' ⟨t, mne, false⟩)⟩
    simpa [setTtl, hd] using this

/-! ### an elapsed key behaves exactly like a key that was never set -/

/-- For the repaired `set()`: in *any* state, every call addressing a key whose time-to-live has elapsed gives
    the same result and the same next state as on the cache from which that key was removed. -/
theorem ttl_expired_as_absent (c : Cfg) (hc : c.setExpiry = .purge) (m : Mem) (now : Int) (k : Key) (n : Node)
    (hl : m.lookup k = some n) (he : expired now n.dl = true) (op : Op) (hop : opKey op = some k) :
    m.step c now op = (m.removeKey k).step c now op := by
  cases op with
  | set k' v o => simp [opKey] at hop; subst hop; exact expired_set_as_absent hc hl he v o
  | get k' o => simp [opKey] at hop; subst hop; exact (expired_get_as_absent hl he o).1
  | remove k' => simp [opKey] at hop; subst hop; simp [Mem.step, removeKey_idem]
  | clear => simp [opKey] at hop
  | tick _ => simp [opKey] at hop

/-- in particular set-if-absent succeeds on it, the new value is then retrievable (size ≥ 1), and a keep-ttl Set
    gives it a fresh deadline -/
theorem ttl_expired_set_if_absent (c : Cfg) (hc : c.setExpiry = .purge) (m : Mem) (hs : 1 ≤ m.size) (now : Int)
    (k : Key) (n : Node) (hl : m.lookup k = some n) (he : expired now n.dl = true) (v : Val) (t : Option Int)
    (keep : Bool) :
    (m.set c now k v ⟨t, true, keep⟩).2 = .ok ∧
    (m.set c now k v ⟨t, true, keep⟩).1.lookup k = some ⟨k, v, deadline now (t.getD m.dttl)⟩ ∧
    ((m.set c now k v ⟨t, true, keep⟩).1.get now k ⟨false, none⟩).2 = .value v := by
  have hset : m.set c now k v ⟨t, true, keep⟩ =
      ((m.removeKey k).insertNew c ⟨k, v, deadline now (t.getD m.dttl)⟩, .ok) := by
    rw [expired_set_as_absent hc hl he]
    have hp : (m.removeKey k).preSet c now k = m.removeKey k := by
      simp only [Mem.preSet, hc, purge_absent (lookup_removeKey_self m k)]
    have hd : (m.removeKey k).dttl = m.dttl := rfl
    unfold Mem.set
    rw [hp]
    simp only [Mem.setCore, lookup_removeKey_self, setTtl, hd]
  have hlk := insertNew_lookup_self (c := c) (m := m.removeKey k) (by simpa [Mem.removeKey] using hs)
    ⟨k, v, deadline now (t.getD m.dttl)⟩
  rw [hset]
  refine ⟨rfl, hlk, ?_⟩
  apply get_value_iff.2
  refine ⟨_, hlk, ?_, rfl⟩
  simp only [deadline]
  split
  · rfl
  · simp [expired]; omega

/-! ### one-shot reads -/

/-- after a successful remove-after-get read the key is gone -/
theorem ttl_consumed_then_miss (m : Mem) (now now' : Int) (k : Key) (u : Option Int) (o : GetOpt) :
    ((m.get now k ⟨true, u⟩).1.get now' k o).2 = .notFound := by
  apply get_notFound_iff.2; left; exact get_remove_absent m now k u

/-- Concurrent callers: each public call is one critical section (lock facts), so every schedule of racing calls
    is a sequence of calls. In every sequence that contains no Set of `k` — any number of remove-after-get
    readers of `k`, mixed with any calls on other keys, Removes, Clears and clock advances — at most one
    remove-after-get read of `k` succeeds. -/
theorem ttl_consume_once (c : Cfg) (s : MSys) (hwf : WF s.mem) (k : Key) (ops : List Op)
    (hops : ∀ op ∈ ops, setsKey k op = false) : consumes k (events c s ops) ≤ 1 :=
  consumes_le_one ops s k hwf hops

/-- Concurrent callers, explicitly. ASSUMPTION `AtomicCalls` (named in `Nv.Spec.C05`; holds for the regenerated facts:
    `tie_atomic_calls`): every public call is one critical section, so an execution of racing callers is an
    `Interleaving` of their calls. Then: for ANY number of callers, each issuing any number of remove-after-get reads
    of `k` (with or without update-ttl), and EVERY interleaving `sched` of them, started in a state where `k` is live
    (e.g. right after one successful Set, `ttl_set_stores`): exactly the first read in schedule order returns the
    value, every other read misses — exactly one success. -/
theorem ttl_consume_once_concurrent (f : Facts) (_atomic : AtomicCalls f) (c : Cfg) (s : MSys) (k : Key) (n : Node)
    (hl : s.mem.lookup k = some n) (he : expired (secOf s.clock) n.dl = false) (progs : List (List Op))
    (hprogs : ∀ p ∈ progs, ∀ op ∈ p, ∃ u, op = .get k ⟨true, u⟩) (sched : List Op)
    (hs : Interleaving progs sched) (hne : sched ≠ []) :
    outs (MSys.step c) s sched = .value n.val :: List.replicate (sched.length - 1) .notFound := by
  have hall : ∀ op ∈ sched, ∃ u, op = .get k ⟨true, u⟩ := by
    intro op hop
    obtain ⟨p, hp, hin⟩ := interleaving_mem hs op hop
    exact hprogs p hp op hin
  cases sched with
  | nil => exact absurd rfl hne
  | cons op rest => simpa using consume_sched_live s hl he op rest hall

/-- The same on the redis-backed cache, relative to GETDEL being atomic (`AtomicCalls.rdsConsumeIsGetDel` + redis'
    atomic command execution): racing consuming reads without update-ttl are single GETDEL commands; in every
    interleaving exactly the first one returns the value. (With update-ttl the read is GETDEL followed by EXPIRE, two
    commands: not covered here; the EXPIRE then finds nothing.) -/
theorem ttl_consume_once_concurrent_rds (f : Facts) (_atomic : AtomicCalls f) (c : Cfg) (r : Rds) (nowMs : Int) (k : Key)
    (e : REntry) (hl : rLive nowMs k r.store = some e) (progs : List (List Op))
    (hprogs : ∀ p ∈ progs, ∀ op ∈ p, op = .get k ⟨true, none⟩) (sched : List Op)
    (hs : Interleaving progs sched) (hne : sched ≠ []) :
    outs (fun r op => r.step c nowMs op) r sched = .value e.val :: List.replicate (sched.length - 1) .notFound := by
  have hall : ∀ op ∈ sched, op = .get k ⟨true, none⟩ := by
    intro op hop
    obtain ⟨p, hp, hin⟩ := interleaving_mem hs op hop
    exact hprogs p hp op hin
  cases sched with
  | nil => exact absurd rfl hne
  | cons op rest => simpa using rds_consume_live r hl op rest hall

/-- non-vacuity: three callers (2 + 1 + 1 reads) and one of their interleavings -/
example : Interleaving [[.get 1 ⟨true, none⟩, .get 1 ⟨true, none⟩], [.get 1 ⟨true, none⟩], [.get 1 ⟨true, some 5⟩]]
    [.get 1 ⟨true, none⟩, .get 1 ⟨true, some 5⟩, .get 1 ⟨true, none⟩, .get 1 ⟨true, none⟩] :=
  .step 1 (by decide) rfl (.step 2 (by decide) rfl (.step 0 (by decide) rfl (.step 0 (by decide) rfl
    (.done (by decide)))))

example : AtomicCalls Facts.expected := ⟨rfl, rfl⟩

/-- every reachable state has a well-formed index -/
theorem ttl_reachable_wf (c : Cfg) (clock size : Nat) (dttl : Int) (ops : List Op) :
    WF (final (MSys.step c) (MSys.start clock size dttl) ops).mem :=
  msys_mem_inv c WF (fun _ now op h => wf_step h now op) ops _ (wf_new size dttl)

/-! ### at most `size` keys are retrievable -/

/-- With the index entry written before the eviction: after every history, for every `size ≥ 0`, at most `size`
    keys are retrievable at any clock reading. -/
theorem ttl_bound (c : Cfg) (hc : c.indexOrder = .beforeEvict) (clock size : Nat) (dttl : Int) (ops : List Op)
    (now : Int) : ((final (MSys.step c) (MSys.start clock size dttl) ops).mem.retrievable now).length ≤ size := by
  have hb := msys_mem_inv c Bounded (fun _ now op h => bounded_step hc h now op) ops (MSys.start clock size dttl)
    (bounded_new size dttl)
  have hsz := msys_size c ops (MSys.start clock size dttl)
  exact Nat.le_trans (retrievable_length_le hb now) (Nat.le_of_eq hsz)

/-- the same, stated on results: any list of distinct keys that all hit at one instant has length ≤ size -/
theorem ttl_bound_hits (c : Cfg) (hc : c.indexOrder = .beforeEvict) (clock size : Nat) (dttl : Int) (ops : List Op)
    (now : Int) (ks : List Key) (hnd : ks.Nodup)
    (hhit : ∀ k ∈ ks, ∃ v, ((final (MSys.step c) (MSys.start clock size dttl) ops).mem.get now k ⟨false, none⟩).2 = .value v) :
    ks.length ≤ size := by
  have hb := msys_mem_inv c Bounded (fun _ now op h => bounded_step hc h now op) ops (MSys.start clock size dttl)
    (bounded_new size dttl)
  have hsz := msys_size c ops (MSys.start clock size dttl)
  have h1 := nodup_subset_length hnd (fun k hk => by obtain ⟨v, hv⟩ := hhit k hk; exact hit_mem_indexed hv)
  have h2 := indexed_length_le hb
  have h3 : (final (MSys.step c) (MSys.start clock size dttl) ops).mem.size = size := hsz
  omega

/-! ### expiry, stated on histories -/

/-- For every configuration, every start state and every history `pre ++ [Set k v] ++ mid ++ [Get k]`: if the Set
    succeeded at clock reading `t` (seconds) without keep-ttl and with effective ttl `d > 0` (its own or the default),
    and no call of `mid` is a Set of `k` or an update-ttl Get of `k` (anything else is allowed: plain / consuming Gets
    of `k`, Removes, Clears, any calls on other keys, clock advances), then the final Get of `k` at reading `r`
      * misses when `r > t + d`, and
      * when `r ≤ t + d` returns exactly `v`, unless `k` left the index meanwhile (removed / consumed / evicted).
    The deadline is `t + d` computed from the history; nothing is assumed about a stored node. -/
theorem ttl_elapsed_history (c : Cfg) (clock size : Nat) (dttl : Int) (pre mid : List Op) (k : Key) (v : Val)
    (o : SetOpt) (g : GetOpt) (hkeep : o.keepTTL = false) (hd : 0 < o.ttl.getD dttl)
    (hmid : ∀ op ∈ mid, writesTtl k op = false) :
    let s1 := final (MSys.step c) (MSys.start clock size dttl) pre
    let r2 := MSys.step c s1 (.set k v o)
    let s3 := final (MSys.step c) r2.1 mid
    r2.2 = .ok →
    (secOf s1.clock + o.ttl.getD dttl < secOf s3.clock → (MSys.step c s3 (.get k g)).2 = .notFound) ∧
    (secOf s3.clock ≤ secOf s1.clock + o.ttl.getD dttl →
      (MSys.step c s3 (.get k g)).2 = .value v ∨
      ((MSys.step c s3 (.get k g)).2 = .notFound ∧ s3.mem.lookup k = none)) := by
  intro s1 r2 s3 hok
  have hwf1 : WF s1.mem := ttl_reachable_wf c clock size dttl pre
  have hdt : s1.mem.dttl = dttl := msys_dttl c pre (MSys.start clock size dttl)
  obtain ⟨hm2, ho2⟩ := msys_step_mem c s1 (.set k v o)
  have hok' : (s1.mem.set c (secOf s1.clock) k v o).2 = .ok := by rw [← hok, ho2]; rfl
  have ht2 : Tracks r2.1.mem k v (some (secOf s1.clock + o.ttl.getD dttl)) := by
    have := tracks_after_set (c := c) hwf1 hkeep hok'
    rw [hdt] at this
    have hnp : ¬ (o.ttl.getD dttl ≤ 0) := by omega
    simp only [deadline, hnp, if_false] at this
    show Tracks (MSys.step c s1 (.set k v o)).1.mem k v _
    rw [hm2]; exact this
  have hwf2 : WF r2.1.mem := by
    show WF (MSys.step c s1 (.set k v o)).1.mem
    rw [hm2]; exact wf_step hwf1 _ _
  have ht3 : Tracks s3.mem k v (some (secOf s1.clock + o.ttl.getD dttl)) := tracks_run mid r2.1 hwf2 ht2 hmid
  obtain ⟨_, ho4⟩ := msys_step_mem c s3 (.get k g)
  rw [ho4]
  simp only [Mem.step]
  cases hl : s3.mem.lookup k with
  | none =>
    have hnf : (s3.mem.get (secOf s3.clock) k g).2 = .notFound := get_notFound_iff.2 (Or.inl hl)
    exact ⟨fun _ => hnf, fun _ => Or.inr ⟨hnf, rfl⟩⟩
  | some n =>
    obtain ⟨hv, hdl⟩ := ht3 n hl
    constructor
    · intro hlt
      apply get_notFound_iff.2; right
      refine ⟨n, hl, ?_⟩
      rw [hdl]; simp only [expired, decide_eq_true_eq]; omega
    · intro hle
      left
      apply get_value_iff.2
      refine ⟨n, hl, ?_, hv⟩
      rw [hdl]; simp only [expired, decide_eq_false_iff_not]; omega

/-! ### a recently touched key is never evicted -/

/-- every reachable state (index written before the eviction) respects the bound on the recency list -/
theorem ttl_reachable_bounded (c : Cfg) (hc : c.indexOrder = .beforeEvict) (clock size : Nat) (dttl : Int)
    (ops : List Op) : Bounded (final (MSys.step c) (MSys.start clock size dttl) ops).mem :=
  msys_mem_inv c Bounded (fun _ now op h => bounded_step hc h now op) ops _ (bounded_new size dttl)

/-- With the index written before the eviction, in any well-formed bounded state (every reachable one is), for a node
    `x` on the recency list whose predecessors all have keys in `S`: after ANY call sequence that contains no Clear and
    no call addressing `x`'s key — Sets (new and existing keys, evictions included), Gets of every kind, Removes,
    clock advances, elapsed keys being purged — `x` is still indexed, unchanged, provided the number of DISTINCT keys
    in `S` together with those addressed by the sequence (`touchedBy`) is below `size`. -/
theorem ttl_recent_not_evicted (c : Cfg) (hc : c.indexOrder = .beforeEvict) (s : MSys) (hwf : WF s.mem)
    (hb : Bounded s.mem) (x : Node) (S : List Key) (hx : Ahead s.mem x S) (ops : List Op)
    (hops : ∀ op ∈ ops, opKey op ≠ some x.key ∧ op ≠ .clear) (hcard : (touchedBy S ops).length < s.mem.size) :
    (final (MSys.step c) s ops).mem.lookup x.key = some x :=
  ahead_lookup (msys_mem_inv c WF (fun _ now op h => wf_step h now op) ops s hwf)
    (ahead_run hc ops s S hwf hb hx hops hcard)

/-- the property's wording: a key that was just touched (its node is the head of the list — what a hit, an overwrite
    and an insert produce, `ttl_touch_moves_to_front`, `ttl_evicts_only_tail`) survives as long as fewer than `size`
    distinct other keys are touched -/
theorem ttl_recent_after_touch (c : Cfg) (hc : c.indexOrder = .beforeEvict) (s : MSys) (hwf : WF s.mem)
    (hb : Bounded s.mem) (x : Node) (rest : List Node) (hhead : s.mem.live = x :: rest) (ops : List Op)
    (hops : ∀ op ∈ ops, opKey op ≠ some x.key ∧ op ≠ .clear) (hcard : (touchedBy [] ops).length < s.mem.size) :
    (final (MSys.step c) s ops).mem.lookup x.key = some x :=
  ttl_recent_not_evicted c hc s hwf hb x [] ⟨[], rest, by simpa using hhead, by simp⟩ ops hops hcard

/-- End to end, on histories only: after a successful Set of `k` (no keep-ttl, effective ttl `d > 0`, size ≥ 1) at
    reading `t`, if the calls that follow never address `k`, contain no Clear and address fewer than `size` distinct
    keys, then a Get of `k` at any reading `r ≤ t + d` HITS and returns the value that was set. -/
theorem ttl_live_recent_hits (c : Cfg) (hc : c.indexOrder = .beforeEvict) (clock size : Nat) (hs : 1 ≤ size)
    (dttl : Int) (pre mid : List Op) (k : Key) (v : Val) (o : SetOpt) (g : GetOpt) (hkeep : o.keepTTL = false)
    (hd : 0 < o.ttl.getD dttl) (hmid : ∀ op ∈ mid, opKey op ≠ some k ∧ op ≠ .clear)
    (hcard : (touchedBy [] mid).length < size) :
    let s1 := final (MSys.step c) (MSys.start clock size dttl) pre
    let r2 := MSys.step c s1 (.set k v o)
    let s3 := final (MSys.step c) r2.1 mid
    r2.2 = .ok → secOf s3.clock ≤ secOf s1.clock + o.ttl.getD dttl → (MSys.step c s3 (.get k g)).2 = .value v := by
  intro s1 r2 s3 hok hle
  have hwf1 : WF s1.mem := ttl_reachable_wf c clock size dttl pre
  have hb1 : Bounded s1.mem := ttl_reachable_bounded c hc clock size dttl pre
  have hsz1 : s1.mem.size = size := msys_size c pre (MSys.start clock size dttl)
  obtain ⟨hm2, ho2⟩ := msys_step_mem c s1 (.set k v o)
  have hok' : (s1.mem.set c (secOf s1.clock) k v o).2 = .ok := by rw [← hok, ho2]; rfl
  obtain ⟨x, rest, hhead, hxk⟩ := set_head hc hb1 (by omega) (secOf s1.clock) k v o hok'
  have hm2' : r2.1.mem = (s1.mem.set c (secOf s1.clock) k v o).1 := hm2
  have hwf2 : WF r2.1.mem := by rw [hm2']; exact wf_set hwf1 _ _ _ _
  have hb2 : Bounded r2.1.mem := by rw [hm2']; exact bounded_set hc hb1 _ _ _ _
  have hsz2 : r2.1.mem.size = size := by
    rw [hm2', ← hsz1]; exact step_size c s1.mem (secOf s1.clock) (.set k v o)
  have hpres := ttl_recent_after_touch c hc r2.1 hwf2 hb2 x rest (by rw [hm2']; exact hhead) mid
    (by rw [hxk]; exact hmid) (by rw [hsz2]; exact hcard)
  rw [hxk] at hpres
  rcases (ttl_elapsed_history c clock size dttl pre mid k v o g hkeep hd
    (fun op hop => writesTtl_of_opKey (hmid op hop).1) hok).2 hle with h | ⟨_, h⟩
  · exact h
  · have : s3.mem.lookup k = some x := hpres
    rw [h] at this; cases this

/-- the one-call version with positions (kept: it bounds how far a node can move back per call) -/
theorem ttl_recent_step_position (c : Cfg) (hc : c.indexOrder = .beforeEvict) (m : Mem) (hb : Bounded m)
    (x : Node) (i : Nat) (h : At m x i) (hi : i + 1 < m.size) (now : Int) (op : Op)
    (hop : opKey op ≠ some x.key) (hcl : op ≠ .clear) : At (m.step c now op).1 x (i + 1) :=
  at_step hc hb h hi now op hop hcl

/-- a Set of a new key pushes it to the front and drops exactly the tail of the recency list, only when full -/
theorem ttl_evicts_only_tail (c : Cfg) (hc : c.indexOrder = .beforeEvict) (m : Mem) (n : Node) :
    (m.live.length < m.size ∧ (m.insertNew c n).live = n :: m.live) ∨
    (m.size ≤ m.live.length ∧ (m.insertNew c n).live = (n :: m.live).dropLast) :=
  insertNew_live hc m n

/-- a hit or an overwrite moves the key's node to the head of the recency list -/
theorem ttl_touch_moves_to_front (m : Mem) (n x : Node) (h : findKey n.key m.live = some x) :
    (m.touch n).live = n :: eraseKey n.key m.live :=
  touch_head h

/-- non-vacuity of `ttl_recent_step_position`: k2 sits behind one node in a cache of size 3 -/
example : let m : Mem := ⟨3, 0, [⟨1, 5, none⟩, ⟨2, 6, none⟩], []⟩
    Bounded m ∧ At m ⟨2, 6, none⟩ 1 ∧ 1 + 1 < m.size :=
  ⟨⟨rfl, by decide⟩, ⟨[⟨1, 5, none⟩], [], rfl, by decide⟩, by decide⟩

/-- non-vacuity of `ttl_recent_not_evicted`: size 3, k1 at the head; three calls touching two distinct other keys
    (one of them twice, one insert evicting nothing) leave k1 indexed; a third distinct key would evict it -/
example : let s : MSys := ⟨1000, ⟨3, 0, [⟨1, 5, none⟩, ⟨2, 6, none⟩], []⟩⟩
    let ops : List Op := [.set 3 7 ⟨none, false, false⟩, .get 2 ⟨false, none⟩, .set 3 8 ⟨none, false, false⟩]
    (touchedBy [] ops).length = 2 ∧ (final (MSys.step Cfg.fixed) s ops).mem.lookup 1 = some ⟨1, 5, none⟩ ∧
    (final (MSys.step Cfg.fixed) s (ops ++ [.set 4 9 ⟨none, false, false⟩])).mem.lookup 1 = none := by decide

/-- non-vacuity of `ttl_elapsed_history`: Set at reading 1700000000 with ttl 3, a keep-free noise history, then Gets at
    readings t+3 (hit) and t+4 (miss) -/
example : outs (MSys.step Cfg.fixed) (MSys.start 1700000000500 2 0)
    [.set 1 5 ⟨some 3, false, false⟩, .get 1 ⟨false, none⟩, .set 2 6 ⟨none, false, false⟩, .tick 3499,
     .get 1 ⟨false, none⟩, .tick 1, .get 1 ⟨false, none⟩] =
    [.ok, .value 5, .ok, .ok, .value 5, .ok, .notFound] := by decide

/-! ### the redis-backed cache agrees with the in-memory one -/

/-- For the repaired sources (`Proved c`: ttl converted with `* time.Second`, `set()` purges an elapsed entry, index
    written before the eviction): for every size, every default ttl, every starting clock (ms; the in-memory cache
    reads whole seconds, redis milliseconds, whatever the sub-second phase) and every history inside the comparison
    domain of the property — `Admissible`: positive ttls, keep-ttl (without must-not-exist) on live keys only, no call
    on a key at a clock reading equal to its deadline, no Set that would evict — both caches return the same
    hit/miss, value and already-exists result for every call. -/
theorem ttl_mem_rds_agree (c : Cfg) (hc : Proved c) (clock size : Nat) (dttl : Int) (ops : List Op)
    (hadm : Admissible c (Sys.new clock size dttl) ops) :
    ∀ o ∈ outs (Sys.step c) (Sys.new clock size dttl) ops, o.1 = o.2 :=
  agree_run hc ops _ (rel_new clock size dttl) hadm

/-- the simulation behind it: one admissible call keeps the two stores related and gives equal results -/
theorem ttl_mem_rds_step (c : Cfg) (hc : Proved c) (s : Sys) (hR : Rel s) (op : Op) (ha : admOp s op) :
    (Sys.step c s op).2.1 = (Sys.step c s op).2.2 ∧ Rel (Sys.step c s op).1 :=
  agree_sys_step hc hR ha

/-- "below the size bound" stated on the history: if every Set of the history uses a key of a fixed duplicate-free
    list `K` with `|K| ≤ size` (so at most `size` distinct keys ever exist), the state-level room clause of `Admissible`
    holds automatically — `AdmissibleK` (positive ttl unless the Set is a keep-ttl overwrite, keep-ttl on live keys,
    no call on a key at its deadline reading, update-ttl > 0) is all that is needed. -/
theorem ttl_mem_rds_agree_keys (c : Cfg) (hc : Proved c) (clock size : Nat) (dttl : Int) (K : List Key) (hK : K.Nodup)
    (hlen : K.length ≤ size) (ops : List Op) (hadm : AdmissibleK c K (Sys.new clock size dttl) ops) :
    ∀ o ∈ outs (Sys.step c) (Sys.new clock size dttl) ops, o.1 = o.2 :=
  ttl_mem_rds_agree c hc clock size dttl ops
    (admissibleK_imp hK ops _ (wf_new size dttl) (by intro a ha; simp [Sys.new, Mem.new, Mem.indexed, keys] at ha) hlen hadm)

/-- the redis corner cases the simulation relies on, by the `Rds` model: KEEPTTL on a live key keeps its expiry (none
    stays none); KEEPTTL on an absent / expired key stores it without expiry; a plain SET drops the ttl, SET EX
    replaces it; SET NX succeeds on an expired key; GETDEL on an expired key returns nil and removes it; after a
    GETDEL every later GETDEL / GET returns nil; EXPIRE on an absent key replies 0, a non-positive EXPIRE deletes. -/
theorem rds_corner_cases (now now' : Int) (k : Key) (v : Val) (st : List REntry) :
    (∀ e, rLive now k st = some e → rSet now k v .keepttl false st = (⟨k, v, e.exp⟩ :: rErase k st, .ok)) ∧
    (rLive now k st = none → rSet now k v .keepttl false st = (⟨k, v, none⟩ :: rErase k st, .ok)) ∧
    (rSet now k v .plain false st = (⟨k, v, none⟩ :: rErase k st, .ok)) ∧
    (∀ n, 0 < n → rSet now k v (.ex n) false st = (⟨k, v, some (now + n * 1000)⟩ :: rErase k st, .ok)) ∧
    (∀ n, 0 < n → rLive now k st = none →
      rSet now k v (.ex n) true st = (⟨k, v, some (now + n * 1000)⟩ :: rErase k st, .ok)) ∧
    (∀ e, rFind k st = some e → rExpired now e.exp = true → rGetDel now k st = (rErase k st, .nil)) ∧
    ((rGetDel now' k (rGetDel now k st).1).2 = .nil ∧ (rGet now' k (rGetDel now k st).1).2 = .nil) ∧
    (∀ s, rLive now k st = none → rExpire now k s st = (rErase k st, .int 0)) ∧
    (∀ e s, rLive now k st = some e → s ≤ 0 → rExpire now k s st = (rErase k st, .int 1)) :=
  ⟨fun _ h => rSet_keepttl_live h, rSet_keepttl_absent, rSet_plain_drops_ttl now k v st,
   fun _ hn => rSet_ex_replaces_ttl now k v st hn, fun _ hn h => rSet_nx_expired h hn,
   fun _ hf he => rGetDel_expired hf he, rGetDel_then_nil now now' k st,
   fun s h => rExpire_absent h s, fun _ _ h hs => rExpire_nonpos_deletes h hs⟩

/-- non-vacuity of `ttl_mem_rds_agree_keys`: keys {1,2}, size 2, a keep-ttl overwrite with a non-positive ttl option -/
example : AdmissibleK Cfg.fixed [1, 2] (Sys.new 1700000000500 2 5)
    [.set 1 5 ⟨some 3, false, false⟩, .set 2 6 ⟨none, true, false⟩, .set 1 7 ⟨some (-4), false, true⟩,
     .get 1 ⟨false, some 2⟩, .remove 2, .get 2 ⟨false, none⟩] := admissibleKB_sound _ _ (by decide)

/-! ### keys are independent; cancelled contexts -/

/-- Keys only matter by identity (long keys with common prefixes, the empty key, keys full of glob characters are just
    keys): a call addressing another key can never put anything under `k` — if `k` is indexed afterwards it was indexed
    before with the very same node (value and deadline). In particular a key that was never set is never served. -/
theorem ttl_other_key_untouched (c : Cfg) (m : Mem) (hwf : WF m) (now : Int) (op : Op) (k : Key) (n : Node)
    (hop : opKey op ≠ some k) (h : (m.step c now op).1.lookup k = some n) : m.lookup k = some n :=
  lookup_step_other hwf hop h

/-- A call issued with an already cancelled context (`Sys.stepCancelled`): the redis-backed cache changes nothing and
    Set / Get / Remove answer with the error (so a Remove that returned nil was carried out); the in-memory cache
    ignores the context and behaves exactly as for a live one. -/
theorem rds_cancelled_changes_nothing (c : Cfg) (s : Sys) (op : Op) :
    (Sys.stepCancelled c s op).1.rds = s.rds ∧
    (Sys.stepCancelled c s op).1.mem = (Sys.step c s op).1.mem ∧
    (Sys.stepCancelled c s op).2.1 = (Sys.step c s op).2.1 ∧
    (∀ k v o, op = .set k v o → (Sys.stepCancelled c s op).2.2 = .err) ∧
    (∀ k o, op = .get k o → (Sys.stepCancelled c s op).2.2 = .err) ∧
    (∀ k, op = .remove k → (Sys.stepCancelled c s op).2.2 = .err) := by
  cases op <;> simp [Sys.stepCancelled, Sys.step]

/-! ### Clear on redis: the SCAN iteration must be followed to the end -/

/-- For every paging of the key space (any page sizes, short and empty pages included) in which each stored key
    appears on some page — what redis guarantees for an iteration followed until the cursor is 0 — deleting the
    keys of every page leaves the store empty, i.e. `Clear` is `Rds.step .clear` of the model. -/
theorem ttl_rds_clear_all_pages (pages : List (List Key)) (st : List REntry)
    (hcov : ∀ e ∈ st, ∃ pg ∈ pages, e.key ∈ pg) : clearPages pages st = [] :=
  clearPages_covering pages st hcov

/-- non-vacuity, and the counter-example for a Clear that consumes only the first page (cursor dropped):
    12 keys in pages of 10 and 2 (with an empty page in between) — all pages: nothing left; first page: 2 survive -/
theorem witness_clear_first_page_only :
    let st : List REntry := (List.range 12).map (fun k => ⟨k, k + 1, none⟩)
    let pages : List (List Key) := [List.range 10, [], [10, 11]]
    clearPages pages st = [] ∧ (clearFirstPage pages st).map (·.key) = [10, 11] := by decide

/-! ### non-vacuity -/

/-- an admissible history with hits, an elapsed key, set-if-absent, keep-ttl, update-ttl and a consuming read -/
example : Admissible Cfg.fixed (Sys.new 1700000000500 2 5)
    [.set 1 5 ⟨some 3, false, false⟩, .tick 1700, .get 1 ⟨false, none⟩, .set 1 6 ⟨none, false, true⟩, .tick 3000,
     .get 1 ⟨false, none⟩, .set 1 7 ⟨some 2, true, false⟩, .get 1 ⟨false, some 4⟩, .tick 3000, .get 1 ⟨true, none⟩,
     .get 1 ⟨false, none⟩] := admissibleB_sound _ _ (by decide)

example : outs (Sys.step Cfg.fixed) (Sys.new 1700000000500 2 5)
    [.set 1 5 ⟨some 3, false, false⟩, .tick 1700, .get 1 ⟨false, none⟩, .set 1 6 ⟨none, false, true⟩, .tick 3000,
     .get 1 ⟨false, none⟩, .set 1 7 ⟨some 2, true, false⟩, .get 1 ⟨false, some 4⟩, .tick 3000, .get 1 ⟨true, none⟩,
     .get 1 ⟨false, none⟩] =
    [(.ok, .ok), (.ok, .ok), (.value 5, .value 5), (.ok, .ok), (.ok, .ok), (.notFound, .notFound), (.ok, .ok),
     (.value 7, .value 7), (.ok, .ok), (.value 7, .value 7), (.notFound, .notFound)] := by decide

example : Proved Cfg.fixed := by decide
example : ¬ Proved Cfg.today := by decide

/-- a state with an elapsed key (hypotheses of `ttl_expired_as_absent` / `ttl_expired_set_if_absent`) -/
example : let m : Mem := ⟨2, 0, [⟨1, 5, some 103⟩], []⟩
    m.lookup 1 = some ⟨1, 5, some 103⟩ ∧ expired 104 (some 103) = true ∧ 1 ≤ m.size := by decide

/-- a history in which a Get hits, a remove-after-get read consumes, and a later Get misses -/
example : outs (MSys.step Cfg.fixed) (MSys.start 100000 2 0)
    [.set 1 5 ⟨some 3, false, false⟩, .get 1 ⟨false, none⟩, .get 1 ⟨true, none⟩, .get 1 ⟨false, none⟩] =
    [.ok, .value 5, .value 5, .notFound] := by decide

/-- `ttl_consume_once` hypotheses: five racing readers of a live key, exactly one wins -/
example : consumes 1 (events Cfg.fixed ⟨100000, ⟨2, 0, [⟨1, 5, none⟩], []⟩⟩ (List.replicate 5 (.get 1 ⟨true, none⟩))) = 1 := by
  decide

/-! ### today's source: the affected clauses fail (concrete witnesses, replayed on the real code by the monitors) -/

/-- F02: Set; the ttl elapses; Set with must-not-exist reports already-exists. -/
theorem witness_set_ignores_expiry :
    outs (MSys.step Cfg.today) (MSys.start 1700000000000 2 0)
      [.set 1 5 ⟨some 3, false, false⟩, .tick 4000, .set 1 6 ⟨none, true, false⟩, .get 1 ⟨false, none⟩] =
      [.ok, .ok, .exists_, .notFound] := by decide

/-- F02': keep-ttl on an elapsed key stores the value under the dead deadline: it is never readable. -/
theorem witness_keep_ttl_on_elapsed :
    outs (MSys.step Cfg.today) (MSys.start 1700000000000 2 0)
      [.set 1 5 ⟨some 3, false, false⟩, .tick 4000, .set 1 6 ⟨none, false, true⟩, .get 1 ⟨false, none⟩] =
      [.ok, .ok, .ok, .notFound] := by decide

theorem not_expired_as_absent_today :
    ¬ (∀ (m : Mem) (now : Int) (k : Key) (n : Node), m.lookup k = some n → expired now n.dl = true →
        ∀ op, opKey op = some k → m.step Cfg.today now op = (m.removeKey k).step Cfg.today now op) := by
  intro h
  have := h ⟨2, 0, [⟨1, 5, some 103⟩], []⟩ 104 1 ⟨1, 5, some 103⟩ (by decide) (by decide)
    (.set 1 6 ⟨none, true, false⟩) (by decide)
  revert this; decide

/-- F03: size 0 — every key that was set is retrievable. -/
theorem witness_size_zero :
    outs (MSys.step Cfg.today) (MSys.start 1700000000000 0 0)
      [.set 1 5 ⟨none, false, false⟩, .set 2 6 ⟨none, false, false⟩, .get 1 ⟨false, none⟩, .get 2 ⟨false, none⟩] =
      [.ok, .ok, .value 5, .value 6] := by decide

theorem not_bound_today :
    ¬ (∀ (clock size : Nat) (dttl : Int) (ops : List Op) (now : Int),
        ((final (MSys.step Cfg.today) (MSys.start clock size dttl) ops).mem.retrievable now).length ≤ size) := by
  intro h
  have := h 0 0 0 [.set 1 5 ⟨none, false, false⟩] 0
  revert this; decide

/-- F04: `time.Duration(ttl)` is nanoseconds — a key set with ttl 60 s is gone on redis two seconds later
    (`SET … PX 1`), while the in-memory cache still serves it; the history is admissible. -/
theorem witness_rds_ttl_unit :
    outs (Sys.step Cfg.today) (Sys.new 1700000000000 2 60)
      [.set 1 5 ⟨none, false, false⟩, .tick 2000, .get 1 ⟨false, none⟩] =
      [(.ok, .ok), (.ok, .ok), (.value 5, .notFound)] ∧
    admissibleB Cfg.today (Sys.new 1700000000000 2 60)
      [.set 1 5 ⟨none, false, false⟩, .tick 2000, .get 1 ⟨false, none⟩] = true := by decide

theorem not_agree_today :
    ¬ (∀ (clock size : Nat) (dttl : Int) (ops : List Op), Admissible Cfg.today (Sys.new clock size dttl) ops →
        ∀ o ∈ outs (Sys.step Cfg.today) (Sys.new clock size dttl) ops, o.1 = o.2) := by
  intro h
  have := h 1700000000000 2 60 [.set 1 5 ⟨none, false, false⟩, .tick 2000, .get 1 ⟨false, none⟩]
    (admissibleB_sound _ _ witness_rds_ttl_unit.2) (.value 5, .notFound) (by rw [witness_rds_ttl_unit.1]; simp)
  cases this

/-- the command go-redis sends for ttl = 60 today, and after the repair -/
theorem witness_rds_command :
    goSetExpiry (durOf Cfg.today 60) = .px 1 ∧ goSetExpiry (durOf Cfg.fixed 60) = .ex 60 ∧
    formatSec (durOf Cfg.today 60) = 1 ∧ formatSec (durOf Cfg.fixed 60) = 60 := by decide

end Nv.C05
