import Nv.Model.C19
import Nv.Proofs.C19
/-!
C19 — property theorems for `vcode` and `genNonceStr` (model: `Nv.Model.C19`).

INDEX — the clauses of properties.jsonl#C19.statement and the theorems that prove them (all in this file unless noted):
 1. "After a verification code has been sent to (area code, phone), verifying the same pair with that code and the returned hash
    succeeds while the code is within its lifetime and the attempt limit"
      → `vc_send_then_verify` (exact: ok IFF verify time − send time ≤ TTL, else timeout), `vc_send_then_verify_iff`,
        `vc_send_then_verify_few_others`, `vc_send_then_verify_now`; key level / every cfg: `vc_send_then_verify_key`.
 2. "and verification fails for any other code, hash, phone, or after the lifetime"
      → other code / hash / missing entry: `vc_wrong_rejected`; other phone or area code (all strings): `vc_other_pair_rejected`,
        `vc_other_key_rejected`, `vc_nothing_sent_not_exist` (+ `mkKey_lenPrefix_inj`, `key_eq_iff_pair` in Proofs);
        after the lifetime: `vc_expired_rejected`, `vc_expired_timeout`.
 3. "once more than the configured number of attempts were made against one sent code even the right code is rejected"
      → `vc_attempts_bounded` (every history), `vc_limit_rejects_right_code`, `vc_attempts_exhausted`.
 4. "and a new send resets the attempts" → `vc_send_resets_attempts` (with `vc_send_then_verify_now`).
 5. "Generated codes have the configured length" → `vc_code_length` (mock), `vc_code_length_real` (real sender), `genNonce_length`.
 6. "and every character of the configured alphabet can occur" → `nonce_alphabet_surjective`, `nonce_alphabet_surjective'`,
      `reachable_iff`, `genNonce_mem` — existence of a random source only.
 7. "sends closer together than the minimum interval … are refused"
      → `vc_too_frequent_iff` (one step), `vc_first_send_not_too_frequent`, `vc_send_limits_min_interval` (exact: refused IFF
        time − previous accepted send < MinInterval), `vc_send_limits_min_interval_key`; concurrent callers: `vc_resend_refused_any_interleaving`
        (in every sequential interleaving of one caller's re-sends with other callers' operations on other pairs, every re-send inside the interval is refused), `resends_refused`.
 2'. other phone / area code with the cache filled far beyond capacity: `bulk_spec` (closed form of n sends to distinct pairs = model run), `bulk_keys`.
 8. "or beyond the per-window count limit, are refused" → `vc_send_limits_count` (≤ MaxCount+1 per window, ghost window from outputs and
      clock), `vc_count_limit_iff`, `vc_window_refresh`.
 Quantifier "lifetimes and intervals": exact millisecond arithmetic for every duration and every non-decreasing clock history.
 NOT proved, only monitored or assumed: `random.MD5UUID()` returns a fresh value (monitor `C19:MD5UUID:hash-repeated`); `rand.Intn(n)`
 can return every value below n, in particular n−1 (monitor on `sample` lines); the real clock is monotonic (the harness uses a fake
 clock through the proposed hook, else only ±∞ durations); calls are sequential (vcode has no lock — concurrency is not modelled);
 strings are BYTE strings as in Go (`Str` = one `Char` < 256 per byte; no ASCII assumption: `len`, slicing, `%s` and the model all work on bytes); `cache.LRUCache` behaves as
 modelled (exercised with CacheSize 0–4, 8, 16, 17, 64 filled beyond capacity, and 70 000 entries against the closed form `bulk_spec`); int counters do not overflow.

Histories are arbitrary lists of timed `Op`s run with `Nv.final (step c pr)` (each operation carries the clock reading at which it
happens; readings never decrease: `advance`); states are arbitrary unless a hypothesis says otherwise.  Theorems stated on cache keys
(`Op.key c`) hold for *every* configuration; `key_eq_iff_pair` (Proofs) turns a key into the (area, phone) pair for `Proved c` — for
ALL strings (`mkKey_lenPrefix_inj`).  `Proved c` = both key formats length-prefixed, nonce bound = length, comparisons `<` (minimum
interval), `>` (window), `>` (lifetime).  The cache is a bounded LRU: where a theorem needs an entry to survive, it says so with the
decidable hypothesis `noEvict`, which `noEvict_of_few_others` discharges from "fewer operations on other keys than the capacity".
-/
namespace Nv.C19

/-- number of verify operations addressing key `k` -/
def verifiesOf (c : Cfg) (k : Str) (ops : List Op) : Nat :=
  (ops.filter (fun o => !o.isSend && decide (o.key c = k))).length

/-- number of operations addressing another key than `k` -/
def othersOf (c : Cfg) (k : Str) (ops : List Op) : Nat :=
  (ops.filter (fun o => decide (o.key c ≠ k))).length

def present (k : Str) (s : State) : Bool := (lookup k s.cache).isSome

/-- the binding of `k` is never evicted during the history (it may be absent, created, overwritten — not lost) -/
def noEvict (c : Cfg) (pr : Params) (k : Str) : State → List Op → Bool
  | _, [] => true
  | s, o :: os => (!present k s || present k (step c pr s o).1) && noEvict c pr k (step c pr s o).1 os

/-! ### eviction: a sufficient, purely syntactic condition -/

theorem step_same_key_pos (c : Cfg) (pr : Params) (hcap : 0 < pr.cap) (s : State) (o : Op) (k : Str)
    (hk : o.key c = k) :
    (present k s = true → present k (step c pr s o).1 = true) ∧
      posOr0 k (step c pr s o).1.cache ≤ posOr0 k s.cache := by
  cases o with
  | send t a p =>
    have hk' : mkKey c.sendKeyFmt a p = k := hk
    simp only [step, send, hk']
    rcases sendK_cases c pr (advance t s) k p with ⟨_, h2⟩ | ⟨cnt, ct, _, h2, _⟩
    · rw [h2]; exact ⟨id, Nat.le_refl _⟩
    · rw [h2]
      have hl := lookup_setLRU_self k pr.cap hcap ⟨cnt + 1, 0, genCode pr p ((advance t s).nsent + 1), (advance t s).nsent + 1, (advance t s).now, ct⟩ s.cache
      refine ⟨fun _ => by simp only [present, advance_cache, hl]; rfl, ?_⟩
      simp only [advance_cache, posOr0, hl, Option.isSome_some, if_true]
      rw [setLRU, pos_take _ _ _ (by rw [pos_touch_self]; exact hcap), pos_touch_self]
      exact Nat.zero_le _
  | verify t a p code hash =>
    have hk' : mkKey c.verifyKeyFmt a p = k := hk
    simp only [step, verify, hk']
    cases hl : lookup k s.cache with
    | none => rw [verifyK_none _ _ _ _ _ _ (by simpa using hl)]; exact ⟨id, Nat.le_refl _⟩
    | some e =>
      rw [verifyK_some _ _ _ _ _ _ e (by simpa using hl)]
      refine ⟨fun _ => by simp [present], ?_⟩
      simp [posOr0, pos_touch_self]

theorem step_other_key_pos (c : Cfg) (pr : Params) (s : State) (o : Op) (k : Str) (hk : o.key c ≠ k)
    (hp : present k s = true) (hpos : pos k s.cache + 1 < pr.cap) :
    present k (step c pr s o).1 = true ∧ pos k (step c pr s o).1.cache ≤ pos k s.cache + 1 := by
  have hp' : (lookup k s.cache).isSome = true := hp
  cases o with
  | send t a p =>
    have hk' : k ≠ mkKey c.sendKeyFmt a p := fun e => hk e.symm
    simp only [step, send]
    rcases sendK_cases c pr (advance t s) (mkKey c.sendKeyFmt a p) p with ⟨_, h2⟩ | ⟨cnt, ct, _, h2, _⟩
    · rw [h2]; exact ⟨hp, Nat.le_succ _⟩
    · rw [h2]
      generalize (⟨cnt + 1, 0, genCode pr p ((advance t s).nsent + 1), (advance t s).nsent + 1, (advance t s).now, ct⟩ : Entry) = en
      have hpt := pos_touch_ne hk' en s.cache hp'
      have hlt : (lookup k (touch (mkKey c.sendKeyFmt a p) en s.cache)).isSome = true := by
        rw [lookup_touch_ne hk']; exact hp'
      refine ⟨?_, ?_⟩
      · simp only [present, setLRU, advance_cache]
        rw [lookup_take_of_pos _ _ _ hlt (by omega)]; exact hlt
      · simp only [setLRU, advance_cache]; rw [pos_take _ _ _ (by omega)]; exact hpt
  | verify t a p code hash =>
    have hk' : k ≠ mkKey c.verifyKeyFmt a p := fun e => hk e.symm
    simp only [step, verify]
    cases hl : lookup (mkKey c.verifyKeyFmt a p) s.cache with
    | none => rw [verifyK_none _ _ _ _ _ _ (by simpa using hl)]; exact ⟨hp, Nat.le_succ _⟩
    | some e =>
      rw [verifyK_some _ _ _ _ _ _ e (by simpa using hl)]
      refine ⟨?_, pos_touch_ne hk' _ _ hp'⟩
      simp only [present, advance_cache]; rw [lookup_touch_ne hk']; exact hp'

/-- **no eviction** whenever the position of the key plus the number of operations on other keys stays below the
    capacity — in particular for every history with fewer than `CacheSize` operations on other keys after a send -/
theorem noEvict_of_few_others (c : Cfg) (pr : Params) (k : Str) : ∀ (ops : List Op) (s : State),
    posOr0 k s.cache + othersOf c k ops < pr.cap → noEvict c pr k s ops = true
  | [], _, _ => rfl
  | o :: os, s, h => by
    have hcap : 0 < pr.cap := by omega
    simp only [noEvict, Bool.and_eq_true, Bool.or_eq_true, Bool.not_eq_true']
    by_cases hk : o.key c = k
    · have ho : othersOf c k (o :: os) = othersOf c k os := by simp [othersOf, hk]
      have := step_same_key_pos c pr hcap s o k hk
      refine ⟨?_, noEvict_of_few_others c pr k os _ (by rw [ho] at h; omega)⟩
      cases hp : present k s with
      | false => exact Or.inl rfl
      | true => exact Or.inr (this.1 hp)
    · have ho : othersOf c k (o :: os) = othersOf c k os + 1 := by simp [othersOf, hk]
      rw [ho] at h
      cases hp : present k s with
      | false =>
        refine ⟨Or.inl rfl, noEvict_of_few_others c pr k os _ ?_⟩
        have hn : lookup k s.cache = none := by
          simp only [present] at hp; cases hl : lookup k s.cache <;> simp_all
        have := step_lookup_other_none c pr s o k hk hn
        simp only [posOr0, this, Option.isSome_none, Bool.false_eq_true, if_false]; omega
      | true =>
        have hpos : posOr0 k s.cache = pos k s.cache := by
          simp only [present] at hp; simp [posOr0, hp]
        rw [hpos] at h
        have := step_other_key_pos c pr s o k hk hp (by omega)
        refine ⟨Or.inr this.1, noEvict_of_few_others c pr k os _ ?_⟩
        have h1 : posOr0 k (step c pr s o).1.cache = pos k (step c pr s o).1.cache := by
          have := this.1; simp only [present] at this; simp [posOr0, this]
        rw [h1]; omega

/-! ### tracking the binding of a key through a history -/

/-- with no send to `k` and no eviction of `k`, the binding of `k` only counts attempts (code, hash and both time stamps stay) -/
theorem track (c : Cfg) (pr : Params) (k : Str) : ∀ (ops : List Op) (s : State) (e : Entry),
    lookup k s.cache = some e → (∀ o ∈ ops, o.isSend = true → o.key c ≠ k) → noEvict c pr k s ops = true →
    lookup k (final (step c pr) s ops).cache =
      some { e with verifyCount := e.verifyCount + (verifiesOf c k ops : Nat) }
  | [], s, e, hl, _, _ => by simp [verifiesOf, hl]
  | o :: os, s, e, hl, hns, hev => by
    have hns' : ∀ o' ∈ os, o'.isSend = true → o'.key c ≠ k := fun o' h => hns o' (by simp [h])
    simp only [noEvict, Bool.and_eq_true, Bool.or_eq_true, Bool.not_eq_true', present, hl,
      Option.isSome_some, Bool.true_eq_false, false_or] at hev
    by_cases hk : o.key c = k
    · cases o with
      | send t a p => exact absurd hk (hns _ (by simp) rfl)
      | verify t a p code hash =>
        have hk' : mkKey c.verifyKeyFmt a p = k := hk
        have hs : (step c pr s (.verify t a p code hash)).1 =
            ⟨touch k { e with verifyCount := e.verifyCount + 1 } s.cache, s.nsent, max s.now t⟩ := by
          simp only [step, verify, hk']; rw [verifyK_some _ _ _ _ _ _ e (by simpa using hl)]; rfl
        rw [final_cons, track c pr k os _ _ (by rw [hs]; exact lookup_touch_self _ _ _) hns' hev.2]
        have : verifiesOf c k (Op.verify t a p code hash :: os) = verifiesOf c k os + 1 := by
          simp [verifiesOf, Op.isSend, hk]
        rw [this]; simp only [Option.some.injEq, Entry.mk.injEq, true_and, and_true]; omega
    · have hl' : lookup k (step c pr s o).1.cache = some e := by
        rcases step_lookup_other c pr s o k hk with h1 | h1
        · rw [h1] at hev; simp at hev
        · rw [h1]; exact hl
      rw [final_cons, track c pr k os _ e hl' hns' hev.2]
      have : verifiesOf c k (o :: os) = verifiesOf c k os := by simp [verifiesOf, hk]
      rw [this]

/-! ### vc_send_then_verify -/

/-- key level, every configuration whose two key formats agree: a send accepted at clock reading `s.now` (capacity ≥ 1), then any
    timed history that does not send to that key again, does not evict it and makes fewer than `MaxVerifyCount` attempts against
    it, then the clock is read at `t`: the sent code with the returned hash is answered by the lifetime comparison alone —
    `timeout` iff (time of the verify − time of the send) `>` TTL as the source compares, `ok` otherwise -/
theorem vc_send_then_verify_key (c : Cfg) (pr : Params) (hfmt : c.sendKeyFmt = c.verifyKeyFmt)
    (hcap : 0 < pr.cap) (s : State) (a p : Str) (h : Nat)
    (hacc : (send c pr s a p).2.accepted = some h) (ops : List Op)
    (hns : ∀ o ∈ ops, o.isSend = true → o.key c ≠ mkKey c.sendKeyFmt a p)
    (hev : noEvict c pr (mkKey c.sendKeyFmt a p) (send c pr s a p).1 ops = true)
    (hn : (verifiesOf c (mkKey c.sendKeyFmt a p) ops : Int) < pr.maxVerify) (t : Nat) :
    (verify c pr (advance t (final (step c pr) (send c pr s a p).1 ops)) a p (genCode pr p h) h).2 =
      if c.ttlCmp.holds (((advance t (final (step c pr) (send c pr s a p).1 ops)).now : Int) - s.now) pr.ttl
      then .timeout else .ok := by
  unfold send at hacc hev ⊢
  rcases sendK_cases c pr s (mkKey c.sendKeyFmt a p) p with ⟨h1, _⟩ | ⟨cnt, ct, h1, h2, _⟩
  · rw [h1] at hacc; cases hacc
  · rw [h1] at hacc; cases hacc
    have hl := track c pr (mkKey c.sendKeyFmt a p) ops (sendK c pr s (mkKey c.sendKeyFmt a p) p).1 _
      (by rw [h2]; exact lookup_setLRU_self _ _ hcap _ _) hns hev
    unfold verify
    rw [← hfmt, verifyK_some _ _ _ _ _ _ _ (by simpa using hl)]
    simp only
    have := checkVerify_right c pr (advance t (final (step c pr) (sendK c pr s (mkKey c.sendKeyFmt a p) p).1 ops)).now
      { sendCount := cnt + 1, verifyCount := 0 + ↑(verifiesOf c (mkKey c.sendKeyFmt a p) ops) + 1,
        code := genCode pr p (s.nsent + 1), hash := s.nsent + 1, setTime := s.now, counterTime := ct } (by simp only; omega)
    simpa using this

/-- verify operations naming the pair (a, p) -/
def verifiesOfPair (a p : Str) (ops : List Op) : Nat :=
  (ops.filter (fun o => !o.isSend && decide (o.pair = (a, p)))).length

/-- operations naming another pair -/
def othersOfPair (a p : Str) (ops : List Op) : Nat :=
  (ops.filter (fun o => decide (o.pair ≠ (a, p)))).length

theorem verifiesOf_eq_pair (c : Cfg) (hc : Proved c) (a p : Str) (ops : List Op) :
    verifiesOf c (mkKey .lenPrefix a p) ops = verifiesOfPair a p ops := by
  unfold verifiesOf verifiesOfPair
  congr 1
  apply List.filter_congr
  intro o _
  have := key_eq_iff_pair c hc o a p
  by_cases h : o.key c = mkKey .lenPrefix a p
  · simp [h, this.1 h]
  · have h' : o.pair ≠ (a, p) := fun e => h (this.2 e)
    simp [h, h']

theorem othersOf_eq_pair (c : Cfg) (hc : Proved c) (a p : Str) (ops : List Op) :
    othersOf c (mkKey .lenPrefix a p) ops = othersOfPair a p ops := by
  unfold othersOf othersOfPair
  congr 1
  apply List.filter_congr
  intro o _
  have := key_eq_iff_pair c hc o a p
  by_cases h : o.key c = mkKey .lenPrefix a p
  · simp [h, this.1 h]
  · have h' : o.pair ≠ (a, p) := fun e => h (this.2 e)
    simp [h, h']

/-- **vc_send_then_verify** (pair level, `Proved c`, ALL strings, all clock histories): a code sent to (a, p) at clock reading
    `s.now`, verified with the returned hash at reading `t'` after any timed history that neither sends to (a, p) again, nor evicts
    its entry, nor uses up its attempts, succeeds IFF `t' − s.now ≤ TTL`; otherwise the answer is `timeout` -/
theorem vc_send_then_verify (c : Cfg) (hc : Proved c) (pr : Params) (hcap : 0 < pr.cap)
    (s : State) (a p : Str) (h : Nat) (hacc : (send c pr s a p).2.accepted = some h)
    (ops : List Op) (hns : ∀ o ∈ ops, o.isSend = true → o.pair ≠ (a, p))
    (hev : noEvict c pr (mkKey .lenPrefix a p) (send c pr s a p).1 ops = true)
    (hn : (verifiesOfPair a p ops : Int) < pr.maxVerify) (t : Nat) :
    (verify c pr (advance t (final (step c pr) (send c pr s a p).1 ops)) a p (genCode pr p h) h).2 =
      if ((advance t (final (step c pr) (send c pr s a p).1 ops)).now : Int) - s.now > pr.ttl then .timeout else .ok := by
  have hs : c.sendKeyFmt = .lenPrefix := hc.1
  have := vc_send_then_verify_key c pr (by rw [hc.1, hc.2.1]) hcap s a p h hacc ops
    (by
      intro o ho hsend hk
      rw [hs] at hk
      exact hns o ho hsend ((key_eq_iff_pair c hc o a p).1 hk))
    (by rw [hs]; exact hev)
    (by rw [hs, verifiesOf_eq_pair c hc a p ops]; exact hn) t
  rw [this, hc.2.2.2.2.2]
  simp [GtCmp.holds]

/-- the IFF form -/
theorem vc_send_then_verify_iff (c : Cfg) (hc : Proved c) (pr : Params) (hcap : 0 < pr.cap)
    (s : State) (a p : Str) (h : Nat) (hacc : (send c pr s a p).2.accepted = some h)
    (ops : List Op) (hns : ∀ o ∈ ops, o.isSend = true → o.pair ≠ (a, p))
    (hev : noEvict c pr (mkKey .lenPrefix a p) (send c pr s a p).1 ops = true)
    (hn : (verifiesOfPair a p ops : Int) < pr.maxVerify) (t : Nat) :
    (verify c pr (advance t (final (step c pr) (send c pr s a p).1 ops)) a p (genCode pr p h) h).2 = .ok ↔
      ((advance t (final (step c pr) (send c pr s a p).1 ops)).now : Int) - s.now ≤ pr.ttl := by
  rw [vc_send_then_verify c hc pr hcap s a p h hacc ops hns hev hn t]
  split
  · rename_i hh
    exact ⟨fun h0 => (by cases h0), fun h0 => absurd hh (by omega)⟩
  · rename_i hh
    exact ⟨fun _ => (by omega), fun _ => rfl⟩

theorem send_accepted_pos0 (c : Cfg) (pr : Params) (hcap : 0 < pr.cap) (s : State) (a p : Str) (h : Nat)
    (hacc : (send c pr s a p).2.accepted = some h) :
    posOr0 (mkKey c.sendKeyFmt a p) (send c pr s a p).1.cache = 0 := by
  unfold send at hacc ⊢
  rcases sendK_cases c pr s (mkKey c.sendKeyFmt a p) p with ⟨h1, _⟩ | ⟨cnt, ct, _, h2, _⟩
  · rw [h1] at hacc; cases hacc
  · rw [h2]
    simp only [posOr0, lookup_setLRU_self _ _ hcap, Option.isSome_some, if_true]
    rw [setLRU, pos_take _ _ _ (by rw [pos_touch_self]; exact hcap), pos_touch_self]

/-- the same with the syntactic no-eviction condition: fewer operations on other pairs than the capacity -/
theorem vc_send_then_verify_few_others (c : Cfg) (hc : Proved c) (pr : Params)
    (s : State) (a p : Str) (h : Nat) (hacc : (send c pr s a p).2.accepted = some h)
    (ops : List Op) (hns : ∀ o ∈ ops, o.isSend = true → o.pair ≠ (a, p))
    (hfew : othersOfPair a p ops < pr.cap) (hn : (verifiesOfPair a p ops : Int) < pr.maxVerify) (t : Nat) :
    (verify c pr (advance t (final (step c pr) (send c pr s a p).1 ops)) a p (genCode pr p h) h).2 = .ok ↔
      ((advance t (final (step c pr) (send c pr s a p).1 ops)).now : Int) - s.now ≤ pr.ttl := by
  have hcap : 0 < pr.cap := by omega
  apply vc_send_then_verify_iff c hc pr hcap s a p h hacc ops hns _ hn
  apply noEvict_of_few_others
  rw [othersOf_eq_pair c hc a p ops]
  have := send_accepted_pos0 c pr hcap s a p h hacc
  rw [hc.1] at this
  rw [this]; omega

/-- immediately after the send (the empty history), clock read at `t`: needs only `MaxVerifyCount ≥ 1` and `CacheSize ≥ 1` -/
theorem vc_send_then_verify_now (c : Cfg) (hc : Proved c) (pr : Params)
    (hcap : 0 < pr.cap) (hmax : 1 ≤ pr.maxVerify) (s : State) (a p : Str) (h : Nat)
    (hacc : (send c pr s a p).2.accepted = some h) (t : Nat) :
    (verify c pr (advance t (send c pr s a p).1) a p (genCode pr p h) h).2 = .ok ↔
      ((max s.now t : Nat) : Int) - s.now ≤ pr.ttl := by
  have := vc_send_then_verify_iff c hc pr hcap s a p h hacc [] (by simp) rfl (by simp [verifiesOfPair]; omega) t
  have hnow : (send c pr s a p).1.now = s.now := by
    unfold send at hacc ⊢
    rcases sendK_cases c pr s (mkKey c.sendKeyFmt a p) p with ⟨h1, _⟩ | ⟨cnt, ct, _, h2, _⟩
    · rw [h1] at hacc; cases hacc
    · rw [h2]
  simpa [hnow] using this
/-! ### vc_wrong_rejected -/

/-- **vc_wrong_rejected** (every state, every clock reading, every configuration): `ok` is returned only if the key is bound to
    exactly this code and this hash, the lifetime comparison (now − setTime against TTL, as the source compares) does not hold and
    this attempt is within the limit — so any other code, any other hash, a missing entry, an expired lifetime or an exhausted
    counter are all rejected -/
theorem vc_wrong_rejected (c : Cfg) (pr : Params) (s : State) (a p : Str) (code : Code) (hash : Nat)
    (hok : (verify c pr s a p code hash).2 = .ok) :
    ∃ e, lookup (mkKey c.verifyKeyFmt a p) s.cache = some e ∧ e.code = code ∧ e.hash = hash ∧
      c.ttlCmp.holds ((s.now : Int) - e.setTime) pr.ttl = false ∧ e.verifyCount + 1 ≤ pr.maxVerify := by
  unfold verify at hok
  cases hl : lookup (mkKey c.verifyKeyFmt a p) s.cache with
  | none => rw [verifyK_none _ _ _ _ _ _ hl] at hok; cases hok
  | some e =>
    rw [verifyK_some _ _ _ _ _ _ e hl] at hok
    have := (checkVerify_ok_iff _ _ _ _ _ _).1 hok
    exact ⟨e, rfl, this.2.1, this.2.2.1, this.2.2.2, this.1⟩

/-- **vc_expired_rejected**: once the lifetime comparison holds for the entry of the key (`Proved c`: now − setTime > TTL), no
    code and no hash verifies, whatever the attempt counter -/
theorem vc_expired_rejected (c : Cfg) (pr : Params) (s : State) (a p : Str) (e : Entry)
    (hl : lookup (mkKey c.verifyKeyFmt a p) s.cache = some e)
    (hx : c.ttlCmp.holds ((s.now : Int) - e.setTime) pr.ttl = true)
    (code : Code) (hash : Nat) : (verify c pr s a p code hash).2 ≠ .ok := by
  intro h
  obtain ⟨e', hl', _, _, h4, _⟩ := vc_wrong_rejected c pr s a p code hash h
  rw [hl] at hl'; cases hl'
  rw [hx] at h4; cases h4

/-- … and with the right code, the right hash and attempts left the answer is exactly `timeout` -/
theorem vc_expired_timeout (c : Cfg) (pr : Params) (s : State) (a p : Str) (e : Entry)
    (hl : lookup (mkKey c.verifyKeyFmt a p) s.cache = some e)
    (hx : c.ttlCmp.holds ((s.now : Int) - e.setTime) pr.ttl = true) (hn : e.verifyCount + 1 ≤ pr.maxVerify) :
    (verify c pr s a p e.code e.hash).2 = .timeout := by
  unfold verify
  rw [verifyK_some _ _ _ _ _ _ e hl]
  have := checkVerify_right c pr s.now { e with verifyCount := e.verifyCount + 1 } (by simpa using hn)
  simp only at this
  rw [this, if_pos hx]

/-- every stored hash was issued: it is at most the number of accepted sends -/
def WF (s : State) : Prop := ∀ k e, lookup k s.cache = some e → e.hash ≤ s.nsent

/-- hash `h` was issued, and only key `k` may be bound to it -/
def OnlyAt (h : Nat) (k : Str) (s : State) : Prop :=
  h ≤ s.nsent ∧ ∀ k' e, k' ≠ k → lookup k' s.cache = some e → e.hash ≠ h

theorem wf_init : WF State.init := by intro k e h; simp [State.init] at h

theorem wf_step (c : Cfg) (pr : Params) (s : State) (o : Op) (hs : WF s) : WF (step c pr s o).1 := by
  cases o with
  | send t a p =>
    simp only [step, send]
    rcases sendK_cases c pr (advance t s) (mkKey c.sendKeyFmt a p) p with ⟨_, h2⟩ | ⟨cnt, ct, _, h2, _⟩
    · rw [h2]; exact hs
    · rw [h2]; intro k e hl
      rcases lookup_setLRU_cases _ _ _ _ _ _ hl with ⟨_, he⟩ | ⟨_, hl'⟩
      · subst he; exact Nat.le_refl _
      · exact Nat.le_succ_of_le (hs k e hl')
  | verify t a p code hash =>
    simp only [step, verify]
    cases hl : lookup (mkKey c.verifyKeyFmt a p) s.cache with
    | none => rw [verifyK_none _ _ _ _ _ _ (by simpa using hl)]; exact hs
    | some e0 =>
      rw [verifyK_some _ _ _ _ _ _ e0 (by simpa using hl)]; intro k e hl2
      rcases lookup_touch_cases _ _ _ _ _ hl2 with ⟨_, he⟩ | ⟨_, hl'⟩
      · subst he; exact hs _ e0 hl
      · exact hs k e hl'

theorem wf_reachable (c : Cfg) (pr : Params) (ops : List Op) : WF (final (step c pr) State.init ops) :=
  final_inv (step c pr) WF (fun _ => True) (fun s i h _ => wf_step c pr s i h) ops _ wf_init (fun _ _ => trivial)

theorem onlyAt_step (c : Cfg) (pr : Params) (h : Nat) (k : Str) (s : State) (o : Op)
    (hs : WF s ∧ OnlyAt h k s) : WF (step c pr s o).1 ∧ OnlyAt h k (step c pr s o).1 := by
  refine ⟨wf_step c pr s o hs.1, ?_⟩
  obtain ⟨hwf, hle, hon⟩ := hs
  cases o with
  | send t a p =>
    simp only [step, send]
    rcases sendK_cases c pr (advance t s) (mkKey c.sendKeyFmt a p) p with ⟨_, h2⟩ | ⟨cnt, ct, _, h2, _⟩
    · rw [h2]; exact ⟨hle, hon⟩
    · rw [h2]; refine ⟨Nat.le_succ_of_le hle, ?_⟩
      intro k' e hne hl
      rcases lookup_setLRU_cases _ _ _ _ _ _ hl with ⟨_, he⟩ | ⟨_, hl'⟩
      · subst he; simp only [advance_nsent]; omega
      · exact hon k' e hne hl'
  | verify t a p code hash =>
    simp only [step, verify]
    cases hl : lookup (mkKey c.verifyKeyFmt a p) s.cache with
    | none => rw [verifyK_none _ _ _ _ _ _ (by simpa using hl)]; exact ⟨hle, hon⟩
    | some e0 =>
      rw [verifyK_some _ _ _ _ _ _ e0 (by simpa using hl)]; refine ⟨hle, ?_⟩
      intro k' e hne hl2
      rcases lookup_touch_cases _ _ _ _ _ hl2 with ⟨hk, he⟩ | ⟨_, hl'⟩
      · subst he; exact hon _ e0 (hk ▸ hne) hl
      · exact hon k' e hne hl'

/-- **vc_wrong_rejected, other pair** (key level, every configuration, every capacity): the hash returned by an accepted send is,
    after any history whatsoever, never accepted for an operation that addresses another key -/
theorem vc_other_key_rejected (c : Cfg) (pr : Params) (s : State) (hs : WF s) (a p : Str) (h : Nat)
    (hacc : (send c pr s a p).2.accepted = some h) (ops : List Op) (a' p' : Str) (code : Code)
    (hne : mkKey c.verifyKeyFmt a' p' ≠ mkKey c.sendKeyFmt a p) :
    (verify c pr (final (step c pr) (send c pr s a p).1 ops) a' p' code h).2 ≠ .ok := by
  have h0 : WF (send c pr s a p).1 ∧ OnlyAt h (mkKey c.sendKeyFmt a p) (send c pr s a p).1 := by
    unfold send at hacc ⊢
    rcases sendK_cases c pr s (mkKey c.sendKeyFmt a p) p with ⟨h1, _⟩ | ⟨cnt, ct, h1, h2, _⟩
    · rw [h1] at hacc; cases hacc
    · rw [h1] at hacc; cases hacc
      refine ⟨?_, ?_⟩
      · have := wf_step c pr s (.send 0 a p) hs
        have ha : advance 0 s = s := by simp [advance]
        simpa [step, send, ha] using this
      · rw [h2]; refine ⟨Nat.le_refl _, ?_⟩
        intro k' e hk hl
        rcases lookup_setLRU_cases _ _ _ _ _ _ hl with ⟨hk', _⟩ | ⟨_, hl'⟩
        · exact absurd hk' hk
        · have := hs k' e hl'; omega
  have hfin := final_inv (step c pr) (fun s => WF s ∧ OnlyAt h (mkKey c.sendKeyFmt a p) s) (fun _ => True)
    (fun s i hi _ => onlyAt_step c pr h _ s i hi) ops _ h0 (fun _ _ => trivial)
  intro hok
  obtain ⟨e, hl, _, hh, _, _⟩ := vc_wrong_rejected c pr _ a' p' code h hok
  exact hfin.2.2 _ e hne hl hh

/-- pair level, ALL strings: a hash sent to (a, p) never verifies any other pair -/
theorem vc_other_pair_rejected (c : Cfg) (hc : Proved c) (pr : Params) (s : State) (hs : WF s) (a p : Str) (h : Nat)
    (hacc : (send c pr s a p).2.accepted = some h) (ops : List Op) (a' p' : Str) (code : Code)
    (hne : (a', p') ≠ (a, p)) :
    (verify c pr (final (step c pr) (send c pr s a p).1 ops) a' p' code h).2 ≠ .ok := by
  apply vc_other_key_rejected c pr s hs a p h hacc ops a' p' code
  rw [hc.1, hc.2.1]
  intro hk
  have := mkKey_lenPrefix_inj a' a p' p hk
  exact hne (by rw [this.1, this.2])

/-- nothing sent to a key ⇒ `notExist`, after any history that does not send to it -/
theorem vc_nothing_sent_not_exist (c : Cfg) (pr : Params) (k : Str) : ∀ (ops : List Op) (s : State),
    lookup k s.cache = none → (∀ o ∈ ops, o.isSend = true → o.key c ≠ k) →
    lookup k (final (step c pr) s ops).cache = none
  | [], _, h, _ => h
  | o :: os, s, h, hns => by
    have hns' : ∀ o' ∈ os, o'.isSend = true → o'.key c ≠ k := fun o' h => hns o' (by simp [h])
    rw [final_cons]
    apply vc_nothing_sent_not_exist c pr k os _ _ hns'
    by_cases hk : o.key c = k
    · cases o with
      | send t a p => exact absurd hk (hns _ (by simp) rfl)
      | verify t a p code hash =>
        have hk' : mkKey c.verifyKeyFmt a p = k := hk
        simp only [step, verify, hk']; rw [verifyK_none _ _ _ _ _ _ (by simpa using h)]; exact h
    · exact step_lookup_other_none c pr s o k hk h

/-! ### vc_attempts_bounded, vc_send_resets_attempts -/

def Out.accepted : Out → Bool
  | .send r => r.accepted.isSome
  | .verify _ => false

def Out.isOk : Out → Bool
  | .verify .ok => true
  | _ => false

/-- successful verifies against key `k` since the last accepted send to `k` (`acc` = count so far) -/
def okSince (c : Cfg) (pr : Params) (k : Str) : State → List Op → Nat → Nat
  | _, [], acc => acc
  | s, o :: os, acc =>
    let r := step c pr s o
    okSince c pr k r.1 os
      (if o.key c = k then
        (if o.isSend then (if r.2.accepted then 0 else acc) else (if r.2.isOk then acc + 1 else acc))
      else acc)

theorem okSince_le (c : Cfg) (pr : Params) (k : Str) : ∀ (ops : List Op) (s : State) (acc : Nat),
    (lookup k s.cache = none ∨ (acc : Int) ≤ vcOf s k) → acc ≤ pr.maxVerify.toNat →
    okSince c pr k s ops acc ≤ pr.maxVerify.toNat
  | [], _, _, _, h2 => h2
  | o :: os, s, acc, h1, h2 => by
    simp only [okSince]
    by_cases hk : o.key c = k
    · simp only [hk, if_true]
      cases o with
      | send t a p =>
        have hk' : mkKey c.sendKeyFmt a p = k := hk
        simp only [Op.isSend, if_true, step, send, hk']
        rcases sendK_cases c pr (advance t s) k p with ⟨r1, r2⟩ | ⟨cnt, ct, r1, r2, _⟩
        · simp only [Out.accepted, r1, Option.isSome_none, Bool.false_eq_true, if_false, r2]
          exact okSince_le c pr k os (advance t s) acc h1 h2
        · simp only [Out.accepted, r1, Option.isSome_some, if_true, r2]
          refine okSince_le c pr k os _ 0 ?_ (Nat.zero_le _)
          generalize hen' : (⟨cnt + 1, 0, genCode pr p ((advance t s).nsent + 1), (advance t s).nsent + 1, (advance t s).now, ct⟩ : Entry) = en at *
          have hen : en.verifyCount = 0 := by rw [← hen']
          cases hl : lookup k (setLRU pr.cap k en (advance t s).cache) with
          | none => exact Or.inl rfl
          | some e' =>
            right
            rcases lookup_setLRU_cases _ _ _ _ _ _ hl with ⟨_, he⟩ | ⟨hne, _⟩
            · simp only [advance_cache] at hl
              simp [vcOf, hl, he, hen]
            · exact absurd rfl hne
      | verify t a p code hash =>
        have hk' : mkKey c.verifyKeyFmt a p = k := hk
        simp only [Op.isSend, Bool.false_eq_true, if_false, step, verify, hk']
        cases hl : lookup k s.cache with
        | none =>
          rw [verifyK_none _ _ _ _ _ _ (by simpa using hl)]
          simp only [Out.isOk, Bool.false_eq_true, if_false]
          exact okSince_le c pr k os (advance t s) acc h1 h2
        | some e =>
          rw [verifyK_some _ _ _ _ _ _ e (by simpa using hl)]
          have hv : (acc : Int) ≤ e.verifyCount := by
            rcases h1 with h1 | h1
            · rw [hl] at h1; cases h1
            · simpa [vcOf, hl] using h1
          simp only
          split
          · rename_i hok
            have hck : checkVerify c pr (advance t s).now { e with verifyCount := e.verifyCount + 1 } code hash = .ok := by
              revert hok; cases checkVerify c pr (advance t s).now { e with verifyCount := e.verifyCount + 1 } code hash <;> simp [Out.isOk]
            have := ((checkVerify_ok_iff _ _ _ _ _ _).1 hck).1
            simp only at this
            exact okSince_le c pr k os _ (acc + 1) (Or.inr (by simp [vcOf]; omega)) (by omega)
          · exact okSince_le c pr k os _ acc (Or.inr (by simp [vcOf]; omega)) h2
    · simp only [hk, if_false]
      refine okSince_le c pr k os _ acc ?_ h2
      rcases step_lookup_other c pr s o k hk with h3 | h3
      · exact Or.inl h3
      · rcases h1 with h1 | h1
        · left; rw [h3]; exact h1
        · right; simp only [vcOf] at h1 ⊢; rw [h3]; exact h1

/-- **vc_attempts_bounded**, every configuration, every capacity and every history from the empty cache: at any time the
    number of successful verifies against a key since the last accepted send to it is at most `max MaxVerifyCount 0`
    (eviction only deletes the entry; it never lets the count continue) -/
theorem vc_attempts_bounded (c : Cfg) (pr : Params) (k : Str) (ops : List Op) :
    okSince c pr k State.init ops 0 ≤ pr.maxVerify.toNat :=
  okSince_le c pr k ops State.init 0 (Or.inl rfl) (Nat.zero_le _)

/-- once the attempt counter has reached the limit every further verify — right code and hash included — is refused -/
theorem vc_limit_rejects_right_code (c : Cfg) (pr : Params) (s : State) (key : Str) (e : Entry)
    (hl : lookup key s.cache = some e) (hfull : pr.maxVerify ≤ e.verifyCount) (code : Code) (hash : Nat) :
    (verifyK c pr s key code hash).2 = .retryLimit := by
  rw [verifyK_some _ _ _ _ _ _ e hl]
  simp only [checkVerify]
  rw [if_pos (by omega)]

/-- after an accepted send and `MaxVerifyCount` or more attempts (any codes, any hashes, any interleaving with other keys
    that does not evict the entry), even the right code with the right hash is refused with `retryLimit` -/
theorem vc_attempts_exhausted (c : Cfg) (pr : Params) (hfmt : c.sendKeyFmt = c.verifyKeyFmt) (hcap : 0 < pr.cap)
    (s : State) (a p : Str) (h : Nat) (hacc : (send c pr s a p).2.accepted = some h) (ops : List Op)
    (hns : ∀ o ∈ ops, o.isSend = true → o.key c ≠ mkKey c.sendKeyFmt a p)
    (hev : noEvict c pr (mkKey c.sendKeyFmt a p) (send c pr s a p).1 ops = true)
    (hn : pr.maxVerify ≤ (verifiesOf c (mkKey c.sendKeyFmt a p) ops : Int)) (t : Nat) :
    (verify c pr (advance t (final (step c pr) (send c pr s a p).1 ops)) a p (genCode pr p h) h).2 = .retryLimit := by
  unfold send at hacc hev ⊢
  rcases sendK_cases c pr s (mkKey c.sendKeyFmt a p) p with ⟨h1, _⟩ | ⟨cnt, ct, h1, h2, _⟩
  · rw [h1] at hacc; cases hacc
  · have hl := track c pr (mkKey c.sendKeyFmt a p) ops (sendK c pr s (mkKey c.sendKeyFmt a p) p).1 _
      (by rw [h2]; exact lookup_setLRU_self _ _ hcap _ _) hns hev
    unfold verify
    rw [← hfmt]
    exact vc_limit_rejects_right_code c pr _ _ _ (by simpa using hl) (by simp only; omega) _ _

/-- **vc_send_resets_attempts**: an accepted send leaves the key with zero attempts and a lifetime starting now, whatever the counter was before
    (so by `vc_send_then_verify_now` the new code verifies even if the old one was exhausted) -/
theorem vc_send_resets_attempts (c : Cfg) (pr : Params) (hcap : 0 < pr.cap) (s : State) (a p : Str) (h : Nat)
    (hacc : (send c pr s a p).2.accepted = some h) :
    ∃ cnt ct, lookup (mkKey c.sendKeyFmt a p) (send c pr s a p).1.cache = some ⟨cnt, 0, genCode pr p h, h, s.now, ct⟩ := by
  unfold send at hacc ⊢
  rcases sendK_cases c pr s (mkKey c.sendKeyFmt a p) p with ⟨h1, _⟩ | ⟨cnt, ct, h1, h2, _⟩
  · rw [h1] at hacc; cases hacc
  · rw [h1] at hacc; cases hacc
    exact ⟨cnt + 1, ct, by rw [h2]; exact lookup_setLRU_self _ _ hcap _ _⟩

/-! ### vc_send_limits -/

theorem noEvict_cons (c : Cfg) (pr : Params) (k : Str) (s : State) (o : Op) (os : List Op)
    (h : noEvict c pr k s (o :: os) = true) :
    (present k s = true → present k (step c pr s o).1 = true) ∧ noEvict c pr k (step c pr s o).1 os = true := by
  simp only [noEvict, Bool.and_eq_true, Bool.or_eq_true, Bool.not_eq_true'] at h
  refine ⟨fun hp => ?_, h.2⟩
  rcases h.1 with h1 | h1
  · rw [hp] at h1; cases h1
  · exact h1

theorem sendK_tooFreq_iff (c : Cfg) (pr : Params) (s : State) (key ph : Str) :
    (sendK c pr s key ph).2 = .tooFreq ↔ checkSend c pr s.now (lookup key s.cache) = .error .tooFreq := by
  unfold sendK
  cases h : checkSend c pr s.now (lookup key s.cache) with
  | error r => simp
  | ok v =>
    obtain ⟨cnt, ct⟩ := v
    simp only
    split
    · simp
    · split <;> simp

/-- **one send, minimum interval** (every configuration, every state): a send to a key whose entry was set at `e.setTime` is
    refused as too frequent IFF the comparison of `now − e.setTime` with MinInterval holds (`Proved c`: `<`) -/
theorem vc_too_frequent_iff (c : Cfg) (pr : Params) (s : State) (key ph : Str) (e : Entry)
    (hl : lookup key s.cache = some e) :
    (sendK c pr s key ph).2 = .tooFreq ↔ c.minIntervalCmp.holds ((s.now : Int) - e.setTime) pr.minInterval = true := by
  rw [sendK_tooFreq_iff, hl, checkSend_tooFreq_iff]

/-- the first send to a key (zero `setTime`) is never too frequent -/
theorem vc_first_send_not_too_frequent (c : Cfg) (pr : Params) (s : State) (key ph : Str)
    (hl : lookup key s.cache = none) : (sendK c pr s key ph).2 ≠ .tooFreq := by
  rw [Ne, sendK_tooFreq_iff, hl]
  exact checkSend_none_not_tooFreq c pr s.now

/-- key level, every configuration: a send accepted at clock reading `s.now`, any timed history without another send to the key
    and without eviction, then a send at reading `t'`: it is refused as too frequent IFF the comparison of `t' − s.now` with
    MinInterval holds -/
theorem vc_send_limits_min_interval_key (c : Cfg) (pr : Params) (hcap : 0 < pr.cap) (s : State) (a p : Str) (h : Nat)
    (hacc : (send c pr s a p).2.accepted = some h) (ops : List Op)
    (hns : ∀ o ∈ ops, o.isSend = true → o.key c ≠ mkKey c.sendKeyFmt a p)
    (hev : noEvict c pr (mkKey c.sendKeyFmt a p) (send c pr s a p).1 ops = true) (t : Nat) :
    (send c pr (advance t (final (step c pr) (send c pr s a p).1 ops)) a p).2 = .tooFreq ↔
      c.minIntervalCmp.holds (((advance t (final (step c pr) (send c pr s a p).1 ops)).now : Int) - s.now) pr.minInterval = true := by
  unfold send at hacc hev ⊢
  rcases sendK_cases c pr s (mkKey c.sendKeyFmt a p) p with ⟨h1, _⟩ | ⟨cnt, ct, h1, h2, _⟩
  · rw [h1] at hacc; cases hacc
  · have hl := track c pr (mkKey c.sendKeyFmt a p) ops (sendK c pr s (mkKey c.sendKeyFmt a p) p).1 _
      (by rw [h2]; exact lookup_setLRU_self _ _ hcap _ _) hns hev
    rw [vc_too_frequent_iff c pr _ _ _ _ (by simpa using hl)]

/-- **vc_send_limits (minimum interval)**, pair level, `Proved c`, all strings, all clock histories: after a send to (a, p)
    accepted at reading `s.now`, a send to the same pair at reading `t'` is refused as too frequent IFF `t' − s.now < MinInterval` -/
theorem vc_send_limits_min_interval (c : Cfg) (hc : Proved c) (pr : Params) (hcap : 0 < pr.cap) (s : State) (a p : Str) (h : Nat)
    (hacc : (send c pr s a p).2.accepted = some h) (ops : List Op)
    (hns : ∀ o ∈ ops, o.isSend = true → o.pair ≠ (a, p))
    (hev : noEvict c pr (mkKey .lenPrefix a p) (send c pr s a p).1 ops = true) (t : Nat) :
    (send c pr (advance t (final (step c pr) (send c pr s a p).1 ops)) a p).2 = .tooFreq ↔
      ((advance t (final (step c pr) (send c pr s a p).1 ops)).now : Int) - s.now < pr.minInterval := by
  have hs : c.sendKeyFmt = .lenPrefix := hc.1
  rw [vc_send_limits_min_interval_key c pr hcap s a p h hacc ops
    (by
      intro o ho hsend hk
      rw [hs] at hk
      exact hns o ho hsend ((key_eq_iff_pair c hc o a p).1 hk))
    (by rw [hs]; exact hev) t, hc.2.2.2.1]
  simp only [LtCmp.holds, decide_eq_true_eq]

/-! #### concurrent callers: what every sequential interleaving guarantees for re-sends -/

/-- the results of the send operations addressing key `k`, in order -/
def sendOutsTo (c : Cfg) (pr : Params) (k : Str) : State → List Op → List SendResult
  | _, [] => []
  | s, o :: os =>
    (match o.isSend && decide (o.key c = k), (step c pr s o).2 with
      | true, .send x => [x]
      | _, _ => []) ++ sendOutsTo c pr k (step c pr s o).1 os

theorem holds_max (cmp : LtCmp) (a b T d : Int) (ha : cmp.holds (a - T) d = true) (hb : cmp.holds (b - T) d = true) (m : Int)
    (hm : m = a ∨ m = b) : cmp.holds (m - T) d = true := by
  rcases hm with h | h <;> rw [h] <;> assumption

/-- while the entry of `k` (set at reading `T`) is not evicted and every clock reading stays inside the minimum interval, every send to `k`
    is refused as too frequent — whatever else happens in between -/
theorem resends_refused (c : Cfg) (pr : Params) (k : Str) (T : Nat) : ∀ (ops : List Op) (s : State),
    (∃ e, lookup k s.cache = some e ∧ e.setTime = T) →
    c.minIntervalCmp.holds ((s.now : Int) - T) pr.minInterval = true →
    (∀ o ∈ ops, c.minIntervalCmp.holds ((o.time : Int) - T) pr.minInterval = true) →
    noEvict c pr k s ops = true → ∀ x ∈ sendOutsTo c pr k s ops, x = .tooFreq
  | [], _, _, _, _, _ => by simp [sendOutsTo]
  | o :: os, s, ⟨e, hl, hT⟩, hnow, htimes, hev => by
    have hev' := noEvict_cons c pr k s o os hev
    have hnow' : c.minIntervalCmp.holds (((step c pr s o).1.now : Int) - T) pr.minInterval = true := by
      rw [step_now]
      apply holds_max _ _ _ _ _ hnow (htimes o (by simp))
      rcases Nat.le_total s.now o.time with h | h
      · right; rw [Nat.max_eq_right h]
      · left; rw [Nat.max_eq_left h]
    have hrest : ∀ o' ∈ os, c.minIntervalCmp.holds ((o'.time : Int) - T) pr.minInterval = true :=
      fun o' h => htimes o' (by simp [h])
    have hnowA : c.minIntervalCmp.holds (((advance o.time s).now : Int) - T) pr.minInterval = true := by
      have := hnow'; rw [step_now] at this; exact this
    intro x hx
    simp only [sendOutsTo, List.mem_append] at hx
    by_cases hk : o.key c = k
    · cases o with
      | send t a p =>
        have hk' : mkKey c.sendKeyFmt a p = k := hk
        have hres : (sendK c pr (advance t s) k p).2 = .tooFreq :=
          (vc_too_frequent_iff c pr (advance t s) k p e (by simpa using hl)).2 (by rw [hT]; exact hnowA)
        have hst : (sendK c pr (advance t s) k p).1 = advance t s := by
          rcases sendK_cases c pr (advance t s) k p with ⟨_, h2⟩ | ⟨cnt, ct, h1, _, _⟩
          · exact h2
          · rw [hres] at h1; simp [SendResult.accepted] at h1
        rcases hx with hx | hx
        · simp only [Op.isSend, hk, decide_true, Bool.and_self, step, send, hk', hres, List.mem_singleton] at hx
          exact hx
        · refine resends_refused c pr k T os _ ⟨e, ?_, hT⟩ hnow' hrest hev'.2 x hx
          simp only [step, send, hk', hst]; simpa using hl
      | verify t a p code hash =>
        have hk' : mkKey c.verifyKeyFmt a p = k := hk
        rcases hx with hx | hx
        · simp [Op.isSend] at hx
        · refine resends_refused c pr k T os _ ⟨{ e with verifyCount := e.verifyCount + 1 }, ?_, hT⟩ hnow' hrest hev'.2 x hx
          simp only [step, verify, hk']
          rw [verifyK_some _ _ _ _ _ _ e (by simpa using hl)]
          exact lookup_touch_self _ _ _
    · rcases hx with hx | hx
      · simp [hk] at hx
      · refine resends_refused c pr k T os _ ⟨e, ?_, hT⟩ hnow' hrest hev'.2 x hx
        rcases step_lookup_other c pr s o k hk with h1 | h1
        · have := hev'.1 (by simp [present, hl]); simp [present, h1] at this
        · rw [h1]; exact hl

/-- `cs` is a merge of `as` and `bs` that keeps the order inside each of them: one sequential interleaving of two callers -/
inductive Interleave {α : Type} : List α → List α → List α → Prop
  | nil : Interleave [] [] []
  | left {a : α} {as bs cs : List α} : Interleave as bs cs → Interleave (a :: as) bs (a :: cs)
  | right {b : α} {as bs cs : List α} : Interleave as bs cs → Interleave as (b :: bs) (b :: cs)

theorem Interleave.mem {α : Type} {as bs cs : List α} (h : Interleave as bs cs) : ∀ x ∈ cs, x ∈ as ∨ x ∈ bs := by
  induction h with
  | nil => simp
  | left _ ih => intro x hx; simp only [List.mem_cons] at hx ⊢; rcases hx with hx | hx
                 · exact Or.inl (Or.inl hx)
                 · rcases ih x hx with h | h
                   · exact Or.inl (Or.inr h)
                   · exact Or.inr h
  | right _ ih => intro x hx; simp only [List.mem_cons] at hx ⊢; rcases hx with hx | hx
                  · exact Or.inr (Or.inl hx)
                  · rcases ih x hx with h | h
                    · exact Or.inl h
                    · exact Or.inr (Or.inr h)

theorem othersOf_interleave (c : Cfg) (k : Str) {as bs cs : List Op} (h : Interleave as bs cs)
    (has : ∀ o ∈ as, o.key c = k) : othersOf c k cs ≤ bs.length := by
  induction h with
  | nil => simp [othersOf]
  | @left a as bs cs _ ih =>
    have hk : a.key c = k := has a (by simp)
    have := ih (fun o ho => has o (by simp [ho]))
    have e : othersOf c k (a :: cs) = othersOf c k cs := by simp [othersOf, hk]
    rw [e]; exact this
  | @right b as bs cs _ ih =>
    have := ih has
    have e : othersOf c k (b :: cs) ≤ othersOf c k cs + 1 := by
      unfold othersOf; rw [List.filter_cons]; split <;> simp
    simp only [List.length_cons]; omega

/-- **vc_resend_refused_any_interleaving** (`Proved c`, all strings): a code is sent to (a, p) and accepted at clock reading `s.now`, with
    MinInterval > 0. One caller then re-sends to (a, p) any number of times while other callers do anything at all (sends and verifies on
    other pairs, verifies of this pair; further sends to this pair are refused like the re-sends) — fewer than CacheSize operations, every clock reading still inside the minimum interval (e.g. all at the same reading).
    In EVERY sequential interleaving `merged` of the two operation lists, every one of the re-sends is refused as too frequent.
    (This is what a run with truly parallel callers must linearise to; the harness's `race` line checks it on one instance.) -/
theorem vc_resend_refused_any_interleaving (c : Cfg) (hc : Proved c) (pr : Params)
    (s : State) (a p : Str) (h : Nat) (hacc : (send c pr s a p).2.accepted = some h)
    (resends others merged : List Op) (hm : Interleave resends others merged)
    (hres : ∀ o ∈ resends, ∃ t, o = .send t a p)
    (hfew : others.length < pr.cap)
    (htime : ∀ o ∈ merged, ((o.time : Int) - s.now < pr.minInterval)) (hmin : 0 < pr.minInterval) :
    ∀ x ∈ sendOutsTo c pr (mkKey .lenPrefix a p) (send c pr s a p).1 merged, x = .tooFreq := by
  have hcap : 0 < pr.cap := by omega
  have hs : c.sendKeyFmt = .lenPrefix := hc.1
  have hlt : c.minIntervalCmp = .lt := hc.2.2.2.1
  obtain ⟨cnt, ct, hl⟩ := vc_send_resets_attempts c pr hcap s a p h hacc
  rw [hs] at hl
  have hnow : (send c pr s a p).1.now = s.now := by
    unfold send at hacc ⊢
    rcases sendK_cases c pr s (mkKey c.sendKeyFmt a p) p with ⟨h1, _⟩ | ⟨cnt, ct, _, h2, _⟩
    · rw [h1] at hacc; cases hacc
    · rw [h2]
  have hkeys : ∀ o ∈ resends, o.key c = mkKey .lenPrefix a p := by
    intro o ho; obtain ⟨t, rfl⟩ := hres o ho; simp [Op.key, hs]
  apply resends_refused c pr (mkKey .lenPrefix a p) s.now merged (send c pr s a p).1 ⟨_, hl, rfl⟩
  · rw [hnow, hlt]; simp only [LtCmp.holds, decide_eq_true_eq]; omega
  · intro o ho; rw [hlt]; simp only [LtCmp.holds, decide_eq_true_eq]; exact htime o ho
  · apply noEvict_of_few_others
    have hp0 := send_accepted_pos0 c pr hcap s a p h hacc
    rw [hs] at hp0
    have := othersOf_interleave c (mkKey .lenPrefix a p) hm hkeys
    rw [hp0]; omega

/-- ghost window of key `k`, computed from the outputs and the clock alone: (window start, accepted sends in that window); an accepted
    send starts a new window when there is none or when (its time − window start) compares `>` CounterDuration as the source compares -/
def winGhost (c : Cfg) (pr : Params) (k : Str) : State → List Op → Option (Nat × Nat) → Option (Nat × Nat)
  | _, [], g => g
  | s, o :: os, g =>
    let r := step c pr s o
    winGhost c pr k r.1 os
      (if o.isSend && decide (o.key c = k) && r.2.accepted then
        (match g with
          | none => some (r.1.now, 1)
          | some (st, n) =>
            if c.windowCmp.holds ((r.1.now : Int) - st) pr.window then some (r.1.now, 1) else some (st, n + 1))
      else g)

/-- the entry of `k` agrees with the ghost window, and the ghost count is within the bound -/
def GhostInv (pr : Params) (k : Str) (s : State) : Option (Nat × Nat) → Prop
  | none => lookup k s.cache = none
  | some (st, n) => ∃ e, lookup k s.cache = some e ∧ e.counterTime = st ∧ e.sendCount = (n : Int) ∧
      (n : Int) ≤ max (pr.maxCount + 1) 1

def ghostBound (pr : Params) : Option (Nat × Nat) → Prop
  | none => True
  | some (_, n) => (n : Int) ≤ max (pr.maxCount + 1) 1

theorem ghostInv_bound (pr : Params) (k : Str) (s : State) (g : Option (Nat × Nat)) (h : GhostInv pr k s g) :
    ghostBound pr g := by
  cases g with
  | none => trivial
  | some v => obtain ⟨st, n⟩ := v; obtain ⟨e, _, _, _, hb⟩ := h; exact hb

theorem winGhost_inv (c : Cfg) (pr : Params) (hcap : 0 < pr.cap) (k : Str) : ∀ (ops : List Op) (s : State) (g : Option (Nat × Nat)),
    GhostInv pr k s g → noEvict c pr k s ops = true → ghostBound pr (winGhost c pr k s ops g)
  | [], s, g, hi, _ => ghostInv_bound pr k s g hi
  | o :: os, s, g, hi, hev => by
    have hev' := noEvict_cons c pr k s o os hev
    simp only [winGhost]
    refine winGhost_inv c pr hcap k os _ _ ?_ hev'.2
    by_cases hk : o.key c = k
    · cases o with
      | verify t a p code hash =>
        have hk' : mkKey c.verifyKeyFmt a p = k := hk
        simp only [Op.isSend, Bool.false_and, Bool.false_eq_true, if_false, step, verify, hk']
        cases hl : lookup k s.cache with
        | none => rw [verifyK_none _ _ _ _ _ _ (by simpa using hl)]; cases g with
          | none => exact hl
          | some v => obtain ⟨st, n⟩ := v; obtain ⟨e, he, _⟩ := hi; rw [hl] at he; cases he
        | some e =>
          rw [verifyK_some _ _ _ _ _ _ e (by simpa using hl)]
          cases g with
          | none => simp only [GhostInv] at hi; rw [hl] at hi; cases hi
          | some v =>
            obtain ⟨st, n⟩ := v; obtain ⟨e0, he, h1, h2, h3⟩ := hi
            rw [hl] at he; cases he
            exact ⟨_, lookup_touch_self _ _ _, h1, h2, h3⟩
      | send t a p =>
        have hk' : mkKey c.sendKeyFmt a p = k := hk
        simp only [Op.isSend, Bool.true_and, hk, decide_true, step, send, hk']
        rcases sendK_cases c pr (advance t s) k p with ⟨r1, r2⟩ | ⟨cnt, ct, r1, r2, r3⟩
        · simp only [Out.accepted, r1, Option.isSome_none, Bool.false_eq_true, if_false, r2]
          cases g with
          | none => exact hi
          | some v => exact hi
        · simp only [Out.accepted, r1, Option.isSome_some, if_true, r2]
          have hnew := lookup_setLRU_self k pr.cap hcap
            ⟨cnt + 1, 0, genCode pr p ((advance t s).nsent + 1), (advance t s).nsent + 1, (advance t s).now, ct⟩ (advance t s).cache
          rcases checkSend_ok c pr _ _ cnt ct r3 with ⟨hw, hc0, hct⟩ | ⟨hw, hle, hc0, hct⟩
          · -- the window was refreshed
            cases g with
            | none => exact ⟨_, hnew, by simp [hct], by simp [hc0], by omega⟩
            | some v =>
              obtain ⟨st, n⟩ := v; obtain ⟨e0, he, h1, _, _⟩ := hi
              have he' : lookup k (advance t s).cache = some e0 := he
              simp only [he', winElapsed, h1] at hw
              simp only [hw, if_true]
              exact ⟨_, hnew, by simp [hct], by simp [hc0], by omega⟩
          · cases g with
            | none =>
              have he' : lookup k (advance t s).cache = none := hi
              simp only [he', scOpt, ctOpt] at hc0 hct
              exact ⟨_, hnew, by simp [hct], by simp [hc0], by omega⟩
            | some v =>
              obtain ⟨st, n⟩ := v; obtain ⟨e0, he, h1, h2, _⟩ := hi
              have he' : lookup k (advance t s).cache = some e0 := he
              simp only [he', winElapsed, h1, scOpt, ctOpt, h2] at hw hc0 hct hle
              simp only [hw, Bool.false_eq_true, if_false]
              exact ⟨_, hnew, by simp [hct], by simp [hc0], by omega⟩
    · have hif : (o.isSend && decide (o.key c = k) && (step c pr s o).2.accepted) = false := by simp [hk]
      simp only [hif, Bool.false_eq_true, if_false]
      rcases step_lookup_other c pr s o k hk with h1 | h1
      · cases g with
        | none => exact h1
        | some v =>
          obtain ⟨st, n⟩ := v; obtain ⟨e0, he, _⟩ := hi
          have := hev'.1 (by simp [present, he])
          simp [present, h1] at this
      · cases g with
        | none => simp only [GhostInv] at hi ⊢; rw [h1]; exact hi
        | some v =>
          obtain ⟨st, n⟩ := v; obtain ⟨e0, he, hr⟩ := hi
          exact ⟨e0, by rw [h1]; exact he, hr⟩

/-- **vc_send_limits (count per window)**, every configuration, all clock histories from the empty cache without eviction of the key
    (capacity ≥ 1): at any time the number of accepted sends in the current window of a key — windows starting at an accepted send,
    a new one when (time − window start) `>` CounterDuration as the source compares — is at most `max (MaxCount + 1) 1`
    (the bound the code implements, `sendCount > MaxCount`; see the observation in docs/C19.md) -/
theorem vc_send_limits_count (c : Cfg) (pr : Params) (hcap : 0 < pr.cap) (k : Str) (ops : List Op)
    (hev : noEvict c pr k State.init ops = true) :
    ghostBound pr (winGhost c pr k State.init ops none) :=
  winGhost_inv c pr hcap k ops State.init none rfl hev

/-- one send, count limit: not too frequent, window not over ⇒ refused with `countLimit` IFF the counter already exceeds MaxCount -/
theorem vc_count_limit_iff (c : Cfg) (pr : Params) (s : State) (key ph : Str) (e : Entry)
    (hl : lookup key s.cache = some e)
    (hmin : c.minIntervalCmp.holds ((s.now : Int) - e.setTime) pr.minInterval = false)
    (hwin : c.windowCmp.holds ((s.now : Int) - e.counterTime) pr.window = false) :
    (sendK c pr s key ph).2 = .countLimit ↔ e.sendCount > pr.maxCount := by
  unfold sendK
  simp only [hl, checkSend, hmin, hwin, Bool.false_eq_true, if_false]
  by_cases h : e.sendCount > pr.maxCount
  · simp [h]
  · simp only [h, if_false]
    split
    · simp
    · split <;> simp

/-- one send, window over: (time − window start) compares `>` CounterDuration ⇒ the send is not refused by the count limit and, if
    accepted, starts a new window now with count 1 -/
theorem vc_window_refresh (c : Cfg) (pr : Params) (hcap : 0 < pr.cap) (s : State) (key ph : Str) (e : Entry)
    (hl : lookup key s.cache = some e)
    (hmin : c.minIntervalCmp.holds ((s.now : Int) - e.setTime) pr.minInterval = false)
    (hwin : c.windowCmp.holds ((s.now : Int) - e.counterTime) pr.window = true) :
    (sendK c pr s key ph).2 ≠ .countLimit ∧
    ∀ h, (sendK c pr s key ph).2.accepted = some h →
      lookup key (sendK c pr s key ph).1.cache = some ⟨1, 0, genCode pr ph h, h, s.now, s.now⟩ := by
  unfold sendK
  simp only [hl, checkSend, hmin, hwin, Bool.false_eq_true, if_false, if_true]
  split
  · exact ⟨by simp, fun h hh => by simp [SendResult.accepted] at hh⟩
  · refine ⟨by split <;> simp, fun h hh => ?_⟩
    have : h = s.nsent + 1 := by
      revert hh; split <;> simp [SendResult.accepted] <;> exact fun x => x.symm
    subst this
    simpa using lookup_setLRU_self key pr.cap hcap _ s.cache
/-! ### vc_code_length, nonce_alphabet_surjective -/

theorem mockCode_length (phone : Str) (n : Nat) : (mockCode phone n).length = n := by
  unfold mockCode; split <;> simp <;> omega

/-- **vc_code_length** (mock mode, configured length ≥ 0): the code has exactly `CodeLen` characters -/
theorem vc_code_length (pr : Params) (hm : pr.mock = true) (hlen : 0 ≤ pr.codeLen) (phone : Str) (k : Nat) :
    ∃ t, genCode pr phone k = .lit t ∧ (t.length : Int) = pr.codeLen :=
  ⟨mockCode phone pr.codeLen.toNat, by simp [genCode, hm], by rw [mockCode_length]; omega⟩

theorem genNonce_length (b : NonceBound) (base : Str) (len : Nat) (vals : List Nat) (out : Str)
    (h : genNonce b base len vals = some out) : out.length = len := by
  unfold genNonce at h
  split at h
  · cases h; simp_all
  · split at h
    · cases h
    · cases h; exact nonceLoop_length _ _ _ _

theorem genNonce_some (b : NonceBound) (base : Str) (len : Nat) (vals : List Nat) (hpos : 0 < boundOf b base.length) :
    ∃ out, genNonce b base len vals = some out := by
  unfold genNonce
  split
  · exact ⟨_, rfl⟩
  · split
    · omega
    · exact ⟨_, rfl⟩

theorem boundOf_le (b : NonceBound) (n : Nat) : boundOf b n ≤ n := by cases b <;> simp [boundOf] <;> omega

/-- every character produced lies in the alphabet — more precisely among the `reachable` ones (every bound) -/
theorem genNonce_mem (b : NonceBound) (base : Str) (len : Nat) (vals : List Nat) (out : Str)
    (h : genNonce b base len vals = some out) : ∀ x ∈ out, x ∈ reachable b base ∧ x ∈ base := by
  unfold genNonce at h
  split at h
  · cases h; simp
  · split at h
    · cases h
    · rename_i hpos
      cases h
      intro x hx
      have hb := boundOf_le b base.length
      have := nonceLoop_mem base (boundOf b base.length).toNat (by omega) (by omega) len vals x hx
      exact ⟨this, List.mem_of_mem_take this⟩

/-- **vc_code_length** (real-sender mode, configured length ≥ 0, `Proved c`): whatever the random source returns, the
    code generated at send `k` is `genNonce .len "0123456789" CodeLen (rnd k)`: it exists (no panic), has exactly `CodeLen`
    characters, all of them decimal digits -/
theorem vc_code_length_real (c : Cfg) (hc : Proved c) (pr : Params) (hm : pr.mock = false) (hlen : 0 ≤ pr.codeLen)
    (rnd : Nat → List Nat) (phone : Str) (k : Nat) :
    ∃ t, (genCode pr phone k).text c.nonceBound pr rnd = some t ∧ (t.length : Int) = pr.codeLen ∧ ∀ x ∈ t, x ∈ digits := by
  rw [hc.2.2.1]
  simp only [genCode, hm, Bool.false_eq_true, if_false]
  split
  · exact ⟨[], rfl, by simp; omega, by simp⟩
  · obtain ⟨out, ho⟩ := genNonce_some .len digits pr.codeLen.toNat (rnd k) (by simp [boundOf, digits])
    refine ⟨out, ho, ?_, fun x hx => (genNonce_mem _ _ _ _ _ ho x hx).2⟩
    rw [genNonce_length _ _ _ _ _ ho]; omega

/-- the characters the oracle prints for a `sample` line are exactly those some random source can produce -/
theorem reachable_iff (b : NonceBound) (base : Str) (x : Char) (hpos : 0 < boundOf b base.length) :
    x ∈ reachable b base ↔ ∃ v, genNonce b base 1 [v] = some [x] := by
  constructor
  · intro h
    obtain ⟨i, hi, hx⟩ := List.mem_take_iff_getElem.1 h
    have hb := boundOf_le b base.length
    have him : i < (boundOf b base.length).toNat := by omega
    have hil : i < base.length := by omega
    have hn : ¬ (boundOf b base.length ≤ 0) := by omega
    refine ⟨i, ?_⟩
    simp [genNonce, hn, nonceLoop, Nat.mod_eq_of_lt him, List.getElem?_eq_getElem hil, hx]
  · rintro ⟨v, hv⟩
    exact (genNonce_mem b base 1 [v] [x] hv x (by simp)).1

/-- **nonce_alphabet_surjective** (`nonceBound = len`): for every position of the alphabet there is a random source that makes
    `genNonceStr` return exactly that character -/
theorem nonce_alphabet_surjective (base : Str) (i : Nat) (hi : i < base.length) :
    genNonce .len base 1 [i] = some [base[i]] := by
  have hne : base ≠ [] := by intro e; simp [e] at hi
  simp [genNonce, boundOf, hne, nonceLoop, Nat.mod_eq_of_lt hi, List.getElem?_eq_getElem hi]

theorem nonce_alphabet_surjective' (c : Cfg) (hc : Proved c) (base : Str) (x : Char) (hx : x ∈ base) :
    ∃ vals, genNonce c.nonceBound base 1 vals = some [x] := by
  obtain ⟨i, hi, rfl⟩ := List.getElem_of_mem hx
  exact ⟨[i], by rw [hc.2.2.1]; exact nonce_alphabet_surjective base i hi⟩

/-- with the bound `fn(bSize - 1)` the last character of a duplicate-free alphabet is never produced -/
theorem nonce_lenMinus1_never_last (base : Str) (hnd : base.Nodup) (len : Nat) (vals : List Nat) (out : Str)
    (h : genNonce .lenMinus1 base len vals = some out) (x : Char) (hlast : base.getLast? = some x) : x ∉ out := by
  intro hx
  have hr := (genNonce_mem _ _ _ _ _ h x hx).1
  simp only [reachable, boundOf] at hr
  obtain ⟨i, hi, hxi⟩ := List.mem_take_iff_getElem.1 hr
  have hne : base ≠ [] := by intro e; rw [e] at hlast; cases hlast
  have hpos : 0 < base.length := List.length_pos_iff.2 hne
  have hlt : base.length - 1 < base.length := by omega
  have hl : x = base[base.length - 1] := by
    rw [List.getLast?_eq_getElem?, List.getElem?_eq_getElem hlt] at hlast
    exact (Option.some.inj hlast).symm
  have := (List.getElem_inj hnd).1 (hxi.trans hl)
  omega

/-! ### bulk: the closed form of "n sends to distinct pairs, then verify and re-send pair k" equals the model run -/

theorem advance_zero (s : State) : advance 0 s = s := by
  cases s; simp [advance]

def keysOf (c : Cache) : List Str := c.map (·.1)

theorem lookup_none_of_not_mem : ∀ (c : Cache) (k : Str), k ∉ keysOf c → lookup k c = none
  | [], _, _ => rfl
  | (k', e) :: rest, k, h => by
    simp only [keysOf, List.map_cons, List.mem_cons, not_or] at h
    rw [lookup_cons_ne h.1]; exact lookup_none_of_not_mem rest k h.2

theorem not_mem_of_lookup_none : ∀ (c : Cache) (k : Str), lookup k c = none → k ∉ keysOf c
  | [], _, _ => by simp [keysOf]
  | (k', e) :: rest, k, h => by
    by_cases hk : k = k'
    · subst hk; simp at h
    · rw [lookup_cons_ne hk] at h
      simp only [keysOf, List.map_cons, List.mem_cons, not_or]
      exact ⟨hk, not_mem_of_lookup_none rest k h⟩

theorem erase_of_not_mem : ∀ (c : Cache) (k : Str), k ∉ keysOf c → erase k c = c
  | [], _, _ => rfl
  | (k', e) :: rest, k, h => by
    simp only [keysOf, List.map_cons, List.mem_cons, not_or] at h
    have ih := erase_of_not_mem rest k h.2
    unfold erase at ih ⊢
    have : k' ≠ k := fun e => h.1 e.symm
    simp only [ne_eq] at ih
    simp only [List.filter_cons, ne_eq, this, not_false_eq_true, decide_true, if_true, ih]

theorem take_cons_take {α} (x : α) (l : List α) : ∀ n, (x :: l.take n).take n = (x :: l).take n
  | 0 => rfl
  | n + 1 => by
    simp only [List.take_succ_cons, List.cons.injEq, true_and]
    rw [List.take_take]; congr 1; omega

theorem bulkPhone_inj (i j : Nat) (h : bulkPhone i = bulkPhone j) : i = j := by
  have := dec_inj _ _ h; omega

/-- the key of generated pair i under the send format -/
def bulkKey (c : Cfg) (i : Nat) : Str := mkKey c.sendKeyFmt bulkArea (bulkPhone i)

theorem bulkKey_inj (c : Cfg) (hc : Proved c) (i j : Nat) (h : bulkKey c i = bulkKey c j) : i = j := by
  unfold bulkKey at h; rw [hc.1] at h
  exact bulkPhone_inj i j (mkKey_lenPrefix_inj _ _ _ _ h).2

/-- keys of the pairs m−1, …, 1, 0: the recency order after m sends -/
def keysDesc (c : Cfg) : Nat → List Str
  | 0 => []
  | m + 1 => bulkKey c m :: keysDesc c m

theorem mem_keysDesc (c : Cfg) : ∀ (m : Nat) (x : Str), x ∈ keysDesc c m → ∃ j, j < m ∧ x = bulkKey c j
  | 0, _, h => by simp [keysDesc] at h
  | m + 1, x, h => by
    simp only [keysDesc, List.mem_cons] at h
    rcases h with h | h
    · exact ⟨m, by omega, h⟩
    · obtain ⟨j, hj, hx⟩ := mem_keysDesc c m x h; exact ⟨j, by omega, hx⟩

/-- pair k is among the `cap` most recent of n pairs iff it was sent and fewer than `cap` sends followed it -/
theorem mem_take_keysDesc (c : Cfg) (hc : Proved c) (k : Nat) : ∀ (n cap : Nat),
    bulkKey c k ∈ (keysDesc c n).take cap ↔ (k < n ∧ n - 1 - k < cap)
  | 0, cap => by simp [keysDesc]
  | n + 1, 0 => by simp
  | n + 1, cap + 1 => by
    simp only [keysDesc, List.take_succ_cons, List.mem_cons]
    rw [mem_take_keysDesc c hc k n cap]
    constructor
    · rintro (h | h)
      · have := bulkKey_inj c hc _ _ h; omega
      · omega
    · intro h
      by_cases hk : k = n
      · left; rw [hk]
      · right; omega

theorem mem_bulkSends : ∀ (cnt m : Nat) (o : Op), o ∈ bulkSends m cnt → ∃ j, m ≤ j ∧ j < m + cnt ∧ o = .send 0 bulkArea (bulkPhone j)
  | 0, _, _, h => by simp [bulkSends] at h
  | cnt + 1, m, o, h => by
    simp only [bulkSends, List.mem_cons] at h
    rcases h with h | h
    · exact ⟨m, by omega, by omega, h⟩
    · obtain ⟨j, h1, h2, h3⟩ := mem_bulkSends cnt (m + 1) o h; exact ⟨j, by omega, by omega, h3⟩

theorem bulkSends_length : ∀ (cnt m : Nat), (bulkSends m cnt).length = cnt
  | 0, _ => rfl
  | cnt + 1, m => by simp [bulkSends, bulkSends_length cnt]

theorem bulkSends_append : ∀ (a m b : Nat), bulkSends m (a + b) = bulkSends m a ++ bulkSends (m + a) b
  | 0, m, b => by simp [bulkSends]
  | a + 1, m, b => by
    have : a + 1 + b = (a + b) + 1 := by omega
    rw [this]; simp only [bulkSends, List.cons_append, List.cons.injEq, true_and]
    rw [bulkSends_append a (m + 1) b]; congr 2; omega

theorem bulk_now (c : Cfg) (pr : Params) : ∀ (cnt m : Nat) (s : State),
    (final (step c pr) s (bulkSends m cnt)).now = s.now
  | 0, _, _ => rfl
  | cnt + 1, m, s => by
    simp only [bulkSends, final_cons]
    rw [bulk_now c pr cnt (m + 1), step_now]; simp [Op.time]

/-- a send to a pair that is not cached is accepted (bulk parameters: MaxCount 3, mock mode, CodeLen 4) and `Set`s a new entry -/
theorem bulk_send_fresh (c : Cfg) (cap : Nat) (s : State) (i : Nat) (hl : lookup (bulkKey c i) s.cache = none) :
    (send c (bulkParams cap) s bulkArea (bulkPhone i)).2 = .ok (s.nsent + 1) ∧
    (send c (bulkParams cap) s bulkArea (bulkPhone i)).1 =
      ⟨setLRU cap (bulkKey c i) ⟨1, 0, genCode (bulkParams cap) (bulkPhone i) (s.nsent + 1), s.nsent + 1, s.now, s.now⟩ s.cache,
        s.nsent + 1, s.now⟩ := by
  have hl' : lookup (mkKey c.sendKeyFmt bulkArea (bulkPhone i)) s.cache = none := hl
  have hcs : checkSend c (bulkParams cap) s.now none = .ok (0, s.now) := by
    unfold checkSend
    simp only
    split
    · rfl
    · simp [bulkParams]
  unfold send sendK
  simp only [hl', hcs]
  simp [bulkParams, bulkKey]

/-- **after n sends to distinct generated pairs the cache holds exactly the `cap` most recent ones, most recent first** -/
theorem bulk_keys (c : Cfg) (hc : Proved c) (cap : Nat) : ∀ (cnt m : Nat) (s : State),
    keysOf s.cache = (keysDesc c m).take cap → s.nsent = m →
    keysOf (final (step c (bulkParams cap)) s (bulkSends m cnt)).cache = (keysDesc c (m + cnt)).take cap ∧
      (final (step c (bulkParams cap)) s (bulkSends m cnt)).nsent = m + cnt
  | 0, m, s, hk, hn => ⟨hk, hn⟩
  | cnt + 1, m, s, hk, hn => by
    have hnm : bulkKey c m ∉ keysOf s.cache := by
      rw [hk]; intro hm
      obtain ⟨j, hj, hx⟩ := mem_keysDesc c m _ (List.mem_of_mem_take hm)
      have := bulkKey_inj c hc _ _ hx; omega
    have hf := bulk_send_fresh c cap s m (lookup_none_of_not_mem _ _ hnm)
    simp only [bulkSends, final_cons, step, advance_zero]
    have := bulk_keys c hc cap cnt (m + 1) (send c (bulkParams cap) s bulkArea (bulkPhone m)).1
      (by
        rw [hf.2]
        simp only [setLRU, touch, keysOf, List.map_take, List.map_cons]
        have he : erase (bulkKey c m) s.cache = s.cache := erase_of_not_mem _ _ hnm
        rw [he]
        have hk' : List.map (fun x => x.1) s.cache = (keysDesc c m).take cap := hk
        rw [hk', take_cons_take]; rfl)
      (by rw [hf.2]; simp only; omega)
    have e : m + 1 + cnt = m + (cnt + 1) := by omega
    rw [e] at this; exact this

/-- **bulk_spec**: for a proved configuration the closed form the oracle prints for a `bulk <cap> <n> <k>` line IS the result of running the
    model — n sends to distinct generated pairs from the empty cache, then pair k verified with its code and hash, then re-sent: pair k is still
    cached (verify ok, re-send too frequent) iff k < n and fewer than `cap` sends followed it; otherwise it is gone (not exist, re-send accepted) -/
theorem bulk_spec (c : Cfg) (hc : Proved c) (cap n k : Nat) : bulkRun c cap n k = bulkClosed cap n k := by
  unfold bulkRun bulkClosed
  have hfmt : c.sendKeyFmt = c.verifyKeyFmt := by rw [hc.1, hc.2.1]
  have hall := bulk_keys c hc cap n 0 State.init (by simp [keysOf, State.init, keysDesc]) rfl
  simp only [Nat.zero_add] at hall
  by_cases hs : k < n ∧ n - 1 - k < cap
  · -- pair k survives
    rw [if_pos hs]
    obtain ⟨hkn, hlt⟩ := hs
    have hcap : 0 < cap := by omega
    have hsplit : bulkSends 0 n = bulkSends 0 k ++ (.send 0 bulkArea (bulkPhone k) :: bulkSends (k + 1) (n - 1 - k)) := by
      have e : n = k + (1 + (n - 1 - k)) := by omega
      conv => lhs; rw [e]
      rw [bulkSends_append k 0 (1 + (n - 1 - k))]
      have e2 : 1 + (n - 1 - k) = (n - 1 - k) + 1 := by omega
      rw [e2]; simp [bulkSends]
    have hpre := bulk_keys c hc cap k 0 State.init (by simp [keysOf, State.init, keysDesc]) rfl
    simp only [Nat.zero_add] at hpre
    generalize hsk : final (step c (bulkParams cap)) State.init (bulkSends 0 k) = sk at hpre
    have hnow_k : sk.now = 0 := by rw [← hsk, bulk_now]; rfl
    have hnm : bulkKey c k ∉ keysOf sk.cache := by
      rw [hpre.1]; intro hm
      obtain ⟨j, hj, hx⟩ := mem_keysDesc c k _ (List.mem_of_mem_take hm)
      have := bulkKey_inj c hc _ _ hx; omega
    have hf := bulk_send_fresh c cap sk k (lookup_none_of_not_mem _ _ hnm)
    have hacc : (send c (bulkParams cap) sk bulkArea (bulkPhone k)).2.accepted = some (k + 1) := by
      rw [hf.1, hpre.2]; rfl
    have hfinal : final (step c (bulkParams cap)) State.init (bulkSends 0 n) =
        final (step c (bulkParams cap)) (send c (bulkParams cap) sk bulkArea (bulkPhone k)).1 (bulkSends (k + 1) (n - 1 - k)) := by
      rw [hsplit, final_append, hsk, final_cons]; simp only [step, advance_zero]
    have hns : ∀ o ∈ bulkSends (k + 1) (n - 1 - k), o.isSend = true → o.key c ≠ mkKey c.sendKeyFmt bulkArea (bulkPhone k) := by
      intro o ho _ hkey
      obtain ⟨j, h1, _, rfl⟩ := mem_bulkSends _ _ o ho
      have := bulkKey_inj c hc j k hkey; omega
    have hoth : othersOf c (mkKey c.sendKeyFmt bulkArea (bulkPhone k)) (bulkSends (k + 1) (n - 1 - k)) ≤ n - 1 - k := by
      unfold othersOf
      exact Nat.le_trans (List.length_filter_le _ _) (by rw [bulkSends_length]; exact Nat.le_refl _)
    have hp0 := send_accepted_pos0 c (bulkParams cap) hcap sk bulkArea (bulkPhone k) (k + 1) hacc
    have hev : noEvict c (bulkParams cap) (mkKey c.sendKeyFmt bulkArea (bulkPhone k))
        (send c (bulkParams cap) sk bulkArea (bulkPhone k)).1 (bulkSends (k + 1) (n - 1 - k)) = true := by
      apply noEvict_of_few_others; rw [hp0]; simp only [bulkParams]; omega
    have hver0 : verifiesOf c (mkKey c.sendKeyFmt bulkArea (bulkPhone k)) (bulkSends (k + 1) (n - 1 - k)) = 0 := by
      unfold verifiesOf
      rw [List.length_eq_zero_iff, List.filter_eq_nil_iff]
      intro o ho
      obtain ⟨j, _, _, rfl⟩ := mem_bulkSends _ _ o ho
      simp [Op.isSend]
    have hv := vc_send_then_verify_key c (bulkParams cap) hfmt hcap sk bulkArea (bulkPhone k) (k + 1) hacc
      (bulkSends (k + 1) (n - 1 - k)) hns hev (by rw [hver0]; simp [bulkParams]) 0
    rw [advance_zero, ← hfinal] at hv
    have hnow_n : (final (step c (bulkParams cap)) State.init (bulkSends 0 n)).now = 0 := by rw [bulk_now]; rfl
    rw [hnow_n, hnow_k, hc.2.2.2.2.2] at hv
    have hv' : (verify c (bulkParams cap) (final (step c (bulkParams cap)) State.init (bulkSends 0 n)) bulkArea (bulkPhone k)
        (genCode (bulkParams cap) (bulkPhone k) (k + 1)) (k + 1)).2 = .ok := by
      rw [hv]; simp [GtCmp.holds, bulkParams]
    -- the re-send, after the verify
    let vop : Op := .verify 0 bulkArea (bulkPhone k) (genCode (bulkParams cap) (bulkPhone k) (k + 1)) (k + 1)
    have hvkey : vop.key c = mkKey c.sendKeyFmt bulkArea (bulkPhone k) := by simp [vop, Op.key, hfmt]
    have hns2 : ∀ o ∈ bulkSends (k + 1) (n - 1 - k) ++ [vop], o.isSend = true → o.key c ≠ mkKey c.sendKeyFmt bulkArea (bulkPhone k) := by
      intro o ho hsd
      rcases List.mem_append.1 ho with h | h
      · exact hns o h hsd
      · simp at h; subst h; simp [vop, Op.isSend] at hsd
    have hoth2 : othersOf c (mkKey c.sendKeyFmt bulkArea (bulkPhone k)) (bulkSends (k + 1) (n - 1 - k) ++ [vop]) ≤ n - 1 - k := by
      unfold othersOf at hoth ⊢
      rw [List.filter_append, List.length_append]
      have : (List.filter (fun o => decide (o.key c ≠ mkKey c.sendKeyFmt bulkArea (bulkPhone k))) [vop]).length = 0 := by
        simp [hvkey]
      omega
    have hev2 : noEvict c (bulkParams cap) (mkKey c.sendKeyFmt bulkArea (bulkPhone k))
        (send c (bulkParams cap) sk bulkArea (bulkPhone k)).1 (bulkSends (k + 1) (n - 1 - k) ++ [vop]) = true := by
      apply noEvict_of_few_others; rw [hp0]; simp only [bulkParams]; omega
    have hr := vc_send_limits_min_interval_key c (bulkParams cap) hcap sk bulkArea (bulkPhone k) (k + 1) hacc
      (bulkSends (k + 1) (n - 1 - k) ++ [vop]) hns2 hev2 0
    have hfin2 : final (step c (bulkParams cap)) (send c (bulkParams cap) sk bulkArea (bulkPhone k)).1 (bulkSends (k + 1) (n - 1 - k) ++ [vop]) =
        (verify c (bulkParams cap) (final (step c (bulkParams cap)) State.init (bulkSends 0 n)) bulkArea (bulkPhone k)
          (genCode (bulkParams cap) (bulkPhone k) (k + 1)) (k + 1)).1 := by
      rw [final_append, ← hfinal]; simp only [final_cons, final_nil, vop, step, advance_zero]
    rw [advance_zero, hfin2] at hr
    have hnow_v : (verify c (bulkParams cap) (final (step c (bulkParams cap)) State.init (bulkSends 0 n)) bulkArea (bulkPhone k)
          (genCode (bulkParams cap) (bulkPhone k) (k + 1)) (k + 1)).1.now = 0 := by
      have := step_now c (bulkParams cap) (final (step c (bulkParams cap)) State.init (bulkSends 0 n)) vop
      simp only [vop, step, advance_zero, Op.time] at this
      rw [this, hnow_n]; rfl
    rw [hnow_v, hnow_k, hc.2.2.2.1] at hr
    have hr' := hr.2 (by simp [LtCmp.holds, bulkParams])
    simp only [hv', hr']
  · -- pair k is not cached: never sent, or evicted
    rw [if_neg hs]
    have hnm : bulkKey c k ∉ keysOf (final (step c (bulkParams cap)) State.init (bulkSends 0 n)).cache := by
      rw [hall.1]; exact fun hm => hs ((mem_take_keysDesc c hc k n cap).1 hm)
    have hl := lookup_none_of_not_mem _ _ hnm
    have hl' : lookup (mkKey c.verifyKeyFmt bulkArea (bulkPhone k))
        (final (step c (bulkParams cap)) State.init (bulkSends 0 n)).cache = none := by rw [← hfmt]; exact hl
    have hv : verify c (bulkParams cap) (final (step c (bulkParams cap)) State.init (bulkSends 0 n)) bulkArea (bulkPhone k)
        (genCode (bulkParams cap) (bulkPhone k) (k + 1)) (k + 1) =
        (final (step c (bulkParams cap)) State.init (bulkSends 0 n), .notExist) := by
      unfold verify; exact verifyK_none _ _ _ _ _ _ hl'
    have hf := bulk_send_fresh c cap _ k hl
    simp only [hv, hf.1, hall.2]

/-! ### non-vacuity: concrete non-trivial instances of the hypotheses -/

def cfgFixed : Cfg := ⟨.lenPrefix, .lenPrefix, .len, .lt, .gt, .gt⟩
def cfgDash : Cfg := ⟨.dashJoin, .dashJoin, .len, .lt, .gt, .gt⟩
def cfgOld : Cfg := ⟨.dashJoin, .plain, .lenMinus1, .lt, .gt, .gt⟩
/-- CacheSize 1000, real sender, 6 digits, MaxCount 1, MaxVerifyCount 2, TTL 300 000 ms, MinInterval 0, window 10^9 ms -/
def prStd : Params := ⟨1000, false, 6, 1, 2, 300000, 0, 1000000000, false⟩
def prMock : Params := ⟨1000, true, 2, 1, 2, 300000, 0, 1000000000, false⟩
/-- TTL 5 ms, MinInterval 3 ms, window 10 ms, MaxCount 1 -/
def prTimed : Params := ⟨1000, false, 6, 1, 5, 5, 3, 10, false⟩

example : Proved cfgFixed := by decide
example : ¬ Proved cfgDash := by decide
example : ¬ Proved cfgOld := by decide

/-- the keys: decimal length of the area code, ':', area code, phone -/
example : mkKey .lenPrefix ['1','-','2'] ['3'] = ['3',':','1','-','2','3'] ∧
    mkKey .lenPrefix ['1'] ['2','-','3'] = ['1',':','1','2','-','3'] ∧ mkKey .lenPrefix [] [] = ['0',':'] := by decide
example : dec 1234567890123 = "1234567890123".toList := by decide

/-- byte strings: "é" is the two bytes C3 A9. The pairs ("é","5") and ("\xc3","\xa95") are distinct and get distinct keys (a length prefix
    counting characters instead of bytes would give both `1:é5`); `mkKey_lenPrefix_inj` / `vc_other_pair_rejected` cover them like any strings -/
def bC3 : Char := Char.ofNat 0xC3
def bA9 : Char := Char.ofNat 0xA9
example : mkKey .lenPrefix [bC3, bA9] ['5'] = ['2', ':', bC3, bA9, '5'] ∧ mkKey .lenPrefix [bC3] [bA9, '5'] = ['1', ':', bC3, bA9, '5'] ∧
    mkKey .lenPrefix [bC3, bA9] ['5'] ≠ mkKey .lenPrefix [bC3] [bA9, '5'] := by decide
example : (outs (step cfgFixed { prMock with codeLen := 1 }) State.init
    [.send 0 [bC3, bA9] ['5'], .verify 0 [bC3] [bA9, '5'] (.lit ['5']) 1, .verify 0 [bC3, bA9] ['5'] (.lit ['5']) 1]) =
    [.send (.ok 1), .verify .notExist, .verify .ok] := by decide
/-- a mock code is the last CodeLen BYTES of the phone: it may start inside a multi-byte character -/
example : mockCode ['7', bC3, bA9] 1 = [bA9] ∧ mockCode [bC3, bA9] 3 = ['0', bC3, bA9] := by decide

/-- `bulk_spec` instances (run on the model by `decide`): capacity 3, 5 sends — pairs 2, 3, 4 survive, pairs 0 and 1 are gone -/
example : bulkRun cfgFixed 3 5 2 = (.ok, .tooFreq) ∧ bulkRun cfgFixed 3 5 1 = (.notExist, .ok 6) ∧ bulkRun cfgFixed 3 5 7 = (.notExist, .ok 6) := by decide
example : bulkClosed 100000 70000 0 = (.ok, .tooFreq) ∧ bulkClosed 65536 70000 0 = (.notExist, .ok 70001) := by decide

/-- `vc_send_then_verify`: after a send to ("1-2","3"), a wrong guess, and traffic on ("1","2-3") — the pair that shares the
    dashed key — the code still verifies and the other pair is refused; hypotheses hold (one attempt < 2, 2 others < 1000) -/
example : (outs (step cfgFixed prStd) State.init
    [.send 0 ['1','-','2'] ['3'], .verify 10 ['1','-','2'] ['3'] (.lit ['x']) 1, .send 20 ['1'] ['2','-','3'],
     .verify 30 ['1'] ['2','-','3'] (.sym 1) 1, .verify 300000 ['1','-','2'] ['3'] (.sym 1) 1]) =
    [.send (.ok 1), .verify .notMatch, .send (.ok 2), .verify .notMatch, .verify .ok] := by decide

example : noEvict cfgFixed prStd (mkKey .lenPrefix ['1','-','2'] ['3'])
    (send cfgFixed prStd State.init ['1','-','2'] ['3']).1
    [.verify 10 ['1','-','2'] ['3'] (.lit ['x']) 1, .send 20 ['1'] ['2','-','3'], .verify 30 ['1'] ['2','-','3'] (.sym 1) 1] = true := by
  decide

/-- the lifetime boundary (TTL 5 ms, sent at 100): verified at 104 and at 105 ⇒ ok, at 106 ⇒ timeout; a reading that goes back is ignored -/
example : (outs (step cfgFixed prTimed) State.init
    [.send 100 ['1'] ['2'], .verify 104 ['1'] ['2'] (.sym 1) 1, .verify 105 ['1'] ['2'] (.sym 1) 1,
     .verify 106 ['1'] ['2'] (.sym 1) 1, .verify 50 ['1'] ['2'] (.sym 1) 1]) =
    [.send (.ok 1), .verify .ok, .verify .ok, .verify .timeout, .verify .timeout] := by decide

/-- the minimum-interval boundary (3 ms, sent at 100): a send at 102 is too frequent, at 103 it is accepted; the first send never is -/
example : (outs (step cfgFixed prTimed) State.init
    [.send 100 ['1'] ['2'], .send 102 ['1'] ['2'], .send 103 ['1'] ['2']]) =
    [.send (.ok 1), .send .tooFreq, .send (.ok 2)] := by decide

/-- the window boundary (10 ms, MaxCount 1, window starts at 100): sends at 100 and 104 fill it, 110 is still inside (refused),
    111 starts a new window -/
example : (outs (step cfgFixed prTimed) State.init
    [.send 100 ['1'] ['2'], .send 104 ['1'] ['2'], .send 110 ['1'] ['2'], .send 111 ['1'] ['2'], .send 115 ['1'] ['2'],
     .send 119 ['1'] ['2']]) =
    [.send (.ok 1), .send (.ok 2), .send .countLimit, .send (.ok 3), .send (.ok 4), .send .countLimit] := by decide

example : winGhost cfgFixed prTimed (mkKey .lenPrefix ['1'] ['2']) State.init
    [.send 100 ['1'] ['2'], .send 104 ['1'] ['2'], .send 110 ['1'] ['2'], .send 111 ['1'] ['2'], .send 115 ['1'] ['2']] none =
    some (111, 2) := by decide

/-- `vc_resend_refused_any_interleaving`: two interleavings of the re-sends [r, r] with another caller's [send B, verify A wrong] — both re-sends refused -/
example : sendOutsTo cfgFixed { prStd with minInterval := 1000 } (mkKey .lenPrefix ['1'] ['2']) (send cfgFixed { prStd with minInterval := 1000 } State.init ['1'] ['2']).1
    [.send 0 ['1'] ['2'], .send 0 ['1'] ['3'], .send 0 ['1'] ['2'], .verify 0 ['1'] ['2'] (.lit ['x']) 1] = [.tooFreq, .tooFreq] ∧
  sendOutsTo cfgFixed { prStd with minInterval := 1000 } (mkKey .lenPrefix ['1'] ['2']) (send cfgFixed { prStd with minInterval := 1000 } State.init ['1'] ['2']).1
    [.send 0 ['1'] ['3'], .verify 0 ['1'] ['2'] (.lit ['x']) 1, .send 0 ['1'] ['2'], .send 0 ['1'] ['2']] = [.tooFreq, .tooFreq] := by decide
example : Interleave [1, 2] [10, 20] [1, 10, 2, 20] := .left (.right (.left (.right .nil)))

/-- `vc_attempts_bounded` / `vc_attempts_exhausted`: MaxVerifyCount = 2 — two wrong guesses, then the right code is refused;
    `vc_send_resets_attempts`: a new send makes the new code verify -/
example : (outs (step cfgFixed prStd) State.init
    [.send 0 ['1'] ['2','3'], .verify 1 ['1'] ['2','3'] (.lit ['x']) 1, .verify 2 ['1'] ['2','3'] (.lit ['x']) 1,
     .verify 3 ['1'] ['2','3'] (.sym 1) 1, .send 4 ['1'] ['2','3'], .verify 5 ['1'] ['2','3'] (.sym 2) 2]) =
    [.send (.ok 1), .verify .notMatch, .verify .notMatch, .verify .retryLimit, .send (.ok 2), .verify .ok] := by decide

/-- MaxCount = 1 admits two sends per window, the third is refused -/
example : (outs (step cfgFixed prStd) State.init [.send 0 [] ['5'], .send 0 [] ['5'], .send 0 [] ['5']]) =
    [.send (.ok 1), .send (.ok 2), .send .countLimit] := by decide

/-- mock code: last two characters / left padding; a failing sender still stores the code and returns the hash;
    a negative CodeLen: empty code with the real sender, panic in mock mode -/
example : mockCode ['5','5','5','1','2'] 2 = ['1','2'] ∧ mockCode ['7'] 3 = ['0','0','7'] := by decide
example : (outs (step cfgFixed { prStd with smsFails := true }) State.init
    [.send 0 ['1'] ['2','3'], .verify 0 ['1'] ['2','3'] (.sym 1) 1]) = [.send (.smsFail 1), .verify .ok] := by decide
example : (outs (step cfgFixed { prStd with codeLen := -1 }) State.init
    [.send 0 ['1'] ['2','3'], .verify 0 ['1'] ['2','3'] (.lit []) 1]) = [.send (.ok 1), .verify .ok] := by decide
example : (outs (step cfgFixed { prMock with codeLen := -1 }) State.init [.send 0 ['1'] ['2','3']]) = [.send .panic] := by decide

example : genNonce .len ['a','b','c'] 3 [2, 5, 0] = some ['c','c','a'] := by decide
example : (Code.sym 1).text .len prStd (fun _ => [9, 19, 0, 5, 3, 7]) = some ['9','9','0','5','3','7'] := by decide
example : WF (final (step cfgFixed prStd) State.init [.send 0 ['1'] ['2','3']]) := wf_reachable _ _ _

/-! ### witnesses -/

/-- FIXED (cacheKey) — format `"%s-%s"` in both methods: ("1-2","3") and ("1","2-3") share the key `1-2-3`; the code
    sent to one pair is accepted for the other, to which nothing was sent -/
theorem witness_dashJoin_collision :
    mkKey .dashJoin ['1','-','2'] ['3'] = mkKey .dashJoin ['1'] ['2','-','3'] ∧
    (outs (step cfgDash { prMock with codeLen := 1 }) State.init
      [.send 0 ['1','-','2'] ['3'], .verify 0 ['1'] ['2','-','3'] (.lit ['3']) 1]) = [.send (.ok 1), .verify .ok] := by decide

theorem not_other_pair_rejected_dashJoin :
    ¬ (∀ (a p a' p' : Str) (code : Code), (a', p') ≠ (a, p) →
        (verify cfgDash { prMock with codeLen := 1 } (send cfgDash { prMock with codeLen := 1 } State.init a p).1 a' p' code 1).2 ≠ .ok) := by
  intro h
  exact h ['1','-','2'] ['3'] ['1'] ['2','-','3'] (.lit ['3']) (by decide) (by decide)

/-- `<=` instead of `<` in the minimum-interval test differs exactly at the boundary: a send exactly MinInterval (3 ms) after the
    previous one is refused, although it is not closer than the interval -/
theorem witness_minInterval_le :
    (outs (step { cfgFixed with minIntervalCmp := .le } prTimed) State.init [.send 100 ['1'] ['2'], .send 103 ['1'] ['2']]) =
      [.send (.ok 1), .send .tooFreq] ∧
    (outs (step cfgFixed prTimed) State.init [.send 100 ['1'] ['2'], .send 103 ['1'] ['2']]) = [.send (.ok 1), .send (.ok 2)] := by decide

/-- `>=` instead of `>` in the lifetime test: a verify exactly TTL (5 ms) after the send times out, although the lifetime is not over -/
theorem witness_ttl_ge :
    (outs (step { cfgFixed with ttlCmp := .ge } prTimed) State.init [.send 100 ['1'] ['2'], .verify 105 ['1'] ['2'] (.sym 1) 1]) =
      [.send (.ok 1), .verify .timeout] ∧
    (outs (step cfgFixed prTimed) State.init [.send 100 ['1'] ['2'], .verify 105 ['1'] ['2'] (.sym 1) 1]) =
      [.send (.ok 1), .verify .ok] := by decide

/-- `>=` instead of `>` in the window test: a send exactly CounterDuration (10 ms) after the window start opens a new window, so a
    third send is accepted where the window as coded still refuses it -/
theorem witness_window_ge :
    (outs (step { cfgFixed with windowCmp := .ge } prTimed) State.init
      [.send 100 ['1'] ['2'], .send 104 ['1'] ['2'], .send 110 ['1'] ['2']]) = [.send (.ok 1), .send (.ok 2), .send (.ok 3)] ∧
    (outs (step cfgFixed prTimed) State.init
      [.send 100 ['1'] ['2'], .send 104 ['1'] ['2'], .send 110 ['1'] ['2']]) = [.send (.ok 1), .send (.ok 2), .send .countLimit] := by decide

/-- OBSERVATION — a bounded cache forgets: with CacheSize 2, sends to two other pairs evict the entry; the sent code is then
    `notExist`, and a second send to the same pair inside the minimum interval (1000 ms) is accepted again -/
theorem witness_eviction_forgets :
    (outs (step cfgFixed { prStd with cap := 2, minInterval := 1000 }) State.init
      [.send 0 ['1'] ['1'], .send 1 ['1'] ['1'], .send 2 ['1'] ['2'], .send 3 ['1'] ['3'],
       .verify 4 ['1'] ['1'] (.sym 1) 1, .send 5 ['1'] ['1']]) =
      [.send (.ok 1), .send .tooFreq, .send (.ok 2), .send (.ok 3), .verify .notExist, .send (.ok 4)] := by decide

/-- a verify (`Get`) promotes, a refused send (`Peek`) does not -/
theorem witness_lru_order :
    (outs (step cfgFixed { prStd with cap := 2 }) State.init
      [.send 0 ['1'] ['1'], .send 0 ['1'] ['2'], .verify 0 ['1'] ['1'] (.lit ['x']) 0, .send 0 ['1'] ['3'],
       .verify 0 ['1'] ['1'] (.sym 1) 1, .verify 0 ['1'] ['2'] (.sym 2) 2]) =
      [.send (.ok 1), .send (.ok 2), .verify .notMatch, .send (.ok 3), .verify .ok, .verify .notExist] := by decide

/-- FIXED (afdf9f1) — formats `"%s-%s"` for send, `"%s%s"` for verify: the code just sent is answered `notExist` -/
theorem witness_key_mismatch :
    (outs (step cfgOld prStd) State.init [.send 0 ['8','6'] ['5','5','5'], .verify 0 ['8','6'] ['5','5','5'] (.sym 1) 1]) =
      [.send (.ok 1), .verify .notExist] := by decide

/-- were both formats `"%s%s"`, (1,23) and (12,3) would share a key: the code sent to one verifies the other -/
theorem witness_plain_plain_collision :
    (outs (step { cfgFixed with sendKeyFmt := .plain, verifyKeyFmt := .plain } prStd) State.init
      [.send 0 ['1'] ['2','3'], .verify 0 ['1','2'] ['3'] (.sym 1) 1]) = [.send (.ok 1), .verify .ok] := by decide

/-- FIXED (1eca911) — bound `fn(bSize - 1)`: whatever the source returns (here: every residue), '9' is never produced -/
theorem witness_last_char_unreachable :
    ∀ v ∈ List.range 30, genNonce .lenMinus1 "0123456789".toList 1 [v] ≠ some ['9'] := by decide

theorem witness_last_char_reachable_when_fixed :
    genNonce .len "0123456789".toList 1 [9] = some ['9'] := by decide

/-- a one-character alphabet makes `fn(bSize - 1)` panic (`Intn(0)`) -/
theorem witness_single_char_panics : genNonce .lenMinus1 ['a'] 1 [0] = none := by decide

theorem not_surjective_lenMinus1 :
    ¬ (∀ x ∈ "0123456789".toList, ∃ vals, genNonce cfgOld.nonceBound "0123456789".toList 1 vals = some [x]) := by
  intro h
  obtain ⟨vals, hv⟩ := h '9' (by decide)
  exact nonce_lenMinus1_never_last "0123456789".toList (by decide) 1 vals ['9'] hv '9' (by decide) (by simp)

end Nv.C19
