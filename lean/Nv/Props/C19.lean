import Nv.Model.C19
import Nv.Proofs.C19
/-!
C19 — property theorems for `vcode` and `genNonceStr` (model: `Nv.Model.C19`).

Histories are arbitrary lists of `Op` run with `Nv.final (step c pr)`; states are arbitrary unless a
hypothesis says otherwise.  Theorems stated on cache keys (`Op.key c`) hold for *every* configuration;
`key_eq_iff_pair` (Proofs) turns a key into the (area, phone) pair for `Proved c` — for ALL strings, because the
length-prefixed key is injective (`mkKey_lenPrefix_inj`).  `Proved c` = both key formats length-prefixed, nonce
bound = length.  The cache is a bounded LRU: where a theorem needs an entry to survive, it says so with the
decidable hypothesis `noEvict` (the key is never evicted during the history), which `noEvict_of_few_others`
discharges from "fewer operations on other keys than the capacity".
-/
namespace Nv.C19

/-- number of verify operations addressing key `k` -/
def verifiesOf (c : Cfg) (k : Str) (ops : List Op) : Nat :=
  (ops.filter (fun o => !o.isSend && decide (o.key c = k))).length

/-- number of operations addressing another key than `k` -/
def othersOf (c : Cfg) (k : Str) (ops : List Op) : Nat :=
  (ops.filter (fun o => decide (o.key c ≠ k))).length

def present (k : Str) (s : State) : Bool := (lookup k s.cache).isSome

/-- the binding of `k` is never evicted during the history (it may be absent, created, overwritten — not lost) -/
def noEvict (c : Cfg) (pr : Params) (k : Str) : State → List Op → Bool
  | _, [] => true
  | s, o :: os => (!present k s || present k (step c pr s o).1) && noEvict c pr k (step c pr s o).1 os

/-! ### eviction: a sufficient, purely syntactic condition -/

theorem step_same_key_pos (c : Cfg) (pr : Params) (hcap : 0 < pr.cap) (s : State) (o : Op) (k : Str)
    (hk : o.key c = k) :
    (present k s = true → present k (step c pr s o).1 = true) ∧
      posOr0 k (step c pr s o).1.cache ≤ posOr0 k s.cache := by
  cases o with
  | send a p =>
    have hk' : mkKey c.sendKeyFmt a p = k := hk
    simp only [step, send, hk']
    rcases sendK_cases pr s k p with ⟨_, h2⟩ | ⟨cnt, _, h2, _⟩
    · rw [h2]; exact ⟨id, Nat.le_refl _⟩
    · rw [h2]
      have hl := lookup_setLRU_self k pr.cap hcap ⟨cnt + 1, 0, genCode pr p (s.nsent + 1), s.nsent + 1⟩ s.cache
      refine ⟨fun _ => by simp [present, hl], ?_⟩
      simp only [posOr0, hl, Option.isSome_some, if_true]
      rw [setLRU, pos_take _ _ _ (by rw [pos_touch_self]; exact hcap), pos_touch_self]
      exact Nat.zero_le _
  | verify a p code hash =>
    have hk' : mkKey c.verifyKeyFmt a p = k := hk
    simp only [step, verify, hk']
    cases hl : lookup k s.cache with
    | none => rw [verifyK_none _ _ _ _ _ hl]; exact ⟨id, Nat.le_refl _⟩
    | some e =>
      rw [verifyK_some _ _ _ _ _ e hl]
      refine ⟨fun _ => by simp [present], ?_⟩
      simp [posOr0, pos_touch_self]

theorem step_other_key_pos (c : Cfg) (pr : Params) (s : State) (o : Op) (k : Str) (hk : o.key c ≠ k)
    (hp : present k s = true) (hpos : pos k s.cache + 1 < pr.cap) :
    present k (step c pr s o).1 = true ∧ pos k (step c pr s o).1.cache ≤ pos k s.cache + 1 := by
  have hp' : (lookup k s.cache).isSome = true := hp
  cases o with
  | send a p =>
    have hk' : k ≠ mkKey c.sendKeyFmt a p := fun e => hk e.symm
    simp only [step, send]
    rcases sendK_cases pr s (mkKey c.sendKeyFmt a p) p with ⟨_, h2⟩ | ⟨cnt, _, h2, _⟩
    · rw [h2]; exact ⟨hp, Nat.le_succ _⟩
    · rw [h2]
      have hpt := pos_touch_ne hk' ⟨cnt + 1, 0, genCode pr p (s.nsent + 1), s.nsent + 1⟩ s.cache hp'
      have hlt : (lookup k (touch (mkKey c.sendKeyFmt a p) ⟨cnt + 1, 0, genCode pr p (s.nsent + 1), s.nsent + 1⟩ s.cache)).isSome = true := by
        rw [lookup_touch_ne hk']; exact hp'
      refine ⟨?_, ?_⟩
      · simp only [present, setLRU]
        rw [lookup_take_of_pos _ _ _ hlt (by omega)]; exact hlt
      · simp only [setLRU]; rw [pos_take _ _ _ (by omega)]; exact hpt
  | verify a p code hash =>
    have hk' : k ≠ mkKey c.verifyKeyFmt a p := fun e => hk e.symm
    simp only [step, verify]
    cases hl : lookup (mkKey c.verifyKeyFmt a p) s.cache with
    | none => rw [verifyK_none _ _ _ _ _ hl]; exact ⟨hp, Nat.le_succ _⟩
    | some e =>
      rw [verifyK_some _ _ _ _ _ e hl]
      refine ⟨?_, pos_touch_ne hk' _ _ hp'⟩
      simp only [present]; rw [lookup_touch_ne hk']; exact hp'

/-- **no eviction** whenever the position of the key plus the number of operations on other keys stays below the
    capacity — in particular for every history with fewer than `CacheSize` operations on other keys after a send -/
theorem noEvict_of_few_others (c : Cfg) (pr : Params) (k : Str) : ∀ (ops : List Op) (s : State),
    posOr0 k s.cache + othersOf c k ops < pr.cap → noEvict c pr k s ops = true
  | [], _, _ => rfl
  | o :: os, s, h => by
    have hcap : 0 < pr.cap := by omega
    simp only [noEvict, Bool.and_eq_true, Bool.or_eq_true, Bool.not_eq_true']
    by_cases hk : o.key c = k
    · have ho : othersOf c k (o :: os) = othersOf c k os := by simp [othersOf, hk]
      have := step_same_key_pos c pr hcap s o k hk
      refine ⟨?_, noEvict_of_few_others c pr k os _ (by rw [ho] at h; omega)⟩
      cases hp : present k s with
      | false => exact Or.inl rfl
      | true => exact Or.inr (this.1 hp)
    · have ho : othersOf c k (o :: os) = othersOf c k os + 1 := by simp [othersOf, hk]
      rw [ho] at h
      cases hp : present k s with
      | false =>
        refine ⟨Or.inl rfl, noEvict_of_few_others c pr k os _ ?_⟩
        have hn : lookup k s.cache = none := by
          simp only [present] at hp; cases hl : lookup k s.cache <;> simp_all
        have := step_lookup_other_none c pr s o k hk hn
        simp only [posOr0, this, Option.isSome_none, Bool.false_eq_true, if_false]; omega
      | true =>
        have hpos : posOr0 k s.cache = pos k s.cache := by
          simp only [present] at hp; simp [posOr0, hp]
        rw [hpos] at h
        have := step_other_key_pos c pr s o k hk hp (by omega)
        refine ⟨Or.inr this.1, noEvict_of_few_others c pr k os _ ?_⟩
        have h1 : posOr0 k (step c pr s o).1.cache = pos k (step c pr s o).1.cache := by
          have := this.1; simp only [present] at this; simp [posOr0, this]
        rw [h1]; omega

/-! ### tracking the binding of a key through a history -/

/-- with no send to `k` and no eviction of `k`, the binding of `k` only counts attempts -/
theorem track (c : Cfg) (pr : Params) (k : Str) : ∀ (ops : List Op) (s : State) (e : Entry),
    lookup k s.cache = some e → (∀ o ∈ ops, o.isSend = true → o.key c ≠ k) → noEvict c pr k s ops = true →
    lookup k (final (step c pr) s ops).cache =
      some { e with verifyCount := e.verifyCount + (verifiesOf c k ops : Nat) }
  | [], s, e, hl, _, _ => by simp [verifiesOf, hl]
  | o :: os, s, e, hl, hns, hev => by
    have hns' : ∀ o' ∈ os, o'.isSend = true → o'.key c ≠ k := fun o' h => hns o' (by simp [h])
    simp only [noEvict, Bool.and_eq_true, Bool.or_eq_true, Bool.not_eq_true', present, hl,
      Option.isSome_some, Bool.true_eq_false, false_or] at hev
    by_cases hk : o.key c = k
    · cases o with
      | send a p => exact absurd hk (hns _ (by simp) rfl)
      | verify a p code hash =>
        have hk' : mkKey c.verifyKeyFmt a p = k := hk
        have hs : (step c pr s (.verify a p code hash)).1 =
            ⟨touch k { e with verifyCount := e.verifyCount + 1 } s.cache, s.nsent⟩ := by
          simp only [step, verify, hk']; rw [verifyK_some _ _ _ _ _ e hl]
        rw [final_cons, track c pr k os _ _ (by rw [hs]; exact lookup_touch_self _ _ _) hns' hev.2]
        have : verifiesOf c k (Op.verify a p code hash :: os) = verifiesOf c k os + 1 := by
          simp [verifiesOf, Op.isSend, hk]
        rw [this]; simp only [Option.some.injEq, Entry.mk.injEq, true_and, and_true]; omega
    · have hl' : lookup k (step c pr s o).1.cache = some e := by
        rcases step_lookup_other c pr s o k hk with h1 | h1
        · rw [h1] at hev; simp at hev
        · rw [h1]; exact hl
      rw [final_cons, track c pr k os _ e hl' hns' hev.2]
      have : verifiesOf c k (o :: os) = verifiesOf c k os := by simp [verifiesOf, hk]
      rw [this]

/-! ### vc_send_then_verify -/

/-- key level, every configuration whose two key formats agree: after an accepted send (capacity ≥ 1), any history that
    does not send to that key again, does not evict it and makes fewer than `MaxVerifyCount` attempts against it, the sent
    code with the returned hash verifies (lifetime not over) -/
theorem vc_send_then_verify_key (c : Cfg) (pr : Params) (hfmt : c.sendKeyFmt = c.verifyKeyFmt)
    (httl : pr.ttlExpired = false) (hcap : 0 < pr.cap) (s : State) (a p : Str) (h : Nat)
    (hacc : (send c pr s a p).2.accepted = some h) (ops : List Op)
    (hns : ∀ o ∈ ops, o.isSend = true → o.key c ≠ mkKey c.sendKeyFmt a p)
    (hev : noEvict c pr (mkKey c.sendKeyFmt a p) (send c pr s a p).1 ops = true)
    (hn : (verifiesOf c (mkKey c.sendKeyFmt a p) ops : Int) < pr.maxVerify) :
    (verify c pr (final (step c pr) (send c pr s a p).1 ops) a p (genCode pr p h) h).2 = .ok := by
  unfold send at hacc hev ⊢
  rcases sendK_cases pr s (mkKey c.sendKeyFmt a p) p with ⟨h1, _⟩ | ⟨cnt, h1, h2, _⟩
  · rw [h1] at hacc; cases hacc
  · rw [h1] at hacc; cases hacc
    have hl := track c pr (mkKey c.sendKeyFmt a p) ops (sendK pr s (mkKey c.sendKeyFmt a p) p).1 _
      (by rw [h2]; exact lookup_setLRU_self _ _ hcap _ _) hns hev
    unfold verify
    rw [← hfmt, verifyK_some _ _ _ _ _ _ hl]
    simp only
    rw [checkVerify_ok_iff]
    refine ⟨?_, rfl, rfl, httl⟩
    simp only; omega

/-- verify operations naming the pair (a, p) -/
def verifiesOfPair (a p : Str) (ops : List Op) : Nat :=
  (ops.filter (fun o => !o.isSend && decide (o.pair = (a, p)))).length

/-- operations naming another pair -/
def othersOfPair (a p : Str) (ops : List Op) : Nat :=
  (ops.filter (fun o => decide (o.pair ≠ (a, p)))).length

theorem verifiesOf_eq_pair (c : Cfg) (hc : Proved c) (a p : Str) (ops : List Op) :
    verifiesOf c (mkKey .lenPrefix a p) ops = verifiesOfPair a p ops := by
  unfold verifiesOf verifiesOfPair
  congr 1
  apply List.filter_congr
  intro o _
  have := key_eq_iff_pair c hc o a p
  by_cases h : o.key c = mkKey .lenPrefix a p
  · simp [h, this.1 h]
  · have h' : o.pair ≠ (a, p) := fun e => h (this.2 e)
    simp [h, h']

theorem othersOf_eq_pair (c : Cfg) (hc : Proved c) (a p : Str) (ops : List Op) :
    othersOf c (mkKey .lenPrefix a p) ops = othersOfPair a p ops := by
  unfold othersOf othersOfPair
  congr 1
  apply List.filter_congr
  intro o _
  have := key_eq_iff_pair c hc o a p
  by_cases h : o.key c = mkKey .lenPrefix a p
  · simp [h, this.1 h]
  · have h' : o.pair ≠ (a, p) := fun e => h (this.2 e)
    simp [h, h']

/-- **vc_send_then_verify** (pair level, `Proved c`, ALL strings): a code sent to (a, p) verifies with the returned hash,
    after any history that neither sends to (a, p) again, nor evicts its entry, nor uses up its attempts -/
theorem vc_send_then_verify (c : Cfg) (hc : Proved c) (pr : Params) (httl : pr.ttlExpired = false) (hcap : 0 < pr.cap)
    (s : State) (a p : Str) (h : Nat) (hacc : (send c pr s a p).2.accepted = some h)
    (ops : List Op) (hns : ∀ o ∈ ops, o.isSend = true → o.pair ≠ (a, p))
    (hev : noEvict c pr (mkKey .lenPrefix a p) (send c pr s a p).1 ops = true)
    (hn : (verifiesOfPair a p ops : Int) < pr.maxVerify) :
    (verify c pr (final (step c pr) (send c pr s a p).1 ops) a p (genCode pr p h) h).2 = .ok := by
  have hs : c.sendKeyFmt = .lenPrefix := hc.1
  apply vc_send_then_verify_key c pr (by rw [hc.1, hc.2.1]) httl hcap s a p h hacc ops
  · intro o ho hsend hk
    rw [hs] at hk
    exact hns o ho hsend ((key_eq_iff_pair c hc o a p).1 hk)
  · rw [hs]; exact hev
  · rw [hs, verifiesOf_eq_pair c hc a p ops]; exact hn

/-- the same with the syntactic no-eviction condition: fewer operations on other pairs than the capacity -/
theorem vc_send_then_verify_few_others (c : Cfg) (hc : Proved c) (pr : Params) (httl : pr.ttlExpired = false)
    (s : State) (a p : Str) (h : Nat) (hacc : (send c pr s a p).2.accepted = some h)
    (ops : List Op) (hns : ∀ o ∈ ops, o.isSend = true → o.pair ≠ (a, p))
    (hfew : othersOfPair a p ops < pr.cap) (hn : (verifiesOfPair a p ops : Int) < pr.maxVerify) :
    (verify c pr (final (step c pr) (send c pr s a p).1 ops) a p (genCode pr p h) h).2 = .ok := by
  have hcap : 0 < pr.cap := by omega
  apply vc_send_then_verify c hc pr httl hcap s a p h hacc ops hns _ hn
  apply noEvict_of_few_others
  rw [othersOf_eq_pair c hc a p ops]
  have hs : c.sendKeyFmt = .lenPrefix := hc.1
  have hp0 : posOr0 (mkKey .lenPrefix a p) (send c pr s a p).1.cache = 0 := by
    unfold send at hacc ⊢
    rw [hs] at hacc ⊢
    rcases sendK_cases pr s (mkKey .lenPrefix a p) p with ⟨h1, _⟩ | ⟨cnt, _, h2, _⟩
    · rw [h1] at hacc; cases hacc
    · rw [h2]
      simp only [posOr0, lookup_setLRU_self _ _ hcap, Option.isSome_some, if_true]
      rw [setLRU, pos_take _ _ _ (by rw [pos_touch_self]; exact hcap), pos_touch_self]
  rw [hp0]; omega

/-- immediately after the send (the empty history): needs only `MaxVerifyCount ≥ 1` and `CacheSize ≥ 1` -/
theorem vc_send_then_verify_now (c : Cfg) (hc : Proved c) (pr : Params) (httl : pr.ttlExpired = false)
    (hcap : 0 < pr.cap) (hmax : 1 ≤ pr.maxVerify) (s : State) (a p : Str) (h : Nat)
    (hacc : (send c pr s a p).2.accepted = some h) :
    (verify c pr (send c pr s a p).1 a p (genCode pr p h) h).2 = .ok := by
  have := vc_send_then_verify_key c pr (by rw [hc.1, hc.2.1]) httl hcap s a p h hacc [] (by simp) rfl
    (by simp [verifiesOf]; omega)
  simpa using this

/-! ### vc_wrong_rejected -/

/-- **vc_wrong_rejected** (every state, every configuration): `ok` is returned only if the key is bound to exactly this
    code and this hash, the lifetime is not over and this attempt is within the limit — so any other code, any other
    hash, a missing entry, an expired lifetime or an exhausted counter are all rejected -/
theorem vc_wrong_rejected (c : Cfg) (pr : Params) (s : State) (a p : Str) (code : Code) (hash : Nat)
    (hok : (verify c pr s a p code hash).2 = .ok) :
    ∃ e, lookup (mkKey c.verifyKeyFmt a p) s.cache = some e ∧ e.code = code ∧ e.hash = hash ∧
      pr.ttlExpired = false ∧ e.verifyCount + 1 ≤ pr.maxVerify := by
  unfold verify at hok
  cases hl : lookup (mkKey c.verifyKeyFmt a p) s.cache with
  | none => rw [verifyK_none _ _ _ _ _ hl] at hok; cases hok
  | some e =>
    rw [verifyK_some _ _ _ _ _ e hl] at hok
    have := (checkVerify_ok_iff _ _ _ _).1 hok
    exact ⟨e, rfl, this.2.1, this.2.2.1, this.2.2.2, this.1⟩

theorem vc_expired_rejected (c : Cfg) (pr : Params) (hx : pr.ttlExpired = true) (s : State) (a p : Str)
    (code : Code) (hash : Nat) : (verify c pr s a p code hash).2 ≠ .ok := by
  intro h
  obtain ⟨_, _, _, _, h4, _⟩ := vc_wrong_rejected c pr s a p code hash h
  rw [hx] at h4; cases h4

/-- every stored hash was issued: it is at most the number of accepted sends -/
def WF (s : State) : Prop := ∀ k e, lookup k s.cache = some e → e.hash ≤ s.nsent

/-- hash `h` was issued, and only key `k` may be bound to it -/
def OnlyAt (h : Nat) (k : Str) (s : State) : Prop :=
  h ≤ s.nsent ∧ ∀ k' e, k' ≠ k → lookup k' s.cache = some e → e.hash ≠ h

theorem wf_init : WF State.init := by intro k e h; simp [State.init] at h

theorem wf_step (c : Cfg) (pr : Params) (s : State) (o : Op) (hs : WF s) : WF (step c pr s o).1 := by
  cases o with
  | send a p =>
    simp only [step, send]
    rcases sendK_cases pr s (mkKey c.sendKeyFmt a p) p with ⟨_, h2⟩ | ⟨cnt, _, h2, _⟩
    · rw [h2]; exact hs
    · rw [h2]; intro k e hl
      rcases lookup_setLRU_cases _ _ _ _ _ _ hl with ⟨_, he⟩ | ⟨_, hl'⟩
      · subst he; exact Nat.le_refl _
      · exact Nat.le_succ_of_le (hs k e hl')
  | verify a p code hash =>
    simp only [step, verify]
    cases hl : lookup (mkKey c.verifyKeyFmt a p) s.cache with
    | none => rw [verifyK_none _ _ _ _ _ hl]; exact hs
    | some e0 =>
      rw [verifyK_some _ _ _ _ _ e0 hl]; intro k e hl2
      rcases lookup_touch_cases _ _ _ _ _ hl2 with ⟨_, he⟩ | ⟨_, hl'⟩
      · subst he; exact hs _ e0 hl
      · exact hs k e hl'

theorem wf_reachable (c : Cfg) (pr : Params) (ops : List Op) : WF (final (step c pr) State.init ops) :=
  final_inv (step c pr) WF (fun _ => True) (fun s i h _ => wf_step c pr s i h) ops _ wf_init (fun _ _ => trivial)

theorem onlyAt_step (c : Cfg) (pr : Params) (h : Nat) (k : Str) (s : State) (o : Op)
    (hs : WF s ∧ OnlyAt h k s) : WF (step c pr s o).1 ∧ OnlyAt h k (step c pr s o).1 := by
  refine ⟨wf_step c pr s o hs.1, ?_⟩
  obtain ⟨hwf, hle, hon⟩ := hs
  cases o with
  | send a p =>
    simp only [step, send]
    rcases sendK_cases pr s (mkKey c.sendKeyFmt a p) p with ⟨_, h2⟩ | ⟨cnt, _, h2, _⟩
    · rw [h2]; exact ⟨hle, hon⟩
    · rw [h2]; refine ⟨Nat.le_succ_of_le hle, ?_⟩
      intro k' e hne hl
      rcases lookup_setLRU_cases _ _ _ _ _ _ hl with ⟨_, he⟩ | ⟨_, hl'⟩
      · subst he; simp only; omega
      · exact hon k' e hne hl'
  | verify a p code hash =>
    simp only [step, verify]
    cases hl : lookup (mkKey c.verifyKeyFmt a p) s.cache with
    | none => rw [verifyK_none _ _ _ _ _ hl]; exact ⟨hle, hon⟩
    | some e0 =>
      rw [verifyK_some _ _ _ _ _ e0 hl]; refine ⟨hle, ?_⟩
      intro k' e hne hl2
      rcases lookup_touch_cases _ _ _ _ _ hl2 with ⟨hk, he⟩ | ⟨_, hl'⟩
      · subst he; exact hon _ e0 (hk ▸ hne) hl
      · exact hon k' e hne hl'

/-- **vc_wrong_rejected, other pair** (key level, every configuration, every capacity): the hash returned by an accepted send is,
    after any history whatsoever, never accepted for an operation that addresses another key -/
theorem vc_other_key_rejected (c : Cfg) (pr : Params) (s : State) (hs : WF s) (a p : Str) (h : Nat)
    (hacc : (send c pr s a p).2.accepted = some h) (ops : List Op) (a' p' : Str) (code : Code)
    (hne : mkKey c.verifyKeyFmt a' p' ≠ mkKey c.sendKeyFmt a p) :
    (verify c pr (final (step c pr) (send c pr s a p).1 ops) a' p' code h).2 ≠ .ok := by
  have h0 : WF (send c pr s a p).1 ∧ OnlyAt h (mkKey c.sendKeyFmt a p) (send c pr s a p).1 := by
    unfold send at hacc ⊢
    rcases sendK_cases pr s (mkKey c.sendKeyFmt a p) p with ⟨h1, _⟩ | ⟨cnt, h1, h2, _⟩
    · rw [h1] at hacc; cases hacc
    · rw [h1] at hacc; cases hacc
      refine ⟨?_, ?_⟩
      · have := wf_step c pr s (.send a p) hs; simpa [step, send] using this
      · rw [h2]; refine ⟨Nat.le_refl _, ?_⟩
        intro k' e hk hl
        rcases lookup_setLRU_cases _ _ _ _ _ _ hl with ⟨hk', _⟩ | ⟨_, hl'⟩
        · exact absurd hk' hk
        · have := hs k' e hl'; omega
  have hfin := final_inv (step c pr) (fun s => WF s ∧ OnlyAt h (mkKey c.sendKeyFmt a p) s) (fun _ => True)
    (fun s i hi _ => onlyAt_step c pr h _ s i hi) ops _ h0 (fun _ _ => trivial)
  intro hok
  obtain ⟨e, hl, _, hh, _, _⟩ := vc_wrong_rejected c pr _ a' p' code h hok
  exact hfin.2.2 _ e hne hl hh

/-- pair level, ALL strings: a hash sent to (a, p) never verifies any other pair -/
theorem vc_other_pair_rejected (c : Cfg) (hc : Proved c) (pr : Params) (s : State) (hs : WF s) (a p : Str) (h : Nat)
    (hacc : (send c pr s a p).2.accepted = some h) (ops : List Op) (a' p' : Str) (code : Code)
    (hne : (a', p') ≠ (a, p)) :
    (verify c pr (final (step c pr) (send c pr s a p).1 ops) a' p' code h).2 ≠ .ok := by
  apply vc_other_key_rejected c pr s hs a p h hacc ops a' p' code
  rw [hc.1, hc.2.1]
  intro hk
  have := mkKey_lenPrefix_inj a' a p' p hk
  exact hne (by rw [this.1, this.2])

/-- nothing sent to a key ⇒ `notExist`, after any history that does not send to it -/
theorem vc_nothing_sent_not_exist (c : Cfg) (pr : Params) (k : Str) : ∀ (ops : List Op) (s : State),
    lookup k s.cache = none → (∀ o ∈ ops, o.isSend = true → o.key c ≠ k) →
    lookup k (final (step c pr) s ops).cache = none
  | [], _, h, _ => h
  | o :: os, s, h, hns => by
    have hns' : ∀ o' ∈ os, o'.isSend = true → o'.key c ≠ k := fun o' h => hns o' (by simp [h])
    rw [final_cons]
    apply vc_nothing_sent_not_exist c pr k os _ _ hns'
    by_cases hk : o.key c = k
    · cases o with
      | send a p => exact absurd hk (hns _ (by simp) rfl)
      | verify a p code hash =>
        have hk' : mkKey c.verifyKeyFmt a p = k := hk
        simp only [step, verify, hk']; rw [verifyK_none _ _ _ _ _ h]; exact h
    · exact step_lookup_other_none c pr s o k hk h

/-! ### vc_attempts_bounded, vc_send_resets_attempts -/

def Out.accepted : Out → Bool
  | .send r => r.accepted.isSome
  | .verify _ => false

def Out.isOk : Out → Bool
  | .verify .ok => true
  | _ => false

/-- successful verifies against key `k` since the last accepted send to `k` (`acc` = count so far) -/
def okSince (c : Cfg) (pr : Params) (k : Str) : State → List Op → Nat → Nat
  | _, [], acc => acc
  | s, o :: os, acc =>
    let r := step c pr s o
    okSince c pr k r.1 os
      (if o.key c = k then
        (if o.isSend then (if r.2.accepted then 0 else acc) else (if r.2.isOk then acc + 1 else acc))
      else acc)

theorem okSince_le (c : Cfg) (pr : Params) (k : Str) : ∀ (ops : List Op) (s : State) (acc : Nat),
    (lookup k s.cache = none ∨ (acc : Int) ≤ vcOf s k) → acc ≤ pr.maxVerify.toNat →
    okSince c pr k s ops acc ≤ pr.maxVerify.toNat
  | [], _, _, _, h2 => h2
  | o :: os, s, acc, h1, h2 => by
    simp only [okSince]
    by_cases hk : o.key c = k
    · simp only [hk, if_true]
      cases o with
      | send a p =>
        have hk' : mkKey c.sendKeyFmt a p = k := hk
        simp only [Op.isSend, if_true, step, send, hk']
        rcases sendK_cases pr s k p with ⟨r1, r2⟩ | ⟨cnt, r1, r2, _⟩
        · simp only [Out.accepted, r1, Option.isSome_none, Bool.false_eq_true, if_false, r2]
          exact okSince_le c pr k os s acc h1 h2
        · simp only [Out.accepted, r1, Option.isSome_some, if_true, r2]
          refine okSince_le c pr k os _ 0 ?_ (Nat.zero_le _)
          cases hl : lookup k (setLRU pr.cap k ⟨cnt + 1, 0, genCode pr p (s.nsent + 1), s.nsent + 1⟩ s.cache) with
          | none => exact Or.inl rfl
          | some e' =>
            right
            rcases lookup_setLRU_cases _ _ _ _ _ _ hl with ⟨_, he⟩ | ⟨hne, _⟩
            · simp [vcOf, hl, he]
            · exact absurd rfl hne
      | verify a p code hash =>
        have hk' : mkKey c.verifyKeyFmt a p = k := hk
        simp only [Op.isSend, Bool.false_eq_true, if_false, step, verify, hk']
        cases hl : lookup k s.cache with
        | none =>
          rw [verifyK_none _ _ _ _ _ hl]
          simp only [Out.isOk, Bool.false_eq_true, if_false]
          exact okSince_le c pr k os s acc h1 h2
        | some e =>
          rw [verifyK_some _ _ _ _ _ e hl]
          have hv : (acc : Int) ≤ e.verifyCount := by
            rcases h1 with h1 | h1
            · rw [hl] at h1; cases h1
            · simpa [vcOf, hl] using h1
          simp only
          split
          · rename_i hok
            have hck : checkVerify pr { e with verifyCount := e.verifyCount + 1 } code hash = .ok := by
              revert hok; cases checkVerify pr { e with verifyCount := e.verifyCount + 1 } code hash <;> simp [Out.isOk]
            have := ((checkVerify_ok_iff _ _ _ _).1 hck).1
            simp only at this
            exact okSince_le c pr k os _ (acc + 1) (Or.inr (by simp [vcOf]; omega)) (by omega)
          · exact okSince_le c pr k os _ acc (Or.inr (by simp [vcOf]; omega)) h2
    · simp only [hk, if_false]
      refine okSince_le c pr k os _ acc ?_ h2
      rcases step_lookup_other c pr s o k hk with h3 | h3
      · exact Or.inl h3
      · rcases h1 with h1 | h1
        · left; rw [h3]; exact h1
        · right; simp only [vcOf] at h1 ⊢; rw [h3]; exact h1

/-- **vc_attempts_bounded**, every configuration, every capacity and every history from the empty cache: at any time the
    number of successful verifies against a key since the last accepted send to it is at most `max MaxVerifyCount 0`
    (eviction only deletes the entry; it never lets the count continue) -/
theorem vc_attempts_bounded (c : Cfg) (pr : Params) (k : Str) (ops : List Op) :
    okSince c pr k State.init ops 0 ≤ pr.maxVerify.toNat :=
  okSince_le c pr k ops State.init 0 (Or.inl rfl) (Nat.zero_le _)

/-- once the attempt counter has reached the limit every further verify — right code and hash included — is refused -/
theorem vc_limit_rejects_right_code (pr : Params) (s : State) (key : Str) (e : Entry)
    (hl : lookup key s.cache = some e) (hfull : pr.maxVerify ≤ e.verifyCount) (code : Code) (hash : Nat) :
    (verifyK pr s key code hash).2 = .retryLimit := by
  rw [verifyK_some _ _ _ _ _ e hl]
  simp only [checkVerify]
  rw [if_pos (by omega)]

/-- after an accepted send and `MaxVerifyCount` or more attempts (any codes, any hashes, any interleaving with other keys
    that does not evict the entry), even the right code with the right hash is refused with `retryLimit` -/
theorem vc_attempts_exhausted (c : Cfg) (pr : Params) (hfmt : c.sendKeyFmt = c.verifyKeyFmt) (hcap : 0 < pr.cap)
    (s : State) (a p : Str) (h : Nat) (hacc : (send c pr s a p).2.accepted = some h) (ops : List Op)
    (hns : ∀ o ∈ ops, o.isSend = true → o.key c ≠ mkKey c.sendKeyFmt a p)
    (hev : noEvict c pr (mkKey c.sendKeyFmt a p) (send c pr s a p).1 ops = true)
    (hn : pr.maxVerify ≤ (verifiesOf c (mkKey c.sendKeyFmt a p) ops : Int)) :
    (verify c pr (final (step c pr) (send c pr s a p).1 ops) a p (genCode pr p h) h).2 = .retryLimit := by
  unfold send at hacc hev ⊢
  rcases sendK_cases pr s (mkKey c.sendKeyFmt a p) p with ⟨h1, _⟩ | ⟨cnt, h1, h2, _⟩
  · rw [h1] at hacc; cases hacc
  · have hl := track c pr (mkKey c.sendKeyFmt a p) ops (sendK pr s (mkKey c.sendKeyFmt a p) p).1 _
      (by rw [h2]; exact lookup_setLRU_self _ _ hcap _ _) hns hev
    unfold verify
    rw [← hfmt]
    exact vc_limit_rejects_right_code pr _ _ _ hl (by simp only; omega) _ _

/-- **vc_send_resets_attempts**: an accepted send leaves the key with zero attempts, whatever the counter was before
    (so by `vc_send_then_verify_now` the new code verifies even if the old one was exhausted) -/
theorem vc_send_resets_attempts (c : Cfg) (pr : Params) (hcap : 0 < pr.cap) (s : State) (a p : Str) (h : Nat)
    (hacc : (send c pr s a p).2.accepted = some h) :
    ∃ cnt, lookup (mkKey c.sendKeyFmt a p) (send c pr s a p).1.cache = some ⟨cnt, 0, genCode pr p h, h⟩ := by
  unfold send at hacc ⊢
  rcases sendK_cases pr s (mkKey c.sendKeyFmt a p) p with ⟨h1, _⟩ | ⟨cnt, h1, h2, _⟩
  · rw [h1] at hacc; cases hacc
  · rw [h1] at hacc; cases hacc
    exact ⟨cnt + 1, by rw [h2]; exact lookup_setLRU_self _ _ hcap _ _⟩

/-! ### vc_send_limits -/

/-- accepted sends to key `k` in a history -/
def acceptedSends (c : Cfg) (pr : Params) (k : Str) : State → List Op → Nat
  | _, [] => 0
  | s, o :: os =>
    (if o.isSend && decide (o.key c = k) && (step c pr s o).2.accepted then 1 else 0) +
      acceptedSends c pr k (step c pr s o).1 os

theorem noEvict_cons (c : Cfg) (pr : Params) (k : Str) (s : State) (o : Op) (os : List Op)
    (h : noEvict c pr k s (o :: os) = true) :
    (present k s = true → present k (step c pr s o).1 = true) ∧ noEvict c pr k (step c pr s o).1 os = true := by
  simp only [noEvict, Bool.and_eq_true, Bool.or_eq_true, Bool.not_eq_true'] at h
  refine ⟨fun hp => ?_, h.2⟩
  rcases h.1 with h1 | h1
  · rw [hp] at h1; cases h1
  · exact h1

/-- minimum-interval regime: while a key stays bound, no send to it is accepted -/
theorem sends_blocked_when_bound (c : Cfg) (pr : Params) (hmin : pr.minIntervalBlocks = true) (k : Str) :
    ∀ (ops : List Op) (s : State), present k s = true → noEvict c pr k s ops = true → acceptedSends c pr k s ops = 0
  | [], _, _, _ => rfl
  | o :: os, s, h, hev => by
    have hev' := noEvict_cons c pr k s o os hev
    simp only [acceptedSends]
    rw [sends_blocked_when_bound c pr hmin k os _ (hev'.1 h) hev'.2]
    simp only [Nat.add_zero, ite_eq_right_iff]
    intro hcond
    exfalso
    simp only [Bool.and_eq_true, decide_eq_true_eq] at hcond
    obtain ⟨⟨hs, hk⟩, hacc⟩ := hcond
    cases o with
    | verify a p code hash => cases hs
    | send a p =>
      have hk' : mkKey c.sendKeyFmt a p = k := hk
      simp only [present] at h
      cases hl : lookup k s.cache with
      | none => rw [hl] at h; cases h
      | some e =>
        simp only [step, send, hk', sendK, hl, checkSend_minb pr e hmin, Out.accepted, SendResult.accepted] at hacc
        cases hacc

/-- **vc_send_limits (minimum interval)**: in the regime where the interval never elapses, at most one send per key is
    accepted over any history from any state during which the key is not evicted (capacity ≥ 1) -/
theorem vc_send_limits_min_interval (c : Cfg) (pr : Params) (hmin : pr.minIntervalBlocks = true) (hcap : 0 < pr.cap)
    (k : Str) : ∀ (ops : List Op) (s : State), noEvict c pr k s ops = true → acceptedSends c pr k s ops ≤ 1
  | [], _, _ => Nat.zero_le _
  | o :: os, s, hev => by
    have hev' := noEvict_cons c pr k s o os hev
    simp only [acceptedSends]
    split
    · rename_i hcond
      simp only [Bool.and_eq_true, decide_eq_true_eq] at hcond
      obtain ⟨⟨hs, hk⟩, hacc⟩ := hcond
      have hb : present k (step c pr s o).1 = true := by
        cases o with
        | verify a p code hash => cases hs
        | send a p =>
          have hk' : mkKey c.sendKeyFmt a p = k := hk
          simp only [step, send, hk'] at hacc ⊢
          rcases sendK_cases pr s k p with ⟨r1, _⟩ | ⟨cnt, _, r2, _⟩
          · simp [Out.accepted, r1] at hacc
          · rw [r2]; simp [present, lookup_setLRU_self _ _ hcap]
      rw [sends_blocked_when_bound c pr hmin k os _ hb hev'.2]
      exact Nat.le_refl _
    · have := vc_send_limits_min_interval c pr hmin hcap k os (step c pr s o).1 hev'.2
      omega

theorem step_scOf (c : Cfg) (pr : Params) (s : State) (o : Op) (k : Str)
    (h : ¬ (o.isSend = true ∧ o.key c = k)) (hev : present k s = true → present k (step c pr s o).1 = true) :
    scOf (step c pr s o).1 k = scOf s k := by
  by_cases hk : o.key c = k
  · cases o with
    | send a p => exact absurd ⟨rfl, hk⟩ h
    | verify a p code hash =>
      have hk' : mkKey c.verifyKeyFmt a p = k := hk
      simp only [step, verify, hk', scOf]
      cases hl : lookup k s.cache with
      | none => rw [verifyK_none _ _ _ _ _ hl, hl]
      | some e => rw [verifyK_some _ _ _ _ _ e hl]; simp [scOpt]
  · simp only [scOf]
    rcases step_lookup_other c pr s o k hk with h1 | h1
    · cases hl : lookup k s.cache with
      | none => rw [h1]
      | some e =>
        have := hev (by simp [present, hl])
        simp [present, h1] at this
    · rw [h1]

/-- never-refreshed window: the accepted sends to a key never exceed `MaxCount + 1 − sendCount` while it is not evicted -/
theorem acceptedSends_le (c : Cfg) (pr : Params) (hwin : pr.windowRefreshes = false) (hcap : 0 < pr.cap) (k : Str) :
    ∀ (ops : List Op) (s : State), noEvict c pr k s ops = true →
      acceptedSends c pr k s ops ≤ (pr.maxCount + 1 - scOf s k).toNat
  | [], _, _ => Nat.zero_le _
  | o :: os, s, hev => by
    have hev' := noEvict_cons c pr k s o os hev
    simp only [acceptedSends]
    have ih := acceptedSends_le c pr hwin hcap k os (step c pr s o).1 hev'.2
    split
    · rename_i hcond
      simp only [Bool.and_eq_true, decide_eq_true_eq] at hcond
      obtain ⟨⟨hs, hk⟩, hacc⟩ := hcond
      cases o with
      | verify a p code hash => cases hs
      | send a p =>
        have hk' : mkKey c.sendKeyFmt a p = k := hk
        simp only [step, send, hk'] at hacc ih ⊢
        rcases sendK_cases pr s k p with ⟨r1, _⟩ | ⟨cnt, _, r2, r3⟩
        · simp [Out.accepted, r1] at hacc
        · rw [r2] at ih ⊢
          rcases checkSend_ok_cnt pr _ cnt r3 with ⟨hw, _⟩ | ⟨_, hle, hcnt⟩
          · rw [hwin] at hw; cases hw
          · have hsc : scOf s k = cnt := by simp only [scOf]; rw [hcnt]
            simp only [scOf, lookup_setLRU_self _ _ hcap, scOpt] at ih
            rw [hsc]; omega
    · rename_i hcond
      by_cases hsk : o.isSend = true ∧ o.key c = k
      · -- a refused send to k: the state is unchanged
        cases o with
        | verify a p code hash => cases hsk.1
        | send a p =>
          have hk' : mkKey c.sendKeyFmt a p = k := hsk.2
          simp only [step, send, hk'] at hcond ih ⊢
          rcases sendK_cases pr s k p with ⟨_, r2⟩ | ⟨cnt, r1, _, _⟩
          · rw [r2] at ih ⊢; omega
          · exfalso; apply hcond; simp [Op.isSend, Op.key, hk', Out.accepted, r1]
      · rw [step_scOf c pr s o k hsk hev'.1] at ih; omega

/-- **vc_send_limits (count per window)**: with a window that is never refreshed, at most `MaxCount + 1` sends per key are
    accepted over any history from the empty cache that does not evict the key (the bound the code implements:
    `sendCount > MaxCount`; recorded as an observation in docs/C19.md) -/
theorem vc_send_limits_count (c : Cfg) (pr : Params) (hwin : pr.windowRefreshes = false) (hcap : 0 < pr.cap) (k : Str)
    (ops : List Op) (hev : noEvict c pr k State.init ops = true) :
    acceptedSends c pr k State.init ops ≤ (pr.maxCount + 1).toNat := by
  have := acceptedSends_le c pr hwin hcap k ops State.init hev
  simpa [scOf, scOpt, State.init] using this

/-! ### vc_code_length, nonce_alphabet_surjective -/

theorem mockCode_length (phone : Str) (n : Nat) : (mockCode phone n).length = n := by
  unfold mockCode; split <;> simp <;> omega

/-- **vc_code_length** (mock mode, configured length ≥ 0): the code has exactly `CodeLen` characters -/
theorem vc_code_length (pr : Params) (hm : pr.mock = true) (hlen : 0 ≤ pr.codeLen) (phone : Str) (k : Nat) :
    ∃ t, genCode pr phone k = .lit t ∧ (t.length : Int) = pr.codeLen :=
  ⟨mockCode phone pr.codeLen.toNat, by simp [genCode, hm], by rw [mockCode_length]; omega⟩

theorem genNonce_length (b : NonceBound) (base : Str) (len : Nat) (vals : List Nat) (out : Str)
    (h : genNonce b base len vals = some out) : out.length = len := by
  unfold genNonce at h
  split at h
  · cases h; simp_all
  · split at h
    · cases h
    · cases h; exact nonceLoop_length _ _ _ _

theorem genNonce_some (b : NonceBound) (base : Str) (len : Nat) (vals : List Nat) (hpos : 0 < boundOf b base.length) :
    ∃ out, genNonce b base len vals = some out := by
  unfold genNonce
  split
  · exact ⟨_, rfl⟩
  · split
    · omega
    · exact ⟨_, rfl⟩

theorem boundOf_le (b : NonceBound) (n : Nat) : boundOf b n ≤ n := by cases b <;> simp [boundOf] <;> omega

/-- every character produced lies in the alphabet — more precisely among the `reachable` ones (every bound) -/
theorem genNonce_mem (b : NonceBound) (base : Str) (len : Nat) (vals : List Nat) (out : Str)
    (h : genNonce b base len vals = some out) : ∀ x ∈ out, x ∈ reachable b base ∧ x ∈ base := by
  unfold genNonce at h
  split at h
  · cases h; simp
  · split at h
    · cases h
    · rename_i hpos
      cases h
      intro x hx
      have hb := boundOf_le b base.length
      have := nonceLoop_mem base (boundOf b base.length).toNat (by omega) (by omega) len vals x hx
      exact ⟨this, List.mem_of_mem_take this⟩

/-- **vc_code_length** (real-sender mode, configured length ≥ 0, `Proved c`): whatever the random source returns, the
    code generated at send `k` is `genNonce .len "0123456789" CodeLen (rnd k)`: it exists (no panic), has exactly `CodeLen`
    characters, all of them decimal digits -/
theorem vc_code_length_real (c : Cfg) (hc : Proved c) (pr : Params) (hm : pr.mock = false) (hlen : 0 ≤ pr.codeLen)
    (rnd : Nat → List Nat) (phone : Str) (k : Nat) :
    ∃ t, (genCode pr phone k).text c.nonceBound pr rnd = some t ∧ (t.length : Int) = pr.codeLen ∧ ∀ x ∈ t, x ∈ digits := by
  rw [hc.2.2]
  simp only [genCode, hm, Bool.false_eq_true, if_false]
  split
  · exact ⟨[], rfl, by simp; omega, by simp⟩
  · obtain ⟨out, ho⟩ := genNonce_some .len digits pr.codeLen.toNat (rnd k) (by simp [boundOf, digits])
    refine ⟨out, ho, ?_, fun x hx => (genNonce_mem _ _ _ _ _ ho x hx).2⟩
    rw [genNonce_length _ _ _ _ _ ho]; omega

/-- the characters the oracle prints for a `sample` line are exactly those some random source can produce -/
theorem reachable_iff (b : NonceBound) (base : Str) (x : Char) (hpos : 0 < boundOf b base.length) :
    x ∈ reachable b base ↔ ∃ v, genNonce b base 1 [v] = some [x] := by
  constructor
  · intro h
    obtain ⟨i, hi, hx⟩ := List.mem_take_iff_getElem.1 h
    have hb := boundOf_le b base.length
    have him : i < (boundOf b base.length).toNat := by omega
    have hil : i < base.length := by omega
    have hn : ¬ (boundOf b base.length ≤ 0) := by omega
    refine ⟨i, ?_⟩
    simp [genNonce, hn, nonceLoop, Nat.mod_eq_of_lt him, List.getElem?_eq_getElem hil, hx]
  · rintro ⟨v, hv⟩
    exact (genNonce_mem b base 1 [v] [x] hv x (by simp)).1

/-- **nonce_alphabet_surjective** (`nonceBound = len`): for every position of the alphabet there is a random source that makes
    `genNonceStr` return exactly that character -/
theorem nonce_alphabet_surjective (base : Str) (i : Nat) (hi : i < base.length) :
    genNonce .len base 1 [i] = some [base[i]] := by
  have hne : base ≠ [] := by intro e; simp [e] at hi
  simp [genNonce, boundOf, hne, nonceLoop, Nat.mod_eq_of_lt hi, List.getElem?_eq_getElem hi]

theorem nonce_alphabet_surjective' (c : Cfg) (hc : Proved c) (base : Str) (x : Char) (hx : x ∈ base) :
    ∃ vals, genNonce c.nonceBound base 1 vals = some [x] := by
  obtain ⟨i, hi, rfl⟩ := List.getElem_of_mem hx
  exact ⟨[i], by rw [hc.2.2]; exact nonce_alphabet_surjective base i hi⟩

/-- with the bound `fn(bSize - 1)` the last character of a duplicate-free alphabet is never produced -/
theorem nonce_lenMinus1_never_last (base : Str) (hnd : base.Nodup) (len : Nat) (vals : List Nat) (out : Str)
    (h : genNonce .lenMinus1 base len vals = some out) (x : Char) (hlast : base.getLast? = some x) : x ∉ out := by
  intro hx
  have hr := (genNonce_mem _ _ _ _ _ h x hx).1
  simp only [reachable, boundOf] at hr
  obtain ⟨i, hi, hxi⟩ := List.mem_take_iff_getElem.1 hr
  have hne : base ≠ [] := by intro e; rw [e] at hlast; cases hlast
  have hpos : 0 < base.length := List.length_pos_iff.2 hne
  have hlt : base.length - 1 < base.length := by omega
  have hl : x = base[base.length - 1] := by
    rw [List.getLast?_eq_getElem?, List.getElem?_eq_getElem hlt] at hlast
    exact (Option.some.inj hlast).symm
  have := (List.getElem_inj hnd).1 (hxi.trans hl)
  omega

/-! ### non-vacuity: concrete non-trivial instances of the hypotheses -/

def cfgFixed : Cfg := ⟨.lenPrefix, .lenPrefix, .len⟩
def cfgDash : Cfg := ⟨.dashJoin, .dashJoin, .len⟩
def cfgOld : Cfg := ⟨.dashJoin, .plain, .lenMinus1⟩
/-- CacheSize 1000, real sender, 6 digits, MaxCount 1, MaxVerifyCount 2, never-expiring, never too frequent, window never refreshed -/
def prStd : Params := ⟨1000, false, 6, 1, 2, false, false, false, false⟩
def prMock : Params := ⟨1000, true, 2, 1, 2, false, false, false, false⟩

example : Proved cfgFixed := by decide
example : ¬ Proved cfgDash := by decide
example : ¬ Proved cfgOld := by decide

/-- the keys: decimal length of the area code, ':', area code, phone -/
example : mkKey .lenPrefix ['1','-','2'] ['3'] = ['3',':','1','-','2','3'] ∧
    mkKey .lenPrefix ['1'] ['2','-','3'] = ['1',':','1','2','-','3'] ∧ mkKey .lenPrefix [] [] = ['0',':'] := by decide
example : dec 1234567890123 = "1234567890123".toList := by decide

/-- `vc_send_then_verify`: after a send to ("1-2","3"), a wrong guess, and traffic on ("1","2-3") — the pair that shares the
    dashed key — the code still verifies and the other pair is refused; hypotheses hold (one attempt < 2, 2 others < 1000) -/
example : (outs (step cfgFixed prStd) State.init
    [.send ['1','-','2'] ['3'], .verify ['1','-','2'] ['3'] (.lit ['x']) 1, .send ['1'] ['2','-','3'],
     .verify ['1'] ['2','-','3'] (.sym 1) 1, .verify ['1','-','2'] ['3'] (.sym 1) 1]) =
    [.send (.ok 1), .verify .notMatch, .send (.ok 2), .verify .notMatch, .verify .ok] := by decide

example : noEvict cfgFixed prStd (mkKey .lenPrefix ['1','-','2'] ['3'])
    (send cfgFixed prStd State.init ['1','-','2'] ['3']).1
    [.verify ['1','-','2'] ['3'] (.lit ['x']) 1, .send ['1'] ['2','-','3'], .verify ['1'] ['2','-','3'] (.sym 1) 1] = true := by
  decide

/-- `vc_attempts_bounded` / `vc_attempts_exhausted`: MaxVerifyCount = 2 — two wrong guesses, then the right code is refused;
    `vc_send_resets_attempts`: a new send makes the new code verify -/
example : (outs (step cfgFixed prStd) State.init
    [.send ['1'] ['2','3'], .verify ['1'] ['2','3'] (.lit ['x']) 1, .verify ['1'] ['2','3'] (.lit ['x']) 1,
     .verify ['1'] ['2','3'] (.sym 1) 1, .send ['1'] ['2','3'], .verify ['1'] ['2','3'] (.sym 2) 2]) =
    [.send (.ok 1), .verify .notMatch, .verify .notMatch, .verify .retryLimit, .send (.ok 2), .verify .ok] := by decide

/-- `vc_send_limits_count`: MaxCount = 1 admits two sends, the third is refused; `vc_send_limits_min_interval` -/
example : (outs (step cfgFixed prStd) State.init [.send [] ['5'], .send [] ['5'], .send [] ['5']]) =
    [.send (.ok 1), .send (.ok 2), .send .countLimit] := by decide
example : (outs (step cfgFixed { prStd with minIntervalBlocks := true }) State.init [.send [] ['5'], .send [] ['5']]) =
    [.send (.ok 1), .send .tooFreq] := by decide

/-- mock code: last two characters / left padding; a failing sender still stores the code and returns the hash;
    a negative CodeLen: empty code with the real sender, panic in mock mode -/
example : mockCode ['5','5','5','1','2'] 2 = ['1','2'] ∧ mockCode ['7'] 3 = ['0','0','7'] := by decide
example : (outs (step cfgFixed { prStd with smsFails := true }) State.init
    [.send ['1'] ['2','3'], .verify ['1'] ['2','3'] (.sym 1) 1]) = [.send (.smsFail 1), .verify .ok] := by decide
example : (outs (step cfgFixed { prStd with codeLen := -1 }) State.init
    [.send ['1'] ['2','3'], .verify ['1'] ['2','3'] (.lit []) 1]) = [.send (.ok 1), .verify .ok] := by decide
example : (outs (step cfgFixed { prMock with codeLen := -1 }) State.init [.send ['1'] ['2','3']]) = [.send .panic] := by decide

example : genNonce .len ['a','b','c'] 3 [2, 5, 0] = some ['c','c','a'] := by decide
example : (Code.sym 1).text .len prStd (fun _ => [9, 19, 0, 5, 3, 7]) = some ['9','9','0','5','3','7'] := by decide
example : WF (final (step cfgFixed prStd) State.init [.send ['1'] ['2','3']]) := wf_reachable _ _ _

/-! ### witnesses -/

/-- OPEN DEFECT — today's format `"%s-%s"` in both methods: ("1-2","3") and ("1","2-3") share the key `1-2-3`; the code
    sent to one pair is accepted for the other, to which nothing was sent -/
theorem witness_dashJoin_collision :
    mkKey .dashJoin ['1','-','2'] ['3'] = mkKey .dashJoin ['1'] ['2','-','3'] ∧
    (outs (step cfgDash { prMock with codeLen := 1 }) State.init
      [.send ['1','-','2'] ['3'], .verify ['1'] ['2','-','3'] (.lit ['3']) 1]) = [.send (.ok 1), .verify .ok] := by decide

theorem not_other_pair_rejected_dashJoin :
    ¬ (∀ (a p a' p' : Str) (code : Code), (a', p') ≠ (a, p) →
        (verify cfgDash { prMock with codeLen := 1 } (send cfgDash { prMock with codeLen := 1 } State.init a p).1 a' p' code 1).2 ≠ .ok) := by
  intro h
  exact h ['1','-','2'] ['3'] ['1'] ['2','-','3'] (.lit ['3']) (by decide) (by decide)

/-- OBSERVATION — a bounded cache forgets: with CacheSize 2, sends to two other pairs evict the entry; the sent code is then
    `notExist`, and in the minimum-interval regime a second send to the same pair is accepted again -/
theorem witness_eviction_forgets :
    (outs (step cfgFixed { prStd with cap := 2, minIntervalBlocks := true }) State.init
      [.send ['1'] ['1'], .send ['1'] ['1'], .send ['1'] ['2'], .send ['1'] ['3'],
       .verify ['1'] ['1'] (.sym 1) 1, .send ['1'] ['1']]) =
      [.send (.ok 1), .send .tooFreq, .send (.ok 2), .send (.ok 3), .verify .notExist, .send (.ok 4)] := by decide

/-- a verify (`Get`) promotes, a refused send (`Peek`) does not -/
theorem witness_lru_order :
    (outs (step cfgFixed { prStd with cap := 2 }) State.init
      [.send ['1'] ['1'], .send ['1'] ['2'], .verify ['1'] ['1'] (.lit ['x']) 0, .send ['1'] ['3'],
       .verify ['1'] ['1'] (.sym 1) 1, .verify ['1'] ['2'] (.sym 2) 2]) =
      [.send (.ok 1), .send (.ok 2), .verify .notMatch, .send (.ok 3), .verify .ok, .verify .notExist] := by decide

/-- FIXED (afdf9f1) — formats `"%s-%s"` for send, `"%s%s"` for verify: the code just sent is answered `notExist` -/
theorem witness_key_mismatch :
    (outs (step cfgOld prStd) State.init [.send ['8','6'] ['5','5','5'], .verify ['8','6'] ['5','5','5'] (.sym 1) 1]) =
      [.send (.ok 1), .verify .notExist] := by decide

/-- were both formats `"%s%s"`, (1,23) and (12,3) would share a key: the code sent to one verifies the other -/
theorem witness_plain_plain_collision :
    (outs (step ⟨.plain, .plain, .len⟩ prStd) State.init [.send ['1'] ['2','3'], .verify ['1','2'] ['3'] (.sym 1) 1]) =
      [.send (.ok 1), .verify .ok] := by decide

/-- FIXED (1eca911) — bound `fn(bSize - 1)`: whatever the source returns (here: every residue), '9' is never produced -/
theorem witness_last_char_unreachable :
    ∀ v ∈ List.range 30, genNonce .lenMinus1 "0123456789".toList 1 [v] ≠ some ['9'] := by decide

theorem witness_last_char_reachable_when_fixed :
    genNonce .len "0123456789".toList 1 [9] = some ['9'] := by decide

/-- a one-character alphabet makes `fn(bSize - 1)` panic (`Intn(0)`) -/
theorem witness_single_char_panics : genNonce .lenMinus1 ['a'] 1 [0] = none := by decide

theorem not_surjective_lenMinus1 :
    ¬ (∀ x ∈ "0123456789".toList, ∃ vals, genNonce cfgOld.nonceBound "0123456789".toList 1 vals = some [x]) := by
  intro h
  obtain ⟨vals, hv⟩ := h '9' (by decide)
  exact nonce_lenMinus1_never_last "0123456789".toList (by decide) 1 vals ['9'] hv '9' (by decide) (by simp)

end Nv.C19
