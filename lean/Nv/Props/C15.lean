import Nv.Proofs.C15Commute
/-!
C15 — property theorems for the mux worker group (model: `Nv.Model.C15`).
-/
namespace Nv.C15

/-! ### the worker-selection kernel -/

theorem srem_bounds (i s : BitVec 64) (hs : 0 < s.toInt) :
    -s.toInt < (i.srem s).toInt ∧ (i.srem s).toInt < s.toInt := by
  have hr := BitVec.toInt_srem i s
  have h1 : (i.toInt.tmod s.toInt) < s.toInt := Int.tmod_lt_of_pos _ hs
  have h2 : -s.toInt < (i.toInt.tmod s.toInt) := by
    have := Int.tmod_lt_of_pos (-i.toInt) hs
    rw [Int.neg_tmod] at this; omega
  omega

theorem neg_toInt_of_srem_neg (i s : BitVec 64) (hs : 0 < s.toInt) :
    (-(i.srem s)).toInt = -(i.srem s).toInt := by
  have hb := srem_bounds i s hs
  have hsb := BitVec.toInt_lt (x := s)
  have hne : i.srem s ≠ BitVec.intMin 64 := by
    intro h; rw [h] at hb; simp [BitVec.toInt_intMin] at hb; omega
  exact BitVec.toInt_neg_of_ne_intMin hne

/-- the repaired `locHash` is in range for every hash and every positive worker count -/
theorem lochash_in_range_remFirst : LocOk locRemFirst := by
  intro n h hs
  unfold locRemFirst
  simp only []
  have hb := srem_bounds h n hs
  have hn := neg_toInt_of_srem_neg h n hs
  split
  · rename_i hneg
    have hlt : (h.srem n).toInt < 0 := by simpa [BitVec.slt_iff_toInt_lt] using hneg
    omega
  · rename_i hnn
    have hge : 0 ≤ (h.srem n).toInt := by simpa [BitVec.slt_iff_toInt_lt] using hnn
    omega

/-- today's `locHash`: the minimum integer on 3 workers gives −2 (`index out of range [-2]`) -/
theorem witness_locAbsFirst_minInt : (locAbsFirst 3#64 (BitVec.intMin 64)).toInt = -2 := by decide

theorem not_lochash_in_range_absFirst : ¬ LocOk locAbsFirst := by
  intro h
  have := (h 3#64 (BitVec.intMin 64) (by decide)).1
  rw [witness_locAbsFirst_minInt] at this
  omega


theorem toInt_ofNat_small (n : Nat) (h : n < 2^63) : (BitVec.ofNat 64 n).toInt = (n : Int) := by
  have h1 : (BitVec.ofNat 64 n).toNat = n := by simp [BitVec.toNat_ofNat]; omega
  rw [BitVec.toInt_eq_toNat_of_lt (by omega), h1]

/-- `mux_same_key_same_worker`: the worker of an operation is a function of its key alone, and — for an
in-range kernel — it exists (no panic) and is below the worker count, for every key -/
theorem mux_same_key_same_worker (loc : Loc) (hl : LocOk loc) (n : Nat) (hn : 0 < n) (hb : n < 2^63)
    (a b : Op) (hk : a.key = b.key) :
    workerOf loc n a.key = workerOf loc n b.key ∧ ∃ w, workerOf loc n a.key = some w ∧ w < n := by
  refine ⟨by rw [hk], ?_⟩
  have hi := toInt_ofNat_small n hb
  have := hl (BitVec.ofNat 64 n) (BitVec.ofInt 64 a.key) (by rw [hi]; omega)
  rw [hi] at this
  unfold workerOf
  simp only
  refine ⟨(loc (BitVec.ofNat 64 n) (BitVec.ofInt 64 a.key)).toInt.toNat, ?_, ?_⟩
  · rw [if_pos this]
  · omega

example : workerOf locRemFirst 3 (-9223372036854775808) = some 2 := by decide
/-- today's kernel: the minimum integer has no worker on 3 workers (the indexing expression panics) -/
theorem witness_workerOf_minInt : workerOf locAbsFirst 3 (-9223372036854775808) = none := by decide

/-! ### coherence -/

/-- `mux_coherent`: for every configuration, every kernel, both facades, every capacity and worker count,
every operation sequence and every fault pattern: after each completed operation, whatever any worker's
cache holds for a key is exactly what the store holds for it. -/
theorem mux_coherent (cfg : Cfg) (hd : DelOk cfg) (loc : Loc) (lru sized : Bool) (cap workers : Nat)
    (ops : List (Op × List Bool)) :
    Coherent (final (step cfg loc) (State.init lru sized cap workers) ops) :=
  coherent_of_inv (inv_final cfg hd loc ops _ (inv_init loc lru sized cap workers))

/-- the same, after every prefix (`final` of every prefix is coherent) -/
theorem mux_coherent_prefix (cfg : Cfg) (hd : DelOk cfg) (loc : Loc) (lru sized : Bool) (cap workers : Nat)
    (pre post : List (Op × List Bool)) :
    Coherent (final (step cfg loc) (State.init lru sized cap workers) pre) ∧
    Coherent (final (step cfg loc) (State.init lru sized cap workers) (pre ++ post)) :=
  ⟨mux_coherent cfg hd loc lru sized cap workers pre, mux_coherent cfg hd loc lru sized cap workers (pre ++ post)⟩

/-! ### any store that meets the callback contract (audit follow-up: `MutSpec` generalisation) -/

/-- `mux_coherent_any_callbacks`: coherence does not depend on the in-memory store of the model. For ANY five callbacks
that meet `CBSpec` — a load returns what is stored and writes nothing; a mutation either fails and leaves the store as
it was or changes it at its key only and returns the row now stored; an upsert not handed the cached row may return a
partial row; none touches the cache — every operation sequence leaves every worker's cache coherent with the store. -/
theorem mux_coherent_any_callbacks (cb : CBs) (hs : CBSpec cb) (cfg : Cfg) (hd : DelOk cfg) (loc : Loc)
    (lru sized : Bool) (cap workers : Nat) (ops : List (Op × List Bool)) :
    Coherent (final (G.step cb cfg loc) (State.init lru sized cap workers) ops) :=
  coherent_of_inv (G.inv_final hs cfg hd loc ops _ (inv_init loc lru sized cap workers))

/-- every handler over such callbacks keeps its cache coherent, writes the store at its own key only, and caches
nothing under another key -/
theorem mux_handler_ok_any_callbacks (cb : CBs) (hs : CBSpec cb) (cfg : Cfg) (hd : DelOk cfg) (c : Ctx) (op : Op) :
    HOk op.key c (G.handle cb cfg c op).1 := G.handle_ok hs cfg hd c op

/-- the model of the property is the instance at the in-memory callbacks, and those meet the contract -/
theorem mux_model_is_instance (cfg : Cfg) (loc : Loc) :
    CBSpec memCBs ∧ (∀ s inp, G.step memCBs cfg loc s inp = step cfg loc s inp) :=
  ⟨memCBs_spec, step_mem cfg loc⟩

/-- nil rows are ordinary values of the model (`Val` 0 is the Go value nil; `MutSpec`/`CBSpec` put no condition on the value a
callback hands back): a cached row updated to the nil row is cached as the nil row — not left as it was, not dropped -/
theorem witness_update_to_nil_cached :
    let s := final (step ⟨.storeFirst, .once⟩ locRemFirst) (State.init false false 0 1) [(.add 1 5, []), (.upd 1 0, [])]
    s.store = [(1, 0)] ∧ s.caches = [⟨false, false, 0, [(1, 0)]⟩] := by decide

/-- the contract has teeth: an `addFn` that reports success without storing the row (so `MutSpec` fails) leaves the
cache holding a row the store does not have -/
def lyingAdd : CBs := { memCBs with add := fun c _ v => (.ok v, c) }

theorem witness_lying_add_incoherent :
    let s := final (G.step lyingAdd ⟨.storeFirst, .once⟩ locRemFirst) (State.init false false 0 1) [(.add 1 5, [])]
    s.store = [] ∧ s.caches = [⟨false, false, 0, [(1, 5)]⟩] := by decide

theorem lyingAdd_not_spec : ¬ CBSpec lyingAdd := by
  intro hs
  have h := mux_coherent_any_callbacks lyingAdd hs ⟨.storeFirst, .once⟩ (Or.inl rfl) locRemFirst false false 0 1 [(.add 1 5, [])]
  have := h ⟨false, false, 0, [(1, 5)]⟩ (by decide) 1 5 (by decide)
  revert this; decide


/-- what `Get`/`Peek` of any worker returns is the store's value -/
theorem mux_cached_value_is_stored (cfg : Cfg) (hd : DelOk cfg) (loc : Loc) (lru sized : Bool) (cap workers : Nat)
    (ops : List (Op × List Bool)) (c : Cache) (k : Key) (v : Val)
    (hc : c ∈ (final (step cfg loc) (State.init lru sized cap workers) ops).caches) (hp : cPeek c k = some v) :
    sGet (final (step cfg loc) (State.init lru sized cap workers) ops).store k = some v :=
  mux_coherent cfg hd loc lru sized cap workers ops c hc k v (sGet_mem hp)

-- non-vacuity: a run with a failing update in the middle leaves cache and store equal
set_option maxRecDepth 8192 in
example : (final (step ⟨.storeFirst, .once⟩ locRemFirst) (State.init true false 2 2)
    [(.add 1 5, []), (.upd 1 2, [true]), (.upd 1 2, []), (.utl 3 4, [false, true])]) =
    ⟨[(3, 4), (1, 7)], [⟨true, false, 2, []⟩, ⟨true, false, 2, [(1, 7)]⟩]⟩ := by decide

-- sized values on a small LRU: an update that grows the row past the capacity evicts it (never keeps the old row);
-- an upsert on a cache miss returns the partial row and caches nothing
set_option maxRecDepth 8192 in
example : (final (step ⟨.storeFirst, .once⟩ locRemFirst) (State.init true true 1 1)
    [(.add 1 4, []), (.upd 1 1, []), (.utr 2 3, []), (.utr 2 1, [])]) =
    ⟨[(2, 4), (1, 5)], [⟨true, true, 1, []⟩]⟩ := by decide

-- zero-sized rows (value % 3 = 0) fit an LRU of any capacity, even 0, and a delete removes them
set_option maxRecDepth 8192 in
example : (final (step ⟨.storeFirst, .once⟩ locRemFirst) (State.init true true 0 1)
    [(.add 1 3, []), (.add 2 6, []), (.del 1, [])]) =
    ⟨[(2, 6)], [⟨true, true, 0, [(2, 6)]⟩]⟩ := by decide

/-! ### the two handler-specific clauses -/

theorem step_eq (cfg : Cfg) (loc : Loc) (s : State) (inp : Op × List Bool) {w : Nat} {ca : Cache}
    (hw : workerOf loc s.caches.length inp.1.key = some w) (hca : s.caches[w]? = some ca) :
    step cfg loc s inp =
      ({ store := (handle cfg ⟨s.store, ca, inp.2, []⟩ inp.1).1.store,
         caches := s.caches.set w (handle cfg ⟨s.store, ca, inp.2, []⟩ inp.1).1.cache },
       ⟨(handle cfg ⟨s.store, ca, inp.2, []⟩ inp.1).2, (handle cfg ⟨s.store, ca, inp.2, []⟩ inp.1).1.trace⟩) := by
  unfold step; simp only [hw, hca]

theorem step_panic_of_none (cfg : Cfg) (loc : Loc) (s : State) (inp : Op × List Bool)
    (h : workerOf loc s.caches.length inp.1.key = none ∨
         ∃ w, workerOf loc s.caches.length inp.1.key = some w ∧ s.caches[w]? = none) :
    step cfg loc s inp = (s, ⟨.panic, []⟩) := by
  unfold step
  rcases h with h | ⟨w, hw, hc⟩
  · simp only [h]
  · simp only [hw, hc]

theorem hDelete_nil (cfg : Cfg) (hdo : DelOk cfg) (c : Ctx) (k : Key) (h : (hDelete cfg c k).2 = .nil) :
    cPeek (hDelete cfg c k).1.cache k = none := by
  unfold hDelete at h ⊢
  rcases hdo with hd | hd <;> simp only [hd] at h ⊢
  · -- storeFirst
    generalize hcall : callDel c k = r at h ⊢
    obtain ⟨r, c1⟩ := r
    cases r with
    | error e => simp at h
    | ok u => simp only; exact cPeek_cDelete _ _
  · -- cacheFirst
    generalize hcall : callDel { c with cache := cDelete c.cache k } k = r at h ⊢
    obtain ⟨r, c1⟩ := r
    cases r with
    | error e => simp at h
    | ok u =>
      simp only
      rw [(callDel_spec hcall).1]; exact cPeek_cDelete _ _

/-- `Proved` has teeth: with a handler that forgets `ca.Delete` (configuration `noDelete`) a successful delete leaves
the cache holding a value the store no longer has — coherence and `mux_delete_uncaches` are false of it -/
theorem witness_noDelete_incoherent :
    let s := final (step ⟨.noDelete, .once⟩ locRemFirst) (State.init false false 0 1) [(.add 1 5, []), (.del 1, [])]
    s.store = [] ∧ s.caches = [⟨false, false, 0, [(1, 5)]⟩] := by decide

theorem not_coherent_noDelete : ¬ (∀ ops, Coherent (final (step ⟨.noDelete, .once⟩ locRemFirst) (State.init false false 0 1) ops)) := by
  intro h
  have := h [(.add 1 5, []), (.del 1, [])] ⟨false, false, 0, [(1, 5)]⟩ (by decide) 1 5 (by decide)
  revert this; decide

/-- `mux_delete_uncaches`: in every state reachable by operations, a delete that reports success leaves
no cached entry for the key in any worker's cache -/
theorem mux_delete_uncaches (cfg : Cfg) (hd : DelOk cfg) (loc : Loc) (lru sized : Bool) (cap workers : Nat)
    (ops : List (Op × List Bool)) (k : Key) (f : List Bool)
    (hres : (step cfg loc (final (step cfg loc) (State.init lru sized cap workers) ops) (.del k, f)).2.res = .nil) :
    ∀ c ∈ (step cfg loc (final (step cfg loc) (State.init lru sized cap workers) ops) (.del k, f)).1.caches,
      cPeek c k = none := by
  have hinv := inv_final cfg hd loc ops _ (inv_init loc lru sized cap workers)
  generalize final (step cfg loc) (State.init lru sized cap workers) ops = s at hinv hres ⊢
  intro c hc
  rcases List.mem_iff_getElem?.1 hc with ⟨w', hw'⟩
  cases hw : workerOf loc s.caches.length k with
  | none =>
    rw [step_panic_of_none cfg loc s (.del k, f) (Or.inl hw)] at hres
    simp at hres
  | some w =>
    cases hca : s.caches[w]? with
    | none =>
      rw [step_panic_of_none cfg loc s (.del k, f) (Or.inr ⟨w, hw, hca⟩)] at hres
      simp at hres
    | some ca =>
      have he := step_eq cfg loc s (.del k, f) (w := w) (ca := ca) hw hca
      rw [he] at hres hw'
      simp only [handle] at hres hw'
      by_cases hww : w' = w
      · subst hww
        have hlt : w' < s.caches.length := (List.getElem?_eq_some_iff.1 hca).1
        rw [List.getElem?_set_self hlt] at hw'
        cases hw'
        exact hDelete_nil cfg hd _ k hres
      · have hne : w ≠ w' := fun e => hww e.symm
        rw [List.getElem?_set_ne hne] at hw'
        cases hp : cPeek c k with
        | none => rfl
        | some v =>
          have := (hinv w' c hw' k v (sGet_mem hp)).2
          rw [hw] at this
          exact absurd (Option.some.inj this).symm hww

/-- `mux_add_dup_no_store_call`: an add for a key its worker has cached reports the duplicate-key error,
invokes no callback, consumes no fault bit and leaves store and caches exactly as they were -/
theorem mux_add_dup_no_store_call (cfg : Cfg) (loc : Loc) (s : State) (k : Key) (v v0 : Val) (f : List Bool)
    (w : Nat) (ca : Cache) (hw : workerOf loc s.caches.length k = some w) (hca : s.caches[w]? = some ca)
    (hcached : cPeek ca k = some v0) :
    step cfg loc s (.add k v, f) = (s, ⟨.err .dup, []⟩) := by
  rw [step_eq cfg loc s (.add k v, f) (w := w) (ca := ca) hw hca]
  simp only [handle, hAdd, hcached]
  have : s.caches.set w ca = s.caches := by
    apply List.ext_getElem?
    intro i
    by_cases hi : i = w
    · subst hi
      rw [List.getElem?_set_self (List.getElem?_eq_some_iff.1 hca).1, hca]
    · rw [List.getElem?_set_ne (fun e => hi e.symm)]
  rw [this]

-- non-vacuity: key 1 cached by worker 1 of 2, the add is rejected without a callback
set_option maxRecDepth 8192 in
example : step ⟨.storeFirst, .once⟩ locRemFirst ⟨[(1, 5)], [⟨false, false, 0, []⟩, ⟨false, false, 0, [(1, 5)]⟩]⟩ (.add 1 9, [true]) =
    (⟨[(1, 5)], [⟨false, false, 0, []⟩, ⟨false, false, 0, [(1, 5)]⟩]⟩, ⟨.err .dup, []⟩) := by decide

/-! ### one at a time, in acceptance order (per-worker FIFO + single consumer) -/

def keyIs (k : Key) (inp : Op × List Bool) : Bool := decide (inp.1.key = k)

/-- the invariant of the queue machine -/
def QInv (loc : Loc) (q : QState) : Prop :=
  q.pending.length = q.st.caches.length ∧
  (∀ w l, q.pending[w]? = some l → ∀ inp ∈ l, workerOf loc q.st.caches.length inp.1.key = some w) ∧
  (∀ k w, workerOf loc q.st.caches.length k = some w →
    q.applied.filter (keyIs k) ++ ((q.pending[w]?).getD []).filter (keyIs k) = q.accepted.filter (keyIs k))

theorem step_caches_length (cfg : Cfg) (loc : Loc) (s : State) (inp : Op × List Bool) :
    (step cfg loc s inp).1.caches.length = s.caches.length := by
  unfold step
  split
  · rfl
  · split
    · rfl
    · simp


theorem filter_single_ne {k : Key} {inp : Op × List Bool} (h : inp.1.key ≠ k) : [inp].filter (keyIs k) = [] := by
  simp [keyIs, h]

theorem qinv_init (loc : Loc) (lru sized : Bool) (cap workers : Nat) : QInv loc (qInit lru sized cap workers) := by
  refine ⟨by simp [qInit, State.init], ?_, ?_⟩
  · intro w l hl inp hin
    simp only [qInit, List.getElem?_replicate] at hl
    split at hl
    · cases hl; simp at hin
    · cases hl
  · intro k w _
    simp only [qInit, List.getElem?_replicate]
    split <;> simp

theorem qinv_step (cfg : Cfg) (loc : Loc) (q q' : QState) (a : QAct) (h : QInv loc q)
    (hs : qStep cfg loc q a = some q') : QInv loc q' := by
  obtain ⟨hlen, hmem, hfil⟩ := h
  cases a with
  | enqueue inp =>
    simp only [qStep] at hs
    cases hw0 : workerOf loc q.st.caches.length inp.1.key with
    | none => simp [hw0] at hs
    | some w0 =>
      cases hl : q.pending[w0]? with
      | none => simp [hw0, hl] at hs
      | some l =>
        simp only [hw0, hl, Option.some.injEq] at hs
        subst hs
        have hlt : w0 < q.pending.length := (List.getElem?_eq_some_iff.1 hl).1
        refine ⟨by simpa using hlen, ?_, ?_⟩
        · intro w l' hl' x hx
          simp only at hl' ⊢
          by_cases hww : w = w0
          · subst hww
            rw [List.getElem?_set_self hlt] at hl'
            cases hl'
            rcases List.mem_append.1 hx with hx | hx
            · exact hmem w l hl x hx
            · simp at hx; subst hx; exact hw0
          · rw [List.getElem?_set_ne (fun e => hww e.symm)] at hl'
            exact hmem w l' hl' x hx
        · intro k w hkw
          simp only at hkw ⊢
          have hold := hfil k w hkw
          by_cases hww : w = w0
          · subst hww
            rw [List.getElem?_set_self hlt]
            rw [hl] at hold
            simp only [Option.getD_some, List.filter_append] at hold ⊢
            rw [← List.append_assoc, hold]
          · rw [List.getElem?_set_ne (fun e => hww e.symm)]
            have hne : inp.1.key ≠ k := by
              intro e; rw [e, hkw] at hw0; exact hww (Option.some.inj hw0)
            rw [List.filter_append, filter_single_ne hne, List.append_nil]
            exact hold
  | start =>
    simp only [qStep] at hs
    split at hs
    · cases hs; exact ⟨hlen, hmem, hfil⟩
    · split at hs <;> cases hs <;> exact ⟨hlen, hmem, hfil⟩
  | take w0 =>
    simp only [qStep] at hs
    split at hs
    · split at hs
      · cases hs; exact ⟨hlen, hmem, hfil⟩
      · cases hs
    · cases hs
  | complete w0 =>
    simp only [qStep] at hs
    cases hl : q.pending[w0]? with
    | none => simp [hl] at hs
    | some l =>
      cases l with
      | nil => simp [hl] at hs
      | cons inp rest =>
        cases hb : q.busy[w0]? with
        | none => simp [hl, hb] at hs
        | some b0 =>
        cases b0 with
        | zero => simp [hl, hb] at hs
        | succ b =>
        simp only [hl, hb, Option.some.injEq] at hs
        subst hs
        have hlt : w0 < q.pending.length := (List.getElem?_eq_some_iff.1 hl).1
        have hcl := step_caches_length cfg loc q.st inp
        have hinp := hmem w0 (inp :: rest) hl inp (List.mem_cons_self ..)
        refine ⟨by simp only [List.length_set, hcl]; exact hlen, ?_, ?_⟩
        · intro w l' hl' x hx
          simp only [hcl] at hl' ⊢
          by_cases hww : w = w0
          · subst hww
            rw [List.getElem?_set_self hlt] at hl'
            cases hl'
            exact hmem w (inp :: rest) hl x (List.mem_cons_of_mem _ hx)
          · rw [List.getElem?_set_ne (fun e => hww e.symm)] at hl'
            exact hmem w l' hl' x hx
        · intro k w hkw
          simp only [hcl] at hkw ⊢
          have hold := hfil k w hkw
          by_cases hww : w = w0
          · subst hww
            rw [List.getElem?_set_self hlt]
            rw [hl] at hold
            simp only [Option.getD_some] at hold ⊢
            rw [List.filter_append, List.append_assoc, ← hold]
            congr 1
            simp [List.filter_cons]
            split <;> simp
          · rw [List.getElem?_set_ne (fun e => hww e.symm)]
            have hne : inp.1.key ≠ k := by
              intro e; rw [e, hkw] at hinp; exact hww (Option.some.inj hinp)
            rw [List.filter_append, filter_single_ne hne, List.append_nil]
            exact hold

/-- `mux_key_serial_order`: under every interleaving of callers enqueueing and workers processing, the
operations applied for a key, followed by those still queued for it at its worker, are exactly the
operations accepted for that key, in acceptance order.  (Operations are applied one at a time: `applied`
is a sequence, each `process` step runs exactly one handler to completion.) -/
theorem mux_key_serial_order (cfg : Cfg) (loc : Loc) (lru sized : Bool) (cap workers : Nat) (q : QState)
    (hr : (qLTS cfg loc lru sized cap workers).Reach q) (k : Key) (w : Nat)
    (hw : workerOf loc q.st.caches.length k = some w) :
    q.applied.filter (keyIs k) ++ ((q.pending[w]?).getD []).filter (keyIs k) = q.accepted.filter (keyIs k) := by
  have : QInv loc q := by
    refine LTS.inv_of_step (qLTS cfg loc lru sized cap workers) (QInv loc) (qinv_init loc lru sized cap workers) ?_ q hr
    intro s a s' hi hs
    exact qinv_step cfg loc s s' a hi hs
  exact this.2.2 k w hw

/-- what was applied for a key is a prefix of what was accepted for it -/
theorem mux_applied_prefix_of_accepted (cfg : Cfg) (loc : Loc) (lru sized : Bool) (cap workers : Nat) (q : QState)
    (hr : (qLTS cfg loc lru sized cap workers).Reach q) (k : Key) (w : Nat)
    (hw : workerOf loc q.st.caches.length k = some w) :
    q.applied.filter (keyIs k) <+: q.accepted.filter (keyIs k) :=
  ⟨_, mux_key_serial_order cfg loc lru sized cap workers q hr k w hw⟩

/-- the store and the caches are those of the sequential run of the applied operations -/
theorem mux_state_is_sequential_run (cfg : Cfg) (loc : Loc) (lru sized : Bool) (cap workers : Nat) (q : QState)
    (hr : (qLTS cfg loc lru sized cap workers).Reach q) :
    q.st = final (step cfg loc) (State.init lru sized cap workers) q.applied := by
  induction hr with
  | init => rfl
  | step hreach hstep ih =>
    rename_i s a s'
    cases a with
    | enqueue inp =>
      simp only [qLTS, qStep] at hstep
      split at hstep
      · cases hstep
      · split at hstep
        · cases hstep
        · cases hstep; exact ih
    | start =>
      simp only [qLTS, qStep] at hstep
      split at hstep
      · cases hstep; exact ih
      · split at hstep <;> cases hstep <;> exact ih
    | take w =>
      simp only [qLTS, qStep] at hstep
      split at hstep
      · split at hstep
        · cases hstep; exact ih
        · cases hstep
      · cases hstep
    | complete w =>
      simp only [qLTS, qStep] at hstep
      split at hstep
      · cases hstep
        simp only [final_append, ← ih]
        rfl
      · cases hstep

/-- coherence under every schedule of callers and workers -/
theorem mux_coherent_all_schedules (cfg : Cfg) (hd : DelOk cfg) (loc : Loc) (lru sized : Bool) (cap workers : Nat) (q : QState)
    (hr : (qLTS cfg loc lru sized cap workers).Reach q) : Coherent q.st := by
  rw [mux_state_is_sequential_run cfg loc lru sized cap workers q hr]
  exact mux_coherent cfg hd loc lru sized cap workers q.applied


/-! ### operations of different workers commute (audit follow-up) -/

/-- states that no observer can tell apart: the same caches, the same row under every key (the store is a set of rows, the
model's list is one representation of it) -/
def StEq (s t : State) : Prop := s.caches = t.caches ∧ ∀ k, sGet s.store k = sGet t.store k

/-- `mux_ops_of_different_workers_commute`: two operations whose keys belong to different workers can be applied in either
order — each returns the same result and makes the same callbacks in both orders, and the two end states have the same
caches and the same rows. So the atomic-handler granularity of `mux_coherent_all_schedules` loses nothing for handlers of
different workers that run at the same time: every interleaving of their steps equals one of the two sequential orders,
and those agree. (Handlers of one worker never run at the same time: `mux_one_at_a_time`.) -/
theorem mux_ops_of_different_workers_commute (cfg : Cfg) (hd : DelOk cfg) (loc : Loc) (s : State) (a b : Op × List Bool)
    {wa wb : Nat} (hwa : workerOf loc s.caches.length a.1.key = some wa)
    (hwb : workerOf loc s.caches.length b.1.key = some wb) (hne : wa ≠ wb) :
    (step cfg loc (step cfg loc s b).1 a).2 = (step cfg loc s a).2 ∧
    (step cfg loc (step cfg loc s a).1 b).2 = (step cfg loc s b).2 ∧
    StEq (step cfg loc (step cfg loc s a).1 b).1 (step cfg loc (step cfg loc s b).1 a).1 := by
  have hk : a.1.key ≠ b.1.key := by
    intro e; rw [e, hwb] at hwa; exact hne (Option.some.inj hwa).symm
  have hla := step_caches_length cfg loc s a
  have hlb := step_caches_length cfg loc s b
  cases hca : s.caches[wa]? with
  | none =>
    have ha : ∀ t : State, t.caches.length = s.caches.length → t.caches[wa]? = none → step cfg loc t a = (t, ⟨.panic, []⟩) := by
      intro t hl hn; unfold step; rw [hl, hwa]; simp only [hn]
    have hlt : s.caches.length ≤ wa := List.getElem?_eq_none_iff.1 hca
    have hb' : (step cfg loc s b).1.caches[wa]? = none := List.getElem?_eq_none_iff.2 (by rw [hlb]; exact hlt)
    rw [ha s rfl hca, ha _ hlb hb']
    exact ⟨rfl, rfl, rfl, fun _ => rfl⟩
  | some ca =>
  cases hcb : s.caches[wb]? with
  | none =>
    have hb : ∀ t : State, t.caches.length = s.caches.length → t.caches[wb]? = none → step cfg loc t b = (t, ⟨.panic, []⟩) := by
      intro t hl hn; unfold step; rw [hl, hwb]; simp only [hn]
    have hlt : s.caches.length ≤ wb := List.getElem?_eq_none_iff.1 hcb
    have ha' : (step cfg loc s a).1.caches[wb]? = none := List.getElem?_eq_none_iff.2 (by rw [hla]; exact hlt)
    rw [hb s rfl hcb, hb _ hla ha']
    exact ⟨rfl, rfl, rfl, fun _ => rfl⟩
  | some cb =>
    -- the two handler runs from s
    have ea := step_eq cfg loc s a hwa hca
    have eb := step_eq cfg loc s b hwb hcb
    have oka := handle_ok cfg hd ⟨s.store, ca, a.2, []⟩ a.1
    have okb := handle_ok cfg hd ⟨s.store, cb, b.2, []⟩ b.1
    -- b after a
    have hwb1 : workerOf loc (step cfg loc s a).1.caches.length b.1.key = some wb := by rw [hla]; exact hwb
    have hcb1 : (step cfg loc s a).1.caches[wb]? = some cb := by
      rw [ea]; simp only; rw [List.getElem?_set_ne hne]; exact hcb
    have eb1 := step_eq cfg loc (step cfg loc s a).1 b hwb1 hcb1
    have nb : Near b.1.key ⟨s.store, cb, b.2, []⟩ ⟨(step cfg loc s a).1.store, cb, b.2, []⟩ := by
      refine ⟨rfl, rfl, rfl, ?_⟩
      rw [ea]; exact oka.frame _ (Ne.symm hk)
    have sb := handle_near cfg b.1 nb
    have okb1 := handle_ok cfg hd ⟨(step cfg loc s a).1.store, cb, b.2, []⟩ b.1
    -- a after b
    have hwa2 : workerOf loc (step cfg loc s b).1.caches.length a.1.key = some wa := by rw [hlb]; exact hwa
    have hca2 : (step cfg loc s b).1.caches[wa]? = some ca := by
      rw [eb]; simp only; rw [List.getElem?_set_ne (Ne.symm hne)]; exact hca
    have ea2 := step_eq cfg loc (step cfg loc s b).1 a hwa2 hca2
    have na : Near a.1.key ⟨s.store, ca, a.2, []⟩ ⟨(step cfg loc s b).1.store, ca, a.2, []⟩ := by
      refine ⟨rfl, rfl, rfl, ?_⟩
      rw [eb]; exact okb.frame _ hk
    have sa := handle_near cfg a.1 na
    have oka2 := handle_ok cfg hd ⟨(step cfg loc s b).1.store, ca, a.2, []⟩ a.1
    refine ⟨?_, ?_, ?_, ?_⟩
    · rw [ea2, ea]; simp only [sa.1, sa.2.trace]
    · rw [eb1, eb]; simp only [sb.1, sb.2.trace]
    · rw [eb1, ea2]
      simp only [sb.2.cache, sa.2.cache]
      rw [ea, eb]
      simp only
      exact List.set_comm _ _ hne
    · intro k
      rw [eb1, ea2]
      simp only
      by_cases h1 : k = a.1.key
      · subst h1
        rw [okb1.frame _ hk, sa.2.row]
        rw [ea]
      · by_cases h2 : k = b.1.key
        · subst h2
          rw [oka2.frame _ h1, sb.2.row]
          rw [eb]
        · rw [okb1.frame k h2, oka2.frame k h1]
          rw [ea, eb]
          simp only
          rw [oka.frame k h1, okb.frame k h2]

/-- `StEq` is a congruence for the group: from indistinguishable states every operation returns the same result, makes the
same callbacks and leads to indistinguishable states — so the two orders of `mux_ops_of_different_workers_commute` stay
indistinguishable under everything that follows -/
theorem mux_step_respects_steq (cfg : Cfg) (hd : DelOk cfg) (loc : Loc) (s t : State) (inp : Op × List Bool) (h : StEq s t) :
    (step cfg loc t inp).2 = (step cfg loc s inp).2 ∧ StEq (step cfg loc s inp).1 (step cfg loc t inp).1 := by
  obtain ⟨hc, hs⟩ := h
  cases hw : workerOf loc s.caches.length inp.1.key with
  | none =>
    have e1 : step cfg loc s inp = (s, ⟨.panic, []⟩) := by unfold step; simp only [hw]
    have e2 : step cfg loc t inp = (t, ⟨.panic, []⟩) := by unfold step; rw [← hc]; simp only [hw]
    rw [e1, e2]; exact ⟨rfl, hc, hs⟩
  | some w =>
    cases hca : s.caches[w]? with
    | none =>
      have e1 : step cfg loc s inp = (s, ⟨.panic, []⟩) := by unfold step; simp only [hw, hca]
      have e2 : step cfg loc t inp = (t, ⟨.panic, []⟩) := by unfold step; rw [← hc]; simp only [hw, hca]
      rw [e1, e2]; exact ⟨rfl, hc, hs⟩
    | some ca =>
      have e1 := step_eq cfg loc s inp hw hca
      have e2 := step_eq cfg loc t inp (by rw [← hc]; exact hw) (by rw [← hc]; exact hca)
      have n : Near inp.1.key ⟨s.store, ca, inp.2, []⟩ ⟨t.store, ca, inp.2, []⟩ := ⟨rfl, rfl, rfl, (hs _).symm⟩
      have sm := handle_near cfg inp.1 n
      have ok1 := handle_ok cfg hd ⟨s.store, ca, inp.2, []⟩ inp.1
      have ok2 := handle_ok cfg hd ⟨t.store, ca, inp.2, []⟩ inp.1
      rw [e1, e2]
      refine ⟨?_, ?_, ?_⟩
      · simp only [sm.1, sm.2.trace]
      · simp only [sm.2.cache, hc]
      · intro k
        simp only
        by_cases hk : k = inp.1.key
        · subst hk; exact sm.2.row.symm
        · rw [ok1.frame k hk, ok2.frame k hk]; exact hs k


/-! ### one consumer per worker: handlers of one worker never run at the same time (audit follow-up) -/

/-- bookkeeping of the consumers when `Start` is guarded -/
def BInv (q : QState) : Prop :=
  q.busy.length = q.pending.length ∧ q.consumers ≤ 1 ∧
  ∀ (w b : Nat), q.busy[w]? = some b → b ≤ q.consumers ∧ ∀ l : List (Op × List Bool), q.pending[w]? = some l → b ≤ l.length

theorem binv_init (lru sized : Bool) (cap workers : Nat) : BInv (qInit lru sized cap workers) := by
  refine ⟨by simp [qInit], by simp [qInit], ?_⟩
  intro w b hb
  simp only [qInit, List.getElem?_replicate] at hb ⊢
  split at hb
  · cases hb; exact ⟨Nat.le_refl _, fun l _ => Nat.zero_le _⟩
  · cases hb

theorem binv_step (cfg : Cfg) (hg : cfg.startGuard = .once) (loc : Loc) (q q' : QState) (a : QAct) (h : BInv q)
    (hs : qStep cfg loc q a = some q') : BInv q' := by
  obtain ⟨hlen, hc, hb⟩ := h
  cases a with
  | start =>
    simp only [qStep, hg, beq_self_eq_true, if_true] at hs
    split at hs
    · rename_i h0
      have h0' : q.consumers = 0 := by simpa using h0
      cases hs
      refine ⟨hlen, by simp, fun w b hw => ?_⟩
      have := hb w b hw
      exact ⟨by simp only; omega, this.2⟩
    · cases hs; exact ⟨hlen, hc, hb⟩
  | enqueue inp =>
    simp only [qStep] at hs
    split at hs
    · cases hs
    · rename_i w0 _
      split at hs
      · cases hs
      · rename_i l hl
        cases hs
        have hlt : w0 < q.pending.length := (List.getElem?_eq_some_iff.1 hl).1
        refine ⟨by simpa using hlen, hc, fun w b hw => ?_⟩
        refine ⟨(hb w b hw).1, fun l' hl' => ?_⟩
        simp only at hl'
        by_cases hww : w = w0
        · subst hww
          rw [List.getElem?_set_self hlt] at hl'
          cases hl'
          have := (hb w b hw).2 l hl
          simp only [List.length_append, List.length_singleton]; omega
        · rw [List.getElem?_set_ne (fun e => hww e.symm)] at hl'
          exact (hb w b hw).2 l' hl'
  | take w0 =>
    simp only [qStep] at hs
    split at hs
    · rename_i l b0 hl hb0
      split at hs
      · rename_i hcond
        simp only [Bool.and_eq_true, decide_eq_true_eq] at hcond
        cases hs
        have hlt : w0 < q.busy.length := (List.getElem?_eq_some_iff.1 hb0).1
        refine ⟨by simpa using hlen, hc, fun w b hw => ?_⟩
        simp only at hw
        by_cases hww : w = w0
        · subst hww
          rw [List.getElem?_set_self hlt] at hw
          simp only [Option.some.injEq] at hw
          subst hw
          refine ⟨by simp only; omega, fun l' hl' => ?_⟩
          simp only at hl'
          rw [hl] at hl'; cases hl'; omega
        · rw [List.getElem?_set_ne (fun e => hww e.symm)] at hw
          exact hb w b hw
      · cases hs
    · cases hs
  | complete w0 =>
    simp only [qStep] at hs
    split at hs
    · rename_i inp rest b0 hl hb0
      cases hs
      have hltb : w0 < q.busy.length := (List.getElem?_eq_some_iff.1 hb0).1
      have hltp : w0 < q.pending.length := (List.getElem?_eq_some_iff.1 hl).1
      refine ⟨by simpa using hlen, hc, fun w b hw => ?_⟩
      simp only at hw
      by_cases hww : w = w0
      · subst hww
        rw [List.getElem?_set_self hltb] at hw
        simp only [Option.some.injEq] at hw
        subst hw
        have := hb w (b0 + 1) hb0
        refine ⟨by simp only; omega, fun l' hl' => ?_⟩
        simp only at hl'
        rw [List.getElem?_set_self hltp] at hl'
        cases hl'
        have := this.2 _ hl
        simp only [List.length_cons] at this; omega
      · rw [List.getElem?_set_ne (fun e => hww e.symm)] at hw
        refine ⟨(hb w b hw).1, fun l' hl' => ?_⟩
        simp only at hl'
        rw [List.getElem?_set_ne (fun e => hww e.symm)] at hl'
        exact (hb w b hw).2 l' hl'
    · cases hs

/-- `mux_one_at_a_time`: with a guarded `Start`, under every schedule of Start calls, callers and consumers, at most
one operation of a worker is being handled at any moment — in particular never two operations on the same key
(same key ⇒ same worker) -/
theorem mux_one_at_a_time (cfg : Cfg) (hg : cfg.startGuard = .once) (loc : Loc) (lru sized : Bool) (cap workers : Nat)
    (q : QState) (hr : (qLTS cfg loc lru sized cap workers).Reach q) (w : Nat) : (inFlight q w).length ≤ 1 := by
  have hb : BInv q := LTS.inv_of_step (qLTS cfg loc lru sized cap workers) BInv (binv_init lru sized cap workers)
    (fun s a s' hi hs => binv_step cfg hg loc s s' a hi hs) q hr
  unfold inFlight
  cases hbw : q.busy[w]? with
  | none => simp
  | some b =>
    have := (hb.2.2 w b hbw).1
    have hc := hb.2.1
    simp only [Option.getD_some, List.length_take]
    omega

/-- today's `Worker.Start` (no guard): after `Start(); Start()` two operations on the same key are handled at the
same time -/
theorem witness_start_twice_two_in_flight :
    ((qLTS ⟨.storeFirst, .unguarded⟩ locRemFirst false false 0 1).run (qInit false false 0 1)
      [.start, .start, .enqueue (.utr 7 1, []), .enqueue (.utr 7 1, []), .take 0, .take 0]).map (fun q => inFlight q 0) =
    some [(.utr 7 1, []), (.utr 7 1, [])] := by decide

/-- with the guard the second consumer does not exist: the second `take` is not enabled -/
example : (qLTS ⟨.storeFirst, .once⟩ locRemFirst false false 0 1).run (qInit false false 0 1)
      [.start, .start, .enqueue (.utr 7 1, []), .enqueue (.utr 7 1, []), .take 0, .take 0] = none := by decide

end Nv.C15
