import Nv.Model.C15
/-!
C15 — property theorems for the mux worker group (model: `Nv.Model.C15`).
-/
namespace Nv.C15

/-! ### the worker-selection kernel -/

theorem srem_bounds (i s : BitVec 64) (hs : 0 < s.toInt) :
    -s.toInt < (i.srem s).toInt ∧ (i.srem s).toInt < s.toInt := by
  have hr := BitVec.toInt_srem i s
  have h1 : (i.toInt.tmod s.toInt) < s.toInt := Int.tmod_lt_of_pos _ hs
  have h2 : -s.toInt < (i.toInt.tmod s.toInt) := by
    have := Int.tmod_lt_of_pos (-i.toInt) hs
    rw [Int.neg_tmod] at this; omega
  omega

theorem neg_toInt_of_srem_neg (i s : BitVec 64) (hs : 0 < s.toInt) :
    (-(i.srem s)).toInt = -(i.srem s).toInt := by
  have hb := srem_bounds i s hs
  have hsb := BitVec.toInt_lt (x := s)
  have hne : i.srem s ≠ BitVec.intMin 64 := by
    intro h; rw [h] at hb; simp [BitVec.toInt_intMin] at hb; omega
  exact BitVec.toInt_neg_of_ne_intMin hne

/-- the repaired `locHash` is in range for every hash and every positive worker count -/
theorem lochash_in_range_remFirst : LocOk locRemFirst := by
  intro n h hs
  unfold locRemFirst
  simp only []
  have hb := srem_bounds h n hs
  have hn := neg_toInt_of_srem_neg h n hs
  split
  · rename_i hneg
    have hlt : (h.srem n).toInt < 0 := by simpa [BitVec.slt_iff_toInt_lt] using hneg
    omega
  · rename_i hnn
    have hge : 0 ≤ (h.srem n).toInt := by simpa [BitVec.slt_iff_toInt_lt] using hnn
    omega

/-- today's `locHash`: the minimum integer on 3 workers gives −2 (`index out of range [-2]`) -/
theorem witness_locAbsFirst_minInt : (locAbsFirst 3#64 (BitVec.intMin 64)).toInt = -2 := by decide

theorem not_lochash_in_range_absFirst : ¬ LocOk locAbsFirst := by
  intro h
  have := (h 3#64 (BitVec.intMin 64) (by decide)).1
  rw [witness_locAbsFirst_minInt] at this
  omega

end Nv.C15
